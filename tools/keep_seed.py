#!/usr/bin/env python3
"""keep_seed.py <seed dir> <id> <caught_by> <note> : copy a confirmed seeded change to /verif/seeded/<id>/"""
import sys, os, json, shutil
src, sid, caught, note = sys.argv[1:5]
dst = f'/verif/seeded/{sid}'
os.makedirs(dst, exist_ok=True)
for f in os.listdir(src):
    if f.endswith('.diff') or f.endswith('.go') or f.endswith('.md') or f.endswith('.txt') or f.endswith('.yml') or f.endswith('.yaml'):
        shutil.copy(os.path.join(src, f), os.path.join(dst, f + ('.txt' if f.endswith('.go') else '')))
meta = {}
try: meta = json.load(open(os.path.join(src, 'meta.json')))
except Exception as e: meta = {'note': 'no meta.json from the seeder'}
meta['confirmed_by_me'] = "tools/try_seed.sh: demo passes on the clean tree and fails with the patch; go test -vet=off -count=1 . ./cmd/... passes with the patch"
meta['caught_by'] = caught
meta['verification_note'] = note
json.dump(meta, open(os.path.join(dst, 'meta.json'), 'w'), indent=1)
print('kept', dst)
