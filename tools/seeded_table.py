#!/usr/bin/env python3
import json, os
rows=[]
for d in sorted(os.listdir('/verif/seeded')):
    p=f'/verif/seeded/{d}/meta.json'
    if not os.path.exists(p): continue
    m=json.load(open(p))
    rows.append((d, m.get('property', d[:3]), (m.get('needs_to_manifest') or m.get('what_breaks') or '')[:220].replace('\n',' ').replace('|','/'), m.get('caught_by','').replace('|','/'), m.get('verification_note','').replace('|','/')))
print('| seeded change | needs, to manifest | caught by | note |')
print('|---|---|---|---|')
for r in rows:
    print(f'| `{r[0]}` | {r[2]} | {r[3]} | {r[4]} |')
print(len(rows))
