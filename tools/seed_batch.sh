#!/bin/bash
# seed_batch.sh <worktree prefix> <prop...> : try mutant1 and mutant2 of each property's worktree
pre="$1"; shift
for p in "$@"; do for m in 1 2; do
  d="$pre-$p"
  out=$(timeout 3000 /verif/tools/try_seed.sh $d $d/_seed/mutant$m $p quick 2>&1)
  demo_clean=$(echo "$out" | sed -n '/== clean tree: demo/,/== apply patch/p' | grep -c "^ok")
  demo_mut=$(echo "$out" | sed -n '/== mutated tree: demo/,/== mutated tree: existing suite/p' | grep -c "^FAIL")
  suite=$(echo "$out" | sed -n '/== mutated tree: existing suite/,/== registered check/p' | grep -c "^ok")
  ex=$(echo "$out" | grep -E "^exit=" | tail -1)
  nv=$(echo "$out" | grep -cE "^VIOLATION")
  first=$(echo "$out" | grep -E "^VIOLATION" | head -1 | sed 's/.*replay\///' | cut -c1-90)
  echo "$p m$m demo_clean_ok=$demo_clean demo_mut_fail=$demo_mut suite_ok=$suite $ex viol_lines=$nv $first $(echo "$out" | grep -E 'PATCH DOES NOT|DOES NOT BUILD|INCONCL' | head -1 | cut -c1-100)"
done; done
