#!/usr/bin/env python3
"""addfinding.py <property> <status open|fixed> <signature> <commit or -> <description>"""
import json, sys
p='/verif/known_findings.json'
d=json.load(open(p))
prop,status,sig,commit,desc=sys.argv[1:6]
e={"property":prop,"signature":sig,"status":status,"description":desc}
if commit!='-': e["commit"]=commit
if status=='fixed': e["record"]=f"fixed: property={prop} {commit} {desc}"
d['findings']=[f for f in d['findings'] if not (f['property']==prop and f['signature']==sig)]
d['findings'].append(e)
json.dump(d,open(p,'w'),indent=1)
print(len(d['findings']),'findings')
