#!/bin/bash
# try_seed.sh <worktree> <mutant dir (containing patch.diff)> <property> [tier] [extra props...]
# Confirms the seeded change (suite passes, demo fails with / passes without) and runs the
# registered check(s) against the worktree with the change applied (VERIF_REPO), then reverts.
set -u
export GOFLAGS=-mod=mod GOPROXY=off GOSUMDB=off GOTOOLCHAIN=local
WT="$1"; M="$2"; PROP="$3"; TIER="${4:-quick}"
cd "$WT" || exit 2
git checkout -q -- . ; rm -f demo_test.go; git checkout -q --detach $(git -C /repo rev-parse HEAD) 2>/dev/null || echo "could not move worktree to /repo HEAD"
demo=""
[ -f "$M/demo_test.go" ] && demo="$M/demo_test.go"
echo "== clean tree: demo"
if [ -n "$demo" ]; then cp "$demo" ./zz_seed_demo_test.go; go test -vet=off -count=1 -run TestSeedDemo . 2>&1 | tail -3; fi
echo "== apply patch"
git apply "$M/patch.diff" || { echo "PATCH DOES NOT APPLY"; rm -f zz_seed_demo_test.go; exit 2; }
go build ./... && go build -tags verif ./... || { echo "DOES NOT BUILD"; }
echo "== mutated tree: demo (must fail)"
if [ -n "$demo" ]; then go test -vet=off -count=1 -run TestSeedDemo . 2>&1 | tail -5; fi
rm -f zz_seed_demo_test.go
echo "== mutated tree: existing suite (must pass)"
go test -vet=off -count=1 . ./cmd/... 2>&1 | tail -3
echo "== registered check $PROP $TIER against the mutated tree"
shift 3; [ $# -gt 0 ] && shift
for p in $PROP "$@"; do
  ( cd /verif && VERIF_REPO="$WT" VERIF_DIR_EVIDENCE_SUFFIX=seed ./check $p $TIER 2>&1 | grep -E "^VIOLATION|^KNOWN|^INCONCLUSIVE|tier=" | head -8; echo "exit=${PIPESTATUS[0]}" )
done
cd "$WT"; git checkout -q -- .
