#!/usr/bin/env python3
"""Regenerates the generated part of DESIGN.md (between the GENERATED markers): the findings table
from known_findings.json and the seeded-change table from seeded/*/meta.json."""
import json, os, re
V='/verif'
kf=json.load(open(f'{V}/known_findings.json'))['findings']
out=[]
out.append('### 9.4 Genuine defects found by the monitors (generated from known_findings.json)\n')
out.append('Every line of §6 was re-found by its monitor, plus defects the probes had not seen. Each')
out.append('repaired defect is one unguarded `fix:` commit in /repo (the suite is re-run with the guard')
out.append('off after every commit: `tools/baseline.py`, 1706/1706 pinned tests) and a `fixed:` record;')
out.append('`open` entries are the known findings the checks print as KNOWN-FINDING.\n')
out.append('| property | status | signature | witness |')
out.append('|---|---|---|---|')
for f in sorted(kf, key=lambda f:(f['property'], f['status']!='open', f['signature'])):
    st = 'OPEN' if f['status']=='open' else 'fixed '+f.get('commit','')
    out.append(f"| {f['property']} | {st} | `{f['signature']}` | {f['description'].replace('|','/')} |")
nopen=sum(1 for f in kf if f['status']=='open'); nfixed=len(kf)-nopen
out.append(f'\n{nfixed} fixed, {nopen} open.\n')
out.append('### 9.5 Seeded changes (generated from seeded/*/meta.json)\n')
out.append('Each change was written by a fresh sub-agent that was given only the property text and a scratch')
out.append('worktree, and was kept only after `tools/try_seed.sh` confirmed: the existing suite passes with it,')
out.append('its demonstration fails with it and passes without it. "MISSED" marks changes the first version')
out.append('of a check did not catch; the note says what was strengthened.\n')
out.append('| seeded change | what it needs to manifest | caught by | note |')
out.append('|---|---|---|---|')
n=0; missed=0
for d in sorted(os.listdir(f'{V}/seeded')):
    p=f'{V}/seeded/{d}/meta.json'
    if not os.path.exists(p): continue
    m=json.load(open(p)); n+=1
    need=(m.get('needs_to_manifest') or m.get('what_breaks') or '')
    need=re.sub(r'\s+',' ',need)[:260].replace('|','/')
    note=m.get('verification_note','').replace('|','/')
    if 'MISSED' in note: missed+=1
    out.append(f"| `{d}` | {need} | {m.get('caught_by','').replace('|','/')} | {note} |")
out.append(f'\n{n} seeded changes kept; {missed} were missed by the first version of a check and are caught now.\n')
s=open(f'{V}/DESIGN.md').read()
a='<!-- GENERATED:BEGIN -->'; b='<!-- GENERATED:END -->'
body=a+'\n'+'\n'.join(out)+'\n'+b
if a in s:
    s=s[:s.index(a)]+body+s[s.index(b)+len(b):]
else:
    s=s+'\n'+body+'\n'
open(f'{V}/DESIGN.md','w').write(s)
print('findings',len(kf),'seeded',n,'missed',missed)
