#!/usr/bin/env python3
"""mkseedprompt.py <worktree> <prop> [emphasis file] : prompt for a seeder sub-agent (property text only + ideas already used)"""
import sys, json, glob, os
wt, prop = sys.argv[1:3]
head = open('/verif/tools/seedprompt_head.txt').read().replace('@WT@', wt)
p = [json.loads(l) for l in open('/verif/properties.jsonl') if json.loads(l)['id'] == prop][0]
out = head + '## The property to break\n\n%s — %s\n\n%s\n\nQuantified over: %s\n\n' % (p['id'], p['title'], p['statement'], p['quantifier']['text'])
emph = open(sys.argv[3]).read() if len(sys.argv) > 3 else ("For this round prefer defects that need TWO cooperating sites that each look fine alone, a multi-step sequence (state left behind by one construct and observed by a later one), or an unusual but valid input shape (rarely used YAML styles such as flow mappings, anchors/aliases, block scalars, quoted keys; rarely used workflow features; boundary values; non-ASCII text) — and look in files and functions that the already used ideas did NOT touch.")
out += '\n## Emphasis for this round\n\n' + emph + '\n\n## Already used ideas (do NOT repeat these mechanisms)\n\n'
for d in sorted(glob.glob('/verif/seeded/%s-*' % prop)):
    try: m = json.load(open(d + '/meta.json'))
    except Exception: continue
    out += '- %s: %s\n' % (m.get('title', os.path.basename(d)), str(m.get('what_breaks', ''))[:300])
print(out)
