#!/bin/bash
# sweep.sh <tier> <seed...> : runs every registered check at the given seeds; prints one line per run
cd /verif
tier="$1"; shift
props=$(python3 -c "import json; print(' '.join(c['property_id'] for c in json.load(open('MANIFEST.json'))['checks']))")
for seed in "$@"; do
  for p in $props; do
    t0=$(date +%s)
    out=$(VERIF_SEED=$seed ./check $p $tier 2>&1); rc=$?
    t1=$(date +%s)
    echo "seed=$seed $p rc=$rc wall=$((t1-t0))s $(echo "$out" | grep -cE '^VIOLATION') violations $(echo "$out" | grep -cE '^KNOWN-FINDING') known $(echo "$out" | grep -E '^INCONCLUSIVE' | head -2 | tr '\n' ' ')"
    if [ $rc -ne 0 ]; then echo "$out" | grep -E "^VIOLATION|signature:|^INCONCLUSIVE" | head -10; fi
  done
done
