#!/usr/bin/env python3
"""Runs /repo's test suite with the verif guard OFF and compares with the pinned stable_pass list
of /root/.vp/BASELINE.json. Exit 0 iff every pinned test passes."""
import json, subprocess, sys, os
repo = sys.argv[1] if len(sys.argv) > 1 else '/repo'
base = json.load(open('/root/.vp/BASELINE.json'))
want = set(base['stable_pass'])
env = dict(os.environ, GOFLAGS='-mod=mod', GOPROXY='off', GOSUMDB='off', GOTOOLCHAIN='local')
p = subprocess.run(['go','test','-mod=mod','-json','-vet=off','-count=1','-timeout','25m','./...'], cwd=repo, env=env, capture_output=True, text=True)
passed=set(); failed=set()
for line in p.stdout.splitlines():
    try: ev=json.loads(line)
    except Exception: continue
    if ev.get('Test') and ev.get('Action') in ('pass','fail'):
        k=f"{ev['Package']}::{ev['Test']}"
        (passed if ev['Action']=='pass' else failed).add(k)
missing = sorted(want - passed)
print(f"pinned={len(want)} passed_of_pinned={len(want & passed)} failed_total={len(failed)}")
for m in missing[:40]: print("NOT PASSING:", m, "(failed)" if m in failed else "(not run)")
sys.exit(1 if missing else 0)
