#!/bin/bash
# seed_regress.sh [jobs] [id glob] : re-applies every kept seeded change to a scratch worktree at /repo HEAD and
# re-runs the quick check named first in its caught_by; expects exit 1 with a VIOLATION line.
# Writes /verif/seeded/REGRESSION.txt. Worktrees /tmp/regress-<k> are removed at the end.
export GOFLAGS=-mod=mod GOPROXY=off GOSUMDB=off GOTOOLCHAIN=local
J="${1:-4}"; G="${2:-*}"
cd /verif
if [ -n "$REGRESS_LIST" ]; then cp "$REGRESS_LIST" /tmp/regress-list.txt; else ls -d seeded/$G/ | sed 's#/$##' > /tmp/regress-list.txt; fi
OUT="${REGRESS_OUT:-/verif/seeded/REGRESSION.txt}"
HEAD=$(git -C /repo rev-parse HEAD)
worker() {
  k=$1; wt=/tmp/regress-$k
  git -C /repo worktree add --detach $wt $HEAD -q 2>/dev/null
  awk -v k=$k -v j=$J 'NR%j==k%j' /tmp/regress-list.txt | while read d; do
    id=$(basename $d)
    prop=$(python3 -c "
import json,re,sys
m=json.load(open('$d/meta.json')); c=re.findall(r'C\d\d', m.get('caught_by',''))
print(c[0] if c else '$id'[:3])")
    patch=$d/patch.diff; [ -f $d/patch-rebased.diff ] && patch=$d/patch-rebased.diff
    if grep -q '"superseded_by"' $d/meta.json; then echo "$id $prop SUPERSEDED (see meta.json: the seeded slip is harmless after a later fix)"; continue; fi
    ( cd $wt && git reset -q --hard && git clean -qfd -e _seed )
    if ! git -C $wt apply /verif/$patch 2>/dev/null; then
      # the patch predates later fixes in /repo: try a 3-way merge using the blobs named in the patch
      ( cd $wt && git reset -q --hard )
      if ! git -C $wt apply --3way /verif/$patch >/dev/null 2>&1 || git -C $wt diff --name-only --diff-filter=U | grep -q .; then
        ( cd $wt && git reset -q --hard )
        echo "$id $prop NOAPPLY"; continue
      fi
      git -C $wt reset -q
    fi
    if ! ( cd $wt && go build ./... 2>/dev/null ); then echo "$id $prop NOBUILD"; continue; fi
    out=$(cd /verif && VERIF_REPO=$wt timeout 3000 ./check $prop quick 2>&1); ex=$?
    nv=$(echo "$out" | grep -c '^VIOLATION')
    sig=$(echo "$out" | grep '^VIOLATION' | head -1 | sed 's#.*replay/##' | cut -c1-80)
    inc=$(echo "$out" | grep -c '^INCONCLUSIVE')
    st=MISSED; [ $ex -eq 1 ] && [ $nv -gt 0 ] && st=CAUGHT
    echo "$id $prop $st exit=$ex violations=$nv inconclusive=$inc $sig"
  done
  git -C /repo worktree remove --force $wt
  rm -rf /verif/.build/$(echo -n $wt | md5sum | cut -c1-10)
}
for k in $(seq 1 $J); do worker $k > /tmp/regress-out-$k.txt 2>&1 & done
wait
{ echo "# seed regression at /repo $HEAD, /verif $(git rev-parse --short HEAD), $(date -u +%F)"; cat /tmp/regress-out-*.txt | sort; } > "$OUT"
grep -vc CAUGHT "$OUT"
