#!/usr/bin/env python3
"""Regenerates MANIFEST.json from the table below (kept next to the code so both change together)."""
import json, subprocess

CHECKS = {
 "C18": dict(level="exploration", design="§4 C18",
   technique="reference-model monitor over exhaustively enumerated needs graphs (runtime oracle on the real linter)",
   text="Every digraph on <=4 jobs is rendered to a workflow and linted by the real Linter; all 2^25 graphs on 5 jobs are pushed through the rule's visitor API in the thorough tier. An independent cyclicity decision and a walk validator over the generated edge relation judge every run; dangling and duplicate references and random graphs up to 40 jobs are sampled. Exhaustive up to the bound, sampled above it.",
   note="Trusted: the harness' own graph renderer and cyclicity reference (60 lines). Termination is observed as bounded progress: a case exceeding 90 s CPU when re-run alone is a hang."),
}

NOT_YET = {}

def main():
    props = [json.loads(l) for l in open('/verif/properties.jsonl')]
    checks = []
    na = []
    for p in props:
        pid = p['id']
        if pid in CHECKS:
            c = CHECKS[pid]
            checks.append({
                "property_id": pid,
                "quick_cmd": f"./check {pid} quick",
                "thorough_cmd": f"./check {pid} thorough",
                "evidence_file": f"/verif/evidence/{pid}.json",
                "replay_cmd_template": f"./check {pid} --replay {{path}}",
                "engine": "verifmon",
                "level_claimed": {"category": c['level'], "text": c['text'], "design_ref": c['design']},
                "level_note": c['note'],
                "technique": c['technique'],
            })
        else:
            na.append({"property_id": pid, "reason": NOT_YET.get(pid, "monitor not built yet (work in progress; the design in DESIGN.md §4 applies)")})
    try:
        hooks = subprocess.check_output(['git','-C','/repo','log','--format=%H','--grep=^verif hook','--reverse'], text=True).split()
    except Exception:
        hooks = []
    m = {
        "version": 1,
        "setup_cmd": "./setup.sh",
        "hooks": {
            "guard": "verif",
            "enable": "go build -tags verif (Go build tag; files verif_*.go carry //go:build verif, the no-op twins //go:build !verif)",
            "baseline_off_cmd": "cd /repo && GOFLAGS=-mod=mod GOPROXY=off GOSUMDB=off GOTOOLCHAIN=local go test -mod=mod -vet=off -count=1 -timeout 25m ./...",
            "source_commits": hooks,
            "add_only": True,
        },
        "engines": [{
            "name": "verifmon", "path": "/verif/harness/cmd/verifmon",
            "serves_properties": sorted(CHECKS.keys()),
            "kind_free_text": "Go runtime monitors linked against the real actionlint package (replace => /repo, -tags verif): seeded/exhaustive workload generators, reference-model, metamorphic and trace oracles, race detector, child-process crash/CPU watchdogs",
        }],
        "checks": checks,
        "not_applicable": na,
        "notes": "All checks: ./check <id> quick|thorough. Exit 0 held / 1 violation (VIOLATION line + replay file) / 2 inconclusive. VERIF_SEED selects the PRNG stream; case counts are fixed per tier. Known findings: /verif/known_findings.json.",
    }
    json.dump(m, open('/verif/MANIFEST.json','w'), indent=1)
    print("checks:", len(checks), "not_applicable:", len(na))

main()
