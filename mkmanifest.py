#!/usr/bin/env python3
"""Regenerates MANIFEST.json from the table below (kept next to the code so both change together)."""
import json, subprocess

CHECKS = {
 "C01": dict(level="exploration", design="§4 C01",
   technique="crash/hang trace monitor around the real library and CLI in journaled worker processes (panic capture, exit-status check, CPU-budget and quiescent-deadlock watchdogs, -race/checkptr build)",
   text="Hostile bytes on each of the four input channels (workflow, local action metadata, local reusable workflow, actionlint.yaml): the complete YAML kind x tag x position matrix over maximal templates (about 1e5 cases), raw YAML snippets, seeded byte mutations of the repository corpus, expression fuzz at 32 positions, hostile strings at 32 string-parsing positions and scripts up to 300 KB handed to a fake external tool, each through LintFile/LintFiles/Lint or the real CLI, 10% repeated under the race build. Verdict per case: no panic, no crash, exit status in {0,1,3}, finishes. Exploration: says nothing about inputs the generators do not produce.",
   note="Trusted: the journal attribution of a crash to the case being run; hang verdicts are CPU-budget (RLIMIT_CPU 120 s alone) or quiescence (no CPU progress, all threads asleep in the worker and all descendants), never wall-clock."),
 "C02": dict(level="exploration", design="§4 C02",
   technique="metamorphic repeat monitor: N runs per input in one process (map order re-randomised; first half on fresh Linters, second half on one reused Linter) and the real CLI under GOMAXPROCS 1/2/4/16 with seeded hook delays; outputs must be byte-identical",
   text="Hand-designed tie sites (>=2 diagnostics at one position or several candidates for a 'first' choice), fuzzed workflows, flow mappings whose entries are made to meet at one reported position by non-ASCII text (false position ties over 20 map-held holders), the repository's err/examples/ok/projects corpus and generated multi-file projects are linted 30 (quick) / 200 (thorough) times each; any difference in message, position, kind, order or exit status is a violation classified by site. An order-dependent site with a 2-entry map survives 30 repetitions with probability < 2%.",
   note="Pure self-comparison, no expected output. One open known finding (which file reports the defect of a callee shared by several files depends on goroutine scheduling)."),
 "C03": dict(level="exploration", design="§4 C03",
   technique="mutation monitor over YAML scalar positions with a located-diagnostic oracle on the real linter",
   text="Every scalar value position (mapping value or sequence element, any depth) of nine maximal clean templates and of every clean corpus file is replaced by malformed ${{ }} placeholders (four closed forms plus the unclosed one); the real linter must report at that scalar, and outside the four excepted classes with an expression syntax error. 129 position classes are required to be covered, sibling-configuration variants are explored. Complete over the position classes of the templates, sampled otherwise.",
   note="Trusted: the text-level scalar replacement (re-decoded and compared with the original tree for every mutant). A diagnostic one column past the scalar end counts as located at the scalar (EOF errors)."),
 "C04": dict(level="exploration", design="§4 C04",
   technique="reference-model monitor: regex tokenizer + declarative grammar table with a generic Earley recogniser + precedence-climbing tree builder vs. the real lexer/parser, over exhaustively enumerated token and character strings",
   text="All strings over 23 token symbols up to length 4 (quick) / 5 and half of 6 (thorough), all strings over a 25-character lexical alphabet up to length 4 / 5, whitespace variants, all binary-operator chains with negations, random sentences with mutations, 148 number forms in 24 contexts and texts around the end marker are parsed by the real ExprLexer/ExprParser and compared on accept/reject, tree shape (precedence) and error offset; through Linter.Lint in five embeddings a rejected text must give exactly one expression diagnostic inside the placeholder. Exhaustive up to the stated length bounds.",
   note="Forms where the statement is silent (number immediately followed by '.', hex with redundant leading zero, signed hex, doubles overflowing float64) are excluded. One open known finding (exponent with leading zero, pinned by an existing test)."),
 "C05": dict(level="exploration", design="§4 C05",
   technique="reference-model monitor: independent scoping model over a generated workflow model vs. the real linter's undefined-property diagnostics",
   text="A seeded generator builds workflows (jobs with needs DAG and outputs, steps with ids, matrices with include/exclude/nesting and expression-valued sections, workflow_call/dispatch inputs, secrets, outputs) and emits one reference per scalar at 47 kinds of position; an independent scope model decides in-scope / out-of-scope / never-reported per reference and is compared with the linter. Floors require every reference class in both directions.",
   note="Compared per scalar (reported or not); classes where the statement is silent are excluded and listed in the evidence assumptions."),
 "C06": dict(level="exploration", design="§4 C06",
   technique="metamorphic monitor: accepted-under-G implies accepted under every single loosening G' (any / open object), at the ExprSemanticsChecker API and through the real linter",
   text="API level: all 475 types of nesting depth <=2 over {any,null,number,bool,string} at matrix.v and as whole steps/secrets contexts x 132 expression templates (exhaustive grid), plus generated environments and type-directed expressions (>=90% accepted under G); every non-any type occurrence is replaced by any and every closed object opened, one at a time, and the expression must stay accepted; fromJSON literals are replaced by an any-typed call. Linter level: clean generated workflows are re-linted under 14 kinds of definition replacement (matrix rows/values/include by fromJSON expressions, untyped inputs, unknown actions, unresolvable reusable workflows) and must stay clean at every use site.",
   note="Literal matrix values of one key are shape-consistent (conflicting literals merge to any, which would make a replacement a tightening); merges whose result depends on map order are excluded."),
 "C07": dict(level="exploration", design="§4 C07",
   technique="position monitor: global bounds oracle + absolute position oracle from a position-recording emitter + metamorphic shift oracle (k columns / k lines) on the real linter",
   text="Bounds: every diagnostic of the corpus, of 17 kinds of byte/line mutations of it and of all generated workflows has 1<=line<=lines and column>=1 (YAML-level errors excepted). Absolute: 5000 (quick) / 200000 (thorough) generated cases, each a clean workflow plus one diagnosed construct (55 expression sites in three modes, 44 key sites, 36 value sites, 15 glob character classes) under random layouts (indentation, nesting, flow/block, plain/single/double quoted, earlier placeholders, preceding text); the reported line:column must equal the recorded position. Shift: each case is re-emitted with k extra columns / lines / preceding text / an earlier placeholder and the whole diagnostic multiset must move by exactly k.",
   note="Exactness only inside the statement's domain (one line, no escapes, ASCII). Three open known findings (quoted matrix values off by one; line beyond EOF for escaped newlines and for implicit null values)."),
 "C08": dict(level="exploration", design="§4 C08",
   technique="metamorphic monitor: letter-case flips of known name occurrences vs. the unflipped run on the real linter (memory and on-disk projects)",
   text="A seeded generator builds workflows and projects (local actions, local reusable workflows) in which every name occurrence and its class is known (48 site classes: contexts, properties, functions, step and job ids in keys / needs / expressions, inputs, secrets, outputs, matrix keys, with: keys, action metadata keys, fromJSON literal keys, string index literals). Each case flips the case of a non-empty subset (same length, names unique after folding) and requires the same multiset of (file, line, col, kind, lower-cased message). 40% clean bases, 60% with one of 28 injected name-related defects, so equality is not vacuous; 11 fixed templates get every single flip exhaustively.",
   note="Never flipped: true/false/null, other string literals, YAML syntax keys, env keys, event/shell/label names, action specs."),
 "C09": dict(level="exploration", design="§4 C09",
   technique="metamorphic monitor: per-job / per-step / per-expression diagnostics under composition, permutation, insertion and removal of unrelated jobs, steps and earlier expressions (fake tools make the effective shell observable)",
   text="Independently generated jobs (matrix forms incl. expression-valued rows/include/exclude built from context objects, default shells at three levels, linux/windows/macos runners, containers, outputs, needs, defective steps, parse-level defects) are composed in random orders and needs-closed subsets; per-job buckets (by emitted line ranges) must equal the workflow holding only that job, its needs closure and the header, each composition linted three times. Steps without ids are removed/reordered/inserted around id steps; an earlier expression A (132 forms covering every node kind and every .* form, 18 positions incl. strategy.matrix) is compared against a neutral literal for about 90 later plain accesses B; a serial family checks that matrices built from github / github.event do not leak into later jobs, files or fresh Linters.",
   note="Workflow-level diagnostics, local actions/reusable workflows (reported once per run by design) and the bash/sh distinction are outside the compared domain."),
 "C10": dict(level="exploration", design="§4 C10",
   technique="Go race detector over multi-file workloads + isolation (alone vs. together) metamorphic monitor with seeded hook delays + table/config fingerprint invariants + file-vs-AST interface comparison",
   text="Generated layouts (one repo, two repos, prefix-named siblings, nested repositories, loose files, many files, cwd inside the repository; .git as directory or file, callee and action metadata optionally behind symbolic links) whose workflows depend on their own repository's config, local action and reusable workflow and produce diagnostics built from shared tables. Every file is linted alone, then together in subsets / argument orders under GOMAXPROCS 1/2/4/16 with seeded delays at hook points (check start, cache writes); per-file diagnostics must be equal; per repository a clean probe (only correct uses of its own label, variable, action, workflow) must have no diagnostic and a dirty probe must get exactly the expected ones, which decides attribution absolutely. Built-in table and shared *Config fingerprints are compared before/after; a third of the cases run in the -race build and every report touching actionlint frames is a violation; both cache-write interleavings must have been observed. Exploration of schedules, not enumeration.",
   note="Callees are well-formed as the statement requires. The race detector only sees races in executed interleavings. Fingerprints are taken at quiescent points."),
 "C11": dict(level="exploration", design="§4 C11",
   technique="reference-model monitor: independent untrusted-path evaluator over model-generated expressions vs. the real linter's untrusted-input diagnostics",
   text="All 20 untrusted leaves x all type-correct spelling vectors (dot / ['name'] in four letter cases, [0] / [expr] / .* for array segments) x depth-1 embeddings are enumerated; systematic neighbours (trusted siblings, prefixes, extensions) and random deep embeddings (operators, parentheses, index positions, sanitising and non-sanitising calls, 1-4 chains) follow. Each expression is linted at 2 script positions (must report exactly the expected paths) and 9 non-script positions (must not report). Exhaustive at depth 1, sampled deeper.",
   note="Dynamic string indices, numeric strings as indices and values reaching a property through an operator/call result are outside the compared domain (statement silent)."),
 "C12": dict(level="exploration", design="§4 C12",
   technique="golden-model monitor: independently transcribed availability table x exhaustive position/context/function cross product on the real linter",
   text="120 placeholder position classes (each mapped to its table key or to none) x 12 contexts + 5 special functions x 4 embeddings are linted; a 'not allowed here' diagnostic must appear at the name iff the independently transcribed GitHub table does not list it; the API boundary (WorkflowKeyAvailability, misspelt keys) and random embeddings are checked as well. The cross product is enumerated completely.",
   note="Trusted: the harness' transcription of GitHub's table (34 rows) and the position-class to key map."),
 "C13": dict(level="exploration", design="§4 C13",
   technique="mutation monitor driven by an independent section/key table: foreign, repeated and deleted keys on templates and corpus, located-diagnostic and sibling-preservation oracle on the real parser",
   text="For every mapping of four alternation templates (161 clean/dirty alternations) and of the repository corpus that matches one of 46 section patterns: a foreign key at every position, every key repeated (same spelling and other letter case), every mandatory key deleted. The new diagnostic must be at the predicted key (schedule: the item) and every base diagnostic must survive; clean renderings using every accepted key must stay clean. Complete over sections x mutation kinds on the templates.",
   note="Block-style mappings only (the parser does not see the style); extra new diagnostics beside the demanded one are counted, not judged."),
 "C14": dict(level="exploration", design="§4 C14",
   technique="reference-model monitor: interface model vs. the real linter over the complete bundled action data set and generated local callees on disk",
   text="All PopularActions and OutdatedPopularActionSpecs entries are enumerated completely (required inputs present/removed, undeclared inputs, letter case, declared/undeclared outputs); generated local actions and reusable workflows (required x default, typed inputs, secrets, inherit, outputs) are written to scratch repositories and called with random subsets/extras/typed values, in both metadata derivations (file and AST). Bundled part exhaustive, local part sampled.",
   note="Callees are asserted well-formed (lint clean alone). Classes outside the statement (boolean inputs, quoted literals, docker args/entrypoint keys) are excluded and listed in the evidence."),
 "C15": dict(level="exploration", design="§4 C15",
   technique="metamorphic monitor on the real CLI in child processes: baseline vs. filtered runs with an independent regexp/doublestar filter model, across working directories and path spellings",
   text="200 (quick) / 5000 (thorough) scratch repositories with 2-7 workflows in nested directories; per project 6 filter sets (-ignore, config paths/ignore, both, everything, none, random) x 8 of 28 (cwd, spelling) pairs. Expected output = unfiltered list minus messages matched by Go regexp, a paths entry applying iff doublestar matches the root-relative path; compared as exact sequences after resolving printed paths; exit status 0/1; a second family checks status 3 (12 fatal classes) and 2 (flag errors).",
   note="stdin input, several repositories in one run, -config-file combined with a repository config and invalid -format are outside the compared domain."),
 "C16": dict(level="exploration", design="§4 C16",
   technique="round-trip monitor: the printed output of every reporting mode is parsed back (shipped problem-matcher regexp read at check time, encoding/json) and compared with the returned diagnostics; renderer fuzz on arbitrary positions",
   text="Workflows with nasty strings (line breaks via escapes and block scalars, CR, tabs, NUL, ANSI escapes, brackets, ':1:2: ', non-ASCII, wide runes) at 31 echo sites, hostile byte variants, the corpus, multi-file runs through LintFiles and the real CLI (default, -no-color, -color, -oneline, -format) and on-disk projects with broken callees and config. Per run: one header per diagnostic that the shipped matcher parses back to the same five fields (so no line breaks in messages), JSON modes round-trip all fields, the snippet is the referenced source line with the caret under the column (ASCII lines), and PrettyPrint / GetTemplateFields / PrintErrors never panic on 1e5 (quick) / 1e7 (thorough) arbitrary (line, column, source) triples.",
   note="File names are sane (no ':' or line breaks). U+0085/U+2028/U+2029 are not judged as line breaks. shellcheck/pyflakes messages belong to C20."),
 "C17": dict(level="exploration", design="§4 C17",
   technique="reference-model monitor plus reference-free invariants over exhaustively enumerated pattern strings on the real validators",
   text="All strings over a 16-symbol alphabet up to length 5 (quick, 1.1e6) / 6 (thorough) plus random strings up to 40 characters are validated by ValidateRefGlob/ValidatePathGlob and compared with an independent validator written from the cheat sheet and git-check-ref-format; on every string: ref-accept implies path-accept, columns inside the pattern, named character at the column; a Lint sample checks the mapping onto YAML scalars. Exhaustive up to the length bound.",
   note="A documented don't-care set (single-character classes, odd class contents, escaped backslash in refs, multi-character git rules) is not compared but still subject to the invariants."),
 "C18": dict(level="exploration", design="§4 C18",
   technique="reference-model monitor over exhaustively enumerated needs graphs (runtime oracle on the real linter)",
   text="Every digraph on <=4 jobs is rendered to a workflow and linted by the real Linter; all 2^25 graphs on 5 jobs are pushed through the rule's visitor API in the thorough tier. An independent cyclicity decision and a walk validator over the generated edge relation judge every run; dangling and duplicate references and random graphs up to 40 jobs are sampled. Exhaustive up to the bound, sampled above it.",
   note="Trusted: the harness' own graph renderer and cyclicity reference (60 lines). Termination is observed as bounded progress: 40-64 job graphs with a dense acyclic part (complete ladders, 2^(n-2) paths) are linted by the CLI in a child under RLIMIT_CPU 60 s (CPU time, not wall clock); the unchanged tree needs milliseconds."),
 "C19": dict(level="exploration", design="§4 C19",
   technique="reference-model + metamorphic permutation monitor on the real linter's matrix diagnostics",
   text="Every ordered pair of 32 curated values as a row and as (candidate, filter), every ordered triple as (row value, include value, exclude filter) (32768 workflows, exhaustive), matrices made only of expressions, and 2000 (quick) / 100000 (thorough) random matrices with planted duplicates, near variants and every class of exclude entry, each written in 6 further permutations of values, keys and mapping members. Duplicates must be exactly the values structurally equal to an earlier one; exclude verdicts must follow subset/element-wise/equality matching; verdicts are invariant under permutation; expression-built rows and entries are never reported.",
   note="One spelling per scalar; classes where the statement is silent (exclude values containing expressions, matrices without rows) are not compared."),
 "C20": dict(level="fault_enumeration", design="§4 C20",
   technique="trace monitor with fault enumeration: fake shellcheck/pyflakes tool with planned behaviours, tool-side log, hook event trace of the process pool, reference model of effective shell / sanitised stdin / expected diagnostics or fatal error; also under -race and NumCPU=2",
   text="Every assignment of 9 tool behaviours (ok, 1 issue, 3 issues, exit!=0 without output, killed, garbage, killed after partial output, well-formed output followed by trailing text, exit 0 without any output) to k<=4 invocations is enumerated (7380 patterns; all in thorough, a seeded sample in quick) on generated workflows whose shells come from step / job default / workflow default / runner. Checked per run: each eligible script reaches the right tool exactly once with the exact equally-long-placeholder stdin; issues become diagnostics at the run: key; failures become fatal errors; semaphore holders and live processes never exceed NumCPU (16 and, via taskset, 2); nothing of the pool runs after Lint* returned; every started run has ended.",
   note="Tool-side intervals undercount lifetimes, so the bound cannot false-alarm. pyflakes garbage is ignored by design. strace-level observation is a thorough-tier extension."),
}

NOT_YET = {}

def main():
    props = [json.loads(l) for l in open('/verif/properties.jsonl')]
    checks = []
    na = []
    for p in props:
        pid = p['id']
        if pid in CHECKS:
            c = CHECKS[pid]
            checks.append({
                "property_id": pid,
                "quick_cmd": f"./check {pid} quick",
                "thorough_cmd": f"./check {pid} thorough",
                "evidence_file": f"/verif/evidence/{pid}.json",
                "replay_cmd_template": f"./check {pid} --replay {{path}}",
                "engine": "verifmon",
                "level_claimed": {"category": c['level'], "text": c['text'], "design_ref": c['design']},
                "level_note": c['note'],
                "technique": c['technique'],
            })
        else:
            na.append({"property_id": pid, "reason": NOT_YET.get(pid, "monitor not built yet (work in progress; the design in DESIGN.md §4 applies)")})
    try:
        hooks = subprocess.check_output(['git','-C','/repo','log','--format=%H','--grep=^verif hook','--reverse'], text=True).split()
    except Exception:
        hooks = []
    m = {
        "version": 1,
        "setup_cmd": "./setup.sh",
        "hooks": {
            "guard": "verif",
            "enable": "go build -tags verif (Go build tag; files verif_*.go carry //go:build verif, the no-op twins //go:build !verif)",
            "baseline_off_cmd": "cd /repo && GOFLAGS=-mod=mod GOPROXY=off GOSUMDB=off GOTOOLCHAIN=local go test -mod=mod -vet=off -count=1 -timeout 25m ./...",
            "source_commits": hooks,
            "add_only": True,
        },
        "engines": [{
            "name": "verifmon", "path": "/verif/harness/cmd/verifmon",
            "serves_properties": sorted(CHECKS.keys()),
            "kind_free_text": "Go runtime monitors linked against the real actionlint package (replace => /repo, -tags verif): seeded/exhaustive workload generators, reference-model, metamorphic and trace oracles, race detector, child-process crash/CPU watchdogs",
        }],
        "checks": checks,
        "not_applicable": na,
        "notes": "All checks: ./check <id> quick|thorough. Exit 0 held / 1 violation (VIOLATION line + replay file) / 2 inconclusive. VERIF_SEED selects the PRNG stream; case counts are fixed per tier. Known findings: /verif/known_findings.json.",
    }
    json.dump(m, open('/verif/MANIFEST.json','w'), indent=1)
    print("checks:", len(checks), "not_applicable:", len(na))

main()
