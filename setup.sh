#!/bin/bash
# Offline setup: builds the monitors and the actionlint CLI (plain and -race) from files on disk.
set -eu
export GOFLAGS=-mod=mod GOPROXY=off GOSUMDB=off GOTOOLCHAIN=local
V="$(cd "$(dirname "$0")" && pwd)"
REPO="${VERIF_REPO:-/repo}"
key=$(printf '%s' "$REPO" | md5sum | cut -c1-10)
B="$V/.build/$key"
mkdir -p "$B" "$V/evidence"
sed "s#=> /repo#=> $REPO#" "$V/harness/go.mod" > "$B/go.mod"
cat "$V/harness/go.sum" "$REPO/go.sum" | sort -u > "$B/go.sum"
cd "$V/harness"
go build -modfile="$B/go.mod" -tags verif -o "$B/verifmon" ./cmd/verifmon
go build -modfile="$B/go.mod" -tags verif -o "$B/faketool" ./cmd/faketool
go build -race -modfile="$B/go.mod" -tags verif -o "$B/verifmon-race" ./cmd/verifmon
cd "$REPO"
go build -tags verif -o "$B/actionlint" ./cmd/actionlint
go build -race -tags verif -o "$B/actionlint-race" ./cmd/actionlint
echo "setup ok: $B"
