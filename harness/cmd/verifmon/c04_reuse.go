package main

// C04, family parser-reuse: ExprParser is a reusable object by its API (NewExprParser() takes no
// input, Parse(lexer) can be called any number of times). One instance parses a sequence of texts;
// at every position its result must be what a fresh parser gives for the same text. ExprLexer is
// not reusable by API (the only constructor NewExprLexer(src) binds it to one source; there is no
// exported Init/Reset), so there is no lexer counterpart.

import (
	"fmt"
	"strings"

	"github.com/rhysd/actionlint"
)

// fixed pool: every ordered triple of it is a sequence prefix
var c04ReuseValid = []string{"a", "true", "1 == 1", "f(a, 'x')", "a.b[0].*", "!x && 'it''s' != y || null"}
var c04ReuseParserBad = []string{"a b", "a ==", "", "(a", "f(1,)", "a.1", "!", "a[1", "a, b", "1 2 3 4"}
var c04ReuseLexerBad = []string{"'x", "a # b", "1e01", "=", "a & b", "\"x\"", "0x", "a == 'b' |", "1.", "a }"}

type c04ReuseResult struct {
	accept    bool
	msg       string
	off, l, c int
	tree      string
	kind      string // "accept", "parser-error", "lexer-error"
}

func c04ReuseParse(p *actionlint.ExprParser, src string) c04ReuseResult {
	lx := actionlint.NewExprLexer(src)
	n, err := p.Parse(lx)
	if err == nil {
		r := c04ReuseResult{accept: true, kind: "accept"}
		if n != nil {
			r.tree = c04Sexpr(c04FromAST(n))
		} else {
			r.tree = "<nil tree>"
		}
		return r
	}
	r := c04ReuseResult{msg: err.Message, off: err.Offset, l: err.Line, c: err.Column, kind: "parser-error"}
	if lx.Err() != nil {
		r.kind = "lexer-error"
	}
	return r
}

func (r c04ReuseResult) String() string {
	if r.accept {
		return "accept " + r.tree
	}
	return fmt.Sprintf("reject offset=%d line=%d col=%d %q", r.off, r.l, r.c, r.msg)
}

// c04ReuseSequence runs one sequence through one parser instance.
func c04ReuseSequence(x *c04Ctx, texts []string, tag string) {
	c := x.c
	reused := actionlint.NewExprParser()
	seenParserErr, seenLexerErr := false, false
	prevKind := "none"
	seen := map[string]bool{}
	for i, t := range texts {
		src := t + "}}"
		fresh := c04ReuseParse(actionlint.NewExprParser(), src)
		got := c04ReuseParse(reused, src)
		x.evals++
		x.cnt["reuse_positions_compared"]++
		x.cnt["reuse_texts_fresh_"+fresh.kind]++
		if seen[t] {
			x.cnt["reuse_positions_repeating_an_earlier_text"]++
		}
		seen[t] = true
		if fresh.accept {
			switch prevKind {
			case "parser-error":
				x.cnt["reuse_valid_right_after_parser_error"]++
			case "lexer-error":
				x.cnt["reuse_valid_right_after_lexer_error"]++
			}
			if hashStr(src)%8 == 0 {
				c.Nontrivial("R|" + tag + "|" + src)
			}
		} else if prevKind != "none" && prevKind != "accept" {
			x.cnt["reuse_invalid_right_after_"+prevKind]++
		}
		after := "after-accepts-only"
		switch {
		case seenParserErr:
			after = "after-parser-error"
		case seenLexerErr:
			after = "after-lexer-error"
		case i == 0:
			after = "first-call"
		}
		detail := func() map[string]interface{} {
			return map[string]interface{}{"sequence": texts[:i+1], "position": i, "src": src, "fresh_parser": fresh.String(), "reused_parser": got.String()}
		}
		problem := ""
		switch {
		case fresh.accept != got.accept:
			problem = "verdict-differs"
		case fresh.accept && fresh.tree != got.tree:
			problem = "tree-differs"
		case !fresh.accept && fresh.msg != got.msg:
			problem = "error-message-differs"
		case !fresh.accept && (fresh.off != got.off || fresh.l != got.l || fresh.c != got.c):
			problem = "error-position-differs"
		}
		if problem != "" {
			c.Logf("parser-reuse position %d %q: fresh %s | reused %s", i, src, fresh, got)
			c.Violation("C04:parser-reuse:"+problem+"-"+after,
				fmt.Sprintf("one ExprParser used for %d texts: at position %d (%q) it gives [%s] but a fresh parser gives [%s]; earlier texts: %q", i+1, i, src, got, fresh, texts[:i]), detail())
		}
		if !got.accept && (got.off < 0 || got.off > len(src) || got.l < 1 || got.c < 1) {
			c.Violation("C04:parser-reuse:error-offset-outside-text-"+after,
				fmt.Sprintf("one ExprParser used for %d texts: the error for position %d (%q, %d bytes) has offset %d line %d column %d", i+1, i, src, len(src), got.off, got.l, got.c), detail())
		}
		switch fresh.kind {
		case "parser-error":
			seenParserErr = true
		case "lexer-error":
			seenLexerErr = true
		}
		prevKind = fresh.kind
	}
}

func c04FamParserReuse(r *Run, nrandom int) *Family {
	var pool []string
	pool = append(pool, c04ReuseValid[:4]...)
	pool = append(pool, c04ReuseParserBad[:4]...)
	pool = append(pool, c04ReuseLexerBad[:4]...)
	np := len(pool)
	ntriples := np * np * np
	const perCase = 36
	nfixed := (ntriples + perCase - 1) / perCase
	return &Family{Name: "parser-reuse", N: nfixed + nrandom, Do: func(c *Case) {
		x := c04NewCtx(c)
		defer x.Done()
		if c.Idx < nfixed {
			// every ordered triple of the pool (all orders of valid / parser-invalid / lexer-invalid,
			// including the same text two or three times), followed by valid and invalid texts
			for t := c.Idx * perCase; t < (c.Idx+1)*perCase && t < ntriples; t++ {
				seq := []string{pool[t/(np*np)], pool[t/np%np], pool[t%np]}
				seq = append(seq, c04ReuseValid[4], c04ReuseParserBad[4], c04ReuseValid[5], c04ReuseLexerBad[4], c04ReuseValid[0])
				c04ReuseSequence(x, seq, "fixed")
			}
			return
		}
		// seeded sequences of 5..50 texts
		n := c.R.Range(5, 50)
		seq := make([]string, 0, n)
		for len(seq) < n {
			k := c.R.Intn(20)
			switch {
			case k < 2 && len(seq) > 0:
				seq = append(seq, seq[c.R.Intn(len(seq))]) // an earlier text again
			case k < 3 && len(seq) > 0:
				seq = append(seq, seq[len(seq)-1]) // the same text twice in a row
			case k < 5:
				seq = append(seq, c.R.Pick(c04ReuseValid))
			case k < 7:
				seq = append(seq, c.R.Pick(c04ReuseParserBad))
			case k < 9:
				seq = append(seq, c.R.Pick(c04ReuseLexerBad))
			case k < 10:
				seq = append(seq, strings.ReplaceAll(c.R.Pick(c04NumberContexts), "#", c.R.Pick(c04NumberForms)))
			default:
				g := &c04Gen{r: c.R, budget: 2 + c.R.Intn(25)}
				g.or(c.R.Range(1, 6))
				text := c04Render(c.R, g.out, false)
				switch c.R.Intn(5) {
				case 0: // token-level damage (mostly parser errors)
					i := c.R.Intn(len(g.out))
					mt := append([]c04GTok(nil), g.out...)
					if c.R.Bool() {
						mt[i] = g.randTok()
					} else {
						mt = append(mt[:i], mt[i+1:]...)
					}
					text = c04Render(c.R, mt, false)
				case 1: // character-level damage (mostly lexer errors)
					p := c.R.Intn(len(text) + 1)
					for p > 0 && p < len(text) && text[p]&0xc0 == 0x80 {
						p--
					}
					text = text[:p] + c.R.Pick(c04Junk) + text[p:]
				}
				seq = append(seq, text)
			}
		}
		c04ReuseSequence(x, seq, "random")
		if c.Idx == nfixed {
			c.Sample(map[string]interface{}{"family": "parser-reuse", "sequence": seq})
		}
	}}
}
