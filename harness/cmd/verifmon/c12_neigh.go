package main

// C12, part 5: the SIBLING SECTIONS of the probed position. The verdict at a position must not
// depend on whether its neighbours are absent, literal, given in scalar or mapping form, or given by
// expressions (the code paths of the expression rule have early returns keyed on them).
//
//   matrix       every matrix position x {no include, list include, list include with an element
//                expression, include: ${{ }}} x the same for exclude x {literal rows, a row given by an
//                expression, matrix: ${{ }} (fail-fast / max-parallel only)}
//   job          every ordinary-job position class of c12_data.go with all other job sections present
//                (before / after the probed section; mapping forms / scalar forms / expressions)
//   call job     every key a reusable-workflow call job accepts x {uses only, with+secrets, secrets:
//                inherit} x {no other keys, all other keys literal, all other keys expressions}
//   step         every step key x {run step, run+shell+working-directory, uses, uses+with, docker
//                action with entrypoint+args} x {no other keys, all other keys literal, expressions}
//   sub-mappings container / services sub-fields, environment, concurrency, runs-on with their
//                sibling sub-fields absent / literal / expression.

import (
	"fmt"
	"regexp"
	"strings"
)

type c12NCase struct {
	Shape string
	Cl    *c12Class // Cl.Name is the position class (same names as in c12_data.go where it exists there)
	Ctrl  *c12Class // the same position with minimal neighbours (nil = none)
}

func c12Indent(n int, text string) string {
	pad := strings.Repeat(" ", n)
	var b strings.Builder
	for _, l := range strings.Split(strings.TrimRight(text, "\n"), "\n") {
		if l == "" {
			b.WriteString("\n")
			continue
		}
		b.WriteString(pad + l + "\n")
	}
	return b.String()
}

// ---------------------------------------------------------------------------
// matrix

const c12StrategyKey = "jobs.<job_id>.strategy"

func c12MatrixCases() []c12NCase {
	var out []c12NCase
	type pos struct {
		name string
		kind c12Kind
		sec  string // "row", "include", "exclude", "strategy"
	}
	positions := []pos{
		{"jobs.<id>.strategy.matrix.<row>[*]", c12Str, "row"},
		{"jobs.<id>.strategy.matrix.<row> (expression)", c12Any, "row"},
		{"jobs.<id>.strategy.matrix.include[*].<key>", c12Str, "include"},
		{"jobs.<id>.strategy.matrix.include[*].<key>.<key>", c12Str, "include"},
		{"jobs.<id>.strategy.matrix.include[*] (expression)", c12Any, "include"},
		{"jobs.<id>.strategy.matrix.include (expression)", c12Any, "include"},
		{"jobs.<id>.strategy.matrix.exclude[*].<key>", c12Str, "exclude"},
		{"jobs.<id>.strategy.matrix.exclude[*].<key>.<key>", c12Str, "exclude"},
		{"jobs.<id>.strategy.matrix.exclude[*] (expression)", c12Any, "exclude"},
		{"jobs.<id>.strategy.matrix.exclude (expression)", c12Any, "exclude"},
		{"jobs.<id>.strategy.fail-fast", c12Bool, "strategy"},
		{"jobs.<id>.strategy.max-parallel", c12Any, "strategy"},
	}
	const elemExpr = `- ${{ fromJSON('{"os":"c"}') }}` + "\n"
	// section text for a neighbour (non-probed) include / exclude
	neighbour := func(sec, shape string) string {
		lit := "- os: a\n"
		if sec == "include" {
			lit = "- os: a\n  extra: e1\n"
		}
		switch shape {
		case "none":
			return ""
		case "list":
			return sec + ":\n" + c12Indent(2, lit)
		case "list+element-expression":
			return sec + ":\n" + c12Indent(2, lit+elemExpr)
		case "element-expression-only":
			return sec + ":\n" + c12Indent(2, elemExpr)
		case "section-expression":
			return sec + `: ${{ fromJSON('[{"os":"a"}]') }}` + "\n"
		}
		panic("c12: unknown shape " + shape)
	}
	// section text for the probed include / exclude: (siblings shape) -> text
	probed := func(p pos, sib string) string {
		var own string
		switch {
		case strings.HasSuffix(p.name, "[*].<key>"):
			own = "- os: b\n  probe: @@\n"
			if p.sec == "exclude" {
				own = "- os: @@\n"
			}
		case strings.HasSuffix(p.name, "[*].<key>.<key>"):
			own = "- os: b\n  deep:\n    probe: @@\n"
			if p.sec == "exclude" {
				own = "- os:\n    deep: @@\n"
			}
		case strings.HasSuffix(p.name, "[*] (expression)"):
			own = "- @@\n"
		default:
			return p.sec + ": @@\n"
		}
		lit := "- os: a\n"
		if p.sec == "include" {
			lit = "- os: a\n  extra: e1\n"
		}
		switch sib {
		case "alone":
			return p.sec + ":\n" + c12Indent(2, own)
		case "after-literal-element":
			return p.sec + ":\n" + c12Indent(2, lit+own)
		case "after-element-expression":
			return p.sec + ":\n" + c12Indent(2, elemExpr+own)
		case "before-element-expression":
			return p.sec + ":\n" + c12Indent(2, own+elemExpr)
		}
		panic("c12: unknown sibling shape " + sib)
	}
	neighShapes := []string{"none", "list", "list+element-expression", "element-expression-only", "section-expression"}
	sibShapes := []string{"alone", "after-literal-element", "after-element-expression", "before-element-expression"}
	rowShapes := []string{"literal", "row-expression"}
	build := func(p pos, rows, inc, exc string, ff, mp string) string {
		var m strings.Builder
		switch rows {
		case "literal":
			m.WriteString("os:\n  - a\n  - b\n")
		case "row-expression":
			m.WriteString(`os: ${{ fromJSON('["a","b"]') }}` + "\n")
		}
		if p.sec == "row" {
			if p.kind == c12Str {
				m.WriteString("ver:\n  - x\n  - @@\n")
			} else {
				m.WriteString("ver: @@\n")
			}
		}
		m.WriteString(inc)
		m.WriteString(exc)
		return "on: push\njobs:\n  build:\n    runs-on: ubuntu-latest\n    strategy:\n      fail-fast: " + ff + "\n      max-parallel: " + mp + "\n      matrix:\n" + c12Indent(8, m.String()) + "    steps:\n      - run: echo\n"
	}
	for _, p := range positions {
		incs, excs := neighShapes, neighShapes
		if p.sec == "include" {
			incs = sibShapes
			if strings.HasSuffix(p.name, "include (expression)") {
				incs = []string{"-"}
			}
		}
		if p.sec == "exclude" {
			excs = sibShapes
			if strings.HasSuffix(p.name, "exclude (expression)") {
				excs = []string{"-"}
			}
		}
		var ctrl *c12Class
		for _, rows := range rowShapes {
			for _, is := range incs {
				for _, es := range excs {
					var inc, exc string
					if p.sec == "include" {
						inc = probed(p, is)
					} else {
						inc = neighbour("include", is)
					}
					if p.sec == "exclude" {
						exc = probed(p, es)
					} else {
						exc = neighbour("exclude", es)
					}
					ff, mp := "false", "2"
					if p.name == "jobs.<id>.strategy.fail-fast" {
						ff = "@@"
					}
					if p.name == "jobs.<id>.strategy.max-parallel" {
						mp = "@@"
					}
					cl := &c12Class{Name: p.name, Key: c12StrategyKey, Kind: p.kind, Src: build(p, rows, inc, exc, ff, mp)}
					if p.name == "jobs.<id>.strategy.matrix.exclude[*].<key>.<key>" {
						// the matrix rule compares a nested exclude value with the row values without looking for placeholders
						cl.Noise = `in "exclude" does not match in matrix "os" combinations\. .* \[matrix\]$`
					}
					if ctrl == nil {
						ctrl = cl
					}
					out = append(out, c12NCase{Shape: fmt.Sprintf("rows=%s include=%s exclude=%s", rows, is, es), Cl: cl, Ctrl: ctrl})
				}
			}
		}
		if p.sec == "strategy" {
			ff, mp := "false", "2"
			if p.name == "jobs.<id>.strategy.fail-fast" {
				ff = "@@"
			} else {
				mp = "@@"
			}
			src := "on: push\njobs:\n  build:\n    runs-on: ubuntu-latest\n    strategy:\n      fail-fast: " + ff + "\n      max-parallel: " + mp + "\n      matrix: ${{ fromJSON('{\"os\":[\"a\"]}') }}\n    steps:\n      - run: echo\n"
			out = append(out, c12NCase{Shape: "matrix=section-expression", Cl: &c12Class{Name: p.name, Key: c12StrategyKey, Kind: p.kind, Src: src}, Ctrl: ctrl})
		}
	}
	return out
}

// ---------------------------------------------------------------------------
// ordinary jobs: all other job sections around an existing position class

type c12Section struct {
	Key             string
	Mapping, Scalar string // literal forms (Scalar "" = same as Mapping)
	Expr            string // neighbours given by expressions
}

var c12JobSections = []c12Section{
	{Key: "name", Mapping: "name: Build job\n", Expr: "name: ${{ github.workflow }} job\n"},
	{Key: "needs", Mapping: "needs:\n  - first\n", Scalar: "needs: first\n", Expr: "needs: [first]\n"},
	{Key: "permissions", Mapping: "permissions:\n  contents: read\n", Scalar: "permissions: read-all\n", Expr: "permissions: {}\n"},
	{Key: "environment", Mapping: "environment:\n  name: prod\n  url: https://example.com\n", Scalar: "environment: prod\n", Expr: "environment:\n  name: ${{ github.ref_name }}\n  url: ${{ github.server_url }}\n"},
	{Key: "concurrency", Mapping: "concurrency:\n  group: g1\n  cancel-in-progress: true\n", Scalar: "concurrency: g1\n", Expr: "concurrency:\n  group: ${{ github.ref }}\n  cancel-in-progress: ${{ github.ref != 'x' }}\n"},
	{Key: "outputs", Mapping: "outputs:\n  out1: v\n", Expr: "outputs:\n  out1: ${{ github.sha }}\n"},
	{Key: "env", Mapping: "env:\n  JFOO: bar\n", Expr: "env: ${{ fromJSON('{\"JFOO\":\"bar\"}') }}\n"},
	{Key: "defaults", Mapping: "defaults:\n  run:\n    shell: bash\n    working-directory: src\n", Expr: "defaults:\n  run:\n    shell: ${{ github.job }}\n    working-directory: ${{ github.workspace }}\n"},
	{Key: "if", Mapping: "if: true\n", Scalar: "if: github.ref == 'x'\n", Expr: "if: ${{ github.ref == 'x' }}\n"},
	{Key: "strategy", Mapping: "strategy:\n  fail-fast: false\n  max-parallel: 2\n  matrix:\n    mos: [a, b]\n    include:\n      - mos: a\n        extra: e1\n    exclude:\n      - mos: b\n", Scalar: "strategy:\n  matrix:\n    mos: [a, b]\n", Expr: "strategy:\n  fail-fast: ${{ github.ref == 'x' }}\n  matrix: ${{ fromJSON('{\"mos\":[\"a\"]}') }}\n"},
	{Key: "continue-on-error", Mapping: "continue-on-error: true\n", Expr: "continue-on-error: ${{ github.ref == 'x' }}\n"},
	{Key: "timeout-minutes", Mapping: "timeout-minutes: 10\n", Expr: "timeout-minutes: ${{ fromJSON('5') }}\n"},
	{Key: "container", Mapping: "container:\n  image: cimg\n  env:\n    CFOO: bar\n  ports:\n    - 80\n  volumes:\n    - /a:/b\n  options: --cpus 1\n", Scalar: "container: cimg\n", Expr: "container:\n  image: ${{ github.repository }}\n  env: ${{ fromJSON('{\"CFOO\":\"bar\"}') }}\n"},
	{Key: "services", Mapping: "services:\n  sdb:\n    image: simg\n    env:\n      SFOO: bar\n    ports:\n      - 5432:5432\n", Scalar: "services:\n  sdb: simg\n", Expr: "services: ${{ fromJSON('{}') }}\n"},
}

const c12FirstJob = "  first:\n    runs-on: ubuntu-latest\n    steps:\n      - run: echo\n"

var c12JobKeyRe = regexp.MustCompile(`(?m)^    ([a-z-]+):`)

// c12JobNeighbourCases decorates every ordinary-job template of the base classes.
func c12JobNeighbourCases(base []*c12Class) []c12NCase {
	var out []c12NCase
	type shape struct {
		name   string
		form   string // "mapping" | "scalar" | "expr"
		before bool
	}
	shapes := []shape{
		{"all other job sections before (mapping forms, literal)", "mapping", true},
		{"all other job sections after (scalar forms, literal)", "scalar", false},
		{"all other job sections before (expressions)", "expr", true},
		{"all other job sections after (expressions)", "expr", false},
	}
	const head, tail = "\n  build:\n", "    steps:\n"
	for _, cl := range base {
		hi := strings.Index(cl.Src, head)
		ti := strings.Index(cl.Src, tail)
		if hi < 0 || ti < 0 {
			continue
		}
		if strings.Contains(cl.Src, "\n  first:\n") {
			continue // needs classes: their own first job is in the way; covered by the call-job generator
		}
		own := map[string]bool{}
		for _, m := range c12JobKeyRe.FindAllStringSubmatch(cl.Src[hi+len(head):], -1) {
			own[m[1]] = true
		}
		for _, sh := range shapes {
			var b strings.Builder
			for _, s := range c12JobSections {
				if own[s.Key] {
					continue
				}
				t := s.Mapping
				if sh.form == "scalar" && s.Scalar != "" {
					t = s.Scalar
				}
				if sh.form == "expr" {
					t = s.Expr
				}
				b.WriteString(c12Indent(4, t))
			}
			var src string
			if sh.before {
				at := hi + len(head)
				src = cl.Src[:at] + b.String() + cl.Src[at:]
			} else {
				src = cl.Src[:ti] + b.String() + cl.Src[ti:]
			}
			src += c12FirstJob
			n := *cl
			n.Src = src
			out = append(out, c12NCase{Shape: sh.name, Cl: &n, Ctrl: cl})
		}
	}
	return out
}

// ---------------------------------------------------------------------------
// reusable workflow call jobs

func c12CallJobCases() []c12NCase {
	var out []c12NCase
	type pos struct {
		name, key string
		kind      c12Kind
		sec       string // section key the probe lives in
		text      string // the section with the marker
		prefix    string
		noise     string
	}
	const needsNoise = `which does not exist in this workflow \[job-needs\]$`
	positions := []pos{
		{"jobs.<id>.name (call job)", "jobs.<job_id>.name", c12Str, "name", "name: @@\n", "", ""},
		{"jobs.<id>.needs (scalar) (call job)", "", c12Str, "needs", "needs: @@\n", "", needsNoise},
		{"jobs.<id>.needs[*] (call job)", "", c12Str, "needs", "needs:\n  - first\n  - @@\n", "", needsNoise},
		{"jobs.<id>.if (call job, expression)", "jobs.<job_id>.if", c12Bool, "if", "if: @@\n", "", ""},
		{"jobs.<id>.if (call job, bare)", "jobs.<job_id>.if", c12IfBare, "if", "if: @@\n", "", ""},
		{"jobs.<id>.strategy.fail-fast (call job)", c12StrategyKey, c12Bool, "strategy", "strategy:\n  fail-fast: @@\n  matrix:\n    mos: [a, b]\n", "", ""},
		{"jobs.<id>.strategy.max-parallel (call job)", c12StrategyKey, c12Any, "strategy", "strategy:\n  max-parallel: @@\n  matrix:\n    mos: [a, b]\n", "", ""},
		{"jobs.<id>.strategy.matrix.<row>[*] (call job)", c12StrategyKey, c12Str, "strategy", "strategy:\n  matrix:\n    mos:\n      - a\n      - @@\n", "", ""},
		{"jobs.<id>.strategy.matrix.exclude[*].<key> (call job)", c12StrategyKey, c12Str, "strategy", "strategy:\n  matrix:\n    mos: [a, b]\n    include: ${{ fromJSON('[{\"mos\":\"c\"}]') }}\n    exclude:\n      - mos: @@\n", "", ""},
		{"jobs.<id>.concurrency (scalar) (call job)", "jobs.<job_id>.concurrency", c12Str, "concurrency", "concurrency: @@\n", "", ""},
		{"jobs.<id>.concurrency.group (call job)", "jobs.<job_id>.concurrency", c12Str, "concurrency", "concurrency:\n  group: @@\n  cancel-in-progress: true\n", "", ""},
		{"jobs.<id>.concurrency.cancel-in-progress (call job)", "jobs.<job_id>.concurrency", c12Bool, "concurrency", "concurrency:\n  group: g1\n  cancel-in-progress: @@\n", "", ""},
		{"jobs.<id>.uses", "", c12Str, "uses", "uses: @@\n", "owner/repo/.github/workflows/w.yml@", ""},
		{"jobs.<id>.with.<id>", "jobs.<job_id>.with.<with_id>", c12Str, "with", "with:\n  first_input: lit\n  p: @@\n", "", ""},
		{"jobs.<id>.secrets.<id>", "jobs.<job_id>.secrets.<secrets_id>", c12Str, "secrets", "secrets:\n  first_secret: ${{ secrets.A }}\n  tok: @@\n", "", ""},
	}
	type sec struct{ key, lit, expr string }
	others := []sec{
		{"name", "name: Call job\n", "name: ${{ github.workflow }} call\n"},
		{"needs", "needs: first\n", "needs: [first]\n"},
		{"if", "if: true\n", "if: ${{ github.ref == 'x' }}\n"},
		{"permissions", "permissions:\n  contents: read\n", "permissions: read-all\n"},
		{"strategy", "strategy:\n  fail-fast: false\n  matrix:\n    cos: [a, b]\n", "strategy:\n  matrix: ${{ fromJSON('{\"cos\":[\"a\"]}') }}\n"},
		{"concurrency", "concurrency: g1\n", "concurrency:\n  group: ${{ github.ref }}\n  cancel-in-progress: ${{ github.ref != 'x' }}\n"},
	}
	callKinds := []struct{ name, with, secrets string }{
		{"uses only", "", ""},
		{"uses + with + secrets mapping", "with:\n  q: lit\n", "secrets:\n  s1: ${{ secrets.A }}\n"},
		{"uses + with expressions + secrets: inherit", "with:\n  q: ${{ github.sha }}\n", "secrets: inherit\n"},
	}
	for _, p := range positions {
		var ctrl *c12Class
		for _, ck := range callKinds {
			for _, oth := range []string{"no other keys", "all other keys literal", "all other keys expressions"} {
				var b strings.Builder
				for _, o := range others {
					if o.key == p.sec {
						b.WriteString(p.text)
						continue
					}
					switch oth {
					case "all other keys literal":
						b.WriteString(o.lit)
					case "all other keys expressions":
						b.WriteString(o.expr)
					}
				}
				if p.sec == "uses" {
					b.WriteString(p.text)
				} else {
					b.WriteString("uses: owner/repo/.github/workflows/w.yml@v1\n")
				}
				if p.sec == "with" {
					b.WriteString(p.text)
				} else {
					b.WriteString(ck.with)
				}
				if p.sec == "secrets" {
					b.WriteString(p.text)
				} else {
					b.WriteString(ck.secrets)
				}
				src := "on: push\njobs:\n" + c12FirstJob + "  call:\n" + c12Indent(4, b.String())
				cl := &c12Class{Name: p.name, Key: p.key, Kind: p.kind, Prefix: p.prefix, Noise: p.noise, Src: src}
				if ctrl == nil {
					ctrl = cl
				}
				out = append(out, c12NCase{Shape: ck.name + "; " + oth, Cl: cl, Ctrl: ctrl})
			}
		}
	}
	return out
}

// ---------------------------------------------------------------------------
// steps

func c12StepCases() []c12NCase {
	var out []c12NCase
	type pos struct {
		name, key string
		kind      c12Kind
		sec       string
		text      string
		prefix    string
		only      string // "" | "run" | "uses" | "docker"
	}
	const sk = "jobs.<job_id>.steps."
	positions := []pos{
		{"steps[*].id", "", c12Str, "id", "id: @@\n", "s", ""},
		{"steps[*].name", sk + "name", c12Str, "name", "name: @@\n", "", ""},
		{"steps[*].if (expression)", sk + "if", c12Bool, "if", "if: @@\n", "", ""},
		{"steps[*].if (bare)", sk + "if", c12IfBare, "if", "if: @@\n", "", ""},
		{"steps[*].env.<name>", sk + "env", c12Str, "env", "env:\n  FIRST: lit\n  FOO: @@\n", "", ""},
		{"steps[*].env (expression)", sk + "env", c12Any, "env", "env: @@\n", "", ""},
		{"steps[*].env.<name> (key)", sk + "env", c12Str, "env", "env:\n  FIRST: lit\n  @@: v\n", "K_", ""},
		{"steps[*].continue-on-error", sk + "continue-on-error", c12Bool, "continue-on-error", "continue-on-error: @@\n", "", ""},
		{"steps[*].timeout-minutes", sk + "timeout-minutes", c12Any, "timeout-minutes", "timeout-minutes: @@\n", "", ""},
		{"steps[*].run", sk + "run", c12Str, "run", "run: @@\n", "echo ", "run"},
		{"steps[*].shell", "", c12Str, "shell", "shell: @@\n", "", "run"},
		{"steps[*].working-directory", sk + "working-directory", c12Str, "working-directory", "working-directory: @@\n", "", "run"},
		{"steps[*].uses", "", c12Str, "uses", "uses: @@\n", "owner/repo@", "uses"},
		{"steps[*].with.<id>", sk + "with", c12Str, "with", "with:\n  first: lit\n  p: @@\n", "", "uses"},
		{"steps[*].with.entrypoint", sk + "with", c12Str, "with", "with:\n  first: lit\n  entrypoint: @@\n  args: a b\n", "", "docker"},
		{"steps[*].with.args", sk + "with", c12Str, "with", "with:\n  entrypoint: /bin/sh\n  args: @@\n  last: lit\n", "", "docker"},
	}
	type sec struct{ key, lit, expr string }
	common := []sec{
		{"id", "id: probe_step\n", "id: probe_step\n"},
		{"name", "name: A step\n", "name: ${{ github.sha }} step\n"},
		{"if", "if: true\n", "if: ${{ github.ref == 'x' }}\n"},
		{"EXEC", "", ""},
		{"env", "env:\n  SFOO: bar\n", "env: ${{ fromJSON('{\"SFOO\":\"bar\"}') }}\n"},
		{"continue-on-error", "continue-on-error: false\n", "continue-on-error: ${{ github.ref == 'x' }}\n"},
		{"timeout-minutes", "timeout-minutes: 5\n", "timeout-minutes: ${{ fromJSON('5') }}\n"},
	}
	kinds := []struct {
		name, kind string
		lit        []sec
	}{
		{"run step", "run", []sec{{"run", "run: echo\n", "run: echo ${{ github.sha }}\n"}}},
		{"run step with shell and working-directory", "run", []sec{{"run", "run: echo\n", "run: echo ${{ github.sha }}\n"}, {"shell", "shell: bash\n", "shell: bash\n"}, {"working-directory", "working-directory: src\n", "working-directory: ${{ github.workspace }}\n"}}},
		{"uses step", "uses", []sec{{"uses", "uses: owner/repo@v1\n", "uses: owner/repo@v1\n"}}},
		{"uses step with inputs", "uses", []sec{{"uses", "uses: owner/repo@v1\n", "uses: owner/repo@v1\n"}, {"with", "with:\n  q: lit\n", "with:\n  q: ${{ github.sha }}\n"}}},
		{"docker action with entrypoint and args", "docker", []sec{{"uses", "uses: docker://alpine:3\n", "uses: docker://alpine:3\n"}, {"with", "with:\n  entrypoint: /bin/sh\n  args: -c ls\n", "with:\n  entrypoint: ${{ github.sha }}\n  args: ${{ github.ref }}\n"}}},
	}
	for _, p := range positions {
		var ctrl *c12Class
		for _, k := range kinds {
			if p.only != "" && p.only != k.kind {
				continue
			}
			for _, oth := range []string{"no other keys", "all other keys literal", "all other keys expressions"} {
				var b strings.Builder
				expr := oth == "all other keys expressions"
				pick := func(s sec) string {
					if expr {
						return s.expr
					}
					return s.lit
				}
				for _, s := range common {
					if s.key == "EXEC" {
						for _, e := range k.lit {
							if e.key == p.sec {
								b.WriteString(p.text)
							} else {
								b.WriteString(pick(e))
							}
						}
						// a probed exec key that the kind does not have by itself (shell, working-directory, with)
						has := false
						for _, e := range k.lit {
							if e.key == p.sec {
								has = true
							}
						}
						if !has && p.only != "" {
							b.WriteString(p.text)
						}
						continue
					}
					if s.key == p.sec {
						b.WriteString(p.text)
						continue
					}
					if oth != "no other keys" {
						b.WriteString(pick(s))
					}
				}
				body := c12Indent(8, b.String())
				body = "      - " + body[8:]
				src := "on: push\njobs:\n  build:\n    runs-on: ubuntu-latest\n    steps:\n      - id: earlier\n        run: echo\n" + body + "      - run: echo later\n"
				cl := &c12Class{Name: p.name, Key: p.key, Kind: p.kind, Prefix: p.prefix, Src: src}
				if ctrl == nil {
					ctrl = cl
				}
				out = append(out, c12NCase{Shape: k.name + "; " + oth, Cl: cl, Ctrl: ctrl})
			}
		}
	}
	return out
}

// ---------------------------------------------------------------------------
// sub-mappings: container / services, environment, concurrency, runs-on

func c12SubMappingCases() []c12NCase {
	var out []c12NCase
	add := func(name, key string, kind c12Kind, prefix, noise, shape, src string) {
		out = append(out, c12NCase{Shape: shape, Cl: &c12Class{Name: name, Key: key, Kind: kind, Prefix: prefix, Noise: noise, Src: src}})
	}
	job := func(lines string) string {
		return "on: push\njobs:\n  build:\n    runs-on: ubuntu-latest\n" + c12Indent(4, lines) + "    steps:\n      - run: echo\n"
	}
	// container / services
	type field struct{ key, lit, expr string }
	fields := []field{
		{"image", "image: img\n", "image: ${{ github.repository }}\n"},
		{"credentials", "credentials:\n  username: u\n  password: ${{ secrets.PW }}\n", "credentials:\n  username: ${{ github.actor }}\n  password: ${{ secrets.PW }}\n"},
		{"env", "env:\n  CFOO: bar\n", "env: ${{ fromJSON('{\"CFOO\":\"bar\"}') }}\n"},
		{"ports", "ports:\n  - 80\n", "ports:\n  - ${{ github.run_id }}\n"},
		{"volumes", "volumes:\n  - /a:/b\n", "volumes:\n  - ${{ github.workspace }}:/b\n"},
		{"options", "options: --cpus 1\n", "options: --cpus ${{ github.run_attempt }}\n"},
	}
	type cpos struct {
		suffix, keySuffix string
		kind              c12Kind
		field, text       string
		prefix, noise     string
	}
	const pwNoise = `should be specified via secrets\. do not put password value directly \[credentials\]$`
	cposs := []cpos{
		{"image", "", c12Str, "image", "image: @@\n", "", ""},
		{"credentials.username", ".credentials", c12Str, "credentials", "credentials:\n  username: @@\n  password: ${{ secrets.PW }}\n", "", ""},
		{"credentials.password", ".credentials", c12Str, "credentials", "credentials:\n  username: u\n  password: @@\n", "", pwNoise},
		{"env.<name>", ".env.<env_id>", c12Str, "env", "env:\n  FIRST: lit\n  FOO: @@\n", "", ""},
		{"env (expression)", ".env.<env_id>", c12Any, "env", "env: @@\n", "", ""},
		{"env.<name> (key)", ".env.<env_id>", c12Str, "env", "env:\n  FIRST: lit\n  @@: v\n", "K_", ""},
		{"ports[*]", "", c12Str, "ports", "ports:\n  - 80\n  - @@\n", "", ""},
		{"volumes[*]", "", c12Str, "volumes", "volumes:\n  - /a:/b\n  - @@\n", "", ""},
		{"options", "", c12Str, "options", "options: @@\n", "", ""},
	}
	for _, where := range []string{"container", "services"} {
		for _, p := range cposs {
			for _, oth := range []string{"all other sub-fields literal", "all other sub-fields expressions"} {
				var b strings.Builder
				for _, f := range fields {
					switch {
					case f.key == p.field:
						b.WriteString(p.text)
					case oth == "all other sub-fields literal":
						b.WriteString(f.lit)
					default:
						b.WriteString(f.expr)
					}
				}
				var name, key, src string
				if where == "container" {
					name = "jobs.<id>.container." + p.suffix
					key = "jobs.<job_id>.container" + p.keySuffix
					if p.suffix == "image" {
						key = "jobs.<job_id>.container.image"
					}
					src = job("container:\n" + c12Indent(2, b.String()) + "services:\n  other:\n    image: oimg\n")
				} else {
					name = "jobs.<id>.services.<id>." + p.suffix
					key = "jobs.<job_id>.services"
					if p.keySuffix != "" {
						key = "jobs.<job_id>.services.<service_id>" + p.keySuffix
					}
					src = job("container: cimg\nservices:\n  before:\n    image: bimg\n  db:\n" + c12Indent(4, b.String()) + "  after: aimg\n")
				}
				add(name, key, p.kind, p.prefix, p.noise, oth, src)
			}
		}
	}
	// environment
	add("jobs.<id>.environment.name", "jobs.<job_id>.environment", c12Str, "", "", "url given by an expression", job("environment:\n  url: ${{ github.server_url }}\n  name: @@\n"))
	add("jobs.<id>.environment.url", "jobs.<job_id>.environment.url", c12Str, "", "", "name given by an expression", job("environment:\n  name: ${{ github.ref_name }}\n  url: @@\n"))
	add("jobs.<id>.environment.url", "jobs.<job_id>.environment.url", c12Str, "", "", "url before name", job("environment:\n  url: @@\n  name: prod\n"))
	// concurrency (workflow and job level)
	wf := func(lines string) string { return "on: push\n" + lines + c12TailJobs }
	for _, lvl := range []string{"", "jobs.<id>."} {
		key := "concurrency"
		wrap := wf
		if lvl != "" {
			key = "jobs.<job_id>.concurrency"
			wrap = job
		}
		add(lvl+"concurrency.group", key, c12Str, "", "", "cancel-in-progress literal", wrap("concurrency:\n  cancel-in-progress: true\n  group: @@\n"))
		add(lvl+"concurrency.group", key, c12Str, "", "", "cancel-in-progress given by an expression", wrap("concurrency:\n  cancel-in-progress: ${{ github.ref != 'x' }}\n  group: @@\n"))
		add(lvl+"concurrency.cancel-in-progress", key, c12Bool, "", "", "group given by an expression", wrap("concurrency:\n  group: ${{ github.ref }}\n  cancel-in-progress: @@\n"))
		add(lvl+"concurrency.cancel-in-progress", key, c12Bool, "", "", "cancel-in-progress before group", wrap("concurrency:\n  cancel-in-progress: @@\n  group: g1\n"))
	}
	// runs-on
	ro := func(lines string) string {
		return "on: push\njobs:\n  build:\n    runs-on:\n" + c12Indent(6, lines) + "    steps:\n      - run: echo\n"
	}
	const rk = "jobs.<job_id>.runs-on"
	for _, l := range []struct{ shape, text string }{
		{"labels scalar", "labels: self-hosted\n"},
		{"labels list", "labels:\n  - self-hosted\n  - linux\n"},
		{"labels list with an expression", "labels:\n  - self-hosted\n  - ${{ github.ref_name }}\n"},
		{"labels given by one expression", "labels: ${{ fromJSON('[\"self-hosted\"]') }}\n"},
	} {
		add("jobs.<id>.runs-on.group", rk, c12Str, "", "", l.shape+" before group", ro(l.text+"group: @@\n"))
		add("jobs.<id>.runs-on.group", rk, c12Str, "", "", l.shape+" after group", ro("group: @@\n"+l.text))
	}
	for _, gtext := range []struct{ shape, text string }{{"group literal", "group: g1\n"}, {"group given by an expression", "group: ${{ github.ref_name }}\n"}} {
		add("jobs.<id>.runs-on.labels (expression)", rk, c12Any, "", "", gtext.shape+" before labels", ro(gtext.text+"labels: @@\n"))
		add("jobs.<id>.runs-on.labels (label text)", rk, c12Str, "pool-", "", gtext.shape+" after labels", ro("labels: @@\n"+gtext.text))
		add("jobs.<id>.runs-on.labels[*]", rk, c12Str, "", "", gtext.shape+" before labels", ro(gtext.text+"labels:\n  - self-hosted\n  - @@\n"))
	}
	return out
}

// ---------------------------------------------------------------------------

// c12NoMatrixCases: `strategy:` without a `matrix:` key - fail-fast / max-parallel are still governed
// by jobs.<job_id>.strategy - in ordinary and in reusable-workflow call jobs.
func c12NoMatrixCases() []c12NCase {
	var out []c12NCase
	for _, jobKind := range []string{"ordinary job", "call job"} {
		wrap := func(strategy string) string {
			if jobKind == "call job" {
				return "on: push\njobs:\n  call:\n    strategy:\n" + c12Indent(6, strategy) + "    uses: owner/repo/.github/workflows/w.yml@v1\n"
			}
			return "on: push\njobs:\n  build:\n    runs-on: ubuntu-latest\n    strategy:\n" + c12Indent(6, strategy) + "    steps:\n      - run: echo\n"
		}
		sfx := ""
		if jobKind == "call job" {
			sfx = " (call job)"
		}
		for _, sh := range []struct{ shape, ff, mp string }{
			{"no matrix key; only this key", "fail-fast: @@\n", "max-parallel: @@\n"},
			{"no matrix key; the other key literal, before", "max-parallel: 2\nfail-fast: @@\n", "fail-fast: false\nmax-parallel: @@\n"},
			{"no matrix key; the other key literal, after", "fail-fast: @@\nmax-parallel: 2\n", "max-parallel: @@\nfail-fast: false\n"},
			{"no matrix key; the other key given by an expression", "max-parallel: ${{ fromJSON('2') }}\nfail-fast: @@\n", "fail-fast: ${{ github.ref == 'x' }}\nmax-parallel: @@\n"},
		} {
			out = append(out, c12NCase{Shape: jobKind + "; " + sh.shape, Cl: &c12Class{Name: "jobs.<id>.strategy.fail-fast" + sfx, Key: c12StrategyKey, Kind: c12Bool, Src: wrap(sh.ff)}})
			out = append(out, c12NCase{Shape: jobKind + "; " + sh.shape, Cl: &c12Class{Name: "jobs.<id>.strategy.max-parallel" + sfx, Key: c12StrategyKey, Kind: c12Any, Src: wrap(sh.mp)}})
		}
	}
	return out
}

func c12NeighbourCases(base []*c12Class) []c12NCase {
	var out []c12NCase
	out = append(out, c12MatrixCases()...)
	out = append(out, c12NoMatrixCases()...)
	out = append(out, c12JobNeighbourCases(base)...)
	out = append(out, c12CallJobCases()...)
	out = append(out, c12StepCases()...)
	out = append(out, c12SubMappingCases()...)
	return out
}

func c12NeighbourID(nc c12NCase) string { return nc.Cl.Name + " | " + nc.Shape }

func c12NeighbourCase(c *Case, g map[string]*c12Avail, nc c12NCase) {
	cl := nc.Cl
	if g[cl.Key] == nil {
		c.Inconclusive(fmt.Sprintf("neighbour case %q refers to key %q which is not in the transcribed table", c12NeighbourID(nc), cl.Key))
		return
	}
	if !c12Baseline(c, g, cl) {
		return
	}
	names, isFn := c12AllNames()
	type fail struct {
		name string
		fn   bool
		res  *c12Result
		exp  map[c12Obs]bool
	}
	var fails []fail
	due, dueMissed := 0, 0
	for i, n := range names {
		res, exp := c12Run(c, g, cl, c12Leaf(n, isFn[i]), "", "", false, false)
		c.Count("neighbour_lints", 1)
		c.Nontrivial("nb|" + c12NeighbourID(nc) + "|" + n)
		if len(exp) > 0 {
			due++
			if len(res.Missing) > 0 {
				dueMissed++
			} else if res.ok() {
				c.SetAdd("neighbour_cases_with_due_and_correct_report", c12NeighbourID(nc))
			}
		}
		if !res.ok() {
			fails = append(fails, fail{n, isFn[i], res, exp})
		}
		if c.Idx%211 == 17 && n == "secrets" {
			c.Sample(map[string]interface{}{"class": cl.Name, "neighbours": nc.Shape, "table_key": c12KeyLabel(cl.Key), "src": res.Src, "expected": c12ObsList(exp), "diags": c12ShortDiags(res.Diags)})
		}
	}
	if len(fails) == 0 {
		c.SetAdd("neighbour_cases_ok", c12NeighbourID(nc))
		return
	}
	f := fails[0]
	d := c12Detail(cl, f.res, f.exp)
	d["neighbours"] = nc.Shape
	if due > 0 && dueMissed == due {
		c.Violation("C12:position-not-checked-with-neighbours:"+cl.Name,
			fmt.Sprintf("position class %q (key %s) with neighbours [%s]: none of the %d names that must be reported there is reported - the position is not checked when its neighbours have this shape", cl.Name, c12KeyLabel(cl.Key), nc.Shape, due), d)
		return
	}
	for _, f := range fails {
		d := c12Detail(cl, f.res, f.exp)
		d["neighbours"] = nc.Shape
		if f.res.Err != nil {
			c.Violation("C12:fatal-error", "linting a probe returned a fatal error: "+f.res.Err.Error(), d)
			continue
		}
		pol := "not-reported"
		if len(f.res.Missing) == 0 {
			pol = "wrongly-reported"
		}
		sig := "C12:neighbours:" + pol + ":" + cl.Name
		if nc.Ctrl != nil && nc.Ctrl != cl {
			if ctrl, _ := c12Run(c, g, nc.Ctrl, c12Leaf(f.name, f.fn), "", "", false, false); ctrl.ok() {
				sig = "C12:verdict-depends-on-neighbours:" + pol + ":" + cl.Name
			}
		}
		c.Violation(sig, fmt.Sprintf("%q at position class %q (key %s) with neighbours [%s]: missing=%v spurious=%v", f.name, cl.Name, c12KeyLabel(cl.Key), nc.Shape, f.res.Missing, f.res.Spurious), d)
	}
}

// c12NeighbourFloors: every (position class x neighbour shape) must have been exercised with a clean
// baseline and at least one due and correct report.
func c12NeighbourFloors(r *Run, cases []c12NCase) {
	seen := map[string]bool{}
	bad := 0
	for _, nc := range cases {
		id := c12NeighbourID(nc)
		if seen[id] {
			r.Inconclusive("duplicate neighbour case " + id)
		}
		seen[id] = true
		if !r.SetHas("neighbour_cases_with_due_and_correct_report", id) {
			if bad++; bad <= 8 {
				r.Inconclusive("neighbour case without a due and correct report: " + id)
			}
		}
	}
	r.Extra("neighbour_cases", len(cases))
}
