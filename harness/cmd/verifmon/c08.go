package main

// C08 — names are matched case-insensitively everywhere.
//
// Metamorphic monitor. A seeded generator (c08_gen.go) builds workflows, and for a share of the
// cases whole projects on disk (local actions, local reusable workflows), in which it knows every
// name occurrence and its class. A case changes the letter case of a non-empty subset of the
// occurrences (same length, so no column moves) and compares the diagnostics with those of the
// unflipped input: the multiset of (file, line, column, kind, message) must be identical once the
// messages are lower-cased (only the echoed spelling may differ; lists of quoted names inside a
// message are compared as multisets because actionlint sorts them by their original spelling).
// On a disagreement the set of flips is minimised (single flips first, then greedy removal) and the
// classes of the remaining flips form the signature.

import (
	"fmt"
	"os"
	"path/filepath"
	"regexp"
	"sort"
	"strings"

	"github.com/rhysd/actionlint"
)

func init() { registry["C08"] = runC08 }

type c08Project struct {
	onDisk    bool
	files     map[string]string // rel path -> base content (markers removed)
	order     []string          // all files in a fixed order
	lintFiles []string          // workflow files that are linted, in a fixed order
	roles     map[string]string // lintFile -> "workflow" | "caller" | "callee"
	occs      []c08Occ
	injected  map[string]int
}

const c08MainRel = ".github/workflows/main.yml"

// c08GenProject builds one base input.
func c08GenProject(r *Rand, defPM int, indexLit, onDisk bool) *c08Project {
	g := c08NewGen(r)
	g.defPM = defPM
	g.indexLit = indexLit
	p := &c08Project{onDisk: onDisk, files: map[string]string{}, roles: map[string]string{}}
	add := func(rel, marked string) {
		plain, occs := c08Strip(rel, marked)
		p.files[rel] = plain
		p.order = append(p.order, rel)
		p.occs = append(p.occs, occs...)
	}
	if !onDisk {
		m, _ := g.workflow(c08WFOpts{})
		add(c08MainRel, m)
		p.lintFiles = []string{c08MainRel}
		p.roles[c08MainRel] = "workflow"
		p.injected = g.injected
		return p
	}
	p.files[".git/HEAD"] = "ref: refs/heads/main\n"
	p.order = append(p.order, ".git/HEAD")
	for i, n := 0, r.Range(0, 2); i < n; i++ {
		fs, a := g.localAction(i)
		var rels []string
		for rel := range fs {
			rels = append(rels, rel)
		}
		sort.Strings(rels)
		for _, rel := range rels {
			add(rel, fs[rel])
		}
		g.actions = append(g.actions, a)
	}
	nc := r.Range(0, 2)
	if len(g.actions) == 0 && nc == 0 {
		nc = 1
	}
	for i := 0; i < nc; i++ {
		rel := fmt.Sprintf(".github/workflows/callee%d.yml", i)
		m, wf := g.workflow(c08WFOpts{forceCall: true})
		add(rel, m)
		g.callees = append(g.callees, &c08Callee{spec: "./" + rel, file: rel, inputs: wf.callInputs, secrets: wf.callSecrets, outputs: wf.callOutputs})
		p.lintFiles = append(p.lintFiles, rel)
		p.roles[rel] = "callee"
	}
	m, _ := g.workflow(c08WFOpts{selfSpec: "./" + c08MainRel})
	add(c08MainRel, m)
	p.lintFiles = append(p.lintFiles, c08MainRel)
	p.roles[c08MainRel] = "caller"
	p.injected = g.injected
	return p
}

// ---------------------------------------------------------------------------
// flips

type c08Edit struct {
	Occ  int    `json:"occ"`
	Site string `json:"site"`
	File string `json:"file"`
	From string `json:"from"`
	To   string `json:"to"`
}

func c08IsLetter(b byte) bool { return b >= 'a' && b <= 'z' || b >= 'A' && b <= 'Z' }

func c08Swap(s string) string {
	b := []byte(s)
	for i, c := range b {
		if c >= 'a' && c <= 'z' {
			b[i] = c - 32
		} else if c >= 'A' && c <= 'Z' {
			b[i] = c + 32
		}
	}
	return string(b)
}

func c08Mixed(r *Rand, s string) string {
	b := []byte(s)
	for i, c := range b {
		if c08IsLetter(c) && r.Bool() {
			b[i] = c08Swap(string(c))[0]
		}
	}
	return string(b)
}

// c08Variant returns a spelling of s that differs from s only in letter case ("" if s has no letter).
func c08Variant(r *Rand, s string, style int) string {
	var cand []string
	switch style {
	case 0:
		cand = []string{strings.ToLower(s)}
	case 1:
		cand = []string{strings.ToUpper(s)}
	}
	cand = append(cand, strings.ToUpper(s), strings.ToLower(s), c08Mixed(r, s), c08Mixed(r, s), c08Swap(s))
	if style < 0 {
		p := r.Intn(len(cand))
		cand[0], cand[p] = cand[p], cand[0]
	}
	for _, c := range cand {
		if c != s {
			return c
		}
	}
	return ""
}

// c08ChooseEdits selects the flips of one variant.
func c08ChooseEdits(r *Rand, occs []c08Occ, mode int) []c08Edit {
	mk := func(i int, to string) c08Edit {
		return c08Edit{i, occs[i].Site, occs[i].File, occs[i].Text, to}
	}
	var flippable []int
	for i, o := range occs {
		if strings.ToLower(o.Text) != strings.ToUpper(o.Text) {
			flippable = append(flippable, i)
		}
	}
	if len(flippable) == 0 {
		return nil
	}
	var out []c08Edit
	switch mode {
	case 0, 4: // everything lower / everything upper
		for _, i := range flippable {
			to := strings.ToLower(occs[i].Text)
			if mode == 4 {
				to = strings.ToUpper(occs[i].Text)
			}
			if to != occs[i].Text {
				out = append(out, mk(i, to))
			}
		}
	case 1: // exactly one occurrence
		i := flippable[r.Intn(len(flippable))]
		out = append(out, mk(i, c08Variant(r, occs[i].Text, -1)))
	case 2, 7: // random subset
		den := 2
		if mode == 7 {
			den = 4
		}
		for _, i := range flippable {
			if r.Intn(den) == 0 {
				out = append(out, mk(i, c08Variant(r, occs[i].Text, -1)))
			}
		}
	case 3: // a few
		n := r.Range(2, 4)
		for _, k := range r.Perm(len(flippable)) {
			if n == 0 {
				break
			}
			n--
			i := flippable[k]
			out = append(out, mk(i, c08Variant(r, occs[i].Text, -1)))
		}
		sort.Slice(out, func(a, b int) bool { return out[a].Occ < out[b].Occ })
	case 5: // consistent re-spelling of one logical name at all its occurrences
		i := flippable[r.Intn(len(flippable))]
		to := c08Variant(r, occs[i].Text, r.Intn(3)-1)
		for _, k := range flippable {
			if occs[k].Text == occs[i].Text {
				out = append(out, mk(k, to))
			}
		}
	case 6: // all occurrences of one logical name but one
		i := flippable[r.Intn(len(flippable))]
		to := c08Variant(r, occs[i].Text, -1)
		var same []int
		for _, k := range flippable {
			if occs[k].Text == occs[i].Text {
				same = append(same, k)
			}
		}
		skip := same[r.Intn(len(same))]
		for _, k := range same {
			if k != skip || len(same) == 1 {
				out = append(out, mk(k, to))
			}
		}
	}
	if len(out) == 0 { // e.g. everything was lower case already
		i := flippable[r.Intn(len(flippable))]
		out = append(out, mk(i, c08Variant(r, occs[i].Text, -1)))
	}
	return out
}

func c08Apply(p *c08Project, edits []c08Edit) map[string]string {
	bufs := map[string][]byte{}
	for _, e := range edits {
		o := p.occs[e.Occ]
		b, ok := bufs[o.File]
		if !ok {
			b = []byte(p.files[o.File])
			bufs[o.File] = b
		}
		copy(b[o.Off:o.Off+o.Len], e.To)
	}
	out := make(map[string]string, len(p.files))
	for rel, s := range p.files {
		if b, ok := bufs[rel]; ok {
			out[rel] = string(b)
		} else {
			out[rel] = s
		}
	}
	return out
}

// ---------------------------------------------------------------------------
// observation

var c08QuotedRe = regexp.MustCompile(`"[^"]*"`)

// c08Norm: message modulo letter case and modulo the order of the quoted names it lists.
func c08Norm(msg string) string {
	l := strings.ToLower(msg)
	qs := c08QuotedRe.FindAllString(l, -1)
	sort.Strings(qs)
	return c08QuotedRe.ReplaceAllString(l, `""`) + " | " + strings.Join(qs, ",")
}

type c08Obs struct {
	Keys  []string            // sorted "file|line:col|kind|normalised message"
	Raw   map[string][]string // key -> diagnostics as reported ("file: line:col: message [kind]")
	Diags map[string][]string // file -> diagnostics as reported
	Fatal string
}

type c08Runner struct {
	p    *c08Project
	root string
}

func (rn *c08Runner) close() {
	if rn.root != "" {
		os.RemoveAll(rn.root)
	}
}

func (rn *c08Runner) lint(files map[string]string) c08Obs {
	o := c08Obs{Diags: map[string][]string{}, Raw: map[string][]string{}}
	if rn.p.onDisk {
		if rn.root == "" {
			rn.root = mkScratch("c08")
		}
		writeFiles(rn.root, files)
	}
	for _, rel := range rn.p.lintFiles {
		var ds []Diag
		var err error
		if rn.p.onDisk {
			var errs []*actionlint.Error
			errs, err = lintFileFresh(filepath.Join(rn.root, rel), rn.root, actionlint.LinterOptions{})
			ds = toDiags(errs)
		} else {
			ds, err = lintSrc(files[rel])
		}
		if err != nil {
			o.Fatal = rel + ": " + err.Error()
			if rn.root != "" {
				o.Fatal = strings.ReplaceAll(o.Fatal, rn.root, "<root>")
			}
			return o
		}
		for _, d := range ds {
			msg := d.Msg
			if rn.root != "" {
				msg = strings.ReplaceAll(msg, rn.root, "<root>")
			}
			key := fmt.Sprintf("%s|%d:%d|%s|%s", rel, d.Line, d.Col, d.Kind, c08Norm(msg))
			raw := fmt.Sprintf("%d:%d: %s [%s]", d.Line, d.Col, msg, d.Kind)
			o.Keys = append(o.Keys, key)
			o.Raw[key] = append(o.Raw[key], rel+": "+raw)
			o.Diags[rel] = append(o.Diags[rel], raw)
		}
	}
	sort.Strings(o.Keys)
	return o
}

func c08Same(a, b c08Obs) bool {
	if a.Fatal != b.Fatal || len(a.Keys) != len(b.Keys) {
		return false
	}
	for i := range a.Keys {
		if a.Keys[i] != b.Keys[i] {
			return false
		}
	}
	return true
}

// c08Diff lists the diagnostics only in a and only in b (multiset difference over the keys); the
// diagnostics are returned as reported, the files they belong to separately.
func c08Diff(a, b c08Obs) (onlyA, onlyB []string, files map[string]bool) {
	files = map[string]bool{}
	cnt := map[string]int{}
	for _, k := range a.Keys {
		cnt[k]++
	}
	used := map[string]int{}
	pick := func(o c08Obs, k string) string {
		files[k[:strings.IndexByte(k, '|')]] = true
		l := o.Raw[k]
		i := used[k]
		used[k]++
		if i < len(l) {
			return l[i]
		}
		return k
	}
	for _, k := range b.Keys {
		if cnt[k] > 0 {
			cnt[k]--
		} else {
			onlyB = append(onlyB, pick(b, k))
		}
	}
	used = map[string]int{}
	var ks []string
	for k, n := range cnt {
		for i := 0; i < n; i++ {
			ks = append(ks, k)
		}
	}
	sort.Strings(ks)
	for _, k := range ks {
		onlyA = append(onlyA, pick(a, k))
	}
	return
}

// diagnostic classes of interest (for the coverage floors: "same diagnostics" must not be vacuous)
var c08DiagClasses = []struct {
	name string
	re   *regexp.Regexp
}{
	{"undefined-property", regexp.MustCompile(`^property "[^"]*" is not defined in object type`)},
	{"undefined-variable", regexp.MustCompile(`^undefined variable`)},
	{"undefined-function", regexp.MustCompile(`^undefined function`)},
	{"context-not-allowed", regexp.MustCompile(`^context "[^"]*" is not allowed here`)},
	{"special-function-not-allowed", regexp.MustCompile(`^calling function "[^"]*" is not allowed here`)},
	{"untrusted-input", regexp.MustCompile(`is potentially untrusted`)},
	{"needs-undefined-job", regexp.MustCompile(`needs job "[^"]*" which does not exist`)},
	{"needs-cycle", regexp.MustCompile(`cyclic dependencies in "needs"`)},
	{"duplicate-step-id", regexp.MustCompile(`^step ID "[^"]*" duplicates`)},
	{"action-missing-input", regexp.MustCompile(`^missing input "[^"]*" which is required by action`)},
	{"action-undefined-input", regexp.MustCompile(`^input "[^"]*" is not defined in action`)},
	{"call-undefined-input", regexp.MustCompile(`^input "[^"]*" is not defined in "[^"]*" reusable workflow`)},
	{"call-missing-input", regexp.MustCompile(`^input "[^"]*" is required by "[^"]*" reusable workflow`)},
	{"call-undefined-secret", regexp.MustCompile(`^secret "[^"]*" is not defined in "[^"]*" reusable workflow`)},
	{"call-missing-secret", regexp.MustCompile(`^secret "[^"]*" is required by "[^"]*" reusable workflow`)},
	{"call-input-type", regexp.MustCompile(`^input "[^"]*" is typed as`)},
	{"matrix-exclude-unknown-key", regexp.MustCompile(`in "exclude" section does not exist in matrix`)},
	{"needs-duplicate-entry", regexp.MustCompile(`duplicates in "needs" section`)},
	{"runner-label-unknown", regexp.MustCompile(`^label "[^"]*" is unknown`)},
	{"runner-label-conflict", regexp.MustCompile(`^label "[^"]*" conflicts with label`)},
}

func c08ClassOf(msg string) string {
	for _, c := range c08DiagClasses {
		if c.re.MatchString(msg) {
			return c.name
		}
	}
	return ""
}

var c08DiagMsgRe = regexp.MustCompile(`^\d+:\d+: (.*) \[[^\]]*\]$`)

// ---------------------------------------------------------------------------
// the case

func c08SitesOf(edits []c08Edit) string {
	set := map[string]bool{}
	for _, e := range edits {
		set[e.Site] = true
	}
	var l []string
	for s := range set {
		l = append(l, s)
	}
	sort.Strings(l)
	if len(l) > 3 {
		l = append(l[:3], "more")
	}
	return strings.Join(l, "+")
}

// c08Minimise returns a 1-minimal subset of edits that still disagrees with the base (ddmin).
func c08Minimise(rn *c08Runner, base c08Obs, edits []c08Edit, c *Case) []c08Edit {
	bad := func(es []c08Edit) bool {
		c.Eval(1)
		c.Count("minimisation_evaluations", 1)
		return !c08Same(base, rn.lint(c08Apply(rn.p, es)))
	}
	cur := append([]c08Edit(nil), edits...)
	n := 2
	for len(cur) >= 2 {
		if n > len(cur) {
			n = len(cur)
		}
		// split cur into n chunks
		var chunks [][]c08Edit
		for i := 0; i < n; i++ {
			lo, hi := i*len(cur)/n, (i+1)*len(cur)/n
			chunks = append(chunks, cur[lo:hi])
		}
		reduced := false
		for _, ch := range chunks {
			if bad(ch) {
				cur = append([]c08Edit(nil), ch...)
				n = 2
				reduced = true
				break
			}
		}
		if !reduced && n > 2 {
			for i := range chunks {
				var comp []c08Edit
				for k, ch := range chunks {
					if k != i {
						comp = append(comp, ch...)
					}
				}
				if bad(comp) {
					cur = comp
					n--
					reduced = true
					break
				}
			}
		}
		if !reduced {
			if n >= len(cur) {
				break
			}
			n *= 2
		}
	}
	return cur
}

type c08Cfg struct {
	onDisk   bool
	indexLit bool
	flips    int
	thorough bool
}

func c08Case(c *Case, cfg c08Cfg) {
	r := c.R
	defPM := 0
	switch r.Intn(5) {
	case 0, 1:
		defPM = 0
	case 2:
		defPM = 30
	case 3:
		defPM = 80
	case 4:
		defPM = 160
	}
	p := c08GenProject(r, defPM, cfg.indexLit, cfg.onDisk)
	c08RunBase(c, p, func(rn *c08Runner, base c08Obs, try func(edits []c08Edit, k, mode int) bool) {
		nviol := 0
		for k := 0; k < cfg.flips; k++ {
			mode := 0
			if k > 0 {
				mode = []int{1, 1, 2, 3, 5, 6, 7, 4, 1, 3}[r.Intn(10)]
			}
			edits := c08ChooseEdits(r, p.occs, mode)
			if len(edits) == 0 {
				continue
			}
			if !try(edits, k, mode) {
				continue
			}
			// go on with the other variants of this base (another class may disagree as well), but
			// bound the work spent on one base
			if nviol++; nviol >= 3 {
				return
			}
		}
	})
}

// c08FixedCase: template c.Idx of c08FixedTemplates, all single flips.
func c08FixedCase(c *Case) {
	marked := c08FixedTemplates()[c.Idx]
	p := &c08Project{files: map[string]string{}, roles: map[string]string{c08MainRel: "workflow"}, lintFiles: []string{c08MainRel}, order: []string{c08MainRel}}
	p.files[c08MainRel], p.occs = c08Strip(c08MainRel, marked)
	c08RunBase(c, p, func(rn *c08Runner, base c08Obs, try func(edits []c08Edit, k, mode int) bool) {
		nviol := 0
		for k, edits := range c08FixedEdits(p.occs) {
			if try(edits, k, 8) {
				if nviol++; nviol >= 8 {
					return
				}
			}
		}
	})
}

// c08RunBase lints the unflipped input, does the bookkeeping and hands a comparison function to body.
func c08RunBase(c *Case, p *c08Project, body func(rn *c08Runner, base c08Obs, try func(edits []c08Edit, k, mode int) bool)) {
	rn := &c08Runner{p: p}
	defer rn.close()
	// counters are accumulated per case and flushed once (the shared counters sit behind one mutex)
	cnt := map[string]int{}
	defer func() {
		for k, n := range cnt {
			c.Count(k, n)
			if strings.HasPrefix(k, "site:") {
				c.SetAdd("sites_flipped", k[5:])
			}
		}
	}()

	base := rn.lint(p.files)
	c.Eval(1)
	detail := func(extra map[string]interface{}) map[string]interface{} {
		d := map[string]interface{}{"files": c08PublicFiles(p.files), "base_diagnostics": base.Diags, "linted": p.lintFiles}
		for k, v := range extra {
			d[k] = v
		}
		return d
	}
	if c.Verbose {
		for _, rel := range p.order {
			if rel != ".git/HEAD" {
				c.Logf("---- %s\n%s", rel, p.files[rel])
			}
		}
		c.Logf("base diagnostics: %v", base.Diags)
	}
	if base.Fatal != "" {
		// a generated input must be lintable; a fatal error on the unflipped input is not a verdict
		// about case folding
		c.Inconclusive(fmt.Sprintf("linting the generated input of case %s[%d] returned a fatal error: %s", c.Fam, c.Idx, base.Fatal))
		return
	}
	for _, k := range base.Keys {
		if strings.Contains(k, "|syntax-check|could not parse as yaml") {
			// the input is not a workflow at all: nothing is compared (counted, bounded by a floor)
			cnt["bases_not_parsable_as_yaml"]++
			if c.Fam == "fixed-templates" {
				c.Inconclusive(fmt.Sprintf("fixed template %d is not valid YAML: %v", c.Idx, base.Diags))
			}
			return
		}
	}
	cnt["bases"]++
	if len(base.Keys) == 0 {
		cnt["bases_clean"]++
	} else {
		cnt["bases_with_diagnostics"]++
	}
	baseClasses := map[string]bool{}
	for _, rel := range p.lintFiles {
		for _, d := range base.Diags[rel] {
			if m := c08DiagMsgRe.FindStringSubmatch(d); m != nil {
				if cl := c08ClassOf(m[1]); cl != "" {
					baseClasses[cl] = true
					cnt["basediag:"+cl]++
				}
			}
		}
	}
	for k := range p.injected {
		c.SetAdd("injected_defect_kinds", k)
	}
	if len(p.occs) == 0 {
		return
	}
	body(rn, base, func(edits []c08Edit, k, mode int) bool {
		return c08Compare(c, rn, base, edits, k, mode, cnt, baseClasses, detail)
	})
}

// c08Compare lints one flipped variant, compares it with the base and reports a disagreement.
// It returns true when a disagreement was reported.
func c08Compare(c *Case, rn *c08Runner, base c08Obs, edits []c08Edit, k, mode int, cnt map[string]int, baseClasses map[string]bool, detail func(map[string]interface{}) map[string]interface{}) bool {
	p := rn.p
	{
		files := c08Apply(p, edits)
		got := rn.lint(files)
		c.Eval(1)
		cnt["flipped_variants"]++
		cnt[fmt.Sprintf("flip_mode_%d", mode)]++
		for _, e := range edits {
			cnt["site:"+e.Site]++
		}
		if len(base.Keys) > 0 {
			cnt["variants_compared_against_nonempty_diagnostics"]++
		}
		for cl := range baseClasses {
			cnt["variants_with_basediag:"+cl]++
		}
		c.Nontrivial(c08FilesKey(p, files))
		if c.Verbose {
			c.Logf("variant %d (mode %d): %d flips %v", k, mode, len(edits), c08EditStrings(edits))
			c.Logf("  diagnostics: %v  fatal=%q  same=%v", got.Diags, got.Fatal, c08Same(base, got))
		}
		if c.Idx < 2 && k == 1 {
			c.Sample(map[string]interface{}{"family": c.Fam, "index": c.Idx, "flips": c08EditStrings(edits), "flipped_files": c08ChangedFiles(p, files), "base_diagnostics": base.Diags, "flipped_diagnostics": got.Diags})
		}
		if c08Same(base, got) {
			return false
		}
		min := c08Minimise(rn, base, edits, c)
		mfiles := c08Apply(p, min)
		mgot := rn.lint(mfiles)
		onlyBase, onlyFlip, dfiles := c08Diff(base, mgot)
		// cross-file: the diagnostics of a file other than the edited ones changed (definition in a
		// local action / reusable workflow, use in the caller)
		role := ""
		if p.onDisk {
			edited := map[string]bool{}
			for _, e := range min {
				edited[e.File] = true
			}
			for f := range dfiles {
				if !edited[f] {
					role = ":cross-file"
				}
			}
		}
		sig := "C08:" + c08SitesOf(min) + role
		if mgot.Fatal != "" {
			sig += ":fatal-error"
		}
		what := fmt.Sprintf("changing the letter case of %v changes the diagnostics: only before the change %v; only after the change %v", c08EditStrings(min), onlyBase, onlyFlip)
		if mgot.Fatal != "" {
			what += "; fatal error after the change: " + mgot.Fatal
		}
		c.Violation(sig, what, detail(map[string]interface{}{
			"minimal_flips":       min,
			"flipped_files":       c08ChangedFiles(p, mfiles),
			"flipped_diagnostics": mgot.Diags,
			"only_before":         onlyBase,
			"only_after":          onlyFlip,
			"original_flips":      c08EditStrings(edits),
		}))
		if c.Verbose {
			c.Logf("DISAGREEMENT %s\n  %s", sig, what)
		}
	}
	return true
}

func c08EditStrings(es []c08Edit) []string {
	out := make([]string, len(es))
	for i, e := range es {
		out[i] = fmt.Sprintf("%s %q->%q", e.Site, e.From, e.To)
		if e.File != c08MainRel {
			out[i] += " (" + e.File + ")"
		}
	}
	return out
}

func c08PublicFiles(files map[string]string) map[string]string {
	out := map[string]string{}
	for k, v := range files {
		if k != ".git/HEAD" {
			out[k] = v
		}
	}
	return out
}

func c08ChangedFiles(p *c08Project, files map[string]string) map[string]string {
	out := map[string]string{}
	for k, v := range files {
		if p.files[k] != v {
			out[k] = v
		}
	}
	return out
}

func c08FilesKey(p *c08Project, files map[string]string) string {
	var sb strings.Builder
	for _, rel := range p.order {
		sb.WriteString(rel)
		sb.WriteByte(0)
		sb.WriteString(files[rel])
		sb.WriteByte(0)
	}
	return sb.String()
}

// sites every run must have flipped (floors), per family group
var c08RequiredSites = []string{
	"context-name", "property-builtin", "property-keyword", "property-map", "function-name",
	"step-id-def", "step-id-use", "job-id-def", "needs-entry", "needs-ctx-use", "jobs-ctx-use",
	"job-output-def", "job-output-use", "dispatch-input-def", "call-input-def", "input-use", "event-input-use",
	"call-secret-def", "secret-use", "call-output-def", "callee-output-use",
	"matrix-row-key", "matrix-include-key", "matrix-exclude-key", "matrix-nested-key", "matrix-use", "matrix-nested-use",
	"with-key-popular", "with-key-local", "step-output-use-popular", "step-output-use-local", "step-output-use-run",
	"action-input-def", "action-output-def", "call-with-key", "call-secrets-key",
	"fromjson-literal-key", "fromjson-prop-use",
	"index-literal:step-id-use", "index-literal:needs-ctx-use", "index-literal:matrix-use", "index-literal:input-use",
	"index-literal:property-builtin", "index-literal:property-keyword", "index-literal:untrusted-path", "index-literal:job-output-use",
	"index-literal:step-output-use-popular", "index-literal:fromjson-prop-use",
}

var c08RequiredDiagClasses = []string{
	"undefined-property", "undefined-function", "context-not-allowed", "special-function-not-allowed", "untrusted-input",
	"needs-undefined-job", "duplicate-step-id", "action-missing-input", "action-undefined-input",
	"call-undefined-input", "call-missing-input", "call-undefined-secret", "call-missing-secret",
	"needs-duplicate-entry", "runner-label-unknown", "runner-label-conflict",
}

func runC08(r *Run) {
	r.Rule = "seeded generator of workflows (single file, linted from memory) and of projects on disk (local actions, local reusable workflows, a workflow calling itself), in which every name occurrence and its class is known (contexts, built-in/keyword/map properties, functions, step ids, job ids in keys / needs: / needs.x / jobs.x, dispatch and workflow_call inputs, secrets, outputs, matrix row / include / exclude / nested keys, with: keys of popular and local actions, action metadata input/output keys, call-site with:/secrets: keys, keys of JSON literals passed to fromJSON). Bases: 40% generated without injected defects, the others carry injected name-related defects (undefined step / needs / input / secret / matrix key / output, unknown function, context or special function not allowed, untrusted input, missing or undefined action / workflow-call input or secret, duplicate step id, self-needs). Each base is compared with `flips` case variants (all-lower first; then single flip, few, random subset, consistent re-spelling of one name, all-but-one occurrence of one name, all-upper). Generated bases also carry duplicate needs: entries and runs-on given by ${{ matrix.<row> }} (scalar / sequence element) whose row or include entry holds an unknown or conflicting runner label. Family probe-templates: hand-written probes with <= 6 marked occurrences for which the FULL product of the case classes lower / upper / mixed is compared with the probe as written: duplicate checks over case-insensitive names (same job twice in needs: in flow / block / quoted / non-adjacent / triple form, step ids, action.yml input and output keys, keys of the case-insensitive mappings in two different spellings) and every place where a rule other than the expression checker looks at the text of a ${{ }} placeholder (runner-label resolving runs-on through the matrix in 6 YAML forms x row / include / conflict, if-cond extra characters, credentials password, dynamic shell, matrix values / sections by expression, uses / id / env name / dispatch default / typed fields containing expressions). Oracle: identical multiset of (file, line, col, kind, lower-cased message with quoted-name lists sorted). Non-trivial = distinct flipped input that was compared."
	r.Assume("letter-case flips of ASCII names keep byte length, so positions of all tokens are unchanged")
	r.Assume("names generated for one project are unique after lower-casing (one namespace for the whole project), so a flip never creates or removes a case-insensitive duplicate; intended duplicates (duplicate step id) use one spelling in the base")
	r.Assume("never flipped: keywords true/false/null, string-literal contents other than fromJSON object keys (and, only in the family index-literal, ['name'] index literals), YAML syntax keys, env: keys, event names, shell names, runner labels, action / workflow specs")
	r.Assume("messages are compared after lower-casing; quoted names inside a message are compared as a multiset because actionlint sorts such lists by the original spelling")
	r.Assume("outside the compared domain: two matrix row values that are the same ${{ }} text are reported as duplicate values by plain text equality of the scalars (value comparison, not name matching), so spelling a name differently in one of them removes that diagnostic; mapping keys repeated in the SAME spelling (a YAML error instead of actionlint's duplicate-key diagnostic)")
	r.Assume("projects are linted one workflow file at a time with a fresh Linter (LintFile), which is deterministic; multi-file runs are C02/C10 territory")

	flips := r.Q(4, 8)
	fams := []*Family{
		{Name: "fixed-templates", N: len(c08FixedTemplates()), Do: c08FixedCase},
		{Name: "probe-templates", N: len(c08Probes()), Do: c08ProbeCase},
		{Name: "single-file", N: r.Q(2400, 80000), Do: func(c *Case) { c08Case(c, c08Cfg{flips: flips}) }},
		{Name: "project", N: r.Q(700, 20000), Do: func(c *Case) { c08Case(c, c08Cfg{onDisk: true, flips: flips}) }},
		{Name: "index-literal", N: r.Q(500, 10000), Do: func(c *Case) { c08Case(c, c08Cfg{indexLit: true, onDisk: c.Idx%4 == 0, flips: flips}) }},
	}
	r.RunFamilies(fams)
	if r.ReplayOf != nil || os.Getenv("VERIF_ONLY_FAMILY") != "" {
		return
	}
	// coverage floors
	bases := r.Counter("bases")
	if n := r.Counter("bases_not_parsable_as_yaml"); n*100 > bases {
		r.Inconclusive(fmt.Sprintf("%d generated inputs were not parsable as YAML (more than 1%% of %d)", n, bases))
	}
	if r.Counter("bases_clean")*10 < bases {
		r.Inconclusive(fmt.Sprintf("fewer than 10%% of the base inputs were clean (%d of %d)", r.Counter("bases_clean"), bases))
	}
	if r.Counter("bases_with_diagnostics")*10 < bases {
		r.Inconclusive(fmt.Sprintf("fewer than 10%% of the base inputs carried diagnostics (%d of %d)", r.Counter("bases_with_diagnostics"), bases))
	}
	for _, s := range c08RequiredSites {
		if r.Counter("site:"+s) < 5 {
			r.Inconclusive(fmt.Sprintf("name class %q was flipped fewer than 5 times (%d)", s, r.Counter("site:"+s)))
		}
	}
	for _, s := range c08ProbeSites() {
		for _, cl := range c08CaseClasses {
			if r.Counter("probe:"+s+":"+cl) < 1 {
				r.Inconclusive(fmt.Sprintf("probe site %q was never spelled in case class %s", s, cl))
			}
		}
	}
	for _, s := range []string{"needs-entry(dup-first)", "needs-entry(dup-second)", "context-name(runs-on)", "matrix-use(runs-on)", "matrix-row-key(label)"} {
		if r.Counter("site:"+s) < 5 {
			r.Inconclusive(fmt.Sprintf("name class %q was flipped fewer than 5 times (%d)", s, r.Counter("site:"+s)))
		}
	}
	for _, cl := range c08RequiredDiagClasses {
		if r.Counter("variants_with_basediag:"+cl) < 3 {
			r.Inconclusive(fmt.Sprintf("fewer than 3 variants were compared against a base carrying a %q diagnostic (%d)", cl, r.Counter("variants_with_basediag:"+cl)))
		}
	}
}
