package main

// C09, sibling keys: the diagnostics attributed to the value of one key of a mapping must be the
// same whether each sibling key holds a literal or a (typed, well-formed) expression of any result
// type, and in every key order. Covered mappings: workflow_call / workflow_dispatch input specs,
// workflow_call secrets and outputs, steps (run and uses), jobs.
//
// Legitimate couplings are kept out of the varied part: the declared "type:" of an input (the
// default is checked against it), "options:" of a choice input when the default is the target,
// "required: true" next to a workflow_call default ("... but it is also required"), "uses:" of a
// step (its inputs decide what "with:" may hold), and "shell:" / "runs-on:" only vary in runs
// without external tools and without a sibling that names a shell.

import (
	"fmt"
	"strings"
)

// c09SibKey is one key of the mapping. Every alternative is the text after "name:"; "\n" starts
// a continuation line that is given relative to the column of the key.
type c09SibKey struct {
	Name     string
	Lits     []string // values without expressions; the first one is the neutral value
	Exprs    []string // values holding expressions
	NoTarget bool     // never the key under observation (it legitimately depends on a sibling)
}

type c09SibGroup struct {
	Name   string
	Pre    []string
	Indent int
	Seq    bool // the mapping is an element of a sequence: its first key carries "- "
	Keys   []c09SibKey
	Post   []string
}

// expressions of each result type, as a whole value and embedded in text
var c09SibTmpl = []string{
	"${{ 'v' }}", "${{ github.event_name }}", "${{ 42 }}", "${{ github.retention_days }}", "${{ true }}", "${{ github.ref == 'x' }}",
	"${{ null }}", "${{ github.event }}", "${{ fromJSON('[1]') }}", "${{ fromJSON(github.event_name) }}", "a ${{ 'v' }} b", "${{ 1 }}-${{ 'x' }}",
}

// the same for keys that take exactly one expression (booleans, numbers)
var c09SibOne = []string{
	"${{ 'v' }}", "${{ github.event_name }}", "${{ 42 }}", "${{ github.retention_days }}", "${{ true }}", "${{ github.ref == 'x' }}",
	"${{ null }}", "${{ github.event }}", "${{ fromJSON('[1]') }}", "${{ fromJSON(github.event_name) }}",
}

func c09SibGroups() []*c09SibGroup {
	var gs []*c09SibGroup
	tail := []string{"jobs:", "  test:", "    runs-on: ubuntu-latest", "    outputs:", "      o1: v", "    steps:", "      - run: echo"}

	// on.workflow_call.inputs.<id>
	for _, ty := range []string{"string", "boolean", "number"} {
		gs = append(gs, &c09SibGroup{
			Name: "call-input-" + ty, Pre: []string{"on:", "  workflow_call:", "    inputs:", "      first:", "        type: string", "      in:"}, Indent: 8,
			Keys: []c09SibKey{
				{Name: "type", Lits: []string{ty}, NoTarget: true},
				{Name: "description", Lits: []string{"text", "other text"}, Exprs: c09SibTmpl},
				{Name: "default", Lits: []string{"x", "true", "42"}, Exprs: append(append([]string{}, c09SibTmpl...), "${{ inputs.first }}", "${{ inputs.in }}")},
				// "required: true" next to a default is reported at the default ("also required")
				{Name: "required", Lits: []string{"false"}, Exprs: c09SibOne},
			},
			Post: append([]string{"      last:", "        type: number", "        default: ${{ 1 }}"}, tail...),
		})
	}
	// on.workflow_dispatch.inputs.<id>
	for _, ty := range []string{"string", "boolean", "number", "environment"} {
		gs = append(gs, &c09SibGroup{
			Name: "dispatch-input-" + ty, Pre: []string{"on:", "  workflow_dispatch:", "    inputs:", "      in:"}, Indent: 8,
			Keys: []c09SibKey{
				{Name: "type", Lits: []string{ty}, NoTarget: true},
				{Name: "description", Lits: []string{"text", "other text"}, Exprs: c09SibTmpl},
				{Name: "default", Lits: []string{"x", "true", "42"}, Exprs: c09SibTmpl},
				{Name: "required", Lits: []string{"false", "true"}, Exprs: c09SibOne},
			},
			Post: tail,
		})
	}
	gs = append(gs, &c09SibGroup{
		Name: "dispatch-input-choice", Pre: []string{"on:", "  workflow_dispatch:", "    inputs:", "      in:"}, Indent: 8,
		Keys: []c09SibKey{
			{Name: "type", Lits: []string{"choice"}, NoTarget: true},
			{Name: "description", Lits: []string{"text", "other text"}, Exprs: c09SibTmpl},
			{Name: "required", Lits: []string{"false", "true"}, Exprs: c09SibOne},
			{Name: "options", Lits: []string{"\n  - a\n  - b", "\n  - a\n  - a"}, Exprs: []string{"\n  - ${{ 'a' }}\n  - b", "\n  - ${{ github.event }}\n  - ${{ 1 }}", "\n  - a\n  - x ${{ true }} ${{ null }}"}},
		},
		Post: tail,
	})
	// on.workflow_call.secrets.<id> and outputs.<id>
	gs = append(gs, &c09SibGroup{
		Name: "call-secret", Pre: []string{"on:", "  workflow_call:", "    secrets:", "      tok:"}, Indent: 8,
		Keys: []c09SibKey{
			{Name: "description", Lits: []string{"text", "other text"}, Exprs: c09SibTmpl},
			{Name: "required", Lits: []string{"false", "true"}, Exprs: c09SibOne},
		},
		Post: tail,
	})
	gs = append(gs, &c09SibGroup{
		Name: "call-output", Pre: []string{"on:", "  workflow_call:", "    outputs:", "      out:"}, Indent: 8,
		Keys: []c09SibKey{
			{Name: "description", Lits: []string{"text", "other text"}, Exprs: c09SibTmpl},
			{Name: "value", Lits: []string{"v"}, Exprs: append(append([]string{}, c09SibTmpl...), "${{ jobs.test.outputs.o1 }}", "${{ jobs.test.outputs.nope }}", "${{ jobs.nope.outputs.o1 }}")},
		},
		Post: tail,
	})
	// steps
	head := []string{"on: push", "jobs:", "  test:", "    runs-on: ubuntu-latest", "    steps:", "      - id: s0", "        run: echo"}
	after := []string{"      - run: echo ${{ steps.s1.outcome }}"}
	envKey := c09SibKey{Name: "env", Lits: []string{"\n  A: x\n  B: y", "\n  A: x"}, Exprs: []string{"\n  A: ${{ 'v' }}\n  B: ${{ 42 }}", "\n  A: ${{ github.event }}\n  B: y", "\n  A: x\n  B: ${{ github.ref == 'x' }} ${{ null }}", "${{ fromJSON('{}') }}", "${{ github.event_name }}", "\n  A_${{ github.ref }}: ${{ fromJSON('[1]') }}"}}
	ifKey := c09SibKey{Name: "if", Lits: []string{"true", "false"}, Exprs: []string{"${{ true }}", "${{ github.ref == 'x' }}", "github.event_name == 'push'", "${{ 'v' }}", "${{ github.event }}", "${{ 42 }} && true", "success() && github.retention_days", "${{ fromJSON('[1]') }}", "${{ null }}"}}
	coeKey := c09SibKey{Name: "continue-on-error", Lits: []string{"true", "false"}, Exprs: c09SibOne}
	tmoKey := c09SibKey{Name: "timeout-minutes", Lits: []string{"10", "1.5"}, Exprs: c09SibOne}
	gs = append(gs, &c09SibGroup{
		Name: "step-run", Pre: head, Indent: 8, Seq: true,
		Keys: []c09SibKey{
			{Name: "id", Lits: []string{"s1"}, NoTarget: true},
			{Name: "name", Lits: []string{"text", "other text"}, Exprs: c09SibTmpl},
			ifKey,
			{Name: "run", Lits: []string{"echo hi", "|\n  echo a\n  echo b"}, Exprs: []string{"echo ${{ github.sha }}", "echo ${{ github.event.pull_request.title }}", "echo ${{ 1 }} ${{ true }}", "echo ${{ github.event }}", "echo ${{ fromJSON('[1]') }} ${{ null }}", "|\n  echo ${{ github.head_ref }}\n  echo ${{ 'v' }}"}},
			{Name: "shell", Lits: []string{"bash", "sh"}, Exprs: []string{"${{ 'bash' }}", "${{ github.event_name }}", "${{ 42 }}", "${{ github.event }}"}},
			{Name: "working-directory", Lits: []string{"src", "other"}, Exprs: c09SibTmpl},
			envKey, coeKey, tmoKey,
		},
		Post: after,
	})
	gs = append(gs, &c09SibGroup{
		Name: "step-uses", Pre: head, Indent: 8, Seq: true,
		Keys: []c09SibKey{
			{Name: "id", Lits: []string{"s1"}, NoTarget: true},
			{Name: "uses", Lits: []string{"actions/cache@v4"}, NoTarget: true},
			{Name: "name", Lits: []string{"text", "other text"}, Exprs: c09SibTmpl},
			ifKey,
			{Name: "with", Lits: []string{"\n  path: p\n  key: k", "\n  path: p", "\n  path: p\n  key: k\n  nope: 1"}, Exprs: []string{"\n  path: ${{ 'p' }}\n  key: ${{ 42 }}", "\n  path: ${{ github.event }}\n  key: k", "\n  path: p\n  key: ${{ fromJSON('[1]') }}-${{ null }}", "\n  path: ${{ true }}\n  key: ${{ github.retention_days }}\n  nope: ${{ fromJSON(github.ref) }}"}},
			envKey, coeKey, tmoKey,
		},
		Post: after,
	})
	// jobs
	gs = append(gs, &c09SibGroup{
		Name: "job", Pre: []string{"on: push", "jobs:", "  first:", "    runs-on: ubuntu-latest", "    steps:", "      - run: echo", "  test:"}, Indent: 4,
		Keys: []c09SibKey{
			{Name: "steps", Lits: []string{"\n  - run: echo\n  - uses: actions/checkout@v4"}, NoTarget: true},
			{Name: "name", Lits: []string{"text", "other text"}, Exprs: c09SibTmpl},
			ifKey,
			{Name: "runs-on", Lits: []string{"ubuntu-latest", "[self-hosted, linux]", "windows-latest"}, Exprs: []string{"${{ 'ubuntu-latest' }}", "${{ github.event_name }}", "${{ fromJSON('[\"ubuntu-latest\"]') }}", "${{ 42 }}", "${{ github.event }}", "${{ true }}", "${{ null }}", "\n  group: g\n  labels: ${{ fromJSON(github.ref) }}", "\n  - ${{ 'self-hosted' }}\n  - linux"}},
			{Name: "environment", Lits: []string{"prod", "\n  name: prod\n  url: https://x"}, Exprs: []string{"${{ 'p' }}", "${{ github.event }}", "\n  name: ${{ github.ref }}\n  url: ${{ fromJSON('[1]') }}", "\n  name: p-${{ 42 }}\n  url: ${{ null }} ${{ true }}"}},
			{Name: "concurrency", Lits: []string{"grp", "\n  group: g\n  cancel-in-progress: true"}, Exprs: []string{"g-${{ github.ref }}", "${{ github.event }}", "\n  group: ${{ fromJSON('[1]') }}\n  cancel-in-progress: ${{ github.ref == 'x' }}", "\n  group: g ${{ 42 }} ${{ null }}\n  cancel-in-progress: ${{ 'no' }}", "\n  group: g\n  cancel-in-progress: ${{ fromJSON(github.ref) }}"}},
			tmoKey, coeKey,
			{Name: "container", Lits: []string{"node:20", "\n  image: node:20\n  options: --cpus 1"}, Exprs: []string{"${{ 'node' }}", "${{ github.event }}", "\n  image: ${{ github.event_name }}\n  credentials:\n    username: ${{ 'u' }}\n    password: ${{ secrets.P }}\n  env:\n    A: ${{ 1 }}\n    B: ${{ fromJSON('[1]') }}\n  ports:\n    - ${{ 80 }}\n  volumes:\n    - ${{ null }}\n  options: ${{ true }}"}},
			{Name: "services", Lits: []string{"\n  db:\n    image: pg"}, Exprs: []string{"\n  db:\n    image: ${{ 'pg' }}\n    ports:\n      - ${{ fromJSON('[1]') }}\n    env:\n      A: ${{ github.event }}", "${{ fromJSON('{}') }}", "${{ 42 }}", "\n  db:\n    image: pg\n    credentials:\n      username: ${{ github.ref == 'x' }}\n      password: ${{ secrets.P }}\n    options: ${{ null }}-${{ 1.5 }}"}},
		},
		Post: []string{"  last:", "    runs-on: ubuntu-latest", "    steps:", "      - run: echo"},
	})
	return gs
}

// c09SibRender writes the mapping with the given value per key (vals[i] belongs to Keys[i]) in the
// given key order and returns one region per key.
func (g *c09SibGroup) render(vals []string, order []int) *c09Doc {
	b := NewYB()
	for _, l := range g.Pre {
		b.L(0, l)
	}
	d := &c09Doc{}
	for n, ki := range order {
		start := b.Pos().Line
		ls := strings.Split(vals[ki], "\n")
		ind := g.Indent
		text := g.Keys[ki].Name + ":"
		if ls[0] != "" {
			text += " " + ls[0]
		}
		if g.Seq && n == 0 {
			b.L(ind-2, "- "+text)
		} else {
			b.L(ind, text)
		}
		for _, l := range ls[1:] {
			b.L(ind, l)
		}
		d.Regions = append(d.Regions, c09Region{Key: g.Keys[ki].Name, Start: start, End: b.Pos().Line})
	}
	for _, l := range g.Post {
		b.L(0, l)
	}
	d.Src = b.String()
	return d
}

type c09SibTarget struct {
	G   *c09SibGroup
	Key int
	Val string
}

func c09SibTargets() []c09SibTarget {
	var out []c09SibTarget
	for _, g := range c09SibGroups() {
		for ki, k := range g.Keys {
			if k.NoTarget {
				continue
			}
			for _, v := range k.Lits {
				out = append(out, c09SibTarget{g, ki, v})
			}
			for _, v := range k.Exprs {
				out = append(out, c09SibTarget{g, ki, v})
			}
		}
	}
	return out
}

func c09SibCase(c *Case, fam string, t c09SibTarget) {
	r := c.R
	g := t.G
	nk := len(g.Keys)
	canon := make([]int, nk)
	base := make([]string, nk)
	for i, k := range g.Keys {
		canon[i] = i
		base[i] = k.Lits[0]
	}
	base[t.Key] = t.Val
	kname := g.Keys[t.Key].Name

	observe := func(vals []string, order []int) (*c09Doc, []string, bool) {
		d := g.render(vals, order)
		ds, err := lintSrc(d.Src)
		c.Eval(1)
		if err != nil {
			c.Violation("C09:"+fam+":fatal-error", "fatal error: "+err.Error(), map[string]interface{}{"src": d.Src})
			return d, nil, false
		}
		if c09HasYAMLError(ds) {
			c.Violation("C09:"+fam+":generator-emitted-invalid-yaml", "monitor bug: the generated workflow is not YAML", map[string]interface{}{"src": d.Src, "diags": diagStrings(ds)})
			return d, nil, false
		}
		return d, d.buckets(ds)[kname], true
	}
	refDoc, ref, ok := observe(base, canon)
	if !ok {
		return
	}
	c.SetAdd("sibling_groups", g.Name)
	c.SetAdd("sibling_targets", g.Name+"/"+kname)
	if len(ref) > 0 {
		c.Nontrivial(fam + "|" + g.Name + "|" + kname + "|" + t.Val)
		c.Count("sibling_targets_with_diagnostics", 1)
	}
	check := func(what string, vals []string, order []int) bool {
		d, got, ok := observe(vals, order)
		if !ok {
			return false
		}
		c.Count("sibling_variants", 1)
		if c09Equal(got, ref) {
			return true
		}
		onlyRef, onlyGot := c09Diff(ref, got)
		c.Logf("%s/%s = %q: %s\n  only with literal siblings: %q\n  only in the variant: %q\n--- literal siblings\n%s\n--- variant\n%s", g.Name, kname, t.Val, what, onlyRef, onlyGot, refDoc.Src, d.Src)
		c.Violation(c09Sig("siblings:"+g.Name+":"+kname, onlyRef, onlyGot),
			fmt.Sprintf("diagnostics at %q (%s) of %s change when %s", kname+": "+strings.ReplaceAll(t.Val, "\n", "\\n"), g.Name, "its mapping", what),
			map[string]interface{}{"src_literal_siblings": refDoc.Src, "src": d.Src, "group": g.Name, "key": kname, "value": t.Val, "variant": what,
				"expected_as_with_literal_siblings": ref, "expected_only": onlyRef, "observed_only": onlyGot})
		return false
	}
	// one sibling at a time, every alternative
	nth := 0
	for si, k := range g.Keys {
		if si == t.Key {
			continue
		}
		alts := append(append([]string{}, k.Lits[1:]...), k.Exprs...)
		for _, a := range alts {
			vals := append([]string{}, base...)
			vals[si] = a
			order := canon
			switch nth % 3 {
			case 1:
				order = make([]int, nk)
				for i := range order {
					order[i] = nk - 1 - i
				}
			case 2:
				order = r.Perm(nk)
			}
			nth++
			if !check(fmt.Sprintf("sibling %q is %q (key order %v)", k.Name, a, c09SibOrderNames(g, order)), vals, order) {
				return
			}
		}
	}
	// key order alone
	for i := 0; i < 3; i++ {
		order := r.Perm(nk)
		if !check(fmt.Sprintf("the keys are written in the order %v", c09SibOrderNames(g, order)), base, order) {
			return
		}
	}
	// everything at once
	for i := 0; i < 6; i++ {
		vals := append([]string{}, base...)
		for si, k := range g.Keys {
			if si == t.Key {
				continue
			}
			alts := append(append([]string{}, k.Lits...), k.Exprs...)
			if i == 0 && len(k.Exprs) > 0 {
				vals[si] = k.Exprs[r.Intn(len(k.Exprs))]
			} else {
				vals[si] = alts[r.Intn(len(alts))]
			}
		}
		order := r.Perm(nk)
		if !check(fmt.Sprintf("the siblings are %q (key order %v)", vals, c09SibOrderNames(g, order)), vals, order) {
			return
		}
	}
	if c.Idx == 0 {
		c.Sample(map[string]interface{}{"family": fam, "group": g.Name, "key": kname, "value": t.Val, "src": refDoc.Src, "diags_at_key": ref})
	}
}

func c09SibOrderNames(g *c09SibGroup, order []int) []string {
	var out []string
	for _, i := range order {
		out = append(out, g.Keys[i].Name)
	}
	return out
}

func c09SibFamilies(r *Run) []*Family {
	ts := c09SibTargets()
	return []*Family{{Name: "sibling-keys", N: len(ts) * r.Q(1, 8), Do: func(c *Case) {
		c09SibCase(c, "sibling-keys", ts[c.Idx%len(ts)])
	}}}
}
