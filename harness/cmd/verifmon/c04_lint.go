package main

// C04, Linter level: the text is embedded into a workflow (${{ }} in a run: script, ${{ }} in an
// env: value, a bare if: condition, ...) and linted with the real Linter. Many steps are put into
// one workflow; diagnostics are attributed to a step by their line.

import (
	"fmt"
	"strings"
	"unicode/utf8"

	"github.com/rhysd/actionlint"
)

const (
	c04EmbRun     = iota // - run: echo ${{ T }}
	c04EmbEnv            //   env: V: ${{T}}
	c04EmbIf             //   if: T
	c04EmbRunTail        // - run: echo ${{ T }} tail
	c04EmbIfExpr         //   if: ${{ T }}
	c04NEmb
)

var c04EmbName = [c04NEmb]string{"run-padded", "env-tight", "if-bare", "run-tail", "if-expr"}

// c04SyntaxPrefixes: messages produced by the expression lexer / parser (as opposed to the
// semantic checker, whose diagnostics have the same kind "expression").
var c04SyntaxPrefixes = []string{
	"got unexpected ",
	"unexpected EOF while lexing",
	"scan error while lexing",
	"unexpected token ",
	"unexpected end of input while parsing",
	"parser did not reach end of input",
	"parsing invalid integer literal",
	"parsing invalid float literal",
}

func c04IsSyntaxMsg(m string) bool {
	for _, p := range c04SyntaxPrefixes {
		if strings.HasPrefix(m, p) {
			return true
		}
	}
	return false
}

// c04PlainSafe: v can be written as a YAML plain scalar after "key: " in block context and is read
// back unchanged. Deliberately conservative.
func c04PlainSafe(v string) bool {
	if v == "" {
		return false
	}
	for i := 0; i < len(v); i++ {
		ch := v[i]
		if ch < 0x20 || ch > 0x7e || ch == '#' || ch == ':' {
			return false
		}
	}
	if v[0] == ' ' || v[len(v)-1] == ' ' {
		return false
	}
	isWord := func(ch byte) bool {
		return ch >= 'a' && ch <= 'z' || ch >= 'A' && ch <= 'Z' || ch >= '0' && ch <= '9' || ch == '_'
	}
	ch := v[0]
	switch {
	case isWord(ch) || ch == '(' || ch == '$' || ch == '.':
		return true
	case ch == '-':
		return len(v) > 1 && (isWord(v[1]) || v[1] == '.')
	}
	return false
}

// c04YAMLScalar renders a value. oneToOne: every character of the value occupies exactly one
// column of the source, in order (so columns can be computed).
func c04YAMLScalar(v string) (text string, quoted, oneToOne bool) {
	if c04PlainSafe(v) {
		return v, false, true
	}
	var b strings.Builder
	oneToOne = true
	b.WriteByte('"')
	for _, r := range v {
		switch {
		case r == '"':
			b.WriteString(`\"`)
			oneToOne = false
		case r == '\\':
			b.WriteString(`\\`)
			oneToOne = false
		case r == '\t':
			b.WriteString(`\t`)
			oneToOne = false
		case r == '\n':
			b.WriteString(`\n`)
			oneToOne = false
		case r == '\r':
			b.WriteString(`\r`)
			oneToOne = false
		case r < 0x20 || r == 0x7f:
			fmt.Fprintf(&b, `\x%02x`, r)
			oneToOne = false
		case r < 0x7f:
			b.WriteRune(r)
		case r == 0x85 || r == 0xa0 || r == 0x2028 || r == 0x2029 || r == 0xfeff || r == utf8.RuneError:
			fmt.Fprintf(&b, `\u%04x`, r)
			oneToOne = false
		default:
			b.WriteRune(r)
		}
	}
	b.WriteByte('"')
	return b.String(), true, oneToOne
}

type c04Entry struct {
	emb      int
	text     string
	value    string
	line     int
	nl       int // line breaks inside the value
	accept   bool
	contest  string
	prem     bool // if-bare: the implementation's appended "}}" trick would end the text early on a sentence
	posCheck bool
	lo, hi   int
	diags    []Diag
	label    string // name used in signatures instead of the embedding's (template scalars)
	strict   bool   // semantically clean by construction: a sentence must give no expression diagnostic at all
}

type c04Batch struct {
	x       *c04Ctx
	b       *YB
	entries []*c04Entry
	byLine  map[int]*c04Entry
}

const c04Header = "on: push\njobs:\n  j:\n    runs-on: ubuntu-latest\n    steps:\n"

func (bt *c04Batch) reset() {
	bt.b = NewYB()
	bt.b.W(c04Header)
	bt.entries = bt.entries[:0]
	bt.byLine = map[int]*c04Entry{}
}

// Add embeds text. The reference verdict is computed here on exactly the characters the
// implementation is handed (what follows "${{" up to the end of the scalar, or the whole condition).
func (bt *c04Batch) Add(text string, emb int) {
	x := bt.x
	if bt.b == nil {
		bt.reset()
	}
	var value, after string
	dollar := 0
	switch emb {
	case c04EmbRun:
		value, dollar = "echo ${{ "+text+" }}", 5
	case c04EmbEnv:
		value = "${{" + text + "}}"
	case c04EmbIf:
		if text == "" {
			return // an empty condition is a YAML-level matter, not an expression
		}
		if i := strings.Index(text, "${{"); i >= 0 && strings.Contains(text[i:], "}}") {
			// "${{" followed by "}}" (e.g. both inside string literals): whether this is one bare
			// expression or a template with a placeholder is not said by the statement
			x.cnt["lint_skipped_statement_silent"]++
			x.set("silent_classes_seen", "bare-if-with-placeholder-looking-text")
			return
		}
		value = text
	case c04EmbRunTail:
		value, dollar = "echo ${{ "+text+" }} tail", 5
	case c04EmbIfExpr:
		value = "${{ " + text + " }}"
	}
	e := &c04Entry{emb: emb, text: text, value: value}
	var v c04Verdict
	if emb == c04EmbIf {
		v = c04Reference(value, true, x.ear, x.buf2)
		if v.Silent == "" && !v.Accept {
			vp := c04Reference(value+"}}", false, x.ear, x.buf3)
			e.prem = vp.Silent == "" && vp.Accept && vp.Lex.EndOff < len(value)+2
		}
	} else {
		after = value[dollar+3:]
		if x.lastOK && x.lastSrc == after {
			v = x.lastV // decided a moment ago by Parse (only the token-independent fields are used below)
		} else {
			v = c04Reference(after, false, x.ear, x.buf2)
		}
	}
	if v.SelfCheck != "" {
		x.selfCheck(v.SelfCheck)
		return
	}
	if v.Silent != "" {
		x.cnt["lint_skipped_statement_silent"]++
		return
	}
	e.accept, e.contest = v.Accept, v.Contested
	e.nl = strings.Count(value, "\n") + strings.Count(value, "\r")

	scalar, quoted, oneToOne := c04YAMLScalar(value)
	var p Pos
	switch emb {
	case c04EmbRun, c04EmbRunTail:
		bt.b.W("      - run: ")
		p = bt.b.W(scalar)
		bt.b.W("\n")
	case c04EmbEnv:
		bt.b.W("      - run: echo\n        env:\n          V: ")
		p = bt.b.W(scalar)
		bt.b.W("\n")
	case c04EmbIf, c04EmbIfExpr:
		bt.b.W("      - run: echo\n        if: ")
		p = bt.b.W(scalar)
		bt.b.W("\n")
	}
	e.line = p.Line
	for k := 0; k < e.nl; k++ {
		bt.b.W("      # padding: the value above contains a line break\n")
	}
	for k := 0; k <= e.nl; k++ {
		bt.byLine[e.line+k] = e
	}
	e.posCheck = oneToOne && e.nl == 0
	if e.posCheck {
		v0 := p.Col
		if quoted {
			v0++
		}
		if emb == c04EmbIf {
			// the whole condition is the placeholder; the implementation parses value+"}}", so an
			// error at the (virtual) end may point up to two columns behind the text.
			e.lo = p.Col
			e.hi = v0 + utf8.RuneCountInString(value) + 2
		} else {
			lr := &v.Lex
			end := len(after)
			switch {
			case lr.Ended:
				end = lr.EndOff
			case lr.ErrOff >= 0 && !lr.Unterminated:
				if i := strings.Index(after[lr.ErrOff:], "}}"); i >= 0 {
					end = lr.ErrOff + i + 2
				}
			}
			e.lo = v0 + dollar
			e.hi = e.lo + 3 + utf8.RuneCountInString(after[:end])
		}
	}
	bt.entries = append(bt.entries, e)
	if len(bt.entries) >= 48 {
		bt.Flush()
	}
}

const (
	c04KeyRun = iota
	c04KeyEnv
	c04KeyIf
	c04KeyName
	c04NKey
)

var c04KeyName_ = [c04NKey]string{"run", "env", "if", "name"}

// AddTemplate embeds a complete template string (text with any number of ${{ }} placeholders) as the
// value of a run:, env:, if: or name: key. Reference: placeholders are found left to right; a
// placeholder starts at "${{" and ends with the first "}}" token behind it (string literals are
// honoured by the tokenizer); the search for the next placeholder continues behind that end. If all
// placeholders hold sentences no diagnostic is expected; otherwise exactly one, inside the first
// placeholder that does not hold a sentence. clean: every placeholder is free of semantic errors by
// construction, so not even a semantic diagnostic is tolerated.
func (bt *c04Batch) AddTemplate(key int, value, what string, clean bool) {
	x := bt.x
	if bt.b == nil {
		bt.reset()
	}
	if strings.ContainsAny(value, "\n\r") {
		return
	}
	if key == c04KeyIf {
		// must be a template for actionlint, not a bare condition
		i := strings.Index(value, "${{")
		if i < 0 || i > strings.Index(value, "}}") {
			return
		}
	}
	e := &c04Entry{emb: -1, text: what, value: value, label: "template-" + c04KeyName_[key], accept: true, strict: clean}
	off, nph := 0, 0
	rejStart, rejEnd := -1, -1
	for {
		i := strings.Index(value[off:], "${{")
		if i < 0 {
			break
		}
		start := off + i
		after := value[start+3:]
		v := c04Reference(after, false, x.ear, x.buf2)
		if v.SelfCheck != "" {
			x.selfCheck(v.SelfCheck)
			return
		}
		if v.Silent != "" {
			x.cnt["lint_skipped_statement_silent"]++
			return
		}
		nph++
		if !v.Accept {
			e.accept = false
			lr := &v.Lex
			end := len(after)
			switch {
			case lr.Ended:
				end = lr.EndOff
			case lr.ErrOff >= 0 && !lr.Unterminated:
				if j := strings.Index(after[lr.ErrOff:], "}}"); j >= 0 {
					end = lr.ErrOff + j + 2
				}
			}
			rejStart, rejEnd = start, start+3+end
			break
		}
		if v.Contested != "" {
			e.contest = v.Contested
		}
		off = start + 3 + v.Lex.EndOff
	}
	if nph == 0 {
		return
	}
	scalar, quoted, oneToOne := c04YAMLScalar(value)
	var p Pos
	switch key {
	case c04KeyRun:
		bt.b.W("      - run: ")
		p = bt.b.W(scalar)
		bt.b.W("\n")
	case c04KeyEnv:
		bt.b.W("      - run: echo\n        env:\n          V: ")
		p = bt.b.W(scalar)
		bt.b.W("\n")
	case c04KeyIf:
		bt.b.W("      - run: echo\n        if: ")
		p = bt.b.W(scalar)
		bt.b.W("\n")
	case c04KeyName:
		bt.b.W("      - name: ")
		p = bt.b.W(scalar)
		bt.b.W("\n        run: echo\n")
	}
	e.line = p.Line
	bt.byLine[e.line] = e
	if !e.accept && oneToOne {
		v0 := p.Col
		if quoted {
			v0++
		}
		e.posCheck = true
		e.lo = v0 + utf8.RuneCountInString(value[:rejStart])
		e.hi = v0 + utf8.RuneCountInString(value[:rejEnd])
	}
	x.cnt["template_scalars"]++
	x.cnt[fmt.Sprintf("template_scalars_with_%d_placeholders", nph)]++
	bt.entries = append(bt.entries, e)
	if len(bt.entries) >= 48 {
		bt.Flush()
	}
}

func (bt *c04Batch) Flush() {
	if bt.b == nil || len(bt.entries) == 0 {
		return
	}
	x := bt.x
	c := x.c
	src := bt.b.String()
	entries := bt.entries
	byLine := bt.byLine
	bt.b = nil
	bt.entries = nil
	// Oneline only switches off the source snippet in what the linter prints (to io.Discard here); the
	// returned diagnostics are the same
	ds, err := lintSrcOpts(src, &actionlint.LinterOptions{Oneline: true})
	x.cnt["lint_runs"]++
	if err != nil {
		c.Violation("C04:lint-fatal-error", "Linter.Lint returned a fatal error on a generated workflow: "+err.Error(), map[string]interface{}{"src": src})
		return
	}
	for _, d := range ds {
		if d.Kind != "expression" {
			if strings.Contains(d.Msg, "could not parse as YAML") {
				x.harnessErr("generated workflow is not valid YAML: " + d.String() + "\n" + src)
				return
			}
			x.set("other_diag_kinds", d.Kind)
			continue
		}
		e := byLine[d.Line]
		if e == nil {
			c.Violation("C04:expression-diagnostic-outside-any-placeholder", "an expression diagnostic is reported on a line that holds no placeholder: "+d.String(),
				map[string]interface{}{"src": src, "diags": diagStrings(ds)})
			continue
		}
		e.diags = append(e.diags, d)
	}
	for _, e := range entries {
		x.evals++
		emb := e.label
		if emb == "" {
			emb = c04EmbName[e.emb]
		}
		detail := func() map[string]interface{} {
			return map[string]interface{}{"embedding": emb, "text": e.text, "scalar_value": e.value, "line": e.line,
				"reference_accepts": e.accept, "diags_on_that_line": diagStrings(e.diags), "src": src}
		}
		if c.Verbose && (e.accept && len(e.diags) > 0 || !e.accept && len(e.diags) != 1) {
			c.Logf("lint %-10s text=%q reference accept=%v diagnostics=%v", emb, e.text, e.accept, diagStrings(e.diags))
		}
		if e.accept {
			x.cnt["lint_accepted:"+emb]++
			nsyn := 0
			for _, d := range e.diags {
				if c04IsSyntaxMsg(d.Msg) {
					nsyn++
				}
			}
			if e.strict && nsyn == 0 && len(e.diags) > 0 {
				c.Violation("C04:lint-diagnostic-on-clean-sentence:"+emb, fmt.Sprintf("every placeholder of %q (%s) holds a sentence without semantic errors, but linting gives: %s", e.value, emb, e.diags[0].String()), detail())
			}
			if nsyn > 0 {
				sig := "C04:lint-syntax-diagnostic-on-sentence:" + emb
				if e.contest != "" {
					sig = "C04:number-" + e.contest + "-rejected"
				}
				c.Violation(sig, fmt.Sprintf("%q is a sentence of the documented language but linting it (%s) gives a syntax diagnostic: %s", e.text, emb, e.diags[0].String()), detail())
			}
			continue
		}
		x.cnt["lint_rejected:"+emb]++
		nsyn := 0
		for _, d := range e.diags {
			if c04IsSyntaxMsg(d.Msg) {
				nsyn++
			}
		}
		switch {
		case e.emb == c04EmbIf && e.prem && nsyn == 0 && len(e.diags) != 1:
			// the condition was parsed successfully (nothing is reported, or several things that all
			// come from the semantic checker): the parser stopped at a "}}" inside the condition.
			// Exactly one diagnostic, whatever its wording, counts as the rejection.
			c.Violation("C04:if-condition-text-after-end-marker-ignored",
				fmt.Sprintf("bare condition `if: %s` is accepted as an expression: everything from the first `}}` (counting the end marker actionlint appends) on is ignored, although the condition as a whole is not a sentence", e.text), detail())
		case len(e.diags) == 0:
			c.Violation("C04:lint-rejected-text-no-diagnostic:"+emb, fmt.Sprintf("%q is not a sentence of the documented language but linting it (%s) gives no expression diagnostic", e.text, emb), detail())
		case len(e.diags) > 1:
			c.Violation("C04:lint-rejected-text-several-diagnostics:"+emb, fmt.Sprintf("%q is rejected with %d expression diagnostics instead of exactly one (%s)", e.text, len(e.diags), emb), detail())
		default:
			d := e.diags[0]
			if e.posCheck {
				x.cnt["lint_position_checked"]++
				if d.Line != e.line || d.Col < e.lo || d.Col > e.hi {
					dd := detail()
					dd["allowed_columns"] = []int{e.lo, e.hi}
					c.Violation("C04:lint-diagnostic-outside-placeholder:"+emb, fmt.Sprintf("syntax diagnostic for %q (%s) at %d:%d lies outside the placeholder (line %d, columns %d..%d)", e.text, emb, d.Line, d.Col, e.line, e.lo, e.hi), dd)
				}
			}
		}
	}
}
