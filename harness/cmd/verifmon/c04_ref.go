package main

// C04 reference model, written from the statement of the property (not from actionlint's code):
//
//   * c04Lex        – regular-expression, maximal-munch tokenizer
//   * c04Grammar    – the documented expression language as a declarative production table
//   * c04Earley     – a generic (grammar independent) incremental Earley recogniser for that table
//   * c04BuildTree  – a precedence-climbing tree builder (only used on recognised sentences; it is
//                     also run on rejected token strings as a self check of the reference)
//   * c04Sexpr      – S-expression of a tree after flattening chains of one precedence level
//
// The implementation under observation is a hand written recursive descent parser; nothing here
// shares an algorithm with it.

import (
	"fmt"
	"math"
	"math/big"
	"regexp"
	"strconv"
	"strings"
)

// ---------------------------------------------------------------------------
// tokens

type c04Kind int8

const (
	c04End c04Kind = iota // "}}"
	c04Ident
	c04String
	c04Num
	c04LParen
	c04RParen
	c04LBrack
	c04RBrack
	c04Dot
	c04Not
	c04Lt
	c04Le
	c04Gt
	c04Ge
	c04Eq
	c04Ne
	c04And
	c04Or
	c04Star
	c04Comma
	c04NKinds
)

var c04KindName = [c04NKinds]string{"}}", "IDENT", "STRING", "NUM", "(", ")", "[", "]", ".", "!", "<", "<=", ">", ">=", "==", "!=", "&&", "||", "*", ","}

type c04Tok struct {
	Kind c04Kind
	Text string
	Off  int
}

var (
	c04ReWS     = regexp.MustCompile(`^[ \t\r\n]+`)
	c04ReIdent  = regexp.MustCompile(`^[A-Za-z_][A-Za-z0-9_-]*`)
	c04ReString = regexp.MustCompile(`^'(?:[^']|'')*'`)
	// JSON number | 0x hex (an optional sign in front of hex is lexed as one token so that the form
	// can be put into the "statement silent" class instead of being read as two tokens)
	c04ReNum   = regexp.MustCompile(`^-?(?:0x[0-9a-fA-F]+|(?:0|[1-9][0-9]*)(?:\.[0-9]+)?(?:[eE][+-]?[0-9]+)?)`)
	c04RePunct = regexp.MustCompile(`^(?:<=|>=|==|!=|&&|\|\||[()\[\].!<>*,])`)
	c04ReEnd   = regexp.MustCompile(`^\}\}`)
)

var c04PunctKind = map[string]c04Kind{
	"(": c04LParen, ")": c04RParen, "[": c04LBrack, "]": c04RBrack, ".": c04Dot, "!": c04Not,
	"<": c04Lt, "<=": c04Le, ">": c04Gt, ">=": c04Ge, "==": c04Eq, "!=": c04Ne, "&&": c04And, "||": c04Or,
	"*": c04Star, ",": c04Comma,
}

// c04LexResult is what the reference tokenizer saw in src. Lexing stops at the first "}}" token
// (Ended), at a lexical error (ErrOff >= 0) or at the end of src.
type c04LexResult struct {
	Toks         []c04Tok // without the end marker
	Ended        bool     // a "}}" token was reached
	EndOff       int      // offset just behind the "}}" token (if Ended)
	ErrOff       int      // offset of the character no token can start at, -1 if none
	Unterminated bool     // the lexical error is a string literal without closing quote
	NumThenDot   bool     // some number token is immediately followed by '.'
}

// c04Lex tokenizes by maximal munch. The token classes have pairwise disjoint sets of first
// characters, so the longest match at a position is the match of the one class that can start there.
func c04Lex(src string, toks []c04Tok) c04LexResult {
	res := c04LexResult{Toks: toks[:0], ErrOff: -1}
	pos := 0
	for pos < len(src) {
		rest := src[pos:]
		ch := rest[0]
		var re *regexp.Regexp
		var kind c04Kind = -1
		switch {
		case ch == ' ' || ch == '\t' || ch == '\r' || ch == '\n':
			re = c04ReWS
		case ch >= 'a' && ch <= 'z' || ch >= 'A' && ch <= 'Z' || ch == '_':
			re, kind = c04ReIdent, c04Ident
		case ch == '\'':
			re, kind = c04ReString, c04String
		case ch >= '0' && ch <= '9' || ch == '-':
			re, kind = c04ReNum, c04Num
		case ch == '}':
			re, kind = c04ReEnd, c04End
		default:
			re = c04RePunct
		}
		loc := re.FindStringIndex(rest)
		if loc == nil {
			res.ErrOff = pos
			res.Unterminated = ch == '\''
			return res
		}
		n := loc[1]
		switch {
		case re == c04ReWS:
		case kind == c04End:
			res.Ended = true
			res.EndOff = pos + n
			return res
		default:
			if re == c04RePunct {
				kind = c04PunctKind[rest[:n]]
			}
			if kind == c04Num && pos+n < len(src) && src[pos+n] == '.' {
				res.NumThenDot = true
			}
			res.Toks = append(res.Toks, c04Tok{kind, rest[:n], pos})
		}
		pos += n
	}
	return res
}

// ---------------------------------------------------------------------------
// number forms: classes where the statement is silent and classes that are contested

var (
	c04ReHexLeadZero = regexp.MustCompile(`^-?0x0[0-9a-fA-F]+$`)
	c04ReExpPlus     = regexp.MustCompile(`[eE]\+`)
	c04ReExpLeadZero = regexp.MustCompile(`[eE][+-]?0[0-9]+$`)
)

func c04IsHex(t string) bool {
	return strings.HasPrefix(t, "0x") || strings.HasPrefix(t, "-0x")
}

// c04SilentClass names the class of inputs on which the statement gives no verdict ("" if it does).
func c04SilentClass(lr *c04LexResult) string {
	if lr.NumThenDot {
		return "number-immediately-followed-by-dot"
	}
	for _, t := range lr.Toks {
		if t.Kind != c04Num {
			continue
		}
		if !c04IsHex(t.Text) {
			// RFC 8259 lets an implementation limit the range of numbers; a float literal that
			// overflows a double has no value on GitHub either
			if strings.ContainsAny(t.Text, ".eE") {
				if v, ok := c04NumValue(t.Text); !ok || math.IsInf(v, 0) {
					return "float-literal-beyond-double-range"
				}
			}
			continue
		}
		if t.Text[0] == '-' {
			return "signed-hex"
		}
		if c04ReHexLeadZero.MatchString(t.Text) {
			return "hex-with-redundant-leading-zero"
		}
	}
	return ""
}

// c04NumValue is the value of a number token as float64 (GitHub evaluates every number as a double).
func c04NumValue(t string) (float64, bool) {
	if c04IsHex(t) {
		// exact integer value, rounded once to the nearest double
		b, ok := new(big.Int).SetString(strings.Replace(t, "0x", "", 1), 16)
		if !ok {
			return 0, false
		}
		v, _ := new(big.Float).SetInt(b).Float64()
		return v, true
	}
	f, err := strconv.ParseFloat(t, 64)
	if err != nil {
		return f, false
	}
	return f, true
}

// c04ContestedClass: number forms that are JSON forms (so the statement accepts them) but that
// actionlint is known or suspected to treat differently. Used only to give such disagreements their
// own narrow signature.
func c04ContestedClass(toks []c04Tok) string {
	var cls []string
	add := func(s string) {
		for _, x := range cls {
			if x == s {
				return
			}
		}
		cls = append(cls, s)
	}
	for _, t := range toks {
		if t.Kind != c04Num {
			continue
		}
		s := t.Text
		if c04IsHex(s) {
			if v, _ := c04NumValue(s); v > math.MaxInt32 || v < math.MinInt32 {
				add("int-beyond-32bit")
			}
			continue
		}
		// one class per token: a leading zero in the exponent dominates a '+' in the same exponent
		if c04ReExpLeadZero.MatchString(s) {
			add("exponent-leading-zero")
		} else if c04ReExpPlus.MatchString(s) {
			add("exponent-plus")
		}
		if !strings.ContainsAny(s, ".eE") {
			if v, _ := c04NumValue(s); v > math.MaxInt32 || v < math.MinInt32 {
				add("int-beyond-32bit")
			}
		}
	}
	if len(cls) == 0 {
		return ""
	}
	// fixed order
	order := []string{"exponent-plus", "exponent-leading-zero", "int-beyond-32bit"}
	var out []string
	for _, o := range order {
		for _, x := range cls {
			if x == o {
				out = append(out, o)
			}
		}
	}
	return strings.Join(out, "+")
}

// ---------------------------------------------------------------------------
// grammar table

type c04Prod struct {
	LHS string
	RHS []string
}

// The documented language. Terminals are the names in c04KindName; everything else is a
// nonterminal. null/true/false are lexically identifiers. There are no empty productions.
var c04Grammar = []c04Prod{
	{"Expr", []string{"Or"}},
	{"Or", []string{"And"}},
	{"Or", []string{"Or", "||", "And"}},
	{"And", []string{"Cmp"}},
	{"And", []string{"And", "&&", "Cmp"}},
	{"Cmp", []string{"Unary"}},
	{"Cmp", []string{"Cmp", "CmpOp", "Unary"}},
	{"CmpOp", []string{"<"}},
	{"CmpOp", []string{"<="}},
	{"CmpOp", []string{">"}},
	{"CmpOp", []string{">="}},
	{"CmpOp", []string{"=="}},
	{"CmpOp", []string{"!="}},
	{"Unary", []string{"!", "Unary"}},
	{"Unary", []string{"Postfix"}},
	{"Postfix", []string{"Primary"}},
	{"Postfix", []string{"Postfix", ".", "IDENT"}},
	{"Postfix", []string{"Postfix", ".", "*"}},
	{"Postfix", []string{"Postfix", "[", "Expr", "]"}},
	{"Primary", []string{"IDENT"}},
	{"Primary", []string{"STRING"}},
	{"Primary", []string{"NUM"}},
	{"Primary", []string{"(", "Expr", ")"}},
	{"Primary", []string{"IDENT", "(", ")"}},
	{"Primary", []string{"IDENT", "(", "Args", ")"}},
	{"Args", []string{"Expr"}},
	{"Args", []string{"Args", ",", "Expr"}},
}

// compiled form: symbols < c04NKinds are terminals, others nonterminals
type c04CRule struct {
	lhs int
	rhs []int
}

type c04CGrammar struct {
	rules  []c04CRule
	byLHS  map[int][]int
	start  int
	nterms int
}

var c04CG = c04Compile(c04Grammar, "Expr")

func c04Compile(g []c04Prod, start string) *c04CGrammar {
	sym := map[string]int{}
	for k, n := range c04KindName {
		sym[n] = k
	}
	next := int(c04NKinds)
	for _, p := range g {
		if _, ok := sym[p.LHS]; !ok {
			sym[p.LHS] = next
			next++
		}
	}
	cg := &c04CGrammar{byLHS: map[int][]int{}, nterms: int(c04NKinds)}
	for i, p := range g {
		r := c04CRule{lhs: sym[p.LHS]}
		if len(p.RHS) == 0 {
			panic("c04: empty production not supported by the recogniser")
		}
		for _, s := range p.RHS {
			id, ok := sym[s]
			if !ok {
				panic("c04: unknown grammar symbol " + s)
			}
			r.rhs = append(r.rhs, id)
		}
		cg.rules = append(cg.rules, r)
		cg.byLHS[r.lhs] = append(cg.byLHS[r.lhs], i)
	}
	cg.start = sym[start]
	if next-int(c04NKinds) > 64 {
		panic("c04: too many nonterminals for the prediction bit set")
	}
	return cg
}

// ---------------------------------------------------------------------------
// Earley recogniser (incremental: Push one token, Pop it again)

type c04Item struct {
	rule   int16
	dot    int16
	origin int32
}

type c04Earley struct {
	g    *c04CGrammar
	sets [][]c04Item
	idx  []map[c04Item]struct{} // only for large sets
	pred []uint64               // per set: nonterminals already predicted (bit = symbol - nterms)
}

func c04NewEarley(g *c04CGrammar) *c04Earley {
	e := &c04Earley{g: g}
	e.Reset()
	return e
}

func (e *c04Earley) Reset() {
	e.sets = e.sets[:0]
	e.idx = e.idx[:0]
	e.pred = e.pred[:0]
	e.newSet()
	e.predict(0, e.g.start)
	e.close(0)
}

func (e *c04Earley) newSet() {
	if len(e.sets) < cap(e.sets) {
		e.sets = e.sets[:len(e.sets)+1]
		e.sets[len(e.sets)-1] = e.sets[len(e.sets)-1][:0]
	} else {
		e.sets = append(e.sets, nil)
	}
	e.idx = append(e.idx, nil)
	e.pred = append(e.pred, 0)
}

// predict adds the productions of nonterminal s to set k (once per set: items with the dot at the
// start and origin k are created nowhere else, so no duplicate test is needed).
func (e *c04Earley) predict(k, s int) {
	bit := uint64(1) << uint(s-e.g.nterms)
	if e.pred[k]&bit != 0 {
		return
	}
	e.pred[k] |= bit
	for _, ri := range e.g.byLHS[s] {
		it := c04Item{int16(ri), 0, int32(k)}
		if m := e.idx[k]; m != nil {
			m[it] = struct{}{}
		}
		e.sets[k] = append(e.sets[k], it)
	}
}

func (e *c04Earley) add(k int, it c04Item) {
	s := e.sets[k]
	if m := e.idx[k]; m != nil {
		if _, ok := m[it]; ok {
			return
		}
		m[it] = struct{}{}
	} else {
		for _, x := range s {
			if x == it {
				return
			}
		}
		if len(s) >= 48 {
			m := make(map[c04Item]struct{}, 128)
			for _, x := range s {
				m[x] = struct{}{}
			}
			m[it] = struct{}{}
			e.idx[k] = m
		}
	}
	e.sets[k] = append(s, it)
}

// close applies prediction and completion to set k until nothing changes.
func (e *c04Earley) close(k int) {
	for i := 0; i < len(e.sets[k]); i++ {
		it := e.sets[k][i]
		r := &e.g.rules[it.rule]
		if int(it.dot) == len(r.rhs) {
			// completion
			o := int(it.origin)
			for j := 0; j < len(e.sets[o]); j++ {
				p := e.sets[o][j]
				pr := &e.g.rules[p.rule]
				if int(p.dot) < len(pr.rhs) && pr.rhs[p.dot] == r.lhs {
					e.add(k, c04Item{p.rule, p.dot + 1, p.origin})
				}
			}
			continue
		}
		s := r.rhs[it.dot]
		if s >= e.g.nterms {
			e.predict(k, s)
		}
	}
}

// Push scans one terminal. It returns false if no item could be advanced (the input read so far is
// not a prefix of any sentence); the (empty) set is pushed anyway so that Pop stays symmetric.
func (e *c04Earley) Push(t c04Kind) bool {
	k := len(e.sets) - 1
	e.newSet()
	for _, it := range e.sets[k] {
		r := &e.g.rules[it.rule]
		if int(it.dot) < len(r.rhs) && r.rhs[it.dot] == int(t) {
			e.add(k+1, c04Item{it.rule, it.dot + 1, it.origin})
		}
	}
	if len(e.sets[k+1]) == 0 {
		return false
	}
	e.close(k + 1)
	return true
}

func (e *c04Earley) Pop() {
	e.sets = e.sets[:len(e.sets)-1]
	e.idx = e.idx[:len(e.idx)-1]
	e.pred = e.pred[:len(e.pred)-1]
}

func (e *c04Earley) Depth() int { return len(e.sets) - 1 }

// Accepting: the tokens pushed so far form a sentence.
func (e *c04Earley) Accepting() bool {
	for _, it := range e.sets[len(e.sets)-1] {
		r := &e.g.rules[it.rule]
		if it.origin == 0 && r.lhs == e.g.start && int(it.dot) == len(r.rhs) {
			return true
		}
	}
	return false
}

// Recognise runs the recogniser over a complete token list.
func (e *c04Earley) Recognise(toks []c04Tok) bool {
	e.Reset()
	for _, t := range toks {
		if !e.Push(t.Kind) {
			return false
		}
	}
	return e.Accepting()
}

// ---------------------------------------------------------------------------
// trees

type c04Node struct {
	Op   string // or and cmp not prop star idx call var null bool num str
	Leaf string
	Ops  []string // comparison operators of a cmp node (len(Kids)-1)
	Kids []*c04Node
}

func c04FmtNum(v float64) string {
	if v == 0 {
		return "0"
	}
	return strconv.FormatFloat(v, 'g', -1, 64)
}

// c04Sexpr prints a tree; chains of one binary precedence level are flattened first because
// associativity is not part of the statement.
func c04Sexpr(n *c04Node) string {
	var b strings.Builder
	c04WriteSexpr(&b, n)
	return b.String()
}

func c04Flatten(n *c04Node, op string, kids *[]*c04Node, ops *[]string) {
	if n.Op != op {
		*kids = append(*kids, n)
		return
	}
	for i, k := range n.Kids {
		if i > 0 && op == "cmp" {
			*ops = append(*ops, n.Ops[i-1])
		}
		c04Flatten(k, op, kids, ops)
	}
}

func c04WriteSexpr(b *strings.Builder, n *c04Node) {
	switch n.Op {
	case "or", "and", "cmp":
		var kids []*c04Node
		var ops []string
		c04Flatten(n, n.Op, &kids, &ops)
		b.WriteByte('(')
		b.WriteString(n.Op)
		for i, k := range kids {
			if i > 0 && n.Op == "cmp" {
				b.WriteByte(' ')
				b.WriteString(ops[i-1])
			}
			b.WriteByte(' ')
			c04WriteSexpr(b, k)
		}
		b.WriteByte(')')
	case "var", "null", "bool", "num":
		b.WriteByte('(')
		b.WriteString(n.Op)
		if n.Leaf != "" {
			b.WriteByte(' ')
			b.WriteString(n.Leaf)
		}
		b.WriteByte(')')
	case "str":
		b.WriteString("(str ")
		b.WriteString(strconv.Quote(n.Leaf))
		b.WriteByte(')')
	default: // not prop star idx call
		b.WriteByte('(')
		b.WriteString(n.Op)
		if n.Leaf != "" {
			b.WriteByte(' ')
			b.WriteString(n.Leaf)
		}
		for _, k := range n.Kids {
			b.WriteByte(' ')
			c04WriteSexpr(b, k)
		}
		b.WriteByte(')')
	}
}

// precedence climbing over a token list. Returns nil if the list is not a sentence.
type c04Builder struct {
	toks []c04Tok
	pos  int
	bad  bool
}

func c04BinLevel(k c04Kind) int {
	switch k {
	case c04Or:
		return 1
	case c04And:
		return 2
	case c04Lt, c04Le, c04Gt, c04Ge, c04Eq, c04Ne:
		return 3
	}
	return 0
}

var c04LevelOp = [...]string{"", "or", "and", "cmp"}

func (p *c04Builder) peek() c04Kind {
	if p.pos < len(p.toks) {
		return p.toks[p.pos].Kind
	}
	return c04End
}

func (p *c04Builder) fail() *c04Node { p.bad = true; return nil }

func (p *c04Builder) expr(minLevel int) *c04Node {
	lhs := p.unary()
	if p.bad {
		return nil
	}
	for {
		lv := c04BinLevel(p.peek())
		if lv == 0 || lv < minLevel {
			return lhs
		}
		op := p.toks[p.pos].Text
		p.pos++
		rhs := p.expr(lv + 1)
		if p.bad {
			return nil
		}
		n := &c04Node{Op: c04LevelOp[lv], Kids: []*c04Node{lhs, rhs}}
		if lv == 3 {
			n.Ops = []string{op}
		}
		lhs = n
	}
}

func (p *c04Builder) unary() *c04Node {
	if p.peek() == c04Not {
		p.pos++
		o := p.unary()
		if p.bad {
			return nil
		}
		return &c04Node{Op: "not", Kids: []*c04Node{o}}
	}
	n := p.primary()
	if p.bad {
		return nil
	}
	for {
		switch p.peek() {
		case c04Dot:
			p.pos++
			switch p.peek() {
			case c04Ident:
				n = &c04Node{Op: "prop", Leaf: strings.ToLower(p.toks[p.pos].Text), Kids: []*c04Node{n}}
				p.pos++
			case c04Star:
				n = &c04Node{Op: "star", Kids: []*c04Node{n}}
				p.pos++
			default:
				return p.fail()
			}
		case c04LBrack:
			p.pos++
			i := p.expr(1)
			if p.bad {
				return nil
			}
			if p.peek() != c04RBrack {
				return p.fail()
			}
			p.pos++
			n = &c04Node{Op: "idx", Kids: []*c04Node{n, i}}
		default:
			return n
		}
	}
}

func (p *c04Builder) primary() *c04Node {
	if p.pos >= len(p.toks) {
		return p.fail()
	}
	t := p.toks[p.pos]
	switch t.Kind {
	case c04Ident:
		p.pos++
		if p.peek() == c04LParen {
			p.pos++
			n := &c04Node{Op: "call", Leaf: strings.ToLower(t.Text)}
			if p.peek() == c04RParen {
				p.pos++
				return n
			}
			for {
				a := p.expr(1)
				if p.bad {
					return nil
				}
				n.Kids = append(n.Kids, a)
				switch p.peek() {
				case c04Comma:
					p.pos++
				case c04RParen:
					p.pos++
					return n
				default:
					return p.fail()
				}
			}
		}
		switch t.Text {
		case "null":
			return &c04Node{Op: "null"}
		case "true", "false":
			return &c04Node{Op: "bool", Leaf: t.Text}
		}
		return &c04Node{Op: "var", Leaf: strings.ToLower(t.Text)}
	case c04String:
		p.pos++
		s := t.Text[1 : len(t.Text)-1]
		return &c04Node{Op: "str", Leaf: strings.ReplaceAll(s, "''", "'")}
	case c04Num:
		p.pos++
		v, _ := c04NumValue(t.Text)
		return &c04Node{Op: "num", Leaf: c04FmtNum(v)}
	case c04LParen:
		p.pos++
		n := p.expr(1)
		if p.bad {
			return nil
		}
		if p.peek() != c04RParen {
			return p.fail()
		}
		p.pos++
		return n
	}
	return p.fail()
}

func c04BuildTree(toks []c04Tok) *c04Node {
	p := &c04Builder{toks: toks}
	n := p.expr(1)
	if p.bad || p.pos != len(toks) {
		return nil
	}
	return n
}

// ---------------------------------------------------------------------------
// the reference verdict on a piece of source text

type c04Verdict struct {
	Lex       c04LexResult
	Silent    string // statement silent: do not compare
	Accept    bool
	Sexpr     string
	Tree      *c04Node
	Contested string
	SelfCheck string // non-empty: the two reference algorithms disagree (monitor bug)
}

// c04Reference decides src. Placeholder mode (ifMode false): src is what follows "${{"; the
// placeholder ends at the first "}}" token, which must exist. If mode: src is the whole condition,
// which must be a sentence by itself ("}}" is no token of the language).
func c04Reference(src string, ifMode bool, e *c04Earley, buf []c04Tok) c04Verdict {
	v := c04Verdict{}
	v.Lex = c04Lex(src, buf)
	lr := &v.Lex
	v.Silent = c04SilentClass(lr)
	if v.Silent != "" {
		return v
	}
	lexOK := lr.ErrOff < 0 && (ifMode && !lr.Ended || !ifMode && lr.Ended)
	rec := e.Recognise(lr.Toks)
	tree := c04BuildTree(lr.Toks)
	if rec != (tree != nil) {
		v.SelfCheck = fmt.Sprintf("Earley=%v precedence-climbing=%v on %q", rec, tree != nil, src)
	}
	if lexOK && rec {
		v.Accept = true
		if tree != nil {
			v.Tree = tree
			v.Sexpr = c04Sexpr(tree)
		}
		v.Contested = c04ContestedClass(lr.Toks)
	}
	return v
}
