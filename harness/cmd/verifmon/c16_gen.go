package main

// C16 workload: workflows with nasty strings at user-string echo sites.
//
// The generator builds a small ordered YAML tree and renders it with its own emitter, choosing a
// scalar style (plain / single-quoted / double-quoted with escapes / block scalar) per node among
// the styles that can represent the string. The oracle of C16 is a pure round trip (printed output
// vs returned []*Error), so the generator does not need to predict diagnostics; it only has to
// reach as many message formats that echo user text as possible.

import (
	"fmt"
	"strings"
	"unicode/utf8"
)

// ---------------------------------------------------------------------------
// nasty strings

var c16Nasty = []string{
	"a\nb", "a\r\nb", "a\rb", "\n", "x\n", "\nx", "a\n\nb", "a\tb", "\t", "a\x00b",
	"\x1b[31mred\x1b[0m", "\x1b[0m", "\x1b[1mzq", "a\x07b", "a\x7fb", "a\vb", "a\fb",
	"a [x]", "a [x] b", " [x]", "[x]", "a]", "[", "]", "a [b] [c]", "x [matrix]", "y [expression]", "zq [syntax-check]",
	"a:1:2: b", "f.yml:1:2: m [k]", ":1:2: ", "w.yml:3:4: zq",
	"a\"b", "a'b", "\"", "'", "a\\nb", "a\\", "\\", "`a`", "a\\\"b",
	"é", "日本語", "ａｂｃ", "🙂", "zq\u0301", "a\u2028b", "a\u2029b", "a\u0085b", "\ufeffa", "\u202ezq", "a\u00a0b", "\u3000",
	"%s%d%!", "%", "a b", " a", "a ", "", " ", "a,b", "a#b", "a #b", "a: b", "a:", "{a}", "{", "}", "*", "&a", "!a", "|", ">", "-", "?", "@", "~",
	"null", "true", "1", "1.5", "0x1f", "~", "<<",
	"${{", "}}", "${{ a }}", "$", "a${{ 1 }}b",
	"ZQZQZQZQZQZQZQZQZQZQZQZQZQZQZQZQZQZQZQZQZQZQZQZQZQZQZQZQZQZQZQZQZQZQZQZQZQZQZQZQZQZQZQZQZQZQZQZQZQZQZQZQZQZQZQZQZQZQZQZQZQZQZQZQZQZQZQZQZQZQZQZQZQZQZQZQZQZQZQ",
}

// c16G is the per-case generator state.
type c16G struct {
	r     *Rand
	cycle bool   // the jobs form a needs cycle
	focus string // site class that gets a nasty string with high probability
	den   int    // 1/den: probability of a nasty string at a non-focused site
	used  map[string]int
}

func (g *c16G) nasty() string {
	r := g.r
	s := c16Nasty[r.Intn(len(c16Nasty))]
	switch r.Intn(10) {
	case 0:
		s = s + c16Nasty[r.Intn(len(c16Nasty))]
	case 1:
		s = "zq" + s
	case 2:
		s = s + "zq"
	case 3:
		s = "zq" + s + "zq"
	}
	return s
}

// u returns the string to use at a user-string site of class `class`: a nasty string (possibly
// wrapped so that it reaches the class-specific validation code) or the benign default.
func (g *c16G) u(class, def string) string {
	r := g.r
	hit := false
	if class == g.focus {
		hit = r.Chance(3, 4)
	} else {
		hit = r.Chance(1, g.den)
	}
	if !hit {
		return def
	}
	g.used[class]++
	n := g.nasty()
	switch class {
	case "cron":
		switch r.Intn(9) {
		case 7:
			return "@" + []string{"\x1b[0m", "zq\x1b[31m", "a\nb", "every 1h\x1b[1m"}[r.Intn(4)]
		case 0:
			return "@" + n
		case 1:
			return "@every " + n
		case 2:
			return "*/5 * * * " + n
		case 3:
			return n + " * * * *"
		case 4:
			return "0 0 * * *" + n
		case 5:
			return "@daily" + n
		case 6:
			return "TZ=" + n + " 0 0 * * *"
		}
	case "docker":
		switch r.Intn(8) {
		case 5:
			return "docker://%zz:" + n
		case 6:
			return []string{"docker://%zz:a\nb", "docker://a\tb:c\rd", "docker://\x00:\x1b[0m [x]\n"}[r.Intn(3)]
		case 0:
			return "docker://img:" + n
		case 1:
			return "docker://" + n
		case 2:
			return "docker://" + n + ":tag"
		case 3:
			return "docker://%zz" + n + ":" + n
		case 4:
			return "docker://ghcr.io/a/b:" + n
		}
	case "action":
		switch r.Intn(9) {
		case 0:
			return "actions/checkout@" + n
		case 1:
			return n + "@v1"
		case 2:
			return "owner/" + n + "@v1"
		case 3:
			return "./" + n
		case 4:
			return "actions/" + n
		case 5:
			return "actions/checkout" + n + "@v4"
		case 6:
			return "actions/checkout@v1" + n
		case 7:
			return n + "/checkout@v4"
		}
	case "reusable":
		switch r.Intn(6) {
		case 0:
			return "owner/repo/.github/workflows/w.yml@" + n
		case 1:
			return "./.github/workflows/" + n
		case 2:
			return "owner/" + n + "/w.yml@v1"
		case 3:
			return "./" + n
		case 4:
			return n + "@v1"
		}
	case "glob":
		switch r.Intn(8) {
		case 0:
			return "**" + n
		case 1:
			return "[" + n
		case 2:
			return "!" + n
		case 3:
			return "releases/" + n + "/**"
		case 4:
			return n + "\\"
		case 5:
			return "[a-" + n + "]"
		}
	case "shell":
		switch r.Intn(5) {
		case 0:
			return "bash " + n
		case 1:
			return n + " {0}"
		case 2:
			return "pwsh" + n
		}
	case "number":
		switch r.Intn(4) {
		case 0:
			return "1" + n
		case 1:
			return n + "1"
		}
	case "image":
		switch r.Intn(4) {
		case 0:
			return "node:" + n
		case 1:
			return "ghcr.io/" + n
		}
	case "localaction":
		switch r.Intn(5) {
		case 0:
			return "./" + n
		case 1:
			return "./.github/actions/" + n
		case 2:
			return "./.github/actions/x" + n
		case 3:
			return "./.github/actions/x/" + n
		}
	case "localworkflow":
		switch r.Intn(5) {
		case 0:
			return "./" + n
		case 1:
			return "./.github/workflows/" + n
		case 2:
			return "./.github/workflows/callee.yml" + n
		case 3:
			return "./.github/workflows/" + n + ".yml"
		}
	case "expr":
		return g.nastyExpr(n)
	}
	return n
}

// uf is u with an additional chance num/den of a nasty string regardless of the focus (sites that
// are reached by few workflows).
func (g *c16G) uf(class, def string, num, den int) string {
	if g.r.Chance(num, den) {
		save := g.focus
		g.focus = class
		s := g.u(class, def)
		g.focus = save
		return s
	}
	return g.u(class, def)
}

func c16ExprQuote(s string) string { return "'" + strings.ReplaceAll(s, "'", "''") + "'" }

func c16JSONEsc(s string) string {
	var b strings.Builder
	for _, c := range s {
		switch {
		case c == '"':
			b.WriteString(`\"`)
		case c == '\\':
			b.WriteString(`\\`)
		case c == '\n':
			b.WriteString(`\n`)
		case c == '\r':
			b.WriteString(`\r`)
		case c == '\t':
			b.WriteString(`\t`)
		case c < 0x20:
			fmt.Fprintf(&b, `\u%04x`, c)
		default:
			b.WriteRune(c)
		}
	}
	return b.String()
}

// nastyExpr embeds n into an expression so that it reaches an expression diagnostic that echoes it.
func (g *c16G) nastyExpr(n string) string {
	r := g.r
	q := c16ExprQuote(n)
	var e string
	switch r.Intn(26) {
	case 0:
		e = q
	case 1:
		e = "github[" + q + "]"
	case 2:
		e = "github.event[" + q + "].x"
	case 3:
		e = "fromJSON('{\"" + strings.ReplaceAll(c16JSONEsc(n), "'", "''") + "\": 1}').zq"
	case 4:
		e = "fromJSON(" + q + ")"
	case 5:
		e = "format(" + q + ")"
	case 6:
		e = "format('{0} {1}', " + q + ")"
	case 7:
		e = "format('" + strings.ReplaceAll(n, "'", "''") + " {0} {3}', 1)"
	case 8:
		e = n // raw text inside the expression: lexer / parser errors
	case 9:
		e = "matrix[" + q + "]"
	case 10:
		e = "contains(" + q + ")"
	case 11:
		e = "zqfunc(" + q + ")"
	case 12:
		e = "inputs[" + q + "]"
	case 13:
		e = "steps[" + q + "].outputs.x"
	case 14:
		e = "needs[" + q + "].result"
	case 15:
		e = "env[" + q + "]"
	case 16:
		e = "secrets[" + q + "]"
	case 17:
		e = "vars[" + q + "]"
	case 18:
		e = "job.services[" + q + "].id"
	case 19:
		e = "startsWith(" + q + ", 1, 2)"
	case 20:
		e = "fromJSON('{\"a\": {\"" + strings.ReplaceAll(c16JSONEsc(n), "'", "''") + "\": [1]}}').a.b"
	case 21:
		e = "hashFiles(" + q + ") == 1 && zq"
	case 22:
		e = "runner[" + q + "]"
	case 23:
		e = "strategy[" + q + "]"
	case 24:
		e = "github.event.pull_request[" + q + "] && toJSON(github).zq"
	case 25:
		e = "1 " + n + " 2"
	}
	switch r.Intn(6) {
	case 0:
		return "${{ " + e + " }} zq ${{ zq2 }}"
	case 1:
		return "zq ${{ " + e + " }}"
	case 2:
		return "${{" + e + "}}"
	}
	return "${{ " + e + " }}"
}

// ---------------------------------------------------------------------------
// YAML tree and emitter

type c16N struct {
	kind int // 0 scalar, 1 mapping, 2 sequence
	s    string
	raw  bool // scalar text is emitted verbatim (YAML literal such as true / 1 / null)
	k, v []*c16N
	e    []*c16N
	flow bool
}

func c16S(s string) *c16N   { return &c16N{kind: 0, s: s} }
func c16Raw(s string) *c16N { return &c16N{kind: 0, s: s, raw: true} }

// c16M builds a mapping from alternating key / value arguments; strings become scalars.
func c16M(kv ...interface{}) *c16N {
	n := &c16N{kind: 1}
	for i := 0; i+1 < len(kv); i += 2 {
		n.k = append(n.k, c16Node(kv[i]))
		n.v = append(n.v, c16Node(kv[i+1]))
	}
	return n
}

func (n *c16N) put(k, v interface{}) *c16N {
	n.k = append(n.k, c16Node(k))
	n.v = append(n.v, c16Node(v))
	return n
}

func c16Q(es ...interface{}) *c16N {
	n := &c16N{kind: 2}
	for _, e := range es {
		n.e = append(n.e, c16Node(e))
	}
	return n
}

func c16Node(x interface{}) *c16N {
	switch t := x.(type) {
	case *c16N:
		return t
	case string:
		return c16S(t)
	}
	panic("c16Node: bad argument")
}

func c16Printable(c rune) bool {
	if c < 0x20 || c == 0x7f || c == 0x85 || c == 0x2028 || c == 0x2029 || c == 0xfeff || c == utf8.RuneError {
		return false
	}
	if c >= 0x80 && c < 0xa0 {
		return false
	}
	return true
}

func c16AllPrintable(s string) bool {
	for _, c := range s {
		if !c16Printable(c) {
			return false
		}
	}
	return true
}

func c16PlainOK(s string, key, flow bool) bool {
	if s == "" || !c16AllPrintable(s) || s[0] == ' ' || s[len(s)-1] == ' ' {
		return false
	}
	c0 := rune(s[0])
	if c0 < 0x80 {
		ok := c0 >= 'a' && c0 <= 'z' || c0 >= 'A' && c0 <= 'Z' || c0 >= '0' && c0 <= '9' || c0 == '_' || c0 == '.' || c0 == '/' || c0 == '$'
		if !ok {
			return false
		}
	}
	if strings.Contains(s, ": ") || strings.HasSuffix(s, ":") || strings.Contains(s, " #") {
		return false
	}
	if flow || key {
		// conservative: letters, digits, a few punctuation characters, inner spaces, non-ASCII
		for _, c := range s {
			ok := c >= 'a' && c <= 'z' || c >= 'A' && c <= 'Z' || c >= '0' && c <= '9' || c == '_' || c == '.' || c == '/' || c == '-' || c == ' ' || c >= 0xa1
			if !ok {
				return false
			}
		}
	}
	if s == "<<" || s == "---" || s == "..." {
		return false
	}
	return true
}

func c16DQ(r *Rand, s string) string {
	var b strings.Builder
	b.WriteByte('"')
	for _, c := range s {
		switch {
		case c == '"':
			b.WriteString(`\"`)
		case c == '\\':
			b.WriteString(`\\`)
		case c == '\n':
			b.WriteString(`\n`)
		case c == '\r':
			b.WriteString(`\r`)
		case c == '\t':
			if r.Bool() {
				b.WriteString(`\t`)
			} else {
				b.WriteByte('\t')
			}
		case c == 0:
			b.WriteString(`\0`)
		case c == 0x1b:
			b.WriteString(`\e`)
		case c == 0x07:
			b.WriteString(`\a`)
		case c == 0x85:
			b.WriteString(`\N`)
		case c == 0x2028:
			b.WriteString(`\L`)
		case c == 0x2029:
			b.WriteString(`\P`)
		case c == 0xa0:
			b.WriteString(`\_`)
		case c < 0x20 || c == 0x7f || (c >= 0x80 && c < 0xa0):
			fmt.Fprintf(&b, `\x%02X`, c)
		case c == 0xfeff:
			b.WriteString(`\uFEFF`)
		case c >= 0x80 && r.Chance(1, 4):
			if c <= 0xffff {
				fmt.Fprintf(&b, `\u%04X`, c)
			} else {
				fmt.Fprintf(&b, `\U%08X`, c)
			}
		default:
			b.WriteRune(c)
		}
	}
	b.WriteByte('"')
	return b.String()
}

func c16SQ(s string) string { return "'" + strings.ReplaceAll(s, "'", "''") + "'" }

func c16BlockOK(s string) bool {
	if !strings.Contains(s, "\n") || s[0] == ' ' || s[0] == '\t' || s[0] == '\n' {
		return false
	}
	for _, c := range s {
		if c != '\n' && c != '\t' && !c16Printable(c) {
			return false
		}
	}
	for _, l := range strings.Split(s, "\n") {
		if strings.HasPrefix(l, "\t") {
			return false
		}
	}
	return true
}

type c16Emitter struct {
	r *Rand
	b strings.Builder
}

// scalar returns the text of a scalar. indent is the indentation of the parent construct; block
// scalars (allowed only when blockOK) are indented by indent+2 and end with a line break
// (endsNL == true); all other forms do not contain a line break.
func (em *c16Emitter) scalar(n *c16N, indent int, key, flow, blockOK bool) (text string, endsNL bool) {
	if n.raw {
		return n.s, false
	}
	s := n.s
	r := em.r
	if blockOK && !key && !flow && c16BlockOK(s) && r.Chance(1, 2) {
		hdr := []string{"|-", "|", "|+", ">-", ">"}[r.Intn(5)]
		var b strings.Builder
		b.WriteString(hdr + "\n")
		pad := strings.Repeat(" ", indent+2)
		for _, l := range strings.Split(strings.TrimRight(s, "\n"), "\n") {
			if l == "" {
				b.WriteString("\n")
			} else {
				b.WriteString(pad + l + "\n")
			}
		}
		return b.String(), true
	}
	plain := c16PlainOK(s, key, flow)
	sq := c16AllPrintable(s)
	switch {
	case plain && r.Chance(2, 3):
		return s, false
	case sq && r.Chance(1, 2):
		return c16SQ(s), false
	}
	return c16DQ(r, s), false
}

func (em *c16Emitter) flowText(n *c16N) string {
	switch n.kind {
	case 0:
		t, _ := em.scalar(n, 0, false, true, false)
		return t
	case 1:
		parts := make([]string, len(n.k))
		for i := range n.k {
			kt, _ := em.scalar(n.k[i], 0, true, true, false)
			parts[i] = kt + ": " + em.flowText(n.v[i])
		}
		return "{" + strings.Join(parts, ", ") + "}"
	}
	parts := make([]string, len(n.e))
	for i := range n.e {
		parts[i] = em.flowText(n.e[i])
	}
	return "[" + strings.Join(parts, ", ") + "]"
}

// block writes node n as block-style lines indented by indent.
func (em *c16Emitter) block(n *c16N, indent int) string {
	pad := strings.Repeat(" ", indent)
	var b strings.Builder
	switch n.kind {
	case 1:
		for i := range n.k {
			kt, _ := em.scalar(n.k[i], indent, true, false, false)
			b.WriteString(pad + kt + ":")
			b.WriteString(em.value(n.v[i], indent))
		}
	case 2:
		for _, e := range n.e {
			switch {
			case e.kind == 1 && len(e.k) > 0 && !e.flow:
				sub := em.block(e, indent+2)
				b.WriteString(pad + "- " + sub[indent+2:])
			case e.kind == 2 && len(e.e) > 0 && !e.flow:
				sub := em.block(e, indent+2)
				b.WriteString(pad + "- " + sub[indent+2:])
			default:
				b.WriteString(pad + "-" + em.value(e, indent))
			}
		}
	}
	return b.String()
}

// value writes " <inline>\n" or "\n<nested block>" for the value of a mapping entry / sequence item
// whose parent is indented by indent.
func (em *c16Emitter) value(v *c16N, indent int) string {
	switch v.kind {
	case 0:
		t, nl := em.scalar(v, indent, false, false, true)
		if nl {
			return " " + t
		}
		return " " + t + "\n"
	case 1:
		if len(v.k) == 0 {
			return " {}\n"
		}
		if v.flow {
			return " " + em.flowText(v) + "\n"
		}
		return "\n" + em.block(v, indent+2)
	}
	if len(v.e) == 0 {
		return " []\n"
	}
	if v.flow {
		return " " + em.flowText(v) + "\n"
	}
	return "\n" + em.block(v, indent+2)
}

func c16Emit(r *Rand, root *c16N) string {
	em := &c16Emitter{r: r}
	return em.block(root, 0)
}

// ---------------------------------------------------------------------------
// workflow generator

var c16Events = []string{"push", "pull_request", "issues", "workflow_dispatch", "release", "issue_comment", "pull_request_target", "label", "create", "workflow_run", "schedule", "repository_dispatch", "workflow_call"}
var c16Scopes = []string{"contents", "issues", "pull-requests", "actions", "checks", "packages", "id-token", "statuses"}

func (g *c16G) maybeFlow(n *c16N) *c16N {
	if g.r.Chance(1, 3) {
		n.flow = true
	}
	return n
}

func (g *c16G) strList(class string, defs ...string) *c16N {
	q := c16Q()
	n := g.r.Range(1, 3)
	for i := 0; i < n; i++ {
		q.e = append(q.e, c16S(g.u(class, defs[g.r.Intn(len(defs))])))
	}
	return g.maybeFlow(q)
}

func (g *c16G) permissions() *c16N {
	r := g.r
	if r.Chance(1, 4) {
		return c16S(g.u("permvalue", r.Pick([]string{"read-all", "write-all"})))
	}
	m := c16M()
	for i, n := 0, r.Range(1, 3); i < n; i++ {
		m.put(g.u("scope", r.Pick(c16Scopes)), g.u("permvalue", r.Pick([]string{"read", "write", "none"})))
	}
	return g.maybeFlow(m)
}

func (g *c16G) envMap() *c16N {
	r := g.r
	if r.Chance(1, 8) {
		return c16S(g.u("expr", "${{ fromJSON('{}') }}"))
	}
	m := c16M()
	for i, n := 0, r.Range(1, 3); i < n; i++ {
		m.put(g.u("envname", r.Pick([]string{"FOO", "BAR_1", "NODE_ENV"})), g.u("expr", r.Pick([]string{"1", "prod", "${{ github.ref }}"})))
	}
	return m
}

func (g *c16G) inputDef(call bool) *c16N {
	r := g.r
	m := c16M()
	if r.Chance(3, 4) {
		m.put("description", g.u("text", "some input"))
	}
	ty := r.Pick([]string{"string", "boolean", "number", "choice", "environment"})
	if call {
		ty = r.Pick([]string{"string", "boolean", "number"})
	}
	if r.Chance(5, 6) {
		m.put("type", g.u("inputtype", ty))
	}
	if r.Chance(1, 2) {
		m.put("required", g.u("bool", r.Pick([]string{"true", "false"})))
	}
	if r.Chance(2, 3) {
		def := map[string]string{"string": "abc", "boolean": "true", "number": "12", "choice": "a", "environment": "prod"}[ty]
		m.put("default", g.u("default", def))
	}
	if ty == "choice" && r.Chance(5, 6) {
		m.put("options", g.strList("option", "a", "b", "c"))
	}
	if r.Chance(1, 8) {
		m.put(g.u("key", "description"), "x")
	}
	return m
}

func (g *c16G) webhookBody(ev string) *c16N {
	r := g.r
	m := c16M()
	switch ev {
	case "push", "pull_request", "pull_request_target":
		for _, f := range []string{"branches", "branches-ignore", "tags", "tags-ignore", "paths", "paths-ignore"} {
			if r.Chance(1, 4) {
				cl := "glob"
				m.put(f, g.strList(cl, "main", "releases/**", "v[0-9]+.*", "src/**/*.go", "!docs/**"))
			}
		}
		if ev != "push" && r.Chance(1, 2) {
			m.put("types", g.strList("activity", "opened", "synchronize", "closed"))
		}
	case "issues", "release", "issue_comment", "label":
		if r.Chance(3, 4) {
			m.put("types", g.strList("activity", "opened", "created", "published", "edited"))
		}
		if r.Chance(1, 4) {
			m.put("branches", g.strList("glob", "main"))
		}
	case "workflow_run":
		m.put("workflows", g.strList("text", "CI", "Build"))
		if r.Chance(1, 2) {
			m.put("types", g.strList("activity", "completed", "requested"))
		}
		if r.Chance(1, 3) {
			m.put("branches", g.strList("glob", "main"))
		}
	case "schedule":
		q := c16Q()
		for i, n := 0, r.Range(1, 3); i < n; i++ {
			item := c16M("cron", g.u("cron", r.Pick([]string{"0 0 * * *", "*/15 * * * *", "@daily", "0 4 1 * 1"})))
			if r.Chance(1, 10) {
				item.put(g.u("key", "cron2"), "x")
			}
			q.e = append(q.e, item)
		}
		return q
	case "workflow_dispatch":
		if r.Chance(5, 6) {
			ins := c16M()
			for i, n := 0, r.Range(1, 3); i < n; i++ {
				ins.put(g.u("inputname", r.Pick([]string{"name", "level", "dry_run", "Name"})), g.inputDef(false))
			}
			m.put("inputs", ins)
		}
	case "workflow_call":
		if r.Chance(3, 4) {
			ins := c16M()
			for i, n := 0, r.Range(1, 3); i < n; i++ {
				ins.put(g.u("inputname", r.Pick([]string{"name", "level", "dry_run"})), g.inputDef(true))
			}
			m.put("inputs", ins)
		}
		if r.Chance(1, 2) {
			m.put("secrets", c16M(g.u("inputname", "token"), c16M("required", g.u("bool", "true"), "description", g.u("text", "d"))))
		}
		if r.Chance(1, 2) {
			m.put("outputs", c16M(g.u("inputname", "out"), c16M("value", g.u("expr", "${{ jobs.build.outputs.x }}"), "description", g.u("text", "d"))))
		}
	case "repository_dispatch":
		if r.Chance(1, 2) {
			m.put("types", g.strList("text", "deploy"))
		}
	}
	if r.Chance(1, 10) {
		m.put(g.u("key", "types"), "x")
	}
	return m
}

func (g *c16G) on() *c16N {
	r := g.r
	switch r.Intn(6) {
	case 0:
		return c16S(g.u("event", r.Pick(c16Events)))
	case 1:
		return g.strList("event", c16Events...)
	}
	m := c16M()
	seen := map[string]bool{}
	for i, n := 0, r.Range(1, 3); i < n; i++ {
		ev := r.Pick(c16Events)
		if seen[ev] && r.Chance(9, 10) {
			continue
		}
		seen[ev] = true
		name := g.u("event", ev)
		body := g.webhookBody(ev)
		if body.kind == 1 && len(body.k) == 0 && r.Bool() {
			m.put(name, c16Raw(""))
			continue
		}
		m.put(name, body)
	}
	if len(m.k) == 0 {
		m.put("push", c16Raw(""))
	}
	return m
}

// matrixComposite builds a value of a matrix row: a scalar, or a mapping / sequence whose keys and
// elements are user-string sites themselves (the matrix diagnostics print composite values).
func (g *c16G) matrixComposite(depth int) *c16N {
	r := g.r
	k := r.Intn(5)
	if depth >= 3 {
		k = 0
	}
	switch k {
	case 1, 2:
		m := c16M()
		for i, n := 0, r.Range(1, 2); i < n; i++ {
			m.put(g.u("matrixmapkey", r.Pick([]string{"opt", "level", "a", "Opt"})), g.matrixComposite(depth+1))
		}
		if depth > 0 {
			g.maybeFlow(m)
		}
		return m
	case 3:
		q := c16Q()
		for i, n := 0, r.Range(1, 3); i < n; i++ {
			q.e = append(q.e, g.matrixComposite(depth+1))
		}
		if depth > 0 {
			g.maybeFlow(q)
		}
		return q
	}
	return c16S(g.u("matrixval", r.Pick([]string{"1", "ubuntu-latest", "x", "14.x", "true"})))
}

func (g *c16G) matrix() *c16N {
	r := g.r
	if r.Chance(1, 10) {
		return c16S(g.u("expr", "${{ fromJSON(inputs.m) }}"))
	}
	m := c16M()
	type rowInfo struct {
		key   string
		elems []*c16N
	}
	var rows []rowInfo
	composite := r.Chance(1, 2) || g.focus == "matrixmapkey" || g.focus == "matrixval"
	for i, n := 0, r.Range(1, 3); i < n; i++ {
		key := g.u("matrixkey", r.Pick([]string{"os", "node", "Ver", "include2"}))
		if r.Chance(1, 10) {
			m.put(key, g.u("expr", "${{ fromJSON('[1]') }}"))
			continue
		}
		q := c16Q()
		for j, k := 0, r.Range(1, 4); j < k; j++ {
			switch {
			case composite && r.Chance(2, 3):
				q.e = append(q.e, g.matrixComposite(0))
			case r.Chance(1, 8):
				q.e = append(q.e, c16M(g.u("matrixmapkey", "a"), g.u("matrixval", "1")))
			case r.Chance(1, 8):
				q.e = append(q.e, c16Q(g.u("matrixval", "1"), "2"))
			default:
				q.e = append(q.e, c16S(g.u("matrixval", r.Pick([]string{"1", "ubuntu-latest", "1", "14.x"}))))
			}
		}
		// plant duplicates: the same value again (rendered independently, possibly in another style)
		if r.Chance(1, 2) {
			for d := r.Range(1, 2); d > 0; d-- {
				e := q.e[r.Intn(len(q.e))]
				at := r.Intn(len(q.e) + 1)
				q.e = append(q.e[:at], append([]*c16N{e}, q.e[at:]...)...)
			}
		}
		rows = append(rows, rowInfo{key, q.e})
		if composite {
			m.put(key, q) // block style so that nested block mappings stay valid
		} else {
			m.put(key, g.maybeFlow(q))
		}
	}
	for _, sec := range []string{"include", "exclude"} {
		if !r.Chance(1, 2) {
			continue
		}
		q := c16Q()
		for j, k := 0, r.Range(1, 3); j < k; j++ {
			ent := c16M()
			for a, na := 0, r.Range(1, 2); a < na; a++ {
				switch {
				case len(rows) > 0 && r.Chance(3, 4):
					row := rows[r.Intn(len(rows))]
					switch r.Intn(4) {
					case 0: // a value of the row (matches)
						ent.put(row.key, row.elems[r.Intn(len(row.elems))])
					case 1: // a scalar that matches nothing
						ent.put(row.key, g.u("matrixval", "nomatch"))
					default: // a composite value that matches nothing
						ent.put(row.key, g.matrixComposite(r.Intn(2)))
					}
				default:
					ent.put(g.u("matrixkey", r.Pick([]string{"os", "node", "zz"})), g.matrixComposite(1))
				}
			}
			q.e = append(q.e, ent)
		}
		m.put(sec, q)
	}
	return m
}

func (g *c16G) container() *c16N {
	r := g.r
	if r.Chance(1, 3) {
		return c16S(g.u("image", "node:18"))
	}
	m := c16M("image", g.u("image", "node:18"))
	if r.Chance(1, 3) {
		m.put("credentials", c16M("username", g.u("text", "me"), "password", g.u("expr", r.Pick([]string{"${{ secrets.PW }}", "hunter2"}))))
	}
	if r.Chance(1, 3) {
		m.put("env", g.envMap())
	}
	if r.Chance(1, 3) {
		m.put("ports", g.strList("text", "80", "8080:80"))
	}
	if r.Chance(1, 3) {
		m.put("volumes", g.strList("text", "/a:/b", "vol:/c"))
	}
	if r.Chance(1, 3) {
		m.put("options", g.u("text", "--cpus 1"))
	}
	if r.Chance(1, 10) {
		m.put(g.u("key", "image2"), "x")
	}
	return m
}

func (g *c16G) step(i int) *c16N {
	r := g.r
	m := c16M()
	if r.Chance(1, 2) {
		m.put("id", g.u("id", r.Pick([]string{"s1", "build", "Test_2", "s1"})))
	}
	if r.Chance(1, 3) {
		m.put("name", g.u("expr", r.Pick([]string{"Step", "Run ${{ matrix.os }}"})))
	}
	if r.Chance(1, 3) {
		m.put("if", g.u("expr", r.Pick([]string{"${{ always() }}", "github.ref == 'refs/heads/main'", "success() && steps.s1.outputs.x"})))
	}
	if r.Chance(1, 2) {
		m.put("uses", g.usesSpec())
		if r.Chance(2, 3) {
			w := c16M()
			for j, k := 0, r.Range(1, 3); j < k; j++ {
				w.put(g.u("withname", r.Pick([]string{"fetch-depth", "node-version", "path", "zq-input", "token"})), g.u("expr", r.Pick([]string{"1", "${{ github.token }}", "abc"})))
			}
			if r.Chance(1, 6) {
				w.put("entrypoint", g.u("text", "/bin/sh"))
				w.put("args", g.u("text", "-c x"))
			}
			m.put("with", w)
		}
	} else {
		m.put("run", g.u("expr", r.Pick([]string{"echo hello", "echo ${{ github.event.pull_request.title }}", "make\nmake test\n", "echo '::set-output name=a::b'"})))
		if r.Chance(1, 2) {
			m.put("shell", g.u("shell", r.Pick([]string{"bash", "pwsh", "python", "sh", "bash -e {0}"})))
		}
		if r.Chance(1, 4) {
			m.put("working-directory", g.u("expr", "./src"))
		}
	}
	if r.Chance(1, 4) {
		m.put("env", g.envMap())
	}
	if r.Chance(1, 6) {
		m.put("continue-on-error", g.u("bool", "true"))
	}
	if r.Chance(1, 6) {
		m.put("timeout-minutes", g.u("number", "10"))
	}
	if r.Chance(1, 12) {
		m.put(g.u("key", "run2"), "x")
	}
	return m
}

func (g *c16G) usesSpec() string {
	r := g.r
	switch r.Intn(6) {
	case 0:
		return g.u("docker", r.Pick([]string{"docker://alpine:3.8", "docker://ghcr.io/a/b"}))
	case 1:
		return g.u("action", "./.github/actions/x")
	}
	return g.u("action", r.Pick([]string{"actions/checkout@v4", "actions/setup-node@v4", "actions/cache@v4", "owner/repo/path@v1", "actions/checkout@v2"}))
}

func (g *c16G) runsOn() *c16N {
	r := g.r
	labels := []string{"ubuntu-latest", "windows-latest", "macos-latest", "self-hosted", "linux", "x64", "ubuntu-22.04", "my-label"}
	switch r.Intn(5) {
	case 0:
		return g.strList("label", labels...)
	case 1:
		m := c16M()
		if r.Bool() {
			m.put("group", g.u("label", "grp"))
		}
		if r.Bool() || len(m.k) == 0 {
			if r.Bool() {
				m.put("labels", g.strList("label", labels...))
			} else {
				m.put("labels", g.u("label", "ubuntu-latest"))
			}
		}
		if r.Chance(1, 8) {
			m.put(g.u("key", "groups"), "x")
		}
		return m
	case 2:
		return c16S(g.u("expr", "${{ matrix.os }}"))
	}
	return c16S(g.u("label", r.Pick(labels)))
}

func (g *c16G) job(ids []string, idx int) *c16N {
	r := g.r
	m := c16M()
	if r.Chance(1, 3) {
		m.put("name", g.u("expr", "Job ${{ matrix.os }}"))
	}
	if g.cycle {
		// a dependency cycle over all jobs (a self loop when there is one job): the cycle message
		// echoes the job ids
		m.put("needs", ids[(idx+1)%len(ids)])
	} else if idx > 0 && r.Chance(1, 2) {
		if r.Bool() {
			m.put("needs", g.u("jobref", ids[r.Intn(idx)]))
		} else {
			m.put("needs", g.strList("jobref", ids[:idx]...))
		}
	} else if r.Chance(1, 8) {
		m.put("needs", g.u("jobref", "nonexistent"))
	}
	if r.Chance(1, 4) {
		m.put("if", g.u("expr", "${{ github.event_name == 'push' }}"))
	}
	if r.Chance(1, 4) {
		m.put("permissions", g.permissions())
	}
	if r.Chance(1, 6) {
		// reusable workflow call
		m.put("uses", g.u("reusable", r.Pick([]string{"owner/repo/.github/workflows/w.yml@v1", "./.github/workflows/other.yml"})))
		if r.Chance(2, 3) {
			m.put("with", c16M(g.u("withname", "name"), g.u("expr", "x")))
		}
		if r.Chance(1, 2) {
			if r.Chance(1, 3) {
				m.put("secrets", g.u("inherit", "inherit"))
			} else {
				m.put("secrets", c16M(g.u("withname", "token"), g.u("expr", "${{ secrets.T }}")))
			}
		}
		if r.Chance(1, 6) {
			m.put("runs-on", g.runsOn())
		}
		return m
	}
	m.put("runs-on", g.runsOn())
	if r.Chance(1, 3) || strings.HasPrefix(g.focus, "matrix") {
		st := c16M()
		st.put("matrix", g.matrix())
		if r.Chance(1, 3) {
			st.put("fail-fast", g.u("bool", "false"))
		}
		if r.Chance(1, 3) {
			st.put("max-parallel", g.u("number", "2"))
		}
		if r.Chance(1, 10) {
			st.put(g.u("key", "matrix2"), "x")
		}
		m.put("strategy", st)
	}
	if r.Chance(1, 5) {
		if r.Bool() {
			m.put("environment", g.u("expr", "prod"))
		} else {
			m.put("environment", c16M("name", g.u("expr", "prod"), "url", g.u("expr", "https://example.com")))
		}
	}
	if r.Chance(1, 5) {
		if r.Bool() {
			m.put("concurrency", g.u("expr", "grp-${{ github.ref }}"))
		} else {
			m.put("concurrency", c16M("group", g.u("expr", "grp"), "cancel-in-progress", g.u("bool", "true")))
		}
	}
	if r.Chance(1, 5) {
		m.put("outputs", c16M(g.u("inputname", "x"), g.u("expr", "${{ steps.s1.outputs.x }}")))
	}
	if r.Chance(1, 5) {
		m.put("env", g.envMap())
	}
	if r.Chance(1, 5) {
		m.put("defaults", c16M("run", c16M("shell", g.u("shell", "bash"), "working-directory", g.u("expr", "./x"))))
	}
	if r.Chance(1, 6) {
		m.put("timeout-minutes", g.u("number", "30"))
	}
	if r.Chance(1, 6) {
		m.put("continue-on-error", g.u("bool", "false"))
	}
	if r.Chance(1, 5) {
		m.put("container", g.container())
	}
	if r.Chance(1, 6) {
		m.put("services", c16M(g.u("id", "redis"), g.container()))
	}
	steps := c16Q()
	for i, n := 0, r.Range(1, 4); i < n; i++ {
		steps.e = append(steps.e, g.step(i))
	}
	if r.Chance(1, 30) {
		steps.e = nil
	}
	m.put("steps", steps)
	if r.Chance(1, 10) {
		m.put(g.u("key", "step"), "x")
	}
	return m
}

var c16Classes = []string{"cron", "docker", "action", "reusable", "glob", "shell", "number", "image", "expr", "event", "activity", "scope", "permvalue", "envname", "inputname", "inputtype", "default", "option", "bool", "key", "text", "matrixkey", "matrixval", "matrixmapkey", "matrixmapkey", "matrixval", "id", "withname", "label", "jobref", "jobid", "inherit", "cfglabel", "cfgvar"}

// c16Workflow generates one workflow. It returns the source text and the config file text ("" if the
// case runs without a config file).
func c16Workflow(r *Rand) (src string, cfg string, g *c16G) {
	g = &c16G{r: r, den: []int{6, 12, 25, 1000000}[r.Intn(4)], used: map[string]int{}}
	if r.Chance(3, 4) {
		g.focus = c16Classes[r.Intn(len(c16Classes))]
	}
	g.cycle = r.Chance(1, 10) || (g.focus == "jobid" && r.Bool())
	root := c16M()
	if r.Chance(1, 2) {
		root.put("name", g.u("text", "CI"))
	}
	if r.Chance(1, 6) {
		root.put("run-name", g.u("expr", "Run by ${{ github.actor }}"))
	}
	root.put(c16Raw("on"), g.on())
	if r.Chance(1, 4) {
		root.put("permissions", g.permissions())
	}
	if r.Chance(1, 4) {
		root.put("env", g.envMap())
	}
	if r.Chance(1, 5) {
		root.put("defaults", c16M("run", c16M("shell", g.u("shell", "bash"))))
	}
	if r.Chance(1, 5) {
		root.put("concurrency", g.u("expr", "ci-${{ github.ref }}"))
	}
	if r.Chance(1, 10) {
		root.put(g.u("key", "jobs2"), "x")
	}
	nj := r.Range(1, 3)
	ids := make([]string, nj)
	base := []string{"build", "test", "deploy", "Build", "lint_1"}
	for i := range ids {
		ids[i] = g.u("jobid", base[r.Intn(len(base))])
	}
	jobs := c16M()
	for i := range ids {
		jobs.put(ids[i], g.job(ids, i))
	}
	root.put("jobs", jobs)
	src = c16Emit(r, root)

	if r.Chance(1, 4) {
		c := c16M()
		if r.Chance(3, 4) {
			c.put("self-hosted-runner", c16M("labels", g.strList("cfglabel", "my-label", "gpu-*", "linux-[0-9]")))
		}
		if r.Chance(3, 4) {
			if r.Chance(1, 5) {
				c.put("config-variables", c16Raw("[]"))
			} else {
				c.put("config-variables", g.strList("cfgvar", "MY_VAR", "OTHER"))
			}
		}
		if len(c.k) > 0 {
			cfg = c16Emit(r, c)
		}
	}
	return src, cfg, g
}
