package main

// Well-formed project files used by C01: one channel at a time is replaced by hostile bytes while
// the others stay fixed and reference the hostile file.

const c01Workflow = `name: CI
run-name: Run ${{ github.actor }}
on:
  push:
    branches: [main, 'release/**']
    tags: ['v*']
    paths: ['src/**', '!docs/**']
  pull_request:
    types: [opened, synchronize]
    branches-ignore: [tmp]
    paths-ignore: ['*.md']
  schedule:
    - cron: '0 0 * * *'
  workflow_dispatch:
    inputs:
      level:
        description: Log level
        required: true
        default: info
        type: choice
        options: [info, debug]
      flag:
        type: boolean
      num:
        type: number
      env:
        type: environment
      text:
        type: string
  workflow_call:
    inputs:
      name:
        description: a name
        required: false
        default: foo
        type: string
    secrets:
      token:
        description: a token
        required: true
    outputs:
      out1:
        description: output
        value: ${{ jobs.build.outputs.result }}
permissions:
  contents: read
  issues: write
env:
  TOP: top
  EXPR: ${{ github.sha }}
defaults:
  run:
    shell: bash
    working-directory: ./src
concurrency:
  group: ${{ github.workflow }}-${{ github.ref }}
  cancel-in-progress: true
jobs:
  build:
    name: Build ${{ matrix.os }}
    needs: []
    runs-on: ${{ matrix.os }}
    permissions: read-all
    environment:
      name: production
      url: https://example.com/${{ github.sha }}
    concurrency: build-${{ github.ref }}
    outputs:
      result: ${{ steps.s1.outputs.value }}
    env:
      JOBENV: ${{ vars.MY_VAR }}
    defaults:
      run:
        shell: sh
        working-directory: ./x
    if: ${{ github.event_name == 'push' && !cancelled() }}
    timeout-minutes: 30
    continue-on-error: false
    strategy:
      fail-fast: false
      max-parallel: 2
      matrix:
        os: [ubuntu-latest, windows-latest]
        node: [18, 20]
        cfg:
          - {a: 1, b: [x, y]}
          - {a: 2, b: [z]}
        include:
          - os: ubuntu-latest
            extra: true
        exclude:
          - os: windows-latest
            node: 18
    container:
      image: node:20
      credentials:
        username: ${{ github.actor }}
        password: ${{ secrets.PASS }}
      env:
        CENV: 1
      ports: [80, '8080:80']
      volumes: ['/a:/b']
      options: --cpus 1
    services:
      redis:
        image: redis
        credentials:
          username: u
          password: ${{ secrets.PASS }}
        env:
          SENV: x
        ports: ['6379:6379']
        volumes: ['/c:/d']
        options: --health-cmd "redis-cli ping"
    steps:
      - uses: actions/checkout@v4
        with:
          fetch-depth: 0
      - id: s1
        name: Step ${{ matrix.node }}
        if: success() && hashFiles('**/go.sum') != ''
        run: |
          echo "value=${{ github.event.pull_request.title }}" >> "$GITHUB_OUTPUT"
          echo ${{ toJSON(matrix) }} ${{ fromJSON('{"a": [1, 2]}').a[0] }}
        shell: bash
        working-directory: ./y
        env:
          STEPENV: ${{ env.TOP }}
        continue-on-error: ${{ matrix.node == 20 }}
        timeout-minutes: ${{ fromJSON('5') }}
      - uses: ./act
        id: local
        with:
          name: ${{ steps.s1.outputs.value }}
          count: 3
      - uses: docker://alpine:3.19
        with:
          entrypoint: /bin/sh
          args: -c "echo ${{ steps.local.outputs.result }}"
      - uses: actions/github-script@v7
        with:
          script: console.log(${{ toJSON(github.event) }})
      - run: echo ${{ format('{0} {1}', github.ref, runner.os) }} ${{ contains(github.event.labels.*.name, 'bug') }}
  call:
    needs: [build]
    uses: ./.github/workflows/reusable.yml
    with:
      name: ${{ needs.build.outputs.result }}
      count: 1
      flag: true
    secrets:
      token: ${{ secrets.TOKEN }}
    permissions:
      contents: read
  call2:
    needs: build
    uses: ./.github/workflows/reusable.yml
    with:
      name: x
    secrets: inherit
    strategy:
      matrix:
        v: [1, 2]
  after:
    needs: [call]
    runs-on: [self-hosted, linux, my-label]
    steps:
      - run: echo ${{ needs.call.outputs.out1 }} ${{ vars.MY_VAR }}
      - run: |
          import os
          print(os.environ)
        shell: python
  grouped:
    runs-on:
      group: my-group
      labels: [ubuntu-latest]
    steps:
      - run: echo
`

const c01Action = `name: My action
author: me
description: Does things
inputs:
  name:
    description: a name
    required: true
  count:
    description: a count
    required: false
    default: '1'
  old:
    description: deprecated one
    deprecationMessage: do not use
outputs:
  result:
    description: the result
    value: ${{ steps.x.outputs.r }}
runs:
  using: composite
  steps:
    - id: x
      run: echo "r=1" >> "$GITHUB_OUTPUT"
      shell: bash
    - uses: actions/checkout@v4
      with:
        fetch-depth: 1
branding:
  icon: anchor
  color: blue
`

const c01ActionDocker = `name: Docker action
description: Runs in docker
inputs:
  name:
    description: a name
    required: true
runs:
  using: docker
  image: Dockerfile
  pre-entrypoint: pre.sh
  entrypoint: main.sh
  post-entrypoint: post.sh
  args: ['${{ inputs.name }}', foo]
  env:
    A: b
`

const c01ActionNode = `name: Node action
description: Runs in node
inputs:
  name:
    required: true
    description: a name
  count:
    default: '2'
    description: a count
outputs:
  result:
    description: r
runs:
  using: node20
  main: index.js
  pre: pre.js
  pre-if: always()
  post: post.js
  post-if: success()
`

const c01Reusable = `name: Reusable
on:
  workflow_call:
    inputs:
      name:
        description: a name
        required: true
        type: string
      count:
        required: false
        default: 1
        type: number
      flag:
        type: boolean
        default: false
    secrets:
      token:
        description: a token
        required: true
      other:
        required: false
    outputs:
      out1:
        description: first
        value: ${{ jobs.j.outputs.o }}
jobs:
  j:
    runs-on: ubuntu-latest
    outputs:
      o: ${{ steps.s.outputs.v }}
    steps:
      - id: s
        run: echo "v=${{ inputs.name }}" >> "$GITHUB_OUTPUT"
        env:
          T: ${{ secrets.token }}
`

const c01Config = `self-hosted-runner:
  labels:
    - my-label
    - linux-*
config-variables:
  - MY_VAR
  - OTHER
paths:
  .github/workflows/**/*.yml:
    ignore:
      - 'shellcheck reported issue.+'
      - 'property "foo" is not defined'
  '**/w.yml':
    ignore: []
`
