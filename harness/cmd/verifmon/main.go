package main

import (
	"encoding/json"
	"fmt"
	"os"
	"sort"
	"strconv"

	"github.com/fatih/color"
)

// registry: property id -> monitor entry point. Each entry point sets r.Rule / r.Level, runs its
// families and returns; main calls r.Finish().
var registry = map[string]func(*Run){}

// internal sub-commands (worker modes), dispatched before the property registry.
var subcommands = map[string]func(args []string){}

func main() {
	color.NoColor = true
	if len(os.Args) < 2 {
		usage()
	}
	if sc, ok := subcommands[os.Args[1]]; ok {
		sc(os.Args[2:])
		return
	}
	prop := os.Args[1]
	fn, ok := registry[prop]
	if !ok {
		usage()
	}
	tier := os.Getenv("VERIF_TIER")
	var replay string
	args := os.Args[2:]
	for i := 0; i < len(args); i++ {
		switch args[i] {
		case "quick", "thorough":
			tier = args[i]
		case "--replay":
			if i+1 >= len(args) {
				usage()
			}
			replay = args[i+1]
			i++
		default:
			usage()
		}
	}
	if tier != "thorough" {
		tier = "quick"
	}
	seed := uint64(1)
	if s := os.Getenv("VERIF_SEED"); s != "" {
		if v, err := strconv.ParseInt(s, 10, 64); err == nil {
			seed = uint64(v)
		} else {
			seed = hashStr(s)
		}
	}
	var rf *ReplayFile
	if replay != "" {
		b, err := os.ReadFile(replay)
		if err != nil {
			fmt.Fprintf(os.Stderr, "cannot read replay file: %v\n", err)
			os.Exit(10)
		}
		rf = &ReplayFile{}
		if err := json.Unmarshal(b, rf); err != nil {
			fmt.Fprintf(os.Stderr, "cannot parse replay file: %v\n", err)
			os.Exit(10)
		}
		if rf.Property != prop {
			fmt.Fprintf(os.Stderr, "replay file is for %s, not %s\n", rf.Property, prop)
			os.Exit(10)
		}
		seed = rf.Seed
		tier = rf.Tier
	}
	r := NewRun(prop, tier, seed)
	r.ReplayOf = rf
	fn(r)
	r.Finish()
}

func usage() {
	ids := make([]string, 0, len(registry))
	for k := range registry {
		ids = append(ids, k)
	}
	sort.Strings(ids)
	fmt.Fprintf(os.Stderr, "usage: verifmon <property> [quick|thorough] [--replay file]\nproperties: %v\n", ids)
	os.Exit(10)
}
