package main

// C12 golden model, part 1: GitHub's context-availability table, transcribed row by row from the
// documentation page "Accessing contextual information about workflow runs", section "Context
// availability" (columns: workflow key | contexts | special functions), in the order and spelling
// of the documentation. It is deliberately NOT derived from /repo/availability.go.
//
// Part 2: every placeholder position class of the workflow syntax with the table key that governs
// it ("" = the position is not in the table, so no context and no special function is allowed),
// and one clean template workflow per class. "@@" marks the scalar that receives the probe.

import "strings"

type c12Row struct {
	Key  string
	Ctx  string // as printed in the documentation, comma separated
	Func string // "None" or comma separated
}

var c12DocTable = []c12Row{
	{"run-name", "github, inputs, vars", "None"},
	{"concurrency", "github, inputs, vars", "None"},
	{"env", "github, secrets, inputs, vars", "None"},
	{"jobs.<job_id>.concurrency", "github, needs, strategy, matrix, inputs, vars", "None"},
	{"jobs.<job_id>.container", "github, needs, strategy, matrix, vars, inputs", "None"},
	{"jobs.<job_id>.container.credentials", "github, needs, strategy, matrix, env, vars, secrets, inputs", "None"},
	{"jobs.<job_id>.container.env.<env_id>", "github, needs, strategy, matrix, job, runner, env, vars, secrets, inputs", "None"},
	{"jobs.<job_id>.container.image", "github, needs, strategy, matrix, vars, inputs", "None"},
	{"jobs.<job_id>.continue-on-error", "github, needs, strategy, vars, matrix, inputs", "None"},
	{"jobs.<job_id>.defaults.run", "github, needs, strategy, matrix, env, vars, inputs", "None"},
	{"jobs.<job_id>.env", "github, needs, strategy, matrix, vars, secrets, inputs", "None"},
	{"jobs.<job_id>.environment", "github, needs, strategy, matrix, vars, inputs", "None"},
	{"jobs.<job_id>.environment.url", "github, needs, strategy, matrix, job, runner, env, vars, steps, inputs", "None"},
	{"jobs.<job_id>.if", "github, needs, vars, inputs", "always, cancelled, success, failure"},
	{"jobs.<job_id>.name", "github, needs, strategy, matrix, vars, inputs", "None"},
	{"jobs.<job_id>.outputs.<output_id>", "github, needs, strategy, matrix, job, runner, env, vars, secrets, steps, inputs", "None"},
	{"jobs.<job_id>.runs-on", "github, needs, strategy, matrix, vars, inputs", "None"},
	{"jobs.<job_id>.secrets.<secrets_id>", "github, needs, strategy, matrix, secrets, inputs, vars", "None"},
	{"jobs.<job_id>.services", "github, needs, strategy, matrix, vars, inputs", "None"},
	{"jobs.<job_id>.services.<service_id>.credentials", "github, needs, strategy, matrix, env, vars, secrets, inputs", "None"},
	{"jobs.<job_id>.services.<service_id>.env.<env_id>", "github, needs, strategy, matrix, job, runner, env, vars, secrets, inputs", "None"},
	{"jobs.<job_id>.steps.continue-on-error", "github, needs, strategy, matrix, job, runner, env, vars, secrets, steps, inputs", "hashFiles"},
	{"jobs.<job_id>.steps.env", "github, needs, strategy, matrix, job, runner, env, vars, secrets, steps, inputs", "hashFiles"},
	{"jobs.<job_id>.steps.if", "github, needs, strategy, matrix, job, runner, env, vars, steps, inputs", "always, cancelled, success, failure, hashFiles"},
	{"jobs.<job_id>.steps.name", "github, needs, strategy, matrix, job, runner, env, vars, secrets, steps, inputs", "hashFiles"},
	{"jobs.<job_id>.steps.run", "github, needs, strategy, matrix, job, runner, env, vars, secrets, steps, inputs", "hashFiles"},
	{"jobs.<job_id>.steps.timeout-minutes", "github, needs, strategy, matrix, job, runner, env, vars, secrets, steps, inputs", "hashFiles"},
	{"jobs.<job_id>.steps.with", "github, needs, strategy, matrix, job, runner, env, vars, secrets, steps, inputs", "hashFiles"},
	{"jobs.<job_id>.steps.working-directory", "github, needs, strategy, matrix, job, runner, env, vars, secrets, steps, inputs", "hashFiles"},
	{"jobs.<job_id>.strategy", "github, needs, vars, inputs", "None"},
	{"jobs.<job_id>.timeout-minutes", "github, needs, strategy, matrix, vars, inputs", "None"},
	{"jobs.<job_id>.with.<with_id>", "github, needs, strategy, matrix, inputs, vars", "None"},
	{"on.workflow_call.inputs.<inputs_id>.default", "github, inputs, vars", "None"},
	{"on.workflow_call.outputs.<output_id>.value", "github, jobs, vars, inputs", "None"},
}

// The twelve contexts of the documentation's "Context name" table and the five functions the
// property statement calls special.
var c12Contexts = []string{"env", "github", "inputs", "job", "jobs", "matrix", "needs", "runner", "secrets", "steps", "strategy", "vars"}
var c12Funcs = []string{"always", "cancelled", "failure", "success", "hashFiles"}

type c12Avail struct {
	Ctx  map[string]bool // lower case
	Func map[string]bool // lower case
}

func c12SplitList(s string) map[string]bool {
	m := map[string]bool{}
	if strings.TrimSpace(s) == "None" {
		return m
	}
	for _, p := range strings.Split(s, ",") {
		p = strings.ToLower(strings.TrimSpace(p))
		if p != "" {
			m[p] = true
		}
	}
	return m
}

// c12Golden: key -> availability. The empty key is the "not in the table" row: nothing is allowed.
func c12Golden() map[string]*c12Avail {
	g := map[string]*c12Avail{"": {Ctx: map[string]bool{}, Func: map[string]bool{}}}
	for _, r := range c12DocTable {
		g[r.Key] = &c12Avail{Ctx: c12SplitList(r.Ctx), Func: c12SplitList(r.Func)}
	}
	return g
}

// ---------------------------------------------------------------------------
// position classes

type c12Kind int

const (
	c12Str    c12Kind = iota // string template: text and any number of ${{ }} placeholders
	c12Bool                  // exactly one ${{ }} whose value must be bool
	c12Any                   // exactly one ${{ }} whose value must be number / object / array (any passes)
	c12IfBare                // `if:` condition written without ${{ }}
)

type c12Class struct {
	Name   string // YAML path class
	Key    string // governing table key, "" = none
	Kind   c12Kind
	Prefix string // literal text that always precedes the probe inside the scalar (c12Str only)
	Src    string // template, "@@" is the probed scalar
	Noise  string // regexp of diagnostics ("line:col: msg [kind]") tolerated in the neutral run: the
	// rule that validates the literal syntax of this field (glob, cron, activity type, job id) does
	// not understand placeholders. "" = the template must be completely clean.
}

const c12TailJobs = `jobs:
  build:
    runs-on: ubuntu-latest
    steps:
      - run: echo
`

// c12Top: workflow-level lines followed by a trivial job.
func c12Top(top string) string { return "on: push\n" + top + c12TailJobs }

// c12On: an `on:` section followed by a trivial job.
func c12On(on string) string { return on + c12TailJobs }

// c12Job: lines at indentation 4 inside a normal job.
func c12Job(lines string) string {
	return "on: push\njobs:\n  build:\n    runs-on: ubuntu-latest\n" + lines + "    steps:\n      - run: echo\n"
}

// c12Step: one step (lines at indentation 6, first one starting with "- ") after a plain step.
func c12Step(lines string) string {
	return "on: push\njobs:\n  build:\n    runs-on: ubuntu-latest\n    steps:\n      - run: echo\n" + lines
}

func c12Classes() []*c12Class {
	var cs []*c12Class
	add := func(name, key string, kind c12Kind, src string) *c12Class {
		c := &c12Class{Name: name, Key: key, Kind: kind, Src: src}
		cs = append(cs, c)
		return c
	}
	const none = ""

	// ---- workflow level -------------------------------------------------
	add("name", none, c12Str, c12Top("name: @@\n"))
	add("run-name", "run-name", c12Str, c12Top("run-name: @@\n"))
	for _, f := range []string{"branches", "branches-ignore", "tags", "tags-ignore", "paths", "paths-ignore"} {
		add("on.push."+f+"[*]", none, c12Str, c12On("on:\n  push:\n    "+f+":\n      - @@\n")).Noise = `\[glob\]$`
	}
	add("on.push.branches (scalar)", none, c12Str, c12On("on:\n  push:\n    branches: @@\n")).Noise = `\[glob\]$`
	add("on.pull_request.types[*]", none, c12Str, c12On("on:\n  pull_request:\n    types:\n      - @@\n")).Noise = `invalid activity type .* \[events\]$`
	add("on.pull_request.types (scalar)", none, c12Str, c12On("on:\n  pull_request:\n    types: @@\n")).Noise = `invalid activity type .* \[events\]$`
	add("on.workflow_run.workflows[*]", none, c12Str, c12On("on:\n  workflow_run:\n    workflows:\n      - @@\n"))
	add("on.schedule[*].cron", none, c12Str, c12On("on:\n  schedule:\n    - cron: @@\n")).Noise = `invalid CRON format .* \[events\]$`
	add("on.repository_dispatch.types[*]", none, c12Str, c12On("on:\n  repository_dispatch:\n    types:\n      - @@\n"))
	add("on.workflow_dispatch.inputs.<id>.description", none, c12Str, c12On("on:\n  workflow_dispatch:\n    inputs:\n      p:\n        description: @@\n        type: string\n"))
	add("on.workflow_dispatch.inputs.<id>.default", none, c12Str, c12On("on:\n  workflow_dispatch:\n    inputs:\n      p:\n        type: string\n        default: @@\n"))
	add("on.workflow_dispatch.inputs.<id>.required", none, c12Bool, c12On("on:\n  workflow_dispatch:\n    inputs:\n      p:\n        type: string\n        required: @@\n"))
	add("on.workflow_dispatch.inputs.<id>.options[*]", none, c12Str, c12On("on:\n  workflow_dispatch:\n    inputs:\n      p:\n        type: choice\n        options:\n          - one\n          - @@\n"))
	add("on.workflow_call.inputs.<id>.description", none, c12Str, c12On("on:\n  workflow_call:\n    inputs:\n      p:\n        description: @@\n        type: string\n"))
	add("on.workflow_call.inputs.<id>.default", "on.workflow_call.inputs.<inputs_id>.default", c12Str, c12On("on:\n  workflow_call:\n    inputs:\n      p:\n        type: string\n        default: @@\n"))
	add("on.workflow_call.inputs.<id>.required", none, c12Bool, c12On("on:\n  workflow_call:\n    inputs:\n      p:\n        type: string\n        required: @@\n"))
	add("on.workflow_call.secrets.<id>.description", none, c12Str, c12On("on:\n  workflow_call:\n    secrets:\n      tok:\n        description: @@\n"))
	add("on.workflow_call.secrets.<id>.required", none, c12Bool, c12On("on:\n  workflow_call:\n    secrets:\n      tok:\n        required: @@\n"))
	add("on.workflow_call.outputs.<id>.description", none, c12Str, c12On("on:\n  workflow_call:\n    outputs:\n      o:\n        description: @@\n        value: v\n"))
	add("on.workflow_call.outputs.<id>.value", "on.workflow_call.outputs.<output_id>.value", c12Str, c12On("on:\n  workflow_call:\n    outputs:\n      o:\n        value: @@\n"))
	add("env.<name>", "env", c12Str, c12Top("env:\n  FOO: @@\n"))
	add("env (expression)", "env", c12Any, c12Top("env: @@\n"))
	add("env.<name> (key)", "env", c12Str, c12Top("env:\n  @@: v\n")).Prefix = "K_"
	add("defaults.run.shell", none, c12Str, c12Top("defaults:\n  run:\n    shell: @@\n"))
	add("defaults.run.working-directory", none, c12Str, c12Top("defaults:\n  run:\n    working-directory: @@\n"))
	add("concurrency (scalar)", "concurrency", c12Str, c12Top("concurrency: @@\n"))
	add("concurrency.group", "concurrency", c12Str, c12Top("concurrency:\n  group: @@\n"))
	add("concurrency.cancel-in-progress", "concurrency", c12Bool, c12Top("concurrency:\n  group: g\n  cancel-in-progress: @@\n"))

	// ---- job level ------------------------------------------------------
	add("jobs.<id>.name", "jobs.<job_id>.name", c12Str, c12Job("    name: @@\n"))
	add("jobs.<id>.needs (scalar)", none, c12Str, "on: push\njobs:\n  first:\n    runs-on: ubuntu-latest\n    steps:\n      - run: echo\n  build:\n    needs: @@\n    runs-on: ubuntu-latest\n    steps:\n      - run: echo\n").Noise = `which does not exist in this workflow \[job-needs\]$`
	add("jobs.<id>.needs[*]", none, c12Str, "on: push\njobs:\n  first:\n    runs-on: ubuntu-latest\n    steps:\n      - run: echo\n  build:\n    needs:\n      - first\n      - @@\n    runs-on: ubuntu-latest\n    steps:\n      - run: echo\n").Noise = `which does not exist in this workflow \[job-needs\]$`
	const jobHead = "on: push\njobs:\n  build:\n"
	const jobSteps = "    steps:\n      - run: echo\n"
	add("jobs.<id>.runs-on (expression)", "jobs.<job_id>.runs-on", c12Any, jobHead+"    runs-on: @@\n"+jobSteps)
	add("jobs.<id>.runs-on (label text)", "jobs.<job_id>.runs-on", c12Str, jobHead+"    runs-on: @@\n"+jobSteps).Prefix = "pool-"
	add("jobs.<id>.runs-on[*]", "jobs.<job_id>.runs-on", c12Str, jobHead+"    runs-on:\n      - self-hosted\n      - @@\n"+jobSteps)
	add("jobs.<id>.runs-on.group", "jobs.<job_id>.runs-on", c12Str, jobHead+"    runs-on:\n      group: @@\n"+jobSteps)
	add("jobs.<id>.runs-on.labels (expression)", "jobs.<job_id>.runs-on", c12Any, jobHead+"    runs-on:\n      group: g\n      labels: @@\n"+jobSteps)
	add("jobs.<id>.runs-on.labels (label text)", "jobs.<job_id>.runs-on", c12Str, jobHead+"    runs-on:\n      labels: @@\n"+jobSteps).Prefix = "pool-"
	add("jobs.<id>.runs-on.labels[*]", "jobs.<job_id>.runs-on", c12Str, jobHead+"    runs-on:\n      labels:\n        - self-hosted\n        - @@\n"+jobSteps)
	add("jobs.<id>.environment (scalar)", "jobs.<job_id>.environment", c12Str, c12Job("    environment: @@\n"))
	add("jobs.<id>.environment.name", "jobs.<job_id>.environment", c12Str, c12Job("    environment:\n      name: @@\n"))
	add("jobs.<id>.environment.url", "jobs.<job_id>.environment.url", c12Str, c12Job("    environment:\n      name: prod\n      url: @@\n"))
	add("jobs.<id>.concurrency (scalar)", "jobs.<job_id>.concurrency", c12Str, c12Job("    concurrency: @@\n"))
	add("jobs.<id>.concurrency.group", "jobs.<job_id>.concurrency", c12Str, c12Job("    concurrency:\n      group: @@\n"))
	add("jobs.<id>.concurrency.cancel-in-progress", "jobs.<job_id>.concurrency", c12Bool, c12Job("    concurrency:\n      group: g\n      cancel-in-progress: @@\n"))
	add("jobs.<id>.outputs.<id>", "jobs.<job_id>.outputs.<output_id>", c12Str, c12Job("    outputs:\n      o: @@\n"))
	add("jobs.<id>.env.<name>", "jobs.<job_id>.env", c12Str, c12Job("    env:\n      FOO: @@\n"))
	add("jobs.<id>.env (expression)", "jobs.<job_id>.env", c12Any, c12Job("    env: @@\n"))
	add("jobs.<id>.env.<name> (key)", "jobs.<job_id>.env", c12Str, c12Job("    env:\n      @@: v\n")).Prefix = "K_"
	add("jobs.<id>.defaults.run.shell", "jobs.<job_id>.defaults.run", c12Str, c12Job("    defaults:\n      run:\n        shell: @@\n"))
	add("jobs.<id>.defaults.run.working-directory", "jobs.<job_id>.defaults.run", c12Str, c12Job("    defaults:\n      run:\n        working-directory: @@\n"))
	add("jobs.<id>.if (expression)", "jobs.<job_id>.if", c12Bool, c12Job("    if: @@\n"))
	add("jobs.<id>.if (bare)", "jobs.<job_id>.if", c12IfBare, c12Job("    if: @@\n"))
	add("jobs.<id>.strategy.fail-fast", "jobs.<job_id>.strategy", c12Bool, c12Job("    strategy:\n      fail-fast: @@\n      matrix:\n        os: [a, b]\n"))
	add("jobs.<id>.strategy.max-parallel", "jobs.<job_id>.strategy", c12Any, c12Job("    strategy:\n      max-parallel: @@\n      matrix:\n        os: [a, b]\n"))
	add("jobs.<id>.strategy.matrix (expression)", "jobs.<job_id>.strategy", c12Any, c12Job("    strategy:\n      matrix: @@\n"))
	add("jobs.<id>.strategy.matrix.<row> (expression)", "jobs.<job_id>.strategy", c12Any, c12Job("    strategy:\n      matrix:\n        os: @@\n"))
	add("jobs.<id>.strategy.matrix.<row>[*]", "jobs.<job_id>.strategy", c12Str, c12Job("    strategy:\n      matrix:\n        os:\n          - a\n          - @@\n"))
	add("jobs.<id>.strategy.matrix.<row>[*].<key>", "jobs.<job_id>.strategy", c12Str, c12Job("    strategy:\n      matrix:\n        os:\n          - name: a\n            ver: @@\n"))
	add("jobs.<id>.strategy.matrix.<row>[*][*]", "jobs.<job_id>.strategy", c12Str, c12Job("    strategy:\n      matrix:\n        os:\n          - - a\n            - @@\n"))
	add("jobs.<id>.strategy.matrix.include (expression)", "jobs.<job_id>.strategy", c12Any, c12Job("    strategy:\n      matrix:\n        os: [a, b]\n        include: @@\n"))
	add("jobs.<id>.strategy.matrix.include[*] (expression)", "jobs.<job_id>.strategy", c12Any, c12Job("    strategy:\n      matrix:\n        os: [a, b]\n        include:\n          - @@\n"))
	add("jobs.<id>.strategy.matrix.include[*].<key>", "jobs.<job_id>.strategy", c12Str, c12Job("    strategy:\n      matrix:\n        os: [a, b]\n        include:\n          - os: a\n            extra: @@\n"))
	add("jobs.<id>.strategy.matrix.include[*].<key>.<key>", "jobs.<job_id>.strategy", c12Str, c12Job("    strategy:\n      matrix:\n        os: [a, b]\n        include:\n          - os: a\n            extra:\n              deep: @@\n"))
	add("jobs.<id>.strategy.matrix.exclude (expression)", "jobs.<job_id>.strategy", c12Any, c12Job("    strategy:\n      matrix:\n        os: [a, b]\n        exclude: @@\n"))
	add("jobs.<id>.strategy.matrix.exclude[*] (expression)", "jobs.<job_id>.strategy", c12Any, c12Job("    strategy:\n      matrix:\n        os: [a, b]\n        exclude:\n          - @@\n"))
	add("jobs.<id>.strategy.matrix.exclude[*].<key>", "jobs.<job_id>.strategy", c12Str, c12Job("    strategy:\n      matrix:\n        os: [a, b]\n        exclude:\n          - os: @@\n"))
	add("jobs.<id>.continue-on-error", "jobs.<job_id>.continue-on-error", c12Bool, c12Job("    continue-on-error: @@\n"))
	add("jobs.<id>.timeout-minutes", "jobs.<job_id>.timeout-minutes", c12Any, c12Job("    timeout-minutes: @@\n"))
	// container: sub-fields without a row of their own are governed by the row of the mapping
	add("jobs.<id>.container (scalar)", "jobs.<job_id>.container", c12Str, c12Job("    container: @@\n"))
	add("jobs.<id>.container.image", "jobs.<job_id>.container.image", c12Str, c12Job("    container:\n      image: @@\n"))
	add("jobs.<id>.container.credentials.username", "jobs.<job_id>.container.credentials", c12Str, c12Job("    container:\n      image: img\n      credentials:\n        username: @@\n        password: ${{ secrets.PW }}\n"))
	add("jobs.<id>.container.credentials.password", "jobs.<job_id>.container.credentials", c12Str, c12Job("    container:\n      image: img\n      credentials:\n        username: u\n        password: @@\n")).Noise = `should be specified via secrets\. do not put password value directly \[credentials\]$`
	add("jobs.<id>.container.env.<name>", "jobs.<job_id>.container.env.<env_id>", c12Str, c12Job("    container:\n      image: img\n      env:\n        FOO: @@\n"))
	add("jobs.<id>.container.env (expression)", "jobs.<job_id>.container.env.<env_id>", c12Any, c12Job("    container:\n      image: img\n      env: @@\n"))
	add("jobs.<id>.container.env.<name> (key)", "jobs.<job_id>.container.env.<env_id>", c12Str, c12Job("    container:\n      image: img\n      env:\n        @@: v\n")).Prefix = "K_"
	add("jobs.<id>.container.ports[*]", "jobs.<job_id>.container", c12Str, c12Job("    container:\n      image: img\n      ports:\n        - @@\n"))
	add("jobs.<id>.container.volumes[*]", "jobs.<job_id>.container", c12Str, c12Job("    container:\n      image: img\n      volumes:\n        - @@\n"))
	add("jobs.<id>.container.options", "jobs.<job_id>.container", c12Str, c12Job("    container:\n      image: img\n      options: @@\n"))
	add("jobs.<id>.services (expression)", "jobs.<job_id>.services", c12Any, c12Job("    services: @@\n"))
	add("jobs.<id>.services.<id> (scalar)", "jobs.<job_id>.services", c12Str, c12Job("    services:\n      db: @@\n"))
	add("jobs.<id>.services.<id>.image", "jobs.<job_id>.services", c12Str, c12Job("    services:\n      db:\n        image: @@\n"))
	add("jobs.<id>.services.<id>.credentials.username", "jobs.<job_id>.services.<service_id>.credentials", c12Str, c12Job("    services:\n      db:\n        image: img\n        credentials:\n          username: @@\n          password: ${{ secrets.PW }}\n"))
	add("jobs.<id>.services.<id>.credentials.password", "jobs.<job_id>.services.<service_id>.credentials", c12Str, c12Job("    services:\n      db:\n        image: img\n        credentials:\n          username: u\n          password: @@\n")).Noise = `should be specified via secrets\. do not put password value directly \[credentials\]$`
	add("jobs.<id>.services.<id>.env.<name>", "jobs.<job_id>.services.<service_id>.env.<env_id>", c12Str, c12Job("    services:\n      db:\n        image: img\n        env:\n          FOO: @@\n"))
	add("jobs.<id>.services.<id>.env (expression)", "jobs.<job_id>.services.<service_id>.env.<env_id>", c12Any, c12Job("    services:\n      db:\n        image: img\n        env: @@\n"))
	add("jobs.<id>.services.<id>.env.<name> (key)", "jobs.<job_id>.services.<service_id>.env.<env_id>", c12Str, c12Job("    services:\n      db:\n        image: img\n        env:\n          @@: v\n")).Prefix = "K_"
	add("jobs.<id>.services.<id>.ports[*]", "jobs.<job_id>.services", c12Str, c12Job("    services:\n      db:\n        image: img\n        ports:\n          - @@\n"))
	add("jobs.<id>.services.<id>.volumes[*]", "jobs.<job_id>.services", c12Str, c12Job("    services:\n      db:\n        image: img\n        volumes:\n          - @@\n"))
	add("jobs.<id>.services.<id>.options", "jobs.<job_id>.services", c12Str, c12Job("    services:\n      db:\n        image: img\n        options: @@\n"))
	// reusable workflow call
	add("jobs.<id>.uses", none, c12Str, "on: push\njobs:\n  call:\n    uses: @@\n").Prefix = "owner/repo/.github/workflows/w.yml@"
	add("jobs.<id>.with.<id>", "jobs.<job_id>.with.<with_id>", c12Str, "on: push\njobs:\n  call:\n    uses: owner/repo/.github/workflows/w.yml@v1\n    with:\n      p: @@\n")
	add("jobs.<id>.secrets.<id>", "jobs.<job_id>.secrets.<secrets_id>", c12Str, "on: push\njobs:\n  call:\n    uses: owner/repo/.github/workflows/w.yml@v1\n    secrets:\n      tok: @@\n")

	const callJob = "on: push\njobs:\n  call:\n    uses: owner/repo/.github/workflows/w.yml@v1\n"
	add("jobs.<id>.name (call job)", "jobs.<job_id>.name", c12Str, callJob+"    name: @@\n")
	add("jobs.<id>.if (call job, bare)", "jobs.<job_id>.if", c12IfBare, callJob+"    if: @@\n")
	add("jobs.<id>.concurrency.group (call job)", "jobs.<job_id>.concurrency", c12Str, callJob+"    concurrency:\n      group: @@\n")
	add("jobs.<id>.strategy.matrix.<row>[*] (call job)", "jobs.<job_id>.strategy", c12Str, callJob+"    strategy:\n      matrix:\n        os:\n          - @@\n")

	// ---- step level -----------------------------------------------------
	add("steps[*].id", none, c12Str, c12Step("      - id: @@\n        run: echo\n")).Prefix = "s"
	add("steps[*].name", "jobs.<job_id>.steps.name", c12Str, c12Step("      - name: @@\n        run: echo\n"))
	add("steps[*].if (expression)", "jobs.<job_id>.steps.if", c12Bool, c12Step("      - if: @@\n        run: echo\n"))
	add("steps[*].if (bare)", "jobs.<job_id>.steps.if", c12IfBare, c12Step("      - if: @@\n        run: echo\n"))
	add("steps[*].run", "jobs.<job_id>.steps.run", c12Str, c12Step("      - run: @@\n")).Prefix = "echo "
	add("steps[*].shell", none, c12Str, c12Step("      - run: echo\n        shell: @@\n"))
	add("steps[*].working-directory", "jobs.<job_id>.steps.working-directory", c12Str, c12Step("      - run: echo\n        working-directory: @@\n"))
	add("steps[*].working-directory (before run)", "jobs.<job_id>.steps.working-directory", c12Str, c12Step("      - working-directory: @@\n        run: echo\n"))
	add("steps[*].uses", none, c12Str, c12Step("      - uses: @@\n")).Prefix = "owner/repo@"
	add("steps[*].with.<id>", "jobs.<job_id>.steps.with", c12Str, c12Step("      - uses: owner/repo@v1\n        with:\n          p: @@\n"))
	add("steps[*].with.script (github-script)", "jobs.<job_id>.steps.with", c12Str, c12Step("      - uses: actions/github-script@v7\n        with:\n          script: @@\n")).Prefix = "return "
	add("steps[*].with.entrypoint", "jobs.<job_id>.steps.with", c12Str, c12Step("      - uses: docker://alpine:3\n        with:\n          entrypoint: @@\n"))
	add("steps[*].with.args", "jobs.<job_id>.steps.with", c12Str, c12Step("      - uses: docker://alpine:3\n        with:\n          args: @@\n"))
	// args / entrypoint are parsed into fields of their own whatever kind of action the step uses (round 10)
	add("steps[*].with.entrypoint (repository action)", "jobs.<job_id>.steps.with", c12Str, c12Step("      - uses: owner/some-docker-action@v1\n        with:\n          entrypoint: @@\n"))
	add("steps[*].with.args (repository action)", "jobs.<job_id>.steps.with", c12Str, c12Step("      - uses: owner/some-docker-action@v1\n        with:\n          args: @@\n"))
	add("steps[*].with.args (action in a subdirectory)", "jobs.<job_id>.steps.with", c12Str, c12Step("      - uses: owner/repo/sub/dir@v1\n        with:\n          args: @@\n          p: q\n"))
	add("steps[*].env.<name>", "jobs.<job_id>.steps.env", c12Str, c12Step("      - run: echo\n        env:\n          FOO: @@\n"))
	add("steps[*].env (expression)", "jobs.<job_id>.steps.env", c12Any, c12Step("      - run: echo\n        env: @@\n"))
	add("steps[*].env.<name> (key)", "jobs.<job_id>.steps.env", c12Str, c12Step("      - run: echo\n        env:\n          @@: v\n")).Prefix = "K_"
	add("steps[*].env.<name> (uses step)", "jobs.<job_id>.steps.env", c12Str, c12Step("      - uses: owner/repo@v1\n        env:\n          FOO: @@\n"))
	add("steps[*].continue-on-error", "jobs.<job_id>.steps.continue-on-error", c12Bool, c12Step("      - run: echo\n        continue-on-error: @@\n"))
	add("steps[*].timeout-minutes", "jobs.<job_id>.steps.timeout-minutes", c12Any, c12Step("      - run: echo\n        timeout-minutes: @@\n"))
	return cs
}
