package main

// C16, family files-and-cli: several workflow files on disk, linted through Linter.LintFiles (one
// call returns the errors of all files and prints them) and through the real actionlint binary in
// child processes (default, -no-color, -color, -oneline, -format). The stdout of the binary is parsed
// back and compared with the []*Error of the library API for the same files.

import (
	"bytes"
	"fmt"
	"os"
	"path/filepath"

	"github.com/rhysd/actionlint"
)

type c16CLIMode struct {
	name    string
	args    []string
	oneline bool
	color   bool
	json    bool
	jsonl   bool
}

var c16CLIModes = []c16CLIMode{
	{name: "cli-default", args: nil},
	{name: "cli-no-color", args: []string{"-no-color"}},
	{name: "cli-color", args: []string{"-color"}, color: true},
	{name: "cli-oneline", args: []string{"-oneline"}, oneline: true},
	{name: "cli-oneline-color", args: []string{"-oneline", "-color"}, oneline: true, color: true},
	{name: "cli-json", args: []string{"-format", "{{json .}}"}, json: true},
	{name: "cli-jsonl", args: []string{"-format", "{{range $err := .}}{{json $err}}{{end}}"}, json: true, jsonl: true},
}

func c16CLICase(c *Case, m *c16Matcher, scratch string) {
	r := c.R
	dir := filepath.Join(scratch, fmt.Sprintf("cli-%d", c.Idx))
	if err := os.MkdirAll(dir, 0o755); err != nil {
		fmt.Fprintf(os.Stderr, "scratch mkdir failed: %v\n", err)
		os.Exit(10)
	}
	defer os.RemoveAll(dir)

	nf := r.Range(1, 4)
	names := make([]string, nf)
	abs := make([]string, nf)
	srcs := map[string]string{}
	files := map[string]string{}
	for i := 0; i < nf; i++ {
		src, _, _ := c16Workflow(r)
		if r.Chance(1, 5) {
			src = c16Hostile(r, src)
		}
		names[i] = fmt.Sprintf("w%d.yml", i)
		if r.Chance(1, 3) {
			names[i] = fmt.Sprintf("sub dir/w-%d é.yaml", i)
		}
		abs[i] = filepath.Join(dir, names[i])
		srcs[names[i]] = src
		files[names[i]] = src
	}
	writeFiles(dir, files)

	k := &c16Checker{c: c, m: m, tag: "files-and-cli"}
	defer k.flush()
	in := &c16Input{
		srcOf:  func(f string) (string, bool) { s, ok := srcs[f]; return s, ok },
		detail: map[string]interface{}{"family": k.tag, "files": files, "file_order": names},
	}

	// library: LintFiles prints the errors of all files and returns them
	var ref []*actionlint.Error
	for mi, md := range c16Modes[:3] {
		var buf bytes.Buffer
		l, err := actionlint.NewLinter(&buf, &actionlint.LinterOptions{Oneline: md.oneline, Format: md.format, WorkingDir: dir})
		if err != nil {
			c.Violation("C16:formatter-error", "NewLinter failed: "+err.Error(), in.detail)
			return
		}
		errs, err := l.LintFiles(abs, nil)
		c.Eval(1)
		if err != nil {
			c.Count("lint_returned_fatal_error", 1)
			return
		}
		if mi == 0 {
			ref = errs
			if k.checkMessages(errs, in) {
				c.Count("workflows_with_linebreak_message", 1)
				return
			}
		}
		for _, e := range errs {
			if _, ok := srcs[e.Filepath]; !ok {
				k.viol("C16:filepath-unknown", fmt.Sprintf("diagnostic carries file path %q which is none of the linted files relative to the working directory", e.Filepath), in, map[string]interface{}{"errors": c16ErrList(errs)})
				return
			}
		}
		name := "files-" + md.name
		c.Logf("--- mode %s: %d diagnostics\n%s", name, len(errs), buf.String())
		if md.format == "" {
			k.checkPretty(name, md.oneline, false, errs, buf.String(), in)
		} else {
			k.checkJSON(name, md.jsonl, errs, buf.String(), in)
		}
	}
	k.record(ref, "")
	if len(ref) > 0 {
		c.Nontrivial(fmt.Sprintf("files|%d|%d", c.Idx, len(ref)))
	}

	// the real binary: three of the modes per case
	for j := 0; j < 3; j++ {
		md := c16CLIModes[(c.Idx*3+j)%len(c16CLIModes)]
		args := append([]string{}, md.args...)
		args = append(args, "-shellcheck=", "-pyflakes=")
		args = append(args, names...)
		res := runCLI(false, dir, nil, []string{"NO_COLOR=", "TERM=xterm"}, args...)
		c.Eval(1)
		if res.Exit == -2 {
			c.Count("cli_exec_error", 1)
			return
		}
		c.Count("cli_runs", 1)
		c.Logf("--- %s exit=%d\n%s\n--- stderr\n%s", md.name, res.Exit, res.Stdout, res.Stderr)
		wantExit := 0
		if len(ref) > 0 {
			wantExit = 1
		}
		if res.Exit != wantExit || res.Stderr != "" {
			k.viol("C16:cli-exit-status:"+md.name, fmt.Sprintf("actionlint %v exited with %d (signal %q), stderr %q; the library returned %d diagnostics", args, res.Exit, res.Signal, truncate(res.Stderr, 300), len(ref)),
				in, map[string]interface{}{"args": args, "stdout": res.Stdout, "stderr": res.Stderr, "errors": c16ErrList(ref)})
			continue
		}
		if md.json {
			k.checkJSON(md.name, md.jsonl, ref, res.Stdout, in)
		} else {
			k.checkPretty(md.name, md.oneline, md.color, ref, res.Stdout, in)
		}
	}
}
