package main

// C02 — output is a deterministic function of the inputs.
// Metamorphic "repeat" monitor: the same input is linted N times with fresh Linters in one process
// (Go re-randomises every range over a map) and through the real CLI under different GOMAXPROCS /
// seeded hook delays; all results must be identical (message, position, kind, order, exit status).

import (
	"encoding/json"
	"fmt"
	"os"
	"path/filepath"
	"regexp"
	"sort"
	"strings"

	"github.com/rhysd/actionlint"
)

func init() { registry["C02"] = runC02 }

type c02Input struct {
	Files map[string]string `json:"files"` // project files; the workflow(s) to lint are under .github/workflows
	Lint  []string          `json:"lint"`  // relative paths to lint, in argument order
	Site  string            `json:"site"`
}

func c02Serialize(errs []*actionlint.Error, err error) string {
	var sb strings.Builder
	if err != nil {
		sb.WriteString("FATAL: " + err.Error() + "\n")
	}
	for _, e := range errs {
		fmt.Fprintf(&sb, "%s:%d:%d: %s [%s]\n", e.Filepath, e.Line, e.Column, e.Message, e.Kind)
	}
	return sb.String()
}

// c02LibRepeat lints the input n times; returns the distinct serialised results.
func c02LibRepeat(in *c02Input, root string, n int, tools bool) (outs []string, tie bool) {
	seen := map[string]bool{}
	var paths []string
	for _, p := range in.Lint {
		paths = append(paths, filepath.Join(root, p))
	}
	var reused *actionlint.Linter
	for i := 0; i < n; i++ {
		opts := actionlint.LinterOptions{WorkingDir: root}
		if tools {
			opts.Shellcheck = filepath.Join(binDir(), "faketool")
			opts.Pyflakes = filepath.Join(binDir(), "faketool")
		}
		// the first half of the repetitions uses a fresh Linter each, the second half repeats the
		// run on ONE Linter instance ("how many times the run is repeated")
		var l *actionlint.Linter
		var err error
		if i >= n/2 && reused != nil {
			l = reused
		} else {
			l, err = actionlint.NewLinter(discard{}, &opts)
			if i >= n/2 {
				reused = l
			}
		}
		var s string
		if err != nil {
			s = "NEWLINTER: " + err.Error()
		} else {
			var errs []*actionlint.Error
			if len(paths) == 1 {
				errs, err = l.LintFile(paths[0], nil)
			} else {
				errs, err = l.LintFiles(paths, nil)
			}
			s = c02Serialize(errs, err)
			if i == 0 {
				for k := 1; k < len(errs); k++ {
					if errs[k].Line == errs[k-1].Line && errs[k].Column == errs[k-1].Column && errs[k].Filepath == errs[k-1].Filepath {
						tie = true
					}
				}
			}
		}
		if !seen[s] {
			seen[s] = true
			outs = append(outs, s)
		}
	}
	return
}

type discard struct{}

func (discard) Write(p []byte) (int, error) { return len(p), nil }

// c02Diff describes the first difference between two outputs.
func c02Diff(a, b string) string {
	la, lb := strings.Split(a, "\n"), strings.Split(b, "\n")
	for i := 0; i < len(la) || i < len(lb); i++ {
		var x, y string
		if i < len(la) {
			x = la[i]
		}
		if i < len(lb) {
			y = lb[i]
		}
		if x != y {
			return fmt.Sprintf("first difference at output line %d:\n  run A: %s\n  run B: %s", i+1, x, y)
		}
	}
	return "identical"
}

var c02MsgNormRe = c01MsgNorm

// c02SiteOf classifies the difference between two outputs of the same input, so that one
// nondeterministic site corresponds to one signature:
//
//	attribution-across-files:<kind>:<msg>  same diagnostics, one of them attached to another file
//	attribution-across-jobs:<kind>:<msg>   same diagnostics, one of them at another position
//	order:<kind>:<msg>                     same diagnostics at the same places in another order
//	content:<kind>:<msg>                   a diagnostic whose text differs / exists in one run only
var c02LineRe = regexp.MustCompile(`^(.*?):(\d+):(\d+): (.*) \[([^\]]*)\]$`)

type c02Line struct{ file, pos, msg, kind string }

func c02Parse(out string) []c02Line {
	var ls []c02Line
	for _, l := range strings.Split(out, "\n") {
		if m := c02LineRe.FindStringSubmatch(l); m != nil {
			ls = append(ls, c02Line{m[1], m[2] + ":" + m[3], m[4], m[5]})
		} else if strings.HasPrefix(l, "[{") {
			var arr []struct {
				Message  string `json:"message"`
				Filepath string `json:"filepath"`
				Line     int    `json:"line"`
				Column   int    `json:"column"`
				Kind     string `json:"kind"`
			}
			if json.Unmarshal([]byte(l), &arr) == nil {
				for _, e := range arr {
					ls = append(ls, c02Line{e.Filepath, fmt.Sprintf("%d:%d", e.Line, e.Column), e.Message, e.Kind})
				}
			} else {
				ls = append(ls, c02Line{"", "", l, "json"})
			}
		} else if l != "" && (strings.HasPrefix(l, "FATAL") || strings.HasPrefix(l, "exit=")) {
			ls = append(ls, c02Line{"", "", l, "status"})
		}
	}
	return ls
}

func c02MsgClass(m string) string {
	m = c02MsgNormRe.ReplaceAllString(m, "_")
	if i := strings.Index(m, "_"); i > 8 {
		m = m[:i]
	}
	m = strings.TrimSpace(m)
	if len(m) > 60 {
		m = m[:60]
	}
	return m
}

func c02SiteOf(a, b string) string {
	la, lb := c02Parse(a), c02Parse(b)
	full := map[c02Line]int{}
	for _, l := range la {
		full[l]++
	}
	for _, l := range lb {
		full[l]--
	}
	pick := func(ls []c02Line) *c02Line {
		for i := range ls {
			if full[ls[i]] != 0 {
				return &ls[i]
			}
		}
		return nil
	}
	x := pick(la)
	if x == nil {
		x = pick(lb)
	}
	if x == nil {
		// same multiset of complete diagnostics: pure order difference
		for i := 0; i < len(la) && i < len(lb); i++ {
			if la[i] != lb[i] {
				return "order:" + la[i].kind + ":" + c02MsgClass(la[i].msg)
			}
		}
		return "other"
	}
	filesOf := func(ls []c02Line) (files, places map[string]bool) {
		files, places = map[string]bool{}, map[string]bool{}
		for _, l := range ls {
			if l.kind == x.kind && l.msg == x.msg {
				files[l.file] = true
				places[l.file+":"+l.pos] = true
			}
		}
		return
	}
	fa, pa := filesOf(la)
	fb, pb := filesOf(lb)
	if len(fa) > 0 && len(fb) > 0 {
		if !c02SameSet(fa, fb) {
			return "same-diagnostic-attributed-to-varying-files"
		}
		if !c02SameSet(pa, pb) {
			return "attribution-across-jobs:" + x.kind + ":" + c02MsgClass(x.msg)
		}
	}
	return "content:" + x.kind + ":" + c02MsgClass(x.msg)
}

func c02SameSet(a, b map[string]bool) bool {
	if len(a) != len(b) {
		return false
	}
	for k := range a {
		if !b[k] {
			return false
		}
	}
	return true
}

const c02WfHead = "on: push\njobs:\n"

func c02Job(id, body string) string {
	return "  " + id + ":\n    runs-on: ubuntu-latest\n    steps:\n" + body
}

// c02TieInputs builds the hand-designed tie workloads. Every entry produces >= 2 diagnostics at one
// source position or has >= 2 candidates for a "first" choice. r varies names and counts.
func c02TieInputs(r *Rand) []*c02Input {
	var ins []*c02Input
	add := func(site string, files map[string]string, lint ...string) {
		if len(lint) == 0 {
			lint = []string{".github/workflows/w.yml"}
		}
		ins = append(ins, &c02Input{Files: files, Lint: lint, Site: site})
	}
	wf := func(s string) map[string]string { return map[string]string{".github/workflows/w.yml": s} }
	n := r.Range(3, 6)

	// format(): several unused / missing placeholders
	var ph []string
	for i := 0; i < n; i++ {
		ph = append(ph, fmt.Sprintf("{%d}", i+r.Range(2, 4)))
	}
	add("format-placeholders", wf(c02WfHead+c02Job("j", "      - run: echo ${{ format('"+strings.Join(ph, " ")+"', 1) }}\n")))
	add("format-unused-args", wf(c02WfHead+c02Job("j", "      - run: echo ${{ format('{0}', 1, 2, 3, 4, 5) }}\n")))

	// workflow_dispatch inputs whose settings refer to each other (the inputs are held in a map and
	// their expressions are checked while the map is walked)
	{
		var names []string
		for i := 0; i < n+2; i++ {
			names = append(names, fmt.Sprintf("in_%c%d", 'a'+rune(r.Intn(26)), i))
		}
		var b strings.Builder
		b.WriteString("on:\n  workflow_dispatch:\n    inputs:\n")
		for i, nm := range names {
			o1, o2 := names[(i+1+r.Intn(len(names)-1))%len(names)], names[r.Intn(len(names))]
			fmt.Fprintf(&b, "      %s:\n        description: see ${{ github.event.inputs.%s }} and ${{ inputs.%s }}\n", nm, o1, o2)
			switch r.Intn(4) {
			case 0:
				fmt.Fprintf(&b, "        type: string\n        default: ${{ inputs.%s }}\n", o1)
			case 1:
				fmt.Fprintf(&b, "        type: choice\n        options: [dev, ops]\n        default: ${{ github.event.inputs.%s && 'dev' || 'ops' }}\n", o2)
			case 2:
				fmt.Fprintf(&b, "        type: boolean\n        default: false\n")
			default:
				fmt.Fprintf(&b, "        type: string\n        default: ${{ inputs.undefined_%d }}\n", i)
			}
		}
		b.WriteString("jobs:\n" + c02Job("j", "      - run: echo ${{ inputs."+names[0]+" }} ${{ github.event.inputs."+names[1]+" }} ${{ inputs.nope }}\n"))
		add("dispatch-inputs-cross-references", wf(b.String()))
	}

	// matrix rows of which one is given by an expression (such a row has no name node in the syntax
	// tree) between two rows whose errors meet at one reported position
	{
		tail := "a" + fmt.Sprint(r.Intn(9)) + ": [\"${{ "
		mid := "m" + fmt.Sprint(r.Intn(9)) + ": \"${{ fromJSON('[1]') }}\", "
		head := "z" + fmt.Sprint(r.Intn(9)) + ": [\""
		dist := len([]rune("zfoo }}\"], " + mid + tail))
		fill := []string{"日", "é"}[r.Intn(2)]
		extra := len(fill) - 1
		pad := ""
		for (dist+len(pad))%extra != 0 {
			pad += " "
		}
		line := head + strings.Repeat(fill, (dist+len(pad))/extra) + " ${{ zfoo }}\"]" + pad + ", " + mid + tail + "zbar }}\"]"
		add("matrix-rows-with-expression-row", wf("on: push\njobs:\n  j:\n    strategy:\n      matrix: {"+line+"}\n    runs-on: ubuntu-latest\n    steps:\n      - run: echo\n"))
	}
	// configuration with several invalid globs: which one the fatal error names
	add("config-several-invalid-globs", map[string]string{
		".github/workflows/w.yml": c02WfHead + c02Job("j", "      - run: echo\n"),
		".github/actionlint.yaml": "paths:\n  '[a': {ignore: []}\n  '[b': {ignore: []}\n  '[c': {ignore: []}\n  '{d': {ignore: []}\n",
	})

	// several missing required inputs of a bundled action / undefined inputs
	keys := make([]string, 0, len(actionlint.PopularActions))
	for k := range actionlint.PopularActions {
		keys = append(keys, k)
	}
	sort.Strings(keys)
	var multiReq []string
	for _, k := range keys {
		req := 0
		for _, i := range actionlint.PopularActions[k].Inputs {
			if i.Required {
				req++
			}
		}
		if req >= 2 {
			multiReq = append(multiReq, k)
		}
	}
	for k := 0; k < 3 && len(multiReq) > 0; k++ {
		a := multiReq[r.Intn(len(multiReq))]
		add("popular-action-missing-inputs", wf(c02WfHead+c02Job("j", "      - uses: "+a+"\n")))
	}
	var undef []string
	for i := 0; i < n; i++ {
		undef = append(undef, fmt.Sprintf("          undefined_%c%d: x\n", 'a'+rune(r.Intn(26)), i))
	}
	add("popular-action-undefined-inputs", wf(c02WfHead+c02Job("j", "      - uses: actions/checkout@v4\n        with:\n"+strings.Join(undef, ""))))

	// local action with several required inputs, used by several jobs
	var ain strings.Builder
	ain.WriteString("name: a\ndescription: d\ninputs:\n")
	for i := 0; i < n; i++ {
		fmt.Fprintf(&ain, "  in_%c%d:\n    description: x\n    required: true\n", 'a'+rune(r.Intn(26)), i)
	}
	ain.WriteString("runs:\n  using: node20\n  main: index.js\n")
	add("local-action-missing-inputs", map[string]string{
		".github/workflows/w.yml": c02WfHead + c02Job("j1", "      - uses: ./act\n") + c02Job("j2", "      - uses: ./act\n        with:\n          nope1: x\n          nope2: y\n          nope3: z\n"),
		"act/action.yml":          ain.String(),
	})
	// broken local action referenced from several jobs (reported once: by which job?)
	add("broken-local-action-several-jobs", map[string]string{
		".github/workflows/w.yml": c02WfHead + c02Job("j1", "      - uses: ./act\n") + c02Job("j2", "      - uses: ./act\n") + c02Job("j3", "      - uses: ./act\n") + c02Job("j4", "      - uses: ./act\n"),
		"act/action.yml":          "name: a\ninputs: [broken\n",
	})
	add("local-action-metadata-problems", map[string]string{
		".github/workflows/w.yml": c02WfHead + c02Job("j1", "      - uses: ./act\n") + c02Job("j2", "      - uses: ./act\n") + c02Job("j3", "      - uses: ./act\n"),
		"act/action.yml":          "name: ''\ninputs:\n  a:\n    required: true\nruns:\n  using: node8\n  main: nothing.js\n  steps: []\nbranding:\n  icon: nope\n  color: nope\n",
	})

	// reusable workflow: several required inputs and secrets; broken one referenced several times
	var rin strings.Builder
	rin.WriteString("on:\n  workflow_call:\n    inputs:\n")
	for i := 0; i < n; i++ {
		fmt.Fprintf(&rin, "      in_%c%d:\n        required: true\n        type: string\n", 'a'+rune(r.Intn(26)), i)
	}
	rin.WriteString("    secrets:\n")
	for i := 0; i < n; i++ {
		fmt.Fprintf(&rin, "      sec_%c%d:\n        required: true\n", 'a'+rune(r.Intn(26)), i)
	}
	rin.WriteString("jobs:\n  j:\n    runs-on: ubuntu-latest\n    steps:\n      - run: echo\n")
	add("reusable-missing-inputs-secrets", map[string]string{
		".github/workflows/w.yml":        c02WfHead + "  c1:\n    uses: ./.github/workflows/reusable.yml\n  c2:\n    uses: ./.github/workflows/reusable.yml\n    with:\n      u1: x\n      u2: y\n      u3: z\n    secrets:\n      s1: x\n      s2: y\n      s3: z\n",
		".github/workflows/reusable.yml": rin.String(),
	})
	add("broken-reusable-several-jobs", map[string]string{
		".github/workflows/w.yml":        c02WfHead + "  c1:\n    uses: ./.github/workflows/reusable.yml\n  c2:\n    uses: ./.github/workflows/reusable.yml\n  c3:\n    uses: ./.github/workflows/reusable.yml\n  c4:\n    uses: ./.github/workflows/reusable.yml\n",
		".github/workflows/reusable.yml": "on: push\njobs: {}\n",
	})

	// runner labels with multi-way conflicts
	labels := []string{"ubuntu-latest", "windows-latest", "macos-latest", "ubuntu-22.04", "windows-2022", "macos-13", "linux", "windows", "macos"}
	p := r.Perm(len(labels))
	var ls []string
	for i := 0; i < n && i < len(p); i++ {
		ls = append(ls, labels[p[i]])
	}
	add("runner-label-conflicts", wf("on: push\njobs:\n  j:\n    runs-on: ["+strings.Join(ls, ", ")+"]\n    steps:\n      - run: echo\n"))
	add("runner-label-conflicts-selfhosted", wf("on: push\njobs:\n  j:\n    runs-on: [self-hosted, linux, windows, macos, x64, arm64, "+ls[0]+"]\n    steps:\n      - run: echo\n"))
	add("runner-label-unknown", wf("on: push\njobs:\n  j:\n    runs-on: [foo-1, bar-2, baz-3]\n    steps:\n      - run: echo\n"))

	// several needs cycles, several dangling needs
	add("needs-several-cycles", wf("on: push\njobs:\n"+
		"  a:\n    needs: [b]\n    runs-on: ubuntu-latest\n    steps:\n      - run: echo\n"+
		"  b:\n    needs: [a]\n    runs-on: ubuntu-latest\n    steps:\n      - run: echo\n"+
		"  c:\n    needs: [d]\n    runs-on: ubuntu-latest\n    steps:\n      - run: echo\n"+
		"  d:\n    needs: [c]\n    runs-on: ubuntu-latest\n    steps:\n      - run: echo\n"+
		"  e:\n    needs: [e]\n    runs-on: ubuntu-latest\n    steps:\n      - run: echo\n"))
	add("needs-overlapping-cycles", wf("on: push\njobs:\n"+
		"  a:\n    needs: [b, c]\n    runs-on: ubuntu-latest\n    steps:\n      - run: echo\n"+
		"  b:\n    needs: [c, a]\n    runs-on: ubuntu-latest\n    steps:\n      - run: echo\n"+
		"  c:\n    needs: [a, b]\n    runs-on: ubuntu-latest\n    steps:\n      - run: echo\n"))
	add("needs-several-dangling", wf("on: push\njobs:\n"+
		"  a:\n    needs: [x1, x2, x3]\n    runs-on: ubuntu-latest\n    steps:\n      - run: echo\n"+
		"  b:\n    needs: [y1, y2]\n    runs-on: ubuntu-latest\n    steps:\n      - run: echo\n"))

	// several unknown permission scopes / unknown keys / invalid env names / webhook types
	add("permissions-unknown-scopes", wf("on: push\npermissions:\n  foo: read\n  bar: write\n  baz: none\n  contents: nope\njobs:\n"+c02Job("j", "      - run: echo\n")))
	add("unknown-keys", wf("on: push\nfoo: 1\nbar: 2\njobs:\n  j:\n    runs-on: ubuntu-latest\n    aaa: 1\n    bbb: 2\n    steps:\n      - run: echo\n        zzz: 1\n        yyy: 2\n"))
	add("env-names", wf("on: push\nenv:\n  'a b': 1\n  'c=d': 2\n  'e&f': 3\njobs:\n"+c02Job("j", "      - run: echo\n        env:\n          'x y': 1\n          'z=w': 2\n")))
	add("webhook-types", wf("on:\n  issues:\n    types: [foo, bar, baz]\n  pull_request:\n    types: [nope1, nope2]\n  unknown_event1:\n  unknown_event2:\njobs:\n"+c02Job("j", "      - run: echo\n")))
	add("duplicate-ids", wf("on: push\njobs:\n  j:\n    runs-on: ubuntu-latest\n    steps:\n      - id: a\n        run: echo\n      - id: A\n        run: echo\n      - id: a\n        run: echo\n"))

	// matrix duplicates and exclude mismatches
	add("matrix-duplicates-excludes", wf("on: push\njobs:\n  j:\n    strategy:\n      matrix:\n        os: [a, b, a, b, a]\n        v: [1, 1, {x: 1}, {x: 1}]\n        exclude:\n          - os: zzz\n            v: 9\n            nokey: 1\n            nokey2: 2\n          - nokey3: 1\n    runs-on: ubuntu-latest\n    steps:\n      - run: echo\n"))

	// JSON literal whose keys collide after case folding with values of different types: the merged
	// type (and hence message texts) must not depend on map iteration order
	vals := []string{"1", "true", "\\\"s\\\"", "null", "[1]", "{\\\"x\\\":1}"}
	var jsteps strings.Builder
	for t := 0; t < 4; t++ {
		// three keys that collide after folding (Merge of three types is not associative), plus
		// a larger collision set; the accesses reveal the merged type in diagnostics
		pv := r.Perm(len(vals))
		jl3 := fmt.Sprintf("{\\\"ab\\\":%s,\\\"Ab\\\":%s,\\\"AB\\\":%s,\\\"other\\\":1}", vals[pv[0]], vals[pv[1]], vals[pv[2]])
		jsteps.WriteString("      - run: \"echo ${{ fromJSON('" + jl3 + "').ab.nope }} ${{ fromJSON('" + jl3 + "').AB[0] }} ${{ fromJSON('" + jl3 + "').zz }}\"\n")
	}
	add("fromjson-colliding-keys", wf(c02WfHead+c02Job("j", "      - run: \"echo ${{ fromJSON('{\\\"ab\\\":1,\\\"Ab\\\":true,\\\"AB\\\":\\\"s\\\"}').ab.nope }}\"\n"+jsteps.String())))
	// several untrusted inputs in one expression; object filters
	add("untrusted-several", wf(c02WfHead+c02Job("j", "      - run: echo ${{ github.event.issue.title || github.event.issue.body || github.head_ref || github.event.pull_request.title }}\n      - run: echo ${{ toJSON(github.event.*.body) }} ${{ github.event.commits.*.message }} ${{ github.event.pages.*.page_name }}\n")))
	add("undefined-props-several", wf(c02WfHead+c02Job("j", "      - run: echo ${{ github.nope1 }} ${{ github.nope2 }}\n      - run: echo ${{ github.nope3 && runner.nope4 && job.nope5 }}\n      - run: echo ${{ unknown1() || unknown2(unknown3) }}\n")))
	add("config-variables", map[string]string{
		".github/workflows/w.yml": c02WfHead + c02Job("j", "      - run: echo ${{ vars.X1 }} ${{ vars.X2 }}\n      - run: echo ${{ vars.X3 || vars.X4 }}\n"),
		".github/actionlint.yaml": "config-variables: [B, A, D, C, F, E]\nself-hosted-runner:\n  labels: [l3, l1, l2]\n",
	})
	add("deprecated-commands", wf(c02WfHead+c02Job("j", "      - run: |\n          echo '::set-output name=a::b'\n          echo '::save-state name=a::b'\n          echo '::set-env name=a::b'\n          echo '::add-path::b'\n")))
	add("workflow-call-problems", wf("on:\n  workflow_call:\n    inputs:\n      a:\n        type: nope\n      b:\n        type: string\n        default: 1\n      c:\n        type: number\n        default: x\n    secrets:\n      s1:\n        foo: bar\n    outputs:\n      o1:\n        description: x\n      o2:\n        description: y\njobs:\n"+c02Job("j", "      - run: echo ${{ inputs.zz1 }} ${{ inputs.zz2 }}\n")))
	add("shell-names", wf("on: push\ndefaults:\n  run:\n    shell: nope1\njobs:\n  j:\n    runs-on: ubuntu-latest\n    defaults:\n      run:\n        shell: nope2\n    steps:\n      - run: echo\n        shell: nope3\n      - run: echo\n        shell: powershell\n"))
	add("credentials-and-images", wf("on: push\njobs:\n  j:\n    runs-on: ubuntu-latest\n    container:\n      image: ''\n      credentials:\n        username: u\n        password: hardcoded\n    services:\n      s1:\n        image: ''\n        credentials:\n          username: u\n          password: hardcoded\n      s2:\n        image: x\n        credentials:\n          username: u\n          password: hardcoded2\n    steps:\n      - run: echo\n"))
	add("if-conditions", wf("on: push\njobs:\n  j:\n    runs-on: ubuntu-latest\n    if: ${{ true }} && ${{ false }}\n    steps:\n      - run: echo\n        if: ${{ a }} || ${{ b }}\n      - run: echo\n        if: foo ${{ c }}\n"))
	add("globs", wf("on:\n  push:\n    branches: ['a b', '[z-a]', 'x**+?', '!']\n    paths: [' a', 'b ', '[]', '\\']\n    tags: ['~', '^', ':']\njobs:\n"+c02Job("j", "      - run: echo\n")))
	add("services-and-needs-outputs", wf("on: push\njobs:\n  a:\n    runs-on: ubuntu-latest\n    outputs:\n      o1: x\n    steps:\n      - run: echo\n  b:\n    needs: [a]\n    runs-on: ubuntu-latest\n    steps:\n      - run: echo ${{ needs.a.outputs.n1 }} ${{ needs.a.outputs.n2 }} ${{ needs.zz.result }}\n      - run: echo ${{ steps.q1.outputs.x }} ${{ steps.q2.outputs.y }}\n"))
	return ins
}

func c02MultiFileProject(r *Rand) *c02Input {
	files := map[string]string{
		"act/action.yml":                 "name: a\ninputs: [broken\n",
		".github/workflows/reusable.yml": "on: push\njobs: {}\n",
		".github/actionlint.yaml":        "config-variables: [A]\n",
	}
	var lint []string
	nf := r.Range(3, 8)
	for i := 0; i < nf; i++ {
		name := fmt.Sprintf(".github/workflows/f%d.yml", i)
		body := c02WfHead
		body += c02Job("j1", "      - uses: ./act\n      - run: echo ${{ vars.NOPE }} ${{ github.nope }}\n")
		body += "  c1:\n    uses: ./.github/workflows/reusable.yml\n"
		body += "  l:\n    runs-on: [foo-label, ubuntu-latest, windows-latest]\n    steps:\n      - run: echo\n"
		files[name] = body
		lint = append(lint, name)
	}
	return &c02Input{Files: files, Lint: lint, Site: "multi-file-shared-broken-callees"}
}

// c02LabelSoup spreads 3-7 runner labels over an inline flow list, a block list and matrix-provided
// values (rows and include entries written below or above runs-on at other columns), so that
// "first / smallest position" choices are made between positions whose line and column order differ.
func c02LabelSoup(r *Rand) *c02Input {
	pool := []string{"ubuntu-latest", "ubuntu-22.04", "ubuntu-24.04", "linux", "x64", "windows-latest", "windows-2022", "windows", "macos-latest", "macos-13", "macos", "arm64", "self-hosted"}
	p := r.Perm(len(pool))
	n := r.Range(3, 7)
	var direct, viaMatrix, viaInclude []string
	for i := 0; i < n; i++ {
		switch r.Intn(4) {
		case 0:
			viaMatrix = append(viaMatrix, pool[p[i]])
		case 1:
			viaInclude = append(viaInclude, pool[p[i]])
		default:
			direct = append(direct, pool[p[i]])
		}
	}
	ind := strings.Repeat(" ", r.Range(0, 6))
	var labels []string
	labels = append(labels, direct...)
	if len(viaMatrix)+len(viaInclude) > 0 {
		k := r.Intn(len(labels) + 1)
		labels = append(labels[:k:k], append([]string{"${{ matrix.os }}"}, labels[k:]...)...)
	}
	var ro string
	if r.Bool() {
		q := make([]string, len(labels))
		for i, l := range labels {
			q[i] = strconvQuote(l)
		}
		ro = "    runs-on: " + ind + "[" + strings.Join(q, ", ") + "]\n"
	} else {
		ro = "    runs-on:\n"
		for _, l := range labels {
			ro += "      " + strings.Repeat(" ", r.Intn(3)*2) + "- " + strconvQuote(l) + "\n"
		}
	}
	strat := ""
	if len(viaMatrix)+len(viaInclude) > 0 {
		strat = "    strategy:\n      matrix:\n"
		if len(viaMatrix) > 0 {
			strat += "        os: [" + strings.Join(viaMatrix, ", ") + "]\n"
		} else {
			strat += "        other: [1]\n"
		}
		if len(viaInclude) > 0 {
			strat += "        include:\n"
			for _, l := range viaInclude {
				strat += "          - os: " + l + "\n"
			}
		}
	}
	body := ro + strat
	if r.Bool() {
		body = strat + ro
	}
	return &c02Input{Files: map[string]string{".github/workflows/w.yml": "on: push\njobs:\n  test:\n" + body + "    steps:\n      - run: echo\n"}, Lint: []string{".github/workflows/w.yml"}, Site: "runner-label-soup"}
}

func strconvQuote(s string) string {
	if strings.ContainsAny(s, "${") {
		return "\"" + s + "\""
	}
	return s
}

// c02InterfaceProject: WELL-FORMED-LOOKING callees with rich interfaces (required x default x type
// combinations, including empty-string and null defaults) and callers that omit or pass inputs,
// linted together with the callee files, so that a result depending on which derivation of the
// callee's interface (file or AST) reaches the shared cache first shows up as nondeterminism.
func c02InterfaceProject(r *Rand) *c02Input {
	files := map[string]string{}
	var lint []string
	reqs := []string{"", "        required: true\n", "        required: false\n"}
	defs := []string{"", "        default: ''\n", "        default: \"\"\n", "        default: x\n", "        default: 0\n", "        default: false\n", "        default: null\n", "        default: ~\n", "        default:\n"}
	types := []string{"string", "number", "boolean"}
	var callee strings.Builder
	callee.WriteString("on:\n  workflow_call:\n    inputs:\n")
	ni := r.Range(3, 8)
	var names []string
	for i := 0; i < ni; i++ {
		nm := fmt.Sprintf("in%d", i)
		names = append(names, nm)
		callee.WriteString("      " + nm + ":\n        type: " + r.Pick(types) + "\n" + r.Pick(reqs) + r.Pick(defs))
	}
	callee.WriteString("    secrets:\n")
	ns := r.Range(1, 4)
	for i := 0; i < ns; i++ {
		callee.WriteString(fmt.Sprintf("      sec%d:\n", i) + r.Pick([]string{"        required: true\n", "        required: false\n", "        description: d\n"}))
	}
	callee.WriteString("    outputs:\n      out0:\n        value: x\njobs:\n  j:\n    runs-on: ubuntu-latest\n    steps:\n      - run: echo\n")
	files[".github/workflows/callee.yml"] = callee.String()
	// local action with required x default combinations
	var act strings.Builder
	act.WriteString("name: a\ndescription: d\ninputs:\n")
	for i := 0; i < r.Range(2, 6); i++ {
		act.WriteString(fmt.Sprintf("  a%d:\n    description: x\n", i) + r.Pick([]string{"", "    required: true\n", "    required: false\n"}) + r.Pick([]string{"", "    default: ''\n", "    default: x\n", "    default: null\n", "    default:\n"}))
	}
	act.WriteString("runs:\n  using: node20\n  main: index.js\n")
	files["act/action.yml"] = act.String()
	files["act/index.js"] = "\n"
	nf := r.Range(2, 6)
	for i := 0; i < nf; i++ {
		name := fmt.Sprintf(".github/workflows/caller%d.yml", i)
		var with strings.Builder
		pass := r.Intn(len(names) + 1)
		if pass > 0 {
			with.WriteString("    with:\n")
			for _, k := range r.Perm(len(names))[:pass] {
				with.WriteString("      " + names[k] + ": " + r.Pick([]string{"x", "1", "true", "''", "${{ 'a' }}-${{ 'b' }}", "${{ 1 }}${{ 2 }}", "v${{ 1 }}.${{ true }}.${{ 'x' }}", "${{ true }}", "${{ 1 }}", "${{ 'a' }}", "${{ fromJSON('null') }}"}) + "\n")
			}
		}
		files[name] = "on: push\njobs:\n  c:\n    uses: ./.github/workflows/callee.yml\n" + with.String() + r.Pick([]string{"", "    secrets: inherit\n", "    secrets:\n      sec0: x\n"}) +
			"  a:\n    runs-on: ubuntu-latest\n    steps:\n      - uses: ./act\n"
		lint = append(lint, name)
	}
	// the callee goes first, last or in the middle
	k := r.Intn(len(lint) + 1)
	lint = append(lint[:k:k], append([]string{".github/workflows/callee.yml"}, lint[k:]...)...)
	return &c02Input{Files: files, Lint: lint, Site: "multi-file-interface-derivations"}
}

// c02MultiRepoProject: files of two or three repositories with different configurations in one
// invocation: which configuration a file is checked with must not depend on scheduling.
func c02MultiRepoProject(r *Rand) *c02Input {
	files := map[string]string{}
	var lint []string
	nrepo := r.Range(2, 3)
	for k := 0; k < nrepo; k++ {
		d := fmt.Sprintf("repo%c", 'A'+k)
		files[d+"/.git/HEAD"] = "ref: refs/heads/main\n"
		if k != 1 { // the second repository has no configuration at all
			files[d+"/.github/actionlint.yaml"] = fmt.Sprintf("self-hosted-runner:\n  labels: [box-%d]\nconfig-variables: [VAR_%d]\npaths:\n  .github/workflows/f0.yml:\n    ignore: ['property \"nope\" is not defined']\n", k, k)
		}
		nf := r.Range(2, 3)
		for i := 0; i < nf; i++ {
			name := fmt.Sprintf("%s/.github/workflows/f%d.yml", d, i)
			files[name] = fmt.Sprintf("on: push\njobs:\n  j:\n    runs-on: [self-hosted, box-%d]\n    steps:\n      - run: echo ${{ vars.VAR_%d }} ${{ github.nope }}\n", k, k)
			lint = append(lint, name)
		}
	}
	p := r.Perm(len(lint))
	out := make([]string, len(lint))
	for i, q := range p {
		out[i] = lint[q]
	}
	return &c02Input{Files: files, Lint: out, Site: "multi-repo-configs"}
}

func c02CheckLib(c *Case, in *c02Input, reps int, tag string) {
	c02CheckLibOpts(c, in, reps, tag, false)
}

func c02CheckLibOpts(c *Case, in *c02Input, reps int, tag string, tools bool) {
	root := mkScratch("c02")
	defer os.RemoveAll(root)
	os.MkdirAll(filepath.Join(root, ".git"), 0o755)
	writeFiles(root, in.Files)
	outs, tie := c02LibRepeat(in, root, reps, tools)
	c.Eval(reps)
	c.Count("inputs", 1)
	if tie {
		c.Count("inputs_with_same_position_tie", 1)
		c.SetAdd("tie_sites", in.Site)
		c.Nontrivial(tag + "|" + in.Site + "|" + outs[0])
	} else if strings.Count(outs[0], "\n") >= 2 {
		c.Nontrivial(tag + "|" + in.Site + "|" + outs[0])
	}
	if len(outs) > 1 {
		for i := range outs {
			outs[i] = strings.ReplaceAll(outs[i], root, "<root>")
		}
		site := c02SiteOf(outs[0], outs[1])
		if strings.HasPrefix(in.Site, "false-tie:") && strings.HasPrefix(site, "order:") {
			// the holder whose entries are reported in varying order names the defect more
			// narrowly than the message class
			site = "order:entries-of-" + strings.TrimPrefix(in.Site, "false-tie:") + "-at-one-reported-position"
		}
		c.Violation("C02:"+site, fmt.Sprintf("%d distinct outputs over %d repetitions of the same input (%s); %s", len(outs), reps, in.Site, c02Diff(outs[0], outs[1])),
			map[string]interface{}{"input": in, "output_a": outs[0], "output_b": outs[1], "distinct_outputs": len(outs)})
	}
	if c.Idx == 0 {
		c.Sample(map[string]interface{}{"site": in.Site, "lint": in.Lint, "files": in.Files, "output": truncate(strings.ReplaceAll(outs[0], root, "<root>"), 1500)})
	}
}

// c02CheckCLI runs the real CLI under GOMAXPROCS / delay variations and compares stdout + status.
func c02CheckCLI(c *Case, in *c02Input, reps int, extraArgs []string) {
	c02CheckCLIBin(c, in, reps, extraArgs, "")
}

func c02CheckCLIBin(c *Case, in *c02Input, reps int, extraArgs []string, binName string) {
	root := mkScratch("c02cli")
	defer os.RemoveAll(root)
	os.MkdirAll(filepath.Join(root, ".git"), 0o755)
	writeFiles(root, in.Files)
	args := append([]string{"-no-color", "-shellcheck=", "-pyflakes="}, extraArgs...)
	args = append(args, in.Lint...)
	seen := map[string]bool{}
	var outs []string
	procs := []string{"1", "2", "4", "16"}
	for i := 0; i < reps; i++ {
		env := []string{"GOMAXPROCS=" + procs[i%len(procs)]}
		if i%2 == 1 {
			env = append(env, fmt.Sprintf("ACTIONLINT_VERIF_DELAY=%d:%d:check.", c.R.Intn(1<<30), 3000))
		}
		var res CLIResult
		if binName != "" {
			res = runCLIBin(binName, root, nil, env, args...) // compared only with itself
		} else {
			res = runCLI(i%5 == 4, root, nil, env, args...)
		}
		s := fmt.Sprintf("exit=%d\n%s\nstderr:%s", res.Exit, res.Stdout, res.Stderr)
		if strings.Contains(res.Stderr, "WARNING: DATA RACE") {
			// decided by C10; compare stdout only
			s = fmt.Sprintf("exit=%d\n%s", res.Exit, res.Stdout)
			c.Count("race_reports_seen_decided_by_C10", 1)
			continue
		}
		if !seen[s] {
			seen[s] = true
			outs = append(outs, s)
		}
	}
	c.Eval(reps)
	c.Count("cli_inputs", 1)
	if strings.Count(outs[0], "\n") >= 3 {
		c.Nontrivial("cli|" + in.Site + "|" + outs[0])
	}
	if len(outs) > 1 {
		site := c02SiteOf(outs[0], outs[1])
		c.Violation("C02:cli:"+site, fmt.Sprintf("%d distinct CLI outputs over %d runs (GOMAXPROCS 1/2/4/16, seeded start delays) of the same files (%s); %s", len(outs), reps, in.Site, c02Diff(outs[0], outs[1])),
			map[string]interface{}{"input": in, "args": args, "output_a": outs[0], "output_b": outs[1]})
	}
}

func runC02(r *Run) {
	r.Rule = "each input is linted N times (quick 30, thorough 200) with fresh Linters in one process and the serialised diagnostics (file, line, column, message, kind, order, fatal error) must be identical; multi-file projects additionally through the real CLI under GOMAXPROCS 1/2/4/16 and seeded start delays (stdout bytes + exit status). Inputs: hand-designed tie sites (>=2 diagnostics at one position or >=2 candidates for a 'first' choice), fuzzed workflows from the C01 generators, the repository's err/examples/projects corpus. Non-trivial = distinct input whose output has a same-position tie or >= 2 diagnostics."
	r.Assume("map iteration order is re-randomised per range statement within one process (Go runtime behaviour), so in-process repetition exercises order dependence")
	reps := r.Q(30, 200)
	var fams []*Family

	// tie sites: several parameterisations
	nTie := r.Q(4, 40)
	probe := c02TieInputs(NewRand(1, "probe"))
	fams = append(fams, &Family{Name: "tie-sites", N: nTie * len(probe), Do: func(c *Case) {
		ins := c02TieInputs(NewRand(c.Seed, "C02", "tie-param").Sub(c.Idx / len(probe)))
		in := ins[c.Idx%len(probe)]
		c02CheckLib(c, in, reps, "tie")
	}})
	// external tools: steps alternating sh / bash / python whose (fake) tool output names the shell
	// it was started for; diagnostics must not depend on scheduling of the process pool
	fams = append(fams, &Family{Name: "non-ascii-false-ties", N: r.Q(6, 60) * len(c02FlowSites), Do: func(c *Case) {
		site := c02FlowSites[c.Idx%len(c02FlowSites)]
		c02CheckLib(c, c02FalseTieInput(c.R, site), reps, "false-tie")
	}})
	fams = append(fams, &Family{Name: "tools-mixed-shells", N: r.Q(8, 80), Par: 2, Do: func(c *Case) {
		var b strings.Builder
		b.WriteString("on: push\njobs:\n  j:\n    runs-on: ubuntu-latest\n    steps:\n")
		n := c.R.Range(24, 72)
		for i := 0; i < n; i++ {
			sh := []string{"sh", "", "bash", "python", "sh -e {0}"}[c.R.Intn(5)]
			fmt.Fprintf(&b, "      - run: echo step-%d FT:issues=%d,slow=%d\n", i, c.R.Range(1, 2), c.R.Intn(6))
			if sh != "" {
				b.WriteString("        shell: " + sh + "\n")
			}
		}
		in := &c02Input{Files: map[string]string{".github/workflows/w.yml": b.String()}, Lint: []string{".github/workflows/w.yml"}, Site: "tools-mixed-shells"}
		c02CheckLibOpts(c, in, r.Q(6, 20), "tools", true)
	}})
	// runner labels spread over flow lists, block lists and matrix values at varying positions
	fams = append(fams, &Family{Name: "runner-label-soup", N: r.Q(300, 6000), Do: func(c *Case) {
		c02CheckLib(c, c02LabelSoup(c.R), reps, "soup")
	}})
	// callers + callee linted together: the callee's interface reaches the cache from its file or its AST
	fams = append(fams, &Family{Name: "multi-file-interfaces", N: r.Q(40, 600), Par: 4, Do: func(c *Case) {
		c02CheckLib(c, c02InterfaceProject(c.R), reps*2, "mfi")
	}})
	fams = append(fams, &Family{Name: "multi-repo-lib", N: r.Q(20, 300), Par: 4, Do: func(c *Case) {
		c02CheckLib(c, c02MultiRepoProject(c.R), reps*2, "mr")
	}})
	// multi-file projects with shared broken callees (library, LintFiles)
	fams = append(fams, &Family{Name: "multi-file-lib", N: r.Q(6, 60), Par: 4, Do: func(c *Case) {
		c02CheckLib(c, c02MultiFileProject(c.R), reps, "mf")
	}})
	// fuzzed inputs from the C01 generators
	c01fams := map[string]*c01Family{}
	for _, f := range c01Families("quick") {
		c01fams[f.Name] = f
	}
	for _, fn := range []string{"bytes-mutation", "expr-fuzz", "hostile-strings"} {
		f := c01fams[fn]
		fams = append(fams, &Family{Name: "fuzzed-" + fn, N: r.Q(600, 20000), Do: func(c *Case) {
			cs := f.Gen(c.R, c.Idx)
			if cs.Skip {
				return
			}
			for _, v := range cs.Files { // keep repeated cases cheap: bounded input size
				if len(v) > 6000 {
					c.Count("fuzzed_inputs_skipped_as_too_large", 1)
					return
				}
			}
			c02CheckLib(c, &c02Input{Files: cs.Files, Lint: []string{c01PathWorkflow}, Site: "fuzzed:" + fn}, r.Q(10, 40), "fz")
		}})
	}
	// corpus, file by file
	var corpus []string
	for _, g := range []string{"testdata/err/*.yaml", "testdata/examples/*.yaml", "testdata/ok/*.yaml"} {
		ms, _ := filepath.Glob(filepath.Join(repoDir(), g))
		sort.Strings(ms)
		corpus = append(corpus, ms...)
	}
	fams = append(fams, &Family{Name: "corpus-files", N: len(corpus), Do: func(c *Case) {
		b, err := os.ReadFile(corpus[c.Idx])
		if err != nil {
			return
		}
		c02CheckLib(c, &c02Input{Files: map[string]string{".github/workflows/w.yml": string(b)}, Lint: []string{".github/workflows/w.yml"}, Site: "corpus:" + filepath.Base(filepath.Dir(corpus[c.Idx]))}, reps, "corpus")
	}})
	// corpus projects and generated multi-file projects through the CLI
	projs, _ := filepath.Glob(filepath.Join(repoDir(), "testdata/projects/*"))
	sort.Strings(projs)
	var projDirs []string
	for _, p := range projs {
		if st, err := os.Stat(p); err == nil && st.IsDir() {
			projDirs = append(projDirs, p)
		}
	}
	fams = append(fams, &Family{Name: "cli-corpus-projects", N: len(projDirs), Par: 4, Do: func(c *Case) {
		in := &c02Input{Files: map[string]string{}, Site: "project:" + filepath.Base(projDirs[c.Idx])}
		filepath.Walk(projDirs[c.Idx], func(p string, info os.FileInfo, err error) error {
			if err != nil || info.IsDir() {
				return nil
			}
			rel, _ := filepath.Rel(projDirs[c.Idx], p)
			b, _ := os.ReadFile(p)
			in.Files[rel] = string(b)
			if strings.Contains(rel, "workflows/") && (strings.HasSuffix(rel, ".yaml") || strings.HasSuffix(rel, ".yml")) {
				in.Lint = append(in.Lint, rel)
			}
			return nil
		})
		sort.Strings(in.Lint)
		if len(in.Lint) == 0 {
			return
		}
		c02CheckCLI(c, in, r.Q(12, 60), nil)
	}})
	if _, err := os.Stat(filepath.Join(binDir(), "actionlint-go126")); err == nil && r.Thorough() {
		// the same projects with the CLI built by the second toolchain (go1.26.8: other map
		// implementation); each toolchain is compared only with itself
		fams = append(fams, &Family{Name: "cli-corpus-projects-go126", N: len(projDirs), Par: 4, Do: func(c *Case) {
			in := &c02Input{Files: map[string]string{}, Site: "project-go126:" + filepath.Base(projDirs[c.Idx])}
			filepath.Walk(projDirs[c.Idx], func(p string, info os.FileInfo, err error) error {
				if err != nil || info.IsDir() {
					return nil
				}
				rel, _ := filepath.Rel(projDirs[c.Idx], p)
				b, _ := os.ReadFile(p)
				in.Files[rel] = string(b)
				if strings.Contains(rel, "workflows/") && (strings.HasSuffix(rel, ".yaml") || strings.HasSuffix(rel, ".yml")) {
					in.Lint = append(in.Lint, rel)
				}
				return nil
			})
			sort.Strings(in.Lint)
			if len(in.Lint) > 0 {
				c02CheckCLIBin(c, in, 60, nil, "actionlint-go126")
			}
		}})
		fams = append(fams, &Family{Name: "cli-tie-sites-go126", N: len(probe), Par: 4, Do: func(c *Case) {
			ins := c02TieInputs(NewRand(c.Seed, "C02", "tie-param-go126"))
			c02CheckCLIBin(c, ins[c.Idx], 40, nil, "actionlint-go126")
		}})
		r.Extra("second_toolchain", "go1.26.8")
	}
	fams = append(fams, &Family{Name: "cli-multi-file", N: r.Q(18, 120), Par: 4, Do: func(c *Case) {
		in := c02MultiFileProject(c.R)
		if c.Idx%3 == 1 {
			in = c02InterfaceProject(c.R)
		} else if c.Idx%3 == 2 {
			in = c02MultiRepoProject(c.R)
		}
		var extra []string
		switch c.Idx % 3 {
		case 1:
			extra = []string{"-oneline"}
		case 2:
			extra = []string{"-format", "{{json .}}"}
		}
		c02CheckCLI(c, in, r.Q(16, 80), extra)
	}})
	r.RunFamilies(fams)
	if r.ReplayOf == nil && r.SetLen("tie_sites") < 8 {
		r.Inconclusive(fmt.Sprintf("only %d tie sites produced a same-position tie", r.SetLen("tie_sites")))
	}
}

// ---------------------------------------------------------------------------
// false position ties: a node's column comes from the YAML parser (characters) while the offset of
// an expression inside a scalar is added in bytes, so non-ASCII text before a placeholder moves its
// report to the right - onto the column of a diagnostic of a LATER entry of the same flow mapping.
// Entries of such mappings are often held in Go maps; the order of two diagnostics at one position
// then must still not depend on the iteration order.

type c02FlowSite struct {
	Name      string
	Before    string   // lines before the mapping line
	Lead      string   // text of the mapping line up to '{'
	After     string   // lines after the mapping line
	Keys      []string // admissible entry names (nil: free names)
	Pre, Post string   // around each quoted value
	Close     string   // text between the closing '}' of the mapping and the end of the line
	Files     map[string]string
}

var c02FlowSites = []c02FlowSite{
	{Name: "workflow-env", Before: "on: push\n", Lead: "env: ", After: "jobs:\n  j:\n    runs-on: ubuntu-latest\n    steps:\n      - run: echo\n"},
	{Name: "job-env", Before: "on: push\njobs:\n  j:\n    runs-on: ubuntu-latest\n", Lead: "    env: ", After: "    steps:\n      - run: echo\n"},
	{Name: "step-env", Before: "on: push\njobs:\n  j:\n    runs-on: ubuntu-latest\n    steps:\n      - run: echo\n", Lead: "        env: "},
	{Name: "container-env", Before: "on: push\njobs:\n  j:\n    runs-on: ubuntu-latest\n    container:\n      image: alpine\n", Lead: "      env: ", After: "    steps:\n      - run: echo\n"},
	{Name: "service-env", Before: "on: push\njobs:\n  j:\n    runs-on: ubuntu-latest\n    services:\n      db:\n        image: alpine\n", Lead: "        env: ", After: "    steps:\n      - run: echo\n"},
	{Name: "services", Before: "on: push\njobs:\n  j:\n    runs-on: ubuntu-latest\n", Lead: "    services: ", After: "    steps:\n      - run: echo\n", Pre: "{image: ", Post: "}"},
	{Name: "step-with-popular-action", Before: "on: push\njobs:\n  j:\n    runs-on: ubuntu-latest\n    steps:\n      - uses: actions/checkout@v4\n", Lead: "        with: ", Keys: []string{"ref", "path", "token", "repository", "ssh-key", "fetch-depth", "submodules"}},
	{Name: "step-with-local-action", Before: "on: push\njobs:\n  j:\n    runs-on: ubuntu-latest\n    steps:\n      - uses: ./act\n", Lead: "        with: ", Keys: []string{"a1", "a2", "a3", "a4", "a5", "a6"},
		Files: map[string]string{"act/action.yml": "name: a\ndescription: d\ninputs:\n  a1:\n    description: x\n  a2:\n    description: x\n  a3:\n    description: x\n  a4:\n    description: x\n  a5:\n    description: x\n  a6:\n    description: x\nruns:\n  using: node20\n  main: index.js\n", "act/index.js": "\n"}},
	{Name: "call-with", Before: "on: push\njobs:\n  c:\n    uses: ./.github/workflows/r.yml\n", Lead: "    with: ", Keys: []string{"a1", "a2", "a3", "a4", "a5", "a6"},
		Files: map[string]string{".github/workflows/r.yml": "on:\n  workflow_call:\n    inputs:\n      a1:\n        type: string\n      a2:\n        type: string\n      a3:\n        type: string\n      a4:\n        type: string\n      a5:\n        type: string\n      a6:\n        type: string\njobs:\n  j:\n    runs-on: ubuntu-latest\n    steps:\n      - run: echo\n"}},
	{Name: "call-secrets", Before: "on: push\njobs:\n  c:\n    uses: ./.github/workflows/r.yml\n", Lead: "    secrets: ", Keys: []string{"a1", "a2", "a3", "a4", "a5", "a6"},
		Files: map[string]string{".github/workflows/r.yml": "on:\n  workflow_call:\n    secrets:\n      a1:\n      a2:\n      a3:\n      a4:\n      a5:\n      a6:\njobs:\n  j:\n    runs-on: ubuntu-latest\n    steps:\n      - run: echo\n"}},
	{Name: "job-outputs", Before: "on: push\njobs:\n  j:\n    runs-on: ubuntu-latest\n", Lead: "    outputs: ", After: "    steps:\n      - run: echo\n"},
	{Name: "matrix-rows", Before: "on: push\njobs:\n  j:\n    strategy:\n", Lead: "      matrix: ", After: "    runs-on: ubuntu-latest\n    steps:\n      - run: echo\n", Pre: "[", Post: "]"},
	{Name: "matrix-include-entry", Before: "on: push\njobs:\n  j:\n    strategy:\n      matrix:\n        include:\n", Lead: "          - ", After: "    runs-on: ubuntu-latest\n    steps:\n      - run: echo\n"},
	{Name: "matrix-row-object-value", Before: "on: push\njobs:\n  j:\n    strategy:\n", Lead: "      matrix: {x: [", Close: "]}", After: "    runs-on: ubuntu-latest\n    steps:\n      - run: echo\n"},
	{Name: "matrix-include-object-value", Before: "on: push\njobs:\n  j:\n    strategy:\n      matrix:\n        include:\n", Lead: "          - k: ", After: "    runs-on: ubuntu-latest\n    steps:\n      - run: echo\n"},
	{Name: "matrix-exclude-object-value", Before: "on: push\njobs:\n  j:\n    strategy:\n      matrix:\n        k: [{a: 1}]\n        exclude:\n", Lead: "          - k: ", After: "    runs-on: ubuntu-latest\n    steps:\n      - run: echo\n"},
	{Name: "dispatch-inputs", Before: "on:\n  workflow_dispatch:\n", Lead: "    inputs: ", After: "jobs:\n  j:\n    runs-on: ubuntu-latest\n    steps:\n      - run: echo\n", Pre: "{type: string, description: ", Post: "}"},
	{Name: "dispatch-inputs-default", Before: "on:\n  workflow_dispatch:\n", Lead: "    inputs: ", After: "jobs:\n  j:\n    runs-on: ubuntu-latest\n    steps:\n      - run: echo\n", Pre: "{type: string, default: ", Post: "}"},
	{Name: "call-event-inputs", Before: "on:\n  workflow_call:\n", Lead: "    inputs: ", After: "jobs:\n  j:\n    runs-on: ubuntu-latest\n    steps:\n      - run: echo\n", Pre: "{type: string, default: ", Post: "}"},
	{Name: "call-event-outputs", Before: "on:\n  workflow_call:\n", Lead: "    outputs: ", After: "jobs:\n  j:\n    runs-on: ubuntu-latest\n    steps:\n      - run: echo\n", Pre: "{value: ", Post: "}"},
	{Name: "call-event-secrets", Before: "on:\n  workflow_call:\n", Lead: "    secrets: ", After: "jobs:\n  j:\n    runs-on: ubuntu-latest\n    steps:\n      - run: echo\n", Pre: "{description: ", Post: "}"},
	{Name: "jobs", Before: "on: push\n", Lead: "jobs: ", Pre: "{runs-on: ubuntu-latest, steps: [{run: echo}], name: ", Post: "}"},
	{Name: "environment-and-concurrency-of-jobs", Before: "on: push\n", Lead: "jobs: ", Pre: "{runs-on: ubuntu-latest, steps: [{run: echo}], concurrency: ", Post: "}"},
}

var c02Fillers = []string{"é", "ü", "я", "日", "あ", "😀"}

func c02FalseTieInput(r *Rand, site c02FlowSite) *c02Input {
	k := r.Range(2, 5)
	var keys []string
	if site.Keys != nil {
		p := r.Perm(len(site.Keys))
		if k > len(site.Keys) {
			k = len(site.Keys)
		}
		for _, i := range p[:k] {
			keys = append(keys, site.Keys[i])
		}
	} else {
		for i := 0; i < k; i++ {
			keys = append(keys, fmt.Sprintf("%c%c%d", 'a'+rune(r.Intn(26)), 'a'+rune(r.Intn(26)), i))
		}
	}
	// built from the right: the last entry has no filler, every other entry gets as many extra
	// bytes as its variable is characters away from the last entry's variable
	last := keys[k-1] + ": " + site.Pre + "\"${{ "
	right := last // text from the start of the entries to the right up to the last variable
	line := last + "zlast }}\"" + site.Post
	for i := k - 2; i >= 0; i-- {
		u := fmt.Sprintf("zv%d", i)
		tail := u + " }}\"" + site.Post + ", "
		dist := len([]rune(tail)) + len([]rune(right))
		fill := c02Fillers[r.Intn(len(c02Fillers))]
		extra := len(fill) - 1
		var filler string
		if r.Chance(1, 5) { // an entry without a tie in between
			filler = "plain"
		} else {
			for dist%extra != 0 { // not reachable with this filler: pad the distance by ASCII text on the right
				tail = u + " }}\"" + site.Post + strings.Repeat(" ", (extra-dist%extra)) + ", "
				dist = len([]rune(tail)) + len([]rune(right))
			}
			filler = strings.Repeat(fill, dist/extra)
		}
		head := keys[i] + ": " + site.Pre + "\"" + filler + " ${{ "
		line = head + tail + line
		right = head + tail + right
	}
	files := map[string]string{".github/workflows/w.yml": site.Before + site.Lead + "{" + line + "}" + site.Close + "\n" + site.After}
	for p, c := range site.Files {
		files[p] = c
	}
	return &c02Input{Files: files, Lint: []string{".github/workflows/w.yml"}, Site: "false-tie:" + site.Name}
}
