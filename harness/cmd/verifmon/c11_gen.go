package main

// C11 generator: typed bottom-up builder of expressions from a model of access chains. Every value
// of type c11E carries its text, a coarse type (so that combinations stay type-correct and no
// foreign diagnostic interferes), the model chains it contains and the reports the reference model
// expects for it.

import (
	"fmt"
	"strings"
)

type c11T int

const (
	c11Any c11T = iota
	c11Str
	c11Num
	c11Bool
	c11Null
	c11Obj
	c11Arr
	c11Unk // result of && / || with operands of different types
)

type c11ChainInfo struct {
	Text      string   `json:"text"`
	Kind      string   `json:"kind"`
	Paths     []string `json:"reference_paths"` // what the reference model says the chain reads
	Safe      bool     `json:"inside_sanitising_call"`
	Spellings []string `json:"-"`
}

type c11E struct {
	Txt    string
	Ty     c11T
	StrLit bool // the AST of the expression is a string literal (parentheses are transparent)
	Binary bool // top level is an unparenthesised binary operator
	Chains []*c11ChainInfo
	Reps   []string // expected reports (paths joined by " + "), one per unsanitised untrusted chain
	Feats  []string

	UpperIndex   bool // some ['Name'] has an upper-case letter
	StarLiteral  bool // some ['*']
	HasNested    bool // a chain occurs in an index position of another chain
	HasObjFilter bool
}

func (e *c11E) Reports() []string { return c11Uniq(e.Reps) }

type c11Gen struct {
	r *Rand
	t *c11Tree
}

func c11NewGen(r *Rand, t *c11Tree) *c11Gen { return &c11Gen{r, t} }

// mk combines children into a new expression value.
func (g *c11Gen) mk(txt string, ty c11T, feat string, kids ...*c11E) *c11E {
	e := &c11E{Txt: txt, Ty: ty}
	if feat != "" {
		e.Feats = append(e.Feats, feat)
	}
	for _, k := range kids {
		e.Chains = append(e.Chains, k.Chains...)
		e.Reps = append(e.Reps, k.Reps...)
		e.Feats = append(e.Feats, k.Feats...)
		e.UpperIndex = e.UpperIndex || k.UpperIndex
		e.StarLiteral = e.StarLiteral || k.StarLiteral
		e.HasNested = e.HasNested || k.HasNested
		e.HasObjFilter = e.HasObjFilter || k.HasObjFilter
	}
	return e
}

func (g *c11Gen) sp() string {
	if g.r.Intn(5) == 0 {
		return " "
	}
	return ""
}

func c11Capital(s string) string {
	if s == "" {
		return s
	}
	return strings.ToUpper(s[:1]) + s[1:]
}

func (g *c11Gen) mixedCase(s string) string {
	b := []byte(s)
	for i := range b {
		if g.r.Bool() {
			b[i] = strings.ToUpper(string(b[i]))[0]
		}
	}
	return string(b)
}

func (g *c11Gen) fn(name string) string {
	switch g.r.Intn(6) {
	case 0:
		return strings.ToLower(name)
	case 1:
		return strings.ToUpper(name)
	case 2:
		return g.mixedCase(strings.ToLower(name))
	}
	return name
}

// ---------------------------------------------------------------------------
// atoms

func (g *c11Gen) lit() *c11E {
	switch g.r.Intn(9) {
	case 0:
		return &c11E{Txt: "'x'", Ty: c11Str, StrLit: true}
	case 1:
		return &c11E{Txt: "'github.event.issue.title'", Ty: c11Str, StrLit: true}
	case 2:
		return &c11E{Txt: "'it''s'", Ty: c11Str, StrLit: true}
	case 3:
		return &c11E{Txt: "0", Ty: c11Num}
	case 4:
		return &c11E{Txt: "42", Ty: c11Num}
	case 5:
		return &c11E{Txt: "0.5", Ty: c11Num}
	case 6:
		return &c11E{Txt: "true", Ty: c11Bool}
	case 7:
		return &c11E{Txt: "null", Ty: c11Null}
	}
	return &c11E{Txt: "''", Ty: c11Str, StrLit: true}
}

func (g *c11Gen) trustedVar() *c11E {
	switch g.r.Intn(6) {
	case 0:
		return &c11E{Txt: "env.FOO", Ty: c11Str}
	case 1:
		return &c11E{Txt: "matrix.n", Ty: c11Num}
	case 2:
		return &c11E{Txt: "runner.os", Ty: c11Str}
	case 3:
		return &c11E{Txt: "vars.V", Ty: c11Str}
	case 4:
		return &c11E{Txt: "job.status", Ty: c11Str}
	}
	return &c11E{Txt: "env.github", Ty: c11Str}
}

func (g *c11Gen) trustedAtom() *c11E {
	switch g.r.Intn(10) {
	case 0, 1, 2, 3:
		return g.lit()
	case 4, 5, 6:
		return g.trustedVar()
	}
	// a chain rooted at github that the reference model finds trusted
	for try := 0; try < 4; try++ {
		kind, segs := g.randSpec([]string{"sibling", "prefix", "extension", "insert-index", "drop-index", "strprop"}[g.r.Intn(6)])
		if len(c11RefEval(g.t, "github", segs)) == 0 {
			return g.chainFromSpec(kind, "github", segs, 0, 0)
		}
	}
	return g.trustedVar()
}

// ---------------------------------------------------------------------------
// operators and calls (with coercion through non-sanitising calls where the type checker would
// otherwise complain)

func (g *c11Gen) paren(e *c11E) *c11E {
	p := g.mk("("+g.sp()+e.Txt+g.sp()+")", e.Ty, "paren", e)
	p.StrLit = e.StrLit
	return p
}

func (g *c11Gen) wrapBinary(e *c11E) string {
	if e.Binary {
		return "(" + e.Txt + ")"
	}
	return e.Txt
}

func (g *c11Gen) not(e *c11E) *c11E {
	return g.mk("!"+g.sp()+g.wrapBinary(e), c11Bool, "not", e)
}

func (g *c11Gen) logic(op string, a, b *c11E) *c11E {
	at, bt := a.Txt, b.Txt
	if a.Binary && g.r.Bool() {
		at = "(" + at + ")"
	}
	if b.Binary && g.r.Bool() {
		bt = "(" + bt + ")"
	}
	ty := c11Unk
	if a.Ty == b.Ty && !a.Binary && !b.Binary {
		ty = a.Ty
	}
	s := " "
	if g.r.Intn(6) == 0 {
		s = ""
	}
	feat := "and"
	if op == "||" {
		feat = "or"
	}
	e := g.mk(at+s+op+s+bt, ty, feat, a, b)
	e.Binary = true
	return e
}

func c11Scalarish(t c11T) bool {
	return t == c11Any || t == c11Str || t == c11Num || t == c11Bool || t == c11Null
}
func c11StrParam(t c11T) bool { return t == c11Any || t == c11Str || t == c11Num }
func c11ArrParam(t c11T) bool { return t == c11Any || t == c11Arr }

func c11EqOK(l, r c11T) bool {
	switch l {
	case c11Any, c11Null:
		return r != c11Unk
	case c11Num, c11Bool, c11Str:
		return c11Scalarish(r)
	case c11Obj:
		return r == c11Obj || r == c11Null || r == c11Any
	case c11Arr:
		return r == c11Arr || r == c11Null || r == c11Any
	}
	return false
}

var c11CmpFeat = map[string]string{"==": "eq", "!=": "neq", "<": "lt", "<=": "le", ">": "gt", ">=": "ge"}

func (g *c11Gen) cmp(op string, a, b *c11E) *c11E {
	if op == "==" || op == "!=" {
		if !c11EqOK(a.Ty, b.Ty) {
			if !c11Scalarish(a.Ty) {
				a = g.toJSON(a)
			}
			if !c11Scalarish(b.Ty) {
				b = g.toJSON(b)
			}
		}
	} else {
		if !c11StrParam(a.Ty) {
			a = g.toJSON(a)
		}
		if !c11StrParam(b.Ty) {
			b = g.toJSON(b)
		}
	}
	s := " "
	if g.r.Intn(6) == 0 {
		s = ""
	}
	e := g.mk(g.wrapBinary(a)+s+op+s+g.wrapBinary(b), c11Bool, c11CmpFeat[op], a, b)
	e.Binary = true
	return e
}

func (g *c11Gen) call(name string, ty c11T, feat string, args ...*c11E) *c11E {
	var b strings.Builder
	b.WriteString(g.fn(name))
	b.WriteString("(" + g.sp())
	for i, a := range args {
		if i > 0 {
			b.WriteString("," + g.r.Pick([]string{" ", " ", ""}))
		}
		b.WriteString(a.Txt)
	}
	b.WriteString(g.sp() + ")")
	return g.mk(b.String(), ty, feat, args...)
}

func (g *c11Gen) toJSON(e *c11E) *c11E { return g.call("toJSON", c11Str, "tojson", e) }

func (g *c11Gen) format(args ...*c11E) *c11E {
	var ph []string
	for i := range args {
		ph = append(ph, fmt.Sprintf("{%d}", i))
	}
	f := &c11E{Txt: "'" + strings.Join(ph, g.r.Pick([]string{" ", "", "-"})) + "'", Ty: c11Str, StrLit: true}
	return g.call("format", c11Str, "format", append([]*c11E{f}, args...)...)
}

func (g *c11Gen) fromJSON(e *c11E) *c11E {
	if !c11StrParam(e.Ty) || e.StrLit {
		e = g.toJSON(e)
	}
	return g.call("fromJSON", c11Any, "fromjson", e)
}

func (g *c11Gen) anyOf(e *c11E) *c11E { return g.fromJSON(g.toJSON(e)) }

func (g *c11Gen) join(e *c11E) *c11E {
	if !c11ArrParam(e.Ty) {
		e = g.anyOf(e)
	}
	if g.r.Bool() {
		return g.call("join", c11Str, "join", e, &c11E{Txt: "','", Ty: c11Str, StrLit: true})
	}
	return g.call("join", c11Str, "join", e)
}

// safe builds a call of a sanitising function: nothing inside is expected to be reported.
func (g *c11Gen) safe(name string, a, b *c11E) *c11E {
	ok := c11StrParam(a.Ty) && c11StrParam(b.Ty)
	if name == "contains" && c11ArrParam(a.Ty) {
		ok = true
	}
	if !ok {
		if !c11StrParam(a.Ty) {
			a = g.toJSON(a)
		}
		if !c11StrParam(b.Ty) {
			b = g.toJSON(b)
		}
	}
	e := g.call(name, c11Bool, strings.ToLower(name), a, b)
	for _, ch := range e.Chains {
		ch.Safe = true
	}
	e.Reps = nil
	return e
}

// ---------------------------------------------------------------------------
// chains

const (
	c11NameSpellings = 6 // {.name, ['name']} x {lower, UPPER, Capitalised}
	c11StarSpellings = 3 // [0], [matrix.n], .*
)

var c11NameSpellingLabel = []string{"dot-lower", "dot-upper", "dot-capital", "bracket-lower", "bracket-upper", "bracket-capital"}

type c11Item struct {
	seg        c11Seg
	bracket    bool
	text       string // cased name
	idx        *c11E  // index expression
	pad        bool
	closeParen bool
	label      string
}

func c11NameItem(name string, spelling int) c11Item {
	it := c11Item{seg: c11Seg{c11SegName, name}, bracket: spelling >= 3, label: c11NameSpellingLabel[spelling]}
	switch spelling % 3 {
	case 0:
		it.text = name
	case 1:
		it.text = strings.ToUpper(name)
	case 2:
		it.text = c11Capital(name)
	}
	return it
}

// chain-internal types
const (
	c11cGithub = iota
	c11cEvent
	c11cAny
	c11cStr
	c11cArr
)

var c11GithubStrProps = []string{"ref", "sha", "actor", "base_ref", "ref_name", "event_name", "repository", "head_ref"}

// buildChain renders a chain and evaluates the reference model on it. rootKey is the lower-case
// context name ("" for a root that is not a context, e.g. a call result of type any).
func (g *c11Gen) buildChain(kind, rootTxt, rootKey string, items []c11Item) *c11E {
	txt := rootTxt
	open := 0
	st := c11cAny
	if rootKey == "github" {
		st = c11cGithub
	}
	info := &c11ChainInfo{Kind: kind}
	var kids []*c11E
	var segs []c11Seg
	upper, starLit, objFilter, nested := false, false, false, false
	for _, it := range items {
		segs = append(segs, it.seg)
		pad := ""
		if it.pad {
			pad = " "
		}
		switch it.seg.Kind {
		case c11SegName:
			if it.seg.Name == "*" {
				it.bracket, it.text, it.label = true, "*", "bracket-star-literal"
				starLit = true
			}
			if it.bracket && st == c11cArr && it.seg.Name != "*" {
				// a string index on a filtered array is a type error ("index access of array must be
				// type of number"): only the dot spelling exists there
				it.bracket = false
				it.label = strings.Replace(it.label, "bracket-", "dot-", 1)
			}
			if it.bracket {
				txt += "[" + pad + "'" + it.text + "'" + pad + "]"
				if it.text != strings.ToLower(it.text) {
					upper = true
				}
			} else {
				txt += "." + it.text
			}
			switch st {
			case c11cGithub:
				if it.seg.Name == "event" {
					st = c11cEvent
				} else {
					st = c11cStr
				}
			case c11cEvent:
				st = c11cAny
			}
		case c11SegIndex:
			idx := it.idx
			if st == c11cArr && idx.Ty != c11Any && idx.Ty != c11Num {
				idx = g.anyOf(idx)
			}
			if len(idx.Chains) > 0 {
				nested = true
			}
			kids = append(kids, idx)
			txt += "[" + pad + idx.Txt + pad + "]"
			st = c11cAny
		case c11SegStar:
			txt += ".*"
			st = c11cArr
			objFilter = true
		}
		info.Spellings = append(info.Spellings, it.label)
		if it.closeParen {
			txt += ")"
			open++
		}
	}
	txt = strings.Repeat("(", open) + txt
	info.Text = txt
	if rootKey != "" {
		info.Paths = c11RefEval(g.t, rootKey, segs)
	}
	ty := c11Any
	switch st {
	case c11cGithub, c11cEvent:
		ty = c11Obj
	case c11cStr:
		ty = c11Str
	case c11cArr:
		ty = c11Arr
	}
	feat := ""
	if open > 0 {
		feat = "parenthesised-prefix"
	}
	e := g.mk(txt, ty, feat, kids...)
	// the chain's own report comes after those of its index expressions (irrelevant for sets)
	e.Chains = append(e.Chains, info)
	if len(info.Paths) > 0 {
		e.Reps = append(e.Reps, strings.Join(info.Paths, " + "))
	}
	e.UpperIndex = e.UpperIndex || upper
	e.StarLiteral = e.StarLiteral || starLit
	e.HasObjFilter = e.HasObjFilter || objFilter
	if nested {
		e.HasNested = true
		e.Feats = append(e.Feats, "chain-in-index-position")
	}
	return e
}

// c11SpellingTypeCorrect: false for spelling vectors that write ['name'] after a `.*` (rejected by
// the type checker, so no such spelling of the path exists).
func c11SpellingTypeCorrect(leaf *c11Node, idx int) bool {
	afterStar := false
	for _, s := range leaf.segNames() {
		if s == "*" {
			if idx%c11StarSpellings == 2 {
				afterStar = true
			}
			idx /= c11StarSpellings
			continue
		}
		if afterStar && idx%c11NameSpellings >= 3 {
			return false
		}
		idx /= c11NameSpellings
	}
	return true
}

// leafChainSpelled: the chain of one leaf with the idx-th spelling vector (mixed radix).
func (g *c11Gen) leafChainSpelled(leaf *c11Node, idx int, rootUpper bool) *c11E {
	var items []c11Item
	for _, s := range leaf.segNames() {
		if s == "*" {
			d := idx % c11StarSpellings
			idx /= c11StarSpellings
			switch d {
			case 0:
				items = append(items, c11Item{seg: c11Seg{Kind: c11SegIndex}, idx: &c11E{Txt: "0", Ty: c11Num}, label: "index-int"})
			case 1:
				items = append(items, c11Item{seg: c11Seg{Kind: c11SegIndex}, idx: &c11E{Txt: "matrix.n", Ty: c11Num}, label: "index-number-expr"})
			default:
				items = append(items, c11Item{seg: c11Seg{Kind: c11SegStar}, label: "star"})
			}
			continue
		}
		d := idx % c11NameSpellings
		idx /= c11NameSpellings
		items = append(items, c11NameItem(s, d))
	}
	root := leaf
	for root.parent != nil {
		root = root.parent
	}
	rt := root.name
	if rootUpper {
		rt = c11Capital(rt)
	}
	return g.buildChain("leaf", rt, root.name, items)
}

func (g *c11Gen) randNameItem(name string, pos int) c11Item {
	br := g.r.Intn(5) < 2
	var cs int
	switch x := g.r.Intn(20); {
	case x < 8:
		cs = 0
	case x < 11:
		cs = 1
	case x < 14:
		cs = 2
	default:
		cs = 3
	}
	if pos == 0 && br && g.r.Intn(10) != 0 {
		cs = 0 // github['Event'] was rejected by the type checker before its C08 fix: keep it rare here, the enumeration has it fully
	}
	var it c11Item
	if cs < 3 {
		sp := cs
		if br {
			sp += 3
		}
		it = c11NameItem(name, sp)
	} else {
		it = c11Item{seg: c11Seg{c11SegName, name}, bracket: br, text: g.mixedCase(name), label: "dot-mixed"}
		if br {
			it.label = "bracket-mixed"
		}
	}
	it.pad = br && g.r.Intn(6) == 0
	return it
}

func (g *c11Gen) indexExpr(depth, budget int) (*c11E, string) {
	if budget > 0 {
		return g.expr(depth, budget), "index-nested-expr"
	}
	switch x := g.r.Intn(20); {
	case x < 10:
		return &c11E{Txt: g.r.Pick([]string{"0", "1", "7"}), Ty: c11Num}, "index-int"
	case x < 14:
		return &c11E{Txt: "matrix.n", Ty: c11Num}, "index-number-expr"
	case x < 16:
		return g.call("fromJSON", c11Num, "", &c11E{Txt: "'1'", Ty: c11Str, StrLit: true}), "index-number-expr"
	}
	d := depth
	if d > 1 {
		d = 1
	}
	e := g.expr(d, 0)
	if e.StrLit {
		return &c11E{Txt: "0", Ty: c11Num}, "index-int"
	}
	return e, "index-nested-expr"
}

// chainFromSpec spells an abstract chain at random; index segments get index expressions holding
// `budget` further model chains (all in the first index segment, or split over them).
func (g *c11Gen) chainFromSpec(kind, rootKey string, segs []c11Seg, depth, budget int) *c11E {
	nIdx := 0
	for _, s := range segs {
		if s.Kind == c11SegIndex {
			nIdx++
		}
	}
	var items []c11Item
	seen := 0
	for i, s := range segs {
		var it c11Item
		switch s.Kind {
		case c11SegName:
			it = g.randNameItem(s.Name, i)
		case c11SegIndex:
			seen++
			b := 0
			if budget > 0 {
				if seen == nIdx {
					b = budget
				} else {
					b = g.r.Intn(budget + 1)
				}
				budget -= b
			}
			e, label := g.indexExpr(depth, b)
			it = c11Item{seg: s, idx: e, label: label, pad: g.r.Intn(6) == 0}
		case c11SegStar:
			it = c11Item{seg: s, label: "star"}
		}
		if g.r.Intn(14) == 0 {
			it.closeParen = true
		}
		items = append(items, it)
	}
	var rootTxt string
	switch rootKey {
	case "":
		rootTxt = g.r.Pick([]string{"fromJSON(env.J)", "fromJSON(vars.V)", "fromJSON(env.J).github"})
	default:
		switch g.r.Intn(5) {
		case 0:
			rootTxt = strings.ToUpper(rootKey)
		case 1:
			rootTxt = g.mixedCase(rootKey)
		default:
			rootTxt = rootKey
		}
	}
	return g.buildChain(kind, rootTxt, rootKey, items)
}

var c11SiblingNames = []string{"number", "user", "id", "html_url", "labels", "base", "login", "titles", "bod", "foo", "ref_name", "messages"}

func (g *c11Gen) siblingName(n *c11Node) string {
	for try := 0; try < 20; try++ {
		s := g.r.Pick(c11SiblingNames)
		if n == nil || n.child(s) == nil {
			return s
		}
	}
	return "zz_none"
}

func c11LeafSegs(leaf *c11Node, r *Rand, starShare int) []c11Seg {
	var segs []c11Seg
	for _, s := range leaf.segNames() {
		switch {
		case s != "*":
			segs = append(segs, c11Seg{c11SegName, s})
		case r != nil && r.Intn(3) < starShare:
			segs = append(segs, c11Seg{Kind: c11SegStar})
		default:
			segs = append(segs, c11Seg{Kind: c11SegIndex})
		}
	}
	return segs
}

// nodeAt returns the tree node reached after the first n segments of a leaf path.
func c11NodeAt(leaf *c11Node, n int) *c11Node {
	var chain []*c11Node
	for x := leaf; x != nil; x = x.parent {
		chain = append([]*c11Node{x}, chain...)
	}
	if n < len(chain) {
		return chain[n]
	}
	return nil
}

func c11Insert(segs []c11Seg, at int, s c11Seg) []c11Seg {
	out := append([]c11Seg(nil), segs[:at]...)
	out = append(out, s)
	return append(out, segs[at:]...)
}

// randSpec draws an abstract chain of the given kind around a random leaf.
func (g *c11Gen) randSpec(kind string) (string, []c11Seg) {
	leaf := g.t.leaves[g.r.Intn(len(g.t.leaves))]
	segs := c11LeafSegs(leaf, g.r, 1)
	switch kind {
	case "leaf":
	case "sibling":
		p := g.r.Intn(len(segs))
		if p == 0 {
			return "strprop", []c11Seg{{c11SegName, g.r.Pick(c11GithubStrProps[:7])}}
		}
		segs = append([]c11Seg(nil), segs...)
		segs[p] = c11Seg{c11SegName, g.siblingName(c11NodeAt(leaf, p))}
	case "prefix":
		segs = segs[:g.r.Intn(len(segs))]
	case "extension":
		if len(segs) < 2 { // a string property of github cannot be dereferenced
			return g.randSpec(kind)
		}
		for n := 1 + g.r.Intn(2); n > 0; n-- {
			switch g.r.Intn(4) {
			case 0:
				segs = append(segs, c11Seg{Kind: c11SegIndex})
			case 1:
				segs = append(segs, c11Seg{Kind: c11SegStar})
			default:
				segs = append(segs, c11Seg{c11SegName, g.siblingName(nil)})
			}
		}
	case "objfilter":
		segs = append([]c11Seg(nil), segs...)
		for n := 1 + g.r.Intn(2); n > 0; n-- {
			p := g.r.Intn(len(segs))
			if p+1 < len(segs) || len(segs) == 1 || g.r.Intn(3) == 0 {
				segs[p] = c11Seg{Kind: c11SegStar}
			}
		}
		if g.r.Intn(4) == 0 && len(segs) >= 2 {
			segs = append(segs, c11Seg{Kind: c11SegIndex}) // github.event.*.body[0]
		}
	case "insert-index":
		if len(segs) < 2 {
			return g.randSpec(kind)
		}
		segs = c11Insert(segs, g.r.Range(2, len(segs)), c11Seg{Kind: c11SegIndex})
	case "drop-index":
		var out []c11Seg
		for _, s := range segs {
			if s.Kind == c11SegName {
				out = append(out, s)
			}
		}
		if len(out) == len(segs) {
			return g.randSpec("sibling")
		}
		segs = out
	case "strprop":
		return "strprop", []c11Seg{{c11SegName, g.r.Pick(c11GithubStrProps)}}
	case "star-literal":
		segs = append([]c11Seg(nil), segs...)
		done := false
		for i, s := range segs {
			if s.Kind != c11SegName {
				segs[i] = c11Seg{c11SegName, "*"}
				done = true
			}
		}
		if !done {
			if len(segs) < 2 {
				return g.randSpec(kind)
			}
			segs[g.r.Range(1, len(segs)-1)] = c11Seg{c11SegName, "*"}
		}
	}
	return kind, segs
}

var c11KindWeights = []struct {
	kind string
	w    int
}{{"leaf", 40}, {"sibling", 10}, {"prefix", 8}, {"extension", 8}, {"objfilter", 16}, {"insert-index", 5}, {"drop-index", 3}, {"strprop", 3}, {"star-literal", 2}, {"foreign-root", 5}}

// modelChain draws one model chain; budget further chains go into its index positions (the chain
// then is one that has an index segment).
func (g *c11Gen) modelChain(depth, budget int) *c11E {
	if budget > 0 {
		var withStar []*c11Node
		for _, l := range g.t.leaves {
			for _, s := range l.segNames() {
				if s == "*" {
					withStar = append(withStar, l)
					break
				}
			}
		}
		x := g.r.Intn(10)
		switch {
		case x < 6 && len(withStar) > 0:
			leaf := withStar[g.r.Intn(len(withStar))]
			return g.chainFromSpec("leaf", "github", c11LeafSegs(leaf, nil, 0), depth, budget)
		case x < 8:
			k, segs := g.randSpec("insert-index")
			return g.chainFromSpec(k, "github", segs, depth, budget)
		default:
			leaf := g.t.leaves[g.r.Intn(len(g.t.leaves))]
			segs := c11LeafSegs(leaf, nil, 0)
			if len(segs) < 2 {
				k, segs := g.randSpec("insert-index")
				return g.chainFromSpec(k, "github", segs, depth, budget)
			}
			segs = append(segs, c11Seg{Kind: c11SegIndex})
			return g.chainFromSpec("extension", "github", segs, depth, budget)
		}
	}
	total := 0
	for _, kw := range c11KindWeights {
		total += kw.w
	}
	x := g.r.Intn(total)
	kind := "leaf"
	for _, kw := range c11KindWeights {
		if x < kw.w {
			kind = kw.kind
			break
		}
		x -= kw.w
	}
	if kind == "foreign-root" {
		_, segs := g.randSpec("leaf")
		return g.chainFromSpec("foreign-root", "", segs, depth, 0)
	}
	k, segs := g.randSpec(kind)
	return g.chainFromSpec(k, "github", segs, depth, 0)
}

type c11Spec struct {
	kind string
	segs []c11Seg
}

// neighbourSpecs: the systematic neighbourhood of one leaf path.
func (g *c11Gen) neighbourSpecs(leaf *c11Node) []c11Spec {
	base := c11LeafSegs(leaf, nil, 0)
	var out []c11Spec
	cp := func() []c11Seg { return append([]c11Seg(nil), base...) }
	for p := range base {
		if p == 0 {
			out = append(out, c11Spec{"strprop", []c11Seg{{c11SegName, c11GithubStrProps[g.r.Intn(7)]}}})
		} else if base[p].Kind == c11SegName {
			s := cp()
			s[p] = c11Seg{c11SegName, g.siblingName(c11NodeAt(leaf, p))}
			out = append(out, c11Spec{"sibling", s})
		} else {
			s := cp()
			s[p] = c11Seg{c11SegName, g.siblingName(nil)}
			out = append(out, c11Spec{"sibling", s}) // name access on the array
			out = append(out, c11Spec{"drop-index", append(cp()[:p], base[p+1:]...)})
			s2 := cp()
			s2[p] = c11Seg{c11SegName, "*"}
			out = append(out, c11Spec{"star-literal", s2})
		}
		out = append(out, c11Spec{"prefix", cp()[:p]})
		s := cp()
		s[p] = c11Seg{Kind: c11SegStar}
		out = append(out, c11Spec{"objfilter", s})
		if p >= 2 {
			out = append(out, c11Spec{"insert-index", c11Insert(base, p, c11Seg{Kind: c11SegIndex})})
		}
	}
	if len(base) >= 2 {
		out = append(out, c11Spec{"extension", append(cp(), c11Seg{c11SegName, "foo"})})
		out = append(out, c11Spec{"extension", append(cp(), c11Seg{Kind: c11SegIndex})})
		out = append(out, c11Spec{"extension", append(cp(), c11Seg{Kind: c11SegStar})})
		s := cp()
		s[len(s)-2] = c11Seg{Kind: c11SegStar}
		out = append(out, c11Spec{"objfilter", append(s, c11Seg{Kind: c11SegIndex})})
	}
	return out
}

// ---------------------------------------------------------------------------
// depth-1 embeddings of one chain

const c11NumEmbeddings = 22

var c11RequiredFeatures = []string{"paren", "not", "eq", "neq", "lt", "and", "or", "format", "tojson", "fromjson", "join", "contains", "startswith", "endswith", "chain-in-index-position", "parenthesised-prefix"}

var c11RequiredChainClasses = []string{"leaf:untrusted", "leaf:untrusted-sanitised", "sibling:trusted", "prefix:trusted", "extension:trusted", "objfilter:untrusted", "objfilter:trusted", "insert-index:trusted", "drop-index:trusted", "strprop:trusted", "strprop:untrusted", "foreign-root:trusted", "star-literal:trusted"}

var c11RequiredSpellings = []string{"dot-lower", "dot-upper", "dot-capital", "dot-mixed", "bracket-lower", "bracket-upper", "bracket-capital", "bracket-mixed", "index-int", "index-number-expr", "index-nested-expr", "star"}

func (g *c11Gen) strLit(s string) *c11E { return &c11E{Txt: "'" + s + "'", Ty: c11Str, StrLit: true} }

// c11Reads: some chain of e reads the path (a second chain reading the same path would hide a
// missed report behind the other one, because sets of paths are compared).
func c11Reads(e *c11E, path string) bool {
	for _, ch := range e.Chains {
		for _, p := range ch.Paths {
			if p == path {
				return true
			}
		}
	}
	return false
}

// otherLeaf: plainly spelled chain of a leaf that e does not read.
func (g *c11Gen) otherLeaf(e *c11E) *c11E {
	n := len(g.t.leaves)
	start := g.r.Intn(n)
	for i := 0; i < n; i++ {
		if l := g.t.leaves[(start+i)%n]; !c11Reads(e, l.path()) {
			return g.leafChainSpelled(l, 0, false)
		}
	}
	return g.leafChainSpelled(g.t.leaves[start], 0, false)
}

func (g *c11Gen) embed1(kind int, e *c11E) *c11E {
	x := g.strLit("x")
	switch kind {
	case 0:
		return e
	case 1:
		return g.paren(e)
	case 2:
		return g.not(e)
	case 3:
		return g.cmp("==", e, x)
	case 4:
		return g.cmp("!=", x, e)
	case 5:
		return g.cmp("<", e, &c11E{Txt: "1", Ty: c11Num})
	case 6:
		return g.logic("&&", e, &c11E{Txt: "true", Ty: c11Bool})
	case 7:
		return g.logic("||", g.trustedVar(), e)
	case 8:
		return g.format(e)
	case 9:
		return g.format(x, e, g.trustedVar())
	case 10:
		return g.toJSON(e)
	case 11:
		return g.fromJSON(e)
	case 12:
		return g.join(e)
	case 13:
		return g.safe("contains", e, x)
	case 14:
		return g.safe("contains", x, e)
	case 15:
		return g.safe("startsWith", e, x)
	case 16:
		return g.safe("endsWith", x, e)
	case 17: // index position of a trusted chain
		return g.buildChain("sibling", "github", "github", []c11Item{c11NameItem("event", 0), c11NameItem("labels", 0), {seg: c11Seg{Kind: c11SegIndex}, idx: e, label: "index-nested-expr"}, c11NameItem("name", 0)})
	case 18: // index position of an untrusted chain
		var withStar *c11Node
		for _, l := range g.t.leaves {
			for _, s := range l.segNames() {
				if s == "*" && withStar == nil && !c11Reads(e, l.path()) {
					withStar = l
				}
			}
		}
		if withStar == nil {
			return g.format(e)
		}
		var items []c11Item
		for _, s := range withStar.segNames() {
			if s == "*" {
				items = append(items, c11Item{seg: c11Seg{Kind: c11SegIndex}, idx: e, label: "index-nested-expr"})
			} else {
				items = append(items, c11NameItem(s, 0))
			}
		}
		return g.buildChain("leaf", "github", "github", items)
	case 19: // second chain after it
		other := g.otherLeaf(e)
		return g.logic("&&", e, other)
	case 20: // second chain before it
		other := g.otherLeaf(e)
		return g.format(other, e)
	default: // after a sanitising call and inside a non-sanitising one
		return g.format(g.safe("contains", g.otherLeaf(e), x), e)
	}
}

// ---------------------------------------------------------------------------
// random deep expressions

func (g *c11Gen) split(k, n int) []int {
	out := make([]int, n)
	for ; k > 0; k-- {
		out[g.r.Intn(n)]++
	}
	return out
}

func (g *c11Gen) expr(depth, k int) *c11E {
	if k == 0 && (depth <= 0 || g.r.Intn(3) != 0) {
		return g.trustedAtom()
	}
	if depth <= 0 {
		if k == 1 {
			return g.modelChain(0, 0)
		}
		var parts []*c11E
		for i := 0; i < k; i++ {
			parts = append(parts, g.modelChain(0, 0))
		}
		if g.r.Bool() {
			return g.format(parts...)
		}
		e := parts[0]
		for _, p := range parts[1:] {
			e = g.logic(g.r.Pick([]string{"&&", "||"}), e, p)
		}
		return e
	}
	if k == 1 && g.r.Intn(4) == 0 {
		return g.modelChain(depth-1, 0)
	}
	d := depth - 1
	switch x := g.r.Intn(100); {
	case x < 14 && k >= 1: // chain hosting the other chains in its index positions
		return g.modelChain(d, k-1)
	case x < 20:
		return g.paren(g.expr(d, k))
	case x < 28:
		return g.not(g.expr(d, k))
	case x < 44:
		s := g.split(k, 2)
		return g.logic(g.r.Pick([]string{"&&", "||"}), g.expr(d, s[0]), g.expr(d, s[1]))
	case x < 56:
		s := g.split(k, 2)
		return g.cmp(g.r.Pick([]string{"==", "!=", "<", "<=", ">", ">=", "==", "!="}), g.expr(d, s[0]), g.expr(d, s[1]))
	case x < 68:
		n := g.r.Range(1, 3)
		s := g.split(k, n)
		var args []*c11E
		for i := 0; i < n; i++ {
			args = append(args, g.expr(d, s[i]))
		}
		return g.format(args...)
	case x < 74:
		return g.toJSON(g.expr(d, k))
	case x < 80:
		return g.fromJSON(g.expr(d, k))
	case x < 85:
		return g.join(g.expr(d, k))
	default:
		s := g.split(k, 2)
		return g.safe(g.r.Pick([]string{"contains", "startsWith", "endsWith"}), g.expr(d, s[0]), g.expr(d, s[1]))
	}
}
