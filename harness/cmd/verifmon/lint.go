package main

import (
	"bytes"
	"fmt"
	"io"
	"os"
	"path/filepath"
	"sort"
	"strings"

	"github.com/rhysd/actionlint"
)

// Diag is the observable part of one diagnostic.
type Diag struct {
	Line int    `json:"line"`
	Col  int    `json:"col"`
	Kind string `json:"kind"`
	Msg  string `json:"msg"`
}

func (d Diag) String() string { return fmt.Sprintf("%d:%d: %s [%s]", d.Line, d.Col, d.Msg, d.Kind) }

func toDiags(errs []*actionlint.Error) []Diag {
	out := make([]Diag, len(errs))
	for i, e := range errs {
		out[i] = Diag{e.Line, e.Column, e.Kind, e.Message}
	}
	return out
}

func diagStrings(ds []Diag) []string {
	out := make([]string, len(ds))
	for i, d := range ds {
		out[i] = d.String()
	}
	return out
}

// memPath is a path that does not exist, so that Linter.Lint does not look for a project.
const memPath = "/nonexistent-verif-dir/.github/workflows/w.yml"

// lintSrc lints a workflow given as text with a fresh Linter and default options (no project, no
// config, no external tools). Panics propagate to the case runner.
func lintSrc(src string) ([]Diag, error) {
	return lintSrcOpts(src, &actionlint.LinterOptions{})
}

func lintSrcOpts(src string, opts *actionlint.LinterOptions) ([]Diag, error) {
	l, err := actionlint.NewLinter(io.Discard, opts)
	if err != nil {
		return nil, err
	}
	errs, err := l.Lint(memPath, []byte(src), nil)
	if err != nil {
		return nil, err
	}
	return toDiags(errs), nil
}

// lintSrcOut additionally returns what the linter printed.
func lintSrcOut(src string, opts *actionlint.LinterOptions) ([]*actionlint.Error, string, error) {
	var buf bytes.Buffer
	l, err := actionlint.NewLinter(&buf, opts)
	if err != nil {
		return nil, "", err
	}
	errs, err := l.Lint(memPath, []byte(src), nil)
	return errs, buf.String(), err
}

// lintFileFresh lints a file on disk with a fresh linter whose working directory is cwd.
func lintFileFresh(path, cwd string, opts actionlint.LinterOptions) ([]*actionlint.Error, error) {
	opts.WorkingDir = cwd
	l, err := actionlint.NewLinter(io.Discard, &opts)
	if err != nil {
		return nil, err
	}
	return l.LintFile(path, nil)
}

func hasDiagAt(ds []Diag, line, col int) bool {
	for _, d := range ds {
		if d.Line == line && d.Col == col {
			return true
		}
	}
	return false
}

func sortedDiagStrings(ds []Diag) []string {
	s := diagStrings(ds)
	sort.Strings(s)
	return s
}

func countLines(src string) int {
	if src == "" {
		return 0
	}
	n := strings.Count(src, "\n")
	if !strings.HasSuffix(src, "\n") {
		n++
	}
	return n
}

// ---------------------------------------------------------------------------
// scratch directories: outside /repo and /verif, removed by the caller

func scratchBase() string {
	if d := os.Getenv("VERIF_SCRATCH"); d != "" {
		return d
	}
	if st, err := os.Stat("/dev/shm"); err == nil && st.IsDir() {
		return "/dev/shm"
	}
	return os.TempDir()
}

func mkScratch(tag string) string {
	d, err := os.MkdirTemp(scratchBase(), "verif-"+tag+"-")
	if err != nil {
		fmt.Fprintf(os.Stderr, "cannot create scratch dir: %v\n", err)
		os.Exit(10)
	}
	return d
}

func writeFiles(root string, files map[string]string) {
	for rel, content := range files {
		p := filepath.Join(root, rel)
		os.MkdirAll(filepath.Dir(p), 0o755)
		if err := os.WriteFile(p, []byte(content), 0o644); err != nil {
			fmt.Fprintf(os.Stderr, "scratch write failed: %v\n", err)
			os.Exit(10)
		}
	}
}

func repoDir() string {
	if d := os.Getenv("VERIF_REPO"); d != "" {
		return d
	}
	return "/repo"
}

// binDir is where ./check placed the binaries built from the repository's working tree.
func binDir() string {
	if d := os.Getenv("VERIF_BIN"); d != "" {
		return d
	}
	return filepath.Join(verifDir(), ".build", "default")
}
