package main

// C06 — type-directed expression generator. Given the (model of the) typing environment it writes
// expressions that are mostly accepted by the checker under that environment. Its static types are
// guidance only; whether a case counts is decided by running the real checker.

import (
	"fmt"
	"strings"
)

type c06Want int

const (
	c06WAny     c06Want = iota
	c06WStr             // string parameter: string, number
	c06WNum             // number
	c06WBool            // bool
	c06WScalar          // string, number, bool (template position)
	c06WScalarN         // scalar or null
	c06WArr             // array
	c06WArrStr          // array of string/number (join)
	c06WObj             // object
	c06WStrOnly         // string only (object index)
)

func c06Fits(t *c06Ty, w c06Want) bool {
	if t.K == c06Any {
		return true
	}
	switch w {
	case c06WAny:
		return true
	case c06WStr:
		return t.K == c06Str || t.K == c06Num
	case c06WNum:
		return t.K == c06Num
	case c06WBool:
		return t.K == c06Bool
	case c06WScalar:
		return t.K == c06Str || t.K == c06Num || t.K == c06Bool
	case c06WScalarN:
		return t.K == c06Str || t.K == c06Num || t.K == c06Bool || t.K == c06Null
	case c06WArr:
		return t.K == c06Arr
	case c06WArrStr:
		return t.K == c06Arr && (t.Elem.K == c06Any || t.Elem.K == c06Str || t.Elem.K == c06Num)
	case c06WObj:
		return t.K == c06Obj
	case c06WStrOnly:
		return t.K == c06Str
	}
	return false
}

// c06E is a generated expression with its static type and, for the narrowing model, its top-level
// logical structure (parentheses are transparent, as in the parser).
type c06E struct {
	S    string
	T    *c06Ty
	Op   byte // '&', '|', '!' or 0
	L, R *c06E
}

const (
	c06SProp    = iota // known property
	c06SKey            // arbitrary key of a mapped/open object
	c06SDyn            // obj[<string expression>]
	c06SIdx            // arr[<number>]
	c06SStar           // .*
	c06SAnyProp        // any.<name>
	c06SAnyIdx         // any[<expr>]
)

type c06Step struct {
	Kind int
	Name string
}

type c06Path struct {
	Class int // 0 generated context, 1 built-in context, 2 fromJSON literal
	Root  string
	Steps []c06Step
	T     *c06Ty
}

type c06Root struct {
	Class int
	Name  string
	T     *c06Ty
}

var c06KeyPool = []string{"alpha", "k9", "some_key", "zz", "other"}

// built-in contexts the generator may also read (fixed types, never loosened)
func c06BuiltinRoots() []c06Root {
	str, num, boo := c06TStr, c06TNum, c06TBool
	svc := c06ObjOf(nil, "id", str, "network", str, "ports", c06ObjOf(str))
	return []c06Root{
		{1, "github", c06ObjOf(nil, "ref", str, "sha", str, "event_name", str, "retention_days", num, "ref_protected", boo, "run_id", str, "event", c06ObjOf(c06TAny))},
		{1, "env", c06ObjOf(str)},
		{1, "runner", c06ObjOf(nil, "os", str, "arch", str, "temp", str)},
		{1, "job", c06ObjOf(nil, "status", str, "container", c06ObjOf(nil, "id", str, "network", str), "services", c06ObjOf(svc))},
		{1, "strategy", c06ObjOf(c06TAny, "fail-fast", boo, "job-index", num, "job-total", num, "max-parallel", num)},
		{1, "vars", c06ObjOf(str)},
	}
}

var c06JSONRoots = []c06Root{
	{2, `fromJSON('[1, 2, 3]')`, c06ArrOf(c06TNum)},
	{2, `fromJSON('["a", "b"]')`, c06ArrOf(c06TStr)},
	{2, `fromJSON('{"a": {"b": "x"}, "n": 1, "l": ["p"]}')`, c06ObjOf(nil, "a", c06ObjOf(nil, "b", c06TStr), "n", c06TNum, "l", c06ArrOf(c06TStr))},
	{2, `fromJSON('[{"name": "x", "v": 1}, {"name": "y", "v": 2}]')`, c06ArrOf(c06ObjOf(nil, "name", c06TStr, "v", c06TNum))},
	{2, `fromJSON('{"include": [{"os": "linux"}]}')`, c06ObjOf(nil, "include", c06ArrOf(c06ObjOf(nil, "os", c06TStr)))},
	{2, `fromJSON('null')`, c06TNull},
	{2, `fromJSON('true')`, c06TBool},
	{2, `fromJSON('"s"')`, c06TStr},
	{2, `fromJSON('[]')`, c06ArrOf(c06TAny)},
	{2, `fromJSON('{}')`, c06ObjOf(nil)},
	{2, `fromJson('12.5')`, c06TNum},
}

type c06Gen struct {
	r      *Rand
	paths  []c06Path
	fit    map[c06Want][3][]int // want -> class -> indices into paths
	status bool                 // success()/always()/cancelled()/failure() allowed
	hash   bool                 // hashFiles() allowed
	noise  int                  // percent of sub-expressions generated without a type constraint
	// noDynStrict: never index a closed object with a non-literal key. Used at linter level, where a
	// closed outputs object is replaced by {string => string}: obj[expr] is any for the closed
	// object but string for the map object, so that replacement is not a loosening for this form.
	noDynStrict bool
}

func c06NewGen(r *Rand, roots []c06Root, status, hash bool) *c06Gen {
	return c06NewGenOpt(r, roots, status, hash, false)
}

func c06NewGenOpt(r *Rand, roots []c06Root, status, hash, noDynStrict bool) *c06Gen {
	g := &c06Gen{r: r, status: status, hash: hash, noise: 6, fit: map[c06Want][3][]int{}, noDynStrict: noDynStrict}
	for _, rt := range roots {
		before := len(g.paths)
		g.enum(rt.Class, rt.Name, nil, rt.T, 0, before+160)
	}
	for w := c06WAny; w <= c06WStrOnly; w++ {
		var cls [3][]int
		for i, p := range g.paths {
			if c06Fits(p.T, w) {
				cls[p.Class] = append(cls[p.Class], i)
				if p.T.K != c06Any && !(p.T.K == c06Arr && p.T.Elem.K == c06Any) { // prefer informative types
					cls[p.Class] = append(cls[p.Class], i, i, i, i, i, i, i)
				}
			}
		}
		g.fit[w] = cls
	}
	return g
}

func (g *c06Gen) enum(class int, root string, steps []c06Step, t *c06Ty, anySteps int, limit int) {
	if len(g.paths) >= limit || len(steps) > 6 {
		return
	}
	g.paths = append(g.paths, c06Path{class, root, append([]c06Step(nil), steps...), t})
	next := func(s c06Step, nt *c06Ty, as int) {
		if nt.K == c06Any || nt.K == c06Arr && nt.Elem.K == c06Any {
			as++ // steps that end in an uninformative type are rationed
			if as > 2 {
				return
			}
		}
		g.enum(class, root, append(append([]c06Step(nil), steps...), s), nt, as, limit)
	}
	derefArr := func(e *c06Ty) *c06Ty { return &c06Ty{K: c06Arr, Elem: e, Deref: true} }
	switch t.K {
	case c06Any:
		next(c06Step{c06SAnyProp, ""}, c06TAny, anySteps)
		next(c06Step{c06SAnyIdx, ""}, c06TAny, anySteps)
		next(c06Step{c06SStar, ""}, derefArr(c06TAny), anySteps)
	case c06Obj:
		for i, n := range t.Names {
			next(c06Step{c06SProp, n}, t.Props[i], anySteps)
		}
		if t.Mapped != nil {
			next(c06Step{c06SKey, ""}, t.Mapped, anySteps)
			next(c06Step{c06SDyn, ""}, t.Mapped, anySteps)
			switch t.Mapped.K {
			case c06Any:
				next(c06Step{c06SStar, ""}, derefArr(c06TAny), anySteps)
			case c06Obj:
				next(c06Step{c06SStar, ""}, derefArr(t.Mapped), anySteps)
			}
		} else {
			if !g.noDynStrict {
				next(c06Step{c06SDyn, ""}, c06TAny, anySteps)
			}
			for _, p := range t.Props {
				if p.K == c06Obj {
					next(c06Step{c06SStar, ""}, derefArr(c06TAny), anySteps)
					break
				}
			}
		}
	case c06Arr:
		next(c06Step{c06SIdx, ""}, t.Elem, anySteps)
		if !t.Deref {
			next(c06Step{c06SStar, ""}, derefArr(t.Elem), anySteps)
			return
		}
		switch t.Elem.K {
		case c06Any:
			next(c06Step{c06SAnyProp, ""}, t, anySteps)
		case c06Obj:
			for i, n := range t.Elem.Names {
				next(c06Step{c06SProp, n}, derefArr(t.Elem.Props[i]), anySteps)
			}
			if t.Elem.Mapped != nil {
				next(c06Step{c06SKey, ""}, derefArr(t.Elem.Mapped), anySteps)
			}
		}
	}
}

func c06CaseVar(r *Rand, s string) string {
	switch r.Intn(12) {
	case 0:
		return strings.ToUpper(s)
	case 1:
		if len(s) > 0 {
			return strings.ToUpper(s[:1]) + s[1:]
		}
	}
	return s
}

func (g *c06Gen) render(p c06Path, d int) *c06E {
	var b strings.Builder
	if p.Class == 2 {
		b.WriteString(p.Root)
	} else {
		b.WriteString(c06CaseVar(g.r, p.Root))
	}
	for _, s := range p.Steps {
		switch s.Kind {
		case c06SProp:
			if g.r.Chance(1, 6) {
				b.WriteString("['" + c06CaseVar(g.r, s.Name) + "']")
			} else {
				b.WriteString("." + c06CaseVar(g.r, s.Name))
			}
		case c06SKey, c06SAnyProp:
			k := g.r.Pick(c06KeyPool)
			if g.r.Chance(1, 6) && p.Root != "vars" {
				b.WriteString("['" + k + "']")
			} else {
				b.WriteString("." + k)
			}
		case c06SDyn:
			e := g.expr(c06WStrOnly, d-1)
			if strings.HasPrefix(e.S, "'") {
				// a literal index is a static lookup; keep this step dynamic
				e.S = "format('{0}', " + e.S + ")"
			}
			b.WriteString("[" + e.S + "]")
		case c06SIdx:
			switch g.r.Intn(5) {
			case 0:
				b.WriteString("[" + g.expr(c06WNum, d-1).S + "]")
			case 1:
				fmt.Fprintf(&b, "[%d]", g.r.Intn(12))
			default:
				b.WriteString("[0]")
			}
		case c06SAnyIdx:
			if g.r.Bool() {
				b.WriteString("[0]")
			} else {
				b.WriteString("[" + g.expr(c06WScalar, d-1).S + "]")
			}
		case c06SStar:
			b.WriteString(".*")
		}
	}
	return &c06E{S: b.String(), T: p.T}
}

func (g *c06Gen) path(w c06Want, d int) *c06E {
	cls := g.fit[w]
	order := []int{0, 0, 0, 0, 0, 0, 0, 1, 1, 2}
	c := order[g.r.Intn(len(order))]
	for k := 0; k < 3; k++ {
		l := cls[(c+k)%3]
		if len(l) > 0 {
			return g.render(g.paths[l[g.r.Intn(len(l))]], d)
		}
	}
	return nil
}

var c06StrLits = []string{"'abc'", "''", "'it''s'", "'ubuntu-latest'", "'refs/heads/main'", "'{0}'", "'a b'", "'true'", "'1'"}
var c06NumLits = []string{"0", "1", "42", "-1", "3.14", "0xff", "1e3", "-0.5", "10"}

func (g *c06Gen) literal(w c06Want) *c06E {
	switch w {
	case c06WNum:
		return &c06E{S: g.r.Pick(c06NumLits), T: c06TNum}
	case c06WBool:
		return &c06E{S: g.r.Pick([]string{"true", "false"}), T: c06TBool}
	case c06WArr, c06WArrStr:
		i := g.r.Intn(2)
		if w == c06WArrStr {
			i = 1
		}
		return &c06E{S: c06JSONRoots[i].Name, T: c06JSONRoots[i].T}
	case c06WObj:
		return &c06E{S: c06JSONRoots[2].Name, T: c06JSONRoots[2].T}
	case c06WStr:
		if g.r.Chance(1, 6) {
			return &c06E{S: g.r.Pick(c06NumLits), T: c06TNum}
		}
		return &c06E{S: g.r.Pick(c06StrLits), T: c06TStr}
	case c06WStrOnly:
		return &c06E{S: g.r.Pick(c06StrLits), T: c06TStr}
	}
	switch g.r.Intn(10) {
	case 0, 1:
		return &c06E{S: g.r.Pick(c06NumLits), T: c06TNum}
	case 2:
		return &c06E{S: g.r.Pick([]string{"true", "false"}), T: c06TBool}
	case 3:
		if w == c06WScalarN || w == c06WAny {
			return &c06E{S: "null", T: c06TNull}
		}
	}
	return &c06E{S: g.r.Pick(c06StrLits), T: c06TStr}
}

// narrowing model (checkWithNarrowing / checkLogicalOp)
func c06Narrow(e *c06E, truthy bool) *c06Ty {
	switch e.Op {
	case '&':
		if truthy {
			return e.R.T
		}
		return e.T
	case '|':
		if !truthy {
			return e.R.T
		}
		return e.T
	case '!':
		return c06Narrow(e.L, !truthy)
	}
	return e.T
}

func c06Logical(op byte, l, r *c06E) *c06E {
	var t *c06Ty
	sym := " && "
	if op == '&' {
		t = c06Merge(c06Narrow(l, false), r.T)
	} else {
		t = c06Merge(c06Narrow(l, true), r.T)
		sym = " || "
	}
	ls, rs := l.S, r.S
	// '&&' binds tighter than '||'; comparison and '!' bind tighter than both
	if op == '&' && l.Op == '|' {
		ls = "(" + ls + ")"
	}
	if op == '&' && r.Op == '|' || r.Op == op {
		rs = "(" + rs + ")"
	}
	return &c06E{S: ls + sym + rs, T: t, Op: op, L: l, R: r}
}

// c06LogicalUnstable: the type of l && r / l || r would come from a Merge whose result depends on
// map iteration order inside actionlint (see c06MergeUnstable), so the verdict is not a function of
// (G, e); or from a Merge of objects that disagree on a common property (see c06MergeConflict), for
// which forgetting one operand's properties is not a loosening. Such expressions are not generated.
func c06LogicalUnstable(l, r *c06E) bool {
	for _, lt := range []*c06Ty{l.T, c06Narrow(l, true), c06Narrow(l, false)} {
		if c06MergeUnstable(lt, r.T) || c06MergeConflict(lt, r.T) {
			return true
		}
	}
	return false
}

// useMerged appends one access step that fits the static (merged) type of a logical expression.
func (g *c06Gen) useMerged(m *c06E) *c06E {
	s := "(" + m.S + ")"
	t := m.T
	switch t.K {
	case c06Obj:
		if len(t.Names) > 0 {
			i := g.r.Intn(len(t.Names))
			if g.r.Chance(1, 6) {
				return &c06E{S: s + "['" + t.Names[i] + "']", T: t.Props[i]}
			}
			return &c06E{S: s + "." + c06CaseVar(g.r, t.Names[i]), T: t.Props[i]}
		}
		if t.Mapped != nil {
			return &c06E{S: s + "." + g.r.Pick(c06KeyPool), T: t.Mapped}
		}
	case c06Arr:
		if g.r.Bool() {
			return &c06E{S: s + "[0]", T: t.Elem}
		}
		return &c06E{S: s + ".*", T: &c06Ty{K: c06Arr, Elem: t.Elem, Deref: true}}
	case c06Any:
		return &c06E{S: s + "." + g.r.Pick(c06KeyPool), T: c06TAny}
	}
	return &c06E{S: s, T: t, Op: m.Op, L: m.L, R: m.R}
}

func c06Paren(e *c06E) *c06E {
	n := *e
	n.S = "(" + e.S + ")"
	return &n
}

// operand of a comparison / '!' / index receiver: parenthesise logical expressions
func c06Atom(e *c06E) string {
	if e.Op == '&' || e.Op == '|' || strings.Contains(e.S, " == ") || strings.Contains(e.S, " != ") || strings.Contains(e.S, " < ") || strings.Contains(e.S, " <= ") || strings.Contains(e.S, " > ") || strings.Contains(e.S, " >= ") {
		if !(strings.HasPrefix(e.S, "(") && c06Balanced(e.S)) {
			return "(" + e.S + ")"
		}
	}
	return e.S
}

// c06Balanced reports whether the leading '(' closes at the very end of s.
func c06Balanced(s string) bool {
	depth := 0
	inStr := false
	for i := 0; i < len(s); i++ {
		ch := s[i]
		if ch == '\'' {
			inStr = !inStr
			continue
		}
		if inStr {
			continue
		}
		if ch == '(' {
			depth++
		} else if ch == ')' {
			depth--
			if depth == 0 {
				return i == len(s)-1
			}
		}
	}
	return false
}

func c06FnName(r *Rand, n string) string {
	switch r.Intn(10) {
	case 0:
		return strings.ToLower(n)
	case 1:
		return strings.ToUpper(n)
	}
	return n
}

func (g *c06Gen) format(d int) *c06E {
	n := g.r.Range(1, 3)
	args := make([]string, n)
	for i := range args {
		args[i] = g.expr(c06WAny, d-1).S
	}
	if g.r.Chance(1, 8) {
		f := g.expr(c06WStr, d-1)
		if !strings.HasPrefix(f.S, "'") {
			return &c06E{S: c06FnName(g.r, "format") + "(" + f.S + ", " + strings.Join(args, ", ") + ")", T: c06TStr}
		}
	}
	var f strings.Builder
	f.WriteByte('\'')
	for _, i := range g.r.Perm(n) {
		f.WriteString(g.r.Pick([]string{"", "x ", "- ", "{{lit}} ", "v="}))
		fmt.Fprintf(&f, "{%d}", i)
		if g.r.Chance(1, 6) {
			fmt.Fprintf(&f, " again {%d}", i)
		}
	}
	f.WriteString(g.r.Pick([]string{"", " end", "!"}))
	f.WriteByte('\'')
	return &c06E{S: c06FnName(g.r, "format") + "(" + f.String() + ", " + strings.Join(args, ", ") + ")", T: c06TStr}
}

func (g *c06Gen) compare(d int) *c06E {
	if g.r.Chance(7, 10) {
		op := g.r.Pick([]string{" == ", " != "})
		l := g.expr(c06WAny, d-1)
		var r *c06E
		switch l.T.K {
		case c06Any, c06Null:
			r = g.expr(c06WAny, d-1)
		case c06Num, c06Bool, c06Str:
			r = g.expr(c06WScalarN, d-1)
		case c06Obj:
			if g.r.Chance(3, 10) {
				r = &c06E{S: "null", T: c06TNull}
			} else {
				r = g.expr(c06WObj, d-1)
			}
		default:
			r = &c06E{S: "null", T: c06TNull}
			if g.r.Chance(6, 10) {
				for k := 0; k < 3; k++ {
					c := g.expr(c06WArr, d-1)
					if c06EqOK(l.T, c.T) {
						r = c
						break
					}
				}
			}
		}
		return &c06E{S: c06Atom(l) + op + c06Atom(r), T: c06TBool}
	}
	op := g.r.Pick([]string{" < ", " <= ", " > ", " >= "})
	l, r := g.expr(c06WStr, d-1), g.expr(c06WStr, d-1)
	return &c06E{S: c06Atom(l) + op + c06Atom(r), T: c06TBool}
}

// model of validateCompareOpOperands for == / != (guidance only)
func c06EqOK(l, r *c06Ty) bool {
	switch l.K {
	case c06Any, c06Null:
		return true
	case c06Num, c06Bool, c06Str:
		return r.K != c06Obj && r.K != c06Arr
	case c06Obj:
		return r.K == c06Obj || r.K == c06Null || r.K == c06Any
	}
	if r.K == c06Arr {
		return c06EqOK(l.Elem, r.Elem)
	}
	return r.K == c06Null || r.K == c06Any
}

func (g *c06Gen) boolFn(d int) *c06E {
	switch g.r.Intn(4) {
	case 0:
		return &c06E{S: c06FnName(g.r, "contains") + "(" + g.expr(c06WStr, d-1).S + ", " + g.expr(c06WStr, d-1).S + ")", T: c06TBool}
	case 1:
		return &c06E{S: c06FnName(g.r, "contains") + "(" + g.expr(c06WArr, d-1).S + ", " + g.expr(c06WAny, d-1).S + ")", T: c06TBool}
	case 2:
		return &c06E{S: c06FnName(g.r, "startsWith") + "(" + g.expr(c06WStr, d-1).S + ", " + g.expr(c06WStr, d-1).S + ")", T: c06TBool}
	}
	return &c06E{S: c06FnName(g.r, "endsWith") + "(" + g.expr(c06WStr, d-1).S + ", " + g.expr(c06WStr, d-1).S + ")", T: c06TBool}
}

func (g *c06Gen) strFn(d int) *c06E {
	x := g.r.Intn(10)
	switch {
	case x < 4:
		return g.format(d)
	case x < 6:
		a := g.expr(c06WArrStr, d-1)
		if g.r.Bool() {
			return &c06E{S: c06FnName(g.r, "join") + "(" + a.S + ")", T: c06TStr}
		}
		return &c06E{S: c06FnName(g.r, "join") + "(" + a.S + ", " + g.expr(c06WStr, d-1).S + ")", T: c06TStr}
	case x < 8 || !g.hash:
		return &c06E{S: c06FnName(g.r, "toJSON") + "(" + g.expr(c06WAny, d-1).S + ")", T: c06TStr}
	}
	n := g.r.Range(1, 3)
	args := make([]string, n)
	for i := range args {
		args[i] = g.expr(c06WStr, d-1).S
	}
	return &c06E{S: c06FnName(g.r, "hashFiles") + "(" + strings.Join(args, ", ") + ")", T: c06TStr}
}

func (g *c06Gen) dynJSON(d int) *c06E {
	s := g.expr(c06WStr, d-1)
	if strings.HasPrefix(s.S, "'") {
		s = &c06E{S: "format('{0}', " + s.S + ")", T: c06TStr}
	}
	e := &c06E{S: c06FnName(g.r, "fromJSON") + "(" + s.S + ")", T: c06TAny}
	switch g.r.Intn(6) {
	case 0:
		e.S += "." + g.r.Pick(c06KeyPool)
	case 1:
		e.S += "[0]"
	case 2:
		e.S += ".*"
		e.T = &c06Ty{K: c06Arr, Elem: c06TAny, Deref: true}
	}
	return e
}

// expr generates an expression whose static type fits w (best effort).
func (g *c06Gen) expr(w c06Want, d int) *c06E {
	if d < -1 {
		return g.literal(w)
	}
	if g.r.Intn(100) < g.noise {
		w = c06WAny
	}
	if d <= 0 {
		if g.r.Chance(7, 10) {
			if e := g.path(w, 0); e != nil {
				return e
			}
		}
		return g.literal(w)
	}
	for try := 0; try < 6; try++ {
		var e *c06E
		x := g.r.Intn(100)
		switch {
		case x < 38:
			e = g.path(w, d)
		case x < 46:
			e = g.literal(w)
		case x < 50:
			e = g.dynJSON(d)
		case x < 58: // l && r, l || r
			op := byte('&')
			if g.r.Bool() {
				op = '|'
			}
			l, r := g.expr(w, d-1), g.expr(w, d-1)
			if c06LogicalUnstable(l, r) {
				continue
			}
			e = c06Logical(op, l, r)
		case x < 64: // cond && a || b
			cond := g.expr(c06WAny, d-1)
			a, b := g.expr(w, d-1), g.expr(w, d-1)
			if cond.Op == '|' || cond.Op == '&' {
				cond = c06Paren(cond)
			}
			if c06LogicalUnstable(cond, a) || c06LogicalUnstable(a, b) || c06LogicalUnstable(cond, b) {
				continue
			}
			e = c06Logical('|', c06Logical('&', cond, a), b)
		case x < 67:
			inner := g.expr(w, d-1)
			e = c06Paren(inner)
		case x < 73: // (a || b).prop, (a && b)[0]: a use of the merged type
			op := byte('|')
			if g.r.Chance(1, 3) {
				op = '&'
			}
			ow := c06WObj
			if g.r.Chance(1, 5) {
				ow = c06WArr
			}
			l, r := g.expr(ow, d-1), g.expr(ow, d-1)
			if c06LogicalUnstable(l, r) {
				continue
			}
			e = g.useMerged(c06Logical(op, l, r))
		default:
			switch w {
			case c06WStr, c06WStrOnly:
				e = g.strFn(d)
			case c06WBool, c06WAny, c06WScalar, c06WScalarN:
				y := g.r.Intn(100)
				switch {
				case y < 35:
					e = g.compare(d)
				case y < 50:
					o := g.expr(c06WAny, d-1)
					e = &c06E{S: "!" + c06Atom(o), T: c06TBool, Op: '!', L: o}
				case y < 65:
					e = g.boolFn(d)
				case y < 72 && g.status:
					e = &c06E{S: c06FnName(g.r, g.r.Pick([]string{"success", "always", "cancelled", "failure"})) + "()", T: c06TBool}
				case w == c06WBool:
					e = g.compare(d)
				default:
					e = g.strFn(d)
				}
			case c06WNum:
				e = g.path(w, d)
			default:
				e = g.path(w, d)
			}
		}
		if e != nil && c06Fits(e.T, w) {
			return e
		}
	}
	if e := g.path(w, d); e != nil {
		return e
	}
	return g.literal(w)
}

func c06PickWant(r *Rand) c06Want {
	switch x := r.Intn(20); {
	case x < 6:
		return c06WBool
	case x < 10:
		return c06WScalar
	case x < 13:
		return c06WStr
	case x < 14:
		return c06WNum
	case x < 15:
		return c06WArr
	case x < 16:
		return c06WObj
	}
	return c06WAny
}
