package main

// C05 — references to steps/needs/matrix/inputs/secrets/jobs resolve by scope.
//
// Reference-model monitor. A seeded generator produces a workflow *model* (events with inputs /
// secrets / outputs, jobs with a needs DAG and declared outputs, steps with ids at random places,
// matrices with rows / include / exclude / nested mapping values, sections given by expressions).
// The model is rendered to YAML (c05_gen.go) with exactly one reference per scalar and at most one
// reference-bearing scalar per line. The scope model in this file (c05Scope) is written from the
// statement of the property and decides for every emitted reference whether it has to be reported
// as undefined. The oracle compares, per reference (= per scalar = per line), "a `property ... is
// not defined in object type` diagnostic exists on the line of the scalar" with that verdict.

import (
	"fmt"
	"regexp"
	"strings"
)

func init() { registry["C05"] = runC05 }

// ---------------------------------------------------------------------------
// workflow model

type c05Input struct {
	Name string // as written in the workflow
	Type string // "" = no type key
}

// c05Val is one value of a matrix row / include / exclude assignment.
type c05Val struct {
	Expr   bool     // the value is given by ${{ }}
	Scalar string   // literal scalar (when Props == nil and !Expr)
	Props  []string // mapping value: property names as written
	PVals  []string // literal scalar per property
}

type c05Row struct {
	Key  string
	Expr bool // the whole row is ${{ }}
	Vals []c05Val
}

type c05Combo struct {
	Expr bool // the element is ${{ }}
	Keys []string
	Vals []c05Val
}

type c05Matrix struct {
	ObjExpr string // matrix: ${{ <context object> }}: needs-outputs | needs | inputs | vars | fromjson
	ObjJob  int    // needs-outputs: the job whose outputs object is used
	Whole   bool   // matrix: ${{ }}
	Rows    []c05Row
	HasInc  bool
	IncExpr bool // include: ${{ }}
	Inc     []c05Combo
	HasExc  bool
	ExcExpr bool
	Exc     []c05Combo
}

type c05Step struct {
	ID   string // "" = no id
	Dyn  bool   // id given by an expression
	Uses bool
}

type c05Job struct {
	ID      string
	Call    bool // reusable workflow call (uses:)
	Needs   []int
	Outputs []string
	Steps   []c05Step
	Matrix  *c05Matrix
}

type c05Model struct {
	Push            bool
	Call            bool
	CallInputs      []c05Input
	SecretsDeclared bool
	Secrets         []string
	CallOutputs     []string
	Dispatch        bool
	DispatchInputs  []c05Input
	Jobs            []*c05Job
	Order           []int // textual order of the jobs
}

// ---------------------------------------------------------------------------
// scope model (from the statement)

type c05Verdict int

const (
	c05In    c05Verdict = iota // entity in scope: must not be reported
	c05Out                     // entity not in scope: must be reported
	c05Never                   // defining section given by an expression: must not be reported
	c05Skip                    // statement silent: not generated / not compared
)

const c05All = 1 << 20 // "sees all steps of the job" (job outputs, environment)

type c05Scope struct{ m *c05Model }

func c05Eq(a, b string) bool { return strings.EqualFold(a, b) }

// Resolve decides a reference root.segs[0].segs[1]... made from job `job` (-1: workflow level) at
// step index `at` (c05All: all steps visible). It returns the verdict, the index of the first
// segment that is not in scope (for c05Out) and the reason (for c05Never).
func (s c05Scope) Resolve(root string, segs []string, job, at int) (c05Verdict, int, string) {
	m := s.m
	if len(segs) == 0 && (root == "needs" || root == "inputs" || root == "vars") {
		return c05In, 0, "" // the context object itself
	}
	switch root {
	case "steps":
		if job < 0 || len(segs) == 0 {
			return c05Skip, 0, ""
		}
		// a step sees the ids of earlier steps of its job only; outputs / environment see all
		steps := m.Jobs[job].Steps
		n := at
		if at == c05All || at > len(steps) {
			n = len(steps)
		}
		dyn := false
		for i := 0; i < n; i++ {
			if steps[i].Dyn {
				dyn = true
				continue
			}
			if steps[i].ID != "" && c05Eq(steps[i].ID, segs[0]) {
				return c05In, 0, ""
			}
		}
		if dyn {
			return c05Never, 0, "step-id-expr"
		}
		return c05Out, 0, ""
	case "needs":
		if job < 0 || len(segs) == 0 {
			return c05Skip, 0, ""
		}
		// exactly the directly needed jobs ...
		tgt := -1
		for _, d := range m.Jobs[job].Needs {
			if c05Eq(m.Jobs[d].ID, segs[0]) {
				tgt = d
			}
		}
		if tgt < 0 {
			return c05Out, 0, ""
		}
		if len(segs) == 1 || (len(segs) == 2 && c05Eq(segs[1], "result")) {
			return c05In, 0, ""
		}
		if len(segs) == 2 && c05Eq(segs[1], "outputs") {
			return c05In, 0, "" // the outputs object of a directly needed job
		}
		if len(segs) == 3 && c05Eq(segs[1], "outputs") {
			// ... and their declared outputs
			if m.Jobs[tgt].Call {
				return c05Skip, 0, "" // declared in another file
			}
			for _, o := range m.Jobs[tgt].Outputs {
				if c05Eq(o, segs[2]) {
					return c05In, 0, ""
				}
			}
			return c05Out, 2, ""
		}
		return c05Skip, 0, ""
	case "matrix":
		if job < 0 || len(segs) == 0 || len(segs) > 2 {
			return c05Skip, 0, ""
		}
		if mx := m.Jobs[job].Matrix; mx != nil && mx.ObjExpr != "" {
			// The matrix is one expression evaluating to a context object whose names are known
			// statically. A name the object declares is not reported under every reading; for the
			// other names the two sentences of the statement conflict (not compared).
			if len(segs) == 1 && c05Has(s.objectMatrixKeys(mx, job), segs[0]) {
				return c05Never, 0, "matrix-expr"
			}
			return c05Skip, 0, ""
		}
		return s.matrix(m.Jobs[job].Matrix, segs)
	case "inputs":
		if len(segs) != 1 {
			return c05Skip, 0, ""
		}
		for _, i := range m.CallInputs {
			if m.Call && c05Eq(i.Name, segs[0]) {
				return c05In, 0, ""
			}
		}
		for _, i := range m.DispatchInputs {
			if m.Dispatch && c05Eq(i.Name, segs[0]) {
				return c05In, 0, ""
			}
		}
		return c05Out, 0, ""
	case "secrets":
		if len(segs) != 1 {
			return c05Skip, 0, ""
		}
		// only a reusable workflow that declares secrets is strict
		if !(m.Call && m.SecretsDeclared) {
			return c05Never, 0, "secrets-not-declared"
		}
		if c05Eq(segs[0], "github_token") {
			return c05In, 0, ""
		}
		for _, n := range m.Secrets {
			if c05Eq(n, segs[0]) {
				return c05In, 0, ""
			}
		}
		return c05Out, 0, ""
	case "jobs":
		if len(segs) != 3 || !c05Eq(segs[1], "outputs") {
			return c05Skip, 0, ""
		}
		for _, j := range m.Jobs {
			if c05Eq(j.ID, segs[0]) {
				if j.Call {
					return c05Skip, 0, ""
				}
				for _, o := range j.Outputs {
					if c05Eq(o, segs[2]) {
						return c05In, 0, ""
					}
				}
				return c05Out, 2, ""
			}
		}
		return c05Out, 0, ""
	}
	return c05Skip, 0, ""
}

// objectMatrixKeys: the names declared by the context object a matrix expression evaluates to
// (without include / exclude, which are matrix directives there).
func (s c05Scope) objectMatrixKeys(mx *c05Matrix, job int) []string {
	m := s.m
	var names []string
	switch mx.ObjExpr {
	case "needs-outputs":
		direct := false
		for _, d := range m.Jobs[job].Needs {
			if d == mx.ObjJob {
				direct = true
			}
		}
		if direct && !m.Jobs[mx.ObjJob].Call {
			names = m.Jobs[mx.ObjJob].Outputs
		}
	case "needs":
		for _, d := range m.Jobs[job].Needs {
			names = append(names, m.Jobs[d].ID)
		}
	case "inputs":
		if m.Call {
			for _, i := range m.CallInputs {
				names = append(names, i.Name)
			}
		}
		if m.Dispatch {
			for _, i := range m.DispatchInputs {
				names = append(names, i.Name)
			}
		}
	case "vars":
		names = []string{"any_name", "OTHER"}
	case "fromjson":
		names = []string{"os", "extra"}
	}
	var out []string
	for _, n := range names {
		if !c05Eq(n, "include") && !c05Eq(n, "exclude") {
			out = append(out, n)
		}
	}
	return out
}

// matrix sees exactly the row keys plus the include keys; a nested property of a mapping-valued key
// is known iff some value declares it (and every value is a mapping).
func (s c05Scope) matrix(mx *c05Matrix, segs []string) (c05Verdict, int, string) {
	if mx == nil {
		return c05Out, 0, ""
	}
	if mx.Whole {
		return c05Never, 0, "matrix-expr"
	}
	incReason := ""
	if mx.HasInc {
		for _, c := range mx.Inc {
			if c.Expr {
				incReason = "include-elem-expr"
			}
		}
		if mx.IncExpr {
			incReason = "include-expr"
		}
	}
	found, rowExpr := false, false
	var vals []c05Val
	for _, r := range mx.Rows {
		if c05Eq(r.Key, segs[0]) {
			found = true
			if r.Expr {
				rowExpr = true
			} else {
				vals = append(vals, r.Vals...)
			}
		}
	}
	if mx.HasInc && !mx.IncExpr {
		for _, c := range mx.Inc {
			if c.Expr {
				continue
			}
			for i, k := range c.Keys {
				if c05Eq(k, segs[0]) {
					found = true
					vals = append(vals, c.Vals[i])
				}
			}
		}
	}
	if !found {
		if incReason != "" {
			return c05Never, 0, incReason
		}
		return c05Out, 0, ""
	}
	if len(segs) == 1 {
		return c05In, 0, ""
	}
	// nested property
	if rowExpr {
		return c05Never, 1, "row-expr"
	}
	allMaps, declared := true, false
	for _, v := range vals {
		if v.Expr {
			return c05Never, 1, "value-expr"
		}
		if v.Props == nil {
			allMaps = false
			continue
		}
		for _, p := range v.Props {
			if c05Eq(p, segs[1]) {
				declared = true
			}
		}
	}
	if !allMaps {
		return c05Skip, 1, "" // property of a scalar / mixed row: not a scope question
	}
	if declared {
		return c05In, 0, ""
	}
	if incReason != "" {
		return c05Skip, 1, "" // an include given by an expression may or may not add the property
	}
	return c05Out, 1, ""
}

// ---------------------------------------------------------------------------
// references

type c05Ref struct {
	Class     string   `json:"class"` // steps-id, steps-out, needs-job, needs-result, needs-output, matrix-key, matrix-nested, inputs, secrets, jobs-output
	Sub       string   `json:"sub"`   // how the target was chosen (earlier/self/later/otherjob/bogus ...)
	Text      string   `json:"text"`
	Where     string   `json:"where"`
	Job       int      `json:"job"`     // index of the job in the model, -1 = workflow level
	Verdict   string   `json:"verdict"` // in / out / never:<reason>
	Report    bool     `json:"expect_report"`
	BadSeg    string   `json:"undefined_segment,omitempty"`
	IndexLits []string `json:"index_literals_not_lower_case,omitempty"`
	Style     string   `json:"style"`
	OpPath    []string `json:"operator_path"` // operand positions from the root of the expression to the reference
	Line      int      `json:"scalar_line"`   // line on which the scalar starts
	Pos       Pos      `json:"token_pos"`     // first token of the reference

	emPre, emText, emPost string // the expression around the reference as emitted (quotes doubled in single-quoted scalars)
}

// lostToIndexCase: the diagnostic names, verbatim, an index literal of the reference that is not in
// lower case (x['Foo']: the literal is looked up case-sensitively in the lower-cased property table).
func (rf *c05Ref) lostToIndexCase(gd []Diag) bool {
	for _, d := range gd {
		if mm := c05NotDefinedRe.FindStringSubmatch(d.Msg); mm != nil {
			for _, l := range rf.IndexLits {
				if l == mm[1] {
					return true
				}
			}
		}
	}
	return false
}

// c05SilentWithLowerCaseLiterals re-lints the workflow with the index literals of one reference
// folded to lower case (same length, so nothing moves) and tells whether the report on the line of
// the reference disappears: then the letter case of the literal, not the scope, caused the report.
func c05SilentWithLowerCaseLiterals(src string, rf *c05Ref) bool {
	lines := strings.Split(src, "\n")
	if rf.Pos.Line < 1 || rf.Pos.Line > len(lines) {
		return false
	}
	l := lines[rf.Pos.Line-1]
	for _, lit := range rf.IndexLits {
		l = strings.Replace(l, "'"+lit+"'", "'"+strings.ToLower(lit)+"'", 1)
	}
	lines[rf.Pos.Line-1] = l
	ds, err := lintSrc(strings.Join(lines, "\n"))
	if err != nil {
		return false
	}
	for _, d := range ds {
		if d.Line == rf.Line && c05NotDefinedRe.MatchString(d.Msg) {
			return false
		}
	}
	return true
}

func c05IsLogical(l string) bool {
	for _, x := range c05LogicalLabels {
		if x == l {
			return true
		}
	}
	return false
}

// c05PathShape names the operand position class for a signature: the type-narrowing shape if the
// path contains one, else the (up to three) innermost operand positions.
func c05PathShape(path []string) string {
	np := c05NormPath(path)
	for _, sh := range c05NarrowShapes {
		if strings.Contains(np, sh) {
			return strings.Trim(sh, ">")
		}
	}
	var labs []string
	for _, l := range path {
		if l != "()" {
			labs = append(labs, l)
		}
	}
	if len(labs) > 3 {
		labs = labs[len(labs)-3:]
	}
	return strings.Join(labs, ">")
}

// c05BareVerdictDiffers re-lints the workflow with the expression tree of one reference replaced by
// toJSON(<reference>) (same line, same scalar) and tells whether the reported-or-not verdict on
// that line is then the opposite of `reported`.
func c05BareVerdictDiffers(src string, rf *c05Ref, reported bool) bool {
	lines := strings.Split(src, "\n")
	if rf.Pos.Line < 1 || rf.Pos.Line > len(lines) {
		return false
	}
	old := rf.emPre + rf.emText + rf.emPost
	l := lines[rf.Pos.Line-1]
	if old == "" || strings.Count(l, old) != 1 {
		return false
	}
	lines[rf.Pos.Line-1] = strings.Replace(l, old, "toJSON("+rf.emText+")", 1)
	ds, err := lintSrc(strings.Join(lines, "\n"))
	if err != nil {
		return false
	}
	now := false
	for _, d := range ds {
		if d.Line == rf.Line && c05NotDefinedRe.MatchString(d.Msg) {
			now = true
		}
	}
	return now != reported
}

var c05NotDefinedRe = regexp.MustCompile(`^property "([^"]*)" is not defined in object type `)

var c05Classes = []string{"steps-id", "steps-out", "needs-job", "needs-result", "needs-output", "matrix-key", "matrix-nested", "inputs", "secrets", "jobs-output"}

// message with everything quoted removed: used as the class of an unexpected diagnostic
var c05QuotedRe = regexp.MustCompile(`"[^"]*"|\{[^}]*\}`)

func c05MsgClass(msg string) string {
	s := c05QuotedRe.ReplaceAllString(msg, "_")
	if len(s) > 70 {
		s = s[:70]
	}
	return s
}

func c05Check(c *Case, prof string) {
	m := c05GenModel(c.R, prof)
	g := c05Render(c.R, m, prof)
	src := g.b.String()
	ds, err := lintSrc(src)
	c.Eval(1)
	c.Count("workflows", 1)
	c.Count("references", len(g.refs))
	detail := func(extra map[string]interface{}) map[string]interface{} {
		d := map[string]interface{}{"src": src, "diags": diagStrings(ds), "refs": g.refs}
		for k, v := range extra {
			d[k] = v
		}
		return d
	}
	if c.Verbose {
		c.Logf("---- workflow ----\n%s------------------", src)
		for _, d := range ds {
			c.Logf("diag %s", d.String())
		}
	}
	if err != nil {
		c.Violation("C05:fatal-error", "linting a generated workflow returned a fatal error: "+err.Error(), detail(nil))
		return
	}
	refAt := map[int]*c05Ref{}
	for _, rf := range g.refs {
		if refAt[rf.Line] != nil {
			c.Violation("C05:harness-two-references-on-one-line", "generator bug: two references on one line", detail(nil))
			return
		}
		refAt[rf.Line] = rf
	}
	got := map[int][]Diag{}
	for _, d := range ds {
		if c05NotDefinedRe.MatchString(d.Msg) {
			if refAt[d.Line] == nil {
				c.Violation("C05:undefined-property-away-from-any-reference", "a `property is not defined` diagnostic on a line without a generated reference: "+d.String(), detail(nil))
				return
			}
			got[d.Line] = append(got[d.Line], d)
			continue
		}
		// Everything else is outside the generated domain: the workflows are built to be clean apart
		// from undefined references.
		c.Violation("C05:unexpected-diagnostic:"+c05MsgClass(d.Msg), "diagnostic other than `property is not defined` on a generated workflow: "+d.String(), detail(nil))
		return
	}
	nIn, nOut := 0, 0
	for _, rf := range g.refs {
		gd := got[rf.Line]
		reported := len(gd) > 0
		dir := "in"
		if rf.Report {
			dir = "out"
			nOut++
		} else {
			nIn++
		}
		if c.Verbose {
			c.Logf("ref line %d %-14s %-34s %-40s expect_report=%v reported=%v", rf.Line, rf.Class, rf.Sub, rf.Text, rf.Report, reported)
		}
		if reported != rf.Report {
			kind := "missed"
			if reported {
				kind = "spurious"
			}
			sub := rf.Sub
			if strings.HasPrefix(rf.Verdict, "never:") {
				sub = "never-reported/" + strings.TrimPrefix(rf.Verdict, "never:")
				if rf.Verdict == "never:include-elem-expr" {
					// separate class: an include element expression of this job was itself reported as erroneous
					for _, o := range g.refs {
						if o.Job == rf.Job && o.Where == "matrix.include element" && len(got[o.Line]) > 0 {
							sub += "(element-reported-erroneous)"
							break
						}
					}
				}
			}
			sig := fmt.Sprintf("C05:%s:%s:%s", rf.Class, sub, kind)
			if reported && rf.lostToIndexCase(gd) && c05SilentWithLowerCaseLiterals(src, rf) {
				sig = "C05:index-literal-case:spurious"
			}
			if !reported && rf.Where == "matrix.include element" {
				sig = "C05:reference-inside-include-element-expression:missed"
			}
			if len(rf.OpPath) > 0 && c05BareVerdictDiffers(src, rf, reported) {
				// the same reference directly under toJSON() in the same scalar gets the other verdict:
				// the operand position, not the scope, decides
				sig = fmt.Sprintf("C05:operand-position:%s:%s", c05PathShape(rf.OpPath), kind)
			}
			what := fmt.Sprintf("reference `%s` (%s, %s) at line %d in %s: scope model says %s, so a `not defined` report is %s, but actionlint %s",
				rf.Text, rf.Class, rf.Sub, rf.Line, rf.Where, rf.Verdict, map[bool]string{true: "required", false: "forbidden"}[rf.Report],
				map[bool]string{true: "reported " + fmt.Sprint(diagStrings(gd)), false: "reported nothing"}[reported])
			c.Violation(sig, what, detail(map[string]interface{}{"reference": rf}))
			continue
		}
		c.SetAdd("observed", rf.Class+":"+dir)
		c.SetAdd("observed_sub", rf.Class+":"+rf.Sub+":"+rf.Verdict)
		if strings.HasPrefix(rf.Sub, "matrix-source") || rf.Class == "matrix-object-expr" || rf.Sub == "object-key" {
			c.SetAdd("matrix_object_expression", rf.Class+":"+rf.Sub+":"+rf.Verdict)
		}
		c.SetAdd("positions", rf.Where)
		c.SetAdd("styles", rf.Style)
		// operand-position coverage: operator path from the root of the expression to the reference
		np := c05NormPath(rf.OpPath)
		var labs []string
		for _, l := range rf.OpPath {
			if l != "()" {
				labs = append(labs, l)
				c.SetAdd("operand_positions", l+":"+dir)
			}
		}
		c.SetAdd("operand_depths", fmt.Sprintf("%d:%s", len(labs), dir))
		c.SetAdd("operand_paths", np+dir)
		for i, l := range labs {
			c.SetAdd("operand_positions_by_level", fmt.Sprintf("%d/%s:%s", i+1, strings.SplitN(l, "#", 2)[0], dir))
			if i+1 < len(labs) && c05IsLogical(l) && c05IsLogical(labs[i+1]) {
				c.SetAdd("logical_pairs", l+">"+labs[i+1]+":"+dir)
			}
		}
		for _, sh := range c05NarrowShapes {
			if strings.Contains(np, sh) {
				c.SetAdd("narrowing_shapes", sh+":"+dir)
			}
		}
		if reported {
			// informational: token position and named property (fixed by C07/C08, not by C05)
			exact := false
			for _, d := range gd {
				if d.Line == rf.Pos.Line && d.Col == rf.Pos.Col {
					exact = true
				}
			}
			if exact {
				c.Count("reported_at_exact_first_token", 1)
			} else {
				c.Count("reported_elsewhere_in_scalar", 1)
				c.SetAdd("inexact_position_styles", rf.Style)
			}
			if mm := c05NotDefinedRe.FindStringSubmatch(gd[0].Msg); mm != nil && c05Eq(mm[1], rf.BadSeg) {
				c.Count("named_property_is_first_undefined_segment", 1)
			} else {
				c.Count("named_property_differs", 1)
				if rf.lostToIndexCase(gd) {
					c.Count("named_property_differs_because_of_index_literal_case", 1)
				}
			}
			if len(gd) > 1 {
				c.Count("more_than_one_report_per_reference", 1)
			}
		}
	}
	c.Count("refs_expected_reported", nOut)
	c.Count("refs_expected_silent", nIn)
	if nIn > 0 && nOut > 0 {
		c.Nontrivial(src)
	}
	if c.Idx < 2 && prof == "mixed" {
		c.Sample(map[string]interface{}{"src": src, "diags": diagStrings(ds), "references": len(g.refs), "expected_reports": nOut})
	}
}

func runC05(r *Run) {
	r.Rule = "seeded workflow models (1-6 jobs incl. reusable-workflow-call jobs, random needs DAG, declared outputs, 1-6 steps with ids at random places, matrices with rows/include/exclude/nested mapping values, workflow_call and/or workflow_dispatch inputs, secrets, outputs; matrix / row / include / include element / value / step id given by ${{ }}) rendered to YAML with keys in random order, names in random letter case, dotted and index syntax, plain/quoted/block scalars; each reference sits at one operand position of a random operator/function tree of depth 0-5 (!, &&, ||, the six comparisons, parentheses, format/toJSON/fromJSON/contains/startsWith/endsWith arguments, index) whose other leaves are context-free literals, with floors over every operand position, every nested pair of logical positions, nesting levels 1-4 and the type-narrowing shapes (X && a || b, !(X || y) || z, ...); one reference per scalar and one reference-bearing scalar per line, at ~47 kinds of positions where the context is available. A scope model written from the statement decides per reference whether a `property ... is not defined in object type` diagnostic must exist on the line of its scalar. A dedicated family gives one job `matrix: ${{ needs.<job>.outputs | needs | inputs | vars | fromJSON(const) }}` whose object declares include, exclude, both or neither, and references every declared name (and the undeclared include/exclude) from that job, from the other jobs seeing the same entity and from the workflow level. quick 1200 workflows (~4.5e4 references), thorough 23000. Non-trivial = distinct workflow containing at least one reference that must be reported and one that must not."
	r.Assume("the generated workflows produce no diagnostics other than `property ... is not defined in object type` (any other diagnostic is reported as a violation of the harness domain)")
	r.Assume("comparison is per reference = per scalar (line of the scalar); the exact column is C07's, letter case of names C08's")
	r.Assume("excluded (statement silent): matrix.<name> for names a statically known matrix expression (context object, constant fromJSON) does not declare, properties of scalar/mixed matrix rows, nested properties not declared literally when include is an expression, outputs of reusable-workflow-call jobs, input default values, constant fromJSON('...') sections, ACTIONS_STEP_DEBUG/ACTIONS_RUNNER_DEBUG")

	mk := func(name string, q, t int) *Family {
		return &Family{Name: name, N: r.Q(q, t), Do: func(c *Case) { c05Check(c, name) }}
	}
	fams := []*Family{
		mk("mixed", 400, 8000),
		mk("steps", 150, 3000),
		mk("needs", 150, 3000),
		mk("matrix", 150, 3000),
		mk("events", 150, 3000),
		mk("matobj", 200, 3000),
	}
	r.RunFamilies(fams)
	if r.ReplayOf != nil {
		return
	}
	// coverage floors
	for _, cl := range c05Classes {
		for _, dir := range []string{"in", "out"} {
			if !r.SetHas("observed", cl+":"+dir) {
				r.Inconclusive(fmt.Sprintf("coverage floor: no agreeing reference of class %s / %s scope observed", cl, dir))
			}
		}
	}
	for _, l := range c05OperandLabels {
		for _, dir := range []string{"in", "out"} {
			if !r.SetHas("operand_positions", l+":"+dir) {
				r.Inconclusive(fmt.Sprintf("coverage floor: no reference (%s scope) observed at operand position %s", dir, l))
			}
		}
	}
	for _, a := range c05LogicalLabels {
		for _, b := range c05LogicalLabels {
			if !r.SetHas("logical_pairs", a+">"+b+":out") {
				r.Inconclusive("coverage floor: no out-of-scope reference observed under the nested logical operand positions " + a + ">" + b)
			}
		}
	}
	for _, sh := range c05NarrowShapes {
		for _, dir := range []string{"in", "out"} {
			if !r.SetHas("narrowing_shapes", sh+":"+dir) {
				r.Inconclusive(fmt.Sprintf("coverage floor: no reference (%s scope) observed at the type-narrowing operand shape %s", dir, sh))
			}
		}
	}
	for lv := 1; lv <= 4; lv++ {
		for _, l := range c05LogicalLabels {
			if !r.SetHas("operand_positions_by_level", fmt.Sprintf("%d/%s:out", lv, l)) {
				r.Inconclusive(fmt.Sprintf("coverage floor: no out-of-scope reference observed at operand position %s on nesting level %d", l, lv))
			}
		}
	}
	for _, need := range c05MatrixObjectFloors {
		if !r.SetHas("matrix_object_expression", need) {
			r.Inconclusive("coverage floor: matrix given by a context object: never observed: " + need)
		}
	}
	for _, need := range c05SubFloors {
		if !r.SetHas("observed_sub", need) {
			r.Inconclusive("coverage floor: reference sub-class never observed: " + need)
		}
	}
}

// `matrix: ${{ <context object> }}`: every name the object declares stays in scope for the job
// itself, for the other jobs that see the same entity and (inputs) for the workflow level; include
// and exclude are reported when the object does not declare them.
var c05MatrixObjectFloors = func() []string {
	var out []string
	add := func(class, place, kind string, names []string, dir string) {
		for _, n := range names {
			out = append(out, class+":"+place+"["+kind+"]/"+n+":"+dir)
		}
	}
	in := []string{"include", "exclude", "exclude-without-include", "other"}
	un := []string{"include", "exclude-without-include"}
	for _, place := range []string{"matrix-source", "matrix-source-other-job"} {
		add("needs-output", place, "needs-outputs", in, "in")
		add("needs-output", place, "needs-outputs", un, "out")
	}
	for _, place := range []string{"matrix-source", "matrix-source-other-job", "matrix-source-workflow"} {
		add("inputs", place, "inputs", in, "in")
		add("inputs", place, "inputs", un, "out")
	}
	add("needs-job", "matrix-source", "needs", []string{"include", "exclude-without-include", "other"}, "in")
	add("needs-job", "matrix-source", "needs", un, "out")
	for _, k := range []string{"needs-outputs", "needs", "inputs", "vars"} {
		out = append(out, "matrix-object-expr:"+k+":in")
	}
	out = append(out, "matrix-key:object-key:never:matrix-expr")
	return out
}()

// sub-classes the mutation classes of the design depend on
var c05SubFloors = []string{
	"steps-id:earlier:in", "steps-id:self:out", "steps-id:later:out", "steps-id:otherjob:out", "steps-id:any-step:in",
	"steps-out:earlier:in", "steps-out:self:out", "steps-out:later:out", "steps-out:otherjob:out", "steps-out:any-step:in",
	"needs-job:direct:in", "needs-job:transitive:out", "needs-job:unrelated:out",
	"needs-output:direct/declared:in", "needs-output:direct/undeclared:out", "needs-output:transitive/declared:out",
	"needs-result:direct:in", "needs-result:transitive:out",
	"matrix-key:row:in", "matrix-key:include-only:in", "matrix-key:otherjob:out", "matrix-key:bogus:out", "matrix-key:nomatrix:out",
	"matrix-nested:declared:in", "matrix-nested:include-only-prop:in", "matrix-nested:bogus-prop:out",
	"inputs:call:in", "inputs:dispatch:in", "inputs:bogus:out",
	"secrets:declared:in", "secrets:auto:in", "secrets:bogus:out", "secrets:bogus:never:secrets-not-declared",
	"jobs-output:declared:in", "jobs-output:undeclared:out", "jobs-output:bogus-job:out",
	"matrix-key:bogus:never:matrix-expr", "matrix-key:bogus:never:include-expr", "matrix-key:bogus:never:include-elem-expr", "matrix-nested:bogus-prop:never:row-expr",
}
