package main

// C01 — no input makes actionlint panic, crash or hang.
//
// Trace monitor around the real library and the real CLI. Cases run in worker child processes
// which journal the index of the case they are about to run, so that a runtime fatal error, a
// panic in a goroutine of LintFiles, a checkptr abort or a hang is attributed to the exact input.
// Hang verdicts: (a) busy: the case exhausts a CPU budget when re-run alone (RLIMIT_CPU);
// (b) quiescent deadlock: the worker makes no CPU progress, has no child process and all of its
// threads sleep over several samples while a case is unfinished. Wall-clock alone is never a verdict.

import (
	"bufio"
	"bytes"
	"encoding/binary"
	"encoding/json"
	"fmt"
	"io"
	"os"
	"os/exec"
	"path/filepath"
	"regexp"
	"runtime/debug"
	"sort"
	"strconv"
	"strings"
	"sync"
	"sync/atomic"
	"syscall"
	"time"

	"github.com/rhysd/actionlint"
)

func init() {
	registry["C01"] = runC01
	subcommands["c01-worker"] = c01WorkerMain
}

const (
	c01CaseCPUBudget = 20  // seconds of CPU in a shared worker before the case is re-run alone
	c01SoloCPUBudget = 300 // seconds of CPU for the solo re-run
)

// ---------------------------------------------------------------------------
// worker side

type c01Result struct {
	Idx     int    `json:"i"`
	Sig     string `json:"sig,omitempty"`
	What    string `json:"what,omitempty"`
	Stack   string `json:"stack,omitempty"`
	Outcome string `json:"o"` // clean | diags | fatal | skip
	Class   string `json:"c,omitempty"`
}

var c01MsgNorm = regexp.MustCompile(`"(?:[^"\\]|\\.)*"|'[^']*'|[0-9]+`)

func c01MsgClass(m string) string {
	m = c01MsgNorm.ReplaceAllString(m, "_")
	if len(m) > 70 {
		m = m[:70]
	}
	return m
}

func c01CPUSeconds() float64 {
	var ru syscall.Rusage
	syscall.Getrusage(syscall.RUSAGE_SELF, &ru)
	return float64(ru.Utime.Sec+ru.Stime.Sec) + float64(ru.Utime.Usec+ru.Stime.Usec)/1e6
}

func c01WorkerMain(args []string) {
	if len(args) != 7 {
		fmt.Fprintln(os.Stderr, "usage: c01-worker tier seed family from to journal scratch")
		os.Exit(10)
	}
	tier := args[0]
	seed, _ := strconv.ParseUint(args[1], 10, 64)
	famName := args[2]
	from, _ := strconv.Atoi(args[3])
	to, _ := strconv.Atoi(args[4])
	journal, err := os.OpenFile(args[5], os.O_CREATE|os.O_WRONLY, 0o644)
	if err != nil {
		fmt.Fprintln(os.Stderr, "journal:", err)
		os.Exit(10)
	}
	scratch := args[6]
	var fam *c01Family
	for _, f := range c01Families(tier) {
		if f.Name == famName {
			fam = f
		}
	}
	if fam == nil {
		fmt.Fprintln(os.Stderr, "unknown family", famName)
		os.Exit(10)
	}
	out := bufio.NewWriterSize(os.Stdout, 1<<16)
	defer out.Flush()
	if fam.Name == "special-paths" {
		// reading a device that never reaches EOF must end in a runtime "out of memory" crash of
		// this worker (attributed to the case), not in exhausting the machine
		lim := syscall.Rlimit{Cur: 3 << 30, Max: 3 << 30}
		syscall.Setrlimit(9 /* RLIMIT_AS */, &lim)
	}

	var caseStartCPU atomic.Value
	var curIdx int64 = -1
	caseStartCPU.Store(c01CPUSeconds())
	go func() { // CPU watchdog (busy hang inside the library)
		if os.Getenv("VERIF_C01_NO_WD") == "1" {
			return // solo re-run: RLIMIT_CPU decides
		}
		for {
			time.Sleep(250 * time.Millisecond)
			if c01CPUSeconds()-caseStartCPU.Load().(float64) > c01CaseCPUBudget {
				out.Flush()
				fmt.Fprintf(os.Stdout, "\nHANGCPU\t%d\n", atomic.LoadInt64(&curIdx))
				os.Exit(98)
			}
		}
	}()

	var jb [8]byte
	for idx := from; idx < to; idx++ {
		binary.LittleEndian.PutUint64(jb[:], uint64(idx))
		journal.WriteAt(jb[:], 0)
		atomic.StoreInt64(&curIdx, int64(idx))
		caseStartCPU.Store(c01CPUSeconds())
		r := NewRand(seed, "C01", fam.Name).Sub(idx)
		c := fam.Gen(r, idx)
		res := c01RunCase(&c, idx, scratch)
		b, _ := json.Marshal(res)
		out.Write(b)
		out.WriteByte('\n')
		if idx%64 == 0 {
			out.Flush()
		}
	}
	binary.LittleEndian.PutUint64(jb[:], ^uint64(0))
	journal.WriteAt(jb[:], 0)
	out.WriteString("DONE\n")
}

var c01PrevSpecial bool

func c01WriteProject(root string, c *c01Case) {
	if c01PrevSpecial || len(c.Special) > 0 {
		os.RemoveAll(root) // special files of the previous case must not leak into this one
		os.MkdirAll(root, 0o755)
	}
	c01PrevSpecial = len(c.Special) > 0
	if c.NoRepo {
		os.RemoveAll(filepath.Join(root, ".git"))
	} else {
		os.MkdirAll(filepath.Join(root, ".git"), 0o755)
	}
	for _, p := range c01Channels {
		os.Remove(filepath.Join(root, p))
	}
	writeFiles(root, c.Files)
	for rel, kind := range c.Special {
		p := filepath.Join(root, rel)
		os.MkdirAll(filepath.Dir(p), 0o755)
		os.RemoveAll(p)
		switch {
		case kind == "fifo":
			syscall.Mkfifo(p, 0o644)
		case kind == "dir":
			os.MkdirAll(p, 0o755)
		case strings.HasPrefix(kind, "symlink:"):
			os.Symlink(strings.TrimPrefix(kind, "symlink:"), p)
		}
	}
}

// c01RunCase executes one case and classifies the outcome. Only panics, crashes, bad exit statuses
// and hangs are violations; any list of diagnostics and any fatal error are acceptable.
func c01RunCase(c *c01Case, idx int, scratch string) (res c01Result) {
	res.Idx = idx
	if c.Skip {
		res.Outcome = "skip"
		return
	}
	if !c.NoRepo && len(c.Special) == 0 && !c.Tool && idx%10 == 4 {
		c.NoRepo = true // a share of all cases lives outside any repository (no project, null caches)
		if c.Mode == "lib-file" {
			c.Mode = "lib-files"
		}
	}
	c01WriteProject(scratch, c)
	wpath := filepath.Join(scratch, c01PathWorkflow)
	if c.Mode == "cli" || c.Mode == "cli-stdin" {
		return c01RunCLI(c, idx, scratch)
	}
	defer func() {
		if p := recover(); p != nil {
			st := string(debug.Stack())
			res.Sig = "C01:panic:" + panicSite(st)
			res.What = fmt.Sprintf("panic: %v", p)
			res.Stack = st
			res.Outcome = "panic"
		}
	}()
	opts := actionlint.LinterOptions{WorkingDir: scratch}
	if c.Tool {
		opts.Shellcheck = filepath.Join(binDir(), "faketool")
		opts.Pyflakes = filepath.Join(binDir(), "faketool")
	}
	if c01Big(c) {
		// Every diagnostic's snippet echoes its whole source line, so K diagnostics on one line of
		// L bytes legitimately cost K*L to print (2 GB for 32000 glob errors on a 64 KiB line).
		// That is output size, not a hang: large inputs are linted without snippets. Snippet
		// rendering of hostile positions is C16's subject.
		opts.Oneline = true
	} else if idx%7 == 3 {
		opts.Format = "{{json .}}"
	} else if idx%11 == 5 {
		opts.Oneline = true
	}
	var buf bytes.Buffer
	l, err := actionlint.NewLinter(&buf, &opts)
	if err != nil {
		res.Outcome = "fatal"
		return
	}
	var errs []*actionlint.Error
	switch c.Mode {
	case "lib-files":
		errs, err = l.LintFiles([]string{wpath, filepath.Join(scratch, c01PathReusable)}, nil)
	case "lib-content":
		errs, err = l.Lint(wpath, []byte(c.Files[c01PathWorkflow]), nil)
	default:
		errs, err = l.LintFile(wpath, nil)
	}
	switch {
	case err != nil:
		res.Outcome = "fatal"
		res.Class = "fatal: " + c01MsgClass(err.Error())
	case len(errs) > 0:
		res.Outcome = "diags"
		res.Class = errs[0].Kind + ": " + c01MsgClass(errs[0].Message)
	default:
		res.Outcome = "clean"
	}
	return
}

// c01Big: some file of the case is larger than 8 KiB.
func c01Big(c *c01Case) bool {
	for _, v := range c.Files {
		if len(v) > 8192 {
			return true
		}
	}
	return false
}

var c01CrashRe = regexp.MustCompile(`(?m)^(panic: |fatal error: |goroutine \d+ \[)`)

func c01RunCLI(c *c01Case, idx int, scratch string) (res c01Result) {
	res.Idx = idx
	bin := filepath.Join(binDir(), "actionlint")
	tool := ""
	if c.Tool {
		tool = filepath.Join(binDir(), "faketool")
	}
	// CPU limit through the shell so that a busy hang of the CLI is a CPU verdict, not a wall-clock one
	target := c01PathWorkflow
	if c.Mode == "cli-stdin" {
		target = "-" // the workflow arrives on standard input
	}
	oneline := ""
	if c01Big(c) {
		oneline = "-oneline"
	}
	script := fmt.Sprintf("ulimit -t %d; ulimit -v 3000000; exec %q -no-color %s -shellcheck=%q -pyflakes=%q %q", c01SoloCPUBudget, bin, oneline, tool, tool, target)
	cmd := exec.Command("/bin/sh", "-c", script)
	cmd.Dir = scratch
	if c.Mode == "cli-stdin" {
		cmd.Stdin = strings.NewReader(c.Files[c01PathWorkflow])
	}
	var so, se bytes.Buffer
	cmd.Stdout, cmd.Stderr = &so, io.MultiWriter(&se, os.Stderr) // a goroutine dump of a killed CLI reaches the parent
	err := cmd.Run()
	code := 0
	if ee, ok := err.(*exec.ExitError); ok {
		if ws, ok := ee.Sys().(syscall.WaitStatus); ok && ws.Signaled() {
			if ws.Signal() == syscall.SIGXCPU || ws.Signal() == syscall.SIGKILL {
				res.Sig, res.What, res.Outcome = "C01:cli-hang-cpu", fmt.Sprintf("CLI exhausted %d s of CPU time", c01SoloCPUBudget), "hang"
				return
			}
			res.Sig, res.What, res.Outcome = "C01:cli-killed-by-signal", "CLI died from signal "+ws.Signal().String()+"; stderr: "+truncate(se.String(), 1500), "crash"
			return
		}
		code = ee.ExitCode()
	} else if err != nil {
		res.Outcome = "skip"
		return
	}
	if c01CrashRe.MatchString(se.String()) || c01CrashRe.MatchString(so.String()) {
		res.Sig, res.What, res.Stack, res.Outcome = "C01:cli-crash:"+panicSite(se.String()), "CLI printed a Go crash report; exit status "+strconv.Itoa(code), truncate(se.String(), 6000), "crash"
		return
	}
	switch code {
	case 0:
		res.Outcome = "clean"
	case 1:
		res.Outcome = "diags"
		if l := strings.SplitN(so.String(), "\n", 2); len(l) > 0 {
			res.Class = "cli: " + c01MsgClass(l[0])
		}
	case 3:
		res.Outcome = "fatal"
		res.Class = "cli fatal: " + c01MsgClass(se.String())
	default:
		res.Sig, res.What, res.Outcome = "C01:cli-exit-status", fmt.Sprintf("CLI exit status %d is outside {0,1,3}; stderr: %s", code, truncate(se.String(), 1500)), "crash"
	}
	return
}

// ---------------------------------------------------------------------------
// parent side

type c01Task struct {
	fam      *c01Family
	from, to int
	race     bool
}

func c01ProcCPUAndState(pid int) (cpuTicks uint64, allSleeping bool, nthreads int) {
	allSleeping = true
	ents, err := os.ReadDir(fmt.Sprintf("/proc/%d/task", pid))
	if err != nil {
		return 0, false, 0
	}
	for _, e := range ents {
		b, err := os.ReadFile(fmt.Sprintf("/proc/%d/task/%s/stat", pid, e.Name()))
		if err != nil {
			continue
		}
		s := string(b)
		i := strings.LastIndex(s, ")")
		if i < 0 {
			continue
		}
		f := strings.Fields(s[i+1:])
		if len(f) < 13 {
			continue
		}
		nthreads++
		if f[0] != "S" {
			allSleeping = false
		}
		ut, _ := strconv.ParseUint(f[11], 10, 64)
		st, _ := strconv.ParseUint(f[12], 10, 64)
		cpuTicks += ut + st
	}
	return
}

// c01Descendants lists the live descendants of pid (children, grandchildren, ...).
func c01Descendants(pid int) []int {
	ents, err := os.ReadDir("/proc")
	if err != nil {
		return nil
	}
	parent := map[int]int{}
	for _, e := range ents {
		p, err := strconv.Atoi(e.Name())
		if err != nil {
			continue
		}
		b, err := os.ReadFile("/proc/" + e.Name() + "/stat")
		if err != nil {
			continue
		}
		s := string(b)
		i := strings.LastIndex(s, ")")
		if i < 0 {
			continue
		}
		f := strings.Fields(s[i+1:])
		if len(f) > 1 {
			pp, _ := strconv.Atoi(f[1])
			parent[p] = pp
		}
	}
	var out []int
	for p := range parent {
		for q, hops := p, 0; q != 0 && q != 1 && hops < 64; q, hops = parent[q], hops+1 {
			if parent[q] == pid {
				out = append(out, p)
				break
			}
		}
	}
	sort.Ints(out)
	return out
}

// c01SubtreeState sums CPU ticks and thread states over a process and all of its descendants.
func c01SubtreeState(pid int) (ticks uint64, allSleeping bool, nthreads int, procs []int) {
	procs = append([]int{pid}, c01Descendants(pid)...)
	allSleeping = true
	for _, p := range procs {
		t, s, n := c01ProcCPUAndState(p)
		ticks += t
		nthreads += n
		if n > 0 && !s {
			allSleeping = false
		}
	}
	return
}

func c01Wchans(pid int) []string {
	var out []string
	ents, _ := os.ReadDir(fmt.Sprintf("/proc/%d/task", pid))
	for _, e := range ents {
		if b, err := os.ReadFile(fmt.Sprintf("/proc/%d/task/%s/wchan", pid, e.Name())); err == nil {
			out = append(out, string(b))
		}
	}
	return out
}

func c01ReadJournal(path string) int {
	b, err := os.ReadFile(path)
	if err != nil || len(b) < 8 {
		return -1
	}
	v := binary.LittleEndian.Uint64(b[:8])
	if v == ^uint64(0) {
		return -2
	}
	return int(v)
}

type c01Parent struct {
	hangConfirmed int32
	r             *Run
	scratch       string
	mu            sync.Mutex
	outcomes      map[string]int64
}

// runTask runs one worker over [from,to); on a crash or hang it records the culprit and returns the
// index to resume from (or -1 when finished).
func (p *c01Parent) runTask(t c01Task, slot int) {
	r := p.r
	from := t.from
	for from < t.to {
		wdir := filepath.Join(p.scratch, fmt.Sprintf("w%d", slot))
		os.MkdirAll(wdir, 0o755)
		journal := filepath.Join(p.scratch, fmt.Sprintf("journal%d", slot))
		os.Remove(journal)
		bin := filepath.Join(binDir(), "verifmon")
		if t.race {
			bin = filepath.Join(binDir(), "verifmon-race")
		}
		cmd := exec.Command(bin, "c01-worker", r.Tier, strconv.FormatUint(r.Seed, 10), t.fam.Name, strconv.Itoa(from), strconv.Itoa(t.to), journal, wdir)
		racelog := filepath.Join(p.scratch, fmt.Sprintf("race%d", slot))
		cmd.Env = append(os.Environ(), "GORACE=halt_on_error=0 log_path="+racelog, "GOTRACEBACK=all")
		var stderr bytes.Buffer
		cmd.Stderr = &stderr
		stdout, _ := cmd.StdoutPipe()
		if err := cmd.Start(); err != nil {
			r.Inconclusive("cannot start worker: " + err.Error())
			return
		}
		// quiescent-deadlock monitor
		stop := make(chan struct{})
		deadlock := make(chan string, 1)
		go func() {
			pid := cmd.Process.Pid
			var lastCPU uint64
			lastIdx := -99
			still := 0
			for {
				select {
				case <-stop:
					return
				case <-time.After(5 * time.Second):
				}
				cpu, sleeping, nt, procs := c01SubtreeState(pid)
				idx := c01ReadJournal(journal)
				// the runtime's background threads wake up now and then: allow one clock tick per process
				if nt > 0 && sleeping && cpu <= lastCPU+uint64(len(procs)) && idx == lastIdx && idx >= 0 {
					still++
				} else {
					still = 0
				}
				lastCPU, lastIdx = cpu, idx
				if still >= 4 {
					var wch []string
					for _, q := range procs {
						wch = append(wch, fmt.Sprintf("pid %d: %v", q, c01Wchans(q)))
					}
					info := fmt.Sprintf("no CPU progress over %d samples of 5 s in the worker and its %d descendant processes, all %d threads asleep; wchan: %s", still, len(procs)-1, nt, strings.Join(wch, "; "))
					deadlock <- info // before the signals: the worker exits as soon as it has dumped its goroutines
					for i := len(procs) - 1; i >= 1; i-- {
						syscall.Kill(procs[i], syscall.SIGQUIT)
					}
					cmd.Process.Signal(syscall.SIGQUIT) // goroutine dump to stderr
					time.Sleep(500 * time.Millisecond)
					for i := len(procs) - 1; i >= 1; i-- {
						syscall.Kill(procs[i], syscall.SIGKILL)
					}
					cmd.Process.Kill()
					return
				}
			}
		}()
		done := false
		hangCPU := -1
		sc := bufio.NewScanner(stdout)
		sc.Buffer(make([]byte, 1<<20), 1<<24)
		for sc.Scan() {
			line := sc.Text()
			if line == "DONE" {
				done = true
				continue
			}
			if strings.HasPrefix(line, "HANGCPU\t") {
				hangCPU, _ = strconv.Atoi(strings.TrimPrefix(line, "HANGCPU\t"))
				continue
			}
			if line == "" {
				continue
			}
			var res c01Result
			if json.Unmarshal([]byte(line), &res) != nil {
				continue
			}
			p.absorb(t, &res)
		}
		err := cmd.Wait()
		close(stop)
		// race reports are decided by C10; count them here
		if ms, _ := filepath.Glob(racelog + ".*"); len(ms) > 0 {
			for _, m := range ms {
				if b, e := os.ReadFile(m); e == nil {
					r.Count("race_reports_seen_decided_by_C10", strings.Count(string(b), "WARNING: DATA RACE"))
				}
				os.Remove(m)
			}
		}
		if done && err == nil {
			return
		}
		culprit := c01ReadJournal(journal)
		var dl string
		select {
		case dl = <-deadlock:
		default:
		}
		if culprit < from || culprit >= t.to {
			r.Inconclusive(fmt.Sprintf("worker for %s[%d,%d) ended abnormally (%v) without a usable journal; stderr: %s", t.fam.Name, from, t.to, err, truncate(stderr.String(), 800)))
			return
		}
		cs := t.fam.Gen(NewRand(r.Seed, "C01", t.fam.Name).Sub(culprit), culprit)
		detail := map[string]interface{}{"case": cs, "worker_stderr": truncate(stderr.String(), 20000), "race_build": t.race}
		switch {
		case dl != "":
			r.Eval(1)
			r.violationAt(t.fam.Name, culprit, "C01:hang-deadlock:"+c01BlockedSite(stderr.String()), "linting blocks forever (quiescent deadlock): "+cs.Desc+"; "+dl, detail)
		case hangCPU >= 0 && atomic.LoadInt32(&p.hangConfirmed) == 1:
			// a busy hang has already been confirmed (and reported) in this run: do not spend
			// another solo CPU budget on every further suspect
			r.Eval(1)
			r.Count("hang_suspects_not_reconfirmed", 1)
		case hangCPU >= 0:
			r.Eval(1)
			if p.soloHang(t, culprit) {
				atomic.StoreInt32(&p.hangConfirmed, 1)
				r.violationAt(t.fam.Name, culprit, "C01:hang-cpu", fmt.Sprintf("linting did not finish within %d s of CPU time when run alone: %s", c01SoloCPUBudget, cs.Desc), detail)
			} else {
				r.Count("slow_cases", 1)
			}
		default:
			r.Eval(1)
			st := stderr.String()
			r.violationAt(t.fam.Name, culprit, "C01:crash:"+c01Site(st), fmt.Sprintf("process died (%v) while linting: %s; %s", err, cs.Desc, firstLine(st)), detail)
		}
		from = culprit + 1
	}
}

func firstLine(s string) string {
	for _, l := range strings.Split(s, "\n") {
		if strings.HasPrefix(l, "panic:") || strings.HasPrefix(l, "fatal error:") {
			return l
		}
	}
	return truncate(s, 200)
}

// c01Site finds the innermost actionlint frame of a crash report.
func c01Site(stderr string) string {
	lines := strings.Split(stderr, "\n")
	for _, l := range lines {
		if strings.HasPrefix(l, "github.com/rhysd/actionlint.") {
			fn := l
			if j := strings.LastIndex(fn, "("); j > 0 {
				fn = fn[:j]
			}
			return strings.TrimPrefix(fn, "github.com/rhysd/actionlint.")
		}
	}
	return "unknown"
}

// c01BlockedSite finds, in a goroutine dump, the innermost actionlint frame of the first goroutine
// that is blocked in I/O or a system call (falls back to the first actionlint frame).
func c01BlockedSite(dump string) string {
	blocks := strings.Split(dump, "\n\ngoroutine ")
	for _, b := range blocks {
		head := b
		if i := strings.Index(b, "\n"); i >= 0 {
			head = b[:i]
		}
		if strings.Contains(head, "IO wait") || strings.Contains(head, "syscall") {
			if s := c01Site(b); s != "unknown" {
				return s
			}
		}
	}
	return c01Site(dump)
}

func (p *c01Parent) soloHang(t c01Task, idx int) bool {
	wdir := filepath.Join(p.scratch, fmt.Sprintf("solo%d", idx))
	os.MkdirAll(wdir, 0o755)
	defer os.RemoveAll(wdir)
	journal := filepath.Join(wdir, "journal")
	cmd := exec.Command(filepath.Join(binDir(), "verifmon"), "c01-worker", p.r.Tier, strconv.FormatUint(p.r.Seed, 10), t.fam.Name, strconv.Itoa(idx), strconv.Itoa(idx+1), journal, wdir)
	cmd.Env = append(os.Environ(), fmt.Sprintf("VERIF_CPU_LIMIT=%d", c01SoloCPUBudget), "VERIF_C01_NO_WD=1")
	err := cmd.Run()
	if ee, ok := err.(*exec.ExitError); ok {
		if ws, ok := ee.Sys().(syscall.WaitStatus); ok && ws.Signaled() && (ws.Signal() == syscall.SIGXCPU || ws.Signal() == syscall.SIGKILL) {
			return true
		}
		if ee.ExitCode() == 98 {
			return true // the in-worker budget fired again while alone: still far beyond normal cost
		}
	}
	return false
}

func (p *c01Parent) absorb(t c01Task, res *c01Result) {
	r := p.r
	r.Eval(1)
	tag := ""
	if t.race {
		tag = "race:"
	}
	r.Count("outcome_"+res.Outcome, 1)
	if t.race {
		r.Count("cases_under_race_build", 1)
	}
	if res.Sig != "" {
		cs := t.fam.Gen(NewRand(r.Seed, "C01", t.fam.Name).Sub(res.Idx), res.Idx)
		r.violationAt(t.fam.Name, res.Idx, res.Sig, res.What+" — "+cs.Desc, map[string]interface{}{"case": cs, "stack": res.Stack, "race_build": t.race})
		return
	}
	switch res.Outcome {
	case "diags", "fatal":
		r.Nontrivial(fmt.Sprintf("%s%s/%d", tag, t.fam.Name, res.Idx))
		if res.Class != "" {
			r.SetAdd("handled_as", res.Class)
		}
	}
	if res.Idx < 3 && !t.race && (res.Outcome == "diags" || res.Outcome == "fatal") {
		cs := t.fam.Gen(NewRand(r.Seed, "C01", t.fam.Name).Sub(res.Idx), res.Idx)
		files := map[string]string{}
		for k, v := range cs.Files {
			if v != c01BaseFiles()[k] {
				files[k] = truncate(v, 600)
			}
		}
		r.Sample(map[string]interface{}{"family": t.fam.Name, "index": res.Idx, "desc": cs.Desc, "mode": cs.Mode, "hostile_files": files, "outcome": res.Outcome, "first": res.Class})
	}
}

func runC01(r *Run) {
	r.Rule = "hostile inputs on the four channels (workflow, local action metadata, local reusable workflow, actionlint.yaml): complete YAML kind x tag x position matrix over maximal templates, raw YAML snippets, seeded byte mutations of the repository's corpus, expression fuzz at 32 expression positions, hostile strings at 32 string-parsing positions, scripts up to 300 KB handed to (fake) external tools; each through LintFile / LintFiles / Lint or the real CLI, a share under the -race build (checkptr). Non-trivial = distinct case whose input was visibly handled (>=1 diagnostic or a fatal error) rather than being accepted as clean."
	r.Assume("bounded time is observed as: no case exceeds 300 s CPU alone, and no worker is quiescent (no CPU progress, all threads asleep, no children) with an unfinished case")
	r.Assume("hostile files are bounded to 64 KiB (the quantifier's bound); only the tool-scripts family uses larger run: scripts (up to 300 KB)")
	fams := c01Families(r.Tier)
	if r.ReplayOf != nil {
		c01Replay(r, fams)
		return
	}
	scratch := mkScratch("c01")
	defer os.RemoveAll(scratch)
	p := &c01Parent{r: r, scratch: scratch}
	var tasks []c01Task
	for _, f := range fams {
		if only := os.Getenv("VERIF_ONLY_FAMILY"); only != "" && only != f.Name {
			continue // development aid; never set by registered commands
		}
		chunk := 400
		if f.Name == "tool-scripts" {
			chunk = 12
		}
		if f.Name == "special-paths" {
			chunk = 6
		}
		for from := 0; from < f.N; from += chunk {
			to := from + chunk
			if to > f.N {
				to = f.N
			}
			tasks = append(tasks, c01Task{fam: f, from: from, to: to})
		}
	}
	// 10% of the chunks are repeated under the race build (adds checkptr)
	nplain := len(tasks)
	if _, err := os.Stat(filepath.Join(binDir(), "verifmon-race")); err == nil {
		for i := 0; i < nplain; i++ {
			if mix64(uint64(i)^r.Seed)%10 == 0 && tasks[i].fam.Name != "special-paths" {
				t := tasks[i]
				t.race = true
				tasks = append(tasks, t)
			}
		}
	} else {
		r.Inconclusive("race build of the monitor is missing")
	}
	var next int64 = -1
	var wg sync.WaitGroup
	nw := 16
	for w := 0; w < nw; w++ {
		wg.Add(1)
		go func(slot int) {
			defer wg.Done()
			for {
				i := int(atomic.AddInt64(&next, 1))
				if i >= len(tasks) {
					return
				}
				p.runTask(tasks[i], slot)
			}
		}(w)
	}
	wg.Wait()
	for _, f := range fams {
		r.Extra("cases_"+f.Name, f.N)
	}
	r.Extra("matrix_variants", len(c01Variants()))
	r.SetExhaustive(false)
	r.Extra("exhaustive_part", "the raw snippet list and the kind/alias/merge/depth x position matrix are enumerated completely in both tiers; the tag x text x position product completely in the thorough tier (quick: a rotating window of 16 of the 176 tag x text scalars per position)")
}

func c01Replay(r *Run, fams []*c01Family) {
	for _, f := range fams {
		if f.Name != r.ReplayOf.Family {
			continue
		}
		idx := r.ReplayOf.Index
		cs := f.Gen(NewRand(r.Seed, "C01", f.Name).Sub(idx), idx)
		fmt.Printf("replaying C01 %s[%d]: %s (mode %s)\n", f.Name, idx, cs.Desc, cs.Mode)
		scratch := mkScratch("c01r")
		defer os.RemoveAll(scratch)
		p := &c01Parent{r: r, scratch: scratch}
		p.runTask(c01Task{fam: f, from: idx, to: idx + 1}, 0)
		return
	}
	r.Inconclusive("replay: unknown family")
}

func init() {
	subcommands["c01-show"] = func(args []string) {
		// c01-show tier seed family idx : prints the generated case as JSON
		seed, _ := strconv.ParseUint(args[1], 10, 64)
		idx, _ := strconv.Atoi(args[3])
		for _, f := range c01Families(args[0]) {
			if f.Name == args[2] {
				cs := f.Gen(NewRand(seed, "C01", f.Name).Sub(idx), idx)
				b, _ := json.MarshalIndent(cs, "", " ")
				os.Stdout.Write(b)
			}
		}
	}
}

func init() {
	subcommands["c01-scan"] = func(args []string) {
		// c01-scan tier seed family minLine : lists cases whose hostile file has a very long line
		seed, _ := strconv.ParseUint(args[1], 10, 64)
		minLine, _ := strconv.Atoi(args[3])
		for _, f := range c01Families(args[0]) {
			if f.Name != args[2] {
				continue
			}
			for idx := 0; idx < f.N; idx++ {
				cs := f.Gen(NewRand(seed, "C01", f.Name).Sub(idx), idx)
				for k, v := range cs.Files {
					if v == c01BaseFiles()[k] {
						continue
					}
					max := 0
					for _, l := range strings.Split(v, "\n") {
						if len(l) > max {
							max = len(l)
						}
					}
					if max >= minLine {
						fmt.Printf("%d\t%s\tsize=%d\tmaxline=%d\tmode=%s\n", idx, k, len(v), max, cs.Mode)
					}
				}
			}
		}
	}
}
