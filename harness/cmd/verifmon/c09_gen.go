package main

// C09 generators: a workflow header, independently generated jobs (each with its own defects and its
// own "state-touching" constructs) and steps, plus the expression soup used inside them. All names
// (matrix properties, step ids, job ids, output names) are drawn from small shared pools so that a
// reference that does not resolve in its own job would resolve against state leaked from another
// job.

import (
	"fmt"
	"strings"
)

// c09Step is one element of a "steps:" sequence, already rendered at its final indentation.
type c09Step struct {
	Lines []string
	ID    string // lower-cased id defined by the step; "" if it defines none
	Tag   int    // stable identity of the step inside its job (used to name buckets)
}

// c09Job is one independently generated job. Head holds the lines from the "<id>:" line down to
// (and including) "steps:"; the job text is Head + steps.
type c09Job struct {
	ID    string
	Needs []int // indices into the pool (always smaller than the job's own index)
	Head  []string
	Steps []*c09Step
	Feats []string
}

func (j *c09Job) lines() []string {
	out := append([]string{}, j.Head...)
	for _, s := range j.Steps {
		out = append(out, s.Lines...)
	}
	return out
}

type c09Gen struct {
	r       *Rand
	ids     []string // job ids of the pool
	inputs  bool     // the header declares workflow inputs (include, exclude, foo)
	noShell bool     // the header must not set a workflow default shell
	feats   []string
}

func (g *c09Gen) feat(f string) { g.feats = append(g.feats, f) }

var c09JobIDPool = []string{"build", "Test", "lint_3", "deploy-x", "j4", "E2E", "pkg", "Docs"}
var c09MatrixProps = []string{"x", "y", "os", "cfg"}
var c09StepIDs = []string{"build", "test", "s1", "Cache", "pub"}

func c09Indent(n int, s string) string { return strings.Repeat(" ", n) + s }

// ---------------------------------------------------------------------------
// expression soup

func (g *c09Gen) lit() string {
	return g.r.Pick([]string{"'a'", "'linux'", "42", "1.5", "true", "false", "null", "''", "0"})
}

func (g *c09Gen) stepRef() string {
	id := g.r.Pick(c09StepIDs)
	switch g.r.Intn(3) {
	case 0:
		id = strings.ToLower(id)
	case 1:
		id = strings.ToUpper(id)
	}
	return id
}

func (g *c09Gen) atom() string {
	r := g.r
	switch r.Intn(16) {
	case 0, 1, 2, 3:
		p := r.Pick(c09MatrixProps)
		return "matrix." + p + r.Pick([]string{"", "", ".a", ".b", ".*", ".*.a", "[0]", "[0].a", ".a.*", ".a[0]", ".*.b"})
	case 4, 5, 6:
		if r.Chance(1, 5) {
			return r.Pick([]string{"steps.*.outputs", "steps.*.outputs.v", "steps.*.outcome", "toJSON(steps)", "steps.*.outputs.*"})
		}
		return "steps." + g.stepRef() + r.Pick([]string{".outputs.v", ".outputs.cache-hit", ".outputs.o1", ".outcome", ".conclusion", ".outputs", ".result", ".outputs.commit"})
	case 7, 8:
		if r.Chance(1, 4) {
			return r.Pick([]string{"needs.*.result", "needs.*.outputs", "needs.*.outputs.o1", "toJSON(needs)"})
		}
		return "needs." + strings.ToLower(r.Pick(g.ids)) + r.Pick([]string{".outputs.o1", ".outputs.o2", ".outputs.include", ".result", ".outputs", ".outputs.exclude"})
	case 9:
		return r.Pick([]string{"github.sha", "github.ref", "github.event_name", "github.actor", "github.event.number", "github.nope", "github.event"})
	case 10:
		return r.Pick([]string{"github.event.pull_request.title", "github.head_ref", "github.event.issue.body", "github.event.pull_request.head.ref", "github.event.commits.*.message"})
	case 11:
		return r.Pick([]string{"env.FOO", "env.CI_X", "secrets.TOKEN", "secrets.GITHUB_TOKEN", "vars.V1", "vars.GITHUB_X"})
	case 12:
		return r.Pick([]string{"runner.os", "runner.temp", "job.status", "job.container.id", "job.services.db.id", "strategy.job-index", "strategy.fail-fast", "runner.nope"})
	case 13:
		return r.Pick([]string{"inputs.foo", "inputs.include", "inputs.exclude", "inputs.nope", "github.event.inputs.foo", "github.event.inputs.include"})
	case 14:
		return g.lit()
	default:
		return r.Pick([]string{"success()", "always()", "failure()", "cancelled()", "hashFiles('**/go.sum')", "hashFiles()", "undefinedfn(1)", "matrix", "steps", "needs", "nosuchctx.a"})
	}
}

func (g *c09Gen) expr(depth int) string {
	r := g.r
	if depth <= 0 || r.Chance(1, 2) {
		return g.atom()
	}
	a := g.expr(depth - 1)
	switch r.Intn(15) {
	case 0:
		return a + " == " + g.lit()
	case 1:
		return a + " != " + g.expr(depth-1)
	case 2:
		return a + " && " + g.expr(depth-1)
	case 3:
		return a + " || " + g.expr(depth-1)
	case 4:
		return "!" + a
	case 5:
		return "contains(" + a + ", " + g.lit() + ")"
	case 6:
		return "format('{0}-{1}', " + a + ", " + g.expr(depth-1) + ")"
	case 7:
		return "join(" + a + ", ',')"
	case 8:
		return "toJSON(" + a + ")"
	case 9:
		return "fromJSON(" + a + ")" + r.Pick([]string{"", ".k", "[0]", ".*"})
	case 10:
		return "(" + a + ")"
	case 11:
		return a + " < 3"
	case 12:
		return "format('{0}', " + a + ", " + g.lit() + ")"
	case 13:
		return "startsWith(" + a + ", 'a')"
	default:
		// syntax errors
		return a + r.Pick([]string{" +", ".", " ==", " 'x", " )"})
	}
}

// tmpl returns text for a template position (a scalar with zero or more placeholders).
func (g *c09Gen) tmpl(word string) string {
	r := g.r
	switch r.Intn(5) {
	case 0:
		return word
	case 1, 2:
		return word + " ${{ " + g.expr(2) + " }}"
	case 3:
		return "${{ " + g.expr(2) + " }}"
	default:
		return word + " ${{ " + g.expr(1) + " }} and ${{ " + g.expr(1) + " }}"
	}
}

// cond returns an if: condition.
func (g *c09Gen) cond() string {
	r := g.r
	e := g.expr(2)
	switch r.Intn(6) {
	case 0, 1:
		return "${{ " + e + " }}"
	case 2:
		return "${{ " + e + " }} && true" // always-true condition (if-cond rule)
	default:
		c := e[0]
		if c >= 'a' && c <= 'z' || c >= 'A' && c <= 'Z' {
			return e
		}
		return "${{ " + e + " }}"
	}
}

// ---------------------------------------------------------------------------
// header

type c09Header struct {
	Lines  []string
	Inputs bool
	Shell  string
}

func (g *c09Gen) header() *c09Header {
	r := g.r
	h := &c09Header{}
	L := func(s string) { h.Lines = append(h.Lines, s) }
	if r.Chance(1, 2) {
		L("name: c09 " + r.Pick([]string{"ci", "nightly", "${{ github.sha }}"}))
	}
	switch r.Intn(6) {
	case 0, 1:
		L("on: push")
	case 2:
		L("on: [push, pull_request]")
	case 3:
		h.Inputs = true
		L("on:")
		L("  workflow_dispatch:")
		L("    inputs:")
		L("      foo:")
		L("        type: string")
		L("      include:")
		L("        type: string")
		L("      exclude:")
		L("        type: boolean")
	case 4:
		h.Inputs = true
		L("on:")
		L("  workflow_call:")
		L("    inputs:")
		L("      foo:")
		L("        type: string")
		L("      include:")
		L("        type: string")
		L("      exclude:")
		L("        type: number")
		if r.Bool() {
			L("    secrets:")
			L("      TOKEN:")
			L("        required: true")
		}
	default:
		L("on:")
		L("  pull_request:")
		L("    branches: [main]")
	}
	if r.Chance(1, 3) {
		L("env:")
		L("  CI_X: " + g.tmpl("1"))
	}
	if r.Chance(1, 2) && !g.noShell {
		h.Shell = r.Pick([]string{"bash", "bash", "sh", "python", "pwsh", "fish", "bash -e {0}"})
		L("defaults:")
		L("  run:")
		L("    shell: " + h.Shell)
	}
	if r.Chance(1, 6) {
		L("permissions: " + r.Pick([]string{"read-all", "write-all", "admin-all"}))
	}
	L("jobs:")
	g.inputs = h.Inputs
	return h
}

// ---------------------------------------------------------------------------
// steps

var c09Shells = []string{"bash", "sh", "python", "pwsh", "cmd", "powershell", "fish", "bash -e {0}", "python {0}", "${{ matrix.shell }}"}

func (g *c09Gen) script() string {
	r := g.r
	parts := []string{r.Pick([]string{"echo", "make", "print", "ls"})}
	if r.Chance(2, 3) {
		parts = append(parts, fmt.Sprintf("FT:issues=%d", r.Range(1, 3)))
	}
	n := r.Intn(3)
	for i := 0; i < n; i++ {
		parts = append(parts, "${{ "+g.expr(2)+" }}")
	}
	if r.Chance(1, 8) {
		parts = append(parts, r.Pick([]string{"::set-output name=v::1", "::set-env name=A::b", "::add-path::/x"}))
	}
	return strings.Join(parts, " ")
}

type c09KV struct{ k, v string }

// step renders one step. withID < 0: random; 0: never; 1: always.
func (g *c09Gen) step(tag int, withID int) *c09Step {
	r := g.r
	st := &c09Step{Tag: tag}
	var kvs []c09KV // v may contain "\n" + further lines (already relative to the key's indentation)
	add := func(k, v string) { kvs = append(kvs, c09KV{k, v}) }

	if withID == 1 || withID < 0 && r.Chance(2, 5) {
		id := r.Pick(c09StepIDs)
		switch r.Intn(12) {
		case 0:
			id = strings.ToUpper(id)
		case 1:
			id = r.Pick([]string{"1st", "a b", "bad.id"})
		case 2:
			if withID < 0 {
				id = "${{ matrix.x }}"
			}
		}
		add("id", id)
		st.ID = strings.ToLower(id)
	}
	if r.Chance(1, 2) {
		add("name", g.tmpl("step"))
	}
	if r.Chance(1, 3) {
		add("if", g.cond())
	}
	kind := r.Intn(20)
	switch {
	case kind < 10: // run step
		if r.Chance(1, 4) {
			add("run", "|\n  "+g.script()+"\n  "+g.script())
		} else {
			add("run", g.script())
		}
		if r.Chance(2, 5) {
			add("shell", r.Pick(c09Shells))
		}
		if r.Chance(1, 6) {
			add("working-directory", g.tmpl("dir"))
		}
	case kind < 18: // action step
		switch r.Intn(12) {
		case 0, 1:
			add("uses", "actions/checkout@v4")
			if r.Bool() {
				add("with", "\n  "+r.Pick([]string{"fetch-depth", "token", "no-such-input", "Clean"})+": "+g.tmpl("0"))
			}
		case 2, 3:
			add("uses", "actions/cache@v4")
			switch r.Intn(4) {
			case 0:
				add("with", "\n  path: "+g.tmpl("dist")+"\n  key: "+g.tmpl("k"))
			case 1:
				add("with", "\n  path: dist")
			case 2:
				add("with", "\n  key: "+g.tmpl("k")+"\n  bogus: 1")
			}
		case 4:
			add("uses", "actions/setup-node@v4")
			add("with", "\n  node-version: "+g.tmpl("20"))
		case 5:
			add("uses", "actions/upload-artifact@v4")
			if r.Bool() {
				add("with", "\n  name: "+g.tmpl("art")+"\n  path: out")
			}
		case 6:
			add("uses", "actions/github-script@v7")
			add("with", "\n  script: console.log('${{ "+g.expr(1)+" }}')")
		case 7:
			add("uses", r.Pick([]string{"actions/checkout@v1", "actions/cache@v1", "actions/setup-node@v1"}))
		case 8:
			add("uses", r.Pick([]string{"actions/checkout", "checkout@v4", "docker://alpine:3.8", "\"docker://alpine:\""}))
		case 9:
			add("uses", "octo/unknown-action@v1")
			add("with", "\n  anything: "+g.tmpl("v")+"\n  args: "+g.tmpl("a"))
		case 10:
			add("uses", "actions/checkout@v4")
			add("working-directory", "nope")
		default:
			add("with", "\n  a: b") // "uses" is missing
		}
	case kind == 18: // both
		add("run", g.script())
		add("uses", "actions/checkout@v4")
	default: // unknown key / neither
		if r.Bool() {
			add("run", g.script())
			add("foo", "bar")
		} else if len(kvs) == 0 {
			add("name", "nothing to run")
		}
	}
	if r.Chance(1, 4) {
		n := r.Range(1, 2)
		v := ""
		for i := 0; i < n; i++ {
			v += "\n  " + r.Pick([]string{"FOO", "CI_X", "BAD NAME", "A=B", "X_${{ matrix.x }}"}) + ": " + g.tmpl("v")
		}
		add("env", v)
	}
	if r.Chance(1, 8) {
		add("continue-on-error", r.Pick([]string{"true", "${{ " + g.expr(1) + " }}", "maybe"}))
	}
	if r.Chance(1, 8) {
		add("timeout-minutes", r.Pick([]string{"10", "${{ " + g.expr(1) + " }}", "0"}))
	}
	// a light shuffle of the key order (yaml mapping order is irrelevant to the language)
	if len(kvs) > 1 && r.Chance(1, 3) {
		i, j := r.Intn(len(kvs)), r.Intn(len(kvs))
		kvs[i], kvs[j] = kvs[j], kvs[i]
	}
	first := true
	for _, kv := range kvs {
		pre := "        "
		if first {
			pre = "      - "
			first = false
		}
		vl := strings.Split(kv.v, "\n")
		if vl[0] == "" {
			st.Lines = append(st.Lines, pre+kv.k+":")
		} else {
			st.Lines = append(st.Lines, pre+kv.k+": "+vl[0])
		}
		for _, l := range vl[1:] {
			st.Lines = append(st.Lines, "        "+l)
		}
	}
	return st
}

// ---------------------------------------------------------------------------
// jobs

func (g *c09Gen) matrixValue(kind int) []string {
	r := g.r
	switch kind {
	case 0:
		return []string{"a", "b", r.Pick([]string{"c", "a"})}
	case 1:
		return []string{"1", "2", r.Pick([]string{"3", "1"})}
	case 2:
		return []string{"[1, 2]", "[3]"}
	case 3:
		return []string{"{a: 1, b: x}", "{a: 2, b: y}"}
	case 4:
		return []string{"[{a: 1}, {a: 2}]", "[{a: 3}]"}
	case 5:
		return []string{"{a: [1, 2], b: u}", "{a: [3], b: v}"}
	case 6:
		return []string{"${{ " + g.expr(1) + " }}", "z"}
	case 7:
		return []string{"[[1, 2], [3]]"}
	case 8:
		return []string{"ubuntu-latest", "windows-latest", r.Pick([]string{"macos-latest", "ubuntu-99.04", "windows-latest"})}
	default:
		return []string{"bash", "pwsh"}
	}
}

// ctxObjExprs lists expressions (without ${{ }}) whose value is a context object of the job or is
// built from one: needs.X.outputs, needs.X, needs, inputs, steps.X.outputs, fromJSON(...). They are
// used as the value of matrix:, of rows, of include: / exclude: and of their elements; the soup
// contains plain accesses to the same objects (needs.X.outputs.include, inputs.include, ...).
// github.event and github are deliberately absent: they live in a package-level table, and a
// regression that writes into it would race between the parallel cases (the serial global-table
// family covers them).
func (g *c09Gen) ctxObjExprs(deps []int, shape string) []string {
	var c []string
	switch shape {
	case "object":
		c = append(c, `fromJSON('{"k":1}')`, `fromJSON('{"x":[1,2],"include":[{"y":3}]}')`, "fromJSON(env.NOPE)", "steps."+g.stepRef()+".outputs", "needs")
	case "array":
		c = append(c, `fromJSON('[{"y":1,"k":[1]}]')`, `fromJSON('[1,2]')`, `fromJSON('[[1],[2]]')`, `fromJSON('[[{"a":1}]]')`, "fromJSON(github.event.inputs.foo)")
	}
	if g.inputs {
		c = append(c, "inputs", "inputs", "fromJSON(inputs.foo)")
	}
	for _, d := range deps {
		id := strings.ToLower(g.ids[d])
		c = append(c, "needs."+id+".outputs", "needs."+id+".outputs", "needs."+id, "fromJSON(needs."+id+".outputs.o1)")
	}
	return c
}

func (g *c09Gen) matrix(ind int, deps []int) []string {
	r := g.r
	var out []string
	L := func(n int, s string) { out = append(out, c09Indent(ind+n, s)) }
	// whole-matrix expression
	if r.Chance(1, 7) {
		g.feat("matrix-expr")
		L(0, "matrix: ${{ "+r.Pick(g.ctxObjExprs(deps, "object"))+" }}")
		return out
	}
	L(0, "matrix:")
	nrows := r.Range(0, 3)
	var rows []string
	used := map[string]bool{}
	for i := 0; i < nrows; i++ {
		p := r.Pick(c09MatrixProps)
		if r.Chance(1, 8) {
			p = "shell"
		}
		if used[p] {
			continue
		}
		used[p] = true
		rows = append(rows, p)
		if r.Chance(1, 8) {
			g.feat("matrix-row-expr")
			L(2, p+": ${{ "+r.Pick(g.ctxObjExprs(deps, "array"))+" }}")
			continue
		}
		kind := r.Intn(8)
		if p == "os" {
			kind = 8
		} else if p == "shell" {
			kind = 9
		}
		L(2, p+":")
		for _, v := range g.matrixValue(kind) {
			L(4, "- "+v)
		}
	}
	if nrows == 0 || r.Chance(1, 3) {
		g.feat("matrix-include")
		if r.Chance(1, 6) {
			g.feat("matrix-include-expr")
			L(2, "include: ${{ "+r.Pick(g.ctxObjExprs(deps, "array"))+" }}")
		} else {
			L(2, "include:")
			n := r.Range(1, 3)
			for i := 0; i < n; i++ {
				if r.Chance(1, 3) {
					g.feat("matrix-include-elem-expr")
					L(4, "- ${{ "+r.Pick(g.ctxObjExprs(deps, "object"))+" }}")
					continue
				}
				p := r.Pick(c09MatrixProps)
				q := r.Pick([]string{"extra", "y", "cfg", "include", "o1"})
				L(4, "- "+p+": "+r.Pick([]string{"a", "1", "{a: 9}", "[7]", "[{a: 7}]"}))
				if q != p && r.Bool() {
					L(4, "  "+q+": "+r.Pick([]string{"e", "{a: 1, c: 2}", "[[5]]"}))
				}
			}
		}
	}
	if len(rows) > 0 && r.Chance(1, 4) {
		g.feat("matrix-exclude")
		switch r.Intn(6) {
		case 0:
			L(2, "exclude: ${{ "+r.Pick(g.ctxObjExprs(deps, "array"))+" }}")
		case 1:
			L(2, "exclude:")
			L(4, "- ${{ "+r.Pick(g.ctxObjExprs(deps, "object"))+" }}")
		default:
			L(2, "exclude:")
			p := r.Pick(rows)
			if r.Chance(1, 4) {
				p = "nokey"
			}
			L(4, "- "+p+": "+r.Pick([]string{"a", "1", "zzz", "{a: 1}", "[3]"}))
		}
	}
	return out
}

func (g *c09Gen) container(ind int, key string) []string {
	r := g.r
	var out []string
	L := func(n int, s string) { out = append(out, c09Indent(ind+n, s)) }
	if r.Chance(1, 4) {
		L(0, key+": "+g.tmpl("node:20"))
		return out
	}
	L(0, key+":")
	L(2, "image: "+g.tmpl("ghcr.io/o/i:1"))
	if r.Chance(1, 2) {
		L(2, "credentials:")
		L(4, "username: "+g.tmpl("u"))
		L(4, "password: "+r.Pick([]string{"${{ secrets.TOKEN }}", "hunter2", "${{ secrets.TOKEN }}x", "${{ env.FOO }}"}))
	}
	if r.Chance(1, 3) {
		L(2, "env:")
		L(4, r.Pick([]string{"FOO", "BAD NAME", "A&B"})+": "+g.tmpl("v"))
	}
	if r.Chance(1, 3) {
		L(2, "ports:")
		L(4, "- "+r.Pick([]string{"80", "${{ matrix.x }}", "${{ steps.build.outputs.v }}"}))
	}
	if r.Chance(1, 4) {
		L(2, "options: "+g.tmpl("--cpus 1"))
	}
	return out
}

// c09Want forces (+1) or forbids (-1) a per-job section; 0 leaves it to chance. Observe names the
// per-job state ("matrix", "stepids", "needs", "shell", "windows", "container", "env") for which
// the job gets constructs that would notice state left behind by a preceding job.
type c09Want struct {
	Call, Matrix, StepIDs, Shell, Windows, Container, Services, Env, Permissions, Concurrency int
	Observe                                                                                   string
}

// dec draws the random decision first (so that forcing does not shift the stream) and then applies
// the override.
func (g *c09Gen) dec(want, num, den int) bool {
	c := g.r.Chance(num, den)
	switch {
	case want > 0:
		return true
	case want < 0:
		return false
	}
	return c
}

// observers returns "KEY: ${{ expr }}" pairs whose diagnostics depend on the given per-job state.
// Every reference sits in its own scalar, so one error cannot hide another.
func (g *c09Gen) observers(state string) []c09KV {
	var kv []c09KV
	switch state {
	case "matrix":
		for _, p := range append(append([]string{}, c09MatrixProps...), "shell", "extra", "k") {
			kv = append(kv, c09KV{"m_" + p, "${{ matrix." + p + " }}"})
		}
		kv = append(kv, c09KV{"m_a", "${{ matrix.x.a }}"}, c09KV{"m_all", "${{ toJSON(matrix) }}"})
	case "stepids":
		for _, id := range c09StepIDs {
			kv = append(kv, c09KV{"s_" + strings.ToLower(id), "${{ steps." + strings.ToLower(id) + ".outputs.v }}"})
		}
		kv = append(kv, c09KV{"s_all", "${{ toJSON(steps) }}"})
	case "needs":
		for _, id := range g.ids {
			id = strings.ToLower(id)
			kv = append(kv, c09KV{"n_" + strings.ReplaceAll(id, "-", "_"), "${{ needs." + id + ".result }}"})
		}
		kv = append(kv, c09KV{"n_all", "${{ needs.*.result }}"})
	case "container", "services":
		kv = append(kv, c09KV{"c_id", "${{ job.container.id }}"}, c09KV{"c_db", "${{ job.services.db.id }}"}, c09KV{"c_redis", "${{ job.services.redis.ports.p }}"})
	case "env":
		kv = append(kv, c09KV{"e_foo", "${{ env.FOO }}"}, c09KV{"e_ci", "${{ env.CI_X }}"}, c09KV{"e_all", "${{ toJSON(env) }}"})
	}
	return kv
}

// job generates pool job idx. deps are the jobs it needs.
func (g *c09Gen) job(idx int, deps []int) *c09Job { return g.jobWant(idx, deps, c09Want{}) }

func (g *c09Gen) jobWant(idx int, deps []int, w c09Want) *c09Job {
	r := g.r
	g.feats = nil
	j := &c09Job{ID: g.ids[idx], Needs: deps}
	L := func(n int, s string) { j.Head = append(j.Head, c09Indent(n, s)) }
	L(2, j.ID+":")
	isCall := g.dec(w.Call, 1, 6)
	obs := g.observers(w.Observe)
	if r.Chance(1, 2) {
		L(4, "name: "+g.tmpl("job"))
	} else if isCall && w.Observe == "matrix" {
		L(4, "name: job ${{ matrix.os }}")
	}
	if len(deps) > 0 {
		g.feat("needs")
		var names []string
		for _, d := range deps {
			n := g.ids[d]
			if r.Chance(1, 3) {
				n = strings.ToUpper(n)
			}
			names = append(names, n)
		}
		if r.Chance(1, 10) {
			names = append(names, "ghost")
			g.feat("needs-ghost")
		}
		switch {
		case len(names) == 1 && r.Bool():
			L(4, "needs: "+names[0])
		case r.Bool():
			L(4, "needs: ["+strings.Join(names, ", ")+"]")
		default:
			L(4, "needs:")
			for _, n := range names {
				L(6, "- "+n)
			}
		}
	}
	if r.Chance(1, 4) {
		L(4, "if: "+g.cond())
		g.feat("job-if")
	} else if isCall && w.Observe == "matrix" {
		L(4, "if: matrix.y == 1")
	}
	permsAndConcurrency := func() {
		if g.dec(w.Permissions, 1, 8) {
			g.feat("permissions")
			if r.Bool() {
				L(4, "permissions:")
				L(6, r.Pick([]string{"contents", "issues", "nope"})+": "+r.Pick([]string{"read", "write", "all"}))
			} else {
				L(4, "permissions: "+r.Pick([]string{"read-all", "none-all"}))
			}
		}
		if g.dec(w.Concurrency, 1, 10) {
			g.feat("concurrency")
			L(4, "concurrency:")
			L(6, "group: "+g.tmpl("grp"))
			L(6, "cancel-in-progress: "+r.Pick([]string{"true", "${{ " + g.expr(1) + " }}"}))
		}
	}
	strategy := func(matrixOS bool, p int) {
		if matrixOS || g.dec(w.Matrix, 1, p) {
			g.feat("matrix")
			L(4, "strategy:")
			if r.Chance(1, 5) {
				L(6, "fail-fast: "+r.Pick([]string{"false", "${{ " + g.expr(1) + " }}"}))
			}
			if r.Chance(1, 8) {
				L(6, "max-parallel: "+r.Pick([]string{"2", "${{ " + g.expr(1) + " }}"}))
			}
			if matrixOS {
				L(6, "matrix:")
				L(8, "os:")
				for _, v := range g.matrixValue(8) {
					L(10, "- "+v)
				}
			} else {
				j.Head = append(j.Head, g.matrix(6, deps)...)
			}
		}
	}
	jobEnv := func() {
		if g.dec(w.Env, 1, 3) {
			g.feat("job-env")
			g.feat("env")
			L(4, "env:")
			n := r.Range(1, 2)
			for i := 0; i < n; i++ {
				L(6, r.Pick([]string{"FOO", "CI_X", "BAD NAME", "K_${{ matrix.x }}"})+": "+g.tmpl("v"))
			}
		}
	}
	jobShell := func() {
		if g.dec(w.Shell, 2, 5) {
			sh := r.Pick([]string{"bash", "sh", "python", "python", "pwsh", "cmd", "powershell", "fish", "bash -e {0}", "${{ matrix.shell }}"})
			L(4, "defaults:")
			L(6, "run:")
			if w.Shell <= 0 && r.Chance(1, 8) {
				L(8, "working-directory: "+g.tmpl("src"))
			} else {
				g.feat("job-shell:" + sh)
				g.feat("shell")
				L(8, "shell: "+sh)
			}
		}
	}
	containers := func() {
		if g.dec(w.Container, 1, 5) {
			g.feat("container")
			j.Head = append(j.Head, g.container(4, "container")...)
		}
		if g.dec(w.Services, 1, 6) {
			g.feat("services")
			L(4, "services:")
			j.Head = append(j.Head, g.container(6, r.Pick([]string{"db", "redis"}))...)
		}
	}

	// reusable workflow call: every section the parser accepts on such a job, and (as a defect)
	// sections that are only valid on jobs with steps
	if isCall {
		g.feat("call-job")
		L(4, "uses: "+r.Pick([]string{"octo/repo/.github/workflows/ci.yml@v1", "octo/repo/.github/workflows/ci.yml@v1", "octo/repo/.github/workflows/ci.yml@v1", "octo/repo@v1", "octo/ci.yml"}))
		permsAndConcurrency()
		strategy(false, 2)
		if len(obs) > 0 || r.Chance(2, 3) {
			L(4, "with:")
			n := r.Range(0, 2)
			if len(obs) == 0 && n == 0 {
				n = 1
			}
			for i := 0; i < n; i++ {
				L(6, r.Pick([]string{"a", "b", "target"})+fmt.Sprint(i)+": "+r.Pick([]string{g.tmpl("v"), "${{ matrix." + r.Pick(c09MatrixProps) + " }}", "${{ matrix." + r.Pick(c09MatrixProps) + ".a }}", "${{ needs." + strings.ToLower(r.Pick(g.ids)) + ".outputs.o1 }}"}))
			}
			for _, kv := range obs {
				L(6, kv.k+": "+kv.v)
			}
		}
		switch r.Intn(4) {
		case 0:
			L(4, "secrets: inherit")
		case 1:
			L(4, "secrets:")
			L(6, "TOKEN: "+r.Pick([]string{g.tmpl("t"), "${{ secrets.TOKEN }}", "${{ matrix.x }}"}))
		}
		// sections that are not available together with "uses" (parser error; the sections are kept in
		// the syntax tree and still visited)
		forced := w.Shell > 0 || w.Windows > 0 || w.Container > 0 || w.Services > 0 || w.Env > 0
		if forced || r.Chance(1, 5) {
			g.feat("call-job-with-steps-only-sections")
			if w.Windows > 0 {
				L(4, "runs-on: windows-latest")
				g.feat("windows")
			} else if !forced && r.Bool() {
				L(4, "runs-on: "+r.Pick([]string{"ubuntu-latest", "windows-latest"}))
			}
			if forced {
				w2 := w
				if w2.Env == 0 {
					w2.Env = -1
				}
				if w2.Shell == 0 {
					w2.Shell = -1
				}
				if w2.Container == 0 {
					w2.Container = -1
				}
				if w2.Services == 0 {
					w2.Services = -1
				}
				w = w2
			}
			jobEnv()
			jobShell()
			containers()
		}
		j.Feats = g.feats
		return j
	}

	// runs-on
	ro := r.Intn(24)
	if w.Windows > 0 {
		ro = []int{8, 13, 20}[r.Intn(3)]
	} else if w.Windows < 0 {
		if w.Observe == "windows" {
			ro = 23 // the platform of a preceding job is only observable when runs-on is missing
		} else if ro >= 8 && ro <= 10 || ro == 13 || ro == 20 {
			ro = 0
		}
	}
	matrixOS := false
	switch {
	case ro < 8:
		L(4, "runs-on: ubuntu-latest")
	case ro < 11:
		L(4, "runs-on: windows-latest")
		g.feat("windows")
	case ro == 11:
		L(4, "runs-on: macos-latest")
	case ro == 12:
		L(4, "runs-on: [self-hosted, linux]")
		g.feat("labels-multi")
	case ro == 13:
		L(4, "runs-on: [self-hosted, windows, x64]")
		g.feat("labels-multi")
		g.feat("windows")
	case ro == 14:
		L(4, "runs-on: [self-hosted, macos]")
		g.feat("labels-multi")
	case ro == 15:
		L(4, "runs-on: [ubuntu-latest, windows-2022]")
		g.feat("labels-multi")
	case ro == 16:
		L(4, "runs-on: ubuntu-99.04")
	case ro == 17, ro == 18:
		if w.Matrix < 0 {
			L(4, "runs-on: ubuntu-latest")
		} else {
			L(4, "runs-on: ${{ matrix.os }}")
			matrixOS = true
		}
	case ro == 19:
		L(4, "runs-on:")
		L(6, "group: g1")
		L(6, "labels: [linux, x64]")
		g.feat("labels-multi")
	case ro == 20:
		L(4, "runs-on:")
		L(6, "- windows-2019")
		L(6, "- self-hosted")
		g.feat("labels-multi")
		g.feat("windows")
	case ro == 21:
		L(4, "runs-on: [macos-14, macos-13]")
		g.feat("labels-multi")
	case ro == 22:
		L(4, "runs-on: ${{ "+g.expr(1)+" }}")
	default:
		g.feat("no-runs-on") // defect: runs-on is missing
	}
	permsAndConcurrency()
	if r.Chance(1, 8) {
		L(4, "timeout-minutes: "+r.Pick([]string{"30", "${{ " + g.expr(1) + " }}", "-1"}))
	}
	if r.Chance(1, 10) {
		L(4, "continue-on-error: "+r.Pick([]string{"false", "${{ " + g.expr(1) + " }}"}))
	}
	if r.Chance(1, 10) {
		if r.Bool() {
			L(4, "environment: "+g.tmpl("prod"))
		} else {
			L(4, "environment:")
			L(6, "name: "+g.tmpl("prod"))
			L(6, "url: "+g.tmpl("https://x"))
		}
	}
	jobEnv()
	jobShell()
	strategy(matrixOS, 2)
	containers()
	if r.Chance(3, 5) {
		L(4, "outputs:")
		L(6, "o1: "+g.tmpl("v"))
		if r.Bool() {
			L(6, r.Pick([]string{"o2", "include", "exclude"})+": ${{ steps."+g.stepRef()+".outputs.v }}")
		}
	}
	switch r.Intn(16) {
	case 0:
		L(4, "foo: bar") // unknown key
		g.feat("unknown-job-key")
	case 1:
		L(4, "name: twice")
		L(4, "name: again") // duplicate key (when name was given above, this is a triple)
		g.feat("dup-job-key")
	}
	if w.Observe == "" && w.StepIDs <= 0 && r.Chance(1, 20) {
		g.feat("no-steps") // defect: steps is missing
		j.Feats = g.feats
		return j
	}
	L(4, "steps:")
	tag := 0
	if w.Observe != "" {
		// the observing step comes first so that it sees the state exactly as the preceding job left it
		st := &c09Step{Tag: tag}
		tag++
		st.Lines = append(st.Lines, "      - run: echo FT:issues=2")
		if len(obs) > 0 {
			st.Lines = append(st.Lines, "        env:")
			for _, kv := range obs {
				st.Lines = append(st.Lines, "          "+kv.k+": "+kv.v)
			}
		}
		j.Steps = append(j.Steps, st)
		if w.Observe == "windows" || w.Observe == "shell" {
			j.Steps = append(j.Steps, &c09Step{Tag: tag, Lines: []string{"      - run: print FT:issues=1", "        shell: sh"}})
			tag++
			j.Steps = append(j.Steps, &c09Step{Tag: tag, Lines: []string{"      - run: |", "          echo FT:issues=3", "          ls"}})
			tag++
		}
	}
	n := r.Range(1, 5)
	for i := 0; i < n; i++ {
		withID := -1
		switch {
		case w.StepIDs > 0 && i == 0:
			withID = 1
		case w.StepIDs < 0:
			withID = 0
		}
		st := g.step(tag, withID)
		tag++
		if st.ID != "" {
			g.feat("stepids")
		}
		j.Steps = append(j.Steps, st)
	}
	j.Feats = g.feats
	return j
}

func (g *c09Gen) pickIDs(n int) {
	perm := g.r.Perm(len(c09JobIDPool))
	g.ids = nil
	for i := 0; i < n; i++ {
		g.ids = append(g.ids, c09JobIDPool[perm[i]])
	}
}

// pool generates the jobs for the ids chosen by pickIDs.
func (g *c09Gen) pool() []*c09Job {
	r := g.r
	n := len(g.ids)
	var jobs []*c09Job
	for i := 0; i < n; i++ {
		var deps []int
		for d := 0; d < i; d++ {
			if r.Chance(1, 3) && len(deps) < 2 {
				deps = append(deps, d)
			}
		}
		jobs = append(jobs, g.job(i, deps))
	}
	return jobs
}

// c09Closure returns the sorted set of jobs reachable from the given ones over needs edges.
func c09Closure(jobs []*c09Job, roots []int) []int {
	in := make([]bool, len(jobs))
	var visit func(i int)
	visit = func(i int) {
		if in[i] {
			return
		}
		in[i] = true
		for _, d := range jobs[i].Needs {
			visit(d)
		}
	}
	for _, i := range roots {
		visit(i)
	}
	var out []int
	for i, b := range in {
		if b {
			out = append(out, i)
		}
	}
	return out
}

func (j *c09Job) has(feat string) bool {
	for _, f := range j.Feats {
		if f == feat {
			return true
		}
	}
	return false
}

// c09States lists the per-job state the generator knows; a job carrying one is tagged with the
// feature of the same name.
var c09States = []string{"matrix", "stepids", "needs", "shell", "windows", "container", "services", "env", "permissions", "concurrency"}

// observes says whether the text of the job contains something whose diagnostics would change if
// the given state of a preceding job were still around.
func (j *c09Job) observes(state string) bool {
	txt := strings.Join(j.lines(), "\n")
	switch state {
	case "matrix":
		return strings.Contains(txt, "matrix.")
	case "stepids":
		return strings.Contains(txt, "steps.")
	case "needs":
		return strings.Contains(txt, "needs.")
	case "shell":
		return strings.Contains(txt, "FT:issues")
	case "windows":
		return j.has("no-runs-on") && (strings.Contains(txt, "FT:issues") || strings.Contains(txt, "shell: sh"))
	case "container", "services":
		return strings.Contains(txt, "job.container") || strings.Contains(txt, "job.services")
	case "env":
		return strings.Contains(txt, "env.")
	}
	return true
}
