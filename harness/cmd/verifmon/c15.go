package main

// C15 — ignore patterns are an exact filter; results do not depend on the cwd.
//
// Metamorphic monitor on the real CLI binary (child processes). One case = one scratch repository
// on disk. A baseline run without any filter gives the diagnostic list D per file. For every filter
// set (-ignore patterns, `paths: {glob: {ignore: [...]}}` entries, both) the expected output is
// computed here: D minus the diagnostics whose message matches an applicable pattern (Go regexp;
// a `paths` entry is applicable iff doublestar matches its glob against the file's path RELATIVE TO
// THE REPOSITORY ROOT), order preserved. The same expectation must be met from every working
// directory and for every spelling of the file paths, after resolving the printed path against the
// working directory. The exit status must be 1 iff a diagnostic was printed, else 0; 3 for fatal
// errors, 2 for invalid flags.

import (
	"encoding/json"
	"fmt"
	"os"
	"path/filepath"
	"regexp"
	"strconv"
	"strings"

	"github.com/bmatcuk/doublestar/v4"
)

func init() { registry["C15"] = runC15 }

type c15Diag struct {
	File string // slash path relative to the repository root
	Line int
	Col  int
	Msg  string
	Kind string
}

func (d c15Diag) String() string {
	return fmt.Sprintf("%s:%d:%d: %s [%s]", d.File, d.Line, d.Col, d.Msg, d.Kind)
}

func c15DiagStrings(ds []c15Diag) []string {
	out := make([]string, len(ds))
	for i, d := range ds {
		out[i] = d.String()
	}
	return out
}

type c15JSONDiag struct {
	Message  string `json:"message"`
	Filepath string `json:"filepath"`
	Line     int    `json:"line"`
	Column   int    `json:"column"`
	Kind     string `json:"kind"`
}

var c15OnelineRe = regexp.MustCompile(`^(.+?):(\d+):(\d+): (.*) \[([a-z0-9-]+)\]$`)

// c15Env is one scratch repository on disk.
type c15Env struct {
	c       *Case
	scratch string
	root    string
	rr      string // the root as reached by the current invocation: root, or a path through a symbolic link
	outer   string // root of the enclosing outer clone ("" unless the layout is nested)
	p       *c15Project
	idx     map[string]int // root-relative path -> file index
}

func c15Setup(c *Case, p *c15Project) *c15Env {
	e := &c15Env{c: c, scratch: mkScratch("c15"), p: p, idx: map[string]int{}}
	e.root = filepath.Join(e.scratch, filepath.FromSlash(p.relRoot()))
	e.rr = e.root
	must := func(err error) {
		if err != nil {
			fmt.Fprintf(os.Stderr, "scratch setup failed: %v\n", err)
			os.Exit(10)
		}
	}
	// symbolic links to directories inside the repository come first, files are written through them
	switch p.DirLink {
	case 1:
		store := filepath.Join(e.scratch, "store-github")
		must(os.MkdirAll(store, 0o755))
		must(os.MkdirAll(e.root, 0o755))
		target := store
		if c.R.Bool() {
			target, _ = filepath.Rel(e.root, store)
		}
		must(os.Symlink(target, filepath.Join(e.root, ".github")))
	case 2:
		store := filepath.Join(e.scratch, "store-workflows")
		must(os.MkdirAll(store, 0o755))
		must(os.MkdirAll(filepath.Join(e.root, ".github"), 0o755))
		target := store
		if c.R.Bool() {
			target, _ = filepath.Rel(filepath.Join(e.root, ".github"), store)
		}
		must(os.Symlink(target, filepath.Join(e.root, ".github", "workflows")))
	}
	files := map[string]string{}
	for i, f := range p.Files {
		e.idx[f.Rel] = i
		if f.LinkTo == "" {
			files[f.Rel] = f.Src
		}
	}
	writeFiles(e.root, files)
	for _, f := range p.Files {
		if f.LinkTo == "" {
			continue
		}
		link := filepath.Join(e.root, filepath.FromSlash(f.Rel))
		must(os.MkdirAll(filepath.Dir(link), 0o755))
		var target string
		if strings.HasPrefix(f.LinkTo, "@outside/") {
			target = filepath.Join(e.scratch, "store-files", strings.TrimPrefix(f.LinkTo, "@outside/"))
			writeFiles(filepath.Dir(target), map[string]string{filepath.Base(target): f.Src})
		} else {
			target = filepath.Join(e.root, filepath.FromSlash(f.LinkTo))
			if p.DirLink == 0 && c.R.Bool() {
				target, _ = filepath.Rel(filepath.Dir(link), target)
			}
		}
		must(os.Symlink(target, link))
	}
	// the repository reached through symbolic links to its root and to its parent directory
	must(os.Symlink(filepath.FromSlash(p.relRoot()), filepath.Join(e.scratch, "lnk-repo")))
	must(os.Symlink(filepath.Dir(e.root), filepath.Join(e.scratch, "lnk-parent")))
	writeFiles(e.scratch, map[string]string{"other/dir/outside.yml": "on: push\njobs: {}\n"})
	dirs := []string{filepath.Join(e.root, "src", "pkg"), filepath.Join(e.scratch, "other", "dir"), filepath.Join(e.scratch, "cfg")}
	switch p.Layout {
	case 0, 3:
		dirs = append(dirs, filepath.Join(e.root, ".git"))
	case 1:
		// linked worktree: .git is a regular file pointing into the main clone's .git directory
		writeFiles(e.root, map[string]string{".git": "gitdir: /nonexistent/main-clone/.git/worktrees/" + p.Name + "\n"})
	case 2:
		// submodule: .git is a regular file pointing into the outer clone's .git/modules
		writeFiles(e.root, map[string]string{".git": "gitdir: ../../.git/modules/vendor/" + p.Name + "\n"})
	}
	if p.nested() {
		e.outer = filepath.Join(e.scratch, p.OuterName)
		dirs = append(dirs, filepath.Join(e.outer, ".git", "modules"))
		of := map[string]string{".github/workflows/outer.yml": "on: push\njobs:\n  outer:\n    runs-on: outer-only-label\n    steps:\n      - uses: actions/checkout@v2\n"}
		if p.OuterCfg != "" {
			of[".github/actionlint.yaml"] = p.OuterCfg
		}
		writeFiles(e.outer, of)
	}
	for _, d := range dirs {
		if err := os.MkdirAll(d, 0o755); err != nil {
			fmt.Fprintf(os.Stderr, "scratch mkdir failed: %v\n", err)
			os.Exit(10)
		}
	}
	return e
}

func (e *c15Env) Close() { os.RemoveAll(e.scratch) }

// anon removes the random scratch directory name from text that goes into a replay file.
func (e *c15Env) anon(s string) string {
	s = strings.ReplaceAll(s, e.scratch, "<scratch>")
	return strings.ReplaceAll(s, filepath.Base(e.scratch), "<scratch-name>")
}

func (e *c15Env) cwd(kind int) string {
	switch kind {
	case c15CwdParent:
		return filepath.Dir(e.rr)
	case c15CwdOuterRoot:
		return e.outer
	case c15CwdNested:
		return filepath.Join(e.rr, "src", "pkg")
	case c15CwdWorkflows:
		return filepath.Join(e.rr, ".github", "workflows")
	case c15CwdUnrelated:
		return filepath.Join(e.scratch, "other", "dir")
	case c15CwdDotGithub:
		return filepath.Join(e.rr, ".github")
	}
	return e.rr
}

// setReach selects how the repository is reached by the following cwd() / spell() calls.
func (e *c15Env) setReach(reach int) {
	switch reach {
	case 1:
		e.rr = filepath.Join(e.scratch, "lnk-repo")
	case 2:
		e.rr = filepath.Join(e.scratch, "lnk-parent", e.p.Name)
	default:
		e.rr = e.root
	}
}

// throughSymlink tells whether a directory is spelled through a symbolic link. The kernel resolves
// ".." in a relative path physically, the linter lexically; spellings with ".." are therefore not
// used from such a directory (the statement is about spellings of the same file).
func c15ThroughSymlink(dir string) bool {
	r, err := filepath.EvalSymlinks(dir)
	return err != nil || r != dir
}

// spell returns how file i is written on the command line from cwd.
func (e *c15Env) spell(cwd string, sp int, i int) string {
	return e.spellPath(cwd, sp, filepath.Join(e.rr, filepath.FromSlash(e.p.Files[i].Rel)))
}

func (e *c15Env) spellPath(cwd string, sp int, abs string) string {
	rel, err := filepath.Rel(cwd, abs)
	if err != nil {
		return abs
	}
	if c15ThroughSymlink(cwd) && (sp == c15SpUnclean || strings.Contains(rel, "..")) {
		return abs
	}
	switch sp {
	case c15SpRel:
		return rel
	case c15SpDot:
		return "./" + rel
	case c15SpUnclean:
		return "../" + filepath.Base(cwd) + "/" + rel
	}
	return abs
}

// printedPath is the path actionlint derives for a command line argument: relative to the cwd when
// the argument is absolute, else the argument verbatim. Only used to CLASSIFY a disagreement (is it
// the known "glob matched against the printed path" behaviour?), never for the verdict.
func c15PrintedPath(cwd, arg string) string {
	if filepath.IsAbs(arg) {
		if r, err := filepath.Rel(cwd, arg); err == nil {
			return r
		}
	}
	return arg
}

// setConfig installs (or removes) the configuration for a filter and returns extra CLI arguments.
func (e *c15Env) setConfig(content string, mode int, cwd string, relCfgArg bool) []string {
	ya := filepath.Join(e.root, ".github", "actionlint.yaml")
	ym := filepath.Join(e.root, ".github", "actionlint.yml")
	ext := filepath.Join(e.scratch, "cfg", "custom-config.yaml")
	os.Remove(ya)
	os.Remove(ym)
	os.Remove(ext)
	if content == "" {
		return nil
	}
	target := ya
	switch mode {
	case 1:
		target = ym
	case 2:
		target = ext
	}
	if err := os.WriteFile(target, []byte(content), 0o644); err != nil {
		fmt.Fprintf(os.Stderr, "scratch write failed: %v\n", err)
		os.Exit(10)
	}
	if mode == 2 {
		arg := ext
		if relCfgArg {
			if r, err := filepath.Rel(cwd, ext); err == nil && !c15ThroughSymlink(cwd) {
				arg = r
			}
		}
		return []string{"-config-file", arg}
	}
	return nil
}

func (e *c15Env) exec(cwd string, stdin []byte, args []string) CLIResult {
	return runCLI(false, cwd, stdin, []string{"PWD=" + cwd}, args...)
}

// parse turns stdout into diagnostics with root-relative paths. ok=false: output not understood.
func (e *c15Env) parse(cwd string, format int, stdout string, stdinName string, stdinFile int) ([]c15Diag, string) {
	var raw []c15JSONDiag
	if format == 0 {
		s := strings.TrimSpace(stdout)
		if s == "" {
			return nil, "" // nothing printed at all: no diagnostics
		}
		if err := json.Unmarshal([]byte(s), &raw); err != nil {
			return nil, "stdout is not the JSON array of -format '{{json .}}': " + err.Error()
		}
	} else {
		for _, l := range strings.Split(stdout, "\n") {
			if l == "" {
				continue
			}
			m := c15OnelineRe.FindStringSubmatch(l)
			if m == nil {
				return nil, "-oneline output line not understood: " + l
			}
			ln, _ := strconv.Atoi(m[2])
			co, _ := strconv.Atoi(m[3])
			raw = append(raw, c15JSONDiag{Message: m[4], Filepath: m[1], Line: ln, Column: co, Kind: m[5]})
		}
	}
	out := make([]c15Diag, 0, len(raw))
	for _, d := range raw {
		if stdinName != "" {
			// input from stdin: the file name is the given one, verbatim
			if d.Filepath != stdinName {
				return nil, fmt.Sprintf("input from stdin named %q but the diagnostic is printed for %q", stdinName, d.Filepath)
			}
			out = append(out, c15Diag{e.p.Files[stdinFile].Rel, d.Line, d.Column, d.Message, d.Kind})
			continue
		}
		p := d.Filepath
		if !filepath.IsAbs(p) {
			p = filepath.Join(cwd, p)
		}
		p = filepath.Clean(p)
		// the repository may have been reached through a symbolic link: same file, other spelling
		base := e.root
		for _, alias := range []string{e.rr, e.root} {
			if p == alias || strings.HasPrefix(p, alias+string(filepath.Separator)) {
				base = alias
				break
			}
		}
		rel, err := filepath.Rel(base, p)
		if err != nil {
			return nil, "printed path cannot be resolved: " + d.Filepath
		}
		rel = filepath.ToSlash(rel)
		if _, ok := e.idx[rel]; !ok {
			return nil, fmt.Sprintf("printed path %q resolved against the cwd is %q, which is not a linted file", d.Filepath, rel)
		}
		out = append(out, c15Diag{rel, d.Line, d.Column, d.Message, d.Kind})
	}
	return out, ""
}

// ---------------------------------------------------------------------------
// oracle

type c15Compiled struct {
	cli     []*regexp.Regexp
	entries [][]*regexp.Regexp
	globs   []string
}

func c15Compile(f *c15Filter) *c15Compiled {
	cf := &c15Compiled{}
	for _, p := range f.CLI {
		cf.cli = append(cf.cli, regexp.MustCompile(p))
	}
	for _, en := range f.Entries {
		var rs []*regexp.Regexp
		if en.Form == 0 || en.Form == 4 {
			for _, p := range en.Pats {
				rs = append(rs, regexp.MustCompile(p))
			}
		}
		cf.entries = append(cf.entries, rs)
		cf.globs = append(cf.globs, en.Glob)
	}
	return cf
}

// expected filters the baseline of the listed files. pathOf gives the path a glob is matched with.
// reason[i] tells for every baseline diagnostic why it was dropped ("" = kept).
func (cf *c15Compiled) expected(base [][]c15Diag, order []int, pathOf func(i int) string) (kept []c15Diag, all []c15Diag, reason []string) {
	for _, fi := range order {
		var applicable []int
		for k, g := range cf.globs {
			if ok, err := doublestar.Match(g, pathOf(fi)); err == nil && ok {
				applicable = append(applicable, k)
			}
		}
		for _, d := range base[fi] {
			why := ""
			for _, r := range cf.cli {
				if r.MatchString(d.Msg) {
					why = "cli"
					break
				}
			}
			if why == "" {
			Ent:
				for _, k := range applicable {
					for _, r := range cf.entries[k] {
						if r.MatchString(d.Msg) {
							why = "config"
							break Ent
						}
					}
				}
			}
			all = append(all, d)
			reason = append(reason, why)
			if why == "" {
				kept = append(kept, d)
			}
		}
	}
	return
}

func c15Equal(a, b []c15Diag) bool {
	if len(a) != len(b) {
		return false
	}
	for i := range a {
		if a[i] != b[i] {
			return false
		}
	}
	return true
}

func c15IsSubseq(sub, full []c15Diag) bool {
	j := 0
	for _, d := range full {
		if j < len(sub) && sub[j] == d {
			j++
		}
	}
	return j == len(sub)
}

// c15Run performs one invocation and applies the oracle. base[i] = unfiltered diagnostics of file i.
func (e *c15Env) run(tag string, f *c15Filter, cf *c15Compiled, inv c15Inv, base [][]c15Diag, cfgContent string, relCfgArg bool) {
	c := e.c
	e.setReach(inv.Reach)
	defer e.setReach(0)
	cwd := e.cwd(inv.Cwd)
	var stdin []byte
	stdinName := ""
	args := []string{"-shellcheck=", "-pyflakes=", "-no-color"}
	if inv.Format == 0 {
		args = append(args, "-format", "{{json .}}")
	} else {
		args = append(args, "-oneline")
	}
	args = append(args, e.setConfig(cfgContent, f.CfgMode, cwd, relCfgArg)...)
	for _, p := range f.CLI {
		if c.R.Chance(1, 5) {
			args = append(args, "-ignore="+p)
		} else {
			args = append(args, "-ignore", p)
		}
	}
	order := inv.Files
	printed := map[int]string{}
	globPath := func(i int) string { return e.p.Files[i].Rel } // the reference path for `paths` globs
	repoKnown := true                                          // a repository (and its configuration) applies
	if inv.Stdin > 0 {
		fi := inv.Files[0]
		stdin = []byte(e.p.Files[fi].Src)
		stdinName = "<stdin>"
		switch inv.Stdin {
		case 1:
			stdinName = e.spell(cwd, inv.Sp, inv.StdinName)
			nm := inv.StdinName
			globPath = func(int) string { return e.p.Files[nm].Rel }
		case 2:
			stdinName = e.spellPath(cwd, inv.Sp, filepath.Join(e.scratch, "other", "dir", "outside.yml"))
			repoKnown = false
		case 3:
			stdinName = e.spellPath(cwd, inv.Sp, filepath.Join(e.rr, ".github", "workflows", "does-not-exist.yml"))
			repoKnown = false
		default:
			repoKnown = false
		}
		if inv.Stdin != 4 {
			args = append(args, "-stdin-filename", stdinName)
		}
		args = append(args, "-")
		printed[fi] = stdinName
	} else if inv.Sp == c15SpNoArgs {
		order = make([]int, len(e.p.Files))
		for i := range order {
			order[i] = i
			printed[i] = c15PrintedPath(cwd, filepath.Join(e.rr, filepath.FromSlash(e.p.Files[i].Rel)))
		}
	} else {
		for k, fi := range inv.Files {
			sp := inv.Sp
			if inv.Mixed {
				sp = (inv.Sp + k) % 4
			}
			a := e.spell(cwd, sp, fi)
			printed[fi] = c15PrintedPath(cwd, a)
			args = append(args, a)
		}
	}
	res := e.exec(cwd, stdin, args)
	c.Eval(1)
	c.Count("cli_runs", 1)
	c.SetAdd("cwd_x_spelling", c15CwdNames[inv.Cwd]+"/"+c15SpNames[inv.Sp])

	rootRel := globPath
	fGiven := f
	if !repoKnown {
		// no repository for the input: its configuration file is there but must not apply
		f = &c15Filter{Kind: f.Kind, CLI: f.CLI, CfgMode: f.CfgMode}
		cf = c15Compile(f)
	}
	want, all, reason := cf.expected(base, order, rootRel)
	alt, _, _ := cf.expected(base, order, func(i int) string { return filepath.ToSlash(printed[i]) })
	// further models, for coverage counters and for naming a disagreement only
	var altJoinedCfg, altJoinedCLI, altNoRepo, altOuter, altAliasName []c15Diag
	hasAlias := false
	joinedCfgOK, joinedCLIOK := true, true
	{
		j := &c15Compiled{cli: cf.cli, globs: cf.globs}
		for k, en := range f.Entries {
			rs := cf.entries[k]
			if en.Form == 0 && len(en.Pats) >= 2 {
				r, err := regexp.Compile(strings.Join(en.Pats, "|"))
				if err != nil {
					joinedCfgOK = false
				} else {
					rs = []*regexp.Regexp{r}
				}
			}
			j.entries = append(j.entries, rs)
		}
		altJoinedCfg, _, _ = j.expected(base, order, rootRel)
		j2 := &c15Compiled{entries: cf.entries, globs: cf.globs, cli: cf.cli}
		if len(f.CLI) >= 2 {
			r, err := regexp.Compile(strings.Join(f.CLI, "|"))
			if err != nil {
				joinedCLIOK = false
			} else {
				j2.cli = []*regexp.Regexp{r}
			}
		}
		altJoinedCLI, _, _ = j2.expected(base, order, rootRel)
		// aliased elements compiled as their anchor names
		ja := &c15Compiled{cli: cf.cli, globs: cf.globs}
		for k, en := range f.Entries {
			rs := cf.entries[k]
			names := en.AliasNames
			if en.Form == 4 {
				names = f.Entries[en.SeqOf].AliasNames // an alias of a list that has aliased elements
			}
			if names != nil && (en.Form == 0 || en.Form == 4) {
				rs = nil
				for i, pat := range en.Pats {
					if names[i] != "" {
						pat = names[i]
					}
					if r, err := regexp.Compile(pat); err == nil {
						rs = append(rs, r)
					}
				}
				hasAlias = true
			}
			ja.entries = append(ja.entries, rs)
		}
		altAliasName, _, _ = ja.expected(base, order, rootRel)
		// the repository is not recognised at all: no configuration (only meaningful when the
		// configuration lives in the repository, not with -config-file)
		altNoRepo, _, _ = (&c15Compiled{cli: cf.cli}).expected(base, order, rootRel)
		if e.p.nested() && !e.p.OuterBroken {
			o := c15Compile(&c15Filter{CLI: f.CLI, Entries: e.p.OuterEntries})
			altOuter, _, _ = o.expected(base, order, func(i int) string { return "vendor/" + e.p.Name + "/" + e.p.Files[i].Rel })
		}
	}
	layout := c15LayoutNames[e.p.Layout]
	c.SetAdd("layout_x_cwd", layout+"/"+c15CwdNames[inv.Cwd])
	reachName := []string{"direct", "symlink-to-repository-root", "symlink-to-parent-of-repository-root"}[inv.Reach]
	stdinMode := []string{"", "stdin-filename-in-repository", "stdin-filename-outside-any-repository", "stdin-filename-of-missing-file", "stdin-without-filename"}[inv.Stdin]
	if inv.Sp == c15SpNoArgs {
		c.SetAdd("layouts_with_no_argument_runs", layout)
	}

	detail := func(got []c15Diag) map[string]interface{} {
		files := map[string]string{}
		for _, fl := range e.p.Files {
			files[fl.Rel] = fl.Src
		}
		cwdRel, _ := filepath.Rel(e.scratch, cwd)
		argsShown := make([]string, len(args))
		for i, a := range args {
			argsShown[i] = e.anon(a)
		}
		return map[string]interface{}{
			"repository_dir": "<scratch>/" + e.p.relRoot(), "layout": layout, "outer_clone_config": e.p.OuterCfg, "files": files, "config_content": cfgContent, "config_mode": []string{".github/actionlint.yaml", ".github/actionlint.yml", "-config-file <scratch>/cfg/custom-config.yaml"}[f.CfgMode],
			"cwd": "<scratch>/" + cwdRel, "args": argsShown, "filter": fGiven, "reached_through": reachName, "stdin_mode": stdinMode, "stdin_is_content_of": func() string {
				if inv.Stdin > 0 {
					return e.p.Files[inv.Files[0]].Rel
				}
				return ""
			}(), "symbolic_links": e.linkNotes(),
			"unfiltered": c15DiagStrings(all), "expected": c15DiagStrings(want), "observed": c15DiagStrings(got),
			"exit": res.Exit, "stderr": truncate(e.anon(res.Stderr), 2000),
		}
	}
	c.Logf("--- cwd=%s (%s) spelling=%s filter=%s cli=%q entries=%+v\n    args=%q\n    exit=%d", c15CwdNames[inv.Cwd], cwd, c15SpNames[inv.Sp], f.Kind, f.CLI, f.Entries, args, res.Exit)

	if res.Exit == 3 && e.p.Layout != 0 && strings.Contains(res.Stderr, "no project was found") {
		c.Violation("C15:repository-marked-by-git-file-or-nested-not-found", fmt.Sprintf("layout %s: run without arguments from %s inside the repository ended with exit status 3: %s", layout, c15CwdNames[inv.Cwd], truncate(e.anon(res.Stderr), 300)), detail(nil))
		return
	}
	if res.Exit != 0 && res.Exit != 1 {
		c.Violation("C15:unexpected-fatal-or-crash", fmt.Sprintf("valid invocation from cwd %s (%s paths) ended with exit status %d %s: %s", c15CwdNames[inv.Cwd], c15SpNames[inv.Sp], res.Exit, res.Signal, truncate(res.Stderr, 300)), detail(nil))
		return
	}
	sn := ""
	sf := 0
	if inv.Stdin > 0 {
		sn, sf = stdinName, inv.Files[0]
	}
	got, perr := e.parse(cwd, inv.Format, res.Stdout, sn, sf)
	if perr != "" {
		d := detail(nil)
		d["stdout"] = truncate(res.Stdout, 4000)
		if inv.Sp == c15SpNoArgs && strings.Contains(perr, "which is not a linted file") {
			c.Violation("C15:no-argument-run-lints-files-outside-the-repository-of-the-cwd", "layout "+layout+": run without arguments from "+c15CwdNames[inv.Cwd]+": "+perr, d)
			return
		}
		c.Violation("C15:output-not-understood", perr, d)
		return
	}
	if c.Verbose {
		c.Logf("    expected (%d):", len(want))
		for _, d := range want {
			c.Logf("      %s", truncate(d.String(), 160))
		}
		c.Logf("    observed (%d):", len(got))
		for _, d := range got {
			c.Logf("      %s", truncate(d.String(), 160))
		}
	}
	// coverage
	switch {
	case len(all) == 0:
		c.Count("runs_without_any_diagnostic", 1)
	case len(want) == len(all):
		c.Count("runs_nothing_filtered", 1)
	case len(want) == 0:
		c.Count("runs_everything_filtered", 1)
	default:
		c.Count("runs_partly_filtered", 1)
	}
	if len(want) != len(all) {
		c.Nontrivial(fmt.Sprintf("%s|%d|%s", c.Fam, c.Idx, tag))
	}
	for i, w := range reason {
		if w != "" {
			c.Count("dropped_by_"+w, 1)
			c.SetAdd("kinds_filtered", all[i].Kind)
		}
	}
	if c15SamePositionAtRisk(all, reason) {
		c.Count("runs_same_position_group_remains_and_earlier_collected_diagnostic_filtered", 1)
	}
	if !joinedCfgOK || !c15Equal(want, altJoinedCfg) {
		c.Count("runs_discriminating_config_patterns_one_by_one_vs_joined", 1)
	}
	if !joinedCLIOK || !c15Equal(want, altJoinedCLI) {
		c.Count("runs_discriminating_cli_patterns_one_by_one_vs_joined", 1)
	}
	inRepoCfg := f.CfgMode != 2
	cfgDecides := !c15Equal(want, altNoRepo) // the result depends on the `paths` configuration
	if cfgDecides {
		c.Count("runs_config_decides_reach_"+reachName, 1)
		if inv.Reach != 0 && strings.HasPrefix(cwd, e.rr) {
			c.Count("runs_config_decides_cwd_inside_symlinked_repository", 1)
		}
		if c15ThroughSymlink(cwd) && inv.Reach == 0 {
			c.Count("runs_config_decides_cwd_inside_symlinked_dot_github_or_workflows", 1)
		}
		if inv.Stdin == 1 {
			c.Count("runs_config_decides_"+stdinMode, 1)
		}
		if inv.Stdin == 0 {
			c.Count(fmt.Sprintf("runs_config_decides_dirlink_%d", e.p.DirLink), 1)
			for _, fi := range order {
				if e.p.Files[fi].LinkTo != "" {
					c.Count("runs_config_decides_with_symlinked_workflow_file", 1)
					break
				}
			}
		}
	}
	if inv.Stdin > 0 {
		c.Count("runs_"+stdinMode, 1)
		if inv.Stdin > 1 && len(fGiven.Entries) > 0 && len(all) > 0 {
			c.Count("runs_stdin_without_repository_but_repository_config_present", 1)
		}
	}
	if hasAlias && !c15Equal(want, altAliasName) {
		c.Count("runs_discriminating_alias_element_value_vs_anchor_name", 1)
	}
	for _, en := range f.Entries {
		if en.Form == 4 && cfgDecides {
			c.Count("runs_config_decides_with_aliased_ignore_list", 1)
			c.Count(fmt.Sprintf("runs_config_decides_with_aliased_ignore_list_via_%d", en.Via), 1)
			break
		}
	}
	if e.p.Layout != 0 && inRepoCfg && (!c15Equal(want, altNoRepo) || inv.Sp == c15SpNoArgs) {
		c.Count("runs_discriminating_repository_recognised_"+layout, 1)
	}
	if e.p.nested() && inRepoCfg && (e.p.OuterBroken || !c15Equal(want, altOuter)) {
		c.Count("runs_discriminating_inner_vs_outer_repository_"+layout, 1)
	}
	if !c15Equal(want, alt) {
		c.Count("runs_discriminating_root_relative_vs_printed_path", 1)
		if inv.Cwd != c15CwdRoot {
			c.Count("runs_discriminating_with_cwd_not_root", 1)
		} else {
			c.Count("runs_discriminating_at_root_by_spelling", 1)
		}
	}

	if !c15Equal(got, want) {
		sig, what := "", ""
		switch {
		case c15SameMultiset(got, want) && c15SameUpToEqualPositions(got, want):
			sig = "C15:diagnostics-at-one-position-reordered-by-filtering"
			what = "the output has the expected diagnostics but those that share file, line and column come in another order than in the unfiltered run"
		case hasAlias && c15Equal(got, altAliasName):
			sig = "C15:ignore-alias-element-compiled-as-anchor-name"
			what = "an element of an `ignore` list written as a YAML alias (*name) is compiled from the anchor NAME instead of the aliased pattern: the output equals the filter with the names as patterns"
		case inv.Stdin == 1 && c15Equal(got, altNoRepo):
			sig = "C15:stdin-filename-in-repository-config-not-applied"
			what = "input from stdin with -stdin-filename naming an existing file of the repository: the output equals what one gets when the repository's configuration is not applied"
		case inv.Reach != 0 && c15Equal(got, altNoRepo):
			sig = "C15:paths-config-not-applied-when-repository-reached-through-" + reachName
			what = "the files are spelled through a symbolic link (" + reachName + "): the output equals what one gets when no `paths` entry applies"
		case len(cf.globs) >= 2 && !c15Equal(got, altNoRepo) && c15EntryModel(cf, base, order, rootRel, got, false) >= 0:
			// one glob out of several did not take effect: more specific than any model below
			k := c15EntryModel(cf, base, order, rootRel, got, false)
			sig = "C15:paths-glob-did-not-match:" + c15GlobTag(cf.globs[k])
			what = fmt.Sprintf("the output equals what one gets when the `paths` glob %q (constructs: %s) matches none of the linted files, although doublestar matches it against the root-relative path of at least one", cf.globs[k], c15GlobTag(cf.globs[k]))
		case e.p.nested() && inRepoCfg && altOuter != nil && c15Equal(got, altOuter):
			sig = "C15:nested-repository-attributed-to-outer-repository"
			what = "layout " + layout + ": the output equals what one gets when the configuration of the OUTER clone is applied (globs matched against the path relative to the outer root) instead of the configuration of the repository containing the file"
		case e.p.Layout != 0 && inRepoCfg && c15Equal(got, altNoRepo):
			sig = "C15:repository-config-not-applied-" + layout
			what = "layout " + layout + ": the output equals what one gets when the repository's own .github/actionlint.y(a)ml is not applied at all"
		case joinedCfgOK && c15Equal(got, altJoinedCfg):
			sig = "C15:config-ignore-patterns-not-matched-one-by-one"
			what = "the output equals what one gets when the patterns of an `ignore` list are joined into one alternation (inline flags / empty alternatives of one pattern affect the others) instead of being matched one by one"
		case joinedCLIOK && c15Equal(got, altJoinedCLI):
			sig = "C15:cli-ignore-patterns-not-matched-one-by-one"
			what = "the output equals what one gets when the -ignore patterns are joined into one alternation instead of being matched one by one"
		case c15Equal(got, alt) && inv.Cwd != c15CwdRoot:
			sig = "C15:paths-glob-matched-against-cwd-relative-path"
			what = fmt.Sprintf("run from %s (%s): the output equals what one gets when the `paths` globs are matched against the path relative to the working directory instead of the path relative to the repository root", c15CwdNames[inv.Cwd], c15SpNames[inv.Sp])
		case c15Equal(got, alt):
			sig = "C15:paths-glob-matched-against-path-as-spelled"
			what = fmt.Sprintf("run from the repository root with %s paths: the output equals what one gets when the `paths` globs are matched against the argument as spelled on the command line instead of the path relative to the repository root", c15SpNames[inv.Sp])
		case c15EntryModel(cf, base, order, rootRel, got, false) >= 0:
			k := c15EntryModel(cf, base, order, rootRel, got, false)
			sig = "C15:paths-glob-did-not-match:" + c15GlobTag(cf.globs[k])
			what = fmt.Sprintf("the output equals what one gets when the `paths` glob %q (constructs: %s) matches none of the linted files, although doublestar matches it against the root-relative path of at least one", cf.globs[k], c15GlobTag(cf.globs[k]))
		case c15EntryModel(cf, base, order, rootRel, got, true) >= 0:
			k := c15EntryModel(cf, base, order, rootRel, got, true)
			sig = "C15:paths-glob-matched-wrongly:" + c15GlobTag(cf.globs[k])
			what = fmt.Sprintf("the output equals what one gets when the `paths` glob %q (constructs: %s) matches every linted file, although doublestar does not match it against the root-relative path of at least one", cf.globs[k], c15GlobTag(cf.globs[k]))
		case !c15IsSubseq(got, all):
			sig = "C15:output-not-a-subsequence-of-unfiltered-list"
			what = "the filtered output contains a diagnostic that the unfiltered run does not have, or in another order"
		default:
			// which way is it wrong?
			extra, missing := "", ""
			j := 0
			for i, d := range all {
				present := j < len(got) && got[j] == d
				if present {
					j++
				}
				if present && reason[i] != "" && extra == "" {
					extra = reason[i]
				}
				if !present && reason[i] == "" && missing == "" {
					missing = d.String()
				}
			}
			if missing != "" {
				sig = "C15:non-matching-diagnostic-dropped"
				what = "a diagnostic whose message no applicable pattern matches is missing from the output: " + truncate(missing, 200)
			} else if extra == "cli" {
				sig = "C15:cli-ignore-pattern-not-applied"
				what = "a diagnostic whose message matches an -ignore pattern is still printed"
			} else {
				sig = "C15:config-ignore-pattern-not-applied"
				what = "a diagnostic whose message matches an ignore pattern of an applicable `paths` entry is still printed"
			}
		}
		what += fmt.Sprintf(" (cwd=%s spelling=%s filter=%s; expected %d diagnostics, observed %d)", c15CwdNames[inv.Cwd], c15SpNames[inv.Sp], f.Kind, len(want), len(got))
		c.Violation(sig, what, detail(got))
		return
	}
	wantExit := 0
	if len(got) > 0 {
		wantExit = 1
	}
	c.SetAdd("exit_statuses", fmt.Sprint(res.Exit))
	if res.Exit != wantExit {
		sig := "C15:exit-status-1-without-diagnostics"
		if wantExit == 1 {
			sig = "C15:exit-status-0-with-diagnostics"
		}
		c.Violation(sig, fmt.Sprintf("%d diagnostics printed but exit status %d (unfiltered list has %d)", len(got), res.Exit, len(all)), detail(got))
	}
}

// baseline lints all files from the repository root without any filter.
func (e *c15Env) baseline() ([][]c15Diag, bool) {
	c := e.c
	cfgArgs := e.setConfig(e.p.BaseCfg, 0, e.root, false)
	args := append([]string{"-shellcheck=", "-pyflakes=", "-no-color", "-format", "{{json .}}"}, cfgArgs...)
	for _, f := range e.p.Files {
		args = append(args, filepath.FromSlash(f.Rel))
	}
	res := e.exec(e.root, nil, args)
	c.Eval(1)
	c.Count("baseline_runs", 1)
	det := map[string]interface{}{"project": e.p, "args": args, "exit": res.Exit, "stdout": truncate(res.Stdout, 4000), "stderr": truncate(res.Stderr, 2000)}
	if res.Exit != 0 && res.Exit != 1 {
		c.Violation("C15:unexpected-fatal-or-crash", fmt.Sprintf("baseline run ended with exit status %d: %s", res.Exit, truncate(res.Stderr, 300)), det)
		return nil, false
	}
	ds, perr := e.parse(e.root, 0, res.Stdout, "", 0)
	if perr != "" {
		c.Violation("C15:output-not-understood", "baseline: "+perr, det)
		return nil, false
	}
	base := make([][]c15Diag, len(e.p.Files))
	last := -1
	for _, d := range ds {
		i := e.idx[d.File]
		if i < last {
			c.Violation("C15:baseline-files-out-of-command-line-order", "the unfiltered run does not list the files in command line order", det)
			return nil, false
		}
		last = i
		base[i] = append(base[i], d)
	}
	return base, true
}

// c15EntryModel returns the index of a `paths` entry such that the observed output equals the
// reference with that one glob treated as matching no file (every=false) or every file (every=true);
// -1 if there is none. Used only to name a disagreement.
func c15EntryModel(cf *c15Compiled, base [][]c15Diag, order []int, pathOf func(int) string, got []c15Diag, every bool) int {
	for k := range cf.globs {
		m := &c15Compiled{cli: cf.cli, entries: cf.entries}
		m.globs = append([]string{}, cf.globs...)
		if every {
			m.globs[k] = "**"
		} else {
			m.globs[k] = "c15-matches-no-file"
		}
		if alt, _, _ := m.expected(base, order, pathOf); c15Equal(alt, got) {
			return k
		}
	}
	return -1
}

// c15CountDecisive counts the (file, glob) pairs of a filter set whose glob result decides the
// fate of a diagnostic: some pattern of the entry matches a message of the file which no -ignore
// pattern and no other applicable entry matches. Counted per construct set of the glob, separately
// for matching and non-matching pairs. The first invocation of every filter set lints all files, so
// every counted pair is exercised.
func c15CountDecisive(c *Case, p *c15Project, f *c15Filter, cf *c15Compiled, base [][]c15Diag) {
	applies := make([][]bool, len(cf.globs))
	for k, g := range cf.globs {
		applies[k] = make([]bool, len(p.Files))
		for i, fl := range p.Files {
			ok, err := doublestar.Match(g, fl.Rel)
			applies[k][i] = err == nil && ok
		}
	}
	for k, g := range cf.globs {
		syn, traits := c15GlobConstructs(g)
		for i := range p.Files {
			decisive := false
		Diag:
			for _, d := range base[i] {
				mine := false
				for _, r := range cf.entries[k] {
					mine = mine || r.MatchString(d.Msg)
				}
				if !mine {
					continue
				}
				for _, r := range cf.cli {
					if r.MatchString(d.Msg) {
						continue Diag
					}
				}
				for k2 := range cf.globs {
					if k2 == k || !applies[k2][i] {
						continue
					}
					for _, r := range cf.entries[k2] {
						if r.MatchString(d.Msg) {
							continue Diag
						}
					}
				}
				decisive = true
				break
			}
			if !decisive {
				continue
			}
			res := "nomatch"
			if applies[k][i] {
				res = "match"
			}
			if len(syn) == 1 {
				c.Count("glob_decisive_"+res+"_alone_"+syn[0], 1)
			} else {
				c.Count("glob_decisive_"+res+"_combined", 1)
				c.SetAdd("glob_construct_combinations", strings.Join(syn, "+"))
			}
			for _, t := range traits {
				c.Count("glob_decisive_"+res+"_trait_"+t, 1)
			}
		}
	}
}

// c15RuleOrder approximates the order in which diagnostics are collected before sorting: parse
// errors first, then rule by rule in the order the linter registers them.
var c15RuleOrder = map[string]int{"syntax-check": 0, "matrix": 1, "credentials": 2, "shell-name": 3, "runner-label": 4, "events": 5, "job-needs": 6, "action": 7, "env-var": 8, "id": 9, "glob": 10, "permissions": 11, "workflow-call": 12, "expression": 13, "deprecated-commands": 14, "if-cond": 15}

// c15SamePositionAtRisk: two or more REMAINING diagnostics share a position and a diagnostic of the
// same file that is collected before them is filtered (coverage only).
func c15SamePositionAtRisk(all []c15Diag, reason []string) bool {
	type pos struct {
		f    string
		l, c int
	}
	before := func(a, b c15Diag) bool {
		ra, rb := c15RuleOrder[a.Kind], c15RuleOrder[b.Kind]
		if ra != rb {
			return ra < rb
		}
		return a.Line < b.Line || a.Line == b.Line && a.Col < b.Col
	}
	group := map[pos][]int{}
	for i, d := range all {
		if reason[i] == "" {
			p := pos{d.File, d.Line, d.Col}
			group[p] = append(group[p], i)
		}
	}
	for i, d := range all {
		if reason[i] == "" {
			continue
		}
		for p, g := range group {
			if len(g) >= 2 && p.f == d.File && before(d, all[g[0]]) {
				return true
			}
		}
	}
	return false
}

func c15SameMultiset(a, b []c15Diag) bool {
	if len(a) != len(b) {
		return false
	}
	m := map[c15Diag]int{}
	for _, d := range a {
		m[d]++
	}
	for _, d := range b {
		m[d]--
		if m[d] < 0 {
			return false
		}
	}
	return true
}

// c15SameUpToEqualPositions: the sequences agree in (file, line, column) element by element.
func c15SameUpToEqualPositions(a, b []c15Diag) bool {
	for i := range a {
		if a[i].File != b[i].File || a[i].Line != b[i].Line || a[i].Col != b[i].Col {
			return false
		}
	}
	return true
}

// linkNotes describes the symbolic links of the scratch layout for a replay file.
func (e *c15Env) linkNotes() []string {
	out := []string{"<scratch>/lnk-repo -> " + e.p.relRoot(), "<scratch>/lnk-parent -> parent directory of the repository"}
	switch e.p.DirLink {
	case 1:
		out = append(out, "<repository>/.github -> <scratch>/store-github")
	case 2:
		out = append(out, "<repository>/.github/workflows -> <scratch>/store-workflows")
	}
	for _, f := range e.p.Files {
		if f.LinkTo != "" {
			out = append(out, "<repository>/"+f.Rel+" -> "+f.LinkTo)
		}
	}
	return out
}

func c15Case(c *Case) {
	p := c15GenProject(c.R)
	e := c15Setup(c, p)
	defer e.Close()
	if c.Verbose {
		c.Logf("repository %q at %s (layout %s, outer config %q)", p.Name, e.root, c15LayoutNames[p.Layout], p.OuterCfg)
		for _, f := range p.Files {
			c.Logf("=== %s\n%s", f.Rel, f.Src)
		}
		c.Logf("base config: %q", p.BaseCfg)
	}
	base, ok := e.baseline()
	if !ok {
		return
	}
	var msgs []string
	multiline := false
	total := 0
	for _, ds := range base {
		for _, d := range ds {
			msgs = append(msgs, d.Msg)
			c.SetAdd("kinds_in_baselines", d.Kind)
			if strings.ContainsAny(d.Msg, "\r\n") {
				multiline = true
			}
			total++
		}
	}
	if multiline {
		c.Count("projects_with_multiline_message_json_only", 1)
	}
	c.Count("baseline_diagnostics", total)
	if c.Idx < 3 {
		var all []string
		for _, ds := range base {
			all = append(all, c15DiagStrings(ds)...)
		}
		for i := range all {
			all[i] = truncate(all[i], 140)
		}
		c.Sample(map[string]interface{}{"files": p.Files, "baseline": all})
	}

	pairs := c15AllPairs(p.nested())
	c.Count("projects_layout_"+c15LayoutNames[p.Layout], 1)
	kinds := []string{"none", "cli", "config", "both", "all", "glob"}
	for fs, kind := range kinds {
		f := c15GenFilter(c, p, kind, msgs)
		for i := range f.Entries {
			if !doublestar.ValidatePattern(f.Entries[i].Glob) {
				f.Entries[i].Glob = "**/*.yml"
			}
		}
		// duplicate keys after the replacement above would break the YAML mapping
		seen := map[string]bool{}
		var ents []c15Entry
		for _, en := range f.Entries {
			if !seen[en.Glob] {
				seen[en.Glob] = true
				ents = append(ents, en)
			}
		}
		f.Entries = ents
		cf := c15Compile(f)
		cfg := c15Config(p, f)
		c15CountDecisive(c, p, f, cf, base)
		for _, g := range cf.globs {
			any := false
			for _, fl := range p.Files {
				if ok, _ := doublestar.Match(g, fl.Rel); ok {
					any = true
				}
			}
			if any {
				c.Count("glob_entries_matching_a_file", 1)
			} else {
				c.Count("glob_entries_matching_no_file", 1)
			}
		}
		// 8 (cwd, spelling) pairs: the first is always (root, relative); the rest distinct random
		perm := c.R.Perm(len(pairs))
		chosen := [][2]int{{c15CwdRoot, c15SpRel}}
		for _, k := range perm {
			if len(chosen) == 8 {
				break
			}
			if pairs[k] != chosen[0] {
				chosen = append(chosen, pairs[k])
			}
		}
		neutralBase := !strings.Contains(p.BaseCfg, "c15-selfhosted")
		for k, pr := range chosen {
			inv := c15Inv{Cwd: pr[0], Sp: pr[1]}
			if k > 0 && inv.Cwd != c15CwdOuterRoot && c.R.Chance(1, 5) {
				inv.Reach = c.R.Range(1, 2)
			}
			if inv.Sp == c15SpNoArgs && p.DirLink == 2 {
				// a symbolic link as .github/workflows is not descended into by the directory walk of
				// a run without arguments ("no YAML file was found"): outside the statement, reported
				inv.Sp = c15SpAbs
				c.Count("no_argument_runs_replaced_symlinked_workflows_dir", 1)
			}
			if k > 0 && inv.Sp != c15SpNoArgs && c.R.Chance(1, 7) {
				inv.Stdin = 1
				if neutralBase && (f.CfgMode != 2 || len(f.Entries) == 0) && c.R.Chance(2, 5) {
					inv.Stdin = c.R.Range(2, 4)
				}
				inv.StdinName = c.R.Intn(len(p.Files))
				inv.Files = []int{inv.StdinName}
				if c.R.Chance(1, 3) {
					inv.Files = []int{c.R.Intn(len(p.Files))} // the content of one file under the name of another
				}
				c.Count("stdin_runs", 1)
				e.run(fmt.Sprintf("%d.%d", fs, k), f, cf, inv, base, cfg, c.R.Bool())
				continue
			}
			if !multiline && c.R.Chance(1, 4) {
				inv.Format = 1
			}
			if inv.Sp != c15SpNoArgs {
				n := len(p.Files)
				switch x := c.R.Intn(4); {
				case x <= 1 || n == 1 || k == 0:
					for i := 0; i < n; i++ {
						inv.Files = append(inv.Files, i)
					}
				case x == 2:
					inv.Files = []int{c.R.Intn(n)}
				default:
					pm := c.R.Perm(n)
					inv.Files = pm[:c.R.Range(2, n)]
				}
				inv.Mixed = len(inv.Files) > 1 && c.R.Chance(1, 5)
				if len(inv.Files) == 1 {
					c.Count("single_file_runs", 1)
				} else {
					c.Count("multi_file_runs", 1)
				}
			} else {
				c.Count("no_argument_runs", 1)
			}
			e.run(fmt.Sprintf("%d.%d", fs, k), f, cf, inv, base, cfg, c.R.Bool())
		}
	}
}

// ---------------------------------------------------------------------------
// fatal errors and invalid flags

var c15BadRegexps = []string{`(`, `[a`, `*`, `a{2,1}`, `\p{Foo}`, `(?P<n`, `a)`, `\`, `(?z)`, `x**`}
var c15BadGlobs = []string{`[`, `.github/workflows/[.yml`, `{a,b`, `**/a[`, `.github/{workflows/*.yml`, `a\`}
var c15BadConfigs = []struct{ class, content string }{
	{"yaml-syntax", "paths: {\n"},
	{"yaml-syntax", "paths:\n  '**':\n    ignore:\n      - 'x'\n   bad-indent: [\n"},
	{"paths-not-a-mapping", "paths:\n  - a\n  - b\n"},
	{"ignore-not-a-sequence", "paths:\n  '**':\n    ignore: foo\n"},
	{"ignore-not-a-sequence", "paths:\n  '**/*.yml':\n    ignore:\n      a: b\n"},
	{"ignore-element-not-a-string", "paths:\n  '**':\n    ignore:\n      - [a, b]\n"},
	{"ignore-element-not-a-string", "paths:\n  '**/*.yml':\n    ignore:\n      - 'fine'\n      - {a: b}\n"},
	{"ignore-element-null", "paths:\n  '**':\n    ignore:\n      - \n"},
	{"ignore-element-null", "paths:\n  '**/*.yml':\n    ignore:\n      - 'fine'\n      -\n      - 'x'\n"},
	{"duplicate-glob-key", "paths:\n  '**':\n    ignore: []\n  '**':\n    ignore: []\n"},
}

func c15FatalCase(c *Case) {
	p := c15GenProject(c.R)
	p.Layout, p.OuterName, p.OuterCfg, p.OuterEntries, p.OuterBroken = 0, "", "", nil, false
	e := c15Setup(c, p)
	defer e.Close()
	r := c.R
	pairs := c15AllPairs(false)
	for it := 0; it < 12; it++ {
		var pr [2]int
		for {
			pr = pairs[r.Intn(len(pairs))]
			if pr[1] != c15SpNoArgs {
				break
			}
		}
		cwd := e.cwd(pr[0])
		args := []string{"-shellcheck=", "-pyflakes=", "-no-color"}
		if r.Bool() {
			args = append(args, "-oneline")
		}
		var fileArgs []string
		nf := r.Range(1, len(p.Files))
		for _, fi := range r.Perm(len(p.Files))[:nf] {
			fileArgs = append(fileArgs, e.spell(cwd, pr[1], fi))
		}
		cfg := ""
		cfgMode := r.Intn(3)
		wantExit := 3
		class := ""
		scen := it
		if it >= 10 {
			scen = r.Intn(10)
		}
		switch scen {
		case 0: // a file that does not exist (alone or among existing ones)
			class = "missing-file"
			miss := e.spell(cwd, pr[1], 0) + ".missing.yml"
			if r.Bool() {
				fileArgs = []string{miss}
				class = "missing-file-alone"
			} else {
				k := r.Intn(len(fileArgs) + 1)
				fileArgs = append(fileArgs[:k], append([]string{miss}, fileArgs[k:]...)...)
			}
		case 1:
			class = "invalid-ignore-regexp"
			bad := r.Pick(c15BadRegexps)
			if _, err := regexp.Compile(bad); err == nil {
				continue
			}
			pats := []string{bad}
			if r.Bool() {
				pats = append(pats, "valid")
			}
			for _, k := range r.Perm(len(pats)) {
				args = append(args, "-ignore", pats[k])
			}
		case 2:
			class = "invalid-regexp-in-config"
			bad := r.Pick(c15BadRegexps)
			if _, err := regexp.Compile(bad); err == nil {
				continue
			}
			cfg = p.BaseCfg + "paths:\n  " + c15YAMLStr(c15GenGlob(r, p)) + ":\n    ignore:\n      - 'fine'\n      - " + c15YAMLStr(bad) + "\n"
		case 3:
			class = "invalid-glob-in-config"
			bad := r.Pick(c15BadGlobs)
			if r.Chance(2, 3) {
				bad = r.Pick(c15BadGlobsMore)
			}
			if doublestar.ValidatePattern(bad) {
				c.SetAdd("odd_globs_valid_for_doublestar_not_used_as_invalid", bad)
				continue
			}
			c.SetAdd("invalid_globs", bad)
			cfg = p.BaseCfg + "paths:\n  '**/*.yml':\n    ignore: []\n  " + c15YAMLStr(bad) + ":\n    ignore:\n      - 'x'\n"
		case 4:
			bc := c15BadConfigs[r.Intn(len(c15BadConfigs))]
			class = "broken-config-" + bc.class
			cfg = bc.content
		case 5:
			class = "config-file-missing"
			args = append(args, "-config-file", filepath.Join(e.scratch, "cfg", "does-not-exist.yaml"))
		case 6:
			class = "no-repository-for-cwd"
			cwd = e.cwd([]int{c15CwdParent, c15CwdUnrelated}[r.Intn(2)])
			fileArgs = nil
		case 7:
			class = "unknown-flag"
			wantExit = 2
			args = append(args, r.Pick([]string{"-no-such-flag", "--ignore-pattern", "-ignorex", "-i", "-onelin"}))
		case 8:
			class = "flag-value-missing"
			wantExit = 2
			// the flag is the last argument, its value is missing
			fileArgs = []string{r.Pick([]string{"-ignore", "-config-file", "-format"})}
		case 9:
			class = "invalid-boolean-flag-value"
			wantExit = 2
			args = append(args, r.Pick([]string{"-oneline=maybe", "-verbose=2", "-no-color=x"}))
		}
		args = append(args, e.setConfig(cfg, cfgMode, cwd, r.Bool())...)
		args = append(args, fileArgs...)
		res := e.exec(cwd, nil, args)
		c.Eval(1)
		c.Count("fatal_runs", 1)
		c.SetAdd("fatal_classes", class)
		c.Nontrivial(fmt.Sprintf("fatal|%s|%d|%d", class, c.Idx, it))
		c.Logf("--- %s cwd=%s args=%q -> exit %d (want %d)\n    stderr: %s", class, cwd, args, res.Exit, wantExit, truncate(res.Stderr, 300))
		if res.Exit != wantExit {
			files := map[string]string{}
			for _, fl := range p.Files {
				files[fl.Rel] = fl.Src
			}
			cwdRel, _ := filepath.Rel(e.scratch, cwd)
			shown := make([]string, len(args))
			for i, a := range args {
				shown[i] = e.anon(a)
			}
			c.Violation("C15:exit-status-"+class, fmt.Sprintf("%s: exit status %d, expected %d", class, res.Exit, wantExit), map[string]interface{}{
				"repository_dir": "<scratch>/" + p.Name, "files": files, "config_content": cfg, "config_mode": cfgMode, "cwd": "<scratch>/" + cwdRel, "args": shown,
				"exit": res.Exit, "expected_exit": wantExit, "stdout": truncate(res.Stdout, 2000), "stderr": truncate(e.anon(res.Stderr), 2000),
			})
		}
	}
}

func runC15(r *Run) {
	r.Rule = "scratch repositories (.git marker, 2-7 workflows in .github/workflows and nested sub-directories carrying diagnostics of ~15 kinds with random identifiers, optional base config) linted by the real CLI binary in child processes; per repository one unfiltered baseline and 6 filter sets (none / -ignore / `paths` ignore / both / everything filtered / random) x 8 (cwd, spelling) pairs out of {root, parent, nested, .github/workflows, .github, unrelated} x {relative, ./, absolute, unclean relative, no arguments}, all files / one file / permuted subset, JSON or -oneline output; expected = baseline minus messages matched by Go regexp under globs matched by doublestar against the root-relative path. Patterns: derived from the observed messages (word, quoted token, anchored prefix/suffix/full, alternation, case-insensitive) and static ones matching nothing / everything / kind names / path-like text. Lists of interacting patterns (inline flags (?i) (?s) (?U) (?m) in a non-last pattern followed by a pattern matching only under that flag, (?i:...) groups, (?-i), anchors in every pattern, alternations and empty alternatives inside a pattern, empty patterns, equal group names) in -ignore and in config ignore lists; the reference compiles each pattern alone. Repository layouts: .git directory; .git regular FILE (linked worktree); .git file (submodule) or .git directory nested in vendor/ of an outer ordinary clone that has its own different (sometimes broken) configuration, additionally linted from the outer root; the repository of a file is the nearest ancestor with .github/workflows and a .git entry. `paths` globs cover the doublestar syntax: literal path, *, **, ?, [abc], [a-c], [^a]/[!a], {a,b} on file names / directories / extensions, nested {a,{b,c}}, empty alternative {,x}, backslash escapes, leading ./, trailing /, combinations; file names with spaces, non-ASCII and glob meta characters; each derived from a project file to match it or to miss it narrowly, classified by a scanner of the glob text; invalid globs (unbalanced [ or {, dangling escape; decided by doublestar.ValidatePattern) only in the fatal family. Symbolic links: the repository reached through a link to its root or to its parent directory (relative / absolute spelling, cwd outside and inside the link with PWD spelled through the link), .github or .github/workflows being a link to a directory elsewhere, workflow files that are links to other workflows or to files outside; the glob applies to the path relative to the root as reached. Input from stdin (`-`) with -stdin-filename naming an existing file of the repository (the repository's configuration applies to that name), a file outside any repository, a missing file, or without a name (no configuration applies; only -ignore). `ignore` elements and whole lists written as YAML aliases. Workflows also carry groups of diagnostics at ONE position (missing required inputs of popular actions with two or more of them, a job without runs-on and steps, a file without on and jobs); the comparison is an exact sequence comparison, so their relative order after filtering must be that of the unfiltered run. Fatal family: missing file, invalid -ignore regexp, invalid regexp / glob / YAML in config, missing -config-file, no repository, unknown or malformed flags. Non-trivial = run in which the filter removes at least one diagnostic, or a fatal scenario."
	r.Assume("diagnostics of one workflow file do not depend on the other files of the run (no local actions / reusable workflows are generated), so the unfiltered list of any file subset is the concatenation of the per-file baselines in command line order")
	r.Assume("Go regexp and doublestar.Match (the documented matchers) define 'matches'; shellcheck and pyflakes are disabled with -shellcheck= -pyflakes=")
	r.Assume("which configuration file applies is not examined: -config-file is only used when the repository has no .github/actionlint.y(a)ml; stdin input and several repositories in one run are excluded (C10)")

	fams := []*Family{
		{Name: "filter-projects", N: r.Q(200, 5000), Do: c15Case},
		{Name: "fatal-and-flags", N: r.Q(40, 600), Do: c15FatalCase},
	}
	r.RunFamilies(fams)
	if r.ReplayOf != nil {
		return
	}
	if os.Getenv("VERIF_ONLY_FAMILY") != "" {
		return
	}
	// coverage floors
	need := func(cond bool, msg string) {
		if !cond {
			r.Inconclusive(msg)
		}
	}
	need(r.SetLen("cwd_x_spelling") == len(c15AllPairs(true)), fmt.Sprintf("only %d of %d (cwd, spelling) pairs were exercised", r.SetLen("cwd_x_spelling"), len(c15AllPairs(true))))
	need(r.Counter("runs_discriminating_config_patterns_one_by_one_vs_joined") > 0 && r.Counter("runs_discriminating_cli_patterns_one_by_one_vs_joined") > 0, "no run in which matching the patterns of a list one by one and joined into one alternation give different results (config and -ignore)")
	need(r.SetLen("pattern_set_classes") >= 10, fmt.Sprintf("only %d classes of interacting pattern lists generated", r.SetLen("pattern_set_classes")))
	for li, ln := range c15LayoutNames {
		need(r.Counter("projects_layout_"+ln) > 0, "no repository with layout "+ln)
		if li != 0 {
			need(r.Counter("runs_discriminating_repository_recognised_"+ln) > 0, "layout "+ln+": no run whose result depends on the repository being recognised")
			need(r.SetHas("layouts_with_no_argument_runs", ln), "layout "+ln+": no run without arguments")
		}
		if li >= 2 {
			need(r.Counter("runs_discriminating_inner_vs_outer_repository_"+ln) > 0, "layout "+ln+": no run in which the inner and the outer configuration give different results")
		}
		for cw := 0; cw < c15NCwd; cw++ {
			if cw == c15CwdOuterRoot && li < 2 {
				continue
			}
			need(r.SetHas("layout_x_cwd", ln+"/"+c15CwdNames[cw]), "layout "+ln+" never linted from cwd "+c15CwdNames[cw])
		}
	}
	for _, k := range []string{"runs_config_decides_reach_direct", "runs_config_decides_reach_symlink-to-repository-root", "runs_config_decides_reach_symlink-to-parent-of-repository-root",
		"runs_config_decides_cwd_inside_symlinked_repository", "runs_config_decides_cwd_inside_symlinked_dot_github_or_workflows",
		"runs_config_decides_dirlink_1", "runs_config_decides_dirlink_2", "runs_config_decides_with_symlinked_workflow_file",
		"runs_config_decides_stdin-filename-in-repository", "runs_stdin-filename-outside-any-repository", "runs_stdin-filename-of-missing-file", "runs_stdin-without-filename",
		"runs_stdin_without_repository_but_repository_config_present",
		"runs_discriminating_alias_element_value_vs_anchor_name", "runs_config_decides_with_aliased_ignore_list"} {
		need(r.Counter(k) >= int64(r.Q(3, 40)), fmt.Sprintf("coverage counter %s = %d, need %d", k, r.Counter(k), r.Q(3, 40)))
	}
	if mk := r.Counter("runs_config_decides_with_aliased_ignore_list_via_1") + r.Counter("runs_config_decides_with_aliased_ignore_list_via_3"); mk < int64(r.Q(3, 40)) {
		need(false, fmt.Sprintf("only %d deciding runs whose paths entry takes its ignore list through a YAML merge key", mk))
	}
	need(r.Counter("runs_same_position_group_remains_and_earlier_collected_diagnostic_filtered") >= int64(r.Q(50, 1000)), fmt.Sprintf("only %d runs in which two or more remaining diagnostics share a position while a diagnostic collected before them is filtered", r.Counter("runs_same_position_group_remains_and_earlier_collected_diagnostic_filtered")))
	nGlob := int64(r.Q(3, 40))
	for _, syn := range c15GlobSyntax {
		m, n := r.Counter("glob_decisive_match_alone_"+syn), r.Counter("glob_decisive_nomatch_alone_"+syn)
		need(m >= nGlob && n >= nGlob, fmt.Sprintf("glob construct %s alone: %d matching and %d non-matching decisive (file, glob) pairs, need %d each", syn, m, n, nGlob))
	}
	need(r.Counter("glob_decisive_match_combined") >= nGlob && r.Counter("glob_decisive_nomatch_combined") >= nGlob, "too few decisive (file, glob) pairs with combined glob constructs")
	for _, t := range []string{"space", "non-ascii"} {
		need(r.Counter("glob_decisive_match_trait_"+t) > 0 && r.Counter("glob_decisive_nomatch_trait_"+t) > 0, "no decisive matching and non-matching (file, glob) pair with a glob containing "+t)
	}
	for _, t := range []string{"leading-dot-slash", "trailing-slash"} {
		need(r.Counter("glob_decisive_match_trait_"+t)+r.Counter("glob_decisive_nomatch_trait_"+t) > 0, "no decisive (file, glob) pair with a glob with "+t)
	}
	need(r.SetLen("invalid_globs") >= 4, fmt.Sprintf("only %d distinct invalid globs exercised", r.SetLen("invalid_globs")))
	need(r.Counter("runs_nothing_filtered") > 0 && r.Counter("runs_partly_filtered") > 0 && r.Counter("runs_everything_filtered") > 0, "not all of nothing / partly / everything filtered were observed")
	need(r.Counter("dropped_by_cli") > 0 && r.Counter("dropped_by_config") > 0, "a filter mechanism never removed a diagnostic")
	need(r.Counter("glob_entries_matching_a_file") > 0 && r.Counter("glob_entries_matching_no_file") > 0, "globs matching a file and globs matching no file were not both generated")
	need(r.Counter("runs_discriminating_with_cwd_not_root") > 0 && r.Counter("runs_discriminating_at_root_by_spelling") > 0, "no run in which matching globs against the root-relative path and against the printed path give different results")
	need(r.SetLen("kinds_in_baselines") >= 6, "fewer than 6 diagnostic kinds in the baselines")
	need(r.SetHas("exit_statuses", "0") && r.SetHas("exit_statuses", "1"), "exit statuses 0 and 1 were not both observed")
	need(r.Counter("single_file_runs") > 0 && r.Counter("multi_file_runs") > 0 && r.Counter("no_argument_runs") > 0, "single-file, multi-file and no-argument runs were not all exercised")
	need(r.SetLen("fatal_classes") >= 11, fmt.Sprintf("only %d fatal / flag scenario classes exercised", r.SetLen("fatal_classes")))
}
