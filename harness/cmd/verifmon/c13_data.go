package main

// C13 data: the independent section table (written from the GitHub workflow-syntax reference, not
// derived from parse.go) and the maximal template workflows.

// c13Mand describes one mandatory key of a section: deleting Key (when none of the Unless keys is
// present in the same mapping) must produce a new diagnostic that names it as missing.
type c13Mand struct {
	Key    string
	Unless []string
	Word   string // the diagnostic has to contain this word and one of missing / required / must
}

// c13Section is one row of the table. Path is matched against the YAML path of a mapping node:
// "*" matches any mapping key, "[]" a sequence element. The first matching row wins.
type c13Section struct {
	Name      string
	Path      []string
	Keys      []string // accepted keys (case-sensitive); nil for Free sections
	Free      bool     // user-chosen keys (ids / names): no foreign-key mutation, names compared case-insensitively
	AtItem    bool     // a foreign key is reported at the mapping itself (schedule items)
	Extended  bool     // not in the parenthesised list of the statement; see c13 report
	SynthOnly bool     // only synthetic foreign-key names (the key set is open-ended in the docs)
	Mand      []c13Mand
	Skip      bool // a mapping here is a type error of its own; not part of the domain
}

var c13ContainerKeys = []string{"image", "credentials", "env", "ports", "volumes", "options"}
var c13CredentialKeys = []string{"username", "password"}
var c13CredentialMand = []c13Mand{
	{Key: "username", Word: "username"},
	{Key: "password", Word: "password"},
}
var c13ConcurrencyMand = []c13Mand{{Key: "group", Word: "group"}}
var c13DefaultsRunKeys = []string{"shell", "working-directory"}

var c13WebhookEvents = []string{
	"branch_protection_rule", "check_run", "check_suite", "create", "delete", "deployment", "deployment_status",
	"discussion", "discussion_comment", "fork", "gollum", "issue_comment", "issues", "label", "merge_group", "milestone",
	"page_build", "project", "project_card", "project_column", "public", "pull_request", "pull_request_review",
	"pull_request_review_comment", "pull_request_target", "push", "registry_package", "release", "repository_dispatch",
	"schedule", "status", "watch", "workflow_call", "workflow_dispatch", "workflow_run",
}

var c13Sections = []c13Section{
	{Name: "workflow", Path: []string{},
		Keys: []string{"name", "run-name", "on", "permissions", "env", "defaults", "concurrency", "jobs"},
		Mand: []c13Mand{
			{Key: "on", Word: "on"},
			{Key: "jobs", Word: "jobs"},
		}},
	// --- events
	{Name: "on", Path: []string{"on"}, Keys: c13WebhookEvents, Extended: true, SynthOnly: true},
	{Name: "workflow_dispatch", Path: []string{"on", "workflow_dispatch"}, Keys: []string{"inputs"}},
	{Name: "workflow_dispatch.inputs", Path: []string{"on", "workflow_dispatch", "inputs"}, Free: true},
	{Name: "workflow_dispatch.input", Path: []string{"on", "workflow_dispatch", "inputs", "*"},
		Keys: []string{"description", "required", "default", "type", "options"}},
	{Name: "repository_dispatch", Path: []string{"on", "repository_dispatch"}, Keys: []string{"types"}},
	{Name: "workflow_call", Path: []string{"on", "workflow_call"}, Keys: []string{"inputs", "secrets", "outputs"}},
	{Name: "workflow_call.inputs", Path: []string{"on", "workflow_call", "inputs"}, Free: true},
	{Name: "workflow_call.input", Path: []string{"on", "workflow_call", "inputs", "*"},
		Keys: []string{"description", "required", "default", "type"},
		Mand: []c13Mand{{Key: "type", Word: "type"}}},
	{Name: "workflow_call.secrets", Path: []string{"on", "workflow_call", "secrets"}, Free: true},
	{Name: "workflow_call.secret", Path: []string{"on", "workflow_call", "secrets", "*"},
		Keys: []string{"description", "required"}},
	{Name: "workflow_call.outputs", Path: []string{"on", "workflow_call", "outputs"}, Free: true},
	{Name: "workflow_call.output", Path: []string{"on", "workflow_call", "outputs", "*"},
		Keys: []string{"description", "value"},
		Mand: []c13Mand{{Key: "value", Word: "value"}}},
	{Name: "schedule-item", Path: []string{"on", "schedule", "[]"}, Keys: []string{"cron"}, AtItem: true},
	{Name: "schedule-not-a-sequence", Path: []string{"on", "schedule"}, Skip: true},
	{Name: "webhook-event", Path: []string{"on", "*"},
		Keys: []string{"types", "branches", "branches-ignore", "tags", "tags-ignore", "paths", "paths-ignore", "workflows"}},
	// --- top level sections
	{Name: "permissions", Path: []string{"permissions"}, Free: true, Extended: true},
	{Name: "env", Path: []string{"env"}, Free: true},
	{Name: "defaults", Path: []string{"defaults"}, Keys: []string{"run"}},
	{Name: "defaults.run", Path: []string{"defaults", "run"}, Keys: c13DefaultsRunKeys},
	{Name: "concurrency", Path: []string{"concurrency"}, Keys: []string{"group", "cancel-in-progress"}, Mand: c13ConcurrencyMand},
	{Name: "jobs", Path: []string{"jobs"}, Free: true},
	// --- job
	{Name: "job", Path: []string{"jobs", "*"},
		Keys: []string{"name", "needs", "runs-on", "permissions", "environment", "concurrency", "outputs", "env", "defaults", "if",
			"steps", "timeout-minutes", "strategy", "continue-on-error", "container", "services", "uses", "with", "secrets"},
		Mand: []c13Mand{
			{Key: "runs-on", Unless: []string{"uses"}, Word: "runs-on"},
			{Key: "steps", Unless: []string{"uses"}, Word: "steps"},
		}},
	{Name: "runs-on", Path: []string{"jobs", "*", "runs-on"}, Keys: []string{"labels", "group"}},
	{Name: "job.permissions", Path: []string{"jobs", "*", "permissions"}, Free: true, Extended: true},
	{Name: "environment", Path: []string{"jobs", "*", "environment"}, Keys: []string{"name", "url"},
		Mand: []c13Mand{{Key: "name", Word: "name"}}},
	{Name: "job.concurrency", Path: []string{"jobs", "*", "concurrency"}, Keys: []string{"group", "cancel-in-progress"}, Mand: c13ConcurrencyMand},
	{Name: "job.outputs", Path: []string{"jobs", "*", "outputs"}, Free: true},
	{Name: "job.env", Path: []string{"jobs", "*", "env"}, Free: true},
	{Name: "job.defaults", Path: []string{"jobs", "*", "defaults"}, Keys: []string{"run"}},
	{Name: "job.defaults.run", Path: []string{"jobs", "*", "defaults", "run"}, Keys: c13DefaultsRunKeys},
	{Name: "strategy", Path: []string{"jobs", "*", "strategy"}, Keys: []string{"matrix", "fail-fast", "max-parallel"}},
	{Name: "matrix", Path: []string{"jobs", "*", "strategy", "matrix"}, Free: true},
	{Name: "matrix.include-item", Path: []string{"jobs", "*", "strategy", "matrix", "include", "[]"}, Free: true},
	{Name: "matrix.exclude-item", Path: []string{"jobs", "*", "strategy", "matrix", "exclude", "[]"}, Free: true},
	{Name: "matrix.row-value", Path: []string{"jobs", "*", "strategy", "matrix", "*", "[]"}, Free: true},
	{Name: "container", Path: []string{"jobs", "*", "container"}, Keys: c13ContainerKeys},
	{Name: "container.credentials", Path: []string{"jobs", "*", "container", "credentials"}, Keys: c13CredentialKeys, Mand: c13CredentialMand},
	{Name: "container.env", Path: []string{"jobs", "*", "container", "env"}, Free: true},
	{Name: "services", Path: []string{"jobs", "*", "services"}, Free: true},
	{Name: "service", Path: []string{"jobs", "*", "services", "*"}, Keys: c13ContainerKeys},
	{Name: "service.credentials", Path: []string{"jobs", "*", "services", "*", "credentials"}, Keys: c13CredentialKeys, Mand: c13CredentialMand},
	{Name: "service.env", Path: []string{"jobs", "*", "services", "*", "env"}, Free: true},
	{Name: "job.with", Path: []string{"jobs", "*", "with"}, Free: true},
	{Name: "job.secrets", Path: []string{"jobs", "*", "secrets"}, Free: true},
	// --- step
	{Name: "step", Path: []string{"jobs", "*", "steps", "[]"},
		Keys: []string{"id", "if", "name", "env", "continue-on-error", "timeout-minutes", "uses", "with", "run", "working-directory", "shell"},
		Mand: []c13Mand{
			{Key: "run", Unless: []string{"uses", "with"}, Word: "run"},
			{Key: "uses", Unless: []string{"run", "shell"}, Word: "uses"},
		}},
	{Name: "step.env", Path: []string{"jobs", "*", "steps", "[]", "env"}, Free: true},
	{Name: "step.with", Path: []string{"jobs", "*", "steps", "[]", "with"}, Free: true},
}

// Templates. `@{clean@|dirty@}` is an alternation: the clean rendering must lint without any
// diagnostic; the dirty alternative must produce at least one diagnostic on its own line, so that a
// mutation which stops that sibling from being checked becomes visible.

const c13TemplateA = `name: @{Template A@|[x]@}
run-name: @{Run by ${{ github.actor }}@|Run by ${{ foo }}@}
on:
  push:
    branches:
      - @{main@|ma^in@}
    tags:
      - @{v*@|v^@}
    paths:
      - @{src/**@|''@}
  pull_request:
    types:
      - @{opened@|c13bogus@}
    branches-ignore:
      - @{wip/**@|wi^p@}
    paths-ignore:
      - @{docs/**@|''@}
  workflow_run:
    workflows:
      - @{Build@|''@}
    types:
      - @{completed@|c13bogus@}
    branches:
      - @{main@|ma^in@}
  workflow_dispatch:
    inputs:
      level:
        description: @{Log level@|[x]@}
        required: @{true@|maybe@}
        default: @{info@|nope@}
        type: choice
        options:
          - info
          - @{debug@|info@}
      note:
        description: @{A note@|[x]@}
        required: @{false@|maybe@}
        default: @{hello@|[x]@}
        type: @{string@|c13bogus@}
  repository_dispatch:
    types:
      - @{deploy@|''@}
  schedule:
    - cron: @{'0 4 * * *'@|'bad cron'@}
    - cron: @{'30 5 * * 1'@|'bad cron'@}
permissions:
  contents: @{read@|c13bogus@}
  issues: @{write@|c13bogus@}
env:
  TOP_ENV: @{one@|${{ foo }}@}
  OTHER_ENV: @{two@|${{ foo }}@}
defaults:
  run:
    shell: @{bash@|c13sh@}
    working-directory: @{src@|''@}
concurrency:
  group: @{ci-${{ github.ref }}@|ci-${{ foo }}@}
  cancel-in-progress: @{true@|maybe@}
jobs:
  build:
    name: @{Build@|${{ foo }}@}
    needs:
      - @{prepare@|''@}
    runs-on:
      group: @{big-runners@|${{ foo }}@}
      labels:
        - @{ubuntu-latest@|${{ foo }}@}
    permissions:
      contents: @{read@|c13bogus@}
      packages: @{write@|c13bogus@}
    environment:
      name: @{production@|${{ foo }}@}
      url: @{https://example.com@|${{ foo }}@}
    concurrency:
      group: @{build-${{ github.ref }}@|build-${{ foo }}@}
      cancel-in-progress: @{false@|maybe@}
    outputs:
      result: @{${{ steps.first.outputs.value }}@|${{ foo }}@}
      other: @{done@|${{ foo }}@}
    env:
      JOB_ENV: @{a@|${{ foo }}@}
      JOB_ENV2: @{b@|${{ foo }}@}
    defaults:
      run:
        shell: @{bash@|c13sh@}
        working-directory: @{lib@|''@}
    if: @{github.ref == 'refs/heads/main'@|foo@}
    timeout-minutes: @{30@|-1@}
    strategy:
      matrix:
        os:
          - linux
          - @{mac@|linux@}
        node:
          - @{18@|${{ foo }}@}
        include:
          - os: @{linux@|{a: 1, A: 2}@}
            node: @{20@|{b: 1, B: 2}@}
        exclude:
          - os: @{mac@|{a: 1, A: 2}@}
            node: @{18@|{b: 1, B: 2}@}
      fail-fast: @{false@|maybe@}
      max-parallel: @{2@|0@}
    continue-on-error: @{false@|maybe@}
    container:
      image: @{node:20@|${{ foo }}@}
      credentials:
        username: @{user@|${{ foo }}@}
        password: @{${{ secrets.REGISTRY_PASSWORD }}@|${{ foo }}@}
      env:
        C_ENV: @{x@|${{ foo }}@}
        C_ENV2: @{y@|${{ foo }}@}
      ports:
        - @{8080:80@|''@}
      volumes:
        - @{/data:/data@|''@}
      options: @{--cpus 1@|${{ foo }}@}
    services:
      redis:
        image: @{redis:7@|${{ foo }}@}
        credentials:
          username: @{user@|${{ foo }}@}
          password: @{${{ secrets.REGISTRY_PASSWORD }}@|${{ foo }}@}
        env:
          R_ENV: @{x@|${{ foo }}@}
          R_ENV2: @{y@|${{ foo }}@}
        ports:
          - @{6379:6379@|''@}
        volumes:
          - @{/r:/r@|''@}
        options: @{--cpus 1@|${{ foo }}@}
      db:
        image: postgres:16
    steps:
      - id: @{first@|fir st@}
        if: @{always()@|foo@}
        name: @{First@|${{ foo }}@}
        env:
          STEP_ENV: @{s@|${{ foo }}@}
          STEP_ENV2: @{t@|${{ foo }}@}
        continue-on-error: @{true@|maybe@}
        timeout-minutes: @{5@|0@}
        run: @{echo "value=1" >> "$GITHUB_OUTPUT"@|echo ${{ foo }}@}
        shell: @{bash@|c13sh@}
        working-directory: @{src@|${{ foo }}@}
      - id: @{second@|sec ond@}
        if: @{success()@|foo@}
        name: @{Second@|${{ foo }}@}
        env:
          A_ENV: @{b@|${{ foo }}@}
        continue-on-error: @{false@|maybe@}
        timeout-minutes: @{10@|0@}
        uses: @{actions/checkout@v4@|actions/checkout@}
        with:
          fetch-depth: @{0@|${{ foo }}@}
          ref: @{main@|${{ foo }}@}
      - uses: docker://alpine:3.8
        with:
          entrypoint: @{/bin/echo@|''@}
          args: @{hi@|${{ foo }}@}
  prepare:
    runs-on: @{ubuntu-latest@|${{ foo }}@}
    steps:
      - run: @{echo prepare@|echo ${{ foo }}@}
`

const c13TemplateB = `name: Template B
on:
  push:
    tags-ignore:
      - @{tmp*@|tm^p@}
    branches:
      - @{main@|ma^in@}
  workflow_call:
    inputs:
      target:
        description: @{Deployment target@|[x]@}
        required: @{false@|maybe@}
        default: @{prod@|${{ foo }}@}
        type: @{string@|c13bogus@}
      count:
        description: @{How many@|[x]@}
        required: @{false@|maybe@}
        default: @{3@|${{ foo }}@}
        type: @{number@|c13bogus@}
    secrets:
      token:
        description: @{A token@|[x]@}
        required: @{true@|maybe@}
      extra:
        description: @{Another one@|[x]@}
        required: @{false@|maybe@}
    outputs:
      result:
        description: @{The result@|[x]@}
        value: @{${{ jobs.work.outputs.out }}@|${{ foo }}@}
      second:
        description: @{Second result@|[x]@}
        value: @{constant@|${{ foo }}@}
jobs:
  work:
    runs-on: @{ubuntu-latest@|${{ foo }}@}
    outputs:
      out: @{${{ steps.s.outputs.o }}@|${{ foo }}@}
    steps:
      - id: s
        run: @{echo "o=${{ inputs.target }}" >> "$GITHUB_OUTPUT"@|echo ${{ foo }}@}
      - name: @{Multi-line script@|${{ foo }}@}
        shell: @{bash@|c13sh@}
        run: |
          echo one
          # not a comment of the workflow

          echo two
  call:
    name: @{Call@|${{ foo }}@}
    needs:
      - @{work@|''@}
    if: @{success()@|foo@}
    permissions:
      contents: @{read@|c13bogus@}
      issues: @{write@|c13bogus@}
    uses: @{owner/repo/.github/workflows/ci.yml@v1@|owner/repo@v1@}
    with:
      first: @{a@|${{ foo }}@}
      second: @{b@|${{ foo }}@}
    secrets:
      token: @{${{ secrets.token }}@|${{ foo }}@}
      extra: @{x@|${{ foo }}@}
`

// Template C: other spellings of the same sections (quoted keys, 4-space indentation, comments,
// scalar forms next to mapping forms, a block scalar as the last value of a mapping).
const c13TemplateC = `# leading comment
"name": Template C
'on':
    issues:
        types:
            - @{opened@|c13bogus@}   # trailing comment
    workflow_dispatch:
        inputs:
            flag:
                type: @{boolean@|c13bogus@}
                default: @{true@|[x]@}

concurrency:
    group: @{only-${{ github.workflow }}@|only-${{ foo }}@}
    cancel-in-progress: @{${{ github.ref != 'refs/heads/main' }}@|${{ foo }}@}

jobs:
    "Lint":
        runs-on:
            labels: @{ubuntu-latest@|${{ foo }}@}
            group: @{grp@|${{ foo }}@}
        environment:
            url: @{https://example.com/${{ github.sha }}@|${{ foo }}@}
            name: @{staging@|${{ foo }}@}
        container:
            options: @{--cpus 2@|${{ foo }}@}
            image: @{alpine:3@|${{ foo }}@}
        strategy:
            max-parallel: @{${{ 4 }}@|${{ foo }}@}
            fail-fast: @{${{ true }}@|${{ foo }}@}
            matrix:
                ver: @{[1, 2]@|[1, 1]@}
        steps:
            # comment between
            - "uses": @{actions/setup-node@v4@|actions/setup-node@}
              'with':
                  node-version: @{${{ matrix.ver }}@|${{ foo }}@}
            - working-directory: @{sub@|''@}
              run: |
                  echo "${{ matrix.ver }}"
                  exit 0
    second:
        needs: @{Lint@|''@}
        runs-on: @{ubuntu-latest@|${{ foo }}@}
        steps:
            - run: @{echo hi@|echo ${{ foo }}@}
              shell: @{sh@|c13sh@}
`

// Template S: a small workflow that runs first, so that the first witness of a defect in the sections
// it contains is short.
const c13TemplateS = `on:
  schedule:
    - cron: @{'0 4 * * *'@|'bad cron'@}
  workflow_dispatch:
    inputs:
      who:
        type: @{string@|c13bogus@}
        default: @{me@|[x]@}
concurrency:
  group: @{g@|${{ foo }}@}
  cancel-in-progress: @{true@|maybe@}
jobs:
  job:
    runs-on: @{ubuntu-latest@|${{ foo }}@}
    container:
      image: @{alpine:3@|${{ foo }}@}
      credentials:
        username: @{u@|${{ foo }}@}
        password: @{${{ secrets.P }}@|${{ foo }}@}
    steps:
      - run: @{echo hi@|echo ${{ foo }}@}
        shell: @{bash@|c13sh@}
`

// Template L: the events come last, so that mappings of every section group end at the end of the file.
const c13TemplateL = `jobs:
  job:
    runs-on: @{ubuntu-latest@|${{ foo }}@}
    steps:
      - run: @{echo hi@|echo ${{ foo }}@}
on:
  workflow_dispatch:
    inputs:
      who:
        type: @{string@|c13bogus@}
        default: @{me@|[x]@}
`

type c13Template struct {
	Name string
	Text string
}

var c13Templates = []c13Template{
	{"S", c13TemplateS},
	{"A", c13TemplateA},
	{"B", c13TemplateB},
	{"C", c13TemplateC},
	{"N", c13TemplateN},
	{"K", c13TemplateK},
	{"L", c13TemplateL},
}
