package main

// C09, local actions and local reusable workflows whose specs are easily confused: they differ
// only in letter case (of the last or of an inner path element), sit under the same name in
// different directories, or are spelled with a trailing slash, "./", "//" or "x/../" detours. Every
// directory has its own interface (inputs, required inputs, outputs, secrets). Blocks that use them
// are put into one run in varying order, in one job and in several jobs, with unrelated steps and
// jobs around; the diagnostics of each block must equal those it gets when it is linted alone.
// All metadata files are well-formed, so the once-per-run reports about broken metadata (which
// depend on the visiting order by design) never occur.

import (
	"fmt"
	"io"
	"os"
	"path/filepath"
	"strings"

	"github.com/rhysd/actionlint"
)

type c09LocalAction struct {
	Dir     string // relative to the project root
	Inputs  []string
	Req     []string // required inputs
	Outputs []string
	Kind    string // node20 | composite | docker
}

var c09LocalActions = []c09LocalAction{
	{".github/actions/deploy", []string{"target", "env"}, []string{"target"}, []string{"url"}, "node20"},
	{".github/actions/Deploy", []string{"host", "port"}, []string{"host"}, []string{"revision"}, "node20"},
	{".github/actions/DEPLOY", []string{"region"}, nil, []string{"id", "url"}, "composite"},
	{".github/Actions/deploy", []string{"token"}, []string{"token"}, []string{"ok"}, "node20"},
	{"actions/deploy", []string{"path", "target"}, []string{"path"}, []string{"digest"}, "docker"},
	{".github/actions/sub/deploy", []string{"name"}, []string{"name"}, []string{"sub"}, "node20"},
	{".github/actions/build", []string{"config"}, nil, []string{"artifact"}, "composite"},
	{".github/actions/Build", []string{"Config", "jobs"}, []string{"jobs"}, []string{"Artifact", "log"}, "node20"},
}

// spellings of action specs (all resolve to one of the directories above)
var c09LocalActionSpecs = []string{
	"./.github/actions/deploy", "./.github/actions/Deploy", "./.github/actions/DEPLOY", "./.github/Actions/deploy", "./actions/deploy",
	"./.github/actions/sub/deploy", "./.github/actions/build", "./.github/actions/Build",
	"./.github/actions/deploy/", "./.github/actions/Deploy/", "./.github/actions/sub/../deploy", "./.github/actions/sub/../Deploy", "./.github/actions/./DEPLOY",
	"./.github//actions/build", "./.github/actions/Build/.", "./.github/actions/sub/../sub/deploy", "./actions/../.github/Actions/deploy",
}

var c09LocalInputPool = []string{"target", "env", "host", "port", "region", "token", "path", "name", "config", "Config", "jobs", "TARGET"}
var c09LocalOutputPool = []string{"url", "revision", "id", "ok", "digest", "sub", "artifact", "Artifact", "log", "URL"}

type c09LocalWorkflow struct {
	File    string
	Inputs  []string // "name:type[:required]"
	Secrets []string // "name[:required]"
	Outputs []string
}

var c09LocalWorkflows = []c09LocalWorkflow{
	{".github/workflows/build.yml", []string{"target:string:required", "debug:boolean"}, []string{"token:required"}, []string{"artifact"}},
	{".github/workflows/Build.yml", []string{"host:number:required"}, nil, []string{"revision"}},
	{".github/workflows/BUILD.yml", []string{"target:boolean"}, []string{"key"}, []string{"artifact", "id"}},
	{".github/Workflows/build.yml", []string{"region:string:required"}, []string{"token"}, []string{"ok"}},
	{".github/workflows/build.yaml", []string{"path:string"}, []string{"pass:required"}, []string{"digest"}},
	{"workflows/build.yml", []string{"name:number"}, nil, []string{"sub"}},
	{".github/workflows/sub/build.yml", []string{"debug:string:required"}, nil, []string{"log"}},
}

var c09LocalWorkflowSpecs = []string{
	"./.github/workflows/build.yml", "./.github/workflows/Build.yml", "./.github/workflows/BUILD.yml", "./.github/Workflows/build.yml", "./.github/workflows/build.yaml",
	"./workflows/build.yml", "./.github/workflows/sub/build.yml",
	"./.github/workflows/sub/../build.yml", "./.github/workflows/sub/../Build.yml", "./.github/workflows/./BUILD.yml", "./.github//workflows/build.yaml", "./workflows/../.github/Workflows/build.yml",
}

var c09LocalWfInputPool = []string{"target", "debug", "host", "region", "path", "name", "TARGET"}
var c09LocalWfSecretPool = []string{"token", "key", "pass", "TOKEN"}
var c09LocalWfOutputPool = []string{"artifact", "revision", "id", "ok", "digest", "sub", "log"}

// c09LocalSetup writes the project. It returns "" and a reason when the file system cannot tell
// the spellings apart.
func c09LocalSetup() (root string, problem string) {
	root = mkScratch("c09")
	files := map[string]string{".github/workflows/main.yml": "on: push\njobs:\n  j:\n    runs-on: ubuntu-latest\n    steps:\n      - run: echo\n"}
	for _, a := range c09LocalActions {
		var sb strings.Builder
		fmt.Fprintf(&sb, "name: action in %s\ndescription: local action used by the C09 monitor\n", a.Dir)
		sb.WriteString("inputs:\n")
		for _, in := range a.Inputs {
			req := false
			for _, q := range a.Req {
				if q == in {
					req = true
				}
			}
			fmt.Fprintf(&sb, "  %s:\n    description: input %s\n    required: %v\n", in, in, req)
		}
		sb.WriteString("outputs:\n")
		for _, o := range a.Outputs {
			if a.Kind == "composite" {
				fmt.Fprintf(&sb, "  %s:\n    description: output %s\n    value: v\n", o, o)
			} else {
				fmt.Fprintf(&sb, "  %s:\n    description: output %s\n", o, o)
			}
		}
		switch a.Kind {
		case "composite":
			sb.WriteString("runs:\n  using: composite\n  steps:\n    - run: echo\n      shell: bash\n")
		case "docker":
			sb.WriteString("runs:\n  using: docker\n  image: docker://alpine:3.19\n")
		default:
			sb.WriteString("runs:\n  using: node20\n  main: index.js\n")
			files[a.Dir+"/index.js"] = "\n"
		}
		files[a.Dir+"/action.yml"] = sb.String()
	}
	for _, w := range c09LocalWorkflows {
		var sb strings.Builder
		sb.WriteString("on:\n  workflow_call:\n    inputs:\n")
		for _, in := range w.Inputs {
			p := strings.Split(in, ":")
			fmt.Fprintf(&sb, "      %s:\n        type: %s\n        required: %v\n", p[0], p[1], len(p) > 2)
		}
		if len(w.Secrets) > 0 {
			sb.WriteString("    secrets:\n")
			for _, s := range w.Secrets {
				p := strings.Split(s, ":")
				fmt.Fprintf(&sb, "      %s:\n        required: %v\n", p[0], len(p) > 1)
			}
		}
		sb.WriteString("    outputs:\n")
		for _, o := range w.Outputs {
			fmt.Fprintf(&sb, "      %s:\n        value: ${{ jobs.j.outputs.o }}\n", o)
		}
		sb.WriteString("jobs:\n  j:\n    runs-on: ubuntu-latest\n    outputs:\n      o: v\n    steps:\n      - run: echo\n")
		files[w.File] = sb.String()
	}
	for rel, content := range c09BrokenFiles() {
		files[rel] = content
	}
	writeFiles(root, files)
	// the spellings must name different files: read every file back through its own spelling
	for rel, content := range files {
		b, err := os.ReadFile(filepath.Join(root, filepath.FromSlash(rel)))
		if err != nil || string(b) != content {
			os.RemoveAll(root)
			return "", "the scratch file system does not keep paths apart that differ only in letter case (" + rel + ")"
		}
	}
	return root, ""
}

func c09LocalLint(root, src string) ([]Diag, error) {
	l, err := actionlint.NewLinter(io.Discard, &actionlint.LinterOptions{WorkingDir: root})
	if err != nil {
		return nil, err
	}
	proj, err := actionlint.NewProject(root)
	if err != nil {
		return nil, err
	}
	errs, err := l.Lint(filepath.Join(root, ".github", "workflows", "main.yml"), []byte(src), proj)
	if err != nil {
		return nil, err
	}
	return toDiags(errs), nil
}

// a block is a unit that is unrelated to every other block: a step using a local action under an
// id of its own plus a step reading its outputs; or a job calling a local reusable workflow plus a
// job that needs it and reads its outputs; or a plain step / job.
type c09LocalBlock struct {
	Key   string
	Steps [][]string // step blocks: lines of each step at indent 6
	Jobs  [][]string // job blocks: lines of each job at indent 2
	Spec  string
}

func c09LocalStepBlock(r *Rand, n int) *c09LocalBlock {
	id := fmt.Sprintf("u%d", n)
	b := &c09LocalBlock{Key: "block-" + id}
	if r.Chance(1, 4) { // unrelated plain steps
		b.Steps = append(b.Steps, []string{"      - id: " + id, "        run: echo " + r.Pick([]string{"hello", "${{ github.sha }}", "${{ github.nope }}"})})
		if r.Bool() {
			b.Steps = append(b.Steps, []string{"      - uses: actions/checkout@v4", "        with:", "          " + r.Pick([]string{"fetch-depth", "target", "host"}) + ": 1"})
		}
		return b
	}
	b.Spec = r.Pick(c09LocalActionSpecs)
	st := []string{"      - id: " + id, "        uses: " + b.Spec}
	nin := r.Intn(4)
	if nin > 0 {
		st = append(st, "        with:")
		used := map[string]bool{}
		for i := 0; i < nin; i++ {
			in := r.Pick(c09LocalInputPool)
			if used[strings.ToLower(in)] {
				continue
			}
			used[strings.ToLower(in)] = true
			st = append(st, "          "+in+": "+r.Pick([]string{"v", "1", "${{ github.sha }}"}))
		}
	}
	b.Steps = append(b.Steps, st)
	rd := []string{"      - run: echo", "        env:"}
	nout := r.Range(1, 3)
	for i := 0; i < nout; i++ {
		rd = append(rd, fmt.Sprintf("          O%d: ${{ steps.%s.outputs.%s }}", i, id, r.Pick(c09LocalOutputPool)))
	}
	b.Steps = append(b.Steps, rd)
	return b
}

func c09LocalJobBlock(r *Rand, n int) *c09LocalBlock {
	id := fmt.Sprintf("c%d", n)
	b := &c09LocalBlock{Key: "block-" + id}
	if r.Chance(1, 4) { // unrelated plain job
		b.Jobs = append(b.Jobs, []string{"  " + id + ":", "    runs-on: ubuntu-latest", "    steps:", "      - run: echo " + r.Pick([]string{"hello", "${{ github.sha }}", "${{ needs.nope.result }}"})})
		return b
	}
	b.Spec = r.Pick(c09LocalWorkflowSpecs)
	j := []string{"  " + id + ":", "    uses: " + b.Spec}
	nin := r.Intn(4)
	if nin > 0 {
		j = append(j, "    with:")
		used := map[string]bool{}
		for i := 0; i < nin; i++ {
			in := r.Pick(c09LocalWfInputPool)
			if used[strings.ToLower(in)] {
				continue
			}
			used[strings.ToLower(in)] = true
			j = append(j, "      "+in+": "+r.Pick([]string{"v", "1", "true", "${{ github.sha }}", "${{ 42 }}", "${{ github.ref == 'x' }}"}))
		}
	}
	switch r.Intn(4) {
	case 0:
		j = append(j, "    secrets: inherit")
	case 1, 2:
		j = append(j, "    secrets:")
		ns := r.Range(1, 2)
		used := map[string]bool{}
		for i := 0; i < ns; i++ {
			s := r.Pick(c09LocalWfSecretPool)
			if used[strings.ToLower(s)] {
				continue
			}
			used[strings.ToLower(s)] = true
			j = append(j, "      "+s+": ${{ secrets.S }}")
		}
	}
	b.Jobs = append(b.Jobs, j)
	rd := []string{"  r" + id + ":", "    needs: " + id, "    runs-on: ubuntu-latest", "    steps:", "      - run: echo", "        env:"}
	nout := r.Range(1, 3)
	for i := 0; i < nout; i++ {
		rd = append(rd, fmt.Sprintf("          O%d: ${{ needs.%s.outputs.%s }}", i, id, r.Pick(c09LocalWfOutputPool)))
	}
	b.Jobs = append(b.Jobs, rd)
	return b
}

// c09LocalCompose lays the blocks out. layout[i] lists the step blocks of job i; job blocks follow
// in the given order (interleaved when mix is set).
func c09LocalCompose(stepJobs [][]*c09LocalBlock, jobBlocks []*c09LocalBlock, jobsFirst bool) *c09Doc {
	b := NewYB()
	b.L(0, "on: push")
	b.L(0, "jobs:")
	d := &c09Doc{}
	emitJobs := func() {
		for _, jb := range jobBlocks {
			start := b.Pos().Line
			for _, j := range jb.Jobs {
				for _, l := range j {
					b.L(0, l)
				}
			}
			d.Regions = append(d.Regions, c09Region{Key: jb.Key, Start: start, End: b.Pos().Line})
		}
	}
	if jobsFirst {
		emitJobs()
	}
	for i, blocks := range stepJobs {
		if len(blocks) == 0 {
			continue
		}
		b.L(2, fmt.Sprintf("s%d:", i))
		b.L(4, "runs-on: ubuntu-latest")
		b.L(4, "steps:")
		for _, sb := range blocks {
			start := b.Pos().Line
			for _, st := range sb.Steps {
				for _, l := range st {
					b.L(0, l)
				}
			}
			d.Regions = append(d.Regions, c09Region{Key: sb.Key, Start: start, End: b.Pos().Line})
		}
	}
	if !jobsFirst {
		emitJobs()
	}
	d.Src = b.String()
	return d
}

func c09LocalCase(c *Case, fam, root string) {
	r := c.R
	var sblocks, jblocks []*c09LocalBlock
	ns, nj := r.Range(2, 6), r.Range(0, 4)
	for i := 0; i < ns; i++ {
		sblocks = append(sblocks, c09LocalStepBlock(r, i))
	}
	for i := 0; i < nj; i++ {
		jblocks = append(jblocks, c09LocalJobBlock(r, i))
	}
	observe := func(d *c09Doc) (map[string][]string, bool) {
		ds, err := c09LocalLint(root, d.Src)
		c.Eval(1)
		if err != nil {
			c.Violation("C09:"+fam+":fatal-error", "fatal error: "+err.Error(), map[string]interface{}{"src": d.Src})
			return nil, false
		}
		if c09HasYAMLError(ds) {
			c.Violation("C09:"+fam+":generator-emitted-invalid-yaml", "monitor bug: the generated workflow is not YAML", map[string]interface{}{"src": d.Src, "diags": diagStrings(ds)})
			return nil, false
		}
		return d.buckets(ds), true
	}
	// reference: every block alone
	ref := map[string][]string{}
	refSrc := map[string]string{}
	nd := 0
	for _, sb := range sblocks {
		d := c09LocalCompose([][]*c09LocalBlock{{sb}}, nil, false)
		bk, ok := observe(d)
		if !ok {
			return
		}
		ref[sb.Key], refSrc[sb.Key] = bk[sb.Key], d.Src
		nd += len(bk[sb.Key])
	}
	for _, jb := range jblocks {
		d := c09LocalCompose(nil, []*c09LocalBlock{jb}, false)
		bk, ok := observe(d)
		if !ok {
			return
		}
		ref[jb.Key], refSrc[jb.Key] = bk[jb.Key], d.Src
		nd += len(bk[jb.Key])
	}
	// coverage: confusable spellings used together in one run
	lower := map[string]int{}
	var specs []string
	for _, b := range append(append([]*c09LocalBlock{}, sblocks...), jblocks...) {
		if b.Spec != "" {
			specs = append(specs, b.Spec)
		}
	}
	for i, s := range specs {
		for _, t := range specs[:i] {
			if s != t && strings.EqualFold(s, t) {
				lower["case"]++
			}
			if s != t && filepath.Base(filepath.Clean(s)) == filepath.Base(filepath.Clean(t)) && !strings.EqualFold(filepath.Clean(s), filepath.Clean(t)) {
				lower["same-name-other-dir"]++
			}
			if s != t && filepath.Clean(s) == filepath.Clean(t) {
				lower["same-dir-other-spelling"]++
			}
		}
	}
	for _, k := range []string{"case", "same-name-other-dir", "same-dir-other-spelling"} {
		if lower[k] > 0 {
			c.Count("local_runs_with_"+k+"_pairs", 1)
		}
	}
	for _, s := range specs {
		c.SetAdd("local_specs", s)
	}
	if nd > 0 {
		c.Count("local_cases_with_diagnostics", 1)
	}
	c.Nontrivial(fam + "|" + strings.Join(specs, "|") + fmt.Sprint(c.Idx))

	for v := 0; v < 5; v++ {
		// distribute the step blocks over 1..3 jobs in a random order; subsets in later variants
		perm := r.Perm(len(sblocks))
		njobs := r.Range(1, 3)
		stepJobs := make([][]*c09LocalBlock, njobs)
		for _, p := range perm {
			if v >= 3 && r.Chance(1, 3) {
				continue
			}
			k := r.Intn(njobs)
			stepJobs[k] = append(stepJobs[k], sblocks[p])
		}
		var jbs []*c09LocalBlock
		for _, p := range r.Perm(len(jblocks)) {
			if v >= 3 && r.Chance(1, 3) {
				continue
			}
			jbs = append(jbs, jblocks[p])
		}
		d := c09LocalCompose(stepJobs, jbs, r.Bool())
		if len(d.Regions) == 0 {
			continue
		}
		bk, ok := observe(d)
		if !ok {
			return
		}
		c.Count("local_buckets_compared", len(d.Regions))
		for _, rg := range d.Regions {
			if c09Equal(bk[rg.Key], ref[rg.Key]) {
				continue
			}
			onlyRef, onlyGot := c09Diff(ref[rg.Key], bk[rg.Key])
			kind := "local-action"
			if strings.HasPrefix(rg.Key, "block-c") {
				kind = "local-workflow"
			}
			c.Logf("%s differs\n  only alone: %q\n  only composed: %q\n--- composed\n%s\n--- alone\n%s", rg.Key, onlyRef, onlyGot, d.Src, refSrc[rg.Key])
			c.Violation(c09Sig(kind, onlyRef, onlyGot),
				fmt.Sprintf("diagnostics of %s (steps / jobs using a %s) differ between the composed workflow and the workflow that holds only this block; specs in the run: %v", rg.Key, kind, specs),
				map[string]interface{}{"src": d.Src, "src_alone": refSrc[rg.Key], "block": rg.Key, "specs": specs, "project_files": "see c09LocalActions / c09LocalWorkflows in c09_local.go",
					"expected_only_alone": onlyRef, "observed_only_composed": onlyGot})
			return
		}
	}
	if c.Idx == 0 {
		c.Sample(map[string]interface{}{"family": fam, "src": c09LocalCompose([][]*c09LocalBlock{sblocks}, jblocks, false).Src, "specs": specs})
	}
}
