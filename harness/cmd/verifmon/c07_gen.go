package main

// C07 — case generator: a clean workflow (node tree) + exactly one diagnosed construct placed at a
// site, with all layout choices drawn from one PRNG stream so that the same case can be rebuilt
// with a shift applied (extra columns before the construct on its line, or extra lines above).

import (
	"strings"
)

// c07Shift describes one metamorphic variation of a case. kind == "" is the base rendering.
type c07Shift struct {
	kind string // "" | col | lines | pretext | placeholder | sibling
	k    int
	sel  int // selects among the candidates of the kind
}

type c07Expect struct {
	msg      string
	anchor   byte // 'n' node start, 't' token offset inside the scalar content
	off      int
	abs      bool
	optional bool
}

type c07Built struct {
	group         string // expr | key | value | glob
	site          string // site class, used in signatures
	kind          string // diagnostic kind class
	mode          string // emb | whole | bare | key | value
	root          *c07Node
	target        *c07Node
	expects       []c07Expect
	shifts        []string // applicable shift kinds
	src           string
	style         byte
	inFlow        bool
	depth         int
	ok            bool   // generator could build the case
	why           string // why not
	nCol          int    // number of column-mover candidates
	nLines        int
	isKey         bool
	flowAllowed   bool // the builder did not veto a flow holder
	flowVeto      bool
	info          map[string]int // pretext length, earlier placeholders, indentation ... for coverage
	allowedStyles string
}

func (b *c07Built) styleClass() string {
	switch b.style {
	case c07Single, c07Double:
		return "quoted"
	}
	return "plain"
}

func (b *c07Built) styleName() string {
	switch b.style {
	case c07Single:
		return "single"
	case c07Double:
		return "double"
	}
	return "plain"
}

// anchorPos returns the expected source position of an expectation after emission.
func (b *c07Built) anchorPos(e c07Expect) Pos {
	p := b.target.pos
	if e.anchor == 't' {
		q := 0
		if b.target.style != c07Plain {
			q = 1
		}
		return Pos{p.Line, p.Col + q + e.off}
	}
	return p
}

// ---------------------------------------------------------------------------
// base workflow

type c07WF struct {
	root, on, push, jobs, job, steps, runStep, usesStep *c07Node
}

func c07NewWF(rr *Rand) *c07WF {
	w := &c07WF{}
	w.root = c07M()
	w.root.ind = 0
	if rr.Chance(1, 2) {
		w.root.str("name", "CI")
	}
	w.on = w.root.sub("on")
	w.push = w.on.sub("push")
	w.push.set("branches", c07QS("main"))
	if rr.Chance(1, 3) {
		w.root.sub("env").str("TOP_LEVEL", "1")
	}
	if rr.Chance(1, 4) {
		w.root.sub("permissions").str("contents", "read")
	}
	w.jobs = w.root.sub("jobs")
	w.job = w.jobs.sub("build")
	if rr.Chance(1, 3) {
		w.job.str("name", "Build it")
	}
	w.job.str("runs-on", "ubuntu-latest")
	if rr.Chance(1, 4) {
		w.job.sub("env").str("JOB_LEVEL", "x")
	}
	w.steps = w.job.set("steps", c07Q())
	if rr.Chance(1, 2) {
		s := c07M()
		s.str("uses", "actions/checkout@v4")
		w.steps.items = append(w.steps.items, s)
	}
	w.runStep = c07M()
	if rr.Chance(1, 2) {
		w.runStep.str("name", "say hello")
	}
	w.runStep.str("run", "echo hello")
	w.steps.items = append(w.steps.items, w.runStep)
	w.usesStep = c07M()
	w.usesStep.str("uses", "actions/setup-node@v4")
	w.steps.items = append(w.steps.items, w.usesStep)
	if rr.Chance(1, 3) {
		s := c07M()
		s.str("run", "echo bye")
		w.steps.items = append(w.steps.items, s)
	}
	return w
}

// callJob adds a job that calls a reusable workflow of another repository.
func (w *c07WF) callJob() *c07Node {
	j := w.jobs.sub("call")
	j.str("uses", "octo-org/repo/.github/workflows/w.yml@main")
	return j
}

func (w *c07WF) workflowCall() *c07Node {
	return w.on.sub("workflow_call")
}

// ---------------------------------------------------------------------------
// expression sites

type c07ExprSite struct {
	name  string
	class string   // signature class (several sites may share one)
	modes []string // emb | whole | bare
	tags  []string
	place func(w *c07WF, t *c07Node)
	// a second diagnosed construct of ANOTHER rule in the same scalar: fixed text before / after
	// the generated text, the message it causes and where (decoOff < 0: at the scalar; otherwise the
	// offset inside decoPre, or inside decoPost when decoPre is empty)
	decoPre, decoPost, decoMsg string
	decoOff                    int
	tight                      bool // the scalar may contain no blank (each would be a diagnostic)
	noInner                    bool // no blanks at the start / end of the scalar
}

const (
	c07TagsWF   = "nomatrix norunner nohashfiles noalways template"
	c07TagsJob  = "norunner nohashfiles noalways template"
	c07TagsStep = "noalways template hashfiles"
)

func c07ExprSites() []c07ExprSite {
	tg := strings.Fields
	return []c07ExprSite{
		{name: "wf.name", class: "string-value", modes: []string{"emb", "whole"}, tags: tg("template nocontext"), place: func(w *c07WF, t *c07Node) { w.root.set("name", t) }},
		{name: "wf.run-name", class: "string-value", modes: []string{"emb", "whole"}, tags: tg(c07TagsWF), place: func(w *c07WF, t *c07Node) { w.root.set("run-name", t) }},
		{name: "wf.env", class: "string-value", modes: []string{"emb", "whole"}, tags: tg(c07TagsWF), place: func(w *c07WF, t *c07Node) { w.root.sub("env").set("MARK", t) }},
		{name: "wf.concurrency.group", class: "string-value", modes: []string{"emb", "whole"}, tags: tg(c07TagsWF), place: func(w *c07WF, t *c07Node) { w.root.sub("concurrency").set("group", t) }},
		{name: "wf.concurrency", class: "string-value", modes: []string{"emb", "whole"}, tags: tg(c07TagsWF), place: func(w *c07WF, t *c07Node) { w.root.set("concurrency", t) }},
		{name: "job.name", class: "string-value", modes: []string{"emb", "whole"}, tags: tg(c07TagsJob), place: func(w *c07WF, t *c07Node) { w.job.set("name", t) }},
		{name: "job.env", class: "string-value", modes: []string{"emb", "whole"}, tags: tg(c07TagsJob), place: func(w *c07WF, t *c07Node) { w.job.sub("env").set("MARK", t) }},
		{name: "job.runs-on", class: "string-value", modes: []string{"emb", "whole"}, tags: tg("norunner nohashfiles noalways"), place: func(w *c07WF, t *c07Node) { w.job.set("runs-on", t) }},
		{name: "job.runs-on.elem", class: "string-value", modes: []string{"emb", "whole"}, tags: tg("norunner nohashfiles noalways"), place: func(w *c07WF, t *c07Node) { w.job.set("runs-on", c07Q(c07S("ubuntu-latest"), t)) }},
		{name: "job.runs-on.labels", class: "string-value", modes: []string{"emb", "whole"}, tags: tg("norunner nohashfiles noalways"), place: func(w *c07WF, t *c07Node) {
			m := c07M()
			m.set("labels", c07Q(t))
			w.job.set("runs-on", m)
		}},
		{name: "job.environment", class: "string-value", modes: []string{"emb", "whole"}, tags: tg(c07TagsJob), place: func(w *c07WF, t *c07Node) { w.job.set("environment", t) }},
		{name: "job.environment.name", class: "string-value", modes: []string{"emb", "whole"}, tags: tg(c07TagsJob), place: func(w *c07WF, t *c07Node) { w.job.sub("environment").set("name", t) }},
		{name: "job.environment.url", class: "string-value", modes: []string{"emb", "whole"}, tags: tg("nohashfiles noalways template"), place: func(w *c07WF, t *c07Node) {
			e := w.job.sub("environment")
			e.str("name", "prod")
			e.set("url", t)
		}},
		{name: "job.concurrency.group", class: "string-value", modes: []string{"emb", "whole"}, tags: tg(c07TagsJob), place: func(w *c07WF, t *c07Node) { w.job.sub("concurrency").set("group", t) }},
		{name: "job.outputs", class: "string-value", modes: []string{"emb", "whole"}, tags: tg("nohashfiles noalways template"), place: func(w *c07WF, t *c07Node) { w.job.sub("outputs").set("out1", t) }},
		{name: "job.container.image", class: "string-value", modes: []string{"emb", "whole"}, tags: tg(c07TagsJob), place: func(w *c07WF, t *c07Node) { w.job.sub("container").set("image", t) }},
		{name: "job.container", class: "string-value", modes: []string{"emb", "whole"}, tags: tg(c07TagsJob), place: func(w *c07WF, t *c07Node) { w.job.set("container", t) }},
		{name: "job.container.env", class: "string-value", modes: []string{"emb", "whole"}, tags: tg("nohashfiles noalways template"), place: func(w *c07WF, t *c07Node) {
			c := w.job.sub("container")
			c.str("image", "node:20")
			c.sub("env").set("MARK", t)
		}},
		{name: "job.container.options", class: "string-value", modes: []string{"emb", "whole"}, tags: tg(c07TagsJob), place: func(w *c07WF, t *c07Node) {
			c := w.job.sub("container")
			c.str("image", "node:20")
			c.set("options", t)
		}},
		{name: "job.services.image", class: "string-value", modes: []string{"emb", "whole"}, tags: tg(c07TagsJob), place: func(w *c07WF, t *c07Node) { w.job.sub("services").sub("db").set("image", t) }},
		{name: "job.services.env", class: "string-value", modes: []string{"emb", "whole"}, tags: tg("nohashfiles noalways template"), place: func(w *c07WF, t *c07Node) {
			c := w.job.sub("services").sub("db")
			c.str("image", "postgres:16")
			c.sub("env").set("MARK", t)
		}},
		{name: "job.timeout-minutes", class: "typed-value", modes: []string{"whole"}, tags: tg("norunner nohashfiles noalways"), place: func(w *c07WF, t *c07Node) { w.job.set("timeout-minutes", t) }},
		{name: "job.continue-on-error", class: "typed-value", modes: []string{"whole"}, tags: tg("norunner nohashfiles noalways"), place: func(w *c07WF, t *c07Node) { w.job.set("continue-on-error", t) }},
		{name: "job.strategy.fail-fast", class: "typed-value", modes: []string{"whole"}, tags: tg("nomatrix norunner nohashfiles noalways"), place: func(w *c07WF, t *c07Node) {
			s := w.job.sub("strategy")
			s.sub("matrix").set("os", c07QS("linux", "mac"))
			s.set("fail-fast", t)
		}},
		{name: "job.strategy.max-parallel", class: "typed-value", modes: []string{"whole"}, tags: tg("nomatrix norunner nohashfiles noalways"), place: func(w *c07WF, t *c07Node) {
			s := w.job.sub("strategy")
			s.sub("matrix").set("os", c07QS("linux", "mac"))
			s.set("max-parallel", t)
		}},
		{name: "job.strategy.matrix", class: "typed-value", modes: []string{"whole"}, tags: tg("nomatrix norunner nohashfiles noalways"), place: func(w *c07WF, t *c07Node) { w.job.sub("strategy").set("matrix", t) }},
		{name: "matrix.row-expr", class: "typed-value", modes: []string{"whole"}, tags: tg("nomatrix norunner nohashfiles noalways"), place: func(w *c07WF, t *c07Node) { w.job.sub("strategy").sub("matrix").set("os", t) }},
		{name: "matrix.row-value", class: "matrix-raw-value", modes: []string{"emb", "whole"}, tags: tg("nomatrix norunner nohashfiles noalways"), place: func(w *c07WF, t *c07Node) {
			w.job.sub("strategy").sub("matrix").set("os", c07Q(c07S("linux"), t))
		}},
		{name: "matrix.row-value-first", class: "matrix-raw-value", modes: []string{"emb", "whole"}, tags: tg("nomatrix norunner nohashfiles noalways"), place: func(w *c07WF, t *c07Node) {
			w.job.sub("strategy").sub("matrix").set("ver", c07Q(t, c07S("18")))
		}},
		{name: "matrix.include-value", class: "matrix-raw-value", modes: []string{"emb", "whole"}, tags: tg("nomatrix norunner nohashfiles noalways"), place: func(w *c07WF, t *c07Node) {
			m := w.job.sub("strategy").sub("matrix")
			m.set("os", c07QS("linux", "mac"))
			inc := c07M()
			inc.str("os", "linux")
			inc.set("extra", t)
			m.set("include", c07Q(inc))
		}},
		{name: "matrix.exclude-value", class: "matrix-raw-value", modes: []string{"emb", "whole"}, tags: tg("nomatrix norunner nohashfiles noalways"), place: func(w *c07WF, t *c07Node) {
			m := w.job.sub("strategy").sub("matrix")
			m.set("os", c07QS("linux", "mac"))
			m.set("ver", c07QS("18", "20"))
			exc := c07M()
			exc.str("os", "linux")
			exc.set("ver", t)
			m.set("exclude", c07Q(exc))
		}},
		{name: "job.if", class: "if-placeholder", modes: []string{"whole"}, noInner: true, tags: tg("nomatrix norunner nohashfiles"), place: func(w *c07WF, t *c07Node) { w.job.set("if", t) }},
		{name: "job.if-bare", class: "bare-if", modes: []string{"bare"}, tags: tg("nomatrix norunner nohashfiles"), place: func(w *c07WF, t *c07Node) { w.job.set("if", t) }},
		{name: "step.if", class: "if-placeholder", modes: []string{"whole"}, noInner: true, tags: tg("hashfiles"), place: func(w *c07WF, t *c07Node) { w.runStep.set("if", t) }},
		{name: "step.if-bare", class: "bare-if", modes: []string{"bare"}, tags: tg("hashfiles"), place: func(w *c07WF, t *c07Node) { w.runStep.set("if", t) }},
		{name: "step.if-bare-uses", class: "bare-if", modes: []string{"bare"}, tags: tg("hashfiles"), place: func(w *c07WF, t *c07Node) { w.usesStep.set("if", t) }},
		{name: "step.name", class: "string-value", modes: []string{"emb", "whole"}, tags: tg(c07TagsStep), place: func(w *c07WF, t *c07Node) { w.runStep.set("name", t) }},
		{name: "step.run", class: "string-value", modes: []string{"emb", "whole"}, tags: tg(c07TagsStep + " script"), place: func(w *c07WF, t *c07Node) { w.runStep.set("run", t) }},
		{name: "step.working-directory", class: "string-value", modes: []string{"emb", "whole"}, tags: tg(c07TagsStep), place: func(w *c07WF, t *c07Node) { w.runStep.set("working-directory", t) }},
		{name: "step.env", class: "string-value", modes: []string{"emb", "whole"}, tags: tg(c07TagsStep), place: func(w *c07WF, t *c07Node) { w.runStep.sub("env").set("MARK", t) }},
		{name: "step.env-uses", class: "string-value", modes: []string{"emb", "whole"}, tags: tg(c07TagsStep), place: func(w *c07WF, t *c07Node) { w.usesStep.sub("env").set("MARK", t) }},
		{name: "step.env-name", class: "string-key", modes: []string{"emb", "whole"}, tags: tg(c07TagsStep + " iskey"), place: func(w *c07WF, t *c07Node) {
			m := w.runStep.sub("env")
			m.ents = append(m.ents, &c07Ent{t, c07S("v")})
		}},
		{name: "job.env-name", class: "string-key", modes: []string{"emb", "whole"}, tags: tg(c07TagsJob + " iskey"), place: func(w *c07WF, t *c07Node) {
			m := w.job.sub("env")
			m.str("FIRST", "1")
			m.ents = append(m.ents, &c07Ent{t, c07S("v")})
		}},
		{name: "wf.env-name", class: "string-key", modes: []string{"emb", "whole"}, tags: tg(c07TagsWF + " iskey"), place: func(w *c07WF, t *c07Node) {
			m := w.root.sub("env")
			m.ents = append(m.ents, &c07Ent{t, c07S("v")})
		}},
		// ---- further positions whose value must be one expression
		{name: "wf.env-expr", class: "typed-value", modes: []string{"whole"}, tags: tg("nomatrix norunner nohashfiles noalways"), place: func(w *c07WF, t *c07Node) { w.root.set("env", t) }},
		{name: "job.env-expr", class: "typed-value", modes: []string{"whole"}, tags: tg("norunner nohashfiles noalways"), place: func(w *c07WF, t *c07Node) { w.job.set("env", t) }},
		{name: "step.env-expr", class: "typed-value", modes: []string{"whole"}, tags: tg("noalways hashfiles"), place: func(w *c07WF, t *c07Node) { w.runStep.set("env", t) }},
		{name: "call-event.input.required", class: "typed-value", modes: []string{"whole"}, tags: tg("nocontext"), place: func(w *c07WF, t *c07Node) {
			i := w.workflowCall().sub("inputs").sub("level")
			i.str("type", "string")
			i.set("required", t)
		}},
		{name: "matrix.include-expr", class: "typed-value", modes: []string{"whole"}, tags: tg("nomatrix norunner nohashfiles noalways"), place: func(w *c07WF, t *c07Node) {
			m := w.job.sub("strategy").sub("matrix")
			m.set("os", c07QS("linux", "mac"))
			m.set("include", t)
		}},
		{name: "matrix.exclude-expr", class: "typed-value", modes: []string{"whole"}, tags: tg("nomatrix norunner nohashfiles noalways"), place: func(w *c07WF, t *c07Node) {
			m := w.job.sub("strategy").sub("matrix")
			m.set("os", c07QS("linux", "mac"))
			m.set("exclude", t)
		}},
		{name: "matrix.include-element-expr", class: "typed-value", modes: []string{"whole"}, tags: tg("nomatrix norunner nohashfiles noalways"), place: func(w *c07WF, t *c07Node) {
			m := w.job.sub("strategy").sub("matrix")
			m.set("os", c07QS("linux", "mac"))
			m.set("include", c07Q(t))
		}},
		// ---- non-ASCII text (2-, 3- and 4-byte characters) EARLIER on the line of an ASCII construct:
		// columns are counted in characters
		{name: "u.step-env-key", class: "string-value", modes: []string{"emb", "whole"}, tags: tg(c07TagsStep), place: func(w *c07WF, t *c07Node) {
			m := w.runStep.sub("env")
			m.ents = append(m.ents, &c07Ent{c07S("名前_\u00e9"), t})
		}},
		{name: "u.job-env-key", class: "string-value", modes: []string{"emb", "whole"}, tags: tg(c07TagsJob), place: func(w *c07WF, t *c07Node) {
			m := w.job.sub("env")
			m.ents = append(m.ents, &c07Ent{c07SQ("\u00e9_cl\u00e9", c07Double), t})
		}},
		{name: "u.wf-env-key", class: "string-value", modes: []string{"emb", "whole"}, tags: tg(c07TagsWF), place: func(w *c07WF, t *c07Node) {
			m := w.root.sub("env")
			m.ents = append(m.ents, &c07Ent{c07SQ("\U0001d4b3\U0001f600k", c07Single), t})
		}},
		{name: "u.outputs-key", class: "string-value", modes: []string{"emb", "whole"}, tags: tg("nohashfiles noalways template"), place: func(w *c07WF, t *c07Node) {
			m := w.job.sub("outputs")
			m.ents = append(m.ents, &c07Ent{c07SQ("出力\U0001f600", c07Double), t})
		}},
		{name: "u.env-flow", class: "string-value", modes: []string{"emb", "whole"}, tags: tg(c07TagsStep), place: func(w *c07WF, t *c07Node) {
			m := c07M()
			m.flow = true
			m.ents = append(m.ents, &c07Ent{c07SQ("日本", c07Double), c07SQ("\u00fc\U0001f600", c07Single)}, &c07Ent{c07S("MARK"), t})
			w.runStep.set("env", m)
		}},
		{name: "u.with-flow", class: "string-value", modes: []string{"emb", "whole"}, tags: tg(c07TagsStep), place: func(w *c07WF, t *c07Node) {
			st := c07M()
			st.str("uses", "octo-org/some-action@v1")
			m := c07M()
			m.flow = true
			m.ents = append(m.ents, &c07Ent{c07SQ("名前", c07Single), c07S("1")}, &c07Ent{c07S("arg"), t}, &c07Ent{c07S("later"), c07SQ("\u00e9", c07Double)})
			st.set("with", m)
			w.steps.items = append(w.steps.items, st)
		}},
		{name: "u.matrix-row-flow", class: "matrix-raw-value", modes: []string{"emb", "whole"}, tags: tg("nomatrix norunner nohashfiles noalways"), place: func(w *c07WF, t *c07Node) {
			q := c07Q(c07SQ("\U0001f600\u00e9", c07Single), c07S("linux"), t)
			q.flow = true
			w.job.sub("strategy").sub("matrix").set("os", q)
		}},
		// ---- pairs: two constructs diagnosed by different rules in one scalar
		{name: "pair.path-filter+expr", class: "string-value", modes: []string{"emb"}, tags: tg("nocontext"), noInner: true,
			decoPre: "src/a*?b ", decoMsg: "unexpected character '?' while checking special character ? (zero or one)", decoOff: 6,
			place: func(w *c07WF, t *c07Node) { w.push.set("paths", c07Q(c07S("docs/**"), t)) }},
		{name: "pair.path-ignore-filter+expr", class: "string-value", modes: []string{"emb"}, tags: tg("nocontext"), noInner: true,
			decoPost: " x/[]", decoMsg: "unexpected character ']' while checking content of character match []", decoOff: 4,
			place: func(w *c07WF, t *c07Node) { w.on.sub("pull_request").set("paths-ignore", c07Q(t)) }},
		{name: "pair.ref-filter+expr", class: "string-value", modes: []string{"emb"}, tags: tg("nocontext"), noInner: true, tight: true,
			decoPre: "v~", decoMsg: "character '~' is invalid for branch and tag names", decoOff: 1,
			place: func(w *c07WF, t *c07Node) { w.push.set("tags", c07Q(t, c07S("v1.*"))) }},
		{name: "pair.branch-filter+expr", class: "string-value", modes: []string{"emb"}, tags: tg("nocontext"), noInner: true, tight: true,
			decoPost: "^", decoMsg: "character '^' is invalid for branch and tag names", decoOff: 0,
			place: func(w *c07WF, t *c07Node) { w.on.sub("pull_request").set("branches", t) }},
		{name: "pair.event-type+expr", class: "string-value", modes: []string{"emb"}, tags: tg("nocontext"), noInner: true,
			decoPre: "bogus ", decoMsg: "invalid activity type \"bogus ", decoOff: -1,
			place: func(w *c07WF, t *c07Node) { w.on.sub("pull_request").set("types", c07Q(c07S("opened"), t)) }},
		{name: "pair.cron+expr", class: "string-value", modes: []string{"emb"}, tags: tg("nocontext"), noInner: true,
			decoPre: "0 0 * * ", decoMsg: "invalid CRON format", decoOff: -1,
			place: func(w *c07WF, t *c07Node) {
				it := c07M()
				it.set("cron", t)
				w.on.set("schedule", c07Q(it))
			}},
		{name: "pair.password+expr", class: "string-value", modes: []string{"emb"}, tags: tg("norunner nohashfiles noalways template"), noInner: true,
			decoPre: "hunter2 ", decoMsg: "\"password\" section in", decoOff: -1,
			place: func(w *c07WF, t *c07Node) {
				c := w.job.sub("container")
				c.str("image", "node:20")
				cr := c.sub("credentials")
				cr.str("username", "me")
				cr.set("password", t)
			}},
		{name: "pair.deprecated-command+expr", class: "string-value", modes: []string{"emb"}, tags: tg(c07TagsStep + " script"), noInner: true,
			decoPre: "echo ::add-path::/x ", decoMsg: "workflow command \"add-path\" was deprecated", decoOff: -1,
			place: func(w *c07WF, t *c07Node) { w.runStep.set("run", t) }},
		{name: "pair.expr+deprecated-command", class: "string-value", modes: []string{"emb"}, tags: tg(c07TagsStep + " script"), noInner: true,
			decoPost: " ; echo ::set-output name=a::b", decoMsg: "workflow command \"set-output\" was deprecated", decoOff: -1,
			place: func(w *c07WF, t *c07Node) { w.runStep.set("run", t) }},
		{name: "pair.if-extra-characters+expr", class: "if-placeholder", modes: []string{"emb"}, tags: tg("hashfiles"), noInner: true,
			decoPost: " x", decoMsg: "is always evaluated to true because extra characters are around", decoOff: -1,
			place: func(w *c07WF, t *c07Node) { w.runStep.set("if", t) }},
		{name: "pair.job-if-extra-characters+expr", class: "if-placeholder", modes: []string{"emb"}, tags: tg("nomatrix norunner nohashfiles"), noInner: true,
			decoPre: "x ", decoMsg: "is always evaluated to true because extra characters are around", decoOff: -1,
			place: func(w *c07WF, t *c07Node) { w.job.set("if", t) }},
		{name: "step.with", class: "string-value", modes: []string{"emb", "whole"}, tags: tg(c07TagsStep), place: func(w *c07WF, t *c07Node) { w.usesStep.sub("with").set("node-version", t) }},
		{name: "step.with.script", class: "string-value", modes: []string{"emb", "whole"}, tags: tg(c07TagsStep + " script"), place: func(w *c07WF, t *c07Node) {
			s := c07M()
			s.str("uses", "actions/github-script@v7")
			s.sub("with").set("script", t)
			w.steps.items = append(w.steps.items, s)
		}},
		{name: "step.timeout-minutes", class: "typed-value", modes: []string{"whole"}, tags: tg("noalways hashfiles"), place: func(w *c07WF, t *c07Node) { w.runStep.set("timeout-minutes", t) }},
		{name: "step.continue-on-error", class: "typed-value", modes: []string{"whole"}, tags: tg("noalways hashfiles"), place: func(w *c07WF, t *c07Node) { w.usesStep.set("continue-on-error", t) }},
		{name: "call.with", class: "string-value", modes: []string{"emb", "whole"}, tags: tg(c07TagsJob), place: func(w *c07WF, t *c07Node) { w.callJob().sub("with").set("arg", t) }},
		{name: "call.secrets", class: "string-value", modes: []string{"emb", "whole"}, tags: tg(c07TagsJob), place: func(w *c07WF, t *c07Node) { w.callJob().sub("secrets").set("token", t) }},
		{name: "dispatch.input.default", class: "string-value", modes: []string{"emb", "whole"}, tags: tg("template nocontext"), place: func(w *c07WF, t *c07Node) {
			i := w.on.sub("workflow_dispatch").sub("inputs").sub("level")
			i.str("description", "log level")
			i.str("type", "string")
			i.set("default", t)
		}},
		{name: "dispatch.input.description", class: "string-value", modes: []string{"emb", "whole"}, tags: tg("template nocontext"), place: func(w *c07WF, t *c07Node) {
			i := w.on.sub("workflow_dispatch").sub("inputs").sub("level")
			i.set("description", t)
			i.str("type", "string")
		}},
		{name: "call-event.input.default", class: "string-value", modes: []string{"emb", "whole"}, tags: tg(c07TagsWF), place: func(w *c07WF, t *c07Node) {
			i := w.workflowCall().sub("inputs").sub("level")
			i.str("type", "string")
			i.set("default", t)
		}},
		{name: "call-event.output.value", class: "string-value", modes: []string{"emb", "whole"}, tags: tg(c07TagsWF), place: func(w *c07WF, t *c07Node) {
			o := w.workflowCall().sub("outputs").sub("result")
			o.str("description", "the result")
			o.set("value", t)
		}},
	}
}

func c07HasTag(tags []string, t string) bool {
	for _, x := range tags {
		if x == t {
			return true
		}
	}
	return false
}

// ---------------------------------------------------------------------------
// key sites: where an unexpected / duplicate / otherwise diagnosed KEY can be placed

type c07KeySite struct {
	name   string
	kind   string
	noFlow bool // the holder must stay in block style
	// build places the construct and returns the key node that must be reported together with
	// the expected message substrings (all at the key)
	build func(w *c07WF, rr *Rand) (key *c07Node, msgs []string, optional []string)
}

func c07AddKey(m *c07Node, rr *Rand, key string, v *c07Node) *c07Node {
	e := &c07Ent{c07S(key), v}
	// random position among the existing entries (never first in a mapping that is a block
	// sequence item whose first key decides the item's column: any position is fine for YAML)
	i := rr.Intn(len(m.ents) + 1)
	m.ents = append(m.ents, nil)
	copy(m.ents[i+1:], m.ents[i:])
	m.ents[i] = e
	return e.k
}

func c07AppendKey(m *c07Node, key string, v *c07Node) *c07Node {
	e := &c07Ent{c07S(key), v}
	m.ents = append(m.ents, e)
	return e.k
}

var c07BogusKeys = []string{"zzz", "bogus-key", "Unknown_1", "x", "not.a.key", "extra9"}

func c07KeySites() []c07KeySite {
	unexpected := func(name string, where func(w *c07WF) *c07Node) c07KeySite {
		return c07KeySite{name: "unexpected." + name, kind: "unexpected-key", build: func(w *c07WF, rr *Rand) (*c07Node, []string, []string) {
			m := where(w)
			k := rr.Pick(c07BogusKeys)
			var v *c07Node = c07S("1")
			return c07AddKey(m, rr, k, v), []string{"key \"" + k + "\"|OR|but got \"" + k + "\""}, nil
		}}
	}
	dup := func(name string, where func(w *c07WF) (*c07Node, string)) c07KeySite {
		return c07KeySite{name: "duplicate." + name, kind: "duplicate-key", build: func(w *c07WF, rr *Rand) (*c07Node, []string, []string) {
			m, k := where(w)
			first := m.get(k)
			var v *c07Node
			if first != nil && first.kind == c07Scalar {
				v = c07S(first.val)
			} else {
				v = c07S("1")
			}
			return c07AppendKey(m, k, v), []string{"is duplicated in"}, []string{"expected scalar node", "must be sequence node", "must be mapping", "is scalar node but mapping node is expected", "section is sequence node but mapping node is expected"}
		}}
	}
	return []c07KeySite{
		unexpected("workflow", func(w *c07WF) *c07Node { return w.root }),
		unexpected("push", func(w *c07WF) *c07Node { return w.push }),
		unexpected("workflow_dispatch", func(w *c07WF) *c07Node {
			d := w.on.sub("workflow_dispatch")
			d.sub("inputs").sub("level").str("type", "string")
			return d
		}),
		unexpected("dispatch-input", func(w *c07WF) *c07Node {
			i := w.on.sub("workflow_dispatch").sub("inputs").sub("level")
			i.str("type", "string")
			return i
		}),
		unexpected("workflow_call", func(w *c07WF) *c07Node {
			c := w.workflowCall()
			c.sub("inputs").sub("level").str("type", "string")
			return c
		}),
		unexpected("call-input", func(w *c07WF) *c07Node {
			i := w.workflowCall().sub("inputs").sub("level")
			i.str("type", "string")
			return i
		}),
		unexpected("call-secret", func(w *c07WF) *c07Node {
			i := w.workflowCall().sub("secrets").sub("token")
			i.str("required", "true")
			return i
		}),
		unexpected("call-output", func(w *c07WF) *c07Node {
			o := w.workflowCall().sub("outputs").sub("result")
			o.str("value", "fixed")
			return o
		}),
		unexpected("defaults", func(w *c07WF) *c07Node {
			d := w.root.sub("defaults")
			d.sub("run").str("shell", "bash")
			return d
		}),
		unexpected("defaults.run", func(w *c07WF) *c07Node {
			r := w.root.sub("defaults").sub("run")
			r.str("shell", "bash")
			return r
		}),
		unexpected("job.defaults.run", func(w *c07WF) *c07Node {
			r := w.job.sub("defaults").sub("run")
			r.str("shell", "bash")
			return r
		}),
		unexpected("concurrency", func(w *c07WF) *c07Node {
			c := w.root.sub("concurrency")
			c.str("group", "g1")
			return c
		}),
		unexpected("job.concurrency", func(w *c07WF) *c07Node {
			c := w.job.sub("concurrency")
			c.str("group", "g1")
			return c
		}),
		unexpected("environment", func(w *c07WF) *c07Node {
			e := w.job.sub("environment")
			e.str("name", "prod")
			return e
		}),
		unexpected("strategy", func(w *c07WF) *c07Node {
			s := w.job.sub("strategy")
			s.sub("matrix").set("os", c07QS("linux", "mac"))
			return s
		}),
		unexpected("container", func(w *c07WF) *c07Node {
			c := w.job.sub("container")
			c.str("image", "node:20")
			return c
		}),
		unexpected("service", func(w *c07WF) *c07Node {
			c := w.job.sub("services").sub("db")
			c.str("image", "postgres:16")
			return c
		}),
		unexpected("credentials", func(w *c07WF) *c07Node {
			c := w.job.sub("container")
			c.str("image", "node:20")
			cr := c.sub("credentials")
			cr.str("username", "me")
			cr.str("password", "${{ secrets.PW }}")
			return cr
		}),
		unexpected("job", func(w *c07WF) *c07Node { return w.job }),
		unexpected("step", func(w *c07WF) *c07Node { return w.runStep }),
		unexpected("step-uses", func(w *c07WF) *c07Node { return w.usesStep }),
		unexpected("runs-on", func(w *c07WF) *c07Node {
			m := c07M()
			m.set("labels", c07QS("ubuntu-latest"))
			w.job.set("runs-on", m)
			return m
		}),
		dup("workflow", func(w *c07WF) (*c07Node, string) {
			w.root.str("name", "CI")
			return w.root, "name"
		}),
		dup("env", func(w *c07WF) (*c07Node, string) {
			e := w.root.sub("env")
			e.str("FOO", "1")
			return e, "FOO"
		}),
		dup("job", func(w *c07WF) (*c07Node, string) { return w.job, "runs-on" }),
		dup("step", func(w *c07WF) (*c07Node, string) { return w.runStep, "run" }),
		dup("with", func(w *c07WF) (*c07Node, string) {
			m := w.usesStep.sub("with")
			m.str("node-version", "20")
			return m, "node-version"
		}),
		dup("outputs", func(w *c07WF) (*c07Node, string) {
			m := w.job.sub("outputs")
			m.str("out1", "v")
			return m, "out1"
		}),
		dup("permissions", func(w *c07WF) (*c07Node, string) {
			m := w.root.sub("permissions")
			m.str("contents", "read")
			return m, "contents"
		}),
		dup("matrix", func(w *c07WF) (*c07Node, string) {
			m := w.job.sub("strategy").sub("matrix")
			m.set("os", c07QS("linux", "mac"))
			return m, "os"
		}),
		dup("on", func(w *c07WF) (*c07Node, string) { return w.on, "push" }),
		dup("jobs", func(w *c07WF) (*c07Node, string) {
			// the duplicate needs a full job body: handled by copying a small job
			return w.jobs, "build"
		}),
		{name: "permission-scope", kind: "permission-scope-key", build: func(w *c07WF, rr *Rand) (*c07Node, []string, []string) {
			m := w.root.sub("permissions")
			if rr.Bool() {
				m = w.job.sub("permissions")
			}
			m.str("contents", "read")
			k := rr.Pick([]string{"bogus", "content", "pullrequests", "zzz-scope"})
			return c07AddKey(m, rr, k, c07S("read")), []string{"unknown permission scope \"" + k + "\""}, nil
		}},
		{name: "job-id", kind: "job-id-key", build: func(w *c07WF, rr *Rand) (*c07Node, []string, []string) {
			id := rr.Pick([]string{"bad.id", "1job", "job id", "job$", "-lead"})
			j := c07M()
			j.str("runs-on", "ubuntu-latest")
			j.set("steps", c07Q(func() *c07Node { s := c07M(); s.str("run", "echo"); return s }()))
			return c07AddKey(w.jobs, rr, id, j), []string{"invalid job ID \"" + id + "\""}, nil
		}},
		{name: "env-var-name", kind: "env-name-key", build: func(w *c07WF, rr *Rand) (*c07Node, []string, []string) {
			var m *c07Node
			switch rr.Intn(3) {
			case 0:
				m = w.root.sub("env")
			case 1:
				m = w.job.sub("env")
			default:
				m = w.runStep.sub("env")
			}
			m.str("OK_NAME", "1")
			k := rr.Pick([]string{"A B", "A=B", "A&B", "FOO BAR BAZ"})
			return c07AddKey(m, rr, k, c07S("v")), []string{"environment variable name \"" + k + "\" is invalid"}, nil
		}},
		{name: "action-input", kind: "action-input-key", build: func(w *c07WF, rr *Rand) (*c07Node, []string, []string) {
			m := w.usesStep.sub("with")
			m.str("node-version", "20")
			k := rr.Pick([]string{"node_version", "zzz", "versions"})
			return c07AddKey(m, rr, k, c07S("v")), []string{"input \"" + k + "\" is not defined in action"}, nil
		}},
		{name: "step-kind-conflict", kind: "step-kind-key", build: func(w *c07WF, rr *Rand) (*c07Node, []string, []string) {
			if rr.Bool() {
				wm := c07M()
				wm.str("x", "1")
				return c07AppendKey(w.runStep, "with", wm), []string{"this step is for running shell command"}, nil
			}
			return c07AppendKey(w.usesStep, "shell", c07S("bash")), []string{"this step is for running action"}, nil
		}},
		{name: "call-input-no-type", kind: "missing-in-key", build: func(w *c07WF, rr *Rand) (*c07Node, []string, []string) {
			ins := w.workflowCall().sub("inputs")
			ins.sub("level").str("type", "string")
			i := c07M()
			i.str("description", "no type here")
			k := rr.Pick([]string{"verbose", "x_y", "Mode"})
			return c07AddKey(ins, rr, k, i), []string{"\"type\" is missing at \"" + k + "\" input"}, nil
		}},
		{name: "call-output-no-value", kind: "missing-in-key", build: func(w *c07WF, rr *Rand) (*c07Node, []string, []string) {
			outs := w.workflowCall().sub("outputs")
			o := c07M()
			o.str("description", "no value here")
			k := rr.Pick([]string{"res", "out_2"})
			return c07AddKey(outs, rr, k, o), []string{"\"value\" is missing at \"" + k + "\" output"}, nil
		}},
		{name: "job-no-steps", kind: "missing-in-key", build: func(w *c07WF, rr *Rand) (*c07Node, []string, []string) {
			j := c07M()
			j.str("runs-on", "ubuntu-latest")
			k := rr.Pick([]string{"second", "deploy_2", "Lint"})
			return c07AddKey(w.jobs, rr, k, j), []string{"\"steps\" section is missing in job \"" + k + "\""}, nil
		}},
		{name: "job-no-runs-on", kind: "missing-in-key", build: func(w *c07WF, rr *Rand) (*c07Node, []string, []string) {
			j := c07M()
			j.set("steps", c07Q(func() *c07Node { s := c07M(); s.str("run", "echo"); return s }()))
			k := rr.Pick([]string{"second", "deploy_2", "Lint"})
			return c07AddKey(w.jobs, rr, k, j), []string{"\"runs-on\" section is missing in job \"" + k + "\""}, nil
		}},
		{name: "needs-missing-job", kind: "needs-key", build: func(w *c07WF, rr *Rand) (*c07Node, []string, []string) {
			j := c07M()
			j.str("needs", "ghost")
			j.str("runs-on", "ubuntu-latest")
			j.set("steps", c07Q(func() *c07Node { s := c07M(); s.str("run", "echo"); return s }()))
			k := rr.Pick([]string{"second", "deploy_2", "Lint"})
			return c07AddKey(w.jobs, rr, k, j), []string{"needs job \"ghost\" which does not exist"}, nil
		}},
		{name: "choice-no-options", kind: "missing-in-key", build: func(w *c07WF, rr *Rand) (*c07Node, []string, []string) {
			ins := w.on.sub("workflow_dispatch").sub("inputs")
			i := c07M()
			i.str("type", "choice")
			k := rr.Pick([]string{"flavour", "opt_1"})
			return c07AddKey(ins, rr, k, i), []string{"input type of \"" + k + "\" is \"choice\" but \"options\" is not set"}, nil
		}},
		{name: "credentials-incomplete", kind: "missing-in-key", build: func(w *c07WF, rr *Rand) (*c07Node, []string, []string) {
			c := w.job.sub("container")
			c.str("image", "node:20")
			cr := c07M()
			cr.str("username", "me")
			return c07AppendKey(c, "credentials", cr), []string{"both \"username\" and \"password\" must be specified"}, nil
		}},
		{name: "u.step-flow.unexpected", kind: "unexpected-key", build: func(w *c07WF, rr *Rand) (*c07Node, []string, []string) {
			st := c07M()
			st.flow = true
			st.set("name", c07SQ("名前 \u00e9\U0001f600", c07Single))
			st.str("run", "echo")
			k := rr.Pick(c07BogusKeys)
			w.steps.items = append(w.steps.items, st)
			return c07AppendKey(st, k, c07S("1")), []string{"key \"" + k + "\""}, nil
		}},
		{name: "u.env-flow.duplicate", kind: "duplicate-key", build: func(w *c07WF, rr *Rand) (*c07Node, []string, []string) {
			m := c07M()
			m.flow = true
			m.ents = append(m.ents, &c07Ent{c07SQ("\u00fc\U0001f600", c07Double), c07S("1")})
			m.str("FOO", "1")
			w.job.set("env", m)
			return c07AppendKey(m, "FOO", c07S("2")), []string{"is duplicated in"}, nil
		}},
		{name: "schedule-item", kind: "schedule-item", noFlow: true, build: func(w *c07WF, rr *Rand) (*c07Node, []string, []string) {
			it := c07M()
			it.str("cron", "0 3 * * 1")
			it.str(rr.Pick([]string{"foo", "timezone"}), "bar")
			w.on.set("schedule", c07Q(it))
			return it.ents[0].k, []string{"element of \"schedule\" section must be mapping and must contain one key \"cron\""}, nil
		}},
		{name: "event-key", kind: "event-key", build: func(w *c07WF, rr *Rand) (*c07Node, []string, []string) {
			k := rr.Pick([]string{"pushh", "pull-request", "bogus_event"})
			return c07AddKey(w.on, rr, k, nil), []string{"unknown Webhook event \"" + k + "\""}, nil
		}},
		{name: "filter-both", kind: "filter-key", build: func(w *c07WF, rr *Rand) (*c07Node, []string, []string) {
			return c07AppendKey(w.push, "branches-ignore", c07QS("dev")), []string{"both \"branches\" and \"branches-ignore\" filters cannot be used"}, nil
		}},
		{name: "types-on-push", kind: "filter-key", build: func(w *c07WF, rr *Rand) (*c07Node, []string, []string) {
			// reported at the event name
			w.push.set("types", c07QS("opened"))
			return w.on.ent("push").k, []string{"\"types\" cannot be specified for \"push\" Webhook event"}, nil
		}},
	}
}

// ---------------------------------------------------------------------------
// value sites: a scalar VALUE that is diagnosed as a whole

type c07ValSite struct {
	name   string
	kind   string
	styles string // allowed styles: subset of "pad" (plain, apostrophe, double)
	flowOK bool   // the parent collection may be written in flow style
	build  func(w *c07WF, rr *Rand) (val *c07Node, msgs []string, optional []string)
}

func c07ValSites() []c07ValSite {
	one := func(v *c07Node, msgs ...string) (*c07Node, []string, []string) { return v, msgs, nil }
	return []c07ValSite{
		{name: "step.shell", kind: "shell-name", styles: "pad", flowOK: true, build: func(w *c07WF, rr *Rand) (*c07Node, []string, []string) {
			n := rr.Pick([]string{"fish", "zsh", "BASH2", "csh -e"})
			return one(w.runStep.str("shell", n), "shell name \""+n+"\" is invalid")
		}},
		{name: "defaults.shell", kind: "shell-name", styles: "pad", flowOK: true, build: func(w *c07WF, rr *Rand) (*c07Node, []string, []string) {
			n := rr.Pick([]string{"fish", "zsh", "ksh"})
			m := w.root
			if rr.Bool() {
				m = w.job
			}
			return one(m.sub("defaults").sub("run").str("shell", n), "shell name \""+n+"\" is invalid")
		}},
		{name: "runs-on.unknown", kind: "runner-label", styles: "pad", flowOK: true, build: func(w *c07WF, rr *Rand) (*c07Node, []string, []string) {
			n := rr.Pick([]string{"ubuntu-99.04", "linux-latest", "macos-1", "windows-3.11"})
			switch rr.Intn(3) {
			case 0:
				return one(w.job.str("runs-on", n), "label \""+n+"\" is unknown")
			case 1:
				t := c07S(n)
				w.job.set("runs-on", c07Q(t))
				return one(t, "label \""+n+"\" is unknown")
			}
			t := c07S(n)
			m := c07M()
			m.set("labels", c07Q(c07S("self-hosted"), t))
			w.job.set("runs-on", m)
			return one(t, "label \""+n+"\" is unknown")
		}},
		{name: "runs-on.conflict", kind: "runner-label", styles: "pad", flowOK: true, build: func(w *c07WF, rr *Rand) (*c07Node, []string, []string) {
			t := c07S("windows-latest")
			w.job.set("runs-on", c07Q(c07S("ubuntu-latest"), t))
			return one(t, "label \"windows-latest\" conflicts with label \"ubuntu-latest\"")
		}},
		// ---- labels that live in the matrix and are reached THROUGH runs-on: ${{ matrix.<row> }}; the
		// report must be at the label in the matrix, not at runs-on and not at the key of the entry
		{name: "matrix-label.row", kind: "runner-label-via-matrix", styles: "pad", flowOK: true, build: func(w *c07WF, rr *Rand) (*c07Node, []string, []string) {
			row := rr.Pick([]string{"os", "runner", "platform_1"})
			conflict := c07RunsOnViaMatrix(w, rr, row)
			t := c07S("")
			var items []*c07Node
			n, at := rr.Intn(3), rr.Intn(3)
			for i := 0; i <= n; i++ {
				if i == at%(n+1) {
					items = append(items, t)
				} else {
					items = append(items, c07S([]string{"ubuntu-latest", "linux", "x64"}[i]))
				}
			}
			w.job.sub("strategy").sub("matrix").set(row, c07Q(items...))
			return one(t, c07ViaMatrixLabel(t, rr, conflict))
		}},
		{name: "matrix-label.include", kind: "runner-label-via-matrix", styles: "pad", flowOK: true, build: func(w *c07WF, rr *Rand) (*c07Node, []string, []string) {
			row := rr.Pick([]string{"os", "runner", "platform_1"})
			conflict := c07RunsOnViaMatrix(w, rr, row)
			m := w.job.sub("strategy").sub("matrix")
			withRow := rr.Bool()
			if withRow {
				m.set(row, c07QS("ubuntu-latest", "linux"))
			} else {
				m.set("node", c07QS("18", "20"))
			}
			t := c07S("")
			it := c07M()
			// the probed key first / in the middle / last
			switch rr.Intn(3) {
			case 0:
				it.set(row, t)
				it.str("node", "20")
				it.str("experimental", "yes")
			case 1:
				it.str("node", "20")
				it.set(row, t)
				it.str("experimental", "yes")
			default:
				it.str("node", "20")
				it.str("experimental", "yes")
				it.set(row, t)
			}
			incl := c07Q(it)
			if rr.Bool() {
				other := c07M()
				other.str("node", "22")
				other.str(row, "ubuntu-latest")
				if rr.Bool() {
					incl = c07Q(other, it)
				} else {
					incl = c07Q(it, other)
				}
			}
			m.set("include", incl)
			return one(t, c07ViaMatrixLabel(t, rr, conflict))
		}},
		{name: "u.step-flow.shell", kind: "shell-name", styles: "pad", flowOK: true, build: func(w *c07WF, rr *Rand) (*c07Node, []string, []string) {
			st := c07M()
			st.flow = true
			st.set("name", c07SQ("ステップ \u00e9\U0001f600", c07Single))
			st.str("run", "echo")
			n := rr.Pick([]string{"fish", "zsh"})
			t := st.str("shell", n)
			w.steps.items = append(w.steps.items, st)
			return one(t, "shell name \""+n+"\" is invalid")
		}},
		{name: "u.matrix-dup-flow", kind: "matrix-value", styles: "pad", flowOK: true, build: func(w *c07WF, rr *Rand) (*c07Node, []string, []string) {
			t := c07S("linux")
			q := c07Q(c07SQ("\u00fc\U0001f600日", c07Double), c07S("linux"), c07S("mac"), t)
			q.flow = true
			w.job.sub("strategy").sub("matrix").set("os", q)
			return one(t, "duplicate value \"linux\" is found in matrix \"os\"")
		}},
		{name: "u.permission-flow", kind: "permission-value", styles: "pad", flowOK: true, build: func(w *c07WF, rr *Rand) (*c07Node, []string, []string) {
			// a non-ASCII block KEY cannot precede a permission value; a non-ASCII job name line can:
			// "名前" as job name sits on another line, so use a flow mapping of the step instead
			st := c07M()
			st.flow = true
			st.set("name", c07SQ("\u00e9t\u00e9 日", c07Double))
			st.str("run", "echo")
			t := st.str("continue-on-error", "maybe so")
			w.steps.items = append(w.steps.items, st)
			return one(t, "expecting a single ${{...}} expression or boolean literal")
		}},
		{name: "uses.missing-required-input", kind: "action-missing-input", styles: "pad", flowOK: false, build: func(w *c07WF, rr *Rand) (*c07Node, []string, []string) {
			// the diagnostic is caused by an absent key of "with" and reported at the uses value
			s := c07M()
			t := s.str("uses", "actions/cache@v4")
			s.sub("with").str("path", "node_modules")
			w.steps.items = append(w.steps.items, s)
			return one(t, "missing input \"key\" which is required by action")
		}},
		{name: "permission.value", kind: "permission-value", styles: "pad", flowOK: true, build: func(w *c07WF, rr *Rand) (*c07Node, []string, []string) {
			m := w.root
			if rr.Bool() {
				m = w.job
			}
			n := rr.Pick([]string{"bogus", "readonly", "rw", "Read Write"})
			if rr.Intn(3) == 0 {
				return one(m.str("permissions", n), "\""+n+"\" is invalid for permission for all the scopes")
			}
			p := m.sub("permissions")
			p.str("issues", "write")
			return one(p.str("contents", n), "\""+n+"\" is invalid for permission of scope \"contents\"")
		}},
		{name: "event.type", kind: "event-type", styles: "pad", flowOK: true, build: func(w *c07WF, rr *Rand) (*c07Node, []string, []string) {
			n := rr.Pick([]string{"bogus", "open", "re-opened"})
			t := c07S(n)
			pr := w.on.sub("pull_request")
			if rr.Bool() {
				pr.set("types", c07Q(c07S("opened"), t))
			} else {
				pr.set("types", t)
			}
			return one(t, "invalid activity type \""+n+"\" for \"pull_request\" Webhook event")
		}},
		{name: "event.unknown", kind: "event-name", styles: "pad", flowOK: true, build: func(w *c07WF, rr *Rand) (*c07Node, []string, []string) {
			n := rr.Pick([]string{"pushh", "bogus", "pull-request"})
			t := c07S(n)
			if rr.Bool() {
				w.root.set("on", c07Q(c07S("push"), t))
			} else {
				w.root.set("on", t)
			}
			return one(t, "unknown Webhook event \""+n+"\"")
		}},
		{name: "step.id", kind: "id-convention", styles: "pad", flowOK: true, build: func(w *c07WF, rr *Rand) (*c07Node, []string, []string) {
			n := rr.Pick([]string{"1bad", "bad id", "bad.id", "-x", "a$b"})
			if n == "-x" {
				n = "x!"
			}
			return one(w.runStep.str("id", n), "invalid step ID \""+n+"\"")
		}},
		{name: "step.id-dup", kind: "id-duplicate", styles: "pad", flowOK: true, build: func(w *c07WF, rr *Rand) (*c07Node, []string, []string) {
			w.runStep.str("id", "same_id")
			return one(w.usesStep.str("id", rr.Pick([]string{"same_id", "SAME_ID", "Same_Id"})), "duplicates. previously defined at")
		}},
		{name: "cron", kind: "cron", styles: "pad", flowOK: true, build: func(w *c07WF, rr *Rand) (*c07Node, []string, []string) {
			n := rr.Pick([]string{"0 0 * *", "61 0 * * *", "0 25 * * *", "0 0 1 13 *", "a b c d e"})
			it := c07M()
			t := it.str("cron", n)
			w.on.set("schedule", c07Q(it))
			return one(t, "invalid CRON format \""+n+"\"")
		}},
		{name: "cron-frequent", kind: "cron", styles: "pad", flowOK: true, build: func(w *c07WF, rr *Rand) (*c07Node, []string, []string) {
			n := rr.Pick([]string{"0/1 * * * *", "0-59 * * * *", "1/2 * * * *"})
			it := c07M()
			t := it.str("cron", n)
			w.on.set("schedule", c07Q(it))
			return one(t, "scheduled job runs too frequently")
		}},
		{name: "uses.format", kind: "action-spec", styles: "pad", flowOK: true, build: func(w *c07WF, rr *Rand) (*c07Node, []string, []string) {
			n := rr.Pick([]string{"checkout", "actions/checkout", "actions@v4", "just some words"})
			return one(w.usesStep.str("uses", n), "specifying action \""+n+"\" in invalid format")
		}},
		{name: "uses.docker-tag", kind: "action-spec", styles: "pad", flowOK: false, build: func(w *c07WF, rr *Rand) (*c07Node, []string, []string) {
			n := rr.Pick([]string{"docker://alpine:", "docker://ghcr.io/a/b:"})
			return one(w.usesStep.str("uses", n), "tag of Docker action should not be empty")
		}},
		{name: "timeout.not-number", kind: "typed-literal", styles: "pad", flowOK: true, build: func(w *c07WF, rr *Rand) (*c07Node, []string, []string) {
			n := rr.Pick([]string{"abc", "ten", "5 min"})
			m := w.job
			if rr.Bool() {
				m = w.runStep
			}
			return one(m.str("timeout-minutes", n), "expecting a single ${{...}} expression or float number literal")
		}},
		{name: "timeout.invalid-float", kind: "typed-literal", styles: "p", flowOK: true, build: func(w *c07WF, rr *Rand) (*c07Node, []string, []string) {
			m := w.job
			if rr.Bool() {
				m = w.runStep
			}
			n := rr.Pick([]string{".nan", ".NaN", ".inf", ".Inf"})
			return one(m.str("timeout-minutes", n), "invalid float value: \""+n+"\"")
		}},
		{name: "timeout.zero", kind: "typed-literal", styles: "p", flowOK: true, build: func(w *c07WF, rr *Rand) (*c07Node, []string, []string) {
			m := w.job
			if rr.Bool() {
				m = w.runStep
			}
			return one(m.str("timeout-minutes", rr.Pick([]string{"0", "0.0"})), "value at \"timeout-minutes\" must be greater than zero")
		}},
		{name: "continue-on-error.not-bool", kind: "typed-literal", styles: "pad", flowOK: true, build: func(w *c07WF, rr *Rand) (*c07Node, []string, []string) {
			n := rr.Pick([]string{"maybe", "yes please", "1"})
			m := w.job
			if rr.Bool() {
				m = w.usesStep
			}
			return one(m.str("continue-on-error", n), "expecting a single ${{...}} expression or boolean literal|OR|expected bool value but found scalar node")
		}},
		{name: "max-parallel.zero", kind: "typed-literal", styles: "p", flowOK: true, build: func(w *c07WF, rr *Rand) (*c07Node, []string, []string) {
			s := w.job.sub("strategy")
			s.sub("matrix").set("os", c07QS("linux", "mac"))
			return one(s.str("max-parallel", "0"), "value at \"max-parallel\" must be greater than zero")
		}},
		{name: "dispatch.input-type", kind: "input-type", styles: "pad", flowOK: true, build: func(w *c07WF, rr *Rand) (*c07Node, []string, []string) {
			n := rr.Pick([]string{"text", "bool", "Strings"})
			i := w.on.sub("workflow_dispatch").sub("inputs").sub("level")
			return one(i.str("type", n), "input type of workflow_dispatch event must be one of")
		}},
		{name: "call.input-type", kind: "input-type", styles: "pad", flowOK: true, build: func(w *c07WF, rr *Rand) (*c07Node, []string, []string) {
			n := rr.Pick([]string{"text", "bool", "choice"})
			i := w.workflowCall().sub("inputs").sub("level")
			return one(i.str("type", n), "invalid value \""+n+"\" for input type of workflow_call event")
		}},
		{name: "dispatch.default-not-option", kind: "input-default", styles: "pad", flowOK: true, build: func(w *c07WF, rr *Rand) (*c07Node, []string, []string) {
			i := w.on.sub("workflow_dispatch").sub("inputs").sub("level")
			i.str("type", "choice")
			i.set("options", c07QS("low", "high"))
			return one(i.str("default", "medium"), "default value \"medium\" of \"level\" input is not included in its options")
		}},
		{name: "dispatch.default-not-bool", kind: "input-default", styles: "pad", flowOK: true, build: func(w *c07WF, rr *Rand) (*c07Node, []string, []string) {
			i := w.on.sub("workflow_dispatch").sub("inputs").sub("level")
			i.str("type", "boolean")
			return one(i.str("default", "maybe"), "its default value \"maybe\" must be \"true\" or \"false\"")
		}},
		{name: "dispatch.option-dup", kind: "input-default", styles: "pad", flowOK: true, build: func(w *c07WF, rr *Rand) (*c07Node, []string, []string) {
			i := w.on.sub("workflow_dispatch").sub("inputs").sub("level")
			i.str("type", "choice")
			t := c07S("low")
			i.set("options", c07Q(c07S("low"), c07S("high"), t))
			return one(t, "option \"low\" is duplicated in options of \"level\" input")
		}},
		{name: "needs.duplicate", kind: "needs-value", styles: "pad", flowOK: true, build: func(w *c07WF, rr *Rand) (*c07Node, []string, []string) {
			j := w.jobs.sub("second")
			t := c07S(rr.Pick([]string{"build", "BUILD", "Build"}))
			j.set("needs", c07Q(c07S("build"), t))
			j.str("runs-on", "ubuntu-latest")
			j.set("steps", c07Q(func() *c07Node { s := c07M(); s.str("run", "echo"); return s }()))
			return one(t, "duplicates in \"needs\" section")
		}},
		{name: "call.secrets-scalar", kind: "secrets-value", styles: "pad", flowOK: true, build: func(w *c07WF, rr *Rand) (*c07Node, []string, []string) {
			n := rr.Pick([]string{"bogus", "all", "Inherit it"})
			return one(w.callJob().str("secrets", n), "expected mapping node for secrets or \"inherit\" string node but found \""+n+"\" node")
		}},
		{name: "credentials.password", kind: "credentials", styles: "pad", flowOK: true, build: func(w *c07WF, rr *Rand) (*c07Node, []string, []string) {
			var c *c07Node
			if rr.Bool() {
				c = w.job.sub("container")
				c.str("image", "node:20")
			} else {
				c = w.job.sub("services").sub("db")
				c.str("image", "postgres:16")
			}
			cr := c.sub("credentials")
			cr.str("username", "me")
			return one(cr.str("password", rr.Pick([]string{"hunter2", "p4ss w0rd"})), "\"password\" section in")
		}},
		{name: "run.deprecated-command", kind: "deprecated-command", styles: "pad", flowOK: false, build: func(w *c07WF, rr *Rand) (*c07Node, []string, []string) {
			n := rr.Pick([]string{"echo ::set-output name=a::b", "echo ::save-state name=a::b", "echo ::set-env name=a::b", "echo ::add-path::/x"})
			return one(w.runStep.str("run", n), "was deprecated")
		}},
		{name: "working-directory-with-uses", kind: "step-kind-value", styles: "pad", flowOK: true, build: func(w *c07WF, rr *Rand) (*c07Node, []string, []string) {
			return one(w.usesStep.str("working-directory", rr.Pick([]string{"sub/dir", "./x", "a b"})), "\"working-directory\" is not available with \"uses\"")
		}},
		{name: "if.extra-characters", kind: "if-cond", styles: "ad", flowOK: false, build: func(w *c07WF, rr *Rand) (*c07Node, []string, []string) {
			n := rr.Pick([]string{"${{ false }} ", " ${{ false }}", "${{ github.sha }} x"})
			m := w.job
			if rr.Bool() {
				m = w.runStep
			}
			return one(m.str("if", n), "is always evaluated to true because extra characters are around ${{ }}")
		}},
		{name: "matrix.duplicate-value", kind: "matrix-value", styles: "pad", flowOK: true, build: func(w *c07WF, rr *Rand) (*c07Node, []string, []string) {
			t := c07S("linux")
			w.job.sub("strategy").sub("matrix").set("os", c07Q(c07S("linux"), c07S("mac"), t))
			return one(t, "duplicate value \"linux\" is found in matrix \"os\"")
		}},
		{name: "empty-string", kind: "empty-value", styles: "ad", flowOK: true, build: func(w *c07WF, rr *Rand) (*c07Node, []string, []string) {
			if rr.Bool() {
				return one(w.runStep.str("shell", ""), "string should not be empty", "shell name \"\" is invalid")
			}
			return one(w.usesStep.str("uses", ""), "string should not be empty", "specifying action \"\" in invalid format")
		}},
		{name: "typed-expression.timeout", kind: "expression-type", styles: "pad", flowOK: false, build: func(w *c07WF, rr *Rand) (*c07Node, []string, []string) {
			m := w.job
			if rr.Bool() {
				m = w.runStep
			}
			return one(m.str("timeout-minutes", rr.Pick([]string{"${{ 'x' }}", "${{ github.sha }}", "${{ true }}"})), "type of expression at \"float number value\" must be number")
		}},
		{name: "typed-expression.bool", kind: "expression-type", styles: "pad", flowOK: false, build: func(w *c07WF, rr *Rand) (*c07Node, []string, []string) {
			return one(w.job.str("continue-on-error", rr.Pick([]string{"${{ 'x' }}", "${{ github.sha }}", "${{ 1 }}"})), "type of expression must be bool")
		}},
		{name: "typed-expression.matrix", kind: "expression-type", styles: "pad", flowOK: false, build: func(w *c07WF, rr *Rand) (*c07Node, []string, []string) {
			return one(w.job.sub("strategy").str("matrix", rr.Pick([]string{"${{ 'x' }}", "${{ github.sha }}", "${{ 1 }}"})), "type of expression at \"matrix\" must be object")
		}},
		{name: "typed-expression.row", kind: "expression-type", styles: "pad", flowOK: false, build: func(w *c07WF, rr *Rand) (*c07Node, []string, []string) {
			return one(w.job.sub("strategy").sub("matrix").str("os", rr.Pick([]string{"${{ 'x' }}", "${{ github.sha }}", "${{ 1 }}"})), "type of expression at \"matrix row\" must be array")
		}},
	}
}

// c07RunsOnViaMatrix writes runs-on: ${{ matrix.<row> }} as a scalar or as an element of a label
// sequence. It reports whether the sequence holds a GitHub-hosted Linux label, so that a Windows
// label reached through the matrix conflicts with it.
func c07RunsOnViaMatrix(w *c07WF, rr *Rand, row string) (conflict bool) {
	ref := "${{ matrix." + row + " }}"
	if rr.Intn(3) == 0 {
		ref = "${{matrix." + row + "}}"
	}
	switch rr.Intn(4) {
	case 0:
		w.job.set("runs-on", c07S(ref))
	case 1:
		w.job.set("runs-on", c07SQ(ref, c07Double))
	case 2:
		w.job.set("runs-on", c07Q(c07S("self-hosted"), c07SQ(ref, c07Single)))
	default:
		w.job.set("runs-on", c07Q(c07S("ubuntu-latest"), c07SQ(ref, c07Double)))
		return true
	}
	return false
}

// c07ViaMatrixLabel fills in the label text and returns the expected message.
func c07ViaMatrixLabel(t *c07Node, rr *Rand, conflict bool) string {
	if conflict && rr.Bool() {
		t.val = rr.Pick([]string{"windows-latest", "macos-latest", "windows-2022"})
		return "label \"" + t.val + "\" conflicts with label \"ubuntu-latest\""
	}
	t.val = rr.Pick([]string{"linux-latezt", "ubuntu-99.04", "windows-3.11", "my big runner"})
	return "label \"" + t.val + "\" is unknown"
}

// ---------------------------------------------------------------------------
// glob sites

type c07GlobErr struct {
	ref, path bool
	bad       string // the offending text; anchor at offset in inside it
	in        int
	msg       string
	lead      bool // must be at the very beginning of the pattern (no prefix)
	trail     bool // must be at the very end (no suffix)
	quoted    bool // cannot be written as a plain scalar
	needsPrec bool // prefix must be non-empty and end with an ordinary character
	neg       bool // the pattern must be negated with a leading "!"
	noNeg     bool // the pattern must not be negated
}

func c07GlobErrs() []c07GlobErr {
	return []c07GlobErr{
		{ref: true, bad: " ", msg: "character ' ' is invalid for branch and tag names"},
		{ref: true, bad: "~", msg: "character '~' is invalid for branch and tag names"},
		{ref: true, bad: "^", msg: "character '^' is invalid for branch and tag names"},
		{ref: true, bad: ":", msg: "character ':' is invalid for branch and tag names"},
		{ref: true, bad: "/", lead: true, noNeg: true, msg: "ref name must not start with /"},
		{ref: true, bad: "/", trail: true, needsPrec: true, msg: "ref name must not end with / and ."},
		{ref: true, bad: ".", trail: true, needsPrec: true, msg: "ref name must not end with / and ."},
		{ref: true, path: true, bad: "*?", in: 1, msg: "unexpected character '?' while checking special character ? (zero or one)"},
		{ref: true, path: true, bad: "*+", in: 1, msg: "unexpected character '+' while checking special character + (one or more)"},
		{ref: true, path: true, bad: "[]", in: 1, msg: "unexpected character ']' while checking content of character match []"},
		{ref: true, path: true, bad: "[x]", in: 2, msg: "character match with single character is useless"},
		{ref: true, path: true, bad: "[z-a]", in: 3, msg: "start of range 'z' (122) is larger than end of range 'a' (97)"},
		{path: true, bad: " ", lead: true, quoted: true, noNeg: true, msg: "path value must not start with spaces"},
		{path: true, bad: " ", trail: true, quoted: true, needsPrec: true, msg: "path value must not end with spaces"},
		{ref: true, bad: "\\a", in: 0, msg: "only special characters [, ?, +, *, \\, ! can be escaped with \\"},
		// negated patterns: the "!" is column 1 of the pattern
		{ref: true, bad: "/", lead: true, neg: true, msg: "ref name must not start with /"},
		{ref: true, path: true, bad: "", in: -1, lead: true, trail: true, neg: true, quoted: true, msg: "at least one character must follow !"},
		// a tab is a blank for ref names (written literally inside quotes)
		{ref: true, bad: "\t", quoted: true, msg: "character '\\t' is invalid for branch and tag names"},
	}
}

var c07RefFilters = []string{"branches", "branches-ignore", "tags", "tags-ignore"}
var c07PathFilters = []string{"paths", "paths-ignore"}

const c07GlobAlphabet = "abcdefghijklmnopqrstuvwxyz0123456789-_"

func c07GlobText(r *Rand, n int) string {
	var b strings.Builder
	for i := 0; i < n; i++ {
		switch {
		case i == 0 || i == n-1:
			b.WriteByte(byte('a' + r.Intn(26)))
		case i > 1 && i < n-2 && r.Intn(7) == 0 && b.String()[i-1] != '/':
			b.WriteByte('/')
		default:
			b.WriteByte(c07GlobAlphabet[r.Intn(len(c07GlobAlphabet))])
		}
	}
	return b.String()
}

// ---------------------------------------------------------------------------
// building one case

func c07PickStyle(rr *Rand, val string, allowed string, inFlow, isKey bool) (byte, bool) {
	order := rr.Perm(3)
	styles := []byte{c07Plain, c07Single, c07Double}
	names := "pad"
	for _, i := range order {
		if !strings.ContainsRune(allowed, rune(names[i])) {
			continue
		}
		if c07StyleOK(val, styles[i], inFlow, isKey) {
			return styles[i], true
		}
	}
	return 0, false
}

// c07Flowable reports whether a collection can be written in flow style on one line and makes
// its plain scalars flow-safe (by quoting them) when necessary.
func c07Flowable(n *c07Node, skip *c07Node) bool {
	total := 0
	var ok func(n *c07Node, isKey bool) bool
	ok = func(n *c07Node, isKey bool) bool {
		if n == nil {
			return false
		}
		switch n.kind {
		case c07Scalar:
			if n == skip {
				return true
			}
			total += len(n.val) + 4
			if n.style == c07Plain && !c07PlainSafe(n.val, true, isKey) {
				if c07StyleOK(n.val, c07Single, true, isKey) {
					n.style = c07Single
				} else if c07StyleOK(n.val, c07Double, true, isKey) {
					n.style = c07Double
				} else {
					return false
				}
			}
			return true
		case c07Map:
			if len(n.ents) == 0 || len(n.ents) > 5 {
				return false
			}
			for _, e := range n.ents {
				if !ok(e.k, true) || !ok(e.v, false) {
					return false
				}
			}
			return true
		case c07Seq:
			if len(n.items) == 0 || len(n.items) > 5 {
				return false
			}
			for _, it := range n.items {
				if !ok(it, false) {
					return false
				}
			}
			return true
		}
		return false
	}
	return ok(n, false) && total < 160
}

func c07SetFlow(n *c07Node) {
	if n == nil {
		return
	}
	switch n.kind {
	case c07Map:
		n.flow = true
		for _, e := range n.ents {
			c07SetFlow(e.v)
		}
	case c07Seq:
		n.flow = true
		for _, it := range n.items {
			c07SetFlow(it)
		}
	}
}

var c07CommentLines = []string{"", "", "# a comment", "   # an indented comment", "#", "      ", "# key: value ${{ not.an.expression }}"}

func c07Above(r *Rand, n int) []string {
	out := make([]string, n)
	for i := range out {
		out[i] = c07CommentLines[r.Intn(len(c07CommentLines))]
	}
	return out
}

type c07ColMover struct {
	n     *c07Node
	field byte // 'i' ind, 'p' pad
}

// c07Layout randomises the layout along the path to the target and applies structural shifts.
// It must draw the same number of values from rr regardless of sh.
func c07Layout(b *c07Built, rr *Rand, sh c07Shift, wantFlow bool) {
	root, target := b.root, b.target
	path := c07Path(root, target)
	if path == nil {
		b.ok, b.why = false, "target not in tree"
		return
	}
	// flow style for the collection holding the target (and everything below it)
	b.inFlow = false
	if wantFlow && len(path) >= 2 {
		holder := path[len(path)-2]
		if holder.kind == c07Scalar && len(path) >= 3 { // a key precedes a value in the chain
			holder = path[len(path)-3]
		}
		if holder.kind != c07Scalar && holder != root && c07Flowable(holder, target) {
			c07SetFlow(holder)
			b.inFlow = true
		}
	}
	for _, pn := range path[:len(path)-1] {
		if pn.flow {
			b.inFlow = true // the builder wrote the holder in flow style itself
		}
	}
	// root indentation and lines above the root
	rootInd := 0
	if rr.Intn(4) == 0 {
		rootInd = rr.Range(1, 4)
	}
	root.ind = rootInd
	na := rr.Intn(3)
	if rr.Intn(3) != 0 {
		na = 0
	}
	root.above = c07Above(rr.Sub(91), na)
	var movers []c07ColMover
	var liners []*c07Node
	liners = append(liners, root)
	movers = append(movers, c07ColMover{root, 'i'})
	inFlow := false
	for i := 1; i < len(path); i++ {
		n := path[i]
		prev := path[i-1]
		indDraw := rr.Range(1, 4)
		if rr.Intn(6) == 0 {
			indDraw = rr.Range(5, 9)
		}
		seqDraw := rr.Intn(5)
		padDraw := 0
		if rr.Intn(4) == 0 {
			padDraw = rr.Range(1, 6)
		}
		aboveDraw := 0
		if rr.Intn(5) == 0 {
			aboveDraw = rr.Range(1, 3)
		}
		aboveSub := rr.Sub(100 + i)
		if inFlow || n.flow {
			// inside (or being) a flow collection: only blanks before the node
			if n.flow && !inFlow {
				// the flow collection itself sits after "key:" or "-"
				inFlow = true
			}
			n.pad = padDraw
			movers = append(movers, c07ColMover{n, 'p'})
			continue
		}
		isKeyOfBlockMap := prev.kind == c07Map && n.kind == c07Scalar && c07IsKeyOf(prev, n)
		if isKeyOfBlockMap {
			first := len(prev.ents) > 0 && prev.ents[0].k == n
			heldBySeq := i >= 2 && path[i-2].kind == c07Seq
			if !(first && heldBySeq) {
				n.above = c07Above(aboveSub, aboveDraw)
				liners = append(liners, n)
			}
			continue
		}
		if prev.kind == c07Seq { // n is an item of a block sequence
			n.above = c07Above(aboveSub, aboveDraw)
			liners = append(liners, n)
			n.pad = padDraw
			movers = append(movers, c07ColMover{n, 'p'})
			continue
		}
		// n is the value of a mapping entry
		switch {
		case n.inline():
			n.pad = padDraw
			movers = append(movers, c07ColMover{n, 'p'})
		case n.kind == c07Map:
			n.ind = indDraw
			movers = append(movers, c07ColMover{n, 'i'})
		default:
			n.ind = seqDraw
			movers = append(movers, c07ColMover{n, 'i'})
		}
	}
	// inside a flow collection the blanks before EARLIER siblings also push the target to the right
	for i := 0; i+1 < len(path); i++ {
		h := path[i]
		if !h.flow {
			continue
		}
		next := path[i+1]
		switch h.kind {
		case c07Seq:
			for _, it := range h.items {
				if it == next {
					break
				}
				movers = append(movers, c07ColMover{it, 'p'})
			}
		case c07Map:
		ents:
			for _, en := range h.ents {
				if en.k == next {
					break ents
				}
				movers = append(movers, c07ColMover{en.k, 'p'})
				if en.v == next {
					break ents
				}
				if en.v != nil {
					movers = append(movers, c07ColMover{en.v, 'p'})
				}
			}
		}
	}
	b.nCol, b.nLines = len(movers), len(liners)
	switch sh.kind {
	case "col":
		m := movers[sh.sel%len(movers)]
		if m.field == 'i' {
			m.n.ind += sh.k
		} else {
			m.n.pad += sh.k
		}
	case "lines":
		l := liners[sh.sel%len(liners)]
		l.above = append(l.above, c07Above(rr.Sub(77), sh.k)...)
	}
	b.depth = len(path)
}

func c07IsKeyOf(m, k *c07Node) bool {
	for _, e := range m.ents {
		if e.k == k {
			return true
		}
	}
	return false
}

// c07Build constructs one case of a group from a seed; the same seed with a non-empty shift gives
// the shifted rendering of the same case.
// flowMode: 0 = holder style as drawn, 'b' = block holder, 'f' = flow holder if the holder allows it.
// neighbour: a second, independent diagnosed construct is added after the target in the same
// holder (a further mapping entry or sequence element holding an erroneous placeholder).
// prop (optional): node properties ("&a ", "!!str  ", "&a !!str " ...) written before the target.
func c07Build(group string, seed uint64, sh c07Shift, cat *c07Catalogue, forceStyle byte, flowMode byte, neighbour bool, prop ...string) *c07Built {
	rr := &Rand{s: seed}
	b := &c07Built{group: group, ok: true, info: map[string]int{}}
	w := c07NewWF(rr)
	b.root = w.root
	wantFlow := rr.Intn(3) == 0
	switch group {
	case "expr":
		c07BuildExpr(b, w, rr, sh, cat, &wantFlow)
	case "key":
		c07BuildKey(b, w, rr, sh, cat, &wantFlow)
	case "value":
		c07BuildValue(b, w, rr, sh, cat, &wantFlow)
	case "glob":
		c07BuildGlob(b, w, rr, sh, cat, &wantFlow)
	}
	if !b.ok {
		return b
	}
	b.flowAllowed = !b.flowVeto
	if neighbour {
		path := c07Path(b.root, b.target)
		nb := c07SQ("${{ nope9.neighbour }}", c07Double)
		added := false
		for i := len(path) - 2; i >= 0 && !added; i-- {
			h := path[i]
			switch h.kind {
			case c07Map:
				h.ents = append(h.ents, &c07Ent{c07S("zz_neighbour"), nb})
				added = true
			case c07Seq:
				h.items = append(h.items, nb)
				added = true
			}
		}
		if !added {
			b.ok, b.why = false, "no holder for a neighbour"
			return b
		}
	}
	switch flowMode {
	case 'b':
		wantFlow = false
	case 'f':
		wantFlow = b.flowAllowed
	}
	c07Layout(b, rr, sh, wantFlow)
	if !b.ok {
		return b
	}
	// the style of the target is chosen after the flow decision (plain text has fewer options
	// inside a flow collection)
	allowed := "pad"
	if a, ok := b.infoStyles(); ok {
		allowed = a
	}
	st, ok := c07PickStyle(rr, b.target.val, allowed, b.inFlow, b.isKey)
	if forceStyle != 0 && !strings.ContainsRune(allowed, rune(c07StyleLetter(forceStyle))) {
		b.ok, b.why = false, "style not allowed for this construct"
		return b
	}
	if forceStyle != 0 {
		// a shifted rendering keeps the style of its base
		st, ok = forceStyle, c07StyleOK(b.target.val, forceStyle, b.inFlow, b.isKey)
	}
	if !ok {
		b.ok, b.why = false, "no style can hold the value"
		return b
	}
	b.target.style = st
	b.style = st
	if len(prop) > 0 {
		b.target.prop = prop[0]
	}
	b.src = c07Emit(b.root)
	b.shifts = append(b.shifts, "col", "lines")
	return b
}

func c07StyleLetter(st byte) byte {
	switch st {
	case c07Single:
		return 'a'
	case c07Double:
		return 'd'
	}
	return 'p'
}

func (b *c07Built) infoStyles() (string, bool) {
	if b.allowedStyles != "" {
		return b.allowedStyles, true
	}
	return "", false
}
