package main

// C13, family "names": user-named (case-insensitive) mappings with generated names.
//
// Names are drawn from ASCII, mixed ASCII + non-ASCII and non-ASCII-only letters of scripts whose
// letters have simple one-to-one case pairs (Latin-1, Greek, Cyrillic). Every name is repeated behind
// the original in other letter cases (all upper, all lower, capitalised, only the non-ASCII letters
// flipped, only the ASCII letters flipped, one letter flipped, random mixture): the repetition has to
// be reported as a duplicate at the repeated key and the diagnostics of the siblings must survive.
//
// The case pairs are written down here explicitly (offsets inside the code blocks), not taken from
// strings.ToLower / unicode.ToUpper.

import (
	"fmt"
	"regexp"
	"strconv"
	"strings"
)

// c13Pair is one lower/upper pair.
type c13Pair struct{ lo, up rune }

func c13PairsRange(from, to rune, delta rune, skip ...rune) []c13Pair {
	var out []c13Pair
	for r := from; r <= to; r++ {
		sk := false
		for _, s := range skip {
			if s == r {
				sk = true
			}
		}
		if !sk {
			out = append(out, c13Pair{r, r - delta})
		}
	}
	return out
}

// Silent class (never generated): ß (no single upper-case letter), ÿ/Ÿ and µ (pair outside Latin-1),
// İ/ı, ſ, Kelvin and Ångström signs, final sigma ς, accented Greek, titlecase digraphs.
var c13Latin1 = c13PairsRange(0xE0, 0xFE, 0x20, 0xF7)                              // à..þ without ÷
var c13Greek = c13PairsRange(0x3B1, 0x3C9, 0x20, 0x3C2)                            // α..ω without ς
var c13Cyrillic = append(c13PairsRange(0x430, 0x44F, 0x20), c13Pair{0x451, 0x401}) // а..я, ё
var c13ASCII = c13PairsRange('a', 'z', 0x20)                                       // a..z
var c13Scripts = map[string][]c13Pair{"latin1": c13Latin1, "greek": c13Greek, "cyrillic": c13Cyrillic}
var c13ScriptNames = []string{"latin1", "greek", "cyrillic"}

var c13CaseOf = func() map[rune]c13Pair {
	m := map[rune]c13Pair{}
	for _, ps := range [][]c13Pair{c13ASCII, c13Latin1, c13Greek, c13Cyrillic} {
		for _, p := range ps {
			m[p.lo] = p
			m[p.up] = p
		}
	}
	return m
}()

func c13Flip(r rune) rune {
	p, ok := c13CaseOf[r]
	if !ok {
		return r
	}
	if r == p.lo {
		return p.up
	}
	return p.lo
}

func c13Lower(r rune) rune {
	if p, ok := c13CaseOf[r]; ok {
		return p.lo
	}
	return r
}

func c13Upper(r rune) rune {
	if p, ok := c13CaseOf[r]; ok {
		return p.up
	}
	return r
}

// c13Fold is the reference notion of "the same name": letter-wise lower case by the pair table.
func c13Fold(s string) string {
	rs := []rune(s)
	for i, r := range rs {
		rs[i] = c13Lower(r)
	}
	return string(rs)
}

const (
	c13NameASCII    = "ascii"
	c13NameMixed    = "mixed"
	c13NameNonASCII = "nonascii"
)

var c13NameClasses = []string{c13NameASCII, c13NameMixed, c13NameNonASCII}

// c13GenName makes a name of the given class; the letters are in random case (with a bias to the usual
// spellings lower / Capitalised / UPPER). ASCII digits, '_' and '-' may follow the first letter.
func c13GenName(r *Rand, class string) (name, script string) {
	script = c13ScriptNames[r.Intn(len(c13ScriptNames))]
	non := c13Scripts[script]
	n := r.Range(2, 7)
	rs := make([]rune, 0, n+1)
	forceA := r.Intn(n)                      // mixed names: one letter is ASCII for sure ...
	forceN := (forceA + 1 + r.Intn(n-1)) % n // ... and another one is not
	for i := 0; i < n; i++ {
		var p c13Pair
		ascii := class == c13NameASCII
		if class == c13NameMixed {
			ascii = i == forceA || (i != forceN && r.Bool())
		}
		if ascii {
			p = c13ASCII[r.Intn(len(c13ASCII))]
		} else {
			p = non[r.Intn(len(non))]
		}
		rs = append(rs, p.lo)
		if i > 0 && i < n-1 && r.Intn(6) == 0 {
			rs = append(rs, []rune{'_', '-', '7'}[r.Intn(3)])
		}
	}
	if class == c13NameASCII {
		script = "ascii"
	}
	switch r.Intn(5) {
	case 0: // lower
	case 1: // Capitalised
		rs[0] = c13Upper(rs[0])
	case 2: // UPPER
		for i := range rs {
			rs[i] = c13Upper(rs[i])
		}
	case 3: // only the non-ASCII letters upper (mixed) / random
		for i := range rs {
			if rs[i] > 0x7f || class != c13NameMixed {
				if class == c13NameMixed || r.Bool() {
					rs[i] = c13Upper(rs[i])
				}
			}
		}
	default:
		for i := range rs {
			if r.Bool() {
				rs[i] = c13Upper(rs[i])
			}
		}
	}
	return string(rs), script
}

// c13NameVariant is another spelling of the same name.
type c13NameVariant struct {
	Key  string
	How  string
	Diff string // "ascii-diff" | "nonascii-diff" | "both-diff": which letters differ from the original
}

func c13DiffClass(a, b string) string {
	ra, rb := []rune(a), []rune(b)
	asc, non := false, false
	for i := range ra {
		if i < len(rb) && ra[i] != rb[i] {
			if ra[i] < 0x80 {
				asc = true
			} else {
				non = true
			}
		}
	}
	switch {
	case asc && non:
		return "both-diff"
	case asc:
		return "ascii-diff"
	case non:
		return "nonascii-diff"
	}
	return ""
}

func c13NameVariants(r *Rand, name string) []c13NameVariant {
	rs := []rune(name)
	mk := func(f func(i int, c rune) rune) string {
		out := make([]rune, len(rs))
		for i, c := range rs {
			out[i] = f(i, c)
		}
		return string(out)
	}
	var letters []int
	for i, c := range rs {
		if _, ok := c13CaseOf[c]; ok {
			letters = append(letters, i)
		}
	}
	one := -1
	if len(letters) > 0 {
		one = letters[r.Intn(len(letters))]
	}
	bits := r.U64()
	cands := []struct{ how, key string }{
		{"upper", mk(func(_ int, c rune) rune { return c13Upper(c) })},
		{"lower", mk(func(_ int, c rune) rune { return c13Lower(c) })},
		{"capitalised", mk(func(i int, c rune) rune {
			if i == 0 {
				return c13Upper(c)
			}
			return c13Lower(c)
		})},
		{"flip-nonascii", mk(func(_ int, c rune) rune {
			if c >= 0x80 {
				return c13Flip(c)
			}
			return c
		})},
		{"flip-ascii", mk(func(_ int, c rune) rune {
			if c < 0x80 {
				return c13Flip(c)
			}
			return c
		})},
		{"flip-one", mk(func(i int, c rune) rune {
			if i == one {
				return c13Flip(c)
			}
			return c
		})},
		{"flip-all", mk(func(_ int, c rune) rune { return c13Flip(c) })},
		{"random", mk(func(i int, c rune) rune {
			if bits&(1<<uint(i%64)) != 0 {
				return c13Flip(c)
			}
			return c
		})},
	}
	seen := map[string]bool{name: true}
	var out []c13NameVariant
	for _, c := range cands {
		if seen[c.key] {
			continue
		}
		seen[c.key] = true
		out = append(out, c13NameVariant{c.key, c.how, c13DiffClass(name, c.key)})
	}
	return out
}

func c13NameClassOf(name string) string {
	asc, non := false, false
	for _, c := range name {
		if _, ok := c13CaseOf[c]; !ok {
			continue
		}
		if c < 0x80 {
			asc = true
		} else {
			non = true
		}
	}
	switch {
	case asc && non:
		return c13NameMixed
	case non:
		return c13NameNonASCII
	}
	return c13NameASCII
}

// ---------------------------------------------------------------------------
// Template N: every user-named mapping of the syntax, names as placeholders @N<i>@.

const c13TemplateN = `on:
  workflow_dispatch:
    inputs:
      @N0@:
        type: @{string@|c13bogus@}
      @N1@:
        type: @{boolean@|c13bogus@}
  workflow_call:
    inputs:
      @N2@:
        type: @{string@|c13bogus@}
      @N3@:
        type: @{number@|c13bogus@}
    secrets:
      @N4@:
        required: @{true@|maybe@}
      @N5@:
        required: @{false@|maybe@}
    outputs:
      @N6@:
        value: @{constant@|${{ foo }}@}
      @N7@:
        value: @{other@|${{ foo }}@}
env:
  @N8@: @{one@|${{ foo }}@}
  @N9@: @{two@|${{ foo }}@}
jobs:
  @N10@:
    runs-on: ubuntu-latest
    outputs:
      @N12@: @{a@|${{ foo }}@}
      @N13@: @{b@|${{ foo }}@}
    env:
      @N14@: @{a@|${{ foo }}@}
      @N15@: @{b@|${{ foo }}@}
    strategy:
      matrix:
        @N16@:
          - @{1@|${{ foo }}@}
        @N22@:
          - @{2@|${{ foo }}@}
        @N17@:
          - @N18@: @{1@|{x: 1, X: 2}@}
            @N19@: @{2@|{y: 1, Y: 2}@}
        include:
          - @N20@: @{1@|{x: 1, X: 2}@}
            @N21@: @{2@|{y: 1, Y: 2}@}
        exclude:
          - @N16@: @{1@|{x: 1, X: 2}@}
            @N22@: @{2@|{y: 1, Y: 2}@}
    container:
      image: alpine:3
      env:
        @N23@: @{a@|${{ foo }}@}
        @N24@: @{b@|${{ foo }}@}
    services:
      @N25@:
        image: @{redis:7@|${{ foo }}@}
        env:
          @N26@: @{a@|${{ foo }}@}
          @N27@: @{b@|${{ foo }}@}
      @N28@:
        image: @{postgres:16@|${{ foo }}@}
    steps:
      - uses: foo/bar@v1
        with:
          @N29@: @{a@|${{ foo }}@}
          @N30@: @{b@|${{ foo }}@}
        env:
          @N31@: @{a@|${{ foo }}@}
          @N32@: @{b@|${{ foo }}@}
  @N11@:
    uses: owner/repo/.github/workflows/ci.yml@v1
    with:
      @N33@: @{a@|${{ foo }}@}
      @N34@: @{b@|${{ foo }}@}
    secrets:
      @N35@: @{a@|${{ foo }}@}
      @N36@: @{b@|${{ foo }}@}
`

const c13TemplateNNames = 37

var c13NameHolderRe = regexp.MustCompile(`@N(\d+)@`)

// c13SubstNames replaces the name placeholders; names == nil gives the default ASCII names nm<i>.
func c13SubstNames(tpl string, names []string) string {
	if !strings.Contains(tpl, "@N") {
		return tpl
	}
	return c13NameHolderRe.ReplaceAllStringFunc(tpl, func(m string) string {
		i, _ := strconv.Atoi(m[2 : len(m)-1])
		if names == nil || i >= len(names) {
			return "nm" + strconv.Itoa(i)
		}
		return names[i]
	})
}

// the sections of template N whose keys are generated names
var c13NameSections = []string{
	"workflow_dispatch.inputs", "workflow_call.inputs", "workflow_call.secrets", "workflow_call.outputs", "env", "jobs",
	"job.outputs", "job.env", "matrix", "matrix.row-value", "matrix.include-item", "matrix.exclude-item", "container.env", "services", "service.env",
	"step.with", "step.env", "job.with", "job.secrets",
}

// c13NamesCase is one case of the family: a rendering of template N with generated names (the class of
// placeholder i rotates with the case index, so every mapping kind meets every name class), random
// dirty subset, and for every name every other spelling repeated behind it.
func c13NamesCase(c *Case, level int) {
	names := make([]string, c13TemplateNNames)
	// names that YAML would not read as strings, or that have a meaning inside a matrix, are not used
	folded := map[string]bool{"x": true, "y": true, "null": true, "true": true, "false": true, "nan": true, "inf": true, "include": true, "exclude": true}
	for i := range names {
		class := c13NameClasses[(i+c.Idx)%3]
		for {
			nm, script := c13GenName(c.R, class)
			if f := c13Fold(nm); !folded[f] {
				folded[f] = true
				names[i] = nm
				c.SetAdd("name_scripts", script)
				break
			}
		}
	}
	bits := make([]bool, c13CountMarkers(c13TemplateN))
	for i := range bits {
		bits[i] = c.R.Bool()
	}
	src := c13Render(c13SubstNames(c13TemplateN, names), func(i int) bool { return bits[i] }).Src
	b, err := c13NewBase(fmt.Sprintf("template-N/names-%d", c.Idx), src)
	c.Eval(1)
	if err != nil {
		c.Violation("C13:fatal-error", "a rendering of the names template cannot be parsed / linted: "+err.Error(), map[string]interface{}{"src": src})
		return
	}
	isName := map[string]bool{}
	for _, n := range names {
		isName[n] = true
	}
	isNameSec := map[string]bool{}
	for _, s := range c13NameSections {
		isNameSec[s] = true
	}
	for ni := range b.Nodes {
		mn := &b.Nodes[ni]
		if !mn.Sec.Free || !isNameSec[mn.Sec.Name] {
			continue
		}
		m := c13At(b.Doc, mn.Idx)
		n := len(m.Content) / 2
		for i := 0; i < n; i++ {
			k := m.Content[2*i].Value
			if !isName[k] {
				continue
			}
			class := c13NameClassOf(k)
			pos := func() int {
				if level > 0 || c.R.Bool() {
					return i + 1
				}
				return n
			}
			ops := []c13Op{{Kind: "dup", Pos: pos(), Key: k, ValKind: c.R.Intn(c13ValKinds), Orig: i}}
			for _, v := range c13NameVariants(c.R, k) {
				ops = append(ops, c13Op{Kind: "dup-case", Pos: pos(), Key: v.Key, ValKind: c.R.Intn(c13ValKinds), Orig: i})
				if level > 0 && i+1 < n {
					ops = append(ops, c13Op{Kind: "dup-case", Pos: n, Key: v.Key, ValKind: c.R.Intn(c13ValKinds), Orig: i})
				}
			}
			for oi, op := range ops {
				if !c13Apply(c, b, mn, op, true, nil) {
					continue
				}
				if op.Kind == "dup-case" {
					c.SetAdd("names_covered", mn.Sec.Name+":"+class+":"+c13DiffClass(k, op.Key))
					c.Count("name_variants_"+class, 1)
				}
				if c.Idx == 0 && ni == 3 && i == 0 && oi == 1 {
					c.Sample(map[string]interface{}{"base": b.ID, "section": mn.Sec.Name, "name": k, "repeated_as": op.Key, "name_class": class})
				}
			}
		}
	}
}

// c13NamesFloors: every mapping kind has met every name class with the kinds of difference that class allows.
func c13NamesFloors(r *Run) {
	need := map[string][]string{
		c13NameASCII:    {"ascii-diff"},
		c13NameMixed:    {"ascii-diff", "nonascii-diff", "both-diff"},
		c13NameNonASCII: {"nonascii-diff"},
	}
	for _, s := range c13NameSections {
		for _, class := range c13NameClasses {
			for _, d := range need[class] {
				if !r.SetHas("names_covered", s+":"+class+":"+d) {
					r.Inconclusive(fmt.Sprintf("names: no %s name of a %s mapping was repeated in a spelling of class %s", class, s, d))
				}
			}
		}
	}
	for _, sc := range []string{"ascii", "latin1", "greek", "cyrillic"} {
		if !r.SetHas("name_scripts", sc) {
			r.Inconclusive("names: no name drawn from script " + sc)
		}
	}
}
