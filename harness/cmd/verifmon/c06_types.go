package main

// C06 — type model used by the generators of the C06 monitor. The model is only used to (1) build
// actionlint.ExprType values (fresh per run, so no state can leak between runs), (2) enumerate the
// single loosenings of an environment, (3) direct the expression generator. It never decides a
// verdict: the oracle compares two runs of the real checker.

import (
	"sort"
	"strings"

	"github.com/rhysd/actionlint"
)

type c06Kind int

const (
	c06Any c06Kind = iota
	c06Null
	c06Num
	c06Bool
	c06Str
	c06Obj
	c06Arr
)

// c06Ty is one type node. Obj: Names/Props in a fixed order, Mapped nil = closed (strict) object,
// Mapped of kind any = open (loose) object, other Mapped = map object. Arr: Elem (+ Deref, which is
// only used for the static types the expression generator tracks, never in an environment).
type c06Ty struct {
	K      c06Kind
	Names  []string
	Props  []*c06Ty
	Mapped *c06Ty
	Elem   *c06Ty
	Deref  bool
}

var (
	c06TAny  = &c06Ty{K: c06Any}
	c06TNull = &c06Ty{K: c06Null}
	c06TNum  = &c06Ty{K: c06Num}
	c06TBool = &c06Ty{K: c06Bool}
	c06TStr  = &c06Ty{K: c06Str}
)

func c06ObjOf(mapped *c06Ty, kv ...interface{}) *c06Ty {
	t := &c06Ty{K: c06Obj, Mapped: mapped}
	for i := 0; i+1 < len(kv); i += 2 {
		t.Names = append(t.Names, kv[i].(string))
		t.Props = append(t.Props, kv[i+1].(*c06Ty))
	}
	return t
}

func c06ArrOf(e *c06Ty) *c06Ty { return &c06Ty{K: c06Arr, Elem: e} }

func (t *c06Ty) clone() *c06Ty {
	if t == nil {
		return nil
	}
	n := &c06Ty{K: t.K, Deref: t.Deref}
	if t.K == c06Obj {
		n.Names = append([]string(nil), t.Names...)
		n.Props = make([]*c06Ty, len(t.Props))
		for i, p := range t.Props {
			n.Props[i] = p.clone()
		}
		n.Mapped = t.Mapped.clone()
	}
	if t.K == c06Arr {
		n.Elem = t.Elem.clone()
	}
	return n
}

func (t *c06Ty) prop(name string) *c06Ty {
	for i, n := range t.Names {
		if n == name {
			return t.Props[i]
		}
	}
	return nil
}

func (t *c06Ty) isStrict() bool { return t.K == c06Obj && t.Mapped == nil }
func (t *c06Ty) isLoose() bool  { return t.K == c06Obj && t.Mapped != nil && t.Mapped.K == c06Any }

func (t *c06Ty) String() string {
	switch t.K {
	case c06Any:
		return "any"
	case c06Null:
		return "null"
	case c06Num:
		return "number"
	case c06Bool:
		return "bool"
	case c06Str:
		return "string"
	case c06Arr:
		return "array<" + t.Elem.String() + ">"
	}
	var b strings.Builder
	b.WriteByte('{')
	for i, n := range t.Names {
		if i > 0 {
			b.WriteString("; ")
		}
		b.WriteString(n + ": " + t.Props[i].String())
	}
	if t.Mapped != nil {
		if len(t.Names) > 0 {
			b.WriteString("; ")
		}
		b.WriteString("* => " + t.Mapped.String())
	}
	b.WriteByte('}')
	return b.String()
}

// build creates a fresh actionlint type tree.
func (t *c06Ty) build() actionlint.ExprType {
	switch t.K {
	case c06Any:
		return actionlint.AnyType{}
	case c06Null:
		return actionlint.NullType{}
	case c06Num:
		return actionlint.NumberType{}
	case c06Bool:
		return actionlint.BoolType{}
	case c06Str:
		return actionlint.StringType{}
	case c06Arr:
		return &actionlint.ArrayType{Elem: t.Elem.build()}
	}
	return t.buildObj()
}

func (t *c06Ty) buildObj() *actionlint.ObjectType {
	var props map[string]actionlint.ExprType
	if len(t.Names) > 0 || t.Mapped == nil {
		props = make(map[string]actionlint.ExprType, len(t.Names))
		for i, n := range t.Names {
			props[n] = t.Props[i].build()
		}
	}
	o := &actionlint.ObjectType{Props: props}
	if t.Mapped != nil {
		o.Mapped = t.Mapped.build()
	}
	return o
}

// ---------------------------------------------------------------------------
// Model of ExprType.Merge (generator guidance only)

func c06Merge(l, r *c06Ty) *c06Ty {
	switch l.K {
	case c06Any:
		return c06TAny
	case c06Null:
		if r.K == c06Null {
			return l
		}
		return c06TAny
	case c06Num:
		switch r.K {
		case c06Num:
			return l
		case c06Str:
			return r
		}
		return c06TAny
	case c06Bool:
		switch r.K {
		case c06Bool:
			return l
		case c06Str:
			return r
		}
		return c06TAny
	case c06Str:
		switch r.K {
		case c06Str, c06Num, c06Bool:
			return l
		}
		return c06TAny
	case c06Arr:
		if r.K != c06Arr {
			return c06TAny
		}
		if l.Elem.K == c06Any {
			return l
		}
		if r.Elem.K == c06Any {
			return r
		}
		return &c06Ty{K: c06Arr, Elem: c06Merge(l.Elem, r.Elem)}
	}
	// object
	if r.K != c06Obj {
		return c06TAny
	}
	if len(l.Names) == 0 && r.isLoose() {
		return r
	}
	if len(r.Names) == 0 && l.isLoose() {
		return l
	}
	mapped := l.Mapped
	if mapped == nil {
		mapped = r.Mapped
	} else if r.Mapped != nil {
		mapped = c06Merge(mapped, r.Mapped)
	}
	out := &c06Ty{K: c06Obj}
	out.Names = append(out.Names, l.Names...)
	out.Props = append(out.Props, l.Props...)
	// actionlint iterates a map here; the result does not depend on the order except for Mapped,
	// where Merge is not associative in general. Use sorted order (guidance only).
	idx := make([]int, len(r.Names))
	for i := range idx {
		idx[i] = i
	}
	sort.Slice(idx, func(a, b int) bool { return r.Names[idx[a]] < r.Names[idx[b]] })
	for _, i := range idx {
		n, rt := r.Names[i], r.Props[i]
		found := false
		for j, ln := range out.Names {
			if ln == n {
				out.Props[j] = c06Merge(out.Props[j], rt)
				found = true
				break
			}
		}
		if !found {
			out.Names = append(out.Names, n)
			out.Props = append(out.Props, rt)
			if mapped != nil {
				mapped = c06Merge(mapped, rt)
			}
		}
	}
	out.Mapped = mapped
	return out
}

// c06MergeUnstable reports whether the real Merge of these types may depend on map iteration order
// (a non-any mapped type absorbing two or more new members). Conservative.
func c06MergeUnstable(l, r *c06Ty) bool {
	if l.K == c06Arr && r.K == c06Arr {
		return c06MergeUnstable(l.Elem, r.Elem)
	}
	if l.K != c06Obj || r.K != c06Obj {
		return false
	}
	mapped := l.Mapped
	if mapped == nil {
		mapped = r.Mapped
	}
	fresh := 0
	for i, n := range r.Names {
		if p := l.prop(n); p != nil {
			if c06MergeUnstable(p, r.Props[i]) {
				return true
			}
		} else {
			fresh++
		}
	}
	if mapped != nil && l.Mapped != nil && r.Mapped != nil && c06MergeUnstable(l.Mapped, r.Mapped) {
		return true
	}
	return mapped != nil && mapped.K != c06Any && fresh >= 2
}

// c06MergeConflict reports whether Merge(l, r) combines a property both sides know with different
// types. Then the merged property (any, string for number+string, the union for two closed
// objects) says less than one side alone, and FORGETTING the properties of the other side brings
// the remaining side's own type back: with such a merge "object -> open object without known
// properties" is not a loosening of what the checker computes. (Guidance for the generators.)
func c06MergeConflict(l, r *c06Ty) bool {
	if l.K == c06Arr && r.K == c06Arr {
		return c06TypesDiffer(l.Elem, r.Elem)
	}
	if l.K != c06Obj || r.K != c06Obj {
		return false
	}
	for i, n := range r.Names {
		if p := l.prop(n); p != nil && c06TypesDiffer(p, r.Props[i]) {
			return true
		}
	}
	return false
}

// c06TypesDiffer: structural inequality. Two closed objects with different member sets also count:
// their Merge is the union, and with one side forgotten the other side's smaller closed object
// remains, in which a member only the forgotten side knew is reported.
func c06TypesDiffer(a, b *c06Ty) bool {
	if a.K != b.K {
		return true
	}
	switch a.K {
	case c06Arr:
		return c06TypesDiffer(a.Elem, b.Elem)
	case c06Obj:
		if len(a.Names) != len(b.Names) || (a.Mapped == nil) != (b.Mapped == nil) {
			return true
		}
		if a.Mapped != nil && c06TypesDiffer(a.Mapped, b.Mapped) {
			return true
		}
		for i, n := range a.Names {
			p := b.prop(n)
			if p == nil || c06TypesDiffer(a.Props[i], p) {
				return true
			}
		}
	}
	return false
}

// ---------------------------------------------------------------------------
// Environment: the types given to the six Update* methods (+ optional workflow_dispatch inputs)

var c06CtxNames = []string{"matrix", "steps", "needs", "inputs", "secrets", "jobs"}

type c06Env struct {
	Ty       []*c06Ty // parallel to c06CtxNames; all objects
	Dispatch *c06Ty   // nil: UpdateDispatchInputs is not called
	Copy     bool     // pass every type through DeepCopy before handing it to the checker
}

func (e *c06Env) clone() *c06Env {
	n := &c06Env{Dispatch: e.Dispatch.clone(), Copy: e.Copy}
	for _, t := range e.Ty {
		n.Ty = append(n.Ty, t.clone())
	}
	return n
}

func (e *c06Env) String() string {
	var b strings.Builder
	for i, t := range e.Ty {
		if i > 0 {
			b.WriteString(", ")
		}
		b.WriteString(c06CtxNames[i] + "=" + t.String())
	}
	if e.Dispatch != nil {
		b.WriteString(", dispatch-inputs=" + e.Dispatch.String())
	}
	return b.String()
}

func (e *c06Env) Map() map[string]string {
	m := map[string]string{}
	for i, t := range e.Ty {
		m[c06CtxNames[i]] = t.String()
	}
	if e.Dispatch != nil {
		m["workflow_dispatch inputs (UpdateDispatchInputs)"] = e.Dispatch.String()
	}
	return m
}

// loosening classes
const (
	c06ToAny     = iota // one type occurrence -> any
	c06OpenObj          // closed object -> open object with the same known properties
	c06ForgetObj        // object -> open object without known properties ({string => any})
	c06MapStrObj        // closed object whose members are all strings -> {string => string}
)

var c06ModeNames = []string{"to-any", "open-object", "object-to-open-empty", "string-object-to-string-map"}

// c06Site is one place of an environment where a single loosening applies.
type c06Site struct {
	Root  int   // index into Ty, or -1 for Dispatch
	Steps []int // >=0 property index, -1 Mapped, -2 Elem
	Mode  int   // c06ToAny, c06OpenObj, c06ForgetObj, c06MapStrObj
	Path  string
	Was   string
}

func (e *c06Env) sites() []c06Site {
	var out []c06Site
	var walk func(root int, t *c06Ty, steps []int, path string, isRoot bool)
	walk = func(root int, t *c06Ty, steps []int, path string, isRoot bool) {
		cp := append([]int(nil), steps...)
		if !isRoot && t.K != c06Any {
			out = append(out, c06Site{root, cp, c06ToAny, path, t.String()})
		}
		if t.isStrict() {
			out = append(out, c06Site{root, cp, c06OpenObj, path, t.String()})
		}
		// Forgetting the known properties. Not at the root of `secrets` and of the workflow_dispatch
		// inputs: UpdateSecrets and UpdateDispatchInputs (github.event.inputs) read only the known
		// properties of their argument and ignore whether it is open, so an open argument without
		// properties is not "the same object left open" for them (excluded class, see report).
		forgetOK := !(isRoot && (root < 0 || c06CtxNames[root] == "secrets"))
		if isRoot && root >= 0 && c06CtxNames[root] == "inputs" && e.Dispatch != nil && c06MergeConflict(t, e.Dispatch) {
			// UpdateDispatchInputs merges into `inputs`; see c06MergeConflict
			forgetOK = false
		}
		if t.K == c06Obj && forgetOK && !(t.isLoose() && len(t.Names) == 0) {
			out = append(out, c06Site{root, cp, c06ForgetObj, path, t.String()})
		}
		if t.isStrict() && forgetOK && len(t.Names) > 0 {
			allStr := true
			for _, p := range t.Props {
				if p.K != c06Str {
					allStr = false
				}
			}
			if allStr {
				out = append(out, c06Site{root, cp, c06MapStrObj, path, t.String()})
			}
		}
		switch t.K {
		case c06Obj:
			for i, p := range t.Props {
				walk(root, p, append(cp, i), path+"."+t.Names[i], false)
			}
			if t.Mapped != nil {
				walk(root, t.Mapped, append(cp, -1), path+".<mapped>", false)
			}
		case c06Arr:
			walk(root, t.Elem, append(cp, -2), path+"[]", false)
		}
	}
	for i, t := range e.Ty {
		walk(i, t, nil, c06CtxNames[i], true)
	}
	if e.Dispatch != nil {
		walk(-1, e.Dispatch, nil, "dispatch-inputs", true)
	}
	return out
}

// loosen returns a copy of the environment with exactly the one loosening applied.
func (e *c06Env) loosen(s c06Site) *c06Env {
	n := e.clone()
	var slot **c06Ty
	if s.Root < 0 {
		slot = &n.Dispatch
	} else {
		slot = &n.Ty[s.Root]
	}
	for _, st := range s.Steps {
		t := *slot
		switch {
		case st >= 0:
			slot = &t.Props[st]
		case st == -1:
			slot = &t.Mapped
		default:
			slot = &t.Elem
		}
	}
	switch s.Mode {
	case c06OpenObj:
		(*slot).Mapped = &c06Ty{K: c06Any}
	case c06ForgetObj:
		*slot = &c06Ty{K: c06Obj, Mapped: &c06Ty{K: c06Any}}
	case c06MapStrObj:
		*slot = &c06Ty{K: c06Obj, Mapped: &c06Ty{K: c06Str}}
	default:
		*slot = &c06Ty{K: c06Any}
	}
	return n
}

// effective root types as the checker will see them (model of UpdateSecrets / UpdateInputs /
// UpdateDispatchInputs; generator guidance only).
func (e *c06Env) effective(i int) *c06Ty {
	t := e.Ty[i]
	switch c06CtxNames[i] {
	case "secrets":
		o := c06ObjOf(nil, "github_token", c06TStr, "actions_step_debug", c06TStr, "actions_runner_debug", c06TStr)
		for j, n := range t.Names {
			if p := o.prop(n); p != nil {
				for k := range o.Names {
					if o.Names[k] == n {
						o.Props[k] = t.Props[j]
					}
				}
				continue
			}
			o.Names = append(o.Names, n)
			o.Props = append(o.Props, t.Props[j])
		}
		return o
	case "inputs":
		if e.Dispatch == nil {
			return t
		}
		if len(t.Names) == 0 && t.isStrict() {
			return e.Dispatch
		}
		return c06Merge(t, e.Dispatch)
	}
	return t
}

// ---------------------------------------------------------------------------
// Random environments

var c06PropPool = []string{"foo", "bar", "os", "ver", "id", "name", "cfg", "list", "x1", "my-key", "a_b", "result", "outputs", "node", "tags", "opt", "env", "k", "zed", "n0"}

func c06PickNames(r *Rand, n int) []string {
	p := r.Perm(len(c06PropPool))
	out := make([]string, 0, n)
	for i := 0; i < n && i < len(p); i++ {
		out = append(out, c06PropPool[p[i]])
	}
	return out
}

func c06GenScalar(r *Rand) *c06Ty {
	switch x := r.Intn(20); {
	case x < 9:
		return &c06Ty{K: c06Str}
	case x < 13:
		return &c06Ty{K: c06Num}
	case x < 16:
		return &c06Ty{K: c06Bool}
	case x < 17:
		return &c06Ty{K: c06Null}
	default:
		return &c06Ty{K: c06Any}
	}
}

// c06GenTy generates an arbitrary type of nesting depth <= depth.
func c06GenTy(r *Rand, depth int) *c06Ty {
	if depth <= 0 || r.Chance(45, 100) {
		return c06GenScalar(r)
	}
	if r.Chance(35, 100) {
		return &c06Ty{K: c06Arr, Elem: c06GenTy(r, depth-1)}
	}
	return c06GenObj(r, depth, r.Range(0, 3))
}

func c06GenObj(r *Rand, depth, nprops int) *c06Ty {
	t := &c06Ty{K: c06Obj}
	switch x := r.Intn(20); {
	case x < 13: // closed
	case x < 16: // open
		t.Mapped = &c06Ty{K: c06Any}
	default: // map object: all members share the mapped type (the documented invariant)
		t.Mapped = c06GenTy(r, depth-1)
		if r.Bool() {
			nprops = 0
		}
		for _, n := range c06PickNames(r, nprops) {
			t.Names = append(t.Names, n)
			t.Props = append(t.Props, t.Mapped.clone())
		}
		return t
	}
	for _, n := range c06PickNames(r, nprops) {
		t.Names = append(t.Names, n)
		t.Props = append(t.Props, c06GenTy(r, depth-1))
	}
	return t
}

func c06GenOutputs(r *Rand) *c06Ty {
	switch r.Intn(4) {
	case 0:
		return c06ObjOf(&c06Ty{K: c06Str}) // unknown action: {string => string}
	case 1:
		return c06ObjOf(&c06Ty{K: c06Any}) // github-script: open
	}
	o := &c06Ty{K: c06Obj}
	for _, n := range c06PickNames(r, r.Range(0, 3)) {
		o.Names = append(o.Names, n)
		o.Props = append(o.Props, &c06Ty{K: c06Str})
	}
	return o
}

// c06GenEnv generates the six context objects. Half of the contexts follow the shape the linter
// itself produces (steps.<id>.{outputs,conclusion,outcome}, needs.<id>.{outputs,result}, ...), the
// other half are arbitrary objects: the statement quantifies over all typing environments.
func c06GenEnv(r *Rand) *c06Env {
	e := &c06Env{Copy: r.Bool()}
	for _, ctx := range c06CtxNames {
		var t *c06Ty
		if r.Chance(40, 100) {
			t = c06GenObj(r, 3, r.Range(1, 4))
		} else {
			t = &c06Ty{K: c06Obj}
			names := c06PickNames(r, r.Range(1, 3))
			for _, n := range names {
				var p *c06Ty
				switch ctx {
				case "matrix":
					p = c06GenTy(r, 3)
				case "steps":
					p = c06ObjOf(nil, "outputs", c06GenOutputs(r), "conclusion", &c06Ty{K: c06Str}, "outcome", &c06Ty{K: c06Str})
				case "needs":
					p = c06ObjOf(nil, "outputs", c06GenOutputs(r), "result", &c06Ty{K: c06Str})
				case "inputs":
					p = c06GenScalar(r)
				case "secrets":
					p = &c06Ty{K: c06Str}
				default: // jobs
					p = c06ObjOf(nil, "outputs", c06GenOutputs(r))
				}
				t.Names = append(t.Names, n)
				t.Props = append(t.Props, p)
			}
			if ctx == "steps" && r.Chance(1, 5) {
				t.Mapped = &c06Ty{K: c06Any} // a step id given by an expression
			}
		}
		e.Ty = append(e.Ty, t)
	}
	// ObjectType.Merge of a map object with an object that adds two or more members folds the
	// members into the mapped type in Go map iteration order, and Merge is not associative: the
	// resulting type is not a function of the inputs. UpdateDispatchInputs is therefore only
	// exercised when `inputs` is a closed or open object (what the linter itself produces).
	inputsTy := e.Ty[3]
	if r.Chance(30, 100) && (inputsTy.Mapped == nil || inputsTy.Mapped.K == c06Any) {
		d := &c06Ty{K: c06Obj}
		for _, n := range c06PickNames(r, r.Range(1, 3)) {
			d.Names = append(d.Names, n)
			d.Props = append(d.Props, c06GenScalar(r))
		}
		e.Dispatch = d
	}
	return e
}
