package main

// C08 workload generator: workflows (and projects with local actions / local reusable workflows)
// in which every NAME OCCURRENCE is known together with its class ("site"). The generator writes
// names through c08N(site, text), which wraps them into markers; c08Strip removes the markers and
// returns the byte range of every occurrence, so that a case flip is a same-length byte edit.
//
// In a base workflow every occurrence of one logical name is spelled identically (the canonical
// spelling may itself be mixed case), and names are unique after lower-casing, so a flip never
// creates or removes a duplicate.

import (
	"fmt"
	"sort"
	"strings"

	"github.com/rhysd/actionlint"
)

type c08Occ struct {
	File string `json:"file"`
	Off  int    `json:"off"`
	Len  int    `json:"len"`
	Site string `json:"site"`
	Text string `json:"text"`
}

func c08N(site, text string) string { return "\x01" + site + "\x02" + text + "\x03" }

// c08Strip removes the markers of one file and lists the occurrences.
func c08Strip(file, marked string) (string, []c08Occ) {
	var sb strings.Builder
	var occs []c08Occ
	for i := 0; i < len(marked); {
		if marked[i] == 1 {
			j := i + strings.IndexByte(marked[i:], 2)
			k := j + strings.IndexByte(marked[j:], 3)
			text := marked[j+1 : k]
			occs = append(occs, c08Occ{file, sb.Len(), len(text), marked[i+1 : j], text})
			sb.WriteString(text)
			i = k + 1
			continue
		}
		sb.WriteByte(marked[i])
		i++
	}
	return sb.String(), occs
}

func c08Unmark(marked string) string {
	s, _ := c08Strip("", marked)
	return s
}

// ---------------------------------------------------------------------------
// model

type c08Step struct {
	id      string
	outs    []string // known outputs (popular / local action); nil for run steps (any output)
	outKind string   // "run" | "popular" | "local" | "loose"
}

type c08Job struct {
	id             string
	outputs        []string
	isCall         bool
	calleeOuts     []string
	needs          []*c08Job
	hasMatrix      bool
	matrixKeys     []string
	matrixSites    map[string]string // key -> site of its definition class (for reporting only)
	matrixNested   map[string][]string
	steps          []*c08Step
	selfNeeds      bool
	matrixLabelKey string
	matrixSeqRows  []string
}

type c08Input struct {
	name     string
	typ      string // string | boolean | number | choice | environment
	required bool
	hasDflt  bool
}

type c08WF struct {
	dispatchInputs []c08Input
	callInputs     []c08Input
	hasCall        bool
	hasSecretsSec  bool
	callSecrets    []c08Input
	callOutputs    []string
	jobs           []*c08Job
	prTrigger      bool
}

// interface of a local action / reusable workflow as seen by callers
type c08Action struct {
	spec    string // ./.github/actions/act0
	inputs  []c08Input
	outputs []string
}

type c08Callee struct {
	spec    string // ./.github/workflows/callee0.yml
	file    string
	inputs  []c08Input
	secrets []c08Input
	outputs []string
}

type c08Gen struct {
	r        *Rand
	used     map[string]bool
	defPM    int // per-mille chance that a reference is intentionally wrong
	indexLit bool
	injected map[string]int
	actions  []*c08Action
	callees  []*c08Callee
	selfSpec string // spec of the file being generated when it may call itself
	nonStr   bool   // the last atom was typed bool / number (not accepted by string parameters)
}

func c08NewGen(r *Rand) *c08Gen {
	return &c08Gen{r: r, used: map[string]bool{}, injected: map[string]int{}}
}

var c08Words = []string{"build", "test", "deploy", "lint", "pkg", "cfg", "node", "os", "ver", "arch", "target", "rel", "cache", "key", "tok", "art", "img", "db", "api", "zone", "stage", "unit", "docs", "app", "lib", "go", "py", "kind", "mode", "flag"}

var c08Reserved = map[string]bool{
	"true": true, "false": true, "null": true, "nan": true, "inf": true, "infinity": true, "yes": true, "no": true, "on": true, "off": true, "y": true, "n": true,
	"include": true, "exclude": true, "args": true, "entrypoint": true, "outputs": true, "result": true, "conclusion": true, "outcome": true,
	"github_token": true, "actions_step_debug": true, "actions_runner_debug": true, "inherit": true,
}

func c08PartCase(r *Rand, w string) string {
	switch r.Intn(4) {
	case 0:
		return strings.ToUpper(w)
	case 1:
		return strings.ToUpper(w[:1]) + w[1:]
	case 2:
		b := []byte(w)
		for i := range b {
			if r.Bool() {
				b[i] = byte(strings.ToUpper(string(b[i]))[0])
			}
		}
		return string(b)
	}
	return w
}

// name returns a fresh name, unique after lower-casing within the whole generated project.
// hyphen=false for names that must be usable as env / vars / secrets names.
func (g *c08Gen) name(hyphen bool) string {
	for {
		n := g.r.Range(1, 3)
		seps := []string{"", "_"}
		if hyphen {
			seps = append(seps, "-")
		}
		var sb strings.Builder
		if g.r.Intn(12) == 0 {
			sb.WriteByte('_')
		}
		for i := 0; i < n; i++ {
			if i > 0 {
				sb.WriteString(g.r.Pick(seps))
			}
			sb.WriteString(c08PartCase(g.r, g.r.Pick(c08Words)))
		}
		if g.r.Intn(3) == 0 {
			sb.WriteString(fmt.Sprint(g.r.Intn(10)))
		}
		s := sb.String()
		l := strings.ToLower(s)
		if g.used[l] || c08Reserved[l] || strings.HasPrefix(l, "github") {
			continue
		}
		if !strings.ContainsAny(l, "abcdefghijklmnopqrstuvwxyz") {
			continue
		}
		g.used[l] = true
		return s
	}
}

func (g *c08Gen) defect(kind string) bool {
	if g.defPM > 0 && g.r.Intn(1000) < g.defPM {
		g.injected[kind]++
		return true
	}
	return false
}

// prop renders a property access: ".name", or in the index-literal family sometimes "['name']".
func (g *c08Gen) prop(site, name string) string {
	if g.indexLit && g.r.Intn(3) == 0 {
		return "['" + c08N("index-literal:"+site, name) + "']"
	}
	return "." + c08N(site, name)
}

func (g *c08Gen) ctx(name string) string { return c08N("context-name", name) }
func (g *c08Gen) fn(name string) string  { return c08N("function-name", name) }

// ---------------------------------------------------------------------------
// expressions

type c08Loc struct {
	key    string // workflow key of the position (decides context availability)
	wf     *c08WF
	job    *c08Job
	nsteps int  // steps of job defined before this position
	script bool // run: script or github-script's script (untrusted inputs are checked)
	isIf   bool
}

var c08Avail = map[string][]string{
	"step":          {"env", "github", "inputs", "job", "matrix", "needs", "runner", "secrets", "steps", "strategy", "vars"},
	"step-if":       {"env", "github", "inputs", "job", "matrix", "needs", "runner", "steps", "strategy", "vars"},
	"job-outputs":   {"env", "github", "inputs", "job", "matrix", "needs", "runner", "secrets", "steps", "strategy", "vars"},
	"job-env":       {"github", "inputs", "matrix", "needs", "secrets", "strategy", "vars"},
	"call-secrets":  {"github", "inputs", "matrix", "needs", "secrets", "strategy", "vars"},
	"job-name":      {"github", "inputs", "matrix", "needs", "strategy", "vars"},
	"call-with":     {"github", "inputs", "matrix", "needs", "strategy", "vars"},
	"job-strategy":  {"github", "inputs", "needs", "vars"},
	"job-if":        {"github", "inputs", "needs", "vars"},
	"wf-env":        {"github", "inputs", "secrets", "vars"},
	"run-name":      {"github", "inputs", "vars"},
	"input-default": {"github", "inputs", "vars"},
	"wf-output":     {"github", "inputs", "jobs", "vars"},
}

var c08AllCtx = []string{"github", "env", "steps", "needs", "matrix", "inputs", "secrets", "vars", "job", "runner", "strategy"}

var c08GithubProps = []string{"event_name", "ref", "sha", "repository", "actor", "run_id", "run_number", "workflow", "job", "workspace", "repositoryUrl", "server_url", "triggering_actor", "repository_owner", "run_attempt", "api_url", "ref_type"}
var c08EventPaths = [][]string{{"repository", "name"}, {"pull_request", "number"}, {"pull_request", "head", "sha"}, {"sender", "login"}, {"action"}, {"release", "id"}, {"pull_request", "base", "sha"}}
var c08UntrustedPaths = [][]string{{"event", "pull_request", "title"}, {"event", "issue", "body"}, {"head_ref"}, {"event", "comment", "body"}, {"event", "pull_request", "head", "ref"}, {"event", "head_commit", "message"}, {"event", "review", "body"}, {"event", "discussion", "title"}}
var c08RunnerProps = []string{"os", "arch", "name", "temp", "tool_cache", "debug"}
var c08StrategyProps = []string{"fail-fast", "job-index", "job-total", "max-parallel"}
var c08EnvNames = []string{"CI", "HOME_DIR", "My_Var", "node_env", "GOFLAGS", "Path_Extra"}
var c08VarNames = []string{"DEPLOY_ENV", "Region", "api_base", "Feature_X"}
var c08SecretNames = []string{"GITHUB_TOKEN", "NPM_TOKEN", "Deploy_Key", "slack_hook"}

func (g *c08Gen) pickCtx(loc c08Loc) string {
	avail := c08Avail[loc.key]
	if g.defect("context-not-allowed") {
		// a context that is not available here (if any)
		var not []string
		for _, c := range c08AllCtx {
			ok := false
			for _, a := range avail {
				if a == c {
					ok = true
				}
			}
			if !ok {
				not = append(not, c)
			}
		}
		if len(not) > 0 {
			return g.r.Pick(not)
		}
	}
	// weight user-defined namespaces higher when they have something to refer to
	var cand []string
	for _, c := range avail {
		w := 1
		switch c {
		case "steps":
			if len(g.idSteps(loc)) > 0 {
				w = 6
			} else if g.defPM == 0 {
				w = 0
			}
		case "needs":
			if loc.job != nil && len(loc.job.needs) > 0 {
				w = 6
			} else if g.defPM == 0 {
				w = 0
			}
		case "matrix":
			if loc.job != nil && loc.job.hasMatrix {
				w = 6
			} else {
				w = 0 // matrix is a strict empty object without a matrix: always an error
			}
		case "inputs":
			if len(loc.wf.dispatchInputs)+len(loc.wf.callInputs) > 0 {
				w = 5
			} else {
				w = 0
			}
		case "secrets":
			w = 2
		case "jobs":
			w = 8
		case "github":
			w = 3
		}
		for i := 0; i < w; i++ {
			cand = append(cand, c)
		}
	}
	return g.r.Pick(cand)
}

func (g *c08Gen) idSteps(loc c08Loc) []*c08Step {
	var out []*c08Step
	if loc.job == nil {
		return nil
	}
	for _, st := range loc.job.steps[:loc.nsteps] {
		if st.id != "" {
			out = append(out, st)
		}
	}
	return out
}

// atom returns one reference expression (marked) that is a scalar value in a clean workflow.
func (g *c08Gen) atom(loc c08Loc) string {
	g.nonStr = false
	c := g.pickCtx(loc)
	switch c {
	case "github":
		if loc.script && (g.defect("untrusted-input") || g.indexLit && g.r.Intn(5) == 0) {
			p := c08UntrustedPaths[g.r.Intn(len(c08UntrustedPaths))]
			s := g.ctx("github")
			for _, seg := range p {
				site := "property-builtin"
				if g.indexLit {
					site = "untrusted-path"
				}
				s += g.prop(site, seg)
			}
			return s
		}
		if g.defect("undefined-builtin-property") {
			return g.ctx("github") + g.prop("property-builtin", g.r.Pick([]string{"no_such_prop", "Event_Nam", "shaa"}))
		}
		if len(loc.wf.dispatchInputs) > 0 && g.r.Intn(4) == 0 {
			in := loc.wf.dispatchInputs[g.r.Intn(len(loc.wf.dispatchInputs))].name
			if g.defect("undefined-input") {
				in = g.name(true)
			}
			return g.ctx("github") + g.prop("property-builtin", "event") + g.prop("property-builtin", "inputs") + g.prop("event-input-use", in)
		}
		if g.r.Intn(4) == 0 {
			p := c08EventPaths[g.r.Intn(len(c08EventPaths))]
			s := g.ctx("github") + g.prop("property-builtin", "event")
			for _, seg := range p {
				s += g.prop("property-builtin", seg)
			}
			return s
		}
		return g.ctx("github") + g.prop("property-builtin", g.r.Pick(c08GithubProps))
	case "runner":
		if g.defect("undefined-builtin-property") {
			return g.ctx("runner") + g.prop("property-builtin", "oss")
		}
		return g.ctx("runner") + g.prop("property-builtin", g.r.Pick(c08RunnerProps))
	case "job":
		switch g.r.Intn(3) {
		case 0:
			return g.ctx("job") + g.prop("property-builtin", "container") + g.prop("property-builtin", g.r.Pick([]string{"id", "network"}))
		case 1:
			return g.ctx("job") + g.prop("property-builtin", "services") + g.prop("property-map", g.r.Pick([]string{"redis", "Postgres"})) + g.prop("property-builtin", g.r.Pick([]string{"id", "network"}))
		}
		return g.ctx("job") + g.prop("property-builtin", "status")
	case "strategy":
		g.nonStr = true
		return g.ctx("strategy") + g.prop("property-builtin", g.r.Pick(c08StrategyProps))
	case "env":
		return g.ctx("env") + g.prop("property-map", g.r.Pick(c08EnvNames))
	case "vars":
		return g.ctx("vars") + g.prop("property-map", g.r.Pick(c08VarNames))
	case "secrets":
		if loc.wf.hasSecretsSec {
			if g.defect("undefined-secret") {
				return g.ctx("secrets") + g.prop("secret-use", g.name(false))
			}
			if len(loc.wf.callSecrets) > 0 && g.r.Intn(4) > 0 {
				return g.ctx("secrets") + g.prop("secret-use", loc.wf.callSecrets[g.r.Intn(len(loc.wf.callSecrets))].name)
			}
			return g.ctx("secrets") + g.prop("secret-use", "GITHUB_TOKEN")
		}
		return g.ctx("secrets") + g.prop("property-map", g.r.Pick(c08SecretNames))
	case "inputs":
		var all []c08Input
		all = append(all, loc.wf.dispatchInputs...)
		all = append(all, loc.wf.callInputs...)
		if len(all) == 0 || g.defect("undefined-input") {
			return g.ctx("inputs") + g.prop("input-use", g.name(true))
		}
		in := all[g.r.Intn(len(all))]
		g.nonStr = in.typ == "boolean" || in.typ == "number"
		return g.ctx("inputs") + g.prop("input-use", in.name)
	case "steps":
		ids := g.idSteps(loc)
		if len(ids) == 0 || g.defect("undefined-step") {
			return g.ctx("steps") + g.prop("step-id-use", g.name(true)) + g.prop("property-keyword", "outputs") + g.prop("step-output-use-run", "val")
		}
		st := ids[g.r.Intn(len(ids))]
		s := g.ctx("steps") + g.prop("step-id-use", st.id)
		switch g.r.Intn(5) {
		case 0:
			return s + g.prop("property-keyword", "conclusion")
		case 1:
			return s + g.prop("property-keyword", "outcome")
		}
		s += g.prop("property-keyword", "outputs")
		switch st.outKind {
		case "popular", "local":
			if len(st.outs) == 0 && g.defPM == 0 {
				return g.ctx("steps") + g.prop("step-id-use", st.id) + g.prop("property-keyword", "outcome")
			}
			if len(st.outs) == 0 || g.defect("undefined-action-output") {
				return s + g.prop("step-output-use-"+st.outKind, g.name(true))
			}
			return s + g.prop("step-output-use-"+st.outKind, g.r.Pick(st.outs))
		}
		return s + g.prop("step-output-use-run", g.r.Pick([]string{"val", "Result_1", "sha-short", "VERSION"}))
	case "needs":
		if loc.job == nil || len(loc.job.needs) == 0 || g.defect("undefined-needs") {
			return g.ctx("needs") + g.prop("needs-ctx-use", g.name(true)) + g.prop("property-keyword", "result")
		}
		nj := loc.job.needs[g.r.Intn(len(loc.job.needs))]
		site := "needs-ctx-use"
		if nj.selfNeeds && nj == loc.job {
			site = "needs-ctx-use(self)"
		}
		s := g.ctx("needs") + g.prop(site, nj.id)
		outs := nj.outputs
		osite := "job-output-use"
		if nj.isCall {
			outs = nj.calleeOuts
			osite = "callee-output-use"
		}
		if g.r.Intn(3) == 0 || len(outs) == 0 && g.defPM == 0 {
			return s + g.prop("property-keyword", "result")
		}
		if len(outs) == 0 || g.defect("undefined-job-output") {
			return s + g.prop("property-keyword", "outputs") + g.prop(osite, g.name(true))
		}
		return s + g.prop("property-keyword", "outputs") + g.prop(osite, g.r.Pick(outs))
	case "matrix":
		if loc.job == nil || !loc.job.hasMatrix || len(loc.job.matrixKeys) == 0 || g.defect("undefined-matrix-key") {
			return g.ctx("matrix") + g.prop("matrix-use", g.name(true))
		}
		k := g.r.Pick(loc.job.matrixKeys)
		g.nonStr = true
		s := g.ctx("matrix") + g.prop("matrix-use", k)
		if sub := loc.job.matrixNested[k]; len(sub) > 0 {
			if g.defect("undefined-matrix-nested-key") {
				return s + g.prop("matrix-nested-use", g.name(true))
			}
			return s + g.prop("matrix-nested-use", g.r.Pick(sub))
		}
		return s
	case "jobs":
		var cand []*c08Job
		for _, j := range loc.wf.jobs {
			if !j.isCall && len(j.outputs) > 0 {
				cand = append(cand, j)
			}
		}
		if len(cand) == 0 || g.defect("undefined-jobs-ctx") {
			return g.ctx("jobs") + g.prop("jobs-ctx-use", g.name(true)) + g.prop("property-keyword", "outputs") + g.prop("job-output-use", "x")
		}
		j := cand[g.r.Intn(len(cand))]
		o := g.r.Pick(j.outputs)
		if g.defect("undefined-job-output") {
			o = g.name(true)
		}
		return g.ctx("jobs") + g.prop("jobs-ctx-use", j.id) + g.prop("property-keyword", "outputs") + g.prop("job-output-use", o)
	}
	return g.ctx("github") + g.prop("property-builtin", "sha")
}

// satom: an atom for a position that wants a string.
func (g *c08Gen) satom(loc c08Loc) string {
	s := g.atom(loc)
	for i := 0; i < 4 && g.nonStr; i++ {
		s = g.atom(loc)
	}
	return s
}

// jsonLit returns a fromJSON call on an object literal followed by a property path into it.
func (g *c08Gen) jsonLit() string {
	type kv struct {
		k   string
		sub []string
	}
	n := g.r.Range(1, 3)
	var kvs []kv
	for i := 0; i < n; i++ {
		e := kv{k: g.name(false)}
		if g.r.Intn(3) == 0 {
			e.sub = []string{g.name(false)}
			if g.r.Bool() {
				e.sub = append(e.sub, g.name(false))
			}
		}
		kvs = append(kvs, e)
	}
	var sb strings.Builder
	sb.WriteString(g.fn("fromJSON") + "('{")
	for i, e := range kvs {
		if i > 0 {
			sb.WriteString(", ")
		}
		sb.WriteString(`"` + c08N("fromjson-literal-key", e.k) + `": `)
		if e.sub != nil {
			sb.WriteString("{")
			for j, s := range e.sub {
				if j > 0 {
					sb.WriteString(", ")
				}
				sb.WriteString(`"` + c08N("fromjson-literal-key", s) + `": ` + g.r.Pick([]string{`"Val"`, "1", "true"}))
			}
			sb.WriteString("}")
		} else {
			sb.WriteString(g.r.Pick([]string{`"Some Text"`, "12", "true", `"x"`}))
		}
	}
	sb.WriteString("}')")
	e := kvs[g.r.Intn(len(kvs))]
	if g.defect("undefined-json-key") {
		return sb.String() + g.prop("fromjson-prop-use", g.name(false))
	}
	s := sb.String() + g.prop("fromjson-prop-use", e.k)
	if e.sub != nil {
		s += g.prop("fromjson-prop-use", g.r.Pick(e.sub))
	}
	return s
}

var c08StrLits = []string{"'main'", "'Release'", "'refs/heads/Main'", "'x'", "'OK'", "'Linux'", "''"}

// expr returns a marked expression (without ${{ }}).
func (g *c08Gen) expr(loc c08Loc) string {
	any := func() string {
		if g.r.Intn(12) == 0 {
			g.nonStr = true
			return g.jsonLit()
		}
		return g.atom(loc)
	}
	// a: an operand for a position that wants a string (retry a few times when the atom is typed
	// bool / number; the retries are part of the seeded stream)
	a := func() string {
		s := any()
		for i := 0; i < 4 && g.nonStr; i++ {
			s = any()
		}
		return s
	}
	fname := func(canon string) string {
		if g.defect("unknown-function") {
			return g.fn(g.r.Pick([]string{"toJSONN", "startWith", "hashFile", "formats", "Contain"}))
		}
		return g.fn(canon)
	}
	var e string
	switch g.r.Intn(14) {
	case 0, 1, 2:
		e = any()
	case 3:
		e = fname("format") + "('{0}-{1}', " + a() + ", " + a() + ")"
	case 4:
		e = fname(g.r.Pick([]string{"contains", "startsWith", "endsWith"})) + "(" + a() + ", " + g.r.Pick(c08StrLits) + ")"
	case 5:
		e = fname("toJSON") + "(" + any() + ")"
	case 6:
		e = a() + " " + g.r.Pick([]string{"==", "!="}) + " " + g.r.Pick(c08StrLits)
	case 7:
		e = any() + " " + g.r.Pick([]string{"&&", "||"}) + " " + any()
	case 8:
		e = a() + " || " + g.r.Pick(c08StrLits)
	case 9:
		e = fname("join") + "(" + fname("fromJSON") + "('[\"a\", \"B\"]'), ', ') != " + a()
	case 10:
		e = fname("fromJSON") + "(" + a() + ")" + g.prop("property-map", g.r.Pick([]string{"Field", "items", "tag_Name"}))
	case 11:
		if loc.key == "step" || loc.key == "step-if" || g.defect("special-function-not-allowed") {
			e = fname("hashFiles") + "('**/go.sum', " + g.r.Pick(c08StrLits) + ")"
		} else {
			e = a()
		}
	case 12:
		e = a() + " != " + g.r.Pick([]string{"null", "true", "false", "12"})
	case 13:
		e = "(" + a() + " == " + a() + ") && !" + fname("startsWith") + "(" + a() + ", 'v')"
	}
	return e
}

// cond returns a marked condition for if:.
func (g *c08Gen) cond(loc c08Loc) string {
	st := ""
	if loc.isIf || g.defect("special-function-not-allowed") {
		switch g.r.Intn(4) {
		case 0:
			st = g.fn(g.r.Pick([]string{"always", "success", "failure", "cancelled"})) + "() && "
		case 1:
			st = "!" + g.fn("cancelled") + "() && "
		}
	}
	switch g.r.Intn(3) {
	case 0:
		return st + g.atom(loc) + " == " + g.r.Pick(c08StrLits)
	case 1:
		return st + g.fn(g.r.Pick([]string{"contains", "startsWith", "endsWith"})) + "(" + g.satom(loc) + ", " + g.r.Pick(c08StrLits) + ")"
	}
	return st + g.atom(loc) + " != " + g.atom(loc)
}

// text returns a scalar text with 1..2 embedded expressions.
func (g *c08Gen) text(loc c08Loc) string {
	s := g.r.Pick([]string{"", "v-", "Value ", "echo "}) + "${{ " + g.expr(loc) + " }}"
	if g.r.Intn(4) == 0 {
		s += g.r.Pick([]string{" ", "/", " and "}) + "${{ " + g.expr(loc) + " }}"
	}
	return s
}

// scalar renders a marked text as a YAML scalar in block context.
func c08Scalar(r *Rand, marked string) string {
	p := c08Unmark(marked)
	need := p == "" || strings.ContainsAny(p[:1], "!&*'\"|>%@`#{}[],-?: ") || strings.Contains(p, ": ") || strings.Contains(p, " #") || strings.HasSuffix(p, ":") || strings.HasSuffix(p, " ")
	if !need && r.Intn(6) > 0 {
		return marked
	}
	if !strings.ContainsAny(p, "\"\\") && r.Intn(3) > 0 {
		return `"` + marked + `"`
	}
	return "'" + strings.ReplaceAll(marked, "'", "''") + "'"
}

// ---------------------------------------------------------------------------
// workflow emission

type c08W struct{ sb strings.Builder }

func (w *c08W) l(indent int, s string) {
	w.sb.WriteString(strings.Repeat(" ", indent))
	w.sb.WriteString(s)
	w.sb.WriteByte('\n')
}

var c08Popular = []string{"actions/checkout@v4", "actions/cache@v4", "actions/setup-node@v4", "actions/setup-python@v5", "actions/upload-artifact@v4", "actions/setup-go@v5", "docker/login-action@v3", "actions/download-artifact@v4"}

// c08PopularIface reads the interface of a bundled popular action from the real table (sorted).
func c08PopularIface(spec string) (inputs []c08Input, outputs []string, ok bool) {
	m, ok := actionlint.PopularActions[spec]
	if !ok {
		return nil, nil, false
	}
	var ids []string
	for id := range m.Inputs {
		ids = append(ids, id)
	}
	sort.Strings(ids)
	for _, id := range ids {
		i := m.Inputs[id]
		if id == "args" || id == "entrypoint" {
			continue
		}
		inputs = append(inputs, c08Input{name: i.Name, required: i.Required})
	}
	for id := range m.Outputs {
		outputs = append(outputs, m.Outputs[id].Name)
	}
	sort.Strings(outputs)
	return inputs, outputs, true
}

func (g *c08Gen) inputDefs(w *c08W, indent int, site string, n int, call bool) []c08Input {
	var ins []c08Input
	for i := 0; i < n; i++ {
		in := c08Input{name: g.name(true)}
		if call {
			in.typ = g.r.Pick([]string{"string", "boolean", "number"})
		} else {
			in.typ = g.r.Pick([]string{"string", "boolean", "number", "choice", "environment"})
		}
		in.required = g.r.Intn(3) == 0
		in.hasDflt = !in.required && g.r.Intn(3) == 0 && in.typ != "environment"
		w.l(indent, c08N(site, in.name)+":")
		if g.r.Bool() {
			w.l(indent+2, "description: The "+strings.ToUpper(in.typ)+" input")
		}
		if in.required {
			w.l(indent+2, "required: true")
		}
		w.l(indent+2, "type: "+in.typ)
		if in.typ == "choice" {
			w.l(indent+2, "options: [Alpha, beta]")
		}
		if in.hasDflt {
			switch in.typ {
			case "boolean":
				w.l(indent+2, "default: false")
			case "number":
				w.l(indent+2, "default: 3")
			case "choice":
				w.l(indent+2, "default: Alpha")
			default:
				if call && len(ins) > 0 && g.r.Intn(2) == 0 {
					w.l(indent+2, "default: ${{ "+g.ctx("inputs")+g.prop("input-use", ins[g.r.Intn(len(ins))].name)+" }}")
				} else {
					w.l(indent+2, "default: Some-Default")
				}
			}
		}
		ins = append(ins, in)
	}
	return ins
}

type c08WFOpts struct {
	forceCall bool // the workflow must have a workflow_call trigger (callee)
	selfSpec  string
}

// workflow generates one marked workflow file. Interface of its workflow_call trigger (if any) is
// returned through wf.
func (g *c08Gen) workflow(o c08WFOpts) (string, *c08WF) {
	w := &c08W{}
	wf := &c08WF{}
	r := g.r
	if r.Intn(3) == 0 {
		w.l(0, "name: Generated "+fmt.Sprint(r.Intn(100)))
	}
	// plan triggers
	wf.hasCall = o.forceCall || r.Intn(5) == 0
	hasDispatch := r.Intn(3) == 0
	wf.prTrigger = r.Bool()
	simple := !wf.hasCall && !hasDispatch
	if simple {
		switch r.Intn(3) {
		case 0:
			w.l(0, "on: push")
		case 1:
			w.l(0, "on: [push, pull_request]")
		default:
			w.l(0, "on:")
			w.l(2, "pull_request:")
			w.l(4, "branches: [main]")
		}
	} else {
		w.l(0, "on:")
		if wf.prTrigger {
			w.l(2, "pull_request:")
		}
		if hasDispatch {
			w.l(2, "workflow_dispatch:")
			if n := r.Intn(4); n > 0 {
				w.l(4, "inputs:")
				wf.dispatchInputs = g.inputDefs(w, 6, "dispatch-input-def", n, false)
			}
		}
	}
	// jobs are planned before the workflow_call section is written because outputs refer to them
	nj := r.Range(1, 4)
	for i := 0; i < nj; i++ {
		j := &c08Job{id: g.name(true), matrixNested: map[string][]string{}}
		wf.jobs = append(wf.jobs, j)
	}
	// decide job kinds and outputs first (names only)
	for _, j := range wf.jobs {
		if len(g.callees) > 0 && r.Intn(3) == 0 || o.selfSpec != "" && r.Intn(4) == 0 {
			j.isCall = true
		} else if r.Intn(2) == 0 {
			for k := r.Range(1, 2); k > 0; k-- {
				j.outputs = append(j.outputs, g.name(true))
			}
		}
	}
	var selfIface *c08Callee
	if wf.hasCall {
		w.l(2, "workflow_call:")
		if n := r.Intn(4); n > 0 {
			w.l(4, "inputs:")
			wf.callInputs = g.inputDefs(w, 6, "call-input-def", n, true)
		}
		if r.Intn(2) == 0 {
			wf.hasSecretsSec = true
			n := r.Range(1, 3)
			w.l(4, "secrets:")
			for i := 0; i < n; i++ {
				s := c08Input{name: g.name(false), required: r.Intn(2) == 0}
				w.l(6, c08N("call-secret-def", s.name)+":")
				if s.required {
					w.l(8, "required: true")
				} else {
					w.l(8, "description: Optional Secret")
				}
				wf.callSecrets = append(wf.callSecrets, s)
			}
		}
		var outJobs []*c08Job
		for _, j := range wf.jobs {
			if !j.isCall && len(j.outputs) > 0 {
				outJobs = append(outJobs, j)
			}
		}
		if len(outJobs) > 0 && r.Intn(3) > 0 {
			w.l(4, "outputs:")
			for k := r.Range(1, 2); k > 0; k-- {
				on := g.name(true)
				wf.callOutputs = append(wf.callOutputs, on)
				w.l(6, c08N("call-output-def", on)+":")
				loc := c08Loc{key: "wf-output", wf: wf}
				w.l(8, "value: "+c08Scalar(r, "${{ "+g.atom(loc)+" }}"))
			}
		}
		if o.selfSpec != "" {
			selfIface = &c08Callee{spec: o.selfSpec, inputs: wf.callInputs, secrets: wf.callSecrets, outputs: wf.callOutputs}
		}
	}
	if len(wf.dispatchInputs)+len(wf.callInputs) > 0 && r.Intn(4) == 0 {
		w.l(0, "run-name: "+c08Scalar(r, "Run "+g.text(c08Loc{key: "run-name", wf: wf})))
	}
	if r.Intn(4) == 0 {
		w.l(0, "env:")
		w.l(2, "WF_VAR: "+c08Scalar(r, g.text(c08Loc{key: "wf-env", wf: wf})))
	}
	w.l(0, "jobs:")
	for ji, j := range wf.jobs {
		idSite := "job-id-def"
		// needs: earlier jobs (DAG), sometimes an undefined one, rarely a self reference
		var needsItems []string
		if ji > 0 {
			for _, k := range r.Perm(ji) {
				if r.Intn(2) == 0 {
					j.needs = append(j.needs, wf.jobs[k])
					needsItems = append(needsItems, c08N("needs-entry", wf.jobs[k].id))
				}
			}
		}
		if len(needsItems) > 0 && g.defect("duplicate-needs-entry") {
			// the same job listed twice (one spelling in the base): position of the repeat is random
			d := r.Intn(len(needsItems))
			id := j.needs[d].id
			needsItems[d] = c08N("needs-entry(dup-first)", id)
			at := d + 1 + r.Intn(len(needsItems)-d)
			needsItems = append(needsItems[:at], append([]string{c08N("needs-entry(dup-second)", id)}, needsItems[at:]...)...)
		}
		if g.defect("undefined-needs-entry") {
			needsItems = append(needsItems, c08N("needs-entry", g.name(true)))
		}
		if g.defect("self-needs") {
			j.selfNeeds = true
			idSite = "job-id-def(self-needs)"
			j.needs = append(j.needs, j)
			needsItems = append(needsItems, c08N("needs-entry(self)", j.id))
		}
		w.l(2, c08N(idSite, j.id)+":")
		if len(needsItems) > 0 {
			switch {
			case len(needsItems) == 1 && r.Bool():
				w.l(4, "needs: "+needsItems[0])
			case r.Bool():
				w.l(4, "needs: ["+strings.Join(needsItems, ", ")+"]")
			default:
				w.l(4, "needs:")
				for _, n := range needsItems {
					w.l(6, "- "+n)
				}
			}
		}
		if j.isCall {
			g.callJob(w, wf, j, selfIface)
			continue
		}
		if r.Intn(4) == 0 {
			w.l(4, "name: "+c08Scalar(r, g.text(c08Loc{key: "job-name", wf: wf, job: j})))
		}
		if r.Intn(3) == 0 {
			loc := c08Loc{key: "job-if", wf: wf, job: j, isIf: true}
			if r.Bool() {
				w.l(4, "if: "+c08Scalar(r, g.cond(loc)))
			} else {
				w.l(4, "if: "+c08Scalar(r, "${{ "+g.cond(loc)+" }}"))
			}
		}
		// matrix
		if r.Intn(2) == 0 {
			g.matrix(w, wf, j)
		}
		if j.hasMatrix && len(j.matrixKeys) > 0 && (j.matrixLabelKey != "" && r.Intn(3) > 0 || r.Intn(3) == 0) {
			if k := j.matrixLabelKey; k != "" {
				// the runner-label rule reads this expression itself (text of the scalar) to find the
				// labels in the matrix
				e := "${{ " + c08N("context-name(runs-on)", "matrix") + g.prop("matrix-use(runs-on)", k) + " }}"
				other := "self-hosted"
				if g.defect("matrix-label-conflict") {
					other = "windows-latest"
				}
				switch r.Intn(4) {
				case 0:
					w.l(4, "runs-on: ["+other+", '"+strings.ReplaceAll(e, "'", "''")+"']")
				case 1:
					w.l(4, "runs-on:")
					w.l(6, "- "+other)
					w.l(6, "- "+e)
				default:
					w.l(4, "runs-on: "+e)
				}
			} else {
				w.l(4, "runs-on: ubuntu-latest")
			}
		} else {
			w.l(4, "runs-on: "+r.Pick([]string{"ubuntu-latest", "ubuntu-22.04", "macos-latest", "windows-latest"}))
		}
		if r.Intn(4) == 0 {
			w.l(4, "env:")
			w.l(6, "JOB_VAR: "+c08Scalar(r, g.text(c08Loc{key: "job-env", wf: wf, job: j})))
		}
		// steps
		w.l(4, "steps:")
		ns := r.Range(1, 5)
		for si := 0; si < ns; si++ {
			g.step(w, wf, j)
		}
		if len(j.outputs) > 0 {
			w.l(4, "outputs:")
			for _, o := range j.outputs {
				loc := c08Loc{key: "job-outputs", wf: wf, job: j, nsteps: len(j.steps)}
				w.l(6, c08N("job-output-def", o)+": "+c08Scalar(r, "${{ "+g.atom(loc)+" }}"))
			}
		}
	}
	return w.sb.String(), wf
}

func (g *c08Gen) matrix(w *c08W, wf *c08WF, j *c08Job) {
	r := g.r
	j.hasMatrix = true
	w.l(4, "strategy:")
	if r.Intn(3) == 0 {
		w.l(6, "fail-fast: false")
	}
	w.l(6, "matrix:")
	nrows := r.Range(0, 3)
	var rowKeys []string
	for i := 0; i < nrows; i++ {
		k := g.name(true)
		rowKeys = append(rowKeys, k)
		j.matrixKeys = append(j.matrixKeys, k)
		switch r.Intn(5) {
		case 0: // block sequence
			w.l(8, c08N("matrix-row-key", k)+":")
			w.l(10, "- Alpha")
			w.l(10, "- beta")
			j.matrixSeqRows = append(j.matrixSeqRows, k)
		case 1: // nested objects
			a, b := g.name(true), g.name(true)
			j.matrixNested[k] = []string{a, b}
			w.l(8, c08N("matrix-row-key", k)+":")
			w.l(10, "- {"+c08N("matrix-nested-key", a)+": X1, "+c08N("matrix-nested-key", b)+": 1}")
			w.l(10, "- "+c08N("matrix-nested-key", a)+": Y2")
			w.l(10, "  "+c08N("matrix-nested-key", b)+": 2")
		default:
			v := r.Pick([]string{"[a, B]", "[1, 2, 3]", "[ubuntu-latest, macos-latest]", "['x']", "[true, false]"})
			if v == "[ubuntu-latest, macos-latest]" {
				j.matrixLabelKey = k
				if g.defect("unknown-matrix-label") {
					v = "[ubuntu-latest, No-Such-Label, macos-latest]"
				}
			}
			site := "matrix-row-key"
			if k == j.matrixLabelKey {
				site = "matrix-row-key(label)"
			}
			w.l(8, c08N(site, k)+": "+v)
		}
	}
	if nrows == 0 || r.Intn(3) == 0 {
		w.l(8, "include:")
		for n := r.Range(1, 2); n > 0; n-- {
			var items []string
			if len(rowKeys) > 0 && r.Bool() {
				k := r.Pick(rowKeys)
				if len(j.matrixNested[k]) == 0 && k != j.matrixLabelKey {
					items = append(items, c08N("matrix-include-key", k)+": a")
				} else if k == j.matrixLabelKey {
					v := "ubuntu-22.04"
					if g.defect("unknown-include-label") {
						v = "bogus-Label"
					}
					items = append(items, c08N("matrix-include-key(label)", k)+": "+v)
				}
			}
			for m := r.Range(1, 2); m > 0; m-- {
				k := g.name(true)
				j.matrixKeys = append(j.matrixKeys, k)
				items = append(items, c08N("matrix-include-key", k)+": "+r.Pick([]string{"Extra", "7", "true"}))
			}
			if r.Bool() {
				w.l(10, "- {"+strings.Join(items, ", ")+"}")
			} else {
				for i, it := range items {
					if i == 0 {
						w.l(10, "- "+it)
					} else {
						w.l(10, "  "+it)
					}
				}
			}
		}
	}
	if len(j.matrixSeqRows) > 0 && r.Intn(2) == 0 {
		k := r.Pick(j.matrixSeqRows)
		{
			w.l(8, "exclude:")
			w.l(10, "- "+c08N("matrix-exclude-key", k)+": Alpha")
			if g.defect("undefined-exclude-key") {
				w.l(10, "  "+c08N("matrix-exclude-key", g.name(true))+": Alpha")
			}
		}
	}
}

func (g *c08Gen) step(w *c08W, wf *c08WF, j *c08Job) {
	r := g.r
	st := &c08Step{outKind: "run"}
	loc := c08Loc{key: "step", wf: wf, job: j, nsteps: len(j.steps)}
	first := true
	item := func(s string) {
		if first {
			w.l(6, "- "+s)
			first = false
		} else {
			w.l(8, s)
		}
	}
	hasID := r.Intn(3) > 0
	idFirst := r.Bool()
	if hasID {
		st.id = g.name(true)
		if len(j.steps) > 0 && g.defect("duplicate-step-id") {
			for _, p := range j.steps {
				if p.id != "" {
					st.id = p.id
				}
			}
		}
	}
	if hasID && idFirst {
		item("id: " + c08N("step-id-def", st.id))
	}
	if r.Intn(4) == 0 {
		item("name: " + c08Scalar(r, g.text(loc)))
	}
	if r.Intn(4) == 0 {
		l2 := loc
		l2.key = "step-if"
		l2.isIf = true
		if r.Bool() {
			item("if: " + c08Scalar(r, g.cond(l2)))
		} else {
			item("if: " + c08Scalar(r, "${{ "+g.cond(l2)+" }}"))
		}
	}
	kind := r.Intn(10)
	switch {
	case kind < 4: // run
		l2 := loc
		l2.script = true
		if r.Intn(3) == 0 {
			item("run: |")
			w.l(10, "echo \"${{ "+g.expr(l2)+" }}\"")
			w.l(10, "echo Done ${{ "+g.expr(l2)+" }}")
		} else {
			item("run: " + c08Scalar(r, "echo "+g.text(l2)))
		}
		if r.Intn(4) == 0 {
			item("env:")
			w.l(10, "STEP_VAR: "+c08Scalar(r, g.text(loc)))
		}
	case kind < 7 || len(g.actions) == 0 && kind < 9: // popular action
		spec := r.Pick(c08Popular)
		ins, outs, ok := c08PopularIface(spec)
		if !ok {
			spec = "actions/checkout@v4"
			ins, outs, _ = c08PopularIface(spec)
		}
		st.outKind, st.outs = "popular", outs
		item("uses: " + spec)
		g.with(w, loc, ins, "with-key-popular", "popular")
	case kind < 9 && len(g.actions) > 0: // local action
		a := g.actions[r.Intn(len(g.actions))]
		st.outKind, st.outs = "local", a.outputs
		item("uses: " + a.spec)
		g.with(w, loc, a.inputs, "with-key-local", "local")
	default: // github-script: script is checked for untrusted input through the key "script"
		l2 := loc
		l2.script = true
		st.outKind = "loose"
		item("uses: actions/github-script@v7")
		w.l(8, "with:")
		w.l(10, c08N("with-key-popular", "script")+": "+c08Scalar(r, "console.log(${{ "+g.atom(l2)+" }})"))
		if r.Intn(3) == 0 {
			w.l(10, c08N("with-key-popular", "github-token")+": ${{ "+g.ctx("secrets")+g.prop("property-map", "GITHUB_TOKEN")+" }}")
		}
	}
	if hasID && !idFirst {
		item("id: " + c08N("step-id-def", st.id))
	}
	j.steps = append(j.steps, st)
}

// with writes a with: section for an action with the given interface.
func (g *c08Gen) with(w *c08W, loc c08Loc, ins []c08Input, site, kind string) {
	r := g.r
	type kv struct{ k, v string }
	var items []kv
	simple := true
	for _, in := range ins {
		give := in.required || r.Intn(6) == 0
		if in.required && g.defect("missing-required-"+kind+"-input") {
			give = false
		}
		if !give {
			continue
		}
		v := r.Pick([]string{"Some/Path", "abc", "12", "true"})
		if r.Intn(3) == 0 {
			v = g.text(loc)
			simple = false
		}
		items = append(items, kv{c08N(site, in.name), v})
	}
	if g.defect("undefined-" + kind + "-input") {
		items = append(items, kv{c08N(site, g.name(true)), "x"})
	}
	if len(items) == 0 {
		return
	}
	// shuffle
	p := r.Perm(len(items))
	if simple && r.Intn(3) == 0 {
		var parts []string
		for _, i := range p {
			parts = append(parts, items[i].k+": "+items[i].v)
		}
		w.l(8, "with: {"+strings.Join(parts, ", ")+"}")
		return
	}
	w.l(8, "with:")
	for _, i := range p {
		w.l(10, items[i].k+": "+c08Scalar(r, items[i].v))
	}
}

// callJob writes the body of a job that calls a local reusable workflow.
func (g *c08Gen) callJob(w *c08W, wf *c08WF, j *c08Job, self *c08Callee) {
	r := g.r
	var cal *c08Callee
	switch {
	case self != nil && (len(g.callees) == 0 || r.Intn(2) == 0):
		cal = self
	case len(g.callees) > 0:
		cal = g.callees[r.Intn(len(g.callees))]
	}
	if cal == nil {
		// cannot call anything: an external workflow (nothing is known about its interface)
		w.l(4, "uses: octo-org/some-repo/.github/workflows/ci.yml@v1")
		w.l(4, "with:")
		w.l(6, c08N("call-with-key-external", g.name(true))+": abc")
		return
	}
	j.calleeOuts = cal.outputs
	w.l(4, "uses: "+cal.spec)
	loc := c08Loc{key: "call-with", wf: wf, job: j}
	type kv struct{ k, v string }
	var items []kv
	for _, in := range cal.inputs {
		give := in.required && !in.hasDflt || r.Intn(3) == 0
		if in.required && !in.hasDflt && g.defect("missing-required-call-input") {
			give = false
		}
		if !give {
			continue
		}
		var v string
		switch in.typ {
		case "boolean":
			v = r.Pick([]string{"true", "false"})
		case "number":
			v = r.Pick([]string{"1", "42"})
		default:
			v = r.Pick([]string{"abc", "Some-Text"})
			if r.Intn(3) == 0 {
				v = c08Scalar(r, g.text(loc))
			}
		}
		if g.defect("call-input-type-mismatch") {
			v = r.Pick([]string{"true", "1", "abc"})
		}
		items = append(items, kv{c08N("call-with-key", in.name), v})
	}
	if g.defect("undefined-call-input") {
		items = append(items, kv{c08N("call-with-key", g.name(true)), "x"})
	}
	if len(items) > 0 {
		w.l(4, "with:")
		for _, i := range r.Perm(len(items)) {
			w.l(6, items[i].k+": "+items[i].v)
		}
	}
	if r.Intn(4) == 0 {
		w.l(4, "secrets: inherit")
		return
	}
	loc.key = "call-secrets"
	items = nil
	for _, s := range cal.secrets {
		give := s.required || r.Intn(3) == 0
		if s.required && g.defect("missing-required-call-secret") {
			give = false
		}
		if give {
			items = append(items, kv{c08N("call-secrets-key", s.name), "${{ " + g.ctx("secrets") + g.prop(map[bool]string{true: "secret-use", false: "property-map"}[wf.hasSecretsSec], g.secretRef(wf)) + " }}"})
		}
	}
	if g.defect("undefined-call-secret") {
		items = append(items, kv{c08N("call-secrets-key", g.name(false)), "abc"})
	}
	if len(items) > 0 {
		w.l(4, "secrets:")
		for _, i := range r.Perm(len(items)) {
			w.l(6, items[i].k+": "+items[i].v)
		}
	}
}

func (g *c08Gen) secretRef(wf *c08WF) string {
	if wf.hasSecretsSec {
		if len(wf.callSecrets) > 0 {
			return wf.callSecrets[g.r.Intn(len(wf.callSecrets))].name
		}
		return "GITHUB_TOKEN"
	}
	return g.r.Pick(c08SecretNames)
}

// ---------------------------------------------------------------------------
// local actions

func (g *c08Gen) localAction(idx int) (files map[string]string, a *c08Action) {
	r := g.r
	dir := fmt.Sprintf(".github/actions/act%d", idx)
	a = &c08Action{spec: "./" + dir}
	w := &c08W{}
	w.l(0, fmt.Sprintf("name: Local Action %d", idx))
	w.l(0, "description: Generated Local Action")
	if n := r.Intn(4); n > 0 {
		w.l(0, "inputs:")
		for i := 0; i < n; i++ {
			in := c08Input{name: g.name(true), required: r.Intn(2) == 0}
			in.hasDflt = r.Intn(4) == 0
			w.l(2, c08N("action-input-def", in.name)+":")
			w.l(4, "description: Input Number "+fmt.Sprint(i))
			if in.required {
				w.l(4, "required: true")
			}
			if in.hasDflt {
				w.l(4, "default: Dflt")
				in.required = false
			}
			a.inputs = append(a.inputs, in)
		}
	}
	if n := r.Intn(3); n > 0 {
		w.l(0, "outputs:")
		for i := 0; i < n; i++ {
			o := g.name(true)
			a.outputs = append(a.outputs, o)
			w.l(2, c08N("action-output-def", o)+":")
			w.l(4, "description: Output Number "+fmt.Sprint(i))
			if r.Bool() {
				w.l(4, "value: Fixed")
			}
		}
	}
	files = map[string]string{}
	w.l(0, "runs:")
	if r.Intn(3) == 0 {
		w.l(2, "using: node20")
		w.l(2, "main: index.js")
		files[dir+"/index.js"] = "console.log('hi')\n"
	} else {
		w.l(2, "using: composite")
		w.l(2, "steps:")
		w.l(4, "- run: echo Hello")
		w.l(4, "  shell: bash")
	}
	files[dir+"/"+r.Pick([]string{"action.yml", "action.yaml"})] = w.sb.String()
	return files, a
}
