package main

// C15 generators: scratch projects (workflows carrying diagnostics of many kinds), filter sets
// (-ignore patterns, `paths` globs with ignore lists) and invocations (cwd x path spelling).

import (
	"fmt"
	"regexp"
	"sort"
	"strings"
)

// ---------------------------------------------------------------------------
// project

type c15File struct {
	Rel string // slash path relative to the repository root
	Src string
	// LinkTo != "": the file is a symbolic link. Either the root-relative path of another workflow
	// of the project or "@outside/<name>", a file in <scratch>/store-files. Src is the target's content.
	LinkTo string
}

type c15Project struct {
	Name    string // directory name of the repository
	Files   []c15File
	BaseCfg string // configuration content without `paths` ("" = none)

	// Layout: how the repository is marked and where it lives.
	//  0: <scratch>/<Name> with a .git DIRECTORY (ordinary clone)
	//  1: <scratch>/<Name> whose .git is a regular FILE `gitdir: ...` (linked worktree)
	//  2: <scratch>/<OuterName>/vendor/<Name> whose .git is a FILE (submodule) inside an ordinary outer clone
	//  3: as 2 but the inner repository has a .git directory (nested clone)
	// The outer clone has its own workflow and its own, different configuration.
	Layout int
	// DirLink: 0 none; 1: <root>/.github is a symbolic link to <scratch>/store-github;
	// 2: <root>/.github/workflows is a symbolic link to <scratch>/store-workflows
	DirLink      int
	OuterName    string
	OuterCfg     string     // content of <outer>/.github/actionlint.yaml ("" = none)
	OuterEntries []c15Entry // the `paths` entries in OuterCfg (nil when OuterCfg is broken or absent)
	OuterBroken  bool       // OuterCfg is not a valid configuration; it must never be read
}

var c15LayoutNames = []string{"git-dir", "git-file-standalone", "git-file-nested-in-outer-clone", "git-dir-nested-in-outer-clone"}

func (p *c15Project) nested() bool { return p.Layout >= 2 }

// relRoot is the repository root relative to the scratch directory.
func (p *c15Project) relRoot() string {
	if p.nested() {
		return p.OuterName + "/vendor/" + p.Name
	}
	return p.Name
}

var c15ProjNames = []string{"proj", "my-repo", "r", "Repo.x", "my repo", "workflows", "a.yml"}

var c15TopNames = []string{"a.yml", "b.yml", "ci.yml", "release.yaml", "test.yaml", "z-last.yml", "A.yml"}
var c15SubDirs = []string{"sub", "sub/deep", "nested", "sub.d"}
var c15SubNames = []string{"a.yml", "b.yml", "c.yml", "inner.yaml", "x.yml"}

func c15Ident(r *Rand) string {
	const cs = "abcdefghijklmnopqrstuvwxyz"
	n := r.Range(2, 5)
	b := make([]byte, n)
	for i := range b {
		b[i] = cs[r.Intn(len(cs))]
	}
	if r.Chance(1, 3) {
		return string(b) + fmt.Sprint(r.Intn(100))
	}
	return string(b)
}

// c15Step returns the lines (indented for a step list at 6 spaces) of one step that carries at
// least one diagnostic (or none for the clean variant).
func c15Step(r *Rand, kind int) []string {
	id := c15Ident(r)
	switch kind {
	case 0:
		return []string{"- run: echo ${{ github.event." + r.Pick([]string{"pull_request.title", "issue.title", "pull_request.head.ref", "head_commit.message"}) + " }}"}
	case 1:
		return []string{"- uses: " + r.Pick([]string{"actions/checkout@v2", "actions/setup-node@v1", "actions/cache@v1", "actions/upload-artifact@v2"})}
	case 2:
		return []string{"- run: echo ${{ " + id + ".bar }}"}
	case 3:
		return []string{"- run: echo", "  shell: " + id + "sh"}
	case 4:
		return []string{"- run: echo \"::" + r.Pick([]string{"set-output name=" + id, "save-state name=" + id, "set-env name=" + id}) + "::1\""}
	case 5:
		return []string{"- uses: actions/checkout@v4", "  with:", "    " + id + ": 1"}
	case 6:
		return []string{"- run: echo ${{ 1 + }}"}
	case 7:
		return []string{"- run: echo", "  if: ${{ true }} && " + id}
	case 8:
		return []string{"- run: echo ${{ steps." + id + ".outputs.x }}"}
	case 9:
		return []string{"- uses: " + id}
	case 10:
		return []string{"- run: echo ${{ matrix." + id + " }}"}
	case 11:
		return []string{"- run: echo ${{ toJSON() }}"}
	case 12:
		return []string{"- run: echo", "  " + id + "_key: 1"}
	case 13:
		return []string{"- run: echo ${{ github." + id + " }}"}
	case 14, 15:
		// several diagnostics at ONE position: required inputs of a popular action are missing (the
		// pool is what the unchanged tree reports for actions with two or more required inputs)
		act := r.Pick(c15MultiRequired)
		if r.Chance(1, 3) {
			return []string{"- uses: " + act, "  with:", "    " + id + ": 1"}
		}
		return []string{"- uses: " + act}
	}
	return []string{"- run: echo ok " + id}
}

const c15StepKinds = 16

// c15MultiRequired: popular actions with two or more required inputs; `uses:` without `with:` yields
// one "missing input" diagnostic per input, all at the position of the action name.
var c15MultiRequired = []string{
	"actions/cache@v4", "actions/cache/restore@v4", "actions/cache/save@v4", "actions/add-to-project@v1.0.1", "actions/delete-package-versions@v5",
	"azure/aks-set-context@v4", "dawidd6/action-send-mail@v1", "dawidd6/action-send-mail@v3", "google-github-actions/upload-cloud-storage@v2", "ReactiveCircus/android-emulator-runner@v2",
}

func c15Workflow(r *Rand, clean bool) string {
	var b strings.Builder
	if r.Bool() {
		b.WriteString("name: wf " + c15Ident(r) + "\n")
	}
	if !clean && r.Chance(1, 5) {
		b.WriteString("on: [push, bogus_" + c15Ident(r) + "]\n")
	} else {
		b.WriteString("on: push\n")
	}
	if !clean && r.Chance(1, 8) {
		b.WriteString("permissions:\n  " + c15Ident(r) + ": read\n")
	}
	b.WriteString("jobs:\n")
	if !clean && r.Chance(1, 6) {
		// a job without runs-on and steps: two diagnostics at the position of the job id
		b.WriteString("  bare" + c15Ident(r) + ":\n    name: " + c15Ident(r) + "\n")
	}
	nj := r.Range(1, 3)
	for j := 0; j < nj; j++ {
		job := fmt.Sprintf("job%d", j)
		b.WriteString("  " + job + ":\n")
		if !clean && r.Chance(1, 3) {
			b.WriteString("    runs-on: " + r.Pick([]string{"linux-" + c15Ident(r), "ubuntu-lates", "c15-selfhosted"}) + "\n")
		} else {
			b.WriteString("    runs-on: ubuntu-latest\n")
		}
		if !clean {
			if r.Chance(1, 6) {
				b.WriteString("    needs: [ghost_" + c15Ident(r) + "]\n")
			}
			if r.Chance(1, 8) {
				b.WriteString("    " + c15Ident(r) + "_section: 1\n")
			}
			if r.Chance(1, 8) {
				b.WriteString("    timeout-minutes: ${{ " + c15Ident(r) + ".x }}\n")
			}
			if r.Chance(1, 8) {
				b.WriteString("    env:\n      'BAD " + strings.ToUpper(c15Ident(r)) + "': x\n")
			}
			if r.Chance(1, 10) {
				b.WriteString("    permissions:\n      " + c15Ident(r) + ": write\n")
			}
		}
		b.WriteString("    steps:\n")
		ns := r.Range(1, 4)
		dupID := !clean && r.Chance(1, 8)
		for s := 0; s < ns; s++ {
			var lines []string
			if clean || r.Chance(1, 4) {
				lines = c15Step(r, -1)
			} else {
				lines = c15Step(r, r.Intn(c15StepKinds))
			}
			for _, l := range lines {
				b.WriteString("      " + l + "\n")
			}
			if dupID {
				b.WriteString("        id: same\n")
			}
		}
	}
	return b.String()
}

func c15GenProject(r *Rand) *c15Project {
	p := &c15Project{Name: r.Pick(c15ProjNames)}
	used := map[string]bool{}
	add := func(rel string, src string) {
		if used[rel] {
			return
		}
		used[rel] = true
		p.Files = append(p.Files, c15File{Rel: rel, Src: src})
	}
	nTop := r.Range(1, 3)
	for i := 0; i < nTop; i++ {
		add(".github/workflows/"+r.Pick(c15TopNames), c15Workflow(r, r.Chance(1, 8)))
	}
	nSub := r.Range(1, 3)
	for i := 0; i < nSub; i++ {
		add(".github/workflows/"+r.Pick(c15SubDirs)+"/"+r.Pick(c15SubNames), c15Workflow(r, r.Chance(1, 8)))
	}
	if r.Chance(1, 6) {
		// neither `on` nor `jobs`: two diagnostics at 1:1 (plus an unexpected key there)
		add(".github/workflows/"+r.Pick([]string{"noon.yml", "sub/noon.yaml"}), r.Pick([]string{"foo_" + c15Ident(r) + ": bar\n", "name: only a name\n", "env:\n  A: b\n"}))
	}
	if r.Chance(1, 10) {
		// a file that is not YAML at all: one parse error, goes through the same filter
		add(".github/workflows/broken.yml", "on: push\njobs:\n  a: [\n")
	}
	if r.Chance(2, 5) {
		// names with characters that are special in globs, YAML or shells
		add(".github/workflows/"+r.Pick(c15OddNames), c15Workflow(r, false))
	}
	if r.Chance(1, 4) {
		// a workflow that is a symbolic link, to another workflow of the repository or to a file outside
		name := ".github/workflows/" + r.Pick([]string{"", "sub/"}) + "lnk-" + c15Ident(r) + r.Pick([]string{".yml", ".yaml"})
		if r.Bool() {
			t := p.Files[r.Intn(len(p.Files))]
			if t.LinkTo == "" && !used[name] {
				used[name] = true
				p.Files = append(p.Files, c15File{Rel: name, Src: t.Src, LinkTo: t.Rel})
			}
		} else if !used[name] {
			used[name] = true
			p.Files = append(p.Files, c15File{Rel: name, Src: c15Workflow(r, false), LinkTo: "@outside/target-" + c15Ident(r) + ".yml"})
		}
	}
	switch r.Intn(10) {
	case 0:
		p.DirLink = 1
	case 1:
		p.DirLink = 2
	}
	// the order in which `actionlint` (no arguments) lists them: sorted full paths
	sort.Slice(p.Files, func(i, j int) bool { return p.Files[i].Rel < p.Files[j].Rel })
	switch r.Intn(4) {
	case 0:
		p.BaseCfg = "self-hosted-runner:\n  labels:\n    - c15-selfhosted\n"
	case 1:
		p.BaseCfg = "config-variables: null\nself-hosted-runner:\n  labels: []\n"
	}
	switch x := r.Intn(20); {
	case x < 11:
		p.Layout = 0
	case x < 15:
		p.Layout = 1
	case x < 19:
		p.Layout = 2
	default:
		p.Layout = 3
	}
	if p.nested() {
		p.OuterName = r.Pick([]string{"outer", "mono-repo", "Outer.clone"})
		switch x := r.Intn(6); {
		case x == 0:
			// no configuration in the outer clone
		case x == 1:
			p.OuterBroken = true
			p.OuterCfg = r.Pick([]string{"paths: {\n", "paths:\n  '**':\n    ignore:\n      - '('\n", "paths:\n  '[':\n    ignore: []\n"})
		default:
			n := r.Range(1, 2)
			seen := map[string]bool{}
			for i := 0; i < n; i++ {
				g := r.Pick([]string{"**", "vendor/**", "**/*.{yml,yaml}", "**/.github/workflows/**", "vendor/" + p.Name + "/.github/workflows/*.yml", "vendor/*/.github/**"})
				if seen[g] {
					continue
				}
				seen[g] = true
				pat := r.Pick(c15StaticAll)
				if r.Chance(1, 3) {
					pat = r.Pick(c15StaticSome)
				}
				p.OuterEntries = append(p.OuterEntries, c15Entry{Glob: g, Pats: []string{pat}})
			}
			p.OuterCfg = c15Config(&c15Project{}, &c15Filter{Entries: p.OuterEntries})
			if r.Bool() {
				p.OuterCfg = "self-hosted-runner:\n  labels: [outer-only-label]\n" + p.OuterCfg
			}
		}
	}
	return p
}

// ---------------------------------------------------------------------------
// filters

type c15Entry struct {
	Glob string
	Pats []string
	Form int // 0: ignore list, 1: `ignore: []`, 2: `{}` (no ignore key), 3: null value, 4: `ignore: *alias` of the list of entry SeqOf
	// AliasNames[i] != "": pattern i is written as the alias *name of a scalar anchored in a
	// separate top-level list; it stands for the pattern, not for its own name
	AliasNames []string
	SeqOf      int
	// Via (Form 4): how the list of entry SeqOf is reused. 0: `ignore: *seq`; 1: block mapping with a
	// merge key `<<: *entry`; 2: the whole entry is an alias `*entry`; 3: flow mapping `{<<: *entry}`
	Via int
}

var c15AnchorNames = []string{"zzz9", "e", "a", "is", "c15pat", "o", "qqq", "the"}

type c15Filter struct {
	Kind    string
	CLI     []string
	Entries []c15Entry
	CfgMode int // 0: .github/actionlint.yaml, 1: .github/actionlint.yml, 2: -config-file <file outside the repository>
}

var c15StaticNone = []string{`^$`, `zzz-no-such-text`, `\bnomatchword\b`, `^runner-label$`, `^expression$`, `^action$`, `\[expression\]$`, `^\.github/`, `\.ya?ml:\d+:\d+`, `^syntax-check`, `\n`}
var c15StaticAll = []string{`.`, `.*`, `^`, `$`, ``, `[a-z]`, `(?s).+`, `\w+`}
var c15StaticSome = []string{
	`label ".+" is unknown`, `".+" is potentially untrusted`, `undefined variable`, `(?i)UNDEFINED`, `\d`, `[A-Z]`,
	`is (unknown|too old)`, `^.{0,90}$`, `^.{120,}$`, `^[^"]*$`, `^"`, `action`, `expression`, `workflow`, `available`,
	`^the runner of`, `not defined`, `deprecated`, `unexpected key`, `(?i)^(label|property)\b`, `\bjob\d\b`, `v[12]"`, `\.$`, `[^.]$`,
	`shell name`, `input "[a-z0-9]+" is not defined`, `could not parse`, `ghost_[a-z]+`, `bogus_`, `same`, `if: condition`, `set-output|save-state`,
}

func c15Words(msg string) []string {
	fs := strings.Fields(msg)
	var out []string
	for _, f := range fs {
		if len(f) >= 2 {
			out = append(out, f)
		}
	}
	return out
}

var c15QuotedRe = regexp.MustCompile(`"[^"]+"`)

// c15PatFrom derives a pattern from one message of the baseline.
func c15PatFrom(r *Rand, msgs []string) (string, string) {
	if len(msgs) == 0 {
		return r.Pick(c15StaticSome), "static-some"
	}
	msg := msgs[r.Intn(len(msgs))]
	ws := c15Words(msg)
	switch r.Intn(9) {
	case 0:
		if len(ws) > 0 {
			return regexp.QuoteMeta(r.Pick(ws)), "word"
		}
	case 1:
		if q := c15QuotedRe.FindAllString(msg, -1); len(q) > 0 {
			return regexp.QuoteMeta(r.Pick(q)), "quoted-token"
		}
	case 2:
		k := r.Range(1, len(msg))
		return "^" + regexp.QuoteMeta(msg[:k]), "anchored-prefix"
	case 3:
		k := r.Range(1, len(msg))
		return regexp.QuoteMeta(msg[len(msg)-k:]) + "$", "anchored-suffix"
	case 4:
		return "^" + regexp.QuoteMeta(msg) + "$", "anchored-full"
	case 5:
		if len(ws) >= 2 {
			return regexp.QuoteMeta(ws[0]) + ".*" + regexp.QuoteMeta(ws[len(ws)-1]), "first-dotstar-last"
		}
	case 6:
		if len(ws) > 0 {
			return "(?i)" + regexp.QuoteMeta(strings.ToUpper(r.Pick(ws))), "case-insensitive"
		}
	case 7:
		m2 := msgs[r.Intn(len(msgs))]
		w2 := c15Words(m2)
		if len(ws) > 0 && len(w2) > 0 {
			return "(" + regexp.QuoteMeta(r.Pick(ws)) + "|" + regexp.QuoteMeta(r.Pick(w2)) + ")", "alternation"
		}
	case 8:
		a := r.Intn(len(msg))
		e := a + r.Range(1, 12)
		if e > len(msg) {
			e = len(msg)
		}
		return regexp.QuoteMeta(msg[a:e]), "substring"
	}
	return regexp.QuoteMeta(msg), "whole-message"
}

// c15FlipCase changes the letter case of a word so that it matches the original only
// case-insensitively ("" when the word has no ASCII letter).
func c15FlipCase(w string) string {
	up := strings.ToUpper(w)
	if up != w {
		return up
	}
	lo := strings.ToLower(w)
	if lo != w {
		return lo
	}
	return ""
}

// c15GenPatSet builds a LIST of patterns whose members interact when an implementation does not
// treat them one by one (joined into one alternation, only the first / last used, flags shared):
// inline flags in a non-last pattern followed by a pattern that matches a message only under that
// flag, scoped flag groups, anchors in every pattern, alternations inside a pattern, patterns with
// an empty alternative, empty patterns, equal group names in two patterns. The reference stays:
// compile each pattern alone; a diagnostic is dropped iff some applicable pattern matches.
func c15GenPatSet(c *Case, msgs []string) []string {
	r := c.R
	none := r.Pick([]string{"zzz-no-such-text", "nomatchword", "qqq[0-9]{3}qqq"})
	none2 := r.Pick([]string{"yyy-neither", "^###", "@@@$"})
	word, msg := "", ""
	for try := 0; try < 8 && len(msgs) > 0 && word == ""; try++ {
		msg = msgs[r.Intn(len(msgs))]
		if ws := c15Words(msg); len(ws) > 0 {
			w := r.Pick(ws)
			if c15FlipCase(w) != "" {
				word = w
			}
		}
	}
	if word == "" {
		word, msg = "label", "label is unknown"
	}
	flipped := regexp.QuoteMeta(c15FlipCase(word))
	flippedFull := "^" + regexp.QuoteMeta(c15FlipCase(msg)) + "$"
	var set []string
	class := ""
	switch r.Intn(14) {
	case 0:
		set, class = []string{"(?i)" + none, flipped}, "set-flag-i-then-case-flipped"
	case 1:
		set, class = []string{"(?i)" + none, none2, flipped}, "set-flag-i-then-two"
	case 2:
		set, class = []string{"(?i:" + none + ")", flipped}, "set-scoped-flag-group"
	case 3:
		set, class = []string{flipped, "(?i)" + none}, "set-flag-in-last"
	case 4:
		set, class = []string{"(?i)^" + none + "$", flippedFull}, "set-anchored-each"
	case 5:
		set, class = []string{none2 + "|(?i)" + none, flipped}, "set-flag-inside-alternation"
	case 6:
		set, class = []string{"(?s)" + none, "(?U)" + none2 + "+", "(?m)^" + none + "$", regexp.QuoteMeta(word) + ".+?$"}, "set-flags-s-U-m"
	case 7:
		set, class = []string{r.Pick([]string{"|" + none, none + "|", none + "||" + none2}), flipped}, "set-empty-alternative"
	case 8:
		set, class = []string{none, "", flipped}, "set-empty-pattern"
	case 9:
		set, class = []string{"(?P<w>" + none + ")", "(?P<w>" + regexp.QuoteMeta(word) + ")"}, "set-equal-group-names"
	case 10:
		set, class = []string{"(?i)" + regexp.QuoteMeta(word), "(?-i)" + flipped}, "set-flag-reset"
	case 11:
		set, class = []string{none, "(?i)" + none2, flipped, none}, "set-flag-in-the-middle"
	case 12:
		set, class = []string{"^" + regexp.QuoteMeta(word) + "|" + regexp.QuoteMeta(word) + "$", "^(?i)" + none, "^" + flipped, flipped + "$"}, "set-alternation-with-anchors"
	case 13:
		set, class = []string{"(?i)(?-i)" + none, "(?i)" + none + "(?-i)", flipped, "(?i:" + none + ")|" + flipped}, "set-flag-switched-off-again"
	}
	for _, p := range set {
		if _, err := regexp.Compile(p); err != nil || strings.ContainsAny(p, "\r\n") {
			return []string{c15GenPat(c, msgs), c15GenPat(c, msgs)}
		}
	}
	c.SetAdd("pattern_set_classes", class)
	return set
}

func c15GenPat(c *Case, msgs []string) string {
	r := c.R
	var p, class string
	switch x := r.Intn(10); {
	case x == 0:
		p, class = r.Pick(c15StaticNone), "static-none"
	case x == 1:
		p, class = r.Pick(c15StaticAll), "static-all"
	case x <= 4:
		p, class = r.Pick(c15StaticSome), "static-some"
	default:
		p, class = c15PatFrom(r, msgs)
	}
	if _, err := regexp.Compile(p); err != nil || strings.ContainsAny(p, "\r\n") {
		// cut a multi-byte rune or similar: fall back to something valid
		p, class = r.Pick(c15StaticSome), "static-some"
	}
	c.SetAdd("pattern_classes", class)
	return p
}

// c15GenGlob picks a glob for a `paths` key; about half of them are derived from the project files.
func c15GenGlob(r *Rand, p *c15Project) string {
	f := p.Files[r.Intn(len(p.Files))].Rel
	base := f[strings.LastIndex(f, "/")+1:]
	dir := f[:strings.LastIndex(f, "/")]
	inWf := strings.TrimPrefix(f, ".github/workflows/")
	switch r.Intn(22) {
	case 0:
		return ".github/workflows/**/*.yml"
	case 1:
		return ".github/workflows/*.yml"
	case 2:
		return ".github/workflows/**/*.{yml,yaml}"
	case 3:
		return "**/" + base
	case 4:
		return dir + "/*"
	case 5:
		return f
	case 6:
		return "**"
	case 7:
		return "**/*.yaml"
	case 8:
		return ".github/workflows/sub/**"
	case 9:
		return ".github/workflows/*/*.yml"
	// globs that match nothing relative to the repository root (some of them match a path relative
	// to another directory)
	case 10:
		return "*.yml"
	case 11:
		return inWf
	case 12:
		return p.Name + "/.github/workflows/**"
	case 13:
		return "nomatch/**"
	case 14:
		return ".github/workflows/zzz*.yml"
	case 15:
		return "./" + f
	case 16:
		return "../**"
	case 17:
		return "sub/*.yml"
	case 18:
		return ".github/workflows/?.yml"
	case 19:
		return ".github/workflows/[ab].y{,a}ml"
	case 20:
		return "workflows/**"
	}
	return "**/*.yml"
}

func c15GenFilter(c *Case, p *c15Project, kind string, msgs []string) *c15Filter {
	r := c.R
	f := &c15Filter{Kind: kind, CfgMode: r.Intn(3)}
	if r.Chance(1, 2) {
		f.CfgMode = 0
	}
	nCLI, nEnt := 0, 0
	switch kind {
	case "none":
	case "cli":
		nCLI = r.Range(1, 3)
	case "config":
		nEnt = r.Range(1, 3)
	case "both":
		nCLI = r.Range(1, 2)
		nEnt = r.Range(1, 3)
	case "glob":
		// one or two entries, each built around one construct of the glob syntax (rotating over the
		// constructs with the case index so that every one is exercised), mostly with an
		// ignore-everything pattern so that the glob alone decides
		for i := 0; i < 2; i++ {
			g := c15GenGlobConstruct(r, p, (c.Idx*2+i)%14)
			if !c15ValidGlob(g) {
				g = c15GenGlobConstruct(r, p, 7)
			}
			dup := false
			for _, e := range f.Entries {
				dup = dup || e.Glob == g
			}
			if dup || !c15ValidGlob(g) {
				continue
			}
			pat := r.Pick([]string{".", "", "^"})
			if r.Chance(2, 5) {
				pat = c15GenPat(c, msgs)
			}
			f.Entries = append(f.Entries, c15Entry{Glob: g, Pats: []string{pat}})
		}
	case "all":
		// everything is filtered, by one mechanism or the other
		if r.Bool() {
			f.CLI = append(f.CLI, r.Pick(c15StaticAll))
			nEnt = r.Intn(2)
		} else {
			f.Entries = append(f.Entries, c15Entry{Glob: r.Pick([]string{"**", ".github/workflows/**", "**/*.{yml,yaml}", ".github/**/*ml"}), Pats: []string{r.Pick(c15StaticAll)}})
			nCLI = r.Intn(2)
		}
	}
	if nCLI > 0 && r.Chance(1, 4) {
		f.CLI = append(f.CLI, c15GenPatSet(c, msgs)...)
		nCLI = 0
	}
	for i := 0; i < nCLI; i++ {
		f.CLI = append(f.CLI, c15GenPat(c, msgs))
	}
	seen := map[string]bool{}
	for _, e := range f.Entries {
		seen[e.Glob] = true
	}
	for i := 0; i < nEnt; i++ {
		g := c15GenGlob(r, p)
		if r.Bool() {
			g = c15GenGlobConstruct(r, p, -1)
		}
		if seen[g] {
			continue // a duplicate mapping key would be a broken configuration file
		}
		seen[g] = true
		e := c15Entry{Glob: g}
		if r.Chance(1, 12) {
			e.Form = r.Range(1, 3)
		} else if r.Chance(1, 3) {
			e.Pats = c15GenPatSet(c, msgs)
		} else {
			for k := r.Range(1, 3); k > 0; k-- {
				e.Pats = append(e.Pats, c15GenPat(c, msgs))
			}
		}
		if e.Form == 0 && r.Chance(1, 12) {
			// some elements are YAML aliases
			e.AliasNames = make([]string, len(e.Pats))
			for k := range e.Pats {
				if k == 0 || r.Bool() {
					e.AliasNames[k] = r.Pick(c15AnchorNames) + fmt.Sprint(len(f.Entries)) + fmt.Sprint(k)
					if r.Bool() {
						e.AliasNames[k] = r.Pick([]string{"e", "a", "o", "i"}) // an anchor name that is a pattern matching most messages
					}
				}
			}
			// anchor names must be unique in the document
			names := map[string]bool{}
			for _, pe := range f.Entries {
				for _, n := range pe.AliasNames {
					names[n] = true
				}
			}
			for k, n := range e.AliasNames {
				if n != "" && names[n] {
					e.AliasNames[k] = n + "x" + fmt.Sprint(len(f.Entries)) + fmt.Sprint(k)
				}
				names[e.AliasNames[k]] = true
			}
		} else if e.Form == 0 && r.Chance(1, 12) {
			// the whole list is an alias of the list of an earlier entry
			for k, pe := range f.Entries {
				if pe.Form == 0 && len(pe.Pats) > 0 {
					e.Form, e.SeqOf, e.Pats = 4, k, pe.Pats
					e.Via = r.Intn(4)
					break
				}
			}
		}
		f.Entries = append(f.Entries, e)
	}
	return f
}

func c15YAMLStr(s string) string { return "'" + strings.ReplaceAll(s, "'", "''") + "'" }

// c15Config renders the configuration file of a filter on top of the project's base configuration;
// "" means that no file is needed.
func c15Config(p *c15Project, f *c15Filter) string {
	if len(f.Entries) == 0 {
		return p.BaseCfg
	}
	var b strings.Builder
	b.WriteString(p.BaseCfg)
	anch := false
	seqTarget := map[int]bool{}
	entTarget := map[int]bool{}
	for _, e := range f.Entries {
		for i, n := range e.AliasNames {
			if n != "" {
				if !anch {
					b.WriteString("c15-anchors:\n")
					anch = true
				}
				b.WriteString("  - &" + n + " " + c15YAMLStr(e.Pats[i]) + "\n")
			}
		}
		if e.Form == 4 {
			if e.Via == 0 {
				seqTarget[e.SeqOf] = true
			} else {
				entTarget[e.SeqOf] = true
			}
		}
	}
	b.WriteString("paths:\n")
	for ei, e := range f.Entries {
		k := "  " + c15YAMLStr(e.Glob) + ":"
		if entTarget[ei] {
			k += " &c15ent" + fmt.Sprint(ei)
		}
		switch e.Form {
		case 4:
			switch e.Via {
			case 1:
				b.WriteString(k + "\n    <<: *c15ent" + fmt.Sprint(e.SeqOf) + "\n")
			case 2:
				b.WriteString(k + " *c15ent" + fmt.Sprint(e.SeqOf) + "\n")
			case 3:
				b.WriteString(k + " {<<: *c15ent" + fmt.Sprint(e.SeqOf) + "}\n")
			default:
				b.WriteString(k + "\n    ignore: *c15seq" + fmt.Sprint(e.SeqOf) + "\n")
			}
		case 1:
			b.WriteString(k + "\n    ignore: []\n")
		case 2:
			b.WriteString(k + " {}\n")
		case 3:
			b.WriteString(k + "\n")
		default:
			if seqTarget[ei] {
				b.WriteString(k + "\n    ignore: &c15seq" + fmt.Sprint(ei) + "\n")
			} else {
				b.WriteString(k + "\n    ignore:\n")
			}
			for i, pat := range e.Pats {
				if e.AliasNames != nil && e.AliasNames[i] != "" {
					b.WriteString("      - *" + e.AliasNames[i] + "\n")
				} else {
					b.WriteString("      - " + c15YAMLStr(pat) + "\n")
				}
			}
		}
	}
	return b.String()
}

// ---------------------------------------------------------------------------
// invocations

const (
	c15CwdRoot = iota
	c15CwdParent
	c15CwdNested
	c15CwdWorkflows
	c15CwdUnrelated
	c15CwdDotGithub
	c15CwdOuterRoot // root of the enclosing outer clone (nested layouts only)
	c15NCwd
)

var c15CwdNames = []string{"root", "parent", "nested", "workflows-dir", "unrelated", "dot-github", "outer-root"}

const (
	c15SpRel = iota
	c15SpDot
	c15SpAbs
	c15SpUnclean
	c15SpNoArgs // no file arguments: the repository is found from the cwd
	c15NSp
)

var c15SpNames = []string{"relative", "dot-slash", "absolute", "unclean-relative", "no-arguments"}

type c15Inv struct {
	Cwd int
	Sp  int
	// Reach: 0 the repository directory itself; 1 through <scratch>/lnk-repo, a symbolic link to the
	// repository root; 2 through <scratch>/lnk-parent, a symbolic link to the root's parent directory
	Reach int
	// Stdin: 0 file arguments; the workflow (Files[0]) is piped into `actionlint -` with
	// 1: -stdin-filename naming an existing file of the repository (file StdinName), 2: naming an
	// existing file outside any repository, 3: naming a file that does not exist, 4: no -stdin-filename
	Stdin     int
	StdinName int
	Files     []int // indices into the project's file list, in command line order (nil for no-arguments)
	Mixed     bool  // each file spelled differently
	Format    int   // 0: -format '{{json .}}', 1: -oneline
}

// c15AllPairs lists the (cwd, spelling) pairs that make sense.
func c15AllPairs(nested bool) [][2]int {
	var out [][2]int
	for cw := 0; cw < c15NCwd; cw++ {
		if cw == c15CwdOuterRoot && !nested {
			continue
		}
		for sp := 0; sp < c15NSp; sp++ {
			if sp == c15SpNoArgs && (cw == c15CwdParent || cw == c15CwdUnrelated || cw == c15CwdOuterRoot) {
				// no repository there (fatal error, see the fatal family), or (nested layouts) the
				// outer clone, whose own workflows are not the subject
				continue
			}
			out = append(out, [2]int{cw, sp})
		}
	}
	return out
}
