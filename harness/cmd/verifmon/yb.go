package main

import (
	"fmt"
	"strings"
)

// YB is a text builder that knows the line and column of its write cursor, so a generator can
// record the exact source position of every token it emits.
type YB struct {
	sb   strings.Builder
	line int
	col  int
}

type Pos struct {
	Line int `json:"line"`
	Col  int `json:"col"`
}

func NewYB() *YB { return &YB{line: 1, col: 1} }

// W writes s and returns the position of its first character.
func (b *YB) W(s string) Pos {
	p := Pos{b.line, b.col}
	b.sb.WriteString(s)
	for i := 0; i < len(s); i++ {
		if s[i] == '\n' {
			b.line++
			b.col = 1
		} else {
			b.col++
		}
	}
	return p
}

func (b *YB) F(format string, args ...interface{}) Pos { return b.W(fmt.Sprintf(format, args...)) }

// L writes indent spaces, s and a line break; returns the position of s.
func (b *YB) L(indent int, s string) Pos {
	b.W(strings.Repeat(" ", indent))
	p := b.W(s)
	b.W("\n")
	return p
}

func (b *YB) Lf(indent int, format string, args ...interface{}) Pos {
	return b.L(indent, fmt.Sprintf(format, args...))
}

func (b *YB) Pos() Pos       { return Pos{b.line, b.col} }
func (b *YB) String() string { return b.sb.String() }
func (b *YB) Lines() int     { return b.line - 1 }
