package main

// C05: seeded workflow-model generator, reference picker and YAML renderer.

import (
	"fmt"
	"strings"
)

var c05JobPool = []string{"build", "test", "deploy", "lint", "setup", "pack", "release", "e2e", "docs_gen", "pre-check"}
var c05StepPool = []string{"checkout", "cache", "vars", "meta", "build", "s1", "get-ver", "prep"}
var c05OutPool = []string{"version", "sha", "matrix", "url", "flag", "result", "art-name", "include", "exclude"}
var c05KeyPool = []string{"os", "node", "target", "cfg", "exp", "ver", "flags"}
var c05PropPool = []string{"name", "arch", "img", "tag", "opt"}
var c05InputPool = []string{"env", "debug", "ref", "version", "count", "dry-run", "target", "include", "exclude"}
var c05SecretPool = []string{"token", "npm_token", "deploy_key", "pass", "api-key"}
var c05ScalarPool = []string{"ubuntu", "windows", "mac", "14", "16", "18", "true", "false", "x64", "arm64", "1.2", "stable"}

func c05Case(r *Rand, s string) string {
	switch r.Intn(10) {
	case 0, 1, 2:
		return strings.ToLower(s)
	case 3, 4:
		return strings.ToUpper(s)
	case 5, 6, 7:
		b := []byte(s)
		for i := range b {
			if r.Bool() {
				b[i] = strings.ToUpper(string(b[i]))[0]
			} else {
				b[i] = strings.ToLower(string(b[i]))[0]
			}
		}
		return string(b)
	}
	return s
}

func c05Distinct(r *Rand, pool []string, n int) []string {
	if n > len(pool) {
		n = len(pool)
	}
	p := r.Perm(len(pool))
	out := make([]string, n)
	for i := 0; i < n; i++ {
		out[i] = pool[p[i]]
	}
	return out
}

func c05Has(xs []string, s string) bool {
	for _, x := range xs {
		if c05Eq(x, s) {
			return true
		}
	}
	return false
}

func c05Bogus(r *Rand, base []string, pool []string) string {
	src := base
	if len(src) == 0 || r.Chance(1, 4) {
		src = pool
	}
	n := src[r.Intn(len(src))]
	switch r.Intn(6) {
	case 0:
		return n + "x"
	case 1:
		return n + "_"
	case 2:
		if len(n) > 2 {
			return n[:len(n)-1]
		}
		return n + "0"
	case 3:
		return "x" + n
	case 4:
		return "nope"
	}
	return n + "2"
}

// ---------------------------------------------------------------------------
// model generation

func c05GenModel(r *Rand, prof string) *c05Model {
	m := &c05Model{}
	mode := r.Intn(10)
	if prof == "events" && mode == 0 {
		mode = 6
	}
	switch {
	case mode == 0:
		m.Push = true
	case mode <= 2:
		m.Dispatch = true
	case mode <= 5:
		m.Call = true
	case mode <= 8:
		m.Call, m.Dispatch = true, true
	default:
		m.Call, m.Push = true, true
	}
	if r.Chance(1, 4) {
		m.Push = true
	}
	callTypes := []string{"string", "number", "boolean"}
	dispTypes := []string{"string", "number", "boolean", "choice", "environment", ""}
	if m.Call {
		for _, n := range c05Distinct(r, c05InputPool, r.Range(0, 4)) {
			m.CallInputs = append(m.CallInputs, c05Input{c05Case(r, n), r.Pick(callTypes)})
		}
		m.SecretsDeclared = r.Chance(6, 10)
		if m.SecretsDeclared {
			for _, n := range c05Distinct(r, c05SecretPool, r.Range(0, 3)) {
				m.Secrets = append(m.Secrets, c05Case(r, n))
			}
		}
		for _, n := range c05Distinct(r, c05OutPool, r.Range(0, 3)) {
			m.CallOutputs = append(m.CallOutputs, c05Case(r, n))
		}
	}
	if m.Dispatch {
		for _, n := range c05Distinct(r, c05InputPool, r.Range(0, 4)) {
			m.DispatchInputs = append(m.DispatchInputs, c05Input{c05Case(r, n), r.Pick(dispTypes)})
		}
	}

	nj := r.Range(1, 6)
	if prof == "needs" {
		nj = r.Range(3, 6)
	}
	ids := c05Distinct(r, c05JobPool, nj)
	for i := 0; i < nj; i++ {
		j := &c05Job{ID: c05Case(r, ids[i])}
		j.Call = nj > 1 && r.Chance(12, 100)
		m.Jobs = append(m.Jobs, j)
	}
	topo := r.Perm(nj)
	dens := []int{25, 40, 60}[r.Intn(3)]
	for a := 0; a < nj; a++ {
		for b := a + 1; b < nj; b++ {
			if r.Chance(dens, 100) {
				m.Jobs[topo[b]].Needs = append(m.Jobs[topo[b]].Needs, topo[a])
			}
		}
	}
	for _, j := range m.Jobs {
		p := r.Perm(len(j.Needs))
		nn := make([]int, len(p))
		for k, q := range p {
			nn[k] = j.Needs[q]
		}
		j.Needs = nn
	}
	m.Order = r.Perm(nj)
	idProb := 60
	if prof == "steps" {
		idProb = 75
	}
	mxProb := 55
	if prof == "matrix" {
		mxProb = 95
	}
	for _, j := range m.Jobs {
		if r.Chance(mxProb, 100) {
			j.Matrix = c05GenMatrix(r)
		}
		if j.Call {
			continue
		}
		lo := 0
		if prof == "needs" {
			lo = 1
		}
		for _, n := range c05Distinct(r, c05OutPool, r.Range(lo, 3)) {
			j.Outputs = append(j.Outputs, c05Case(r, n))
		}
		ns := r.Range(1, 6)
		sid := c05Distinct(r, c05StepPool, ns)
		for s := 0; s < ns; s++ {
			st := c05Step{Uses: r.Chance(35, 100)}
			if r.Chance(idProb, 100) {
				if r.Chance(4, 100) {
					st.Dyn = true
				} else {
					st.ID = c05Case(r, sid[s])
				}
			}
			j.Steps = append(j.Steps, st)
		}
	}
	if prof == "matobj" || r.Chance(8, 100) {
		c05AddObjectMatrix(r, m)
	}
	return m
}

// c05SetNames makes the (case-insensitive) presence of "include" / "exclude" in names follow the
// variant (0 neither, 1 include, 2 exclude, 3 both).
func c05SetNames(r *Rand, names []string, variant int) []string {
	var out []string
	for _, n := range names {
		if !c05Eq(n, "include") && !c05Eq(n, "exclude") {
			out = append(out, n)
		}
	}
	if variant&1 != 0 {
		out = append(out, c05Case(r, "include"))
	}
	if variant&2 != 0 {
		out = append(out, c05Case(r, "exclude"))
	}
	p := r.Perm(len(out))
	res := make([]string, len(out))
	for i, q := range p {
		res[i] = out[q]
	}
	return res
}

// c05AddObjectMatrix gives one job a `matrix: ${{ <context object> }}` (needs.<job>.outputs, needs,
// inputs, vars or a constant fromJSON) and makes the declared names of that object contain
// "include", "exclude", both or neither: the implementation derives the matrix type from that
// object by dropping these two properties, which must not change what the object itself declares.
func c05AddObjectMatrix(r *Rand, m *c05Model) {
	nj := len(m.Jobs)
	kind := []string{"needs-outputs", "needs-outputs", "needs-outputs", "needs-outputs", "needs-outputs", "inputs", "inputs", "inputs", "needs", "needs", "vars", "fromjson"}[r.Intn(12)]
	variant := r.Intn(4)
	ji := r.Intn(nj)
	tgt := -1
	if kind == "needs-outputs" || kind == "needs" {
		// a job with a direct non-call need
		var cand []int
		for k, j := range m.Jobs {
			for _, d := range j.Needs {
				if !m.Jobs[d].Call {
					cand = append(cand, k)
					break
				}
			}
		}
		if len(cand) == 0 {
			kind = "inputs"
		} else {
			ji = cand[r.Intn(len(cand))]
			var ds []int
			for _, d := range m.Jobs[ji].Needs {
				if !m.Jobs[d].Call {
					ds = append(ds, d)
				}
			}
			tgt = ds[r.Intn(len(ds))]
		}
	}
	mx := &c05Matrix{ObjExpr: kind, ObjJob: tgt}
	switch kind {
	case "needs-outputs":
		if r.Chance(1, 10) && nj > 2 {
			// sometimes the job is not a direct need: the expression itself is out of scope
			mx.ObjJob = r.Intn(nj)
			if m.Jobs[mx.ObjJob].Call {
				mx.ObjJob = tgt
			}
		}
		t := m.Jobs[mx.ObjJob]
		t.Outputs = c05SetNames(r, t.Outputs, variant)
	case "needs":
		want := []string{}
		if variant&1 != 0 {
			want = append(want, "include")
		}
		if variant&2 != 0 {
			want = append(want, "exclude")
		}
		var ds []int
		for _, d := range m.Jobs[ji].Needs {
			ds = append(ds, d)
		}
		used := map[int]bool{}
		for _, w := range want {
			taken := false
			for _, j := range m.Jobs {
				if c05Eq(j.ID, w) {
					taken = true
				}
			}
			if taken {
				continue
			}
			for _, d := range ds {
				if !used[d] && !c05Eq(m.Jobs[d].ID, "include") && !c05Eq(m.Jobs[d].ID, "exclude") {
					used[d] = true
					m.Jobs[d].ID = c05Case(r, w)
					break
				}
			}
		}
	case "inputs":
		if !m.Call && !m.Dispatch {
			m.Call = true
		}
		set := func(ins []c05Input, ty string) []c05Input {
			var names []string
			tys := map[string]string{}
			for _, i := range ins {
				names = append(names, i.Name)
				tys[i.Name] = i.Type
			}
			var out []c05Input
			for _, n := range c05SetNames(r, names, variant) {
				t, ok := tys[n]
				if !ok {
					t = ty
				}
				out = append(out, c05Input{n, t})
			}
			return out
		}
		if m.Call && (!m.Dispatch || r.Bool()) {
			m.CallInputs = set(m.CallInputs, "string")
		} else {
			m.DispatchInputs = set(m.DispatchInputs, "string")
		}
	}
	m.Jobs[ji].Matrix = mx
}

func c05GenMatrix(r *Rand) *c05Matrix {
	mx := &c05Matrix{}
	if r.Chance(8, 100) {
		mx.Whole = true
		return mx
	}
	pv := 0
	mapVal := func() c05Val {
		props := c05Distinct(r, c05PropPool, r.Range(1, 3))
		v := c05Val{}
		for _, p := range props {
			pv++
			v.Props = append(v.Props, c05Case(r, p))
			v.PVals = append(v.PVals, fmt.Sprintf("v%d", pv))
		}
		return v
	}
	keys := c05Distinct(r, c05KeyPool, r.Range(0, 3))
	mx.HasInc = len(keys) == 0 || r.Chance(50, 100)
	kindMap := map[string]bool{} // lower-case key -> mapping valued (lookups only)
	for _, k := range keys {
		row := c05Row{Key: c05Case(r, k)}
		switch {
		case r.Chance(12, 100):
			row.Expr = true
		case r.Chance(35, 100):
			kindMap[strings.ToLower(k)] = true
			n := r.Range(1, 3)
			for i := 0; i < n; i++ {
				row.Vals = append(row.Vals, mapVal())
			}
			if r.Chance(15, 100) {
				row.Vals = append(row.Vals, c05Val{Expr: true})
			}
		default:
			for _, s := range c05Distinct(r, c05ScalarPool, r.Range(1, 3)) {
				row.Vals = append(row.Vals, c05Val{Scalar: s})
			}
			if r.Chance(15, 100) {
				row.Vals = append(row.Vals, c05Val{Expr: true})
			}
		}
		mx.Rows = append(mx.Rows, row)
	}
	if mx.HasInc {
		if r.Chance(12, 100) {
			mx.IncExpr = true
		} else {
			n := r.Range(1, 3)
			for i := 0; i < n; i++ {
				if r.Chance(12, 100) && (i > 0 || len(keys) > 0 || n > 1) {
					mx.Inc = append(mx.Inc, c05Combo{Expr: true})
					continue
				}
				cb := c05Combo{}
				for _, k := range c05Distinct(r, c05KeyPool, r.Range(1, 3)) {
					lk := strings.ToLower(k)
					isMap, known := kindMap[lk]
					if !known {
						isMap = !c05Has(keys, k) && r.Chance(25, 100)
						kindMap[lk] = isMap
					}
					var v c05Val
					switch {
					case r.Chance(8, 100):
						v = c05Val{Expr: true}
					case isMap:
						v = mapVal()
					default:
						v = c05Val{Scalar: r.Pick(c05ScalarPool)}
					}
					cb.Keys = append(cb.Keys, c05Case(r, k))
					cb.Vals = append(cb.Vals, v)
				}
				mx.Inc = append(mx.Inc, cb)
			}
			// an include consisting only of expression elements next to no rows is legal, too
		}
	}
	// exclude: literal copies of row values (valid for the matrix rule)
	var cand []int
	for i, row := range mx.Rows {
		if row.Expr {
			continue
		}
		for _, v := range row.Vals {
			if !v.Expr {
				cand = append(cand, i)
				break
			}
		}
	}
	if len(cand) > 0 && r.Chance(30, 100) {
		mx.HasExc = true
		if r.Chance(15, 100) {
			mx.ExcExpr = true
		} else {
			n := r.Range(1, 2)
			for i := 0; i < n; i++ {
				cb := c05Combo{}
				p := r.Perm(len(cand))
				nk := r.Range(1, len(cand))
				for q := 0; q < nk; q++ {
					row := mx.Rows[cand[p[q]]]
					var lits []c05Val
					for _, v := range row.Vals {
						if !v.Expr {
							lits = append(lits, v)
						}
					}
					cb.Keys = append(cb.Keys, c05Case(r, row.Key))
					cb.Vals = append(cb.Vals, lits[r.Intn(len(lits))])
				}
				mx.Exc = append(mx.Exc, cb)
			}
		}
	}
	return mx
}

// ---------------------------------------------------------------------------
// rendering

type c05Slot struct {
	ctxs     []string
	job, at  int
	isIf     bool
	fromJSON bool   // the scalar must be ${{ fromJSON(<reference>) }}
	exact    bool   // the scalar must be exactly one ${{ }}
	kind     string // "bool": exactly one ${{ }} of type bool; "string": exactly one ${{ }} of type string
	block    int    // > 0: block literal allowed, indentation of its content
	lit      string
	where    string
	forced   *c05Pick // emit exactly this reference
}

type c05Gen struct {
	r       *Rand
	b       *YB
	m       *c05Model
	sc      c05Scope
	prof    string
	refs    []*c05Ref
	refProb int
	nvar    int

	// references that must be made because some job uses their entity as its matrix expression
	forcedWF   []c05Pick
	forcedJob  map[int][]c05Pick
	forcedStep map[int][]c05Pick
}

func (g *c05Gen) ctxWeight(ctx string) int {
	w := map[string]int{"steps": 4, "needs": 3, "matrix": 3, "inputs": 2, "secrets": 2, "jobs": 6}[ctx]
	switch g.prof {
	case "steps", "needs", "matrix":
		if ctx == g.prof {
			w *= 6
		}
	case "events":
		if ctx == "inputs" || ctx == "secrets" || ctx == "jobs" {
			w *= 5
		}
	}
	return w
}

type c05Pick struct {
	root  string
	segs  []string
	obj   bool // value may be an object (must not be evaluated in a template as it is)
	str   bool // value is a string (or any) whenever it is not an object
	class string
	sub   string
}

func (g *c05Gen) weighted(names []string, weights []int) string {
	t := 0
	for _, w := range weights {
		t += w
	}
	x := g.r.Intn(t)
	for i, w := range weights {
		if x < w {
			return names[i]
		}
		x -= w
	}
	return names[len(names)-1]
}

func (g *c05Gen) pickSteps(job, at int) *c05Pick {
	r := g.r
	steps := g.m.Jobs[job].Steps
	var earlier, later, other, mine []string
	self := ""
	for i, st := range steps {
		if st.ID == "" || st.Dyn {
			continue
		}
		mine = append(mine, st.ID)
		switch {
		case at == c05All || i < at:
			earlier = append(earlier, st.ID)
		case i == at:
			self = st.ID
		default:
			later = append(later, st.ID)
		}
	}
	for k, j := range g.m.Jobs {
		if k == job {
			continue
		}
		for _, st := range j.Steps {
			if st.ID != "" && !st.Dyn && !c05Has(mine, st.ID) && !c05Has(other, st.ID) {
				other = append(other, st.ID)
			}
		}
	}
	var cats []string
	var ws []int
	add := func(c string, w int, ok bool) {
		if ok {
			cats = append(cats, c)
			ws = append(ws, w)
		}
	}
	en := "earlier"
	if at == c05All {
		en = "any-step"
	}
	add(en, 5, len(earlier) > 0)
	add("self", 2, self != "")
	add("later", 2, len(later) > 0)
	add("otherjob", 2, len(other) > 0)
	add("bogus", 1, true)
	cat := g.weighted(cats, ws)
	var id string
	switch cat {
	case "earlier", "any-step":
		id = r.Pick(earlier)
	case "self":
		id = self
	case "later":
		id = r.Pick(later)
	case "otherjob":
		id = r.Pick(other)
	default:
		id = c05Bogus(r, mine, c05StepPool)
	}
	p := &c05Pick{root: "steps", segs: []string{id}, sub: cat}
	switch r.Intn(4) {
	case 0:
		p.class, p.obj = "steps-id", true
	case 1:
		p.class = "steps-id"
		p.segs = append(p.segs, r.Pick([]string{"outcome", "conclusion"}))
	default:
		p.class = "steps-out"
		p.segs = append(p.segs, "outputs", r.Pick(c05OutPool))
	}
	return p
}

func (g *c05Gen) pickNeeds(job int) *c05Pick {
	r := g.r
	jobs := g.m.Jobs
	direct := map[int]bool{}
	for _, d := range jobs[job].Needs {
		direct[d] = true
	}
	reach := map[int]bool{}
	var walk func(k int)
	walk = func(k int) {
		for _, d := range jobs[k].Needs {
			if !reach[d] {
				reach[d] = true
				walk(d)
			}
		}
	}
	walk(job)
	var dl, tl, ul []int
	for k := range jobs {
		switch {
		case k == job:
		case direct[k]:
			dl = append(dl, k)
		case reach[k]:
			tl = append(tl, k)
		default:
			ul = append(ul, k)
		}
	}
	var cats []string
	var ws []int
	add := func(c string, w int, ok bool) {
		if ok {
			cats = append(cats, c)
			ws = append(ws, w)
		}
	}
	add("direct", 6, len(dl) > 0)
	add("transitive", 3, len(tl) > 0)
	add("unrelated", 2, len(ul) > 0)
	add("self", 1, true)
	add("bogus", 1, true)
	cat := g.weighted(cats, ws)
	t := -1
	switch cat {
	case "direct":
		t = dl[r.Intn(len(dl))]
	case "transitive":
		t = tl[r.Intn(len(tl))]
	case "unrelated":
		t = ul[r.Intn(len(ul))]
	case "self":
		t = job
	}
	var name string
	if t >= 0 {
		name = jobs[t].ID
	} else {
		var all []string
		for _, j := range jobs {
			all = append(all, j.ID)
		}
		name = c05Bogus(r, all, c05JobPool)
	}
	p := &c05Pick{root: "needs", segs: []string{name}, sub: cat}
	k := r.Intn(5)
	if t >= 0 && jobs[t].Call && k >= 2 {
		k = r.Intn(2)
	}
	switch k {
	case 0:
		p.class, p.obj = "needs-job", true
	case 1:
		p.class = "needs-result"
		p.segs = append(p.segs, "result")
	default:
		p.class = "needs-output"
		var out string
		if t >= 0 && len(jobs[t].Outputs) > 0 && r.Chance(55, 100) {
			out = r.Pick(jobs[t].Outputs)
			p.sub += "/declared"
		} else {
			var decl []string
			if t >= 0 {
				decl = jobs[t].Outputs
			}
			var cand []string
			for _, o := range c05OutPool {
				if !c05Has(decl, o) {
					cand = append(cand, o)
				}
			}
			if len(cand) > 0 && r.Bool() {
				out = r.Pick(cand)
			} else {
				out = c05Bogus(r, decl, c05OutPool)
			}
			p.sub += "/undeclared"
		}
		p.segs = append(p.segs, "outputs", out)
	}
	return p
}

func c05MatrixKeys(mx *c05Matrix) (rows, incOnly []string) {
	if mx == nil {
		return
	}
	for _, r := range mx.Rows {
		rows = append(rows, r.Key)
	}
	if mx.HasInc && !mx.IncExpr {
		for _, c := range mx.Inc {
			for _, k := range c.Keys {
				if !c05Has(rows, k) && !c05Has(incOnly, k) {
					incOnly = append(incOnly, k)
				}
			}
		}
	}
	return
}

func (g *c05Gen) pickMatrix(job int) *c05Pick {
	r := g.r
	mx := g.m.Jobs[job].Matrix
	rows, incOnly := c05MatrixKeys(mx)
	var other []string
	for k, j := range g.m.Jobs {
		if k == job {
			continue
		}
		a, b := c05MatrixKeys(j.Matrix)
		for _, x := range append(a, b...) {
			if !c05Has(rows, x) && !c05Has(incOnly, x) && !c05Has(other, x) {
				other = append(other, x)
			}
		}
	}
	mine := append(append([]string{}, rows...), incOnly...)
	if mx != nil && mx.ObjExpr != "" {
		names := g.sc.objectMatrixKeys(mx, job)
		if len(names) == 0 {
			return nil
		}
		return &c05Pick{root: "matrix", segs: []string{r.Pick(names)}, class: "matrix-key", sub: "object-key", obj: mx.ObjExpr == "needs" || mx.ObjExpr == "fromjson"}
	}
	if mx == nil {
		var key string
		if len(other) > 0 && r.Bool() {
			key = r.Pick(other)
		} else {
			key = r.Pick(c05KeyPool)
		}
		return &c05Pick{root: "matrix", segs: []string{key}, class: "matrix-key", sub: "nomatrix", obj: true}
	}
	var cats []string
	var ws []int
	add := func(c string, w int, ok bool) {
		if ok {
			cats = append(cats, c)
			ws = append(ws, w)
		}
	}
	add("row", 4, len(rows) > 0)
	add("include-only", 4, len(incOnly) > 0)
	add("otherjob", 2, len(other) > 0)
	add("bogus", 2, true)
	cat := g.weighted(cats, ws)
	var key string
	switch cat {
	case "row":
		key = r.Pick(rows)
	case "include-only":
		key = r.Pick(incOnly)
	case "otherjob":
		key = r.Pick(other)
	default:
		key = c05Bogus(r, mine, c05KeyPool)
	}
	p := &c05Pick{root: "matrix", segs: []string{key}, class: "matrix-key", sub: cat, obj: true}
	if mx.Whole {
		p.obj = false
		if r.Chance(1, 4) {
			p.class, p.sub = "matrix-nested", "bogus-prop"
			p.segs = append(p.segs, r.Pick(c05PropPool))
		}
		return p
	}
	// nested property of a mapping-valued (or expression-valued) key
	var rowProps, incProps []string
	hasMap, rowExpr, anyScalar := false, false, false
	for _, row := range mx.Rows {
		if !c05Eq(row.Key, key) {
			continue
		}
		if row.Expr {
			rowExpr = true
		}
		for _, v := range row.Vals {
			if v.Props != nil {
				hasMap = true
				rowProps = append(rowProps, v.Props...)
			} else if !v.Expr {
				anyScalar = true
			}
		}
	}
	if mx.HasInc && !mx.IncExpr {
		for _, c := range mx.Inc {
			for i, k := range c.Keys {
				if !c05Eq(k, key) {
					continue
				}
				if c.Vals[i].Props != nil {
					hasMap = true
					for _, q := range c.Vals[i].Props {
						if !c05Has(rowProps, q) {
							incProps = append(incProps, q)
						}
					}
				} else if !c.Vals[i].Expr {
					anyScalar = true
				}
			}
		}
	}
	p.obj = hasMap
	if (hasMap || rowExpr) && !anyScalar && r.Chance(55, 100) {
		var pc []string
		var pw []int
		addp := func(c string, w int, ok bool) {
			if ok {
				pc = append(pc, c)
				pw = append(pw, w)
			}
		}
		addp("declared", 3, len(rowProps) > 0)
		addp("include-only-prop", 3, len(incProps) > 0)
		addp("bogus-prop", 2, true)
		pcat := g.weighted(pc, pw)
		var prop string
		switch pcat {
		case "declared":
			prop = r.Pick(rowProps)
		case "include-only-prop":
			prop = r.Pick(incProps)
		default:
			all := append(append([]string{}, rowProps...), incProps...)
			var cand []string
			for _, q := range c05PropPool {
				if !c05Has(all, q) {
					cand = append(cand, q)
				}
			}
			if len(cand) > 0 && r.Bool() {
				prop = r.Pick(cand)
			} else {
				prop = c05Bogus(r, all, c05PropPool)
			}
		}
		p.class, p.sub, p.obj = "matrix-nested", pcat, false
		p.segs = append(p.segs, prop)
	}
	return p
}

func (g *c05Gen) pickInputs() *c05Pick {
	r := g.r
	var call, disp, both, all []string
	for _, i := range g.m.CallInputs {
		all = append(all, i.Name)
		isBoth := false
		for _, d := range g.m.DispatchInputs {
			if c05Eq(d.Name, i.Name) {
				isBoth = true
			}
		}
		if isBoth {
			both = append(both, i.Name)
		} else {
			call = append(call, i.Name)
		}
	}
	for _, d := range g.m.DispatchInputs {
		if !c05Has(all, d.Name) {
			all = append(all, d.Name)
			disp = append(disp, d.Name)
		}
	}
	var cats []string
	var ws []int
	add := func(c string, w int, ok bool) {
		if ok {
			cats = append(cats, c)
			ws = append(ws, w)
		}
	}
	add("call", 3, len(call) > 0)
	add("dispatch", 3, len(disp) > 0)
	add("both", 2, len(both) > 0)
	add("bogus", 2, true)
	cat := g.weighted(cats, ws)
	var n string
	switch cat {
	case "call":
		n = r.Pick(call)
	case "dispatch":
		n = r.Pick(disp)
	case "both":
		n = r.Pick(both)
	default:
		var cand []string
		for _, q := range c05InputPool {
			if !c05Has(all, q) {
				cand = append(cand, q)
			}
		}
		if len(cand) > 0 && r.Bool() {
			n = r.Pick(cand)
		} else {
			n = c05Bogus(r, all, c05InputPool)
		}
	}
	return &c05Pick{root: "inputs", segs: []string{n}, class: "inputs", sub: cat}
}

func (g *c05Gen) pickSecrets() *c05Pick {
	r := g.r
	strict := g.m.Call && g.m.SecretsDeclared
	var cats []string
	var ws []int
	add := func(c string, w int, ok bool) {
		if ok {
			cats = append(cats, c)
			ws = append(ws, w)
		}
	}
	add("declared", 3, strict && len(g.m.Secrets) > 0)
	add("auto", 2, strict)
	add("bogus", 3, true)
	cat := g.weighted(cats, ws)
	var n string
	switch cat {
	case "declared":
		n = r.Pick(g.m.Secrets)
	case "auto":
		n = "GITHUB_TOKEN"
	default:
		var cand []string
		for _, q := range c05SecretPool {
			if !c05Has(g.m.Secrets, q) {
				cand = append(cand, q)
			}
		}
		if len(cand) > 0 && r.Bool() {
			n = r.Pick(cand)
		} else {
			n = c05Bogus(r, g.m.Secrets, c05SecretPool)
		}
	}
	return &c05Pick{root: "secrets", segs: []string{n}, class: "secrets", sub: cat}
}

func (g *c05Gen) pickJobs() *c05Pick {
	r := g.r
	var real []int
	var all []string
	for k, j := range g.m.Jobs {
		all = append(all, j.ID)
		if !j.Call {
			real = append(real, k)
		}
	}
	if len(real) == 0 || r.Chance(1, 5) {
		return &c05Pick{root: "jobs", segs: []string{c05Bogus(r, all, c05JobPool), "outputs", r.Pick(c05OutPool)}, class: "jobs-output", sub: "bogus-job"}
	}
	j := g.m.Jobs[real[r.Intn(len(real))]]
	if len(j.Outputs) > 0 && r.Bool() {
		return &c05Pick{root: "jobs", segs: []string{j.ID, "outputs", r.Pick(j.Outputs)}, class: "jobs-output", sub: "declared"}
	}
	var cand []string
	for _, q := range c05OutPool {
		if !c05Has(j.Outputs, q) {
			cand = append(cand, q)
		}
	}
	var o string
	if len(cand) > 0 && r.Bool() {
		o = r.Pick(cand)
	} else {
		o = c05Bogus(r, j.Outputs, c05OutPool)
	}
	return &c05Pick{root: "jobs", segs: []string{j.ID, "outputs", o}, class: "jobs-output", sub: "undeclared"}
}

func (g *c05Gen) inputIsBool(name string) bool {
	for _, i := range g.m.CallInputs {
		if c05Eq(i.Name, name) && i.Type == "boolean" {
			return true
		}
	}
	for _, i := range g.m.DispatchInputs {
		if c05Eq(i.Name, name) && (i.Type == "boolean" || i.Type == "") {
			return true
		}
	}
	return false
}

var c05Keywords = map[string]bool{"outputs": true, "result": true, "outcome": true, "conclusion": true}

// refText renders root.segs with random letter case and occasionally index syntax.
func (g *c05Gen) refText(p *c05Pick) (string, []string) {
	r := g.r
	var sb strings.Builder
	if r.Chance(1, 20) {
		sb.WriteString(c05Case(r, p.root))
	} else {
		sb.WriteString(p.root)
	}
	var indexCase []string
	for i, s := range p.segs {
		n := s
		fixed := c05Keywords[s] && i > 0
		if !fixed || r.Chance(1, 10) {
			n = c05Case(r, s)
		}
		if r.Chance(12, 100) {
			sb.WriteString("['" + n + "']")
			if n != strings.ToLower(n) {
				indexCase = append(indexCase, n)
			}
		} else {
			sb.WriteString("." + n)
		}
	}
	return sb.String(), indexCase
}

// pick chooses a reference for the slot; nil if none can be made.
func c05Classify(p *c05Pick) {
	switch p.class {
	case "steps-id", "steps-out", "needs-result", "needs-output", "secrets", "jobs-output", "matrix-nested":
		p.str = !p.obj
	}
}

func (g *c05Gen) pick(s c05Slot) (*c05Pick, c05Verdict, int, string) {
	if s.forced != nil {
		p := *s.forced
		c05Classify(&p)
		v, bad, why := g.sc.Resolve(p.root, p.segs, s.job, s.at)
		if v == c05Skip {
			return nil, c05Skip, 0, ""
		}
		return &p, v, bad, why
	}
	for try := 0; try < 6; try++ {
		ws := make([]int, len(s.ctxs))
		for i, c := range s.ctxs {
			ws[i] = g.ctxWeight(c)
		}
		ctx := g.weighted(s.ctxs, ws)
		var p *c05Pick
		switch ctx {
		case "steps":
			p = g.pickSteps(s.job, s.at)
		case "needs":
			p = g.pickNeeds(s.job)
		case "matrix":
			p = g.pickMatrix(s.job)
		case "inputs":
			p = g.pickInputs()
		case "secrets":
			p = g.pickSecrets()
		case "jobs":
			p = g.pickJobs()
		}
		if p == nil {
			continue
		}
		c05Classify(p)
		v, bad, why := g.sc.Resolve(p.root, p.segs, s.job, s.at)
		if v == c05Skip {
			continue
		}
		if s.fromJSON && (p.obj || p.root == "inputs" && g.inputIsBool(p.segs[0]) || p.class == "matrix-key" && (v == c05In || p.sub == "object-key")) {
			continue // fromJSON() takes a string
		}
		return p, v, bad, why
	}
	return nil, c05Skip, 0, ""
}

// emit writes prefix + scalar + line break. The scalar holds at most one reference.
func (g *c05Gen) emit(prefix string, s c05Slot) {
	r, b := g.r, g.b
	var p *c05Pick
	var v c05Verdict
	var bad int
	var why string
	prob := g.refProb
	if s.fromJSON {
		prob = 50
	}
	if s.forced != nil || len(s.ctxs) > 0 && r.Intn(100) < prob {
		p, v, bad, why = g.pick(s)
	}
	if p == nil {
		lit := s.lit
		if s.fromJSON {
			g.nvar++
			lit = fmt.Sprintf("${{ fromJSON(vars.CFG_%d) }}", g.nvar)
		} else if (s.exact || s.kind != "") && lit == "" {
			g.nvar++
			lit = fmt.Sprintf("${{ vars.VAL_%d }}", g.nvar)
		}
		b.W(prefix + lit + "\n")
		return
	}
	text, idxCase := g.refText(p)
	rf := &c05Ref{Class: p.class, Sub: p.sub, Text: text, Where: s.where, Job: s.job, IndexLits: idxCase}
	switch v {
	case c05In:
		rf.Verdict = "in"
	case c05Out:
		rf.Verdict, rf.Report = "out", true
		rf.BadSeg = p.segs[bad]
	case c05Never:
		rf.Verdict = "never:" + why
	}
	// text before / after the reference token inside the scalar: a random operator / function tree
	// (c05_expr.go) with the reference at one operand position, inside ${{ }} or as a bare condition
	var pre, post string
	sp := r.Pick([]string{" ", " ", "", "  "})
	open, cls := "${{"+sp, sp+"}}"
	templated := !s.isIf || s.fromJSON || s.kind != "" || r.Chance(4, 10)
	ePre, ePost, path := g.tree(text, p, s, templated)
	rf.OpPath = path
	if templated {
		pre, post = open+ePre, ePost+cls
		if !s.isIf && !s.exact && !s.fromJSON && s.kind == "" {
			pre = r.Pick([]string{"", "echo ", "v-", "pre "}) + pre
			post = post + r.Pick([]string{"", "", " done", "-x"})
			if r.Chance(12, 100) {
				// an earlier placeholder without any context in the same scalar
				pre = r.Pick([]string{"${{ 'k' }}-", "${{ 1 }} ", "${{ format('{0}', 'a') }}_"}) + pre
			}
		}
	} else {
		pre, post = ePre, ePost
	}
	full := pre + text + post
	style := r.Intn(4)
	if style == 3 && (s.block == 0 || s.isIf) {
		style = r.Intn(3)
	}
	if style == 0 {
		c0 := full[0]
		ok := c0 == '$' || c0 >= 'a' && c0 <= 'z' || c0 >= 'A' && c0 <= 'Z' || c0 >= '0' && c0 <= '9'
		if !ok || strings.Contains(full, ": ") || strings.Contains(full, " #") {
			style = 1
		}
	}
	if style == 1 && strings.Contains(full, `"`) {
		style = 2
	}
	b.W(prefix)
	rf.Line = b.Pos().Line
	cmt := ""
	if r.Chance(1, 8) {
		cmt = " # note"
	}
	switch style {
	case 0:
		rf.Style = "plain"
		b.W(pre)
		rf.Pos = b.W(text)
		b.W(post + cmt + "\n")
	case 1:
		rf.Style = "double-quoted"
		b.W(`"` + pre)
		rf.Pos = b.W(text)
		b.W(post + "\"" + cmt + "\n")
	case 2:
		rf.Style = "single-quoted"
		q := func(x string) string { return strings.ReplaceAll(x, "'", "''") }
		b.W("'" + q(pre))
		rf.Pos = b.W(q(text))
		b.W(q(post) + "'" + cmt + "\n")
	default:
		rf.Style = "block-literal"
		b.W(r.Pick([]string{"|", "|-"}) + "\n")
		ind := strings.Repeat(" ", s.block)
		if r.Bool() {
			b.W(ind + "echo start\n")
		}
		b.W(ind + pre)
		rf.Pos = b.W(text)
		b.W(post + "\n")
		if r.Bool() {
			b.W(ind + "echo end\n")
		}
	}
	if s.isIf && !templated {
		rf.Style += "/bare-if"
	}
	rf.emPre, rf.emText, rf.emPost = ePre, text, ePost
	if style == 2 {
		q := func(x string) string { return strings.ReplaceAll(x, "'", "''") }
		rf.emPre, rf.emText, rf.emPost = q(ePre), q(text), q(ePost)
	}
	g.refs = append(g.refs, rf)
}

func c05Sp(n int) string { return strings.Repeat(" ", n) }

type c05Field struct {
	key string
	fn  func(pfx string, ind int) // pfx: text before the key; ind: column offset of the key
}

func (g *c05Gen) fields(fs []c05Field, ind int, seqItem bool) {
	p := g.r.Perm(len(fs))
	for k, q := range p {
		pfx := c05Sp(ind)
		if seqItem {
			if k == 0 {
				pfx = c05Sp(ind-2) + "- "
			}
		}
		fs[q].fn(pfx, ind)
	}
}

func (g *c05Gen) valText(v c05Val) string {
	if v.Props == nil {
		return v.Scalar
	}
	var parts []string
	for i, p := range v.Props {
		parts = append(parts, p+": "+v.PVals[i])
	}
	return "{" + strings.Join(parts, ", ") + "}"
}

// value written after "key:" (pfx already contains "key:" without the trailing space) or after "-"
func (g *c05Gen) matrixValue(pfx string, ind int, v c05Val, job int, mapRow bool, where string) {
	b, r := g.b, g.r
	switch {
	case v.Expr:
		g.emit(pfx+" ", c05Slot{ctxs: []string{"inputs", "needs"}, job: job, at: -1, fromJSON: mapRow, exact: true, where: where})
	case v.Props == nil:
		b.W(pfx + " " + v.Scalar + "\n")
	case r.Bool():
		b.W(pfx + " " + g.valText(v) + "\n")
	default:
		// block mapping
		if strings.HasSuffix(pfx, "-") {
			for i, p := range v.Props {
				if i == 0 {
					b.W(pfx + " " + p + ": " + v.PVals[i] + "\n")
				} else {
					b.W(c05Sp(ind+2) + p + ": " + v.PVals[i] + "\n")
				}
			}
		} else {
			b.W(pfx + "\n")
			for i, p := range v.Props {
				b.W(c05Sp(ind+2) + p + ": " + v.PVals[i] + "\n")
			}
		}
	}
}

func (g *c05Gen) combos(pfx string, ind int, key string, whole bool, cs []c05Combo, job int) {
	b := g.b
	if whole {
		g.emit(pfx+key+": ", c05Slot{ctxs: []string{"inputs", "needs"}, job: job, at: -1, fromJSON: true, exact: true, where: "matrix." + key + " (whole)"})
		return
	}
	b.W(pfx + key + ":\n")
	for _, c := range cs {
		if c.Expr {
			g.emit(c05Sp(ind+2)+"- ", c05Slot{ctxs: []string{"inputs", "needs"}, job: job, at: -1, fromJSON: true, exact: true, where: "matrix." + key + " element"})
			continue
		}
		for i, k := range c.Keys {
			lead := c05Sp(ind + 4)
			if i == 0 {
				lead = c05Sp(ind+2) + "- "
			}
			g.matrixValue(lead+k+":", ind+4, c.Vals[i], job, c.Vals[i].Props != nil, "matrix."+key+" value")
		}
	}
}

func (g *c05Gen) strategy(pfx string, ind int, job int) {
	b, r := g.b, g.r
	mx := g.m.Jobs[job].Matrix
	b.W(pfx + "strategy:\n")
	if r.Chance(1, 3) {
		g.emit(c05Sp(ind+2)+"fail-fast: ", c05Slot{ctxs: []string{"inputs", "needs"}, job: job, at: -1, kind: "bool", lit: "false", where: "strategy fail-fast"})
	}
	if r.Chance(1, 6) {
		g.emit(c05Sp(ind+2)+"max-parallel: ", c05Slot{ctxs: []string{"inputs", "needs"}, job: job, at: -1, fromJSON: true, where: "strategy max-parallel"})
	}
	if mx.ObjExpr != "" {
		var p *c05Pick
		switch mx.ObjExpr {
		case "needs-outputs":
			p = &c05Pick{root: "needs", segs: []string{g.m.Jobs[mx.ObjJob].ID, "outputs"}}
		case "needs", "inputs", "vars":
			p = &c05Pick{root: mx.ObjExpr}
		default:
			b.W(c05Sp(ind+2) + `matrix: ${{ fromJSON('{"os":["a","b"],"include":[{"extra":1}],"exclude":[{"os":"a"}]}') }}` + "\n")
			return
		}
		p.class, p.sub, p.obj = "matrix-object-expr", mx.ObjExpr, true
		g.emit(c05Sp(ind+2)+"matrix: ", c05Slot{job: job, at: -1, kind: "object", exact: true, forced: p, where: "matrix (context object)"})
		return
	}
	if mx.Whole {
		g.emit(c05Sp(ind+2)+"matrix: ", c05Slot{ctxs: []string{"inputs", "needs"}, job: job, at: -1, fromJSON: true, exact: true, where: "matrix (whole)"})
		return
	}
	b.W(c05Sp(ind+2) + "matrix:\n")
	mi := ind + 4
	var fs []c05Field
	for _, row := range mx.Rows {
		row := row
		fs = append(fs, c05Field{row.Key, func(pfx string, ind int) {
			if row.Expr {
				g.emit(pfx+row.Key+": ", c05Slot{ctxs: []string{"inputs", "needs"}, job: job, at: -1, fromJSON: true, exact: true, where: "matrix row (whole)"})
				return
			}
			flowOK, mapRow := true, false
			for _, v := range row.Vals {
				if v.Expr {
					flowOK = false
				}
				if v.Props != nil {
					mapRow = true
				}
			}
			if flowOK && r.Bool() {
				var parts []string
				for _, v := range row.Vals {
					parts = append(parts, g.valText(v))
				}
				b.W(pfx + row.Key + ": [" + strings.Join(parts, ", ") + "]\n")
				return
			}
			b.W(pfx + row.Key + ":\n")
			for _, v := range row.Vals {
				g.matrixValue(c05Sp(ind+2)+"-", ind+2, v, job, mapRow, "matrix row element")
			}
		}})
	}
	if mx.HasInc {
		fs = append(fs, c05Field{"include", func(pfx string, ind int) { g.combos(pfx, ind, "include", mx.IncExpr, mx.Inc, job) }})
	}
	if mx.HasExc {
		fs = append(fs, c05Field{"exclude", func(pfx string, ind int) { g.combos(pfx, ind, "exclude", mx.ExcExpr, mx.Exc, job) }})
	}
	g.fields(fs, mi, false)
}

func (g *c05Gen) needsField(pfx string, ind int, job int) {
	b, r := g.b, g.r
	var names []string
	for _, d := range g.m.Jobs[job].Needs {
		names = append(names, c05Case(r, g.m.Jobs[d].ID))
	}
	switch st := r.Intn(3); {
	case len(names) == 1 && st == 0:
		b.W(pfx + "needs: " + names[0] + "\n")
	case st == 1:
		b.W(pfx + "needs:\n")
		for _, n := range names {
			b.W(c05Sp(ind+2) + "- " + n + "\n")
		}
	default:
		b.W(pfx + "needs: [" + strings.Join(names, ", ") + "]\n")
	}
}

func (g *c05Gen) envField(pfx string, ind int, ctxs []string, job, at int, where string) {
	forced := g.forcedAt(job, at)
	if len(forced) > 0 {
		g.b.W(pfx + "env:\n")
		for i := range forced {
			g.nvar++
			g.emit(fmt.Sprintf("%sVAR_%d: ", c05Sp(ind+2), g.nvar), c05Slot{ctxs: ctxs, job: job, at: at, lit: "literal", where: where, forced: &forced[i]})
		}
		if g.r.Bool() {
			g.nvar++
			g.emit(fmt.Sprintf("%sVAR_%d: ", c05Sp(ind+2), g.nvar), c05Slot{ctxs: ctxs, job: job, at: at, lit: "literal", where: where})
		}
		return
	}
	if g.r.Chance(12, 100) {
		// env: ${{ ... }} (the whole mapping given by an expression)
		g.emit(pfx+"env: ", c05Slot{ctxs: ctxs, job: job, at: at, fromJSON: true, where: where + " (whole)"})
		return
	}
	g.b.W(pfx + "env:\n")
	n := g.r.Range(1, 2)
	for i := 0; i < n; i++ {
		g.nvar++
		g.emit(fmt.Sprintf("%sVAR_%d: ", c05Sp(ind+2), g.nvar), c05Slot{ctxs: ctxs, job: job, at: at, lit: "literal", where: where})
	}
}

// forcedAt: the forced references of a place (workflow env: job -1; job env / call with: at -1;
// env of the last step of the job: at = its index).
func (g *c05Gen) forcedAt(job, at int) []c05Pick {
	switch {
	case job < 0:
		return g.forcedWF
	case at < 0:
		return g.forcedJob[job]
	case at == len(g.m.Jobs[job].Steps)-1:
		return g.forcedStep[job]
	}
	return nil
}

func (g *c05Gen) step(job, si int) {
	r := g.r
	st := g.m.Jobs[job].Steps[si]
	const ind = 8
	stepCtx := []string{"inputs", "matrix", "needs", "secrets", "steps"}
	var fs []c05Field
	if st.Dyn {
		fs = append(fs, c05Field{"id", func(pfx string, ind int) { g.b.W(fmt.Sprintf("%sid: dyn-${{ 'a' }}-%d\n", pfx, si)) }})
	} else if st.ID != "" {
		fs = append(fs, c05Field{"id", func(pfx string, ind int) { g.b.W(pfx + "id: " + st.ID + "\n") }})
	}
	if r.Chance(1, 3) {
		fs = append(fs, c05Field{"name", func(pfx string, ind int) {
			g.emit(pfx+"name: ", c05Slot{ctxs: stepCtx, job: job, at: si, lit: "Step", where: "step name"})
		}})
	}
	if r.Chance(1, 2) {
		fs = append(fs, c05Field{"if", func(pfx string, ind int) {
			g.emit(pfx+"if: ", c05Slot{ctxs: []string{"inputs", "matrix", "needs", "steps"}, job: job, at: si, isIf: true, lit: "always()", where: "step if"})
		}})
	}
	if st.Uses {
		fs = append(fs, c05Field{"uses", func(pfx string, ind int) { g.b.W(pfx + "uses: some-org/some-action@v1\n") }})
		if r.Chance(2, 3) {
			fs = append(fs, c05Field{"with", func(pfx string, ind int) {
				g.b.W(pfx + "with:\n")
				n := r.Range(1, 2)
				for i := 0; i < n; i++ {
					g.emit(fmt.Sprintf("%sarg%d: ", c05Sp(ind+2), i), c05Slot{ctxs: stepCtx, job: job, at: si, lit: "value", block: ind + 4, where: "step with"})
				}
			}})
		}
	} else {
		fs = append(fs, c05Field{"run", func(pfx string, ind int) {
			g.emit(pfx+"run: ", c05Slot{ctxs: stepCtx, job: job, at: si, lit: "echo hello", block: ind + 2, where: "step run"})
		}})
		if r.Chance(1, 5) {
			fs = append(fs, c05Field{"working-directory", func(pfx string, ind int) {
				g.emit(pfx+"working-directory: ", c05Slot{ctxs: stepCtx, job: job, at: si, lit: "./sub", where: "step working-directory"})
			}})
		}
	}
	if r.Chance(1, 3) || len(g.forcedAt(job, si)) > 0 {
		fs = append(fs, c05Field{"env", func(pfx string, ind int) { g.envField(pfx, ind, stepCtx, job, si, "step env") }})
	}
	if r.Chance(1, 6) {
		fs = append(fs, c05Field{"continue-on-error", func(pfx string, ind int) {
			g.emit(pfx+"continue-on-error: ", c05Slot{ctxs: stepCtx, job: job, at: si, kind: "bool", lit: "true", where: "step continue-on-error"})
		}})
	}
	if r.Chance(1, 8) {
		fs = append(fs, c05Field{"timeout-minutes", func(pfx string, ind int) {
			g.emit(pfx+"timeout-minutes: ", c05Slot{ctxs: stepCtx, job: job, at: si, fromJSON: true, where: "step timeout-minutes"})
		}})
	}
	g.fields(fs, ind, true)
}

func (g *c05Gen) job(job int) {
	b, r := g.b, g.r
	j := g.m.Jobs[job]
	b.W("  " + j.ID + ":\n")
	const ind = 4
	jobCtx := []string{"inputs", "matrix", "needs"}
	var fs []c05Field
	if r.Chance(1, 2) {
		fs = append(fs, c05Field{"name", func(pfx string, ind int) {
			g.emit(pfx+"name: ", c05Slot{ctxs: jobCtx, job: job, at: -1, lit: "Job", where: "job name"})
		}})
	}
	if len(j.Needs) > 0 {
		fs = append(fs, c05Field{"needs", func(pfx string, ind int) { g.needsField(pfx, ind, job) }})
	}
	if r.Chance(1, 2) {
		fs = append(fs, c05Field{"if", func(pfx string, ind int) {
			g.emit(pfx+"if: ", c05Slot{ctxs: []string{"inputs", "needs"}, job: job, at: -1, isIf: true, lit: "always()", where: "job if"})
		}})
	}
	if j.Matrix != nil {
		fs = append(fs, c05Field{"strategy", func(pfx string, ind int) { g.strategy(pfx, ind, job) }})
	}
	if j.Call {
		fs = append(fs, c05Field{"uses", func(pfx string, ind int) { b.W(pfx + "uses: some-org/some-repo/.github/workflows/ci.yml@v1\n") }})
		if r.Chance(2, 3) || len(g.forcedJob[job]) > 0 {
			fs = append(fs, c05Field{"with", func(pfx string, ind int) {
				b.W(pfx + "with:\n")
				forced := g.forcedJob[job]
				for i := range forced {
					g.emit(fmt.Sprintf("%sforced%d: ", c05Sp(ind+2), i), c05Slot{ctxs: jobCtx, job: job, at: -1, lit: "value", where: "call with", forced: &forced[i]})
				}
				n := r.Range(1, 2)
				for i := 0; i < n; i++ {
					g.emit(fmt.Sprintf("%sarg%d: ", c05Sp(ind+2), i), c05Slot{ctxs: jobCtx, job: job, at: -1, lit: "value", where: "call with"})
				}
			}})
		}
		if r.Chance(2, 3) {
			fs = append(fs, c05Field{"secrets", func(pfx string, ind int) {
				b.W(pfx + "secrets:\n")
				n := r.Range(1, 2)
				for i := 0; i < n; i++ {
					g.emit(fmt.Sprintf("%ssec%d: ", c05Sp(ind+2), i), c05Slot{ctxs: []string{"inputs", "matrix", "needs", "secrets"}, job: job, at: -1, lit: "value", where: "call secrets"})
				}
			}})
		}
		g.fields(fs, ind, false)
		return
	}
	fs = append(fs, c05Field{"runs-on", func(pfx string, ind int) {
		if r.Chance(1, 4) {
			g.emit(pfx+"runs-on: ", c05Slot{ctxs: jobCtx, job: job, at: -1, kind: "string", lit: "ubuntu-latest", where: "runs-on"})
		} else {
			b.W(pfx + "runs-on: ubuntu-latest\n")
		}
	}})
	if r.Chance(1, 8) {
		fs = append(fs, c05Field{"continue-on-error", func(pfx string, ind int) {
			g.emit(pfx+"continue-on-error: ", c05Slot{ctxs: jobCtx, job: job, at: -1, kind: "bool", lit: "false", where: "job continue-on-error"})
		}})
	}
	if r.Chance(1, 8) {
		fs = append(fs, c05Field{"timeout-minutes", func(pfx string, ind int) {
			g.emit(pfx+"timeout-minutes: ", c05Slot{ctxs: jobCtx, job: job, at: -1, fromJSON: true, where: "job timeout-minutes"})
		}})
	}
	if r.Chance(1, 8) {
		fs = append(fs, c05Field{"services", func(pfx string, ind int) {
			b.W(pfx + "services:\n" + c05Sp(ind+2) + "db:\n")
			g.emit(c05Sp(ind+4)+"image: ", c05Slot{ctxs: jobCtx, job: job, at: -1, lit: "postgres:15", where: "service image"})
			if r.Bool() {
				g.envField(c05Sp(ind+4), ind+4, []string{"inputs", "matrix", "needs", "secrets"}, job, -1, "service env")
			}
		}})
	}
	if r.Chance(1, 3) || len(g.forcedJob[job]) > 0 {
		fs = append(fs, c05Field{"env", func(pfx string, ind int) {
			g.envField(pfx, ind, []string{"inputs", "matrix", "needs", "secrets"}, job, -1, "job env")
		}})
	}
	if r.Chance(1, 5) {
		fs = append(fs, c05Field{"concurrency", func(pfx string, ind int) {
			if r.Chance(1, 3) {
				g.emit(pfx+"concurrency: ", c05Slot{ctxs: jobCtx, job: job, at: -1, lit: "grp", where: "job concurrency (scalar)"})
				return
			}
			b.W(pfx + "concurrency:\n")
			g.emit(c05Sp(ind+2)+"group: ", c05Slot{ctxs: jobCtx, job: job, at: -1, lit: "grp", where: "job concurrency group"})
		}})
	}
	envProb := 40
	if g.prof == "steps" {
		envProb = 70
	}
	if r.Chance(envProb, 100) {
		fs = append(fs, c05Field{"environment", func(pfx string, ind int) {
			if r.Chance(1, 4) {
				g.emit(pfx+"environment: ", c05Slot{ctxs: jobCtx, job: job, at: -1, lit: "prod", where: "environment (scalar)"})
				return
			}
			b.W(pfx + "environment:\n")
			g.emit(c05Sp(ind+2)+"name: ", c05Slot{ctxs: jobCtx, job: job, at: -1, lit: "prod", where: "environment name"})
			g.emit(c05Sp(ind+2)+"url: ", c05Slot{ctxs: []string{"inputs", "matrix", "needs", "steps"}, job: job, at: c05All, lit: "https://example.com", where: "environment url"})
		}})
	}
	if r.Chance(1, 6) {
		fs = append(fs, c05Field{"container", func(pfx string, ind int) {
			if r.Chance(1, 4) {
				g.emit(pfx+"container: ", c05Slot{ctxs: jobCtx, job: job, at: -1, lit: "alpine:3", where: "container (scalar)"})
				return
			}
			b.W(pfx + "container:\n")
			g.emit(c05Sp(ind+2)+"image: ", c05Slot{ctxs: jobCtx, job: job, at: -1, lit: "alpine:3", where: "container image"})
			if r.Bool() {
				g.envField(c05Sp(ind+2), ind+2, []string{"inputs", "matrix", "needs", "secrets"}, job, -1, "container env")
			}
			if r.Chance(1, 3) {
				g.emit(c05Sp(ind+2)+"options: ", c05Slot{ctxs: jobCtx, job: job, at: -1, lit: "--cpus 1", where: "container options"})
			}
		}})
	}
	if r.Chance(1, 6) {
		fs = append(fs, c05Field{"defaults", func(pfx string, ind int) {
			b.W(pfx + "defaults:\n" + c05Sp(ind+2) + "run:\n")
			g.emit(c05Sp(ind+4)+"working-directory: ", c05Slot{ctxs: jobCtx, job: job, at: -1, lit: "./d", where: "job defaults working-directory"})
		}})
	}
	if len(j.Outputs) > 0 {
		fs = append(fs, c05Field{"outputs", func(pfx string, ind int) {
			b.W(pfx + "outputs:\n")
			for _, o := range j.Outputs {
				g.emit(c05Sp(ind+2)+o+": ", c05Slot{ctxs: []string{"inputs", "matrix", "needs", "secrets", "steps"}, job: job, at: c05All, lit: "fixed", where: "job outputs"})
			}
		}})
	}
	fs = append(fs, c05Field{"steps", func(pfx string, ind int) {
		b.W(pfx + "steps:\n")
		for si := range j.Steps {
			g.step(job, si)
			if r.Chance(1, 10) {
				b.W("\n")
			}
		}
	}})
	g.fields(fs, ind, false)
}

func (g *c05Gen) on(pfx string, ind int) {
	b, r, m := g.b, g.r, g.m
	if m.Push && !m.Call && !m.Dispatch {
		b.W(pfx + r.Pick([]string{"on: push\n", "on: [push]\n", "on:\n  push:\n"}))
		return
	}
	b.W(pfx + "on:\n")
	var fs []c05Field
	if m.Push {
		fs = append(fs, c05Field{"push", func(pfx string, ind int) { b.W(pfx + "push:\n") }})
	}
	if m.Dispatch {
		fs = append(fs, c05Field{"workflow_dispatch", func(pfx string, ind int) {
			b.W(pfx + "workflow_dispatch:\n")
			if len(m.DispatchInputs) == 0 {
				if r.Bool() {
					b.W(c05Sp(ind+2) + "inputs: {}\n")
				}
				return
			}
			b.W(c05Sp(ind+2) + "inputs:\n")
			for _, in := range m.DispatchInputs {
				b.W(c05Sp(ind+4) + in.Name + ":\n")
				b.W(c05Sp(ind+6) + "description: an input\n")
				if in.Type != "" {
					b.W(c05Sp(ind+6) + "type: " + in.Type + "\n")
				}
				if in.Type == "choice" {
					b.W(c05Sp(ind+6) + "options: [one, two]\n")
				}
				if r.Bool() {
					b.W(c05Sp(ind+6) + "required: " + r.Pick([]string{"true", "false"}) + "\n")
				}
			}
		}})
	}
	if m.Call {
		fs = append(fs, c05Field{"workflow_call", func(pfx string, ind int) {
			b.W(pfx + "workflow_call:\n")
			var cs []c05Field
			if len(m.CallInputs) > 0 || r.Chance(1, 4) {
				cs = append(cs, c05Field{"inputs", func(pfx string, ind int) {
					if len(m.CallInputs) == 0 {
						b.W(pfx + "inputs: {}\n")
						return
					}
					b.W(pfx + "inputs:\n")
					for _, in := range m.CallInputs {
						b.W(c05Sp(ind+2) + in.Name + ":\n")
						b.W(c05Sp(ind+4) + "type: " + in.Type + "\n")
						if r.Bool() {
							b.W(c05Sp(ind+4) + "required: " + r.Pick([]string{"true", "false"}) + "\n")
						}
					}
				}})
			}
			if m.SecretsDeclared {
				cs = append(cs, c05Field{"secrets", func(pfx string, ind int) {
					if len(m.Secrets) == 0 {
						b.W(pfx + r.Pick([]string{"secrets: {}\n", "secrets:\n"}))
						return
					}
					b.W(pfx + "secrets:\n")
					for _, s := range m.Secrets {
						b.W(c05Sp(ind+2) + s + ":\n")
						b.W(c05Sp(ind+4) + r.Pick([]string{"required: true\n", "required: false\n", "description: a secret\n"}))
					}
				}})
			}
			if len(m.CallOutputs) > 0 {
				cs = append(cs, c05Field{"outputs", func(pfx string, ind int) {
					b.W(pfx + "outputs:\n")
					for _, o := range m.CallOutputs {
						b.W(c05Sp(ind+2) + o + ":\n")
						var os []c05Field
						if r.Bool() {
							os = append(os, c05Field{"description", func(pfx string, ind int) { b.W(pfx + "description: an output\n") }})
						}
						os = append(os, c05Field{"value", func(pfx string, ind int) {
							g.emit(pfx+"value: ", c05Slot{ctxs: []string{"inputs", "jobs"}, job: -1, at: -1, lit: "fixed", where: "workflow_call output value"})
						}})
						g.fields(os, ind+4, false)
					}
				}})
			}
			g.fields(cs, ind+2, false)
		}})
	}
	g.fields(fs, ind+2, false)
}

// c05NameClass: include / exclude / other; "exclude-without-include" when the object the name
// belongs to does not declare include (the two names are dropped on different code paths).
func c05NameClass(n string, declared []string) string {
	switch {
	case c05Eq(n, "include"):
		return "include"
	case c05Eq(n, "exclude"):
		if !c05Has(declared, "include") {
			return "exclude-without-include"
		}
		return "exclude"
	}
	return "other"
}

// buildForced: for every job whose matrix is a context object, references to all names that object
// declares (and to include / exclude when it does not declare them) from the job itself (job env,
// env of its last step), from the other jobs that see the same entity, and, for inputs, from the
// workflow level.
func (g *c05Gen) buildForced() {
	m := g.m
	g.forcedJob, g.forcedStep = map[int][]c05Pick{}, map[int][]c05Pick{}
	withBoth := func(names []string) []string {
		out := append([]string{}, names...)
		for _, w := range []string{"include", "exclude"} {
			if !c05Has(out, w) {
				out = append(out, w)
			}
		}
		return out
	}
	for ji, j := range m.Jobs {
		if j.Matrix == nil || j.Matrix.ObjExpr == "" {
			continue
		}
		kind := j.Matrix.ObjExpr
		switch kind {
		case "needs-outputs":
			t := m.Jobs[j.Matrix.ObjJob]
			for _, n := range withBoth(t.Outputs) {
				for k, o := range m.Jobs {
					sees := k == ji
					for _, d := range o.Needs {
						if d == j.Matrix.ObjJob {
							sees = true
						}
					}
					if !sees {
						continue
					}
					sub := "matrix-source[needs-outputs]/" + c05NameClass(n, t.Outputs)
					if k != ji {
						sub = "matrix-source-other-job[needs-outputs]/" + c05NameClass(n, t.Outputs)
					}
					p := c05Pick{root: "needs", segs: []string{t.ID, "outputs", n}, class: "needs-output", sub: sub}
					g.forcedJob[k] = append(g.forcedJob[k], p)
					if k == ji && !o.Call {
						g.forcedStep[k] = append(g.forcedStep[k], p)
					}
				}
			}
		case "needs":
			var ids []string
			for _, d := range j.Needs {
				ids = append(ids, m.Jobs[d].ID)
			}
			for _, n := range withBoth(ids) {
				p := c05Pick{root: "needs", segs: []string{n}, class: "needs-job", obj: true, sub: "matrix-source[needs]/" + c05NameClass(n, ids)}
				g.forcedJob[ji] = append(g.forcedJob[ji], p)
				if !j.Call {
					g.forcedStep[ji] = append(g.forcedStep[ji], p)
				}
			}
		case "inputs":
			var names []string
			if m.Call {
				for _, i := range m.CallInputs {
					names = append(names, i.Name)
				}
			}
			if m.Dispatch {
				for _, i := range m.DispatchInputs {
					if !c05Has(names, i.Name) {
						names = append(names, i.Name)
					}
				}
			}
			for _, n := range withBoth(names) {
				nc := c05NameClass(n, names)
				g.forcedWF = append(g.forcedWF, c05Pick{root: "inputs", segs: []string{n}, class: "inputs", sub: "matrix-source-workflow[inputs]/" + nc})
				for k, o := range m.Jobs {
					sub := "matrix-source[inputs]/" + nc
					if k != ji {
						sub = "matrix-source-other-job[inputs]/" + nc
					}
					p := c05Pick{root: "inputs", segs: []string{n}, class: "inputs", sub: sub}
					g.forcedJob[k] = append(g.forcedJob[k], p)
					if k == ji && !o.Call {
						g.forcedStep[k] = append(g.forcedStep[k], p)
					}
				}
			}
		}
	}
}

func c05Render(r *Rand, m *c05Model, prof string) *c05Gen {
	g := &c05Gen{r: r, b: NewYB(), m: m, sc: c05Scope{m}, prof: prof, refProb: []int{45, 65, 85}[r.Intn(3)]}
	b := g.b
	g.buildForced()
	if r.Bool() {
		b.W("name: generated\n")
	}
	var fs []c05Field
	fs = append(fs, c05Field{"on", g.on})
	if r.Chance(1, 4) {
		fs = append(fs, c05Field{"run-name", func(pfx string, ind int) {
			g.emit(pfx+"run-name: ", c05Slot{ctxs: []string{"inputs"}, job: -1, at: -1, lit: "a run", where: "run-name"})
		}})
	}
	envProb := 25
	if prof == "events" {
		envProb = 70
	}
	if r.Chance(envProb, 100) || len(g.forcedWF) > 0 {
		fs = append(fs, c05Field{"env", func(pfx string, ind int) {
			g.envField(pfx, ind, []string{"inputs", "secrets"}, -1, -1, "workflow env")
		}})
	}
	if r.Chance(1, 6) {
		fs = append(fs, c05Field{"concurrency", func(pfx string, ind int) {
			b.W(pfx + "concurrency:\n")
			g.emit("  group: ", c05Slot{ctxs: []string{"inputs"}, job: -1, at: -1, lit: "grp", where: "workflow concurrency group"})
		}})
	}
	fs = append(fs, c05Field{"jobs", func(pfx string, ind int) {
		b.W(pfx + "jobs:\n")
		for k, ji := range m.Order {
			g.job(ji)
			if k+1 < len(m.Order) && r.Chance(1, 3) {
				b.W(r.Pick([]string{"\n", "  # next job\n"}))
			}
		}
	}})
	g.fields(fs, 0, false)
	return g
}
