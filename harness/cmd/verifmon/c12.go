package main

// C12 — context and special-function availability follows GitHub's table exactly.
//
// Golden-model monitor. c12_data.go holds an independent transcription of the documentation table
// and the map "placeholder position class -> table key | none" with one clean template per class.
// This file enumerates the complete cross product position class x (12 contexts + 5 special
// functions) x embeddings through the real Linter and compares the set of availability diagnostics
// (`context "x" is not allowed here`, `calling function "x" is not allowed here`, and `undefined
// variable "jobs"`) with what the golden model predicts, including their exact line and column.
// A second family checks the API boundary (WorkflowKeyAvailability, SpecialFunctionNames,
// ExprSemanticsChecker.Set*Availability); a third one draws random expressions (random nesting,
// letter case, quoting, several names per expression) at random positions.

import (
	"fmt"
	"regexp"
	"sort"
	"strings"

	"github.com/rhysd/actionlint"
)

func init() { registry["C12"] = runC12 }

const c12Marker = "@@"

var c12CtxRe = regexp.MustCompile(`^context "([^"]*)" is not allowed here\. `)
var c12FuncRe = regexp.MustCompile(`^calling function "([^"]*)" is not allowed here\. `)
var c12UndefRe = regexp.MustCompile(`^undefined variable "([^"]*)"\. `)

// c12Obs is one availability verdict as observed / expected: where and about which name.
type c12Obs struct {
	Line, Col int
	Name      string // lower case
	Fn        bool
}

func (o c12Obs) String() string {
	k := "context"
	if o.Fn {
		k = "function"
	}
	return fmt.Sprintf("%d:%d %s %q", o.Line, o.Col, k, o.Name)
}

// c12Observed extracts the availability-class diagnostics of a lint result.
func c12Observed(ds []Diag) map[c12Obs]bool {
	out := map[c12Obs]bool{}
	for _, d := range ds {
		if m := c12CtxRe.FindStringSubmatch(d.Msg); m != nil {
			out[c12Obs{d.Line, d.Col, strings.ToLower(m[1]), false}] = true
		} else if m := c12FuncRe.FindStringSubmatch(d.Msg); m != nil {
			out[c12Obs{d.Line, d.Col, strings.ToLower(m[1]), true}] = true
		} else if m := c12UndefRe.FindStringSubmatch(d.Msg); m != nil {
			// `jobs` is only defined where workflow_call outputs are evaluated; elsewhere actionlint
			// answers "undefined variable", which the property counts as "reported".
			out[c12Obs{d.Line, d.Col, strings.ToLower(m[1]), false}] = true
		}
	}
	return out
}

func c12ObsList(m map[c12Obs]bool) []string {
	l := []string{}
	for o := range m {
		l = append(l, o.String())
	}
	sort.Strings(l)
	return l
}

// ---------------------------------------------------------------------------
// probe expressions

// c12Probe is an expression (without ${{ }}) together with the names it mentions.
type c12Probe struct {
	Expr  string
	Names []c12Name
	Bool  bool // value is of type bool (otherwise string or any)
}

type c12Name struct {
	Off    int    // offset of the name inside Expr
	Lower  string // lower-case name
	Fn     bool
	InHash bool // the name occurs inside the arguments of a hashFiles() call
}

func c12Spell(name string, fn bool) string {
	if fn && strings.EqualFold(name, "hashFiles") {
		return name + "('a')"
	}
	if fn {
		return name + "()"
	}
	return name
}

// c12Leaf: the minimal well-typed use of a name: toJSON(ctx) (string, valid for every context
// type) resp. the call itself.
func c12Leaf(name string, fn bool) c12Probe {
	if fn {
		return c12Probe{Expr: c12Spell(name, true), Names: []c12Name{{Off: 0, Lower: strings.ToLower(name), Fn: true}}, Bool: !strings.EqualFold(name, "hashFiles")}
	}
	return c12Probe{Expr: "toJSON(" + name + ")", Names: []c12Name{{Off: len("toJSON("), Lower: strings.ToLower(name)}}}
}

func (p c12Probe) wrap(pre, post string, isBool bool) c12Probe {
	q := c12Probe{Expr: pre + p.Expr + post, Bool: isBool}
	for _, n := range p.Names {
		n.Off += len(pre)
		q.Names = append(q.Names, n)
	}
	return q
}

// Embeddings of the exhaustive family.
const (
	c12EmbPlain  = "plain"        // toJSON(ctx) / fn()
	c12EmbUpper  = "upper-case"   // toJSON(CTX) / FN()
	c12EmbNested = "nested"       // inside a call, a comparison, a negation and a logical operator
	c12EmbSecond = "second-place" // as the second placeholder of the scalar
)

var c12Embeddings = []string{c12EmbPlain, c12EmbUpper, c12EmbNested, c12EmbSecond}

func c12Embed(emb, name string, fn bool) c12Probe {
	switch emb {
	case c12EmbUpper:
		return c12Leaf(strings.ToUpper(name), fn)
	case c12EmbNested:
		return c12Leaf(name, fn).wrap("format('{0}{1}', 'a', !(", " == 'x') && 'y')", false)
	}
	return c12Leaf(name, fn)
}

// c12Value renders the scalar text for a class. pre is literal text / harmless placeholders placed
// before the probing placeholder (c12Str only). Returns the text and the offset of the probe
// expression inside it.
func c12Value(cl *c12Class, p c12Probe, pre, post string, tight bool) (string, int) {
	sp := " "
	if tight {
		sp = ""
	}
	switch cl.Kind {
	case c12Str:
		head := cl.Prefix + pre + "${{" + sp
		return head + p.Expr + sp + "}}" + post, len(head)
	case c12Bool:
		e := p.Expr
		if !p.Bool {
			e += " == 'x'"
		}
		head := "${{" + sp
		return head + e + sp + "}}", len(head)
	case c12Any:
		head := "${{" + sp + "fromJSON("
		tail := ")" + sp + "}}"
		if p.Bool {
			head += "toJSON("
			tail = ")" + tail
		}
		return head + p.Expr + tail, len(head)
	case c12IfBare:
		if !p.Bool {
			return p.Expr + " == 'x'", 0
		}
		return p.Expr, 0
	}
	panic("c12: unknown kind")
}

// c12Place puts value into the template (plain or double-quoted scalar) and returns the source and
// the line / column of value's first character.
func c12Place(cl *c12Class, value string, dq bool) (string, int, int) {
	i := strings.Index(cl.Src, c12Marker)
	if i < 0 || strings.Count(cl.Src, c12Marker) != 1 {
		panic("c12: template of " + cl.Name + " must contain the marker exactly once")
	}
	line := 1 + strings.Count(cl.Src[:i], "\n")
	col := i - strings.LastIndex(cl.Src[:i], "\n") // 1-based
	if dq {
		value = `"` + value + `"`
		col++
	}
	return cl.Src[:i] + value + cl.Src[i+len(c12Marker):], line, col
}

// c12NeedsQuote: plain scalars must not start with an indicator character.
func c12NeedsQuote(value string) bool {
	if value == "" {
		return true
	}
	c := value[0]
	return !(c >= 'a' && c <= 'z' || c >= 'A' && c <= 'Z' || c == '$' || c == '(')
}

// c12Expect computes the availability diagnostics the golden model predicts for a probe.
func c12Expect(g map[string]*c12Avail, cl *c12Class, p c12Probe, line, col int) (map[c12Obs]bool, int) {
	av := g[cl.Key]
	exp := map[c12Obs]bool{}
	allowed := 0
	for _, n := range p.Names {
		ok := av.Ctx[n.Lower]
		if n.Fn {
			ok = av.Func[n.Lower]
		}
		if ok {
			allowed++
			continue
		}
		exp[c12Obs{line, col + n.Off, n.Lower, n.Fn}] = true
	}
	return exp, allowed
}

type c12Result struct {
	Src      string
	Diags    []Diag
	Missing  []c12Obs // predicted, not observed
	Spurious []c12Obs // observed, not predicted
	Err      error
	ExprCol  int // column of the first character of the probe expression
}

func (r *c12Result) ok() bool { return r.Err == nil && len(r.Missing) == 0 && len(r.Spurious) == 0 }

func c12Run(c *Case, g map[string]*c12Avail, cl *c12Class, p c12Probe, pre, post string, tight, dq bool) (*c12Result, map[c12Obs]bool) {
	value, off := c12Value(cl, p, pre, post, tight)
	if !dq && c12NeedsQuote(value) {
		dq = true
	}
	src, line, col := c12Place(cl, value, dq)
	exp, _ := c12Expect(g, cl, p, line, col+off)
	ds, err := lintSrc(src)
	c.Eval(1)
	res := &c12Result{Src: src, Diags: ds, Err: err, ExprCol: col + off}
	if err != nil {
		return res, exp
	}
	obs := c12Observed(ds)
	for o := range exp {
		if !obs[o] {
			res.Missing = append(res.Missing, o)
		}
	}
	for o := range obs {
		if !exp[o] {
			res.Spurious = append(res.Spurious, o)
		}
	}
	sort.Slice(res.Missing, func(i, j int) bool { return res.Missing[i].String() < res.Missing[j].String() })
	sort.Slice(res.Spurious, func(i, j int) bool { return res.Spurious[i].String() < res.Spurious[j].String() })
	c.Logf("---- %s (key %q)\n%s\nexpected %v\nobserved %v", cl.Name, cl.Key, src, c12ObsList(exp), c12ObsList(obs))
	return res, exp
}

// c12ShortDiags: diagnostics for samples, each cut to a readable length.
func c12ShortDiags(ds []Diag) []string {
	l := []string{}
	for _, d := range ds {
		l = append(l, truncate(d.String(), 160))
	}
	return l
}

func c12KeyLabel(k string) string {
	if k == "" {
		return "none"
	}
	return k
}

func c12Detail(cl *c12Class, res *c12Result, exp map[c12Obs]bool) map[string]interface{} {
	return map[string]interface{}{
		"class": cl.Name, "table_key": c12KeyLabel(cl.Key), "src": res.Src,
		"expected_availability_diagnostics": c12ObsList(exp),
		"missing":                           fmt.Sprint(res.Missing),
		"spurious":                          fmt.Sprint(res.Spurious),
		"diags":                             diagStrings(res.Diags),
	}
}

// c12Baseline asserts that the template with a neutral probe (a string literal) is clean.
func c12Baseline(c *Case, g map[string]*c12Avail, cl *c12Class) bool {
	lit := c12Probe{Expr: "'a'"}
	variants := []struct {
		pre string
	}{{""}, {"${{ 'b' }}-"}}
	for vi, v := range variants {
		if vi > 0 && cl.Kind != c12Str {
			break
		}
		value, _ := c12Value(cl, lit, v.pre, "", false)
		if cl.Kind == c12Bool || cl.Kind == c12IfBare {
			value, _ = c12Value(cl, c12Probe{Expr: "true", Bool: true}, "", "", false)
		}
		if cl.Kind == c12Any {
			value, _ = c12Value(cl, c12Probe{Expr: "toJSON('a')"}, "", "", false)
		}
		src, _, _ := c12Place(cl, value, c12NeedsQuote(value))
		ds, err := lintSrc(src)
		c.Eval(1)
		var bad []Diag
		for _, d := range ds {
			if cl.Noise == "" || !regexp.MustCompile(cl.Noise).MatchString(d.String()) {
				bad = append(bad, d)
			}
		}
		if err != nil || len(bad) > 0 {
			c.Inconclusive(fmt.Sprintf("template of position class %q is not clean with a neutral placeholder: err=%v diags=%v\n%s", cl.Name, err, diagStrings(ds), src))
			return false
		}
	}
	return true
}

type c12Fail struct {
	name string
	fn   bool
	emb  string
	res  *c12Result
	exp  map[c12Obs]bool
}

// c12ClassCase: the complete cross product for one position class.
func c12ClassCase(c *Case, g map[string]*c12Avail, cl *c12Class) {
	if _, ok := g[cl.Key]; !ok {
		c.Inconclusive(fmt.Sprintf("position class %q refers to key %q which is not in the transcribed table", cl.Name, cl.Key))
		return
	}
	if !c12Baseline(c, g, cl) {
		return
	}
	c.SetAdd("position_classes", cl.Name)
	c.SetAdd("table_keys", c12KeyLabel(cl.Key))
	type nm struct {
		name string
		fn   bool
	}
	var names []nm
	for _, n := range c12Contexts {
		names = append(names, nm{n, false})
	}
	for _, n := range c12Funcs {
		names = append(names, nm{n, true})
	}
	var fails []c12Fail
	expReported, missedReported := 0, 0
	for _, n := range names {
		for _, emb := range c12Embeddings {
			if emb == c12EmbSecond && cl.Kind != c12Str {
				continue // a second placeholder is not legal in a single-expression position
			}
			p := c12Embed(emb, n.name, n.fn)
			pre := ""
			if emb == c12EmbSecond {
				pre = "${{ 'a' }}-"
			}
			res, exp := c12Run(c, g, cl, p, pre, "", false, false)
			c.Count("cross_product_lints", 1)
			c.Nontrivial(cl.Name + "|" + n.name + "|" + emb)
			if len(exp) > 0 {
				c.Count("expected_reported", 1)
				c.SetAdd("keys_with_reported_pair", c12KeyLabel(cl.Key))
				expReported++
				if len(res.Missing) > 0 {
					missedReported++
				}
			} else {
				c.Count("expected_allowed", 1)
				c.SetAdd("keys_with_allowed_pair", c12KeyLabel(cl.Key))
			}
			if !res.ok() {
				fails = append(fails, c12Fail{n.name, n.fn, emb, res, exp})
			}
			if c.Idx%23 == 3 && n.name == "secrets" && emb == c12EmbNested {
				c.Sample(map[string]interface{}{"class": cl.Name, "table_key": c12KeyLabel(cl.Key), "src": res.Src, "expected": c12ObsList(exp), "diags": c12ShortDiags(res.Diags)})
			}
		}
	}
	if len(fails) == 0 {
		return
	}
	// classify
	if expReported > 0 && missedReported == expReported {
		f := fails[0]
		c.Violation("C12:position-never-checked:"+cl.Name,
			fmt.Sprintf("position class %q (table key %s): none of the %d contexts / special functions that must be reported there is reported - placeholders at this position are not checked at all", cl.Name, c12KeyLabel(cl.Key), expReported),
			c12Detail(cl, f.res, f.exp))
		return
	}
	plainBad := map[string]bool{}
	for _, f := range fails {
		if f.emb == c12EmbPlain {
			plainBad[f.name] = true
		}
	}
	for _, f := range fails {
		if f.res.Err != nil {
			c.Violation("C12:fatal-error", "linting a probe returned a fatal error: "+f.res.Err.Error(), c12Detail(cl, f.res, f.exp))
			continue
		}
		pol := "not-reported"
		what := "is not reported although the table does not list it for"
		if len(f.res.Missing) == 0 {
			pol = "wrongly-reported"
			what = "is reported (or reported at the wrong place) although the table lists it for"
		} else if len(f.res.Spurious) > 0 {
			pol = "reported-elsewhere"
			what = "is reported away from the placeholder for"
		}
		kind := "context"
		if f.fn {
			kind = "function"
		}
		sig := fmt.Sprintf("C12:%s:%s:%s", pol, kind, cl.Name)
		if f.emb != c12EmbPlain && !plainBad[f.name] {
			sig = fmt.Sprintf("C12:verdict-depends-on-embedding:%s:%s:%s", f.emb, pol, kind)
		}
		c.Violation(sig, fmt.Sprintf("%s %q (embedding %s) %s position class %q governed by key %s; missing=%v spurious=%v", kind, f.name, f.emb, what, cl.Name, c12KeyLabel(cl.Key), f.res.Missing, f.res.Spurious), c12Detail(cl, f.res, f.exp))
	}
}

// ---------------------------------------------------------------------------
// API boundary

func c12SetOf(ss []string) (map[string]bool, bool) {
	m := map[string]bool{}
	clean := true
	for _, s := range ss {
		if m[s] || s != strings.ToLower(s) {
			clean = false
		}
		m[s] = true
	}
	return m, clean
}

func c12SameSet(a, b map[string]bool) bool {
	if len(a) != len(b) {
		return false
	}
	for k := range a {
		if !b[k] {
			return false
		}
	}
	return true
}

func c12Keys(m map[string]bool) []string {
	var l []string
	for k := range m {
		l = append(l, k)
	}
	sort.Strings(l)
	return l
}

// c12SemaVerdict configures a fresh semantics checker with the availability of key and reports
// whether `expr` yields an availability diagnostic.
func c12SemaVerdict(ctx, sp []string, expr string) (reported bool, msgs []string, perr string) {
	p := actionlint.NewExprParser()
	n, err := p.Parse(actionlint.NewExprLexer(expr + "}}"))
	if err != nil {
		return false, nil, err.Error()
	}
	s := actionlint.NewExprSemanticsChecker(false, nil)
	s.UpdateJobs(actionlint.NewEmptyObjectType()) // `jobs` is only defined by the rule when outputs of workflow_call are checked
	s.SetContextAvailability(ctx)
	s.SetSpecialFunctionAvailability(sp)
	_, errs := s.Check(n)
	for _, e := range errs {
		msgs = append(msgs, e.Message)
		if c12CtxRe.MatchString(e.Message) || c12FuncRe.MatchString(e.Message) || c12UndefRe.MatchString(e.Message) {
			reported = true
		}
	}
	return
}

var c12Misspelt = []string{
	"", " ", "ENV", "Env", "env ", " env", "env.", "envs", "run_name", "runname", "Run-Name", "concurrency.group",
	"jobs", "jobs.<job_id>", "jobs.<job_id>.", "jobs.<job-id>.if", "jobs.<jobid>.if", "jobs.job_id.if", "jobs.<job_id>.If", "jobs.<job_id>.IF",
	"jobs.<job_id>.steps", "jobs.<job_id>.steps.", "jobs.<job_id>.steps.with.args", "jobs.<job_id>.steps.with.entrypoint", "jobs.<job_id>.steps.shell",
	"jobs.<job_id>.steps.uses", "jobs.<job_id>.steps.id", "jobs.<job_id>.step.run", "jobs.<job_id>.steps.runs", "jobs.<job_id>.steps.working_directory",
	"jobs.<job_id>.steps.timeout_minutes", "jobs.<job_id>.steps.continue_on_error", "jobs.<job_id>.steps.env.<env_id>",
	"jobs.<job_id>.container.env", "jobs.<job_id>.container.env.<envid>", "jobs.<job_id>.container.options", "jobs.<job_id>.container.ports", "jobs.<job_id>.container.volumes",
	"jobs.<job_id>.services.<service_id>", "jobs.<job_id>.services.<service_id>.env", "jobs.<job_id>.services.<service_id>.image", "jobs.<job_id>.services.credentials",
	"jobs.<job_id>.services.env.<env_id>", "jobs.<job_id>.services.<services_id>.credentials", "jobs.<job_id>.defaults", "jobs.<job_id>.defaults.run.shell", "defaults.run",
	"jobs.<job_id>.strategy.matrix", "jobs.<job_id>.strategy.fail-fast", "jobs.<job_id>.outputs", "jobs.<job_id>.outputs.<outputs_id>", "jobs.<job_id>.with", "jobs.<job_id>.with.<input_id>",
	"jobs.<job_id>.secrets", "jobs.<job_id>.secrets.<secret_id>", "jobs.<job_id>.environment.name", "jobs.<job_id>.runs-on.group", "jobs.<job_id>.needs", "jobs.<job_id>.uses",
	"on.workflow_call.inputs.<input_id>.default", "on.workflow_call.inputs.<inputs_id>.required", "on.workflow_call.outputs.<output_id>", "on.workflow_call.outputs.<outputs_id>.value",
	"on.workflow_dispatch.inputs.<inputs_id>.default", "on", "name", "defaults", "permissions",
}

func c12APICase(c *Case, g map[string]*c12Avail) {
	// the set of special functions
	wantSpecial := map[string]map[string]bool{}
	for _, f := range c12Funcs {
		wantSpecial[strings.ToLower(f)] = map[string]bool{}
	}
	for _, r := range c12DocTable {
		for f := range g[r.Key].Func {
			if wantSpecial[f] == nil {
				c.Inconclusive("the transcribed table names a function outside the five special ones: " + f)
				return
			}
			wantSpecial[f][r.Key] = true
		}
	}
	c.Eval(1)
	gotNames := map[string]bool{}
	for f := range actionlint.SpecialFunctionNames {
		gotNames[f] = true
	}
	wantNames := map[string]bool{}
	for f := range wantSpecial {
		wantNames[f] = true
	}
	if !c12SameSet(gotNames, wantNames) {
		c.Violation("C12:api:special-function-set", fmt.Sprintf("SpecialFunctionNames has keys %v, the table's special functions are %v", c12Keys(gotNames), c12Keys(wantNames)), map[string]interface{}{"got": c12Keys(gotNames), "want": c12Keys(wantNames)})
	}
	for f, want := range wantSpecial {
		got, _ := c12SetOf(actionlint.SpecialFunctionNames[f])
		c.Eval(1)
		if _, ok := actionlint.SpecialFunctionNames[f]; ok && !c12SameSet(got, want) {
			c.Violation("C12:api:special-function-keys:"+f, fmt.Sprintf("SpecialFunctionNames[%q] = %v but the table allows it at %v", f, c12Keys(got), c12Keys(want)), map[string]interface{}{"function": f, "got": c12Keys(got), "want": c12Keys(want)})
		}
	}
	// every key of the table
	check := func(key string, ctx, sp []string, av *c12Avail, tag string) {
		for _, n := range c12Contexts {
			for _, spell := range []string{n, strings.ToUpper(n)} {
				rep, msgs, perr := c12SemaVerdict(ctx, sp, "toJSON("+spell+")")
				c.Eval(1)
				c.Count("api_checker_evaluations", 1)
				if perr != "" {
					c.Violation("C12:api:probe-does-not-parse", perr, map[string]interface{}{"expr": spell})
					return
				}
				if rep == av.Ctx[n] {
					c.Violation("C12:api:checker-verdict:"+tag+":context", fmt.Sprintf("a checker configured with WorkflowKeyAvailability(%q) = (%v, %v) reported=%v for context %q, the table says allowed=%v", key, ctx, sp, rep, spell, av.Ctx[n]), map[string]interface{}{"key": key, "context": spell, "messages": msgs})
				}
			}
		}
		for _, f := range c12Funcs {
			for _, spell := range []string{f, strings.ToUpper(f), strings.ToLower(f)} {
				rep, msgs, perr := c12SemaVerdict(ctx, sp, c12Spell(spell, true))
				c.Eval(1)
				c.Count("api_checker_evaluations", 1)
				if perr != "" {
					c.Violation("C12:api:probe-does-not-parse", perr, map[string]interface{}{"expr": spell})
					return
				}
				if rep == av.Func[strings.ToLower(f)] {
					c.Violation("C12:api:checker-verdict:"+tag+":function", fmt.Sprintf("a checker configured with WorkflowKeyAvailability(%q) = (%v, %v) reported=%v for function %q, the table says allowed=%v", key, ctx, sp, rep, spell, av.Func[strings.ToLower(f)]), map[string]interface{}{"key": key, "function": spell, "messages": msgs})
				}
			}
		}
	}
	for _, r := range c12DocTable {
		av := g[r.Key]
		ctx, sp := actionlint.WorkflowKeyAvailability(r.Key)
		c.Eval(1)
		c.SetAdd("api_keys", r.Key)
		c.Nontrivial("api|" + r.Key)
		gc, cleanC := c12SetOf(ctx)
		gs, cleanS := c12SetOf(sp)
		if !cleanC || !cleanS {
			c.Violation("C12:api:table-entry-not-lower-case-or-duplicated", fmt.Sprintf("WorkflowKeyAvailability(%q) = (%v, %v) contains a duplicate or a name that is not lower case (the checker compares lower-cased names)", r.Key, ctx, sp), map[string]interface{}{"key": r.Key, "contexts": ctx, "functions": sp})
		}
		if !c12SameSet(gc, av.Ctx) {
			c.Violation("C12:api:table-contexts:"+r.Key, fmt.Sprintf("WorkflowKeyAvailability(%q) contexts = %v, documentation table says %v", r.Key, c12Keys(gc), c12Keys(av.Ctx)), map[string]interface{}{"key": r.Key, "got": c12Keys(gc), "want": c12Keys(av.Ctx)})
		}
		if !c12SameSet(gs, av.Func) {
			c.Violation("C12:api:table-functions:"+r.Key, fmt.Sprintf("WorkflowKeyAvailability(%q) special functions = %v, documentation table says %v", r.Key, c12Keys(gs), c12Keys(av.Func)), map[string]interface{}{"key": r.Key, "got": c12Keys(gs), "want": c12Keys(av.Func)})
		}
		check(r.Key, ctx, sp, av, "table-key")
	}
	// keys that are not in the table
	for _, k := range c12Misspelt {
		if _, ok := g[k]; ok && k != "" {
			c.Inconclusive("misspelt key list contains a real key: " + k)
			return
		}
		ctx, sp := actionlint.WorkflowKeyAvailability(k)
		c.Eval(1)
		c.Nontrivial("api-misspelt|" + k)
		c.Count("api_misspelt_keys", 1)
		if len(ctx) != 0 || len(sp) != 0 {
			c.Violation("C12:api:unknown-key-has-availability", fmt.Sprintf("WorkflowKeyAvailability(%q) = (%v, %v) for a key that is not in the table", k, ctx, sp), map[string]interface{}{"key": k, "contexts": ctx, "functions": sp})
			continue
		}
		check(k, ctx, sp, g[""], "unknown-key")
	}
}

// ---------------------------------------------------------------------------
// random embeddings

func c12RandCase(r *Rand, s string) string {
	switch r.Intn(3) {
	case 0:
		return s
	case 1:
		return strings.ToUpper(s)
	}
	b := []byte(s)
	for i := range b {
		if r.Bool() {
			b[i] = strings.ToUpper(string(b[i]))[0]
		} else {
			b[i] = strings.ToLower(string(b[i]))[0]
		}
	}
	return string(b)
}

// c12RandExpr builds a random expression that contains every probe of leaves exactly once; all
// other leaves are literals. Every operator / call used accepts operands of any type.
func c12RandExpr(r *Rand, leaves []c12Probe, depth int) c12Probe {
	lits := []string{"'s'", "1", "true", "null", "''", "0x1f", "'it''s'"}
	if len(leaves) == 0 {
		return c12Probe{Expr: r.Pick(lits)}
	}
	if len(leaves) == 1 && (depth <= 0 || r.Intn(4) == 0) {
		return leaves[0]
	}
	if len(leaves) == 1 {
		sub := c12RandExpr(r, leaves, depth-1)
		switch r.Intn(7) {
		case 5: // inside the arguments of the only special function that takes arguments
			return c12HashCall(sub.wrap("toJSON(", ")", false), c12RandCase(r, "hashFiles"), "")
		case 6:
			return c12HashCall(sub.wrap("toJSON(", ")", false), c12RandCase(r, "hashFiles"), "'p', ")
		case 0:
			return sub.wrap("(", ")", sub.Bool)
		case 1:
			return sub.wrap("!", "", true)
		case 2:
			return sub.wrap("toJSON(", ")", false)
		case 3:
			return sub.wrap("format('{0}', ", ")", false)
		}
		// binary with a literal on one side
		lit := r.Pick(lits)
		op := r.Pick([]string{" && ", " || ", " == ", " != "})
		if r.Bool() {
			return sub.wrap("", op+lit, false)
		}
		return sub.wrap(lit+op, "", false)
	}
	k := 1 + r.Intn(len(leaves)-1)
	a := c12RandExpr(r, leaves[:k], depth-1)
	b := c12RandExpr(r, leaves[k:], depth-1)
	var pre, mid, post string
	switch r.Intn(4) {
	case 0:
		pre, mid, post = "format('{0}{1}', ", ", ", ")"
	case 1:
		pre, mid, post = "(", r.Pick([]string{" && ", " || "}), ")"
	case 2:
		pre, mid, post = "", r.Pick([]string{" == ", " != ", " && ", " || "}), ""
	default:
		pre, mid, post = "format('{1}-{0}', ", ",", ")"
	}
	q := a.wrap(pre, mid, false)
	off := len(q.Expr)
	q.Expr += b.Expr + post
	for _, n := range b.Names {
		n.Off += off
		q.Names = append(q.Names, n)
	}
	if r.Intn(4) == 0 {
		q = c12HashCall(q.wrap("toJSON(", ")", false), c12RandCase(r, "hashFiles"), "")
	}
	return q
}

// c12AllInsideHash: every missing verdict belongs to a name inside the arguments of a hashFiles()
// call (names are identified by their column relative to the start of the expression).
func c12AllInsideHash(p c12Probe, res *c12Result) bool {
	if len(res.Missing) == 0 {
		return false
	}
	for _, m := range res.Missing {
		inside := false
		for _, n := range p.Names {
			if res.ExprCol+n.Off == m.Col && n.Lower == m.Name && n.Fn == m.Fn && n.InHash {
				inside = true
			}
		}
		if !inside {
			return false
		}
	}
	return true
}

// c12PlainOnly: positions whose column bookkeeping in actionlint ignores YAML quoting (bare `if:`
// conditions and raw matrix values are located as if the scalar were plain, so every diagnostic
// inside a quoted scalar is one column to the left). Column precision is not part of this
// property, so these classes are probed with plain scalars only.
func c12PlainOnly(cl *c12Class) bool {
	return cl.Kind == c12IfBare || strings.Contains(cl.Name, ".strategy.matrix.")
}

// c12NeverChecked: control probes with a context that no row allows at this class (`jobs`, and
// `env` for the one row that allows `jobs`): if neither is reported the position is not checked.
func c12NeverChecked(c *Case, g map[string]*c12Avail, cl *c12Class) bool {
	for _, n := range []string{"jobs", "env"} {
		res, exp := c12Run(c, g, cl, c12Leaf(n, false), "", "", false, false)
		if len(exp) > 0 && len(res.Missing) == 0 {
			return false
		}
	}
	return true
}

func c12RandomCase(c *Case, g map[string]*c12Avail, classes []*c12Class) {
	const per = 20
	for k := 0; k < per; k++ {
		r := c.R
		cl := classes[r.Intn(len(classes))]
		nn := 1 + r.Intn(3)
		var leaves []c12Probe
		for i := 0; i < nn; i++ {
			if r.Intn(3) == 0 {
				leaves = append(leaves, c12Leaf(c12RandCase(r, r.Pick(c12Funcs)), true))
			} else {
				leaves = append(leaves, c12Leaf(c12RandCase(r, r.Pick(c12Contexts)), false))
			}
		}
		p := c12RandExpr(r, leaves, 3)
		p.Bool = cl.Kind == c12Any // the value may be of any type: c12Any positions get fromJSON(toJSON(..)), bool positions (..) == 'x'
		pre, post := "", ""
		if cl.Kind == c12Str {
			filler := []string{"", "x", "a-b ", "${{ 'k' }}", "${{ 1 }}/", "pre ${{ true }} ", "x}} ", "{{.ID}} ", "$ ${ } ", "a }} ${{ 'k' }} {{ "}
			pre = r.Pick(filler)
			if c12SilentText(cl, c12HostileValue(pre+"${{")) {
				pre = "x"
			}
			if c12PlainOnly(cl) && pre != "" && c12NeedsQuote(cl.Prefix+pre) {
				pre = "x" + pre // keep the scalar plain (see c12PlainOnly)
			}
			post = r.Pick([]string{"", "", " tail", "-${{ 'z' }}", "/${{ 0 }}.txt", " }} {{ x", " ${ $"})
		}
		if cl.Kind == c12Bool || cl.Kind == c12IfBare {
			p = p.wrap("(", ")", false)
		}
		tight, dq := r.Intn(3) == 0, r.Intn(3) == 0
		if c12PlainOnly(cl) {
			dq = false
		}
		res, exp := c12Run(c, g, cl, p, pre, post, tight, dq)
		c.Count("random_lints", 1)
		c.SetAdd("random_position_classes", cl.Name)
		if len(exp) > 0 {
			c.Count("random_expected_reported", 1)
		}
		if len(exp) < len(p.Names) {
			c.Count("random_expected_allowed", 1)
		}
		c.Nontrivial("rnd|" + res.Src)
		if c.Idx < 2 && k < 2 {
			c.Sample(map[string]interface{}{"class": cl.Name, "table_key": c12KeyLabel(cl.Key), "src": res.Src, "expected": c12ObsList(exp), "diags": c12ShortDiags(res.Diags)})
		}
		if res.ok() {
			continue
		}
		if res.Err != nil {
			c.Violation("C12:fatal-error", "linting a probe returned a fatal error: "+res.Err.Error(), c12Detail(cl, res, exp))
			continue
		}
		if len(res.Spurious) == 0 && len(c12Observed(res.Diags)) == 0 && c12NeverChecked(c, g, cl) {
			c.Violation("C12:position-never-checked:"+cl.Name, fmt.Sprintf("position class %q (table key %s): nothing is reported, not even the control probes toJSON(jobs) and toJSON(env) - placeholders at this position are not checked at all", cl.Name, c12KeyLabel(cl.Key)), c12Detail(cl, res, exp))
			continue
		}
		if cl.Kind == c12Str && c12HostileValue(pre+"${{") && len(res.Spurious) == 0 {
			if ctrl, _ := c12Run(c, g, cl, p, "x", post, tight, dq); ctrl.ok() {
				c.Violation("C12:verdict-depends-on-surrounding-text:"+c12HostileSig+":not-reported",
					fmt.Sprintf("random embedding at position class %q (key %s): with the literal text %q in front of the placeholder the predicted reports are missing (%v); with the text \"x\" instead they are all there", cl.Name, c12KeyLabel(cl.Key), pre, res.Missing), c12Detail(cl, res, exp))
				continue
			}
		}
		if !g[cl.Key].Func["hashfiles"] && len(res.Spurious) == 0 && c12AllInsideHash(p, res) {
			c.Violation("C12:context-in-arguments-of-unavailable-function-not-reported",
				fmt.Sprintf("random embedding at position class %q (key %s): every unreported name sits inside the arguments of a hashFiles() call that is itself unavailable there; missing=%v", cl.Name, c12KeyLabel(cl.Key), res.Missing), c12Detail(cl, res, exp))
			continue
		}
		pol := "not-reported"
		if len(res.Missing) == 0 {
			pol = "wrongly-reported"
		}
		c.Violation("C12:random:"+pol+":"+cl.Name, fmt.Sprintf("random embedding at position class %q (key %s): missing=%v spurious=%v", cl.Name, c12KeyLabel(cl.Key), res.Missing, res.Spurious), c12Detail(cl, res, exp))
	}
}

// ---------------------------------------------------------------------------

func runC12(r *Run) {
	r.Rule = "complete cross product: every placeholder position class of the workflow syntax (one clean template each) x 12 contexts + 5 special functions x embeddings {toJSON(ctx) / fn(), upper-case name, nested in call+comparison+negation+logical operator, second placeholder of the scalar}; expected availability diagnostics (exact line:col) from an independently transcribed documentation table and a position->key map. Plus the API boundary (WorkflowKeyAvailability over all table keys and misspelt keys, SpecialFunctionNames, a semantics checker configured with the result) the sibling sections of the probed position (every matrix position x include / exclude / rows shapes, every job position with all other job sections before / after in mapping, scalar and expression forms, call jobs, step kinds, container / services / environment / concurrency / runs-on sub-fields: about 1290 position x neighbour-shape cases x 17 names), every list-valued position x lists of 2-4 elements x probed element index x literal / whole-value-expression / mixed siblings x probe shape {whole value, text before, text after, both} every class x 12 contexts x 11 spellings of the access (ctx.prop, ctx['prop'], CTX['PROP'], computed index, as an index, as an argument, under !, in a comparison, bare, two levels deep) and random expressions with 1-3 names in random letter case, nesting (also inside hashFiles arguments), quoting and surrounding text. Surrounding literal text and YAML style: every class x 16 text variants (`}}`, `{{`, `}`, `${`, `$`, JSON, go-template before/after the placeholder, on earlier lines of block scalars, inside a string literal of the expression) x 7 scalar styles (plain, single-, double-quoted, literal, folded, with and without strip chomping), two rotating names per lint. Several names in one expression: every class x 12 contexts inside the arguments of hashFiles (7 shapes; both verdicts predicted independently) and every class x 17x17 ordered name pairs as arguments of one call / operands of one operator. Non-trivial = distinct (class, name, embedding) triple, (class, context, hashFiles shape), (class, name, name), distinct API key, distinct random workflow."
	r.Assume("the governing table key of a sub-field without a row of its own is the row of the enclosing mapping (container.ports -> jobs.<job_id>.container, services.<id>.image -> jobs.<job_id>.services, strategy.* -> jobs.<job_id>.strategy, with.args -> jobs.<job_id>.steps.with, env var names -> the row of the env mapping)")
	r.Assume("`undefined variable \"jobs\"` counts as reporting the jobs context where it is not available")
	r.Assume("only availability-class diagnostics are compared; any other diagnostic of a probe workflow is ignored")
	r.Assume("exact line:col is compared only where the source text of the scalar equals its value (plain scalars, quoted scalars without escapes, except raw matrix values); for block scalars and escaped quoted scalars the set of reported names is compared")
	r.Assume("silent class: `steps[*].id` with a literal `}}` before the first placeholder - actionlint decides with ContainsExpression() (`${{` before the first `}}`) whether a step id is a template, so such an id is taken literally; likewise a bare `if:` value is one expression as a whole, so it gets no surrounding text")
	r.Assume("calls are well-typed (hashFiles only gets string arguments): for a call whose arguments do not match any signature actionlint reports the signature error instead of the availability of the callee")
	r.Assume("a scalar contains at most one placeholder that mentions a context or special function (actionlint stops checking a scalar at its first faulty placeholder)")

	g := c12Golden()
	classes := c12Classes()
	seen := map[string]bool{}
	for _, cl := range classes {
		if seen[cl.Name] {
			r.Inconclusive("duplicate position class name " + cl.Name)
			return
		}
		seen[cl.Name] = true
	}

	ncases := c12NeighbourCases(classes)
	lcases := c12ListCases()
	fams := []*Family{
		{Name: "api-boundary", N: 1, Do: func(c *Case) { c12APICase(c, g) }},
		{Name: "cross-product", N: len(classes), Do: func(c *Case) { c12ClassCase(c, g, classes[c.Idx]) }},
		{Name: "hashfiles-arguments", N: len(classes), Do: func(c *Case) { c12HashArgsCase(c, g, classes[c.Idx]) }},
		{Name: "name-pairs", N: len(classes), Do: func(c *Case) { c12PairsCase(c, g, classes[c.Idx]) }},
		{Name: "surrounding-text", N: len(classes), Do: func(c *Case) { c12TextCase(c, g, classes[c.Idx], c.Idx) }},
		{Name: "neighbours", N: len(ncases), Do: func(c *Case) { c12NeighbourCase(c, g, ncases[c.Idx]) }},
		{Name: "list-elements", N: len(lcases), Do: func(c *Case) { c12ListCase(c, g, lcases[c.Idx]) }},
		{Name: "access-spelling", N: len(classes), Do: func(c *Case) { c12SpellingCase(c, g, classes[c.Idx]) }},
		{Name: "random-embedding", N: r.Q(1000, 40000), Do: func(c *Case) { c12RandomCase(c, g, classes) }},
	}
	r.RunFamilies(fams)
	r.SetExhaustive(true)
	r.Extra("exhaustive_bound", fmt.Sprintf("%d position classes x (12 contexts + 5 special functions) x 4 embeddings (3 where a scalar holds a single expression); %d table keys + %d misspelt keys at the API", len(classes), len(c12DocTable), len(c12Misspelt)))
	if r.ReplayOf != nil {
		return
	}
	// coverage floors
	if n := r.SetLen("position_classes"); n != len(classes) {
		r.Inconclusive(fmt.Sprintf("only %d of %d position classes were exercised", n, len(classes)))
	}
	for _, row := range c12DocTable {
		if !r.SetHas("table_keys", row.Key) {
			r.Inconclusive("no position class exercises table key " + row.Key)
		}
		if !r.SetHas("keys_with_allowed_pair", row.Key) || !r.SetHas("keys_with_reported_pair", row.Key) {
			r.Inconclusive("table key " + row.Key + " was not observed with both an allowed and a reported name")
		}
		if !r.SetHas("api_keys", row.Key) {
			r.Inconclusive("API check did not reach key " + row.Key)
		}
	}
	for _, want := range []string{"hashFiles allowed=false, context in its arguments allowed=false", "hashFiles allowed=false, context in its arguments allowed=true", "hashFiles allowed=true, context in its arguments allowed=false", "hashFiles allowed=true, context in its arguments allowed=true"} {
		if !r.SetHas("hashfiles_argument_verdict_combinations", want) {
			r.Inconclusive("hashfiles-arguments family never observed the combination: " + want)
		}
	}
	if r.Counter("name_pairs_both_reported") == 0 {
		r.Inconclusive("name-pairs family never had two unavailable names in one expression")
	}
	c12TextFloors(r, g)
	c12NeighbourFloors(r, ncases)
	c12ListFloors(r, lcases)
	c12SpellingFloors(r, g, classes)
	if !r.SetHas("table_keys", "none") {
		r.Inconclusive("no position class outside the table was exercised")
	}
}
