package main

// C08: hand-written templates (marked with c08N like the generated ones) for which every single
// occurrence is flipped to upper / lower / swapped case exhaustively, plus all-lower and all-upper.
// They pin the shapes named in the design (fromJSON('{"Foo":1}').foo, needs / steps / matrix /
// inputs / secrets / outputs pairs, with: keys of a bundled action, safe function calls around an
// untrusted input, a job that needs itself) independently of what the random generator draws.

import "strings"

func c08FixedTemplates() []string {
	N := c08N
	ctx := func(s string) string { return N("context-name", s) }
	fn := func(s string) string { return N("function-name", s) }
	kw := func(s string) string { return N("property-keyword", s) }
	bp := func(s string) string { return N("property-builtin", s) }
	j := func(lines ...string) string { return strings.Join(lines, "\n") + "\n" }
	return []string{
		// 0: keys of a JSON literal passed to fromJSON
		j("on: push", "jobs:", "  "+N("job-id-def", "Job1")+":", "    runs-on: ubuntu-latest", "    steps:",
			"      - run: echo ${{ "+fn("fromJSON")+"('{\""+N("fromjson-literal-key", "Foo")+"\":1,\""+N("fromjson-literal-key", "bar")+"\":{\""+N("fromjson-literal-key", "Baz")+"\":\"x\"}}')."+N("fromjson-prop-use", "Foo")+" }}",
			"      - run: echo ${{ "+fn("fromJSON")+"('{\""+N("fromjson-literal-key", "Outer")+"\":{\""+N("fromjson-literal-key", "Inner")+"\":\"x\"}}')."+N("fromjson-prop-use", "Outer")+"."+N("fromjson-prop-use", "Inner")+" }}"),
		// 1: step ids, outputs of a bundled action, with: keys
		j("on: push", "jobs:", "  "+N("job-id-def", "build")+":", "    runs-on: ubuntu-latest", "    steps:",
			"      - id: "+N("step-id-def", "Cache_1"), "        uses: actions/cache@v4", "        with:",
			"          "+N("with-key-popular", "path")+": p", "          "+N("with-key-popular", "key")+": k",
			"      - run: echo ${{ "+ctx("steps")+"."+N("step-id-use", "Cache_1")+"."+kw("outputs")+"."+N("step-output-use-popular", "cache-hit")+" }} ${{ "+ctx("steps")+"."+N("step-id-use", "Cache_1")+"."+kw("conclusion")+" }}",
			"      - id: "+N("step-id-def", "Run2"), "        run: echo ${{ "+ctx("steps")+"."+N("step-id-use", "nosuch")+"."+kw("outcome")+" }}",
			"      - run: echo ${{ "+ctx("steps")+"."+N("step-id-use", "Run2")+"."+kw("outputs")+"."+N("step-output-use-run", "Any_Thing")+" }}"),
		// 2: job ids in keys / needs: / needs.x, job outputs
		j("on: push", "jobs:", "  "+N("job-id-def", "Build")+":", "    runs-on: ubuntu-latest",
			"    outputs:", "      "+N("job-output-def", "Ver")+": ${{ "+ctx("github")+"."+bp("sha")+" }}",
			"    steps:", "      - run: echo",
			"  "+N("job-id-def", "test-All")+":", "    needs: ["+N("needs-entry", "Build")+"]", "    runs-on: ubuntu-latest", "    steps:",
			"      - run: echo ${{ "+ctx("needs")+"."+N("needs-ctx-use", "Build")+"."+kw("outputs")+"."+N("job-output-use", "Ver")+" }} ${{ "+ctx("needs")+"."+N("needs-ctx-use", "Build")+"."+kw("result")+" }}",
			"  "+N("job-id-def", "deploy")+":", "    needs:", "      - "+N("needs-entry", "test-All"), "      - "+N("needs-entry", "Ghost"), "    runs-on: ubuntu-latest", "    steps:",
			"      - run: echo ${{ "+ctx("needs")+"."+N("needs-ctx-use", "Build")+"."+kw("result")+" }} ${{ "+ctx("needs")+"."+N("needs-ctx-use", "test-All")+"."+kw("outputs")+"."+N("job-output-use", "nope")+" }}"),
		// 3: matrix keys
		j("on: push", "jobs:", "  "+N("job-id-def", "m")+":", "    strategy:", "      matrix:",
			"        "+N("matrix-row-key", "OS")+": [ubuntu-latest, macos-latest]",
			"        "+N("matrix-row-key", "cfg")+":", "          - {"+N("matrix-nested-key", "Name")+": a, "+N("matrix-nested-key", "ver")+": 1}",
			"        "+N("matrix-row-key", "Lang")+":", "          - Alpha", "          - beta",
			"        include:", "          - "+N("matrix-include-key", "Extra")+": 1", "            "+N("matrix-include-key", "Lang")+": Alpha",
			"        exclude:", "          - "+N("matrix-exclude-key", "Lang")+": beta",
			"    runs-on: ${{ "+ctx("matrix")+"."+N("matrix-use", "OS")+" }}", "    steps:",
			"      - run: echo ${{ "+ctx("matrix")+"."+N("matrix-use", "cfg")+"."+N("matrix-nested-use", "Name")+" }} ${{ "+ctx("matrix")+"."+N("matrix-use", "Extra")+" }} ${{ "+ctx("matrix")+"."+N("matrix-use", "Lang")+" }} ${{ "+ctx("matrix")+"."+N("matrix-use", "missing")+" }}"),
		// 4: workflow_dispatch inputs
		j("on:", "  workflow_dispatch:", "    inputs:", "      "+N("dispatch-input-def", "Log_Level")+":", "        type: string", "      "+N("dispatch-input-def", "dry-run")+":", "        type: boolean",
			"jobs:", "  "+N("job-id-def", "j")+":", "    runs-on: ubuntu-latest", "    steps:",
			"      - run: echo ${{ "+ctx("inputs")+"."+N("input-use", "Log_Level")+" }} ${{ "+ctx("github")+"."+bp("event")+"."+bp("inputs")+"."+N("event-input-use", "dry-run")+" }} ${{ "+ctx("inputs")+"."+N("input-use", "undefined_one")+" }}"),
		// 5: workflow_call inputs / secrets / outputs, jobs context
		j("on:", "  workflow_call:", "    inputs:", "      "+N("call-input-def", "Target")+":", "        type: string", "        required: true",
			"    secrets:", "      "+N("call-secret-def", "Deploy_Token")+":", "        required: true",
			"    outputs:", "      "+N("call-output-def", "Url")+":", "        value: ${{ "+ctx("jobs")+"."+N("jobs-ctx-use", "Pub")+"."+kw("outputs")+"."+N("job-output-use", "Link")+" }}",
			"jobs:", "  "+N("job-id-def", "Pub")+":", "    runs-on: ubuntu-latest",
			"    outputs:", "      "+N("job-output-def", "Link")+": ${{ "+ctx("steps")+"."+N("step-id-use", "S")+"."+kw("outputs")+"."+N("step-output-use-run", "u")+" }}",
			"    steps:", "      - id: "+N("step-id-def", "S"), "        run: echo ${{ "+ctx("inputs")+"."+N("input-use", "Target")+" }} ${{ "+ctx("secrets")+"."+N("secret-use", "Deploy_Token")+" }} ${{ "+ctx("secrets")+"."+N("secret-use", "GITHUB_TOKEN")+" }} ${{ "+ctx("secrets")+"."+N("secret-use", "Other")+" }}"),
		// 6: function names, contexts, untrusted input, safe function call, availability
		j("on: pull_request", "env:", "  A: ${{ "+ctx("matrix")+"."+N("matrix-use", "x")+" }}", "jobs:", "  "+N("job-id-def", "f")+":", "    runs-on: ubuntu-latest",
			"    if: "+fn("always")+"() && "+fn("startsWith")+"("+ctx("github")+"."+bp("ref")+", 'refs/')", "    steps:",
			"      - run: echo ${{ "+fn("contains")+"("+ctx("github")+"."+bp("event")+"."+bp("pull_request")+"."+bp("title")+", 'x') }} ${{ "+ctx("github")+"."+bp("event")+"."+bp("pull_request")+"."+bp("body")+" }}",
			"      - run: echo ${{ "+fn("toJSON")+"("+ctx("runner")+") }} ${{ "+fn("format")+"('{0}', "+ctx("runner")+"."+bp("os")+") }} ${{ "+fn("hashFiles")+"('a') }} ${{ "+fn("noSuchFn")+"(1) }}",
			"      - run: echo ${{ "+ctx("github")+"."+bp("repositoryUrl")+" }} ${{ "+ctx("strategy")+"."+bp("job-index")+" }} ${{ "+ctx("job")+"."+bp("status")+" }} ${{ "+ctx("env")+"."+N("property-map", "A")+" }} ${{ "+ctx("vars")+"."+N("property-map", "Some_Var")+" }}",
			"        env:", "          B: ${{ "+fn("success")+"() }}"),
		// 7: a job that needs itself and refers to itself through needs
		j("on: push", "jobs:", "  "+N("job-id-def(self-needs)", "Loop")+":", "    needs: "+N("needs-entry(self)", "Loop"), "    runs-on: ubuntu-latest", "    steps:",
			"      - run: echo ${{ "+ctx("needs")+"."+N("needs-ctx-use(self)", "Loop")+"."+kw("result")+" }}"),
		// 8: duplicate step id (intended duplicate, one spelling)
		j("on: push", "jobs:", "  "+N("job-id-def", "d")+":", "    runs-on: ubuntu-latest", "    steps:",
			"      - id: "+N("step-id-def", "Same"), "        run: echo", "      - id: "+N("step-id-def", "Same"), "        run: echo ${{ "+ctx("steps")+"."+N("step-id-use", "Same")+"."+kw("outcome")+" }}"),
		// 9: missing / undefined inputs of a bundled action
		j("on: push", "jobs:", "  "+N("job-id-def", "a")+":", "    runs-on: ubuntu-latest", "    steps:",
			"      - uses: actions/cache@v4", "        with:", "          "+N("with-key-popular", "path")+": p", "          "+N("with-key-popular", "No_Such")+": k",
			"      - uses: actions/github-script@v7", "        with:", "          "+N("with-key-popular", "script")+": console.log(${{ "+ctx("github")+"."+bp("head_ref")+" }})"),
		// 10: string index literals (reported under index-literal:*)
		j("on: pull_request", "jobs:", "  "+N("job-id-def", "Build")+":", "    runs-on: ubuntu-latest", "    outputs:", "      "+N("job-output-def", "Out")+": x", "    steps:", "      - run: echo",
			"  "+N("job-id-def", "use")+":", "    needs: "+N("needs-entry", "Build"), "    runs-on: ubuntu-latest", "    steps:",
			"      - id: "+N("step-id-def", "St"), "        run: echo ${{ "+ctx("needs")+"['"+N("index-literal:needs-ctx-use", "Build")+"']['"+N("index-literal:property-keyword", "outputs")+"']['"+N("index-literal:job-output-use", "Out")+"'] }}",
			"      - run: echo ${{ "+ctx("steps")+"['"+N("index-literal:step-id-use", "St")+"']."+kw("outcome")+" }} ${{ "+ctx("github")+"['"+N("index-literal:property-builtin", "event_name")+"'] }} ${{ "+ctx("github")+"."+bp("event")+"['"+N("index-literal:untrusted-path", "pull_request")+"']['"+N("index-literal:untrusted-path", "title")+"'] }}"),
		// matrix rows given by expressions: the exclude / include checks skip such rows, whatever the
		// letter case of the key that names them (round 10)
		j("on: push", "jobs:", "  "+N("job-id-def", "mx")+":", "    strategy:", "      matrix:",
			"        "+N("matrix-row-key", "os")+": ${{ "+fn("fromJSON")+"('[\"linux\",\"mac\"]') }}",
			"        "+N("matrix-row-key", "Arch")+": [x64, arm]",
			"        "+N("matrix-row-key", "node")+": ${{ "+fn("fromJSON")+"("+ctx("vars")+"."+N("property-map", "NODES")+") }}",
			"        include:", "          - "+N("matrix-include-key", "Os")+": bsd", "            "+N("matrix-include-key", "extra")+": 1",
			"        exclude:", "          - "+N("matrix-exclude-key", "os")+": mac", "          - "+N("matrix-exclude-key", "Node")+": 12", "            "+N("matrix-exclude-key", "arch")+": arm",
			"    runs-on: ubuntu-latest", "    steps:",
			"      - run: echo ${{ "+ctx("matrix")+"."+N("matrix-use", "os")+" }} ${{ "+ctx("matrix")+"."+N("matrix-use", "node")+" }} ${{ "+ctx("matrix")+"."+N("matrix-use", "arch")+" }}"),
	}
}

// c08FixedEdits enumerates the variants of one template: every occurrence alone in upper, lower and
// swapped case, then all occurrences lower and all upper.
func c08FixedEdits(occs []c08Occ) [][]c08Edit {
	var out [][]c08Edit
	var lower, upper []c08Edit
	for i, o := range occs {
		for _, to := range []string{strings.ToUpper(o.Text), strings.ToLower(o.Text), c08Swap(o.Text)} {
			if to != o.Text {
				out = append(out, []c08Edit{{i, o.Site, o.File, o.Text, to}})
			}
		}
		if l := strings.ToLower(o.Text); l != o.Text {
			lower = append(lower, c08Edit{i, o.Site, o.File, o.Text, l})
		}
		if u := strings.ToUpper(o.Text); u != o.Text {
			upper = append(upper, c08Edit{i, o.Site, o.File, o.Text, u})
		}
	}
	if len(lower) > 0 {
		out = append(out, lower)
	}
	if len(upper) > 0 {
		out = append(out, upper)
	}
	return out
}
