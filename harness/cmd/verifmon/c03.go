package main

// C03 — every ${{ }} placeholder in a workflow is checked.
//
// Mutation monitor. Bases: the maximal clean templates of c03_templates.go and every clean file of
// testdata/ok and testdata/examples of the repository. Each base is decoded with yaml.v3; for every
// scalar that is a mapping value or a sequence element the scalar's text in the source is replaced
// (text level, verified by decoding the mutated source again and comparing the two trees) by a
// malformed placeholder, the mutant is linted with the real Linter and the diagnostics located at
// the scalar are inspected.

import (
	"bytes"
	"fmt"
	"os"
	"path/filepath"
	"regexp"
	"sort"
	"strings"
	"unicode/utf8"

	"gopkg.in/yaml.v3"
)

func init() { registry["C03"] = runC03 }

// ---------------------------------------------------------------------------
// placeholder forms

type c03Form struct {
	Name   string
	Text   string
	Closed bool // closed-and-malformed: strong expectation applies
}

var c03Forms = []c03Form{
	{"deref-eof", "${{ github. }}", true},
	{"lone-not", "${{ ! }}", true},
	{"open-string", "${{ 'a }}", true},
	{"two-idents", "${{ a b }}", true},
	{"unclosed", "${{ a", false},
}

// messages produced by expr_lexer.go / expr_parser.go (and nothing else in the expression rule)
var c03SyntaxRe = regexp.MustCompile(`^(got unexpected (EOF|character .*) while lexing |unexpected EOF while lexing expression|unexpected (end of input|token "[^"]*") while parsing |parser did not reach end of input after parsing the expression|parsing invalid (integer|float) literal )`)

func c03IsSyntaxError(d Diag) bool {
	return d.Kind == "expression" && c03SyntaxRe.MatchString(d.Msg)
}

// ---------------------------------------------------------------------------
// YAML paths and position classes

type c03Step struct {
	Key string // mapping key ("" for sequence steps)
	Idx int    // index into Content of the parent (value index for mappings)
	Seq bool
}

func c03PathString(p []c03Step) string {
	var b strings.Builder
	for i, s := range p {
		if s.Seq {
			fmt.Fprintf(&b, "[%d]", s.Idx)
		} else {
			if i > 0 {
				b.WriteByte('.')
			}
			b.WriteString(s.Key)
		}
	}
	return b.String()
}

var c03SpecialEvents = map[string]bool{"schedule": true, "workflow_dispatch": true, "workflow_call": true, "repository_dispatch": true}

// c03Class maps a YAML path to its position class: user-chosen names (job ids, env names, input
// names, webhook event names, matrix row names, ...) are replaced by '*', sequence indices by '[]'.
func c03Class(p []c03Step) string {
	var out []string
	raw := false // below a matrix row / combination: free-form values
	for _, s := range p {
		if s.Seq {
			if len(out) == 0 {
				out = append(out, "[]")
			} else {
				out[len(out)-1] += "[]"
			}
			continue
		}
		parent := strings.Join(out, ".")
		k := s.Key
		switch {
		case raw:
			k = "*"
		case parent == "jobs":
			k = "*"
		case parent == "on":
			if !c03SpecialEvents[k] {
				k = "*"
			}
		case parent == "jobs.*.strategy.matrix":
			if k != "include" && k != "exclude" {
				k = "*"
			}
			raw = true
		case parent == "jobs.*.steps[].with":
			if k != "entrypoint" && k != "args" {
				k = "*"
			}
		case parent == "env" || strings.HasSuffix(parent, ".env") ||
			parent == "permissions" || strings.HasSuffix(parent, ".permissions") ||
			strings.HasSuffix(parent, ".with") || strings.HasSuffix(parent, ".outputs") ||
			strings.HasSuffix(parent, ".inputs") || strings.HasSuffix(parent, ".secrets") ||
			strings.HasSuffix(parent, ".services"):
			k = "*"
		}
		out = append(out, k)
	}
	return strings.Join(out, ".")
}

// The four position classes the statement excepts from the "expression syntax error" demand:
// event names, input `type`, `permissions` values and `secrets: inherit`.
func c03Excepted(class string) bool {
	switch class {
	case "on", "on[]",
		"on.workflow_dispatch.inputs.*.type", "on.workflow_call.inputs.*.type",
		"permissions", "permissions.*", "jobs.*.permissions", "jobs.*.permissions.*",
		"jobs.*.secrets":
		return true
	}
	return false
}

// Every class below must have been mutated (with the strong forms) at least once per run; they are
// all present in the templates.
var c03RequiredClasses = []string{
	"name", "run-name", "on", "on[]",
	"on.*.branches", "on.*.branches[]", "on.*.branches-ignore", "on.*.branches-ignore[]",
	"on.*.tags", "on.*.tags[]", "on.*.tags-ignore", "on.*.tags-ignore[]",
	"on.*.paths", "on.*.paths[]", "on.*.paths-ignore", "on.*.paths-ignore[]",
	"on.*.types", "on.*.types[]", "on.*.workflows", "on.*.workflows[]",
	"on.schedule[].cron", "on.repository_dispatch.types", "on.repository_dispatch.types[]",
	"on.workflow_dispatch.inputs.*.description", "on.workflow_dispatch.inputs.*.required",
	"on.workflow_dispatch.inputs.*.default", "on.workflow_dispatch.inputs.*.type",
	"on.workflow_dispatch.inputs.*.options[]",
	"on.workflow_call.inputs.*.description", "on.workflow_call.inputs.*.required",
	"on.workflow_call.inputs.*.default", "on.workflow_call.inputs.*.type",
	"on.workflow_call.secrets.*.description", "on.workflow_call.secrets.*.required",
	"on.workflow_call.outputs.*.description", "on.workflow_call.outputs.*.value",
	"permissions", "permissions.*", "env", "env.*",
	"defaults.run.shell", "defaults.run.working-directory",
	"concurrency", "concurrency.group", "concurrency.cancel-in-progress",
	"jobs.*.name", "jobs.*.needs", "jobs.*.needs[]", "jobs.*.if",
	"jobs.*.runs-on", "jobs.*.runs-on[]", "jobs.*.runs-on.group", "jobs.*.runs-on.labels", "jobs.*.runs-on.labels[]",
	"jobs.*.permissions", "jobs.*.permissions.*",
	"jobs.*.environment", "jobs.*.environment.name", "jobs.*.environment.url",
	"jobs.*.concurrency", "jobs.*.concurrency.group", "jobs.*.concurrency.cancel-in-progress",
	"jobs.*.outputs.*", "jobs.*.env", "jobs.*.env.*",
	"jobs.*.defaults.run.shell", "jobs.*.defaults.run.working-directory",
	"jobs.*.timeout-minutes", "jobs.*.continue-on-error",
	"jobs.*.strategy.fail-fast", "jobs.*.strategy.max-parallel", "jobs.*.strategy.matrix",
	"jobs.*.strategy.matrix.*", "jobs.*.strategy.matrix.*[]", "jobs.*.strategy.matrix.*[].*", "jobs.*.strategy.matrix.*[].*[]",
	"jobs.*.strategy.matrix.include", "jobs.*.strategy.matrix.include[]", "jobs.*.strategy.matrix.include[].*",
	"jobs.*.strategy.matrix.include[].*.*", "jobs.*.strategy.matrix.include[].*.*[]",
	"jobs.*.strategy.matrix.exclude", "jobs.*.strategy.matrix.exclude[]", "jobs.*.strategy.matrix.exclude[].*",
	"jobs.*.strategy.matrix.*[][]", "jobs.*.strategy.matrix.*[][][]", "jobs.*.strategy.matrix.*[].*.*",
	"jobs.*.strategy.matrix.include[].*[]", "jobs.*.strategy.matrix.include[].*[][]",
	"jobs.*.strategy.matrix.exclude[].*[]", "jobs.*.strategy.matrix.exclude[].*.*.*",
	"jobs.*.container", "jobs.*.container.image", "jobs.*.container.credentials.username", "jobs.*.container.credentials.password",
	"jobs.*.container.env", "jobs.*.container.env.*", "jobs.*.container.ports[]", "jobs.*.container.volumes[]", "jobs.*.container.options",
	"jobs.*.services", "jobs.*.services.*", "jobs.*.services.*.image",
	"jobs.*.services.*.credentials.username", "jobs.*.services.*.credentials.password",
	"jobs.*.services.*.env.*", "jobs.*.services.*.ports[]", "jobs.*.services.*.volumes[]", "jobs.*.services.*.options",
	"jobs.*.steps[].id", "jobs.*.steps[].name", "jobs.*.steps[].if", "jobs.*.steps[].uses",
	"jobs.*.steps[].with.*", "jobs.*.steps[].with.entrypoint", "jobs.*.steps[].with.args",
	"jobs.*.steps[].run", "jobs.*.steps[].shell", "jobs.*.steps[].working-directory",
	"jobs.*.steps[].env", "jobs.*.steps[].env.*", "jobs.*.steps[].continue-on-error", "jobs.*.steps[].timeout-minutes",
	"jobs.*.uses", "jobs.*.with.*", "jobs.*.secrets", "jobs.*.secrets.*",
}

// classes whose sequence admits a clean whole-value expression as an earlier element (needs, ref
// filters, types and cron do not: the expression text itself is rejected there)
var c03RequiredAfterExprSeq = []string{
	"jobs.*.container.ports[]", "jobs.*.container.volumes[]", "jobs.*.services.*.ports[]", "jobs.*.services.*.volumes[]",
	"jobs.*.runs-on[]", "jobs.*.runs-on.labels[]",
	"jobs.*.strategy.matrix.*[]", "jobs.*.strategy.matrix.*[].*", "jobs.*.strategy.matrix.*[][]",
	"jobs.*.strategy.matrix.include[]", "jobs.*.strategy.matrix.include[].*", "jobs.*.strategy.matrix.include[].*.*", "jobs.*.strategy.matrix.include[].*[]",
	"jobs.*.strategy.matrix.exclude[]", "jobs.*.strategy.matrix.exclude[].*", "jobs.*.strategy.matrix.exclude[].*[]",
	"on.*.paths[]", "on.*.paths-ignore[]", "on.*.workflows[]", "on.repository_dispatch.types[]",
	"on.workflow_dispatch.inputs.*.options[]",
}

var c03RequiredAfterExprMap = []string{
	"name", "env.*", "concurrency.group", "defaults.run.shell",
	"jobs.*.name", "jobs.*.runs-on", "jobs.*.env.*", "jobs.*.outputs.*", "jobs.*.timeout-minutes", "jobs.*.continue-on-error",
	"jobs.*.strategy.fail-fast", "jobs.*.strategy.max-parallel", "jobs.*.strategy.matrix.*", "jobs.*.strategy.matrix.*[]",
	"jobs.*.strategy.matrix.include", "jobs.*.strategy.matrix.include[]", "jobs.*.strategy.matrix.include[].*",
	"jobs.*.strategy.matrix.exclude", "jobs.*.strategy.matrix.exclude[]", "jobs.*.strategy.matrix.exclude[].*",
	"jobs.*.container.image", "jobs.*.container.env.*", "jobs.*.container.ports[]", "jobs.*.container.volumes[]", "jobs.*.container.options",
	"jobs.*.container.credentials.username", "jobs.*.container.credentials.password",
	"jobs.*.services.*.image", "jobs.*.services.*.env.*", "jobs.*.services.*.ports[]", "jobs.*.services.*.volumes[]", "jobs.*.services.*.options",
	"jobs.*.steps[].name", "jobs.*.steps[].run", "jobs.*.steps[].uses", "jobs.*.steps[].env.*", "jobs.*.steps[].with.*",
	"jobs.*.steps[].with.entrypoint", "jobs.*.steps[].with.args", "jobs.*.steps[].working-directory", "jobs.*.steps[].shell",
	"jobs.*.uses", "jobs.*.with.*", "jobs.*.secrets.*",
	"on.workflow_dispatch.inputs.*.description", "on.workflow_dispatch.inputs.*.default", "on.workflow_dispatch.inputs.*.required",
	"on.workflow_call.inputs.*.description", "on.workflow_call.inputs.*.required", "on.workflow_call.secrets.*.required",
	"on.workflow_call.outputs.*.value",
}

// ---------------------------------------------------------------------------
// locating scalars in the source text

type c03Scalar struct {
	Path   []c03Step
	Node   *yaml.Node
	InFlow bool
}

func c03IsNull(n *yaml.Node) bool { return n.Kind == yaml.ScalarNode && n.Tag == "!!null" }

// c03Scalars lists, in document order, every scalar that is a mapping value or a sequence element.
func c03Scalars(doc *yaml.Node) []c03Scalar {
	var out []c03Scalar
	var walk func(n *yaml.Node, path []c03Step, flow bool)
	walk = func(n *yaml.Node, path []c03Step, flow bool) {
		switch n.Kind {
		case yaml.ScalarNode:
			if len(path) > 0 {
				out = append(out, c03Scalar{append([]c03Step(nil), path...), n, flow})
			}
		case yaml.MappingNode:
			f := flow || n.Style&yaml.FlowStyle != 0
			for i := 0; i+1 < len(n.Content); i += 2 {
				k := n.Content[i]
				if k.Kind != yaml.ScalarNode {
					continue
				}
				walk(n.Content[i+1], append(path, c03Step{Key: k.Value, Idx: i + 1}), f)
			}
		case yaml.SequenceNode:
			f := flow || n.Style&yaml.FlowStyle != 0
			for i, c := range n.Content {
				walk(c, append(path, c03Step{Idx: i, Seq: true}), f)
			}
		}
	}
	if doc.Kind == yaml.DocumentNode && len(doc.Content) == 1 {
		walk(doc.Content[0], nil, false)
	}
	return out
}

func c03LineStarts(src string) []int {
	ls := []int{0}
	for i := 0; i < len(src); i++ {
		if src[i] == '\n' {
			ls = append(ls, i+1)
		}
	}
	return ls
}

// c03Offset converts yaml.v3's (line, column) – 1-based, column counted in characters – to a byte
// offset.
func c03Offset(src string, ls []int, line, col int) (int, bool) {
	if line < 1 || line > len(ls) || col < 1 {
		return 0, false
	}
	o := ls[line-1]
	for c := 1; c < col; c++ {
		if o >= len(src) || src[o] == '\n' {
			return 0, false
		}
		_, sz := utf8.DecodeRuneInString(src[o:])
		o += sz
	}
	return o, o <= len(src)
}

func c03Indent(line string) int {
	n := 0
	for n < len(line) && line[n] == ' ' {
		n++
	}
	return n
}

// c03Extent finds the byte range [start,end) of the scalar's presentation in the source. ok=false
// when the form is not handled (anchors, tags, multi-line plain scalars, block scalars with an
// indentation indicator); such scalars are counted and skipped.
func c03Extent(src string, ls []int, n *yaml.Node) (start, end int, ok bool) {
	start, ok = c03Offset(src, ls, n.Line, n.Column)
	if !ok || start >= len(src) {
		return 0, 0, false
	}
	switch {
	case n.Style&yaml.DoubleQuotedStyle != 0:
		if src[start] != '"' {
			return 0, 0, false
		}
		for i := start + 1; i < len(src); i++ {
			switch src[i] {
			case '\\':
				i++
			case '"':
				return start, i + 1, true
			}
		}
		return 0, 0, false
	case n.Style&yaml.SingleQuotedStyle != 0:
		if src[start] != '\'' {
			return 0, 0, false
		}
		for i := start + 1; i < len(src); i++ {
			if src[i] == '\'' {
				if i+1 < len(src) && src[i+1] == '\'' {
					i++
					continue
				}
				return start, i + 1, true
			}
		}
		return 0, 0, false
	case n.Style&(yaml.LiteralStyle|yaml.FoldedStyle) != 0:
		if src[start] != '|' && src[start] != '>' {
			return 0, 0, false
		}
		eol := strings.IndexByte(src[start:], '\n')
		if eol < 0 {
			return start, len(src), true
		}
		header := src[start : start+eol]
		if strings.ContainsAny(header, "0123456789#") {
			return 0, 0, false
		}
		hdrIndent := c03Indent(src[ls[n.Line-1]:])
		contentIndent := -1
		end = start + eol                      // the line break after the header stays
		for li := n.Line; li < len(ls); li++ { // li is the 0-based index of the line after the header
			lo := ls[li]
			hi := len(src)
			if li+1 < len(ls) {
				hi = ls[li+1]
			}
			line := strings.TrimRight(src[lo:hi], "\r\n")
			if strings.TrimSpace(line) == "" {
				continue // blank lines belong to the scalar only if content follows
			}
			ind := c03Indent(line)
			if contentIndent < 0 {
				if ind <= hdrIndent {
					break
				}
				contentIndent = ind
			}
			if ind < contentIndent {
				break
			}
			end = hi - 1
			if hi == len(src) && !strings.HasSuffix(src, "\n") {
				end = hi
			}
		}
		return start, end, true
	case n.Style == 0:
		if n.Value == "" || strings.ContainsAny(n.Value, "\n") || !strings.HasPrefix(src[start:], n.Value) {
			return 0, 0, false
		}
		if c := src[start]; c == '&' || c == '!' || c == '*' {
			return 0, 0, false
		}
		return start, start + len(n.Value), true
	}
	return 0, 0, false
}

// c03SameTree compares two decoded documents; at path `at` b must hold the placeholder, elsewhere
// kinds, tags and values must agree.
func c03SameTree(a, b *yaml.Node, target *yaml.Node, want string) bool {
	if a == target {
		return b.Kind == yaml.ScalarNode && b.Value == want && b.Tag == "!!str" && b.Line == a.Line && b.Column == a.Column
	}
	if a.Kind != b.Kind || len(a.Content) != len(b.Content) {
		return false
	}
	if a.Kind == yaml.ScalarNode || a.Kind == yaml.AliasNode {
		if a.Value != b.Value || a.Tag != b.Tag {
			return false
		}
	}
	if a.Kind == yaml.AliasNode {
		return true
	}
	for i := range a.Content {
		if !c03SameTree(a.Content[i], b.Content[i], target, want) {
			return false
		}
	}
	return true
}

// quoting styles of the replacement
const (
	c03Plain = iota
	c03Double
	c03Single
)

func c03Render(text string, style int) string {
	switch style {
	case c03Double:
		return `"` + text + `"`
	case c03Single:
		return `'` + strings.ReplaceAll(text, `'`, `''`) + `'`
	}
	return text
}

// ---------------------------------------------------------------------------
// one base: all mutants

type c03Base struct {
	Name string
	Src  string
	Tmpl bool
}

type c03Stats struct {
	mutants, skippedNull, skippedForm, unlocatable int
}

// c03MutateAll runs every (scalar, form) mutant of src whose path starts with prefix (nil = all)
// and is at most maxDepth steps longer than prefix (maxDepth < 0: no limit).
// The caller has asserted that src lints clean.
func c03MutateAll(c *Case, base string, src string, prefix []c03Step, maxDepth int, allStyles, sample bool) c03Stats {
	return c03MutateOpt(c, base, src, prefix, maxDepth, allStyles, sample, nil)
}

// c03Opt narrows a mutation sweep: Keep selects scalars by path, Forms selects placeholder forms
// by index (nil = all), Tag names a coverage set that receives the class of every mutant.
type c03Opt struct {
	Keep  func(p []c03Step) bool
	Forms []int
	Tag   string
}

func c03MutateOpt(c *Case, base string, src string, prefix []c03Step, maxDepth int, allStyles, sample bool, opt *c03Opt) c03Stats {
	var st c03Stats
	var doc yaml.Node
	if err := yaml.Unmarshal([]byte(src), &doc); err != nil {
		return st
	}
	ls := c03LineStarts(src)
	scalars := c03Scalars(&doc)
	for si, sc := range scalars {
		if !c03HasPrefix(sc.Path, prefix) || (maxDepth >= 0 && len(sc.Path) > len(prefix)+maxDepth) {
			continue
		}
		if opt != nil && opt.Keep != nil && !opt.Keep(sc.Path) {
			continue
		}
		if c03IsNull(sc.Node) {
			st.skippedNull++
			continue
		}
		start, end, ok := c03Extent(src, ls, sc.Node)
		if !ok {
			st.skippedForm++
			c.SetAdd("skipped_scalar_forms", fmt.Sprintf("%s:%s", base, c03PathString(sc.Path)))
			continue
		}
		class := c03Class(sc.Path)
		pstr := c03PathString(sc.Path)
		for fi, form := range c03Forms {
			if opt != nil && opt.Forms != nil {
				sel := false
				for _, x := range opt.Forms {
					sel = sel || x == fi
				}
				if !sel {
					continue
				}
			}
			// quick: one quoting style per mutant chosen by the case PRNG; thorough (allStyles): each
			// style that the context allows (a plain scalar cannot hold '{' inside a flow collection)
			var styles []int
			switch {
			case allStyles && sc.InFlow:
				styles = []int{c03Double, c03Single}
			case allStyles:
				styles = []int{c03Plain, c03Double, c03Single}
			case sc.InFlow:
				styles = []int{c03Double + c.R.Intn(2)}
			default:
				styles = []int{c.R.Intn(3)}
			}
			for _, style := range styles {
				repl := c03Render(form.Text, style)
				mut := src[:start] + repl + src[end:]
				var mdoc yaml.Node
				if err := yaml.Unmarshal([]byte(mut), &mdoc); err != nil || !c03SameTree(&doc, &mdoc, sc.Node, form.Text) {
					st.unlocatable++
					c.SetAdd("unlocatable", fmt.Sprintf("%s:%s:%s", base, pstr, form.Name))
					c.Logf("UNLOCATABLE %s %s form=%s style=%d err=%v", base, pstr, form.Name, style, err)
					continue
				}
				st.mutants++
				line, col := sc.Node.Line, sc.Node.Column
				width := utf8.RuneCountInString(repl)
				ds, err := lintSrc(mut)
				c.Eval(1)
				detail := func() map[string]interface{} {
					return map[string]interface{}{
						"base": base, "path": pstr, "class": class, "form": form.Text, "replacement": repl,
						"scalar_line": line, "scalar_col": col, "scalar_width": width,
						"original_value": sc.Node.Value, "src": mut, "diags": diagStrings(ds),
					}
				}
				if err != nil {
					c.Violation("C03:fatal-error", fmt.Sprintf("linting the mutant of %s at %s returned a fatal error: %v", base, pstr, err), detail())
					continue
				}
				var at []Diag
				syntax := false
				for _, d := range ds {
					// the end position (one past the last character) is accepted: lexer errors about a
					// premature end of input are reported there
					if d.Line == line && d.Col >= col && d.Col <= col+width {
						at = append(at, d)
						if c03IsSyntaxError(d) {
							syntax = true
						}
					}
				}
				strong := form.Closed && !c03Excepted(class)
				c.Count("mutants", 1)
				if strong {
					c.Count("mutants_strong", 1)
					c.SetAdd("classes_strong", class)
				} else {
					c.Count("mutants_weak", 1)
				}
				c.SetAdd("classes_mutated", class)
				if opt != nil && opt.Tag != "" {
					c.SetAdd(opt.Tag, class)
					c.Count(opt.Tag+"_mutants", 1)
				}
				c.Count("form_"+form.Name, 1)
				c.Nontrivial(fmt.Sprintf("%s|%s|%s|%d", base, pstr, form.Name, style))
				for _, d := range at {
					c.SetAdd("diag_kinds_at_scalar", d.Kind)
				}
				if c.Verbose {
					c.Logf("%s %s [%s] form=%q as %s at %d:%d(+%d) strong=%v -> at-scalar=%v", base, pstr, class, form.Text, repl, line, col, width, strong, diagStrings(at))
				}
				switch {
				case len(at) == 0:
					c.Violation("C03:unchecked:"+class,
						fmt.Sprintf("placeholder %s at %s (class %s, line %d col %d) of clean workflow %s: no diagnostic is located at the scalar (all diagnostics: %v)", repl, pstr, class, line, col, base, diagStrings(ds)),
						detail())
				case strong && !syntax:
					c.Violation("C03:no-syntax-error:"+class,
						fmt.Sprintf("placeholder %s at %s (class %s, line %d col %d) of clean workflow %s: diagnostics at the scalar %v contain no expression syntax error", repl, pstr, class, line, col, base, diagStrings(at)),
						detail())
				}
				if sample && si%37 == 5 && fi == si%len(c03Forms) {
					c.Sample(map[string]interface{}{"base": base, "path": pstr, "class": class, "replacement": repl, "line": line, "col": col, "diags_at_scalar": diagStrings(at)})
				}
			}
		}
	}
	return st
}

func c03HasPrefix(p, prefix []c03Step) bool {
	if len(prefix) > len(p) {
		return false
	}
	for i := range prefix {
		if p[i].Seq != prefix[i].Seq || p[i].Idx != prefix[i].Idx {
			return false
		}
	}
	return true
}

// ---------------------------------------------------------------------------
// sibling-configuration variants (structure edits on the node tree, re-encoded)

func c03Encode(doc *yaml.Node) (string, error) {
	var buf bytes.Buffer
	enc := yaml.NewEncoder(&buf)
	enc.SetIndent(2)
	if err := enc.Encode(doc); err != nil {
		return "", err
	}
	enc.Close()
	return buf.String(), nil
}

type c03MapRef struct {
	Path []c03Step
	Node *yaml.Node
}

// c03Mappings lists every mapping of the document with its path, in document order.
func c03Mappings(doc *yaml.Node) []c03MapRef {
	var out []c03MapRef
	var walk func(n *yaml.Node, path []c03Step)
	walk = func(n *yaml.Node, path []c03Step) {
		switch n.Kind {
		case yaml.MappingNode:
			out = append(out, c03MapRef{append([]c03Step(nil), path...), n})
			for i := 0; i+1 < len(n.Content); i += 2 {
				walk(n.Content[i+1], append(path, c03Step{Key: n.Content[i].Value, Idx: i + 1}))
			}
		case yaml.SequenceNode:
			for i, c := range n.Content {
				walk(c, append(path, c03Step{Idx: i, Seq: true}))
			}
		}
	}
	if doc.Kind == yaml.DocumentNode && len(doc.Content) == 1 {
		walk(doc.Content[0], nil)
	}
	return out
}

// c03Variant applies edit to the idx-th mapping of a fresh decode of src and returns the re-encoded
// source together with the path of the edited mapping. Pairs are (key,value) couples.
func c03Variant(src string, mapIdx int, edit func(pairs [][2]*yaml.Node) [][2]*yaml.Node) (string, []c03Step, bool) {
	var doc yaml.Node
	if err := yaml.Unmarshal([]byte(src), &doc); err != nil {
		return "", nil, false
	}
	maps := c03Mappings(&doc)
	if mapIdx >= len(maps) {
		return "", nil, false
	}
	m := maps[mapIdx]
	var pairs [][2]*yaml.Node
	for i := 0; i+1 < len(m.Node.Content); i += 2 {
		pairs = append(pairs, [2]*yaml.Node{m.Node.Content[i], m.Node.Content[i+1]})
	}
	pairs = edit(pairs)
	if pairs == nil {
		return "", nil, false
	}
	m.Node.Content = m.Node.Content[:0]
	for _, p := range pairs {
		m.Node.Content = append(m.Node.Content, p[0], p[1])
	}
	out, err := c03Encode(&doc)
	if err != nil {
		return "", nil, false
	}
	return out, m.Path, true
}

// c03Thin removes 1-4 randomly chosen pairs and shuffles the pair order of 0-6 randomly chosen
// mappings of src; desc names the edits.
func c03Thin(r *Rand, src string) (string, string, bool) {
	var doc yaml.Node
	if err := yaml.Unmarshal([]byte(src), &doc); err != nil {
		return "", "", false
	}
	maps := c03Mappings(&doc)
	var multi []c03MapRef
	for _, m := range maps {
		if len(m.Node.Content) >= 4 {
			multi = append(multi, m)
		}
	}
	if len(multi) == 0 {
		return "", "", false
	}
	var desc []string
	for k := r.Range(1, 4); k > 0; k-- {
		m := multi[r.Intn(len(multi))]
		np := len(m.Node.Content) / 2
		if np < 2 {
			continue
		}
		i := r.Intn(np)
		desc = append(desc, "del "+c03PathString(m.Path)+"."+m.Node.Content[2*i].Value)
		m.Node.Content = append(m.Node.Content[:2*i:2*i], m.Node.Content[2*i+2:]...)
	}
	for k := r.Range(0, 6); k > 0; k-- {
		m := multi[r.Intn(len(multi))]
		np := len(m.Node.Content) / 2
		if np < 2 {
			continue
		}
		perm := r.Perm(np)
		nc := make([]*yaml.Node, 0, 2*np)
		for _, i := range perm {
			nc = append(nc, m.Node.Content[2*i], m.Node.Content[2*i+1])
		}
		m.Node.Content = nc
		desc = append(desc, "shuffle "+c03PathString(m.Path))
	}
	out, err := c03Encode(&doc)
	if err != nil {
		return "", "", false
	}
	return out, strings.Join(desc, "; "), true
}

// c03RunVariant lints the variant; when it is clean, all scalars below the edited mapping are
// mutated.
func c03RunVariant(c *Case, name, vsrc string, mpath []c03Step, maxDepth int) {
	ds, err := lintSrc(vsrc)
	c.Eval(1)
	if err != nil || len(ds) > 0 {
		c.Count("variants_unclean", 1)
		return
	}
	c.Count("variants_clean", 1)
	c03MutateAll(c, name, vsrc, mpath, maxDepth, false, false)
}

// ---------------------------------------------------------------------------

func c03CorpusFiles() []string {
	var out []string
	for _, sub := range []string{"testdata/ok", "testdata/examples"} {
		dir := filepath.Join(repoDir(), sub)
		es, err := os.ReadDir(dir)
		if err != nil {
			continue
		}
		for _, e := range es {
			n := e.Name()
			if e.IsDir() || !(strings.HasSuffix(n, ".yaml") || strings.HasSuffix(n, ".yml")) {
				continue
			}
			out = append(out, filepath.Join(sub, n))
		}
	}
	sort.Strings(out)
	return out
}

func c03SetElems(r *Run, set string) []string {
	r.mu.Lock()
	defer r.mu.Unlock()
	var out []string
	for e := range r.sets[set] {
		out = append(out, e)
	}
	sort.Strings(out)
	return out
}

func runC03(r *Run) {
	r.Rule = "bases = 9 hand-written maximal clean templates + every file of testdata/ok and testdata/examples that lints clean (asserted at run time). For every non-null scalar that is a mapping value or a sequence element, one mutant per placeholder form (${{ github. }}, ${{ ! }}, ${{ 'a }}, ${{ a b }}, and the unclosed ${{ a) replaces the scalar's text in the source (plain / double / single quoted: one chosen by the case PRNG in quick, all admissible ones in thorough; verified by decoding the mutant and comparing trees). Expected: >=1 diagnostic on the scalar's line with a column inside the scalar's extent; for the closed forms outside the four excepted classes one of them is an expression lexer/parser error. Sibling configurations (node-tree edits, re-encoded, kept only if still clean): every mapping with each key removed, with reversed key order, and with random key subsets in random order (quick: templates, scalars up to 3 levels below the edited mapping; thorough: corpus files too, whole subtree for templates, 8 random subsets); 'thinned' templates with 1-4 keys removed and 0-6 mappings shuffled anywhere at once (16 / 640 cases); 'expr-before': for every sequence and mapping, an element / a pair value is replaced by, or a new element / pair C03X is inserted at every position with, a valid whole-value expression of each static type class (any, object, array, array of objects, string, number, bool) and the other scalars of the container are mutated (sequences: only the later elements); 'saturated': every scalar greedily turned into a valid whole-value expression while the workflow stays clean, then all scalars mutated. Non-trivial = distinct (base or variant, path, form, quoting style) mutant that was linted."
	r.Assume("a scalar that is YAML null (empty or ~/null) is not a 'scalar value' in the sense of the statement and is not mutated")
	r.Assume("a diagnostic at the column one past the last character of the scalar counts as located at the scalar (lexer errors about premature end of input point there)")
	r.Assume("the unclosed form '${{ a' only requires some diagnostic at the scalar (whole-value positions legitimately answer with a syntax-check message)")
	r.Assume("workflows are linted without a project (no local actions / local reusable workflows), default options")

	var bases []c03Base
	for _, t := range c03Templates {
		bases = append(bases, c03Base{t.Name, t.Src, true})
	}
	files := c03CorpusFiles()
	for _, f := range files {
		b, err := os.ReadFile(filepath.Join(repoDir(), f))
		if err != nil {
			continue
		}
		bases = append(bases, c03Base{f, string(b), false})
	}

	// cleanliness is asserted once, serially, before any family runs
	var clean []c03Base
	for _, b := range bases {
		ds, err := lintSrc(b.Src)
		if err != nil || len(ds) > 0 {
			if b.Tmpl {
				r.Inconclusive(fmt.Sprintf("template %s does not lint clean on this tree: err=%v diags=%v", b.Name, err, diagStrings(ds)))
			} else {
				r.Count("corpus_files_unclean", 1)
			}
			continue
		}
		if !b.Tmpl {
			r.Count("corpus_files_clean", 1)
		}
		clean = append(clean, b)
	}

	var fams []*Family
	fams = append(fams, &Family{Name: "direct", N: len(clean), Do: func(c *Case) {
		b := clean[c.Idx]
		st := c03MutateAll(c, b.Name, b.Src, nil, -1, c.Thorough(), c.Idx == 0)
		c.Count("scalars_null_skipped", st.skippedNull)
		c.Count("scalars_form_skipped", st.skippedForm)
		if b.Tmpl {
			c.Count("template_unlocatable", st.unlocatable)
			c.Count("template_form_skipped", st.skippedForm)
		}
	}})

	// sibling variants: one case per (base, mapping, edit). Edits: delete pair k (op = k), reverse
	// the pair order (op = -1), keep a random subset in random order (op <= -2).
	type vcase struct {
		base   c03Base
		mapIdx int
		npairs int
		op     int
	}
	var vcases []vcase
	for _, b := range clean {
		if !b.Tmpl && !r.Thorough() {
			continue
		}
		var doc yaml.Node
		if yaml.Unmarshal([]byte(b.Src), &doc) != nil {
			continue
		}
		for i, m := range c03Mappings(&doc) {
			np := len(m.Node.Content) / 2
			if np < 2 {
				continue
			}
			for k := 0; k < np; k++ {
				vcases = append(vcases, vcase{b, i, np, k})
			}
			vcases = append(vcases, vcase{b, i, np, -1})
			for t := 0; t < r.Q(1, 8); t++ {
				vcases = append(vcases, vcase{b, i, np, -2 - t})
			}
		}
	}
	fams = append(fams, &Family{Name: "siblings", N: len(vcases), Do: func(c *Case) {
		v := vcases[c.Idx]
		var name string
		var edit func(p [][2]*yaml.Node) [][2]*yaml.Node
		switch {
		case v.op >= 0:
			name = fmt.Sprintf("%s~map%d-del%d", v.base.Name, v.mapIdx, v.op)
			edit = func(p [][2]*yaml.Node) [][2]*yaml.Node {
				return append(append([][2]*yaml.Node{}, p[:v.op]...), p[v.op+1:]...)
			}
		case v.op == -1:
			name = fmt.Sprintf("%s~map%d-rev", v.base.Name, v.mapIdx)
			edit = func(p [][2]*yaml.Node) [][2]*yaml.Node {
				q := make([][2]*yaml.Node, len(p))
				for i := range p {
					q[len(p)-1-i] = p[i]
				}
				return q
			}
		default:
			name = fmt.Sprintf("%s~map%d-rnd%d", v.base.Name, v.mapIdx, -2-v.op)
			perm := c.R.Perm(v.npairs)
			keep := c.R.Range(1, v.npairs)
			edit = func(p [][2]*yaml.Node) [][2]*yaml.Node {
				var q [][2]*yaml.Node
				for _, i := range perm[:keep] {
					q = append(q, p[i])
				}
				return q
			}
		}
		if vs, mp, ok := c03Variant(v.base.Src, v.mapIdx, edit); ok {
			// quick: the scalars next to the edited keys (up to three levels below the mapping);
			// thorough: the whole subtree for templates
			depth := 3
			if c.Thorough() && v.base.Tmpl {
				depth = -1
			}
			c03RunVariant(c, name, vs, mp, depth)
		}
	}})

	// thinned: several keys removed and several mappings shuffled at once, anywhere in a template
	// (up to 6 attempts to obtain a clean variant); every scalar of the variant is mutated.
	var tmplClean []c03Base
	for _, b := range clean {
		if b.Tmpl {
			tmplClean = append(tmplClean, b)
		}
	}
	if len(tmplClean) > 0 {
		fams = append(fams, &Family{Name: "thinned", N: r.Q(16, 640), Do: func(c *Case) {
			// the two big templates get half of the cases
			b := tmplClean[c.Idx%len(tmplClean)]
			if c.Idx%2 == 1 {
				b = tmplClean[(c.Idx/2)%2%len(tmplClean)]
			}
			for attempt := 0; attempt < 6; attempt++ {
				vs, desc, ok := c03Thin(c.R, b.Src)
				if !ok {
					continue
				}
				ds, err := lintSrc(vs)
				c.Eval(1)
				if err != nil || len(ds) > 0 {
					c.Count("thinned_unclean", 1)
					continue
				}
				c.Count("thinned_clean", 1)
				c03MutateAll(c, fmt.Sprintf("%s~thin[%s]", b.Name, desc), vs, nil, -1, false, false)
				return
			}
		}})
	}

	// expr-before: an earlier element / sibling value is a valid whole-value expression
	var exprBases []c03Base
	for _, b := range clean {
		if b.Tmpl || r.Thorough() {
			exprBases = append(exprBases, b)
		}
	}
	ecases := c03ExprCases(exprBases)
	fams = append(fams, &Family{Name: "expr-before", N: len(ecases), Do: func(c *Case) { c03DoExprCase(c, ecases[c.Idx]) }})

	fams = append(fams, &Family{Name: "saturated", N: len(exprBases), Do: func(c *Case) { c03DoSaturated(c, exprBases[c.Idx]) }})

	r.RunFamilies(fams)
	if r.ReplayOf != nil {
		return
	}

	// coverage floors
	var missing []string
	for _, cl := range c03RequiredClasses {
		if c03Excepted(cl) {
			if !r.SetHas("classes_mutated", cl) {
				missing = append(missing, cl)
			}
		} else if !r.SetHas("classes_strong", cl) {
			missing = append(missing, cl)
		}
	}
	if len(missing) > 0 {
		r.Inconclusive(fmt.Sprintf("position classes never mutated: %v", missing))
	}
	if n := r.Counter("template_unlocatable") + r.Counter("template_form_skipped"); n > 0 {
		r.Inconclusive(fmt.Sprintf("%d template scalars/mutants could not be located in the source text", n))
	}
	if n := r.Counter("corpus_files_clean"); n < 40 {
		r.Inconclusive(fmt.Sprintf("only %d clean corpus files under %s/testdata/{ok,examples}", n, repoDir()))
	}
	if n := r.Counter("mutants"); n < 5000 {
		r.Inconclusive(fmt.Sprintf("only %d mutants were linted", n))
	}
	if r.Counter("variants_clean") < 300 {
		r.Inconclusive(fmt.Sprintf("only %d clean sibling variants", r.Counter("variants_clean")))
	}
	req := map[string]bool{}
	for _, cl := range c03RequiredClasses {
		req[cl] = true
	}
	var extraClasses []string
	for _, cl := range c03SetElems(r, "classes_mutated") {
		if !req[cl] {
			extraClasses = append(extraClasses, cl)
		}
	}
	r.Extra("classes_beyond_required_list", extraClasses)
	// every sequence class below must have had a later element mutated while an earlier element was
	// a valid whole-value expression; likewise the listed mapping classes for an earlier sibling value
	var missingAfter []string
	for _, cl := range c03RequiredAfterExprSeq {
		if !r.SetHas("after_expr_seq", cl) {
			missingAfter = append(missingAfter, "seq:"+cl)
		}
	}
	for _, cl := range c03RequiredAfterExprMap {
		if !r.SetHas("after_expr_map", cl) {
			missingAfter = append(missingAfter, "map:"+cl)
		}
	}
	if len(missingAfter) > 0 {
		r.Inconclusive(fmt.Sprintf("no mutant behind an expression-valued earlier element/sibling for: %v", missingAfter))
	}
	if n := r.Counter("saturated_scalars"); n < 150 {
		r.Inconclusive(fmt.Sprintf("saturated variants: only %d scalars could be turned into valid expressions", n))
	}
	if n := r.Counter("thinned_clean"); n < int64(r.Q(4, 160)) {
		r.Inconclusive(fmt.Sprintf("only %d clean thinned template variants", n))
	}
	r.Extra("templates", len(c03Templates))
	r.Extra("required_classes", len(c03RequiredClasses))
}
