package main

// C04 — the expression parser accepts exactly the documented grammar.
//
// Reference-model monitor: c04_ref.go decides every generated text independently (regex tokenizer,
// grammar table + Earley recogniser, precedence-climbing tree builder); this file drives the real
// actionlint.NewExprLexer / NewExprParser().Parse and (c04_lint.go) the real Linter over enumerated
// and random texts and compares accept/reject, tree shape, end offset and diagnostics.

import (
	"fmt"
	"sort"
	"strings"

	"github.com/rhysd/actionlint"
)

func init() { registry["C04"] = runC04 }

// ---------------------------------------------------------------------------
// implementation side: AST -> the reference's node type

func c04FromAST(n actionlint.ExprNode) *c04Node {
	switch n := n.(type) {
	case *actionlint.VariableNode:
		return &c04Node{Op: "var", Leaf: strings.ToLower(n.Name)}
	case *actionlint.NullNode:
		return &c04Node{Op: "null"}
	case *actionlint.BoolNode:
		return &c04Node{Op: "bool", Leaf: fmt.Sprint(n.Value)}
	case *actionlint.IntNode:
		return &c04Node{Op: "num", Leaf: c04FmtNum(float64(n.Value))}
	case *actionlint.FloatNode:
		return &c04Node{Op: "num", Leaf: c04FmtNum(n.Value)}
	case *actionlint.StringNode:
		return &c04Node{Op: "str", Leaf: n.Value}
	case *actionlint.ObjectDerefNode:
		return &c04Node{Op: "prop", Leaf: strings.ToLower(n.Property), Kids: []*c04Node{c04FromAST(n.Receiver)}}
	case actionlint.ObjectDerefNode:
		return &c04Node{Op: "prop", Leaf: strings.ToLower(n.Property), Kids: []*c04Node{c04FromAST(n.Receiver)}}
	case *actionlint.ArrayDerefNode:
		return &c04Node{Op: "star", Kids: []*c04Node{c04FromAST(n.Receiver)}}
	case actionlint.ArrayDerefNode:
		return &c04Node{Op: "star", Kids: []*c04Node{c04FromAST(n.Receiver)}}
	case *actionlint.IndexAccessNode:
		return &c04Node{Op: "idx", Kids: []*c04Node{c04FromAST(n.Operand), c04FromAST(n.Index)}}
	case *actionlint.NotOpNode:
		return &c04Node{Op: "not", Kids: []*c04Node{c04FromAST(n.Operand)}}
	case *actionlint.CompareOpNode:
		return &c04Node{Op: "cmp", Ops: []string{n.Kind.String()}, Kids: []*c04Node{c04FromAST(n.Left), c04FromAST(n.Right)}}
	case *actionlint.LogicalOpNode:
		op := "logical?"
		switch n.Kind {
		case actionlint.LogicalOpNodeKindAnd:
			op = "and"
		case actionlint.LogicalOpNodeKindOr:
			op = "or"
		}
		return &c04Node{Op: op, Kids: []*c04Node{c04FromAST(n.Left), c04FromAST(n.Right)}}
	case *actionlint.FuncCallNode:
		k := &c04Node{Op: "call", Leaf: strings.ToLower(n.Callee)}
		for _, a := range n.Args {
			k.Kids = append(k.Kids, c04FromAST(a))
		}
		return k
	case nil:
		return &c04Node{Op: "nil!"}
	}
	return &c04Node{Op: fmt.Sprintf("unknown:%T", n)}
}

// ---------------------------------------------------------------------------
// per-case context: reference state, local counters (flushed once per case), lint batch

type c04Ctx struct {
	c               *Case
	ear             *c04Earley
	buf, buf2, buf3 []c04Tok
	cnt             map[string]int
	sets            map[string]map[string]struct{}
	evals           int
	batch           c04Batch
	lintTailEvery   uint64
	lastSrc         string // placeholder-mode source of the last Parse and its verdict
	lastV           c04Verdict
	lastOK          bool
}

func c04NewCtx(c *Case) *c04Ctx {
	x := &c04Ctx{c: c, ear: c04NewEarley(c04CG), cnt: map[string]int{}, sets: map[string]map[string]struct{}{}, lintTailEvery: 8}
	x.batch.x = x
	return x
}

func (x *c04Ctx) set(name, elem string) {
	m := x.sets[name]
	if m == nil {
		m = map[string]struct{}{}
		x.sets[name] = m
	}
	m[elem] = struct{}{}
}

func (x *c04Ctx) selfCheck(msg string) {
	x.c.Run.Inconclusive("C04 reference self-check failed (monitor bug): " + msg)
}

func (x *c04Ctx) harnessErr(msg string) {
	x.c.Run.Inconclusive("C04 harness error (monitor bug): " + truncate(msg, 2000))
}

func (x *c04Ctx) Done() {
	x.batch.Flush()
	x.c.Eval(x.evals)
	keys := make([]string, 0, len(x.cnt))
	for k := range x.cnt {
		keys = append(keys, k)
	}
	sort.Strings(keys)
	for _, k := range keys {
		x.c.Count(k, x.cnt[k])
	}
	for name, m := range x.sets {
		for e := range m {
			x.c.SetAdd(name, e)
		}
	}
}

func (x *c04Ctx) noteTree(n *c04Node, parent string) {
	switch n.Op {
	case "or", "and", "cmp", "not":
		if parent != "" {
			x.set("nesting", parent+">"+n.Op)
		}
		for _, o := range n.Ops {
			x.set("cmp_ops_in_trees", o)
		}
		for _, k := range n.Kids {
			x.noteTree(k, n.Op)
		}
	default:
		x.set("node_kinds_in_trees", n.Op)
		for _, k := range n.Kids {
			x.noteTree(k, "")
		}
	}
}

// Parse compares the reference with the real lexer+parser on text+"}}" (what rule_expression.go
// hands to the parser for a placeholder whose content is text). It returns the reference verdict.
func (x *c04Ctx) Parse(text, fam string) c04Verdict {
	c := x.c
	src := text + "}}"
	v := c04Reference(src, false, x.ear, x.buf)
	x.buf = v.Lex.Toks[:0]
	x.lastSrc, x.lastV, x.lastOK = src, v, true
	x.evals++
	if v.SelfCheck != "" {
		x.selfCheck(v.SelfCheck)
		return v
	}
	if v.Silent != "" {
		x.cnt["skipped_statement_silent"]++
		x.set("silent_classes_seen", v.Silent)
		return v
	}
	lx := actionlint.NewExprLexer(src)
	node, perr := actionlint.NewExprParser().Parse(lx)
	implAccept := perr == nil
	if c.Verbose && v.Accept != implAccept {
		c.Logf("parse %q: reference accept=%v tree=%s | actionlint accept=%v err=%v", src, v.Accept, v.Sexpr, implAccept, perr)
	}
	detail := func() map[string]interface{} {
		d := map[string]interface{}{"src": src, "family": fam, "reference_accepts": v.Accept, "actionlint_accepts": implAccept}
		var ks []string
		for _, t := range v.Lex.Toks {
			ks = append(ks, c04KindName[t.Kind]+":"+t.Text)
		}
		d["reference_tokens"] = ks
		if perr != nil {
			d["actionlint_error"] = perr.Error()
		}
		if v.Accept {
			d["reference_tree"] = v.Sexpr
		}
		return d
	}
	if v.Accept {
		x.cnt["sentences"]++
		for _, t := range v.Lex.Toks {
			x.set("token_kinds_in_sentences", c04KindName[t.Kind])
		}
		if hashStr(src)%8 == 0 {
			if v.Tree != nil {
				x.noteTree(v.Tree, "")
			}
			c.Nontrivial("S|" + src)
		}
	} else {
		x.cnt["non_sentences"]++
		if v.Lex.ErrOff >= 0 {
			x.cnt["non_sentences_lexical"]++
		}
		if hashStr(src)%64 == 0 {
			c.Nontrivial("N|" + src)
		}
	}
	if v.Accept != implAccept {
		if v.Accept {
			sig := "C04:rejects-sentence"
			if v.Contested != "" {
				sig = "C04:number-" + v.Contested + "-rejected"
			}
			c.Violation(sig, fmt.Sprintf("%q is a sentence of the documented language (%s) but the parser rejects it: %v", text, v.Sexpr, perr), detail())
		} else {
			d := detail()
			if node != nil {
				d["actionlint_tree"] = c04Sexpr(c04FromAST(node))
			}
			c.Violation("C04:accepts-non-sentence", fmt.Sprintf("%q is not a sentence of the documented language but the parser accepts it", text), d)
		}
		return v
	}
	if !implAccept {
		if perr.Offset < 0 || perr.Offset > len(src) || perr.Line < 1 || perr.Column < 1 {
			c.Violation("C04:parse-error-position-outside-source", fmt.Sprintf("error for %q is positioned outside the text: offset %d line %d column %d", src, perr.Offset, perr.Line, perr.Column), detail())
		}
		return v
	}
	if node == nil {
		c.Violation("C04:no-tree-and-no-error", fmt.Sprintf("Parse(%q) returned neither a tree nor an error", src), detail())
		return v
	}
	got := c04Sexpr(c04FromAST(node))
	if got != v.Sexpr {
		c.Logf("parse %q: reference tree %s | actionlint tree %s", src, v.Sexpr, got)
		d := detail()
		d["actionlint_tree"] = got
		c.Violation("C04:tree-contradicts-precedence", fmt.Sprintf("%q is analysed as %s, the documented structure is %s", text, got, v.Sexpr), d)
		return v
	}
	if lx.Offset() != v.Lex.EndOff {
		c.Violation("C04:end-offset", fmt.Sprintf("after parsing %q the lexer stands at offset %d, the placeholder ends at %d", src, lx.Offset(), v.Lex.EndOff), detail())
	}
	return v
}

// Lint embeds text into workflows (see c04_lint.go). sel selects the secondary embeddings.
func (x *c04Ctx) Lint(text string) {
	x.batch.Add(text, c04EmbRun)
	x.batch.Add(text, c04EmbEnv)
	x.batch.Add(text, c04EmbIf)
	if h := hashStr(text); x.lintTailEvery > 0 && h%x.lintTailEvery == 0 {
		x.batch.Add(text, c04EmbRunTail)
		x.batch.Add(text, c04EmbIfExpr)
	}
}

func (x *c04Ctx) LintOne(text string, emb int) { x.batch.Add(text, emb) }

// ---------------------------------------------------------------------------
// alphabets

type c04Sym struct {
	Kind c04Kind
	Lex  []string // representative lexemes; one is chosen per case from the case's PRNG
}

// the 23-symbol token alphabet: one representative per token kind plus the three keywords
var c04TokAlphabet = []c04Sym{
	{c04Ident, []string{"a", "github", "x-y", "_z9", "A_b-"}},
	{c04String, []string{"'s'", "''", "'it''s'", "'}}'", "' '"}},
	{c04Num, []string{"1", "0", "-7", "0x1F", "42"}},
	{c04Num, []string{"1.5", "-0.25", "2e3", "1E-2", "0.0"}},
	{c04LParen, []string{"("}}, {c04RParen, []string{")"}}, {c04LBrack, []string{"["}}, {c04RBrack, []string{"]"}},
	{c04Dot, []string{"."}}, {c04Not, []string{"!"}},
	{c04Lt, []string{"<"}}, {c04Le, []string{"<="}}, {c04Gt, []string{">"}}, {c04Ge, []string{">="}}, {c04Eq, []string{"=="}}, {c04Ne, []string{"!="}},
	{c04And, []string{"&&"}}, {c04Or, []string{"||"}}, {c04Star, []string{"*"}}, {c04Comma, []string{","}},
	{c04Ident, []string{"true"}}, {c04Ident, []string{"false"}}, {c04Ident, []string{"null"}},
}

// the lexically relevant character alphabet
var c04CharAlphabet = []byte("a10xeE.-+'_!=<>&|()[],* }")

func c04PickLexemes(r *Rand) []string {
	out := make([]string, len(c04TokAlphabet))
	for i, s := range c04TokAlphabet {
		out[i] = s.Lex[r.Intn(len(s.Lex))]
	}
	return out
}

// ---------------------------------------------------------------------------
// family 1: all token strings

// c04Enumerate calls eval for every string over an alphabet of na symbols that starts with the
// prefix encoded by idx (plen digits to base na) and has at most limit symbols; case 0 additionally
// gets all strings shorter than the prefix. Over idx = 0 .. na^plen-1 every string of length <= limit
// is visited exactly once.
func c04Enumerate(na, plen, idx, limit int, eval func(stack []int)) {
	var stack []int
	var rec func(stop int)
	rec = func(stop int) {
		eval(stack)
		if len(stack) >= stop {
			return
		}
		for s := 0; s < na; s++ {
			stack = append(stack, s)
			rec(stop)
			stack = stack[:len(stack)-1]
		}
	}
	if idx == 0 {
		rec(plen - 1)
	}
	if limit < plen {
		return
	}
	stack = make([]int, plen, limit+1)
	for i := plen - 1; i >= 0; i-- {
		stack[i] = idx % na
		idx /= na
	}
	rec(limit)
}

func c04Pow(a, n int) int {
	p := 1
	for ; n > 0; n-- {
		p *= a
	}
	return p
}

func c04FamTokens(r *Run, plen, maxLen, maxLintLen int, deepShard bool) *Family {
	na := len(c04TokAlphabet)
	return &Family{Name: "token-strings", N: c04Pow(na, plen), Do: func(c *Case) {
		x := c04NewCtx(c)
		defer x.Done()
		lex := c04PickLexemes(c.R)
		limit := maxLen
		if deepShard && mix64(uint64(c.Idx)^c.Seed)%2 == 0 {
			limit = maxLen + 1
			x.cnt["token_blocks_enumerated_one_deeper"]++
		}
		parts := make([]string, 0, 8)
		c04Enumerate(na, plen, c.Idx, limit, func(stack []int) {
			parts = parts[:0]
			for _, s := range stack {
				parts = append(parts, lex[s])
			}
			text := strings.Join(parts, " ")
			v := x.Parse(text, "token-strings")
			if v.Silent == "" && v.Lex.ErrOff < 0 {
				// the reference tokenizer must give back exactly the enumerated tokens
				ok := len(v.Lex.Toks) == len(stack)
				for i := 0; ok && i < len(stack); i++ {
					ok = v.Lex.Toks[i].Kind == c04TokAlphabet[stack[i]].Kind && v.Lex.Toks[i].Text == lex[stack[i]]
				}
				if !ok {
					x.selfCheck(fmt.Sprintf("reference tokenizer does not reproduce the token string %q", text))
				}
			}
			if len(stack) <= maxLintLen || len(stack) <= maxLen && hashStr(text)%4 == 0 {
				x.Lint(text)
			} else if hashStr(text)%64 == 0 {
				x.LintOne(text, int(hashStr(text)/64%c04NEmb))
			}
			if c.Idx == 8 && len(stack) == 3 && v.Accept && stack[2] == 0 { // "a . a"
				c.Sample(map[string]interface{}{"family": "token-strings", "text": text, "reference": "sentence " + v.Sexpr})
			}
		})
	}}
}

// ---------------------------------------------------------------------------
// family 2: all character strings

func c04FamChars(r *Run, plen, maxLen int) *Family {
	na := len(c04CharAlphabet)
	return &Family{Name: "char-strings", N: c04Pow(na, plen), Do: func(c *Case) {
		x := c04NewCtx(c)
		defer x.Done()
		buf := make([]byte, 0, 8)
		c04Enumerate(na, plen, c.Idx, maxLen, func(stack []int) {
			buf = buf[:0]
			for _, s := range stack {
				buf = append(buf, c04CharAlphabet[s])
			}
			text := string(buf)
			v := x.Parse(text, "char-strings")
			if len(buf) <= 4 || hashStr(text)%4 == 0 {
				x.Lint(text)
			}
			if c.Idx == 30 && len(buf) == 3 && v.Accept {
				c.Sample(map[string]interface{}{"family": "char-strings", "text": text, "reference": "sentence " + v.Sexpr})
			}
		})
	}}
}

// ---------------------------------------------------------------------------
// family 3: whitespace variants of every sentence of up to maxTok tokens. Sentences are enumerated
// by a depth-first walk that the incremental Earley recogniser prunes at non-viable prefixes.

var c04WS = []string{" ", "\t", "\r", "\n"}

func c04FamWhitespace(r *Run, plen, fullTok, maxTok int, sampleEvery, lintEvery uint64) *Family {
	na := len(c04TokAlphabet)
	return &Family{Name: "whitespace-variants", N: c04Pow(na, plen), Do: func(c *Case) {
		x := c04NewCtx(c)
		defer x.Done()
		lex := c04PickLexemes(c.R)
		ear := c04NewEarley(c04CG)
		var stack []int
		variants := func() {
			n := len(stack)
			x.cnt["ws_base_sentences"]++
			var sb strings.Builder
			for _, ws := range c04WS {
				for mask := 0; mask < 1<<uint(n+1); mask++ {
					if mask == 0 && ws != " " {
						continue // the glued form is the same for every whitespace character
					}
					sb.Reset()
					for i := 0; i <= n; i++ {
						if mask&(1<<uint(i)) != 0 {
							sb.WriteString(ws)
						}
						if i < n {
							sb.WriteString(lex[stack[i]])
						}
					}
					text := sb.String()
					if n > fullTok && hashStr(text)%sampleEvery != 0 {
						continue
					}
					v := x.Parse(text, "whitespace-variants")
					if v.Accept {
						x.cnt["ws_variants_still_sentences"]++
					}
					if hashStr(text)%lintEvery == 0 {
						x.Lint(text)
					}
				}
			}
		}
		var rec func(stop int)
		rec = func(stop int) {
			if ear.Accepting() {
				variants()
			}
			if len(stack) >= stop {
				return
			}
			for s := 0; s < na; s++ {
				ok := ear.Push(c04TokAlphabet[s].Kind)
				if ok {
					stack = append(stack, s)
					rec(stop)
					stack = stack[:len(stack)-1]
				}
				ear.Pop()
			}
		}
		if c.Idx == 0 {
			rec(plen - 1) // sentences shorter than the block prefix
		}
		// push the block prefix; a prefix that is not viable heads no sentence
		idx, pre := c.Idx, make([]int, plen)
		for i := plen - 1; i >= 0; i-- {
			pre[i] = idx % na
			idx /= na
		}
		pushed, viable := 0, true
		for _, s := range pre {
			pushed++
			if !ear.Push(c04TokAlphabet[s].Kind) {
				viable = false
				break
			}
			stack = append(stack, s)
		}
		if viable {
			rec(maxTok)
		}
		for ; pushed > 0; pushed-- {
			ear.Pop()
		}
	}}
}

// ---------------------------------------------------------------------------
// family 4: random sentences and their mutations

type c04GTok struct {
	Kind c04Kind
	Text string
}

type c04Gen struct {
	r      *Rand
	out    []c04GTok
	budget int
}

var c04IdentPool = []string{"a", "b", "github", "env", "matrix", "x-y", "_z", "foo_bar", "A", "Sha", "true", "false", "null", "TRUE", "Null", "contains", "fromJSON", "e", "x", "E1", "_", "a-", "a--b", "a1"}
var c04IdentChars = "abcxyzABZ019_-"
var c04StrChars = []string{"a", "b", " ", "''", "}}", "}", "{", "\"", "é", "&&", ".", "-", "1", "(", ")", "*", ",", "\\", "→"}
var c04CmpOps = []c04GTok{{c04Lt, "<"}, {c04Le, "<="}, {c04Gt, ">"}, {c04Ge, ">="}, {c04Eq, "=="}, {c04Ne, "!="}}

func (g *c04Gen) emit(k c04Kind, s string) {
	g.out = append(g.out, c04GTok{k, s})
	g.budget--
}

func (g *c04Gen) count(d int) int {
	if d <= 0 || g.budget <= 0 {
		return 1
	}
	n := 1
	for n < 5 && g.r.Chance(2, 5) {
		n++
	}
	return n
}

func (g *c04Gen) ident() string {
	if g.r.Chance(3, 4) {
		return g.r.Pick(c04IdentPool)
	}
	var b strings.Builder
	b.WriteByte("abcxyzABZ_"[g.r.Intn(10)])
	for n := g.r.Intn(6); n > 0; n-- {
		b.WriteByte(c04IdentChars[g.r.Intn(len(c04IdentChars))])
	}
	return b.String()
}

func (g *c04Gen) str() string {
	var b strings.Builder
	b.WriteByte('\'')
	for n := g.r.Intn(5); n > 0; n-- {
		b.WriteString(g.r.Pick(c04StrChars))
	}
	b.WriteByte('\'')
	return b.String()
}

// num yields uncontested number forms only (the contested ones live in the number-forms family).
func (g *c04Gen) num() string {
	r := g.r
	sign := ""
	if r.Chance(1, 4) {
		sign = "-"
	}
	switch r.Intn(6) {
	case 0:
		return sign + fmt.Sprint(r.Intn(10))
	case 1:
		return sign + fmt.Sprint(r.Intn(2000000000))
	case 2:
		if r.Bool() {
			return fmt.Sprintf("0x%x", 1+r.Intn(0x7ffffffe))
		}
		return fmt.Sprintf("0x%X", 1+r.Intn(0xfffff))
	case 3:
		return sign + fmt.Sprintf("%d.%d", r.Intn(1000), r.Intn(1000))
	case 4:
		e := "e"
		if r.Bool() {
			e = "E"
		}
		es := ""
		if r.Bool() {
			es = "-"
		}
		return sign + fmt.Sprintf("%d%s%s%d", r.Intn(100), e, es, r.Intn(30)) // Sprint of an int has no leading zero
	}
	return sign + fmt.Sprintf("%d.%de%d", r.Intn(10), r.Intn(100), 1+r.Intn(20))
}

func (g *c04Gen) or(d int) {
	for i, n := 0, g.count(d); i < n; i++ {
		if i > 0 {
			g.emit(c04Or, "||")
		}
		g.and(d)
	}
}

func (g *c04Gen) and(d int) {
	for i, n := 0, g.count(d); i < n; i++ {
		if i > 0 {
			g.emit(c04And, "&&")
		}
		g.cmp(d)
	}
}

func (g *c04Gen) cmp(d int) {
	n := 1
	if d > 0 && g.budget > 0 && g.r.Chance(2, 5) {
		n = 2
		if g.r.Chance(1, 5) {
			n = 3
		}
	}
	for i := 0; i < n; i++ {
		if i > 0 {
			o := c04CmpOps[g.r.Intn(len(c04CmpOps))]
			g.emit(o.Kind, o.Text)
		}
		g.unary(d)
	}
}

func (g *c04Gen) unary(d int) {
	for d > 0 && g.r.Chance(1, 5) {
		g.emit(c04Not, "!")
		d--
	}
	g.postfix(d)
}

func (g *c04Gen) postfix(d int) {
	g.primary(d)
	for n := g.r.Intn(4); n > 0 && g.budget > 0; n-- {
		switch g.r.Intn(4) {
		case 0, 1:
			g.emit(c04Dot, ".")
			g.emit(c04Ident, g.ident())
		case 2:
			g.emit(c04Dot, ".")
			g.emit(c04Star, "*")
		case 3:
			if d <= 0 {
				continue
			}
			g.emit(c04LBrack, "[")
			g.or(d - 1)
			g.emit(c04RBrack, "]")
		}
	}
}

func (g *c04Gen) primary(d int) {
	r := g.r
	k := r.Intn(10)
	if d <= 0 || g.budget <= 0 {
		k = r.Intn(5)
	}
	switch {
	case k < 2:
		g.emit(c04Ident, g.ident())
	case k < 3:
		g.emit(c04String, g.str())
	case k < 5:
		g.emit(c04Num, g.num())
	case k < 7:
		g.emit(c04LParen, "(")
		g.or(d - 1)
		g.emit(c04RParen, ")")
	default:
		g.emit(c04Ident, g.ident())
		g.emit(c04LParen, "(")
		for i, n := 0, r.Intn(4); i < n; i++ {
			if i > 0 {
				g.emit(c04Comma, ",")
			}
			g.or(d - 1)
		}
		g.emit(c04RParen, ")")
	}
}

func c04Render(r *Rand, toks []c04GTok, rareWS bool) string {
	var b strings.Builder
	gap := func(prev, next *c04GTok) {
		k := r.Intn(20)
		switch {
		case k < 8:
			if prev != nil && next != nil && prev.Kind == c04Num && next.Kind == c04Dot {
				b.WriteByte(' ') // a number glued to '.' is outside the compared domain
			}
		case k < 16:
			b.WriteByte(' ')
		case k < 17:
			b.WriteString("  ")
		case k < 18:
			b.WriteByte('\t')
		default:
			if rareWS && k == 18 {
				b.WriteByte('\n')
			} else if rareWS && r.Chance(1, 4) {
				b.WriteString("\r\n")
			} else {
				b.WriteByte(' ')
			}
		}
	}
	for i := range toks {
		var prev *c04GTok
		if i > 0 {
			prev = &toks[i-1]
			gap(prev, &toks[i])
		} else if r.Chance(1, 6) {
			b.WriteByte(' ')
		}
		b.WriteString(toks[i].Text)
	}
	if r.Chance(1, 6) {
		b.WriteByte(' ')
	}
	return b.String()
}

var c04MutOps = []string{"delete", "duplicate", "replace", "insert", "swap", "junk-char", "delete-char"}
var c04Junk = []string{"#", "\"", "$", "{", "%", "\\", "@", "~", "^", "?", ":", ";", "`", "é", "\v", "\f", "+", "-", "=", "&", "|", "/", "}", "'", "0", "x", "_", "."}

func (g *c04Gen) randTok() c04GTok {
	s := c04TokAlphabet[g.r.Intn(len(c04TokAlphabet))]
	switch s.Kind {
	case c04Ident:
		if len(s.Lex) > 1 {
			return c04GTok{c04Ident, g.ident()}
		}
	case c04String:
		return c04GTok{c04String, g.str()}
	case c04Num:
		return c04GTok{c04Num, g.num()}
	}
	return c04GTok{s.Kind, s.Lex[0]}
}

func c04FamRandom(r *Run, ncases, per int) *Family {
	return &Family{Name: "random-sentences", N: ncases, Do: func(c *Case) {
		x := c04NewCtx(c)
		defer x.Done()
		for k := 0; k < per; k++ {
			budget := 3 + c.R.Intn(40)
			if c.R.Chance(1, 8) {
				budget = 40 + c.R.Intn(120)
			}
			g := &c04Gen{r: c.R, budget: budget}
			g.or(c.R.Range(1, 12))
			toks := g.out
			text := c04Render(c.R, toks, true)
			v := x.Parse(text, "random-sentences")
			if v.Silent == "" {
				if v.Accept {
					x.cnt["random_sentences_confirmed_by_reference"]++
				} else {
					// the generator emits sentences only; glued tokens may merge, which is fine, but
					// count it so that a broken generator is noticed
					x.cnt["random_sentences_not_a_sentence_after_rendering"]++
				}
			}
			if k == 0 && c.Idx < 4 {
				c.Sample(map[string]interface{}{"family": "random-sentences", "text": text, "reference_accepts": v.Accept, "tree": truncate(v.Sexpr, 400)})
			}
			x.LintOne(text, c.R.Intn(c04NEmb))
			for m := 0; m < 3; m++ {
				op := c04MutOps[c.R.Intn(len(c04MutOps))]
				mt := append([]c04GTok(nil), toks...)
				var mtext string
				i := c.R.Intn(len(mt))
				switch op {
				case "delete":
					mt = append(mt[:i], mt[i+1:]...)
				case "duplicate":
					mt = append(mt[:i+1], mt[i:]...)
				case "replace":
					mt[i] = g.randTok()
				case "insert":
					mt = append(mt[:i+1], mt[i:]...)
					mt[i] = g.randTok()
				case "swap":
					if i+1 < len(mt) {
						mt[i], mt[i+1] = mt[i+1], mt[i]
					}
				}
				switch op {
				case "junk-char":
					p := c.R.Intn(len(text) + 1)
					for p > 0 && p < len(text) && text[p]&0xc0 == 0x80 {
						p--
					}
					mtext = text[:p] + c.R.Pick(c04Junk) + text[p:]
				case "delete-char":
					rs := []rune(text)
					p := c.R.Intn(len(rs))
					mtext = string(rs[:p]) + string(rs[p+1:])
				default:
					mtext = c04Render(c.R, mt, false)
				}
				mv := x.Parse(mtext, "random-sentences/"+op)
				x.set("mutation_ops_applied", op)
				if mv.Silent == "" && !mv.Accept {
					x.cnt["mutants_that_are_non_sentences"]++
				}
				x.LintOne(mtext, c.R.Intn(c04NEmb))
			}
		}
	}}
}

// ---------------------------------------------------------------------------
// family 5: number forms

var c04NumberForms = []string{
	// JSON forms
	"0", "-0", "1", "-1", "9", "10", "123", "1234567890", "0.0", "-0.0", "0.5", "-0.5", "1.0", "3.14159", "10.01", "1.000000000000000000001",
	"1e5", "1E5", "1e-5", "1E-5", "0e0", "0E0", "0e-0", "1e0", "-1e1", "1.5e3", "1.5E-3", "-1.5e-3", "0.0e0", "12e10", "1e10", "1e22", "1e300", "1e-300", "4.9e-324", "1e-400",
	// JSON forms with exponent sign '+' and exponent digits starting with 0 (contested)
	"1e+5", "1E+5", "1.5e+3", "0e+0", "-1e+1", "1e01", "1e00", "1E007", "1e-01", "1.5e-00", "1e+01", "1e+00",
	// range edges
	"2147483647", "2147483648", "-2147483648", "-2147483649", "4294967295", "4294967296", "9007199254740992", "9007199254740993",
	"9223372036854775807", "9223372036854775808", "-9223372036854775808", "18446744073709551616", "123456789012345678901234567890",
	"1e308", "1.7976931348623157e308", "1e309", "-1e309", "2e308",
	// hex
	"0x0", "0x1", "0x9", "0xa", "0xF", "0xff", "0xFF", "0xaB", "0x10", "0x100", "0x7fffffff", "0x7FFFFFFF", "0x80000000", "0xffffffff", "0xDeadBeef", "0x123456789abcdef", "0xabcdef",
	// hex forms where the statement is silent
	"0x00", "0x01", "0x0a", "0x0123", "-0x1", "-0x0", "-0xff",
	// not numbers of the language
	"00", "01", "-01", "007", "0123", "+1", "+0", "-", "--1", "-+1", "1.", "-1.", "0.", ".5", "-.5", "1.e5", "1e", "1e+", "1e-", "1E", "1e5.5", "1e5e5", "1.5.5",
	"0x", "0X1", "0xg", "0x1g", "0xG", "1x", "1a", "1_000", "1_", "0b1", "0o7", "0x1p3", "1f", "1L", "1n", "0x-1", "1e1x", "1.5a", "0e", "-a", "-'s'", "- 1", "1 e5", "1e 5", "0 x1", "0x 1", "1 .5", "1. 5",
	"Infinity", "NaN", "-Infinity", "1,5", "1'000", "１", "٣",
}

var c04NumberContexts = []string{"#", " # ", "a[#]", "# == #", "f(#, #)", "f(#,#)", "!#", "(#)", "# .a", "#.a", "a.#", "a #", "# a", "#)", "[#]", "#&&#", "a<#", "a>=#", "#||a", "#!=a", "a[#].b", "#[0]", "# #", "a.b==#&&c"}

func c04FamNumbers(r *Run) *Family {
	return &Family{Name: "number-forms", N: len(c04NumberForms), Do: func(c *Case) {
		x := c04NewCtx(c)
		defer x.Done()
		x.lintTailEvery = 1
		form := c04NumberForms[c.Idx]
		for _, ctx := range c04NumberContexts {
			text := strings.ReplaceAll(ctx, "#", form)
			v := x.Parse(text, "number-forms")
			x.Lint(text)
			if ctx == "#" {
				verdict := "rejected"
				if v.Silent != "" {
					verdict = "not compared (" + v.Silent + ")"
				} else if v.Accept {
					verdict = "sentence"
				}
				x.set("number_forms_reference_verdicts", verdict)
				if c.Idx%37 == 0 {
					c.Sample(map[string]interface{}{"family": "number-forms", "text": text, "reference": verdict})
				}
			}
		}
	}}
}

// ---------------------------------------------------------------------------
// family 6: operator chains — every sequence of up to n binary operators over operands with and
// without '!', i.e. every operator pair at every position of a chain

func c04FamChains(r *Run, maxOps int) *Family {
	ops := []string{"||", "&&", "<", "<=", ">", ">=", "==", "!="}
	// one case per (number of operators, first two operators)
	type blk struct{ n, a, b int }
	var blocks []blk
	blocks = append(blocks, blk{0, 0, 0})
	for a := range ops {
		blocks = append(blocks, blk{1, a, 0})
	}
	for n := 2; n <= maxOps; n++ {
		for a := range ops {
			for b := range ops {
				blocks = append(blocks, blk{n, a, b})
			}
		}
	}
	operands := []string{"a", "b", "c", "d", "e", "f", "g"}
	return &Family{Name: "operator-chains", N: len(blocks), Do: func(c *Case) {
		x := c04NewCtx(c)
		defer x.Done()
		bk := blocks[c.Idx]
		seq := make([]int, bk.n)
		var run func(i int)
		run = func(i int) {
			if i < bk.n {
				for o := range ops {
					if i == 0 && o != bk.a || i == 1 && o != bk.b {
						continue
					}
					seq[i] = o
					run(i + 1)
				}
				return
			}
			for notMask := 0; notMask < 1<<uint(bk.n+1); notMask++ {
				var sb strings.Builder
				sp := ""
				if (notMask+c.Idx)%3 == 0 {
					sp = " "
				}
				for k := 0; k <= bk.n; k++ {
					if k > 0 {
						sb.WriteString(sp + ops[seq[k-1]] + sp)
					}
					if notMask&(1<<uint(k)) != 0 {
						sb.WriteByte('!')
					}
					sb.WriteString(operands[k])
				}
				text := sb.String()
				v := x.Parse(text, "operator-chains")
				if v.Accept {
					x.cnt["chains_checked"]++
				}
				if hashStr(text)%16 == 0 {
					x.LintOne(text, int(hashStr(text)/16%c04NEmb))
				}
			}
		}
		run(0)
	}}
}

// ---------------------------------------------------------------------------
// family 7: the end marker

var c04EndMarkerTexts = []string{
	"true }} garbage", "true }}", "true}}", "a == 'x' }} && b", "a }} }}", "a }} 'unterminated", "a }} #", "a b }} c", "}} a", "}}", "a }", "a } }", "a}", "a }}}",
	"'}}'", "a == '}}'", "a['}}']", "f('}}', '}')", "'}' == a", "'a }} b'", "a == '{\"x\": {\"y\": 1}}'", "a }} ${{ b",
	"true && (a }} )", "!a }} b", "1 }} 2", "a.b }} .c", "f( }} )", "f(a) }} x",
}

func c04FamEndMarker(r *Run) *Family {
	return &Family{Name: "end-marker", N: len(c04EndMarkerTexts), Do: func(c *Case) {
		x := c04NewCtx(c)
		defer x.Done()
		x.lintTailEvery = 1
		text := c04EndMarkerTexts[c.Idx]
		x.Parse(text, "end-marker")
		if strings.Contains(text, "${{") {
			x.LintOne(text, c04EmbIf)
			return
		}
		x.Lint(text)
	}}
}

// ---------------------------------------------------------------------------
// family 8: string literals that look like template syntax, alone and between other placeholders
// of the same scalar. Only the Linter level can see how placeholders are found in a template string.

// contents of string literals (” is the escaped quote)
var c04TemplateLiterals = []string{
	"${{", "${", "{{", "$", "{", "}", "} x", "}x", "''", "it''s ${{", "${{ x }", "${{ x } }", "${{ (", "$${{", "{{{", "${{''", "''${{",
	"${{ github.sha", "x ${{ y", "${{${{", "${ {", "$ {{", "%{{", "${{ '' }",
	// with the end marker inside the literal (the tokenizer honours string literals, so it is content)
	"}}", "${{ x }}", "a }} b", "{{ x }}", "}}}", "${{ '' }}",
}

// sentences without semantic errors at run:, env:, if: and name: of a step; # is the literal
var c04TemplateShapes = []string{
	"'#'", "github.ref == '#'", "contains(github.ref, '#')", "startsWith('#', '#') && true", "'#' != 'x' || github.sha == '#'", "!endsWith(github.ref, '#')", "github.ref=='#'",
}

var c04CleanPlaceholders = []string{"${{ 1 }}", "${{ 'x' }}", "${{github.sha}}", "${{ true && 1 == 1 }}", "${{ 'it''s' }}", "${{ '}' }}", "${{ '${{' }}", "${{ github.ref != '${{ x' }}"}
var c04BrokenPlaceholders = []string{"${{ a b }}", "${{ 1 == }}", "${{ }}", "${{ 'x }}", "${{ github.ref = 'x' }}", "${{ f(1,) }}", "${{ '${{' ' }}", "${{ 1 ${{ 2 }}"}
var c04TemplateSeps = []string{" ", "-", "", " $ ", "{", "} ", " text ", "$", "'"}

func c04FamTemplateLiterals(r *Run) *Family {
	ns := len(c04TemplateShapes)
	return &Family{Name: "template-literals", N: len(c04TemplateLiterals) * ns, Do: func(c *Case) {
		x := c04NewCtx(c)
		defer x.Done()
		x.lintTailEvery = 1
		lit := c04TemplateLiterals[c.Idx/ns]
		sentence := strings.ReplaceAll(c04TemplateShapes[c.Idx%ns], "#", lit)
		// the sentence alone: parser level and the five embeddings
		v := x.Parse(sentence, "template-literals")
		if v.Silent != "" || !v.Accept {
			x.selfCheck(fmt.Sprintf("template-literals: %q is not a sentence for the reference", sentence))
			return
		}
		x.Lint(sentence)
		if c.Idx%53 == 0 {
			c.Sample(map[string]interface{}{"family": "template-literals", "text": sentence, "reference": "sentence " + v.Sexpr})
		}
		pick := func(pool []string) string { return pool[c.R.Intn(len(pool))] }
		for key := 0; key < c04NKey; key++ {
			for pad := 0; pad < 2; pad++ {
				target := "${{ " + sentence + " }}"
				if pad == 1 {
					target = "${{" + sentence + "}}"
				}
				for npre := 0; npre <= 2; npre++ {
					for npost := 0; npost <= 2; npost++ {
						build := func(broken int) string {
							var b strings.Builder
							if key == c04KeyRun || c.R.Bool() {
								b.WriteString("echo ")
							}
							for i := 0; i < npre; i++ {
								b.WriteString(pick(c04CleanPlaceholders))
								b.WriteString(pick(c04TemplateSeps))
							}
							b.WriteString(target)
							for i := 0; i < npost; i++ {
								b.WriteString(pick(c04TemplateSeps))
								if i == broken {
									b.WriteString(pick(c04BrokenPlaceholders))
								} else {
									b.WriteString(pick(c04CleanPlaceholders))
								}
							}
							if c.R.Bool() {
								b.WriteString(pick(c04TemplateSeps) + "tail")
							}
							return b.String()
						}
						x.batch.AddTemplate(key, build(-1), sentence, true)
						x.cnt["template_all_sentences"]++
						for broken := 0; broken < npost; broken++ {
							x.batch.AddTemplate(key, build(broken), sentence, true)
							x.cnt["template_with_later_broken_placeholder"]++
						}
					}
				}
			}
		}
	}}
}

// ---------------------------------------------------------------------------

func runC04(r *Run) {
	r.Rule = "reference model (regex maximal-munch tokenizer + grammar table recognised by a generic Earley recogniser + precedence-climbing tree builder) against actionlint.NewExprLexer/NewExprParser().Parse and against Linter.Lint with the text embedded as ${{ }} in run:/env: values and as if: condition. Workloads: every string over the 23-symbol token alphabet and every string over the 25-character lexical alphabet up to a length bound; every whitespace filling of every sentence of up to 5 tokens; operator chains; random grammar sentences (nesting depth <= 12) with token/character mutations; a list of number forms in 24 contexts; end-marker texts; sentences whose string literals look like template syntax (${{, ${, {{, }, }} ...) alone in the five embeddings and in template scalars (run:, env:, if:, name:) between 0-2 further placeholders on each side, with and without a broken later placeholder; sequences of 5-50 valid / lexer-invalid / parser-invalid texts parsed by ONE ExprParser instance and compared position by position with a fresh parser (verdict, tree, message, offset). Non-trivial = a distinct text the reference decides (a hash-selected 1/8 of the sentences and 1/64 of the non-sentences are recorded)."
	r.Assume("the documented language is: literals null/true/false/number/'string', identifiers [A-Za-z_][A-Za-z0-9_-]*, postfix .name .* [expr] on any primary, calls ident(args), !, comparisons (chains allowed), &&, ||, parentheses; whitespace is space, tab, CR, LF")
	r.Assume("numbers: JSON number grammar or 0x followed by hex digits; compared as float64 values (int/float distinction is not part of the statement)")
	r.Assume("statement silent, not compared: a number literal immediately followed by '.', hex literals with a redundant leading zero (0x01), signed hex literals (-0x1), float literals that overflow a double (1e309)")
	r.Assume("placeholders of a template string are found left to right: one starts at \"${{\" and ends with the first \"}}\" token behind it (string literals are honoured, so \"}}\" and \"${{\" inside a literal are content); the search continues behind that end; actionlint reports only the first failing placeholder of a scalar. A bare if: condition that contains \"${{\" followed by \"}}\" is not compared (bare expression or template is not said)")
	r.Assume("ExprParser is reusable by its API (NewExprParser() + any number of Parse(lexer) calls) and a call must not depend on earlier calls; ExprLexer has no exported way to be given a second source (only NewExprLexer(src)), so it has no reuse check")
	r.Assume("only diagnostics of kind \"expression\" count; on a sentence only those whose message starts with one of the lexer/parser phrases are syntax diagnostics")
	r.Assume("for a bare if: condition an error column up to two columns behind the text (the end marker actionlint appends) still counts as inside the placeholder; for quoted scalars the quote column counts as inside")

	tokLen := r.Q(4, 5)
	charLen := r.Q(4, 5)
	fams := []*Family{
		c04FamEndMarker(r),
		c04FamTemplateLiterals(r),
		c04FamParserReuse(r, r.Q(3000, 100000)),
		c04FamNumbers(r),
		c04FamChains(r, r.Q(4, 5)),
		c04FamTokens(r, r.Q(2, 3), tokLen, 4, r.Thorough()),
		c04FamChars(r, r.Q(2, 3), charLen),
		c04FamWhitespace(r, r.Q(2, 3), r.Q(3, 5), r.Q(5, 6), uint64(r.Q(24, 32)), uint64(r.Q(16, 16))),
		c04FamRandom(r, r.Q(1000, 20000), 100),
	}
	r.RunFamilies(fams)
	r.SetExhaustive(true)
	deeper := ""
	if r.Thorough() {
		deeper = fmt.Sprintf(" (length %d for a seed-chosen half of the 3-token prefixes)", tokLen+1)
	}
	r.Extra("exhaustive_bound", fmt.Sprintf("parser level: all token strings of length <= %d over %d token symbols%s; all character strings of length <= %d over %d characters; all whitespace fillings (each gap empty or one of space, tab, CR, LF) of all sentences of <= %d tokens; all chains of <= %d binary operators. Linter level: all token and character strings of length <= 4 in three embeddings (longer ones sampled)",
		tokLen, len(c04TokAlphabet), deeper, charLen, len(c04CharAlphabet), r.Q(3, 5), r.Q(4, 5)))
	if r.ReplayOf != nil {
		return
	}

	// coverage floors
	need := func(cond bool, msg string) {
		if !cond {
			r.Inconclusive("coverage floor: " + msg)
		}
	}
	need(r.Counter("sentences") > 1000, "fewer than 1000 sentences compared")
	need(r.Counter("non_sentences") > 1000, "fewer than 1000 non-sentences compared")
	need(r.Counter("non_sentences_lexical") > 100, "fewer than 100 lexically malformed texts compared")
	for k := c04Ident; k < c04NKinds; k++ {
		need(r.SetHas("token_kinds_in_sentences", c04KindName[k]), "token kind "+c04KindName[k]+" never occurred in a compared sentence")
	}
	for _, o := range []string{"<", "<=", ">", ">=", "==", "!="} {
		need(r.SetHas("cmp_ops_in_trees", o), "comparison operator "+o+" never occurred in a compared tree")
	}
	for _, n := range []string{"or>and", "and>cmp", "cmp>not", "or>cmp", "and>or", "cmp>and", "not>or", "cmp>or", "not>cmp"} {
		need(r.SetHas("nesting", n), "no compared tree with nesting "+n)
	}
	for _, k := range []string{"var", "null", "bool", "num", "str", "prop", "star", "idx", "call"} {
		need(r.SetHas("node_kinds_in_trees", k), "no compared tree with a "+k+" node")
	}
	for e := 0; e < c04NEmb; e++ {
		need(r.Counter("lint_accepted:"+c04EmbName[e]) > 50, "fewer than 50 sentences linted as "+c04EmbName[e])
		need(r.Counter("lint_rejected:"+c04EmbName[e]) > 50, "fewer than 50 non-sentences linted as "+c04EmbName[e])
	}
	for k := 0; k < c04NKey; k++ {
		need(r.Counter("lint_accepted:template-"+c04KeyName_[k]) > 500, "fewer than 500 all-sentence template scalars linted at "+c04KeyName_[k]+":")
		need(r.Counter("lint_rejected:template-"+c04KeyName_[k]) > 200, "fewer than 200 template scalars with a later broken placeholder linted at "+c04KeyName_[k]+":")
	}
	need(r.Counter("template_scalars_with_5_placeholders") > 50, "fewer than 50 template scalars with five placeholders")
	need(r.Counter("lint_position_checked") > 1000, "fewer than 1000 diagnostic positions checked")
	for _, s := range []string{"number-immediately-followed-by-dot", "hex-with-redundant-leading-zero", "signed-hex", "float-literal-beyond-double-range"} {
		need(r.SetHas("silent_classes_seen", s), "excluded class "+s+" never met (the exclusion is dead code or the workload changed)")
	}
	for _, op := range c04MutOps {
		need(r.SetHas("mutation_ops_applied", op), "mutation operator "+op+" never applied")
	}
	need(r.Counter("ws_variants_still_sentences") > 1000, "fewer than 1000 whitespace variants that are sentences")
	need(r.Counter("reuse_positions_compared") > 50000, "parser-reuse: fewer than 50000 positions compared")
	need(r.Counter("reuse_valid_right_after_parser_error") > 2000, "parser-reuse: fewer than 2000 valid texts parsed right after a parser-level error")
	need(r.Counter("reuse_valid_right_after_lexer_error") > 2000, "parser-reuse: fewer than 2000 valid texts parsed right after a lexer-level error")
	need(r.Counter("reuse_invalid_right_after_parser-error") > 1000, "parser-reuse: fewer than 1000 invalid texts parsed right after a parser-level error")
	need(r.Counter("reuse_invalid_right_after_lexer-error") > 1000, "parser-reuse: fewer than 1000 invalid texts parsed right after a lexer-level error")
	need(r.Counter("reuse_positions_repeating_an_earlier_text") > 1000, "parser-reuse: fewer than 1000 positions that repeat an earlier text of the sequence")
	need(r.Counter("chains_checked") > 1000, "fewer than 1000 operator chains compared")
	need(r.Counter("random_sentences_confirmed_by_reference")*10 > r.Counter("random_sentences_not_a_sentence_after_rendering")*9+1, "the random sentence generator mostly produces non-sentences")
}
