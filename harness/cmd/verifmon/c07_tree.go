package main

// C07 — YAML tree model and emitter. The emitter writes a small node tree (mappings, sequences,
// scalars; block or flow; plain / single / double quoted) through the position-recording text
// builder YB, so every node knows the exact line:column of its first character in the produced
// text. All layout freedom the property quantifies over is a field of a node: indentation of a
// block collection, blanks before an inline node, comment / blank lines above an entry.

import (
	"strings"
	"unicode/utf8"

	"gopkg.in/yaml.v3"
)

const (
	c07Scalar = 's'
	c07Map    = 'm'
	c07Seq    = 'q'

	c07Plain  = 'p'
	c07Single = 'a' // apostrophe
	c07Double = 'd'
)

type c07Ent struct {
	k *c07Node
	v *c07Node
}

type c07Node struct {
	kind  byte
	val   string // scalar value (no escapes are ever needed: the generator never emits them)
	style byte
	ents  []*c07Ent
	items []*c07Node
	flow  bool
	// ind: indentation of a block collection relative to the indentation of the entry that holds
	// it (mapping under a key: >= 1, sequence under a key: >= 0); absolute for the root.
	ind int
	// pad: extra blanks immediately before the node when it is written inline (after "key: ",
	// "- ", "[", "{", ", ").
	pad int
	// above: complete lines (blank or comment) written before the line on which this node starts.
	// Honoured for keys of block mappings and items of block sequences, and for the root.
	above []string
	pos   Pos
	// prop: node properties written before a scalar ("&anchor " / "!!str " / both, blanks
	// included). pos stays the position of the scalar text; propPos is where the properties start
	// (the position the YAML library reports for such a node).
	prop    string
	propPos Pos
}

func c07S(v string) *c07Node { return &c07Node{kind: c07Scalar, val: v, style: c07Plain} }
func c07SQ(v string, style byte) *c07Node {
	return &c07Node{kind: c07Scalar, val: v, style: style}
}
func c07M() *c07Node { return &c07Node{kind: c07Map, ind: 2} }
func c07Q(items ...*c07Node) *c07Node {
	return &c07Node{kind: c07Seq, ind: 2, items: items}
}
func c07QS(vals ...string) *c07Node {
	n := c07Q()
	for _, v := range vals {
		n.items = append(n.items, c07S(v))
	}
	return n
}

// set appends (or replaces) the entry key -> v and returns v.
func (n *c07Node) set(key string, v *c07Node) *c07Node {
	for _, e := range n.ents {
		if e.k.val == key {
			e.v = v
			return v
		}
	}
	n.ents = append(n.ents, &c07Ent{c07S(key), v})
	return v
}

// add appends an entry even if the key already exists (duplicate keys are a test subject).
func (n *c07Node) add(key string, v *c07Node) *c07Ent {
	e := &c07Ent{c07S(key), v}
	n.ents = append(n.ents, e)
	return e
}

func (n *c07Node) get(key string) *c07Node {
	for _, e := range n.ents {
		if e.k.val == key {
			return e.v
		}
	}
	return nil
}

func (n *c07Node) ent(key string) *c07Ent {
	for _, e := range n.ents {
		if e.k.val == key {
			return e
		}
	}
	return nil
}

// sub returns the mapping under key, creating it when absent.
func (n *c07Node) sub(key string) *c07Node {
	if v := n.get(key); v != nil && v.kind == c07Map {
		return v
	}
	return n.set(key, c07M())
}

func (n *c07Node) str(key, val string) *c07Node { return n.set(key, c07S(val)) }

func c07ScalarText(n *c07Node) string {
	switch n.style {
	case c07Single:
		return "'" + n.val + "'"
	case c07Double:
		return "\"" + n.val + "\""
	}
	return n.val
}

func (n *c07Node) inline() bool {
	return n.kind == c07Scalar || n.flow || (n.kind == c07Map && len(n.ents) == 0) || (n.kind == c07Seq && len(n.items) == 0)
}

type c07Emitter struct{ b *YB }

func (e *c07Emitter) lines(ls []string) {
	for _, l := range ls {
		e.b.W(l)
		e.b.W("\n")
	}
}

func (e *c07Emitter) sp(n int) {
	if n > 0 {
		e.b.W(strings.Repeat(" ", n))
	}
}

func (e *c07Emitter) scalar(n *c07Node) {
	if n.prop != "" {
		n.propPos = e.b.W(n.prop)
	}
	n.pos = e.b.W(c07ScalarText(n))
	if n.prop == "" {
		n.propPos = n.pos
	}
}

func (e *c07Emitter) inlineNode(n *c07Node) {
	e.sp(n.pad)
	switch n.kind {
	case c07Scalar:
		e.scalar(n)
	case c07Map:
		n.pos = e.b.W("{")
		for i, en := range n.ents {
			if i > 0 {
				e.b.W(", ")
			}
			e.inlineNode(en.k)
			e.b.W(": ")
			e.inlineNode(en.v)
		}
		e.b.W("}")
	case c07Seq:
		n.pos = e.b.W("[")
		for i, it := range n.items {
			if i > 0 {
				e.b.W(", ")
			}
			e.inlineNode(it)
		}
		e.b.W("]")
	}
}

// value writes what follows "key:" (or "-"): an inline node on the same line or a block collection
// on the following lines. indent is the column offset (0-based) of the holder.
func (e *c07Emitter) value(v *c07Node, indent int) {
	if v == nil {
		e.b.W("\n")
		return
	}
	if v.inline() {
		e.b.W(" ")
		e.inlineNode(v)
		e.b.W("\n")
		return
	}
	e.b.W("\n")
	if v.kind == c07Map {
		in := v.ind
		if in < 1 {
			in = 1
		}
		e.blockMap(v, indent+in, false)
	} else {
		in := v.ind
		if in < 0 {
			in = 0
		}
		e.blockSeq(v, indent+in)
	}
}

func (e *c07Emitter) blockMap(n *c07Node, indent int, firstInline bool) {
	for i, en := range n.ents {
		if !(i == 0 && firstInline) {
			e.lines(en.k.above)
			e.sp(indent)
		}
		if i == 0 {
			n.pos = e.b.Pos()
		}
		e.scalar(en.k)
		e.b.W(":")
		e.value(en.v, indent)
	}
}

func (e *c07Emitter) blockSeq(n *c07Node, indent int) {
	for i, it := range n.items {
		e.lines(it.above)
		e.sp(indent)
		p := e.b.W("-")
		if i == 0 {
			n.pos = p
		}
		if it.inline() {
			e.b.W(" ")
			e.inlineNode(it)
			e.b.W("\n")
			continue
		}
		if it.kind == c07Map {
			e.b.W(" ")
			e.sp(it.pad)
			e.blockMap(it, indent+2+it.pad, true)
			continue
		}
		// nested block sequence: "- - x" is never generated; write it on following lines
		e.b.W("\n")
		e.blockSeq(it, indent+2)
	}
}

// c07Emit renders the document and fills in the positions of all nodes.
func c07Emit(root *c07Node) string {
	e := &c07Emitter{b: NewYB()}
	e.lines(root.above)
	if root.inline() {
		e.inlineNode(root)
		e.b.W("\n")
	} else if root.kind == c07Map {
		e.blockMap(root, root.ind, false)
	} else {
		e.blockSeq(root, root.ind)
	}
	src := e.b.String()
	c07CharColumns(root, strings.Split(src, "\n"))
	return src
}

// c07CharColumns converts the byte columns recorded while writing into character columns (the
// unit of the YAML library and of the diagnostics); they differ on lines holding non-ASCII text.
func c07CharColumns(n *c07Node, lines []string) {
	if n == nil {
		return
	}
	conv := func(p *Pos) {
		if p.Line >= 1 && p.Line <= len(lines) && p.Col >= 1 && p.Col-1 <= len(lines[p.Line-1]) {
			p.Col = utf8.RuneCountInString(lines[p.Line-1][:p.Col-1]) + 1
		}
	}
	conv(&n.pos)
	conv(&n.propPos)
	for _, en := range n.ents {
		c07CharColumns(en.k, lines)
		c07CharColumns(en.v, lines)
	}
	for _, it := range n.items {
		c07CharColumns(it, lines)
	}
}

// c07Path returns the chain of nodes from the root to target (inclusive); for a key node the
// chain ends with the mapping that holds it followed by the key.
func c07Path(root, target *c07Node) []*c07Node {
	if root == target {
		return []*c07Node{root}
	}
	switch root.kind {
	case c07Map:
		for _, en := range root.ents {
			if en.k == target {
				return []*c07Node{root, en.k}
			}
			if en.v == nil {
				continue
			}
			if p := c07Path(en.v, target); p != nil {
				// the key node is part of the chain: lines above the key shift the target
				return append([]*c07Node{root, en.k}, p...)
			}
		}
	case c07Seq:
		for _, it := range root.items {
			if p := c07Path(it, target); p != nil {
				return append([]*c07Node{root}, p...)
			}
		}
	}
	return nil
}

// ---------------------------------------------------------------------------
// plain-scalar safety (generator side): a conservative test for "this text, written without
// quotes at this place, is one plain scalar with exactly this value"

func c07PlainSafe(s string, inFlow, isKey bool) bool {
	if s == "" || s != strings.TrimSpace(s) {
		return false
	}
	c := s[0]
	first := c >= 'a' && c <= 'z' || c >= 'A' && c <= 'Z' || c >= '0' && c <= '9' || c == '$' || c == '(' || c == '.' || c == '/' || c == '_'
	if !first {
		return false
	}
	if strings.Contains(s, ": ") || strings.Contains(s, " #") || strings.HasSuffix(s, ":") || strings.ContainsAny(s, "\n\r\t") {
		return false
	}
	if inFlow && strings.ContainsAny(s, ",[]{}?*&!|>%@`") {
		return false
	}
	if inFlow && strings.Contains(s, ":") {
		return false // "a:b" inside a flow collection is read differently by different parsers
	}
	if isKey && strings.Contains(s, ":") {
		return false
	}
	for i := 0; i < len(s); i++ {
		if s[i] < 0x20 || s[i] > 0x7e {
			return false
		}
	}
	return true
}

func c07StyleOK(s string, style byte, inFlow, isKey bool) bool {
	for i := 0; i < len(s); i++ {
		if s[i] == '\t' && style != c07Plain {
			continue // a literal tab is allowed inside quotes
		}
		if s[i] < 0x20 || s[i] > 0x7e {
			return false
		}
	}
	switch style {
	case c07Plain:
		return c07PlainSafe(s, inFlow, isKey)
	case c07Single:
		return !strings.Contains(s, "'")
	case c07Double:
		return !strings.ContainsAny(s, "\"\\")
	}
	return false
}

// ---------------------------------------------------------------------------
// generator self check: the YAML library must see a scalar with exactly the intended value at
// exactly the recorded position. This guards the generator (not the linter).

func c07YAMLHasScalarAt(src string, p Pos, val string) bool {
	var doc yaml.Node
	if err := yaml.Unmarshal([]byte(src), &doc); err != nil {
		return false
	}
	found := false
	var walk func(n *yaml.Node)
	walk = func(n *yaml.Node) {
		if n == nil || found {
			return
		}
		if n.Kind == yaml.ScalarNode && n.Line == p.Line && n.Column == p.Col && n.Value == val {
			found = true
			return
		}
		for _, c := range n.Content {
			walk(c)
		}
	}
	walk(&doc)
	return found
}

// c07YAMLHasPropScalarAt: like c07YAMLHasScalarAt for a scalar written with node properties: the
// library must report the node at the first property, with the intended value, anchor and tag.
func c07YAMLHasPropScalarAt(src string, p Pos, val, anchor string, tagged bool) bool {
	var doc yaml.Node
	if err := yaml.Unmarshal([]byte(src), &doc); err != nil {
		return false
	}
	found := false
	var walk func(n *yaml.Node)
	walk = func(n *yaml.Node) {
		if n == nil || found {
			return
		}
		if n.Kind == yaml.ScalarNode && n.Line == p.Line && n.Column == p.Col && n.Value == val && n.Anchor == anchor && (n.Style&yaml.TaggedStyle != 0) == tagged {
			found = true
			return
		}
		for _, c := range n.Content {
			walk(c)
		}
	}
	walk(&doc)
	return found
}
