package main

// C11 — script-injection detection is complete and precise.
//
// Reference-model monitor. Expressions are generated from a model (access chains over the exported
// BuiltinUntrustedInputs tree, spelled in every documented way, embedded in operators, parentheses,
// index positions and call arguments). The model is evaluated by an independent, top-down reference
// (c11RefEval) that yields the set of untrusted paths every chain reads; the expected report set of
// an expression is the reference result of every chain that is not enclosed in a sanitising call.
// The expression is put at script positions (run:, script: of actions/github-script) and at
// non-script positions (env:, with: of other actions, other inputs of github-script, if:) of one
// workflow, the workflow is linted by the real Linter, and the paths parsed out of the two
// diagnostic forms are compared per position.
//
// Generator and builder live in c11_gen.go.

import (
	"fmt"
	"os"
	"path/filepath"
	"regexp"
	"sort"
	"strings"

	"github.com/rhysd/actionlint"
)

func init() { registry["C11"] = runC11 }

// ---------------------------------------------------------------------------
// The untrusted-input tree, copied from the exported table at check time (sorted, so that nothing
// depends on map order).

type c11Node struct {
	name   string
	parent *c11Node
	kids   []*c11Node
}

func (n *c11Node) child(name string) *c11Node {
	for _, k := range n.kids {
		if k.name == name {
			return k
		}
	}
	return nil
}

func (n *c11Node) path() string {
	if n.parent == nil {
		return n.name
	}
	return n.parent.path() + "." + n.name
}

// segments of the path below the root, e.g. [event commits * message]
func (n *c11Node) segNames() []string {
	if n.parent == nil {
		return nil
	}
	return append(n.parent.segNames(), n.name)
}

func c11CopyTree(m *actionlint.UntrustedInputMap, parent *c11Node) *c11Node {
	n := &c11Node{name: m.Name, parent: parent}
	keys := make([]string, 0, len(m.Children))
	for k := range m.Children {
		keys = append(keys, k)
	}
	sort.Strings(keys)
	for _, k := range keys {
		n.kids = append(n.kids, c11CopyTree(m.Children[k], n))
	}
	return n
}

type c11Tree struct {
	roots  []*c11Node
	leaves []*c11Node
}

func c11BuildTree() *c11Tree {
	t := &c11Tree{}
	keys := make([]string, 0, len(actionlint.BuiltinUntrustedInputs))
	for k := range actionlint.BuiltinUntrustedInputs {
		keys = append(keys, k)
	}
	sort.Strings(keys)
	for _, k := range keys {
		t.roots = append(t.roots, c11CopyTree(actionlint.BuiltinUntrustedInputs[k], nil))
	}
	var walk func(n *c11Node)
	walk = func(n *c11Node) {
		if len(n.kids) == 0 {
			t.leaves = append(t.leaves, n)
			return
		}
		for _, k := range n.kids {
			walk(k)
		}
	}
	for _, r := range t.roots {
		walk(r)
	}
	return t
}

func (t *c11Tree) root(name string) *c11Node {
	for _, r := range t.roots {
		if r.name == name {
			return r
		}
	}
	return nil
}

// ---------------------------------------------------------------------------
// Abstract access chains and their reference evaluation

const (
	c11SegName  = iota // .name or ['name']
	c11SegIndex        // [<expression that is not a string literal>]
	c11SegStar         // .*
)

type c11Seg struct {
	Kind int
	Name string // canonical (lower-case) name for c11SegName
}

// c11RefEval evaluates an access chain over the tree of untrusted inputs, top-down over the whole
// chain: the value is the set of tree nodes the chain may denote. Names are compared without
// regard to letter case. `.*` on an array node selects its elements, on an object node all its
// members, and turns the value into a filtered array; an index applied to a filtered array picks
// one of its elements (the node set is unchanged), an index applied to anything else selects the
// element node of an array. The result is the sorted list of untrusted leaves reached.
func c11RefEval(t *c11Tree, root string, segs []c11Seg) []string {
	r := t.root(strings.ToLower(root))
	if r == nil {
		return nil
	}
	set := []*c11Node{r}
	filtered := false
	for _, s := range segs {
		var next []*c11Node
		switch s.Kind {
		case c11SegName:
			for _, n := range set {
				if k := n.child(strings.ToLower(s.Name)); k != nil && s.Name != "*" {
					next = append(next, k)
				}
			}
		case c11SegIndex:
			if filtered {
				filtered = false
				next = set
				break
			}
			for _, n := range set {
				if k := n.child("*"); k != nil {
					next = append(next, k)
				}
			}
		case c11SegStar:
			filtered = true
			for _, n := range set {
				if k := n.child("*"); k != nil {
					next = append(next, k)
					continue
				}
				next = append(next, n.kids...)
			}
		}
		set = next
		if len(set) == 0 {
			return nil
		}
	}
	var out []string
	for _, n := range set {
		if len(n.kids) == 0 {
			out = append(out, n.path())
		}
	}
	sort.Strings(out)
	return out
}

// ---------------------------------------------------------------------------
// Workflow with the expression at every position class

type c11Position struct {
	Name    string  `json:"name"`
	Script  bool    `json:"script_position"`
	Line    int     `json:"line"`
	EndLine int     `json:"end_line"`
	Ctx     *c11Ctx `json:"context,omitempty"` // nil: the simple single-line contexts
}

var c11PositionNames = []string{"run", "github-script.script", "github-script.other-input", "with-other-action", "env-step", "if-placeholder", "step-name", "working-directory", "if-bare", "env-run-step", "other-action.script"}

// c11Workflow renders the workflow that holds the expression at every position class.
// ctxMode 0: simple single-line text around the placeholder, plain or double-quoted scalars.
// ctxMode 1: every position gets a context drawn from the shell / JavaScript template pools and a
// YAML style (quoted, literal / folded block scalar with the placeholder on a later line, CRLF).
// sys >= 0 (with ctxMode 1) selects template and style of the two script positions systematically.
func c11Workflow(r *Rand, expr string, ctxMode, sys int) (string, []c11Position) {
	b := NewYB()
	var ps []c11Position
	ph := "${{ " + expr + " }}"
	if r.Intn(4) == 0 {
		ph = "${{" + expr + "}}"
	}
	// scalar: plain or double quoted; the generated expressions contain neither '"', '\\', '#' nor ': '
	sc := func(s string) string {
		if r.Bool() {
			return `"` + s + `"`
		}
		return s
	}
	// at writes one position. simple is the ctxMode-0 text; lang selects the template pool.
	at := func(name string, script bool, indent int, key, simple string, lang int) {
		if ctxMode == 0 || lang < 0 {
			p := b.L(indent, key+": "+simple)
			ps = append(ps, c11Position{Name: name, Script: script, Line: p.Line, EndLine: p.Line})
			return
		}
		s := -1
		if script {
			s = sys
		}
		tpl, style := c11PickCtx(r, lang, s)
		if name == "if-placeholder" && r.Intn(3) != 0 {
			tpl, style = "@@", "dq" // text around the placeholder of an if: draws foreign diagnostics
		}
		text := strings.Replace(tpl, "@@", ph, 1)
		style = c11StyleFor(text, style)
		l0, l1 := c11WriteScalar(b, indent, key, text, style)
		ctx := &c11Ctx{Template: tpl, Style: style, Feats: append(c11CtxFeatures(tpl), "style-"+style)}
		ps = append(ps, c11Position{Name: name, Script: script, Line: l0, EndLine: l1, Ctx: ctx})
	}
	b.L(0, "on: push")
	b.L(0, "jobs:")
	b.L(2, "j:")
	b.L(4, "runs-on: ubuntu-latest")
	b.L(4, "strategy:")
	b.L(6, "matrix:")
	b.L(8, "n: [0, 1]")
	b.L(4, "steps:")
	pre := r.Pick([]string{"echo ", "echo '", "FOO=", "if [ ", "x ", "echo "})
	post := r.Pick([]string{"", "'", " ]; then echo; fi", " | cat", ""})
	at("run", true, 6, "- run", sc(pre+ph+post), 0)
	b.L(6, "- uses: actions/github-script@"+r.Pick([]string{"v7", "v7", "main", "60a0d83039c74a4aee543508d2ffcb1c3799cdea", "v7.0.1"}))
	b.L(8, "with:")
	// action input keys are case-insensitive (GitHub and actionlint's parser fold them), so the
	// script input may be spelled Script / SCRIPT as well
	at("github-script.script", true, 10, r.Pick([]string{"script", "script", "script", "Script", "SCRIPT", "scRipt"}), sc(r.Pick([]string{"console.log(", "return ", "core.info(`"})+ph+r.Pick([]string{")", "", "`)"})), 1)
	at("github-script.other-input", false, 10, r.Pick([]string{"github-token", "result-encoding", "retries"}), sc(ph), 2)
	b.L(6, "- uses: actions/checkout@v4")
	b.L(8, "with:")
	at("with-other-action", false, 10, r.Pick([]string{"ref", "path", "token"}), sc(ph), 2)
	b.L(8, "env:")
	at("env-step", false, 10, "FOO", sc(r.Pick([]string{"", "x "})+ph), 2)
	at("if-placeholder", false, 8, "if", sc(ph), 2)
	b.L(6, "- run: echo")
	at("step-name", false, 8, "name", sc(r.Pick([]string{"", "Build "})+ph), 2)
	at("working-directory", false, 8, "working-directory", sc(ph), 2)
	at("if-bare", false, 8, "if", `"`+expr+`"`, -1)
	b.L(8, "env:")
	at("env-run-step", false, 10, "BAR", sc(ph), 0)
	b.L(6, "- uses: some-org/other-action@v1")
	b.L(8, "with:")
	at("other-action.script", false, 10, "script", sc("console.log("+ph+")"), 1)
	src := b.String()
	if ctxMode == 1 && r.Intn(4) == 0 {
		// the whole file with CRLF line breaks
		src = strings.ReplaceAll(src, "\n", "\r\n")
		for i := range ps {
			if ps[i].Ctx != nil {
				ps[i].Ctx.Feats = append(ps[i].Ctx.Feats, "crlf-file")
			}
		}
	}
	return src, ps
}

// ---------------------------------------------------------------------------
// Diagnostics

var (
	c11SingleRe = regexp.MustCompile(`^"([^"]+)" is potentially untrusted\. avoid using it directly in inline scripts\.`)
	c11MultiRe  = regexp.MustCompile(`^object filter extracts potentially untrusted properties ("[^"]+"(?:, "[^"]+")*)\. avoid using the value directly in inline scripts\.`)
	c11QuotedRe = regexp.MustCompile(`"([^"]+)"`)
	// string literal used as a complete index: [ 'name' ]
	c11StrIndexRe = regexp.MustCompile(`\[( *)'([^']*)'( *)\]`)
)

const c11TemplateTypeMsg = "object, array, and null values should not be evaluated in template with ${{ }}"

// c11ParseReport returns the sorted paths named by an untrusted-input diagnostic, ok=false when
// the message is not one of the two forms, isUntrusted=false when the diagnostic is something else.
func c11ParseReport(msg string) (paths []string, form string, isUntrusted, ok bool) {
	if m := c11SingleRe.FindStringSubmatch(msg); m != nil {
		return []string{m[1]}, "single", true, true
	}
	if m := c11MultiRe.FindStringSubmatch(msg); m != nil {
		for _, q := range c11QuotedRe.FindAllStringSubmatch(m[1], -1) {
			paths = append(paths, q[1])
		}
		sort.Strings(paths)
		return paths, "multi", true, true
	}
	if strings.Contains(msg, "untrusted") {
		return nil, "", true, false
	}
	return nil, "", false, true
}

type c11Observed struct {
	// per position name: set of reports, each report = sorted paths joined by " + "
	reports  map[string][]string
	forms    map[string]bool
	other    map[string][]string // foreign diagnostics per position ("" = outside every position)
	unparsed []string
	stray    []string // untrusted diagnostics on a line that is no position
}

// notEvaluated: the expression as a whole cannot be judged (foreign diagnostic at a script position
// or outside all positions - a syntax/semantic error of the expression appears at every position).
func (o *c11Observed) notEvaluated(ps []c11Position) []string {
	out := append([]string(nil), o.other[""]...)
	for _, p := range ps {
		if p.Script {
			out = append(out, o.other[p.Name]...)
		}
	}
	return out
}

func c11Observe(ds []Diag, ps []c11Position) *c11Observed {
	o := &c11Observed{reports: map[string][]string{}, forms: map[string]bool{}, other: map[string][]string{}}
	posAt := func(line int) *c11Position {
		for i := range ps {
			if ps[i].Line <= line && line <= ps[i].EndLine {
				return &ps[i]
			}
		}
		return nil
	}
	for _, d := range ds {
		paths, form, isU, ok := c11ParseReport(d.Msg)
		p := posAt(d.Line)
		switch {
		case isU && !ok:
			o.unparsed = append(o.unparsed, d.String())
		case isU:
			if p == nil {
				o.stray = append(o.stray, d.String())
				continue
			}
			o.reports[p.Name] = append(o.reports[p.Name], strings.Join(paths, " + "))
			o.forms[form] = true
		case strings.HasPrefix(d.Msg, c11TemplateTypeMsg):
			// produced after (and independently of) the semantic check of the placeholder
		case p != nil && p.Name == "if-placeholder" && d.Kind == "if-cond":
			// another rule's remark about text around the placeholder of an if: condition
		case p == nil:
			o.other[""] = append(o.other[""], d.String())
		default:
			o.other[p.Name] = append(o.other[p.Name], d.String())
		}
	}
	for k := range o.reports {
		sort.Strings(o.reports[k])
	}
	return o
}

// c11MsgClass abbreviates a foreign diagnostic to its constant words.
func c11MsgClass(m string) string {
	m = c11QuotedRe.ReplaceAllString(m, "_")
	if len(m) > 70 {
		m = m[:70]
	}
	return m
}

func c11Uniq(xs []string) []string {
	s := append([]string(nil), xs...)
	sort.Strings(s)
	out := s[:0]
	for i, x := range s {
		if i == 0 || x != s[i-1] {
			out = append(out, x)
		}
	}
	return out
}

func c11Diff(a, b []string) []string { // elements of a not in b (both treated as sets)
	in := map[string]bool{}
	for _, x := range b {
		in[x] = true
	}
	var out []string
	for _, x := range c11Uniq(a) {
		if !in[x] {
			out = append(out, x)
		}
	}
	return out
}

// c11Mismatch is one disagreement at one position.
type c11Mismatch struct {
	Pos      string   `json:"position"`
	Script   bool     `json:"script_position"`
	Missing  []string `json:"expected_but_not_reported"`
	Spurious []string `json:"reported_but_not_expected"`
}

func c11Compare(e *c11E, o *c11Observed, ps []c11Position) []c11Mismatch {
	var out []c11Mismatch
	for _, p := range ps {
		if len(o.other[p.Name]) > 0 {
			continue // this position drew a foreign diagnostic: not judged
		}
		var want []string
		if p.Script {
			want = e.Reports()
		}
		got := o.reports[p.Name]
		miss, spur := c11Diff(want, got), c11Diff(got, want)
		if len(miss)+len(spur) > 0 {
			out = append(out, c11Mismatch{p.Name, p.Script, miss, spur})
		}
	}
	return out
}

// c11Eval lints one expression at all positions and applies the oracle. fam tags coverage.
// sys >= 0 sweeps the script contexts systematically; sys < 0 draws simple or rich contexts at random.
func c11Eval(c *Case, e *c11E, tag string, sample bool, sys int) {
	ctxMode := 1
	if sys < 0 && c.R.Bool() {
		ctxMode = 0
	}
	src, ps := c11Workflow(c.R, e.Txt, ctxMode, sys)
	ds, err := lintSrc(src)
	c.Eval(1)
	detail := func(o *c11Observed, mm []c11Mismatch) map[string]interface{} {
		d := map[string]interface{}{"expr": e.Txt, "src": src, "chains": e.Chains, "expected_reports_at_script_positions": e.Reports(), "positions": ps, "diags": diagStrings(ds)}
		if o != nil {
			d["observed_reports"] = o.reports
		}
		if mm != nil {
			d["mismatches"] = mm
		}
		return d
	}
	if err != nil {
		c.Violation("C11:fatal-error", "linting returned a fatal error: "+err.Error(), detail(nil, nil))
		return
	}
	o := c11Observe(ds, ps)
	c.Logf("expr: %s\nexpected at script positions: %q\nobserved: %v\nother diagnostics: %q", e.Txt, e.Reports(), o.reports, o.other)
	if len(o.unparsed) > 0 {
		c.Violation("C11:unparsable-message", "an untrusted-input diagnostic has neither of the two documented forms: "+o.unparsed[0], detail(o, nil))
		return
	}
	if len(o.stray) > 0 {
		c.Violation("C11:report-outside-any-position", "an untrusted-input diagnostic is located on a line that holds no expression: "+o.stray[0], detail(o, nil))
		return
	}
	if ne := o.notEvaluated(ps); len(ne) > 0 {
		// a syntax/semantic error of the expression (or any foreign diagnostic at a script
		// position): the verdict of the statement is not unambiguous for such input -> not
		// evaluated, but counted.
		c.Count("not_evaluated_other_diagnostics", 1)
		c.Count("not_evaluated:"+tag, 1)
		if e.UpperIndex {
			c.Count("not_evaluated_with_uppercase_string_index", 1)
		}
		for _, d := range ne {
			if i := strings.Index(d, ": "); i >= 0 {
				d = d[i+2:]
			}
			c.Count("other_diag:"+tag+":"+c11MsgClass(d), 1)
		}
		return
	}
	c.Count("evaluated", 1)
	c.Count("evaluated:"+tag, 1)
	for _, p := range ps {
		if len(o.other[p.Name]) > 0 {
			// a non-script position whose own text drew a foreign diagnostic (e.g. an if: that is
			// no expression as a whole): that position alone is not judged
			c.Count("position_not_evaluated:"+p.Name, 1)
			continue
		}
		c.SetAdd("positions_evaluated", p.Name)
		if p.Ctx != nil {
			c.Count("rich_context_positions_evaluated", 1)
		}
	}
	for f := range o.forms {
		c.SetAdd("diagnostic_forms_seen", f)
	}
	for _, f := range e.Feats {
		c.SetAdd("embedding_features", f)
	}
	want := e.Reports()
	for _, ch := range e.Chains {
		k := ch.Kind
		switch {
		case len(ch.Paths) == 0:
			k += ":trusted"
		case ch.Safe:
			k += ":untrusted-sanitised"
		default:
			k += ":untrusted"
		}
		c.SetAdd("chain_classes", k)
		for _, s := range ch.Spellings {
			c.SetAdd("segment_spellings", s)
		}
	}
	if len(want) > 0 {
		c.Nontrivial(e.Txt)
		c.Count("expressions_with_expected_report", 1)
		if len(want) > 1 {
			c.Count("expressions_with_several_expected_reports", 1)
		}
	} else {
		c.Count("expressions_without_expected_report", 1)
	}
	mm := c11Compare(e, o, ps)
	if len(mm) == 0 {
		for _, p := range ps {
			// report counts are not part of the verdict: the statement asks for the paths, not for
			// one diagnostic per read
			if p.Script && len(o.reports[p.Name]) != len(e.Reps) {
				c.Count("report_multiplicity_differs", 1)
			}
			if p.Script {
				for _, rep := range o.reports[p.Name] {
					for _, path := range strings.Split(rep, " + ") {
						c.SetAdd("paths_reported:"+p.Name, path)
					}
				}
			}
			if p.Ctx != nil && len(o.other[p.Name]) == 0 {
				// a context counts as covered at a script position only when a report was due there
				// (and came); at non-script positions when something untrusted was read (and not reported)
				for _, f := range p.Ctx.Feats {
					if p.Script && len(want) > 0 {
						c.SetAdd("script_contexts:"+p.Name, f)
					} else if !p.Script && len(want) > 0 {
						c.SetAdd("non_script_contexts", f)
					}
				}
				if p.Script && len(want) > 0 {
					c.SetAdd("script_templates:"+p.Name, p.Ctx.Template)
				}
			}
		}
		if sample {
			c.Sample(map[string]interface{}{"family": c.Fam, "expr": e.Txt, "expected_reports": want, "observed_run": o.reports["run"], "observed_script": o.reports["github-script.script"], "non_script_positions_reported": 0})
		}
		return
	}

	// ---- triage of every disagreeing position into a narrow signature
	relint := func(expr string) map[string]c11Mismatch {
		out := map[string]c11Mismatch{}
		src2, ps2 := c11Workflow(NewRand(1, "c11-triage"), expr, 0, -1)
		ds2, err2 := lintSrc(src2)
		if err2 != nil {
			return nil
		}
		o2 := c11Observe(ds2, ps2)
		if len(o2.notEvaluated(ps2))+len(o2.unparsed)+len(o2.stray) > 0 {
			return nil
		}
		for _, x := range c11Compare(e, o2, ps2) {
			out[x.Pos] = x
		}
		return out
	}
	// Two mechanisms are known to explain disagreements; they are recognised by re-linting the same
	// expression with the ['…'] index strings in lower case (A), with '*' replaced by another
	// string (B) and with both (AB): the disagreement at a position belongs to them only if AB
	// agrees with the reference there, A alone removes what was missing and B alone what was spurious.
	var vA, vB, vAB map[string]c11Mismatch
	txtA := c11StrIndexRe.ReplaceAllStringFunc(e.Txt, strings.ToLower)
	txtB := strings.ReplaceAll(e.Txt, "'*'", "'zz'")
	if e.UpperIndex || e.StarLiteral {
		vA, vB, vAB = relint(txtA), relint(txtB), relint(strings.ReplaceAll(txtA, "'*'", "'zz'"))
	}
	// Does the disagreement depend on the text around the placeholder / the YAML style? Decided by
	// linting the same expression again with the simple contexts.
	var vPlain map[string]c11Mismatch
	ctxOf := map[string]*c11Ctx{}
	for _, p := range ps {
		if p.Ctx != nil {
			ctxOf[p.Name] = p.Ctx
		}
	}
	if len(ctxOf) > 0 {
		vPlain = relint(e.Txt)
	}
	for _, m := range mm {
		if ctx := ctxOf[m.Pos]; ctx != nil && vPlain != nil {
			if _, still := vPlain[m.Pos]; !still {
				cls := ctx.Feats[0]
				for _, f := range ctx.Feats { // the most specific class first
					if f == "close2-before" || f == "placeholder-after-first-line" {
						cls = f
						break
					}
				}
				kind := "missed"
				if len(m.Spurious) > 0 {
					kind = "spurious"
				}
				d := detail(o, mm)
				d["context"] = ctx
				d["agrees_with_simple_context"] = true
				c.Violation("C11:context-dependent:"+kind+":"+m.Pos+":"+cls,
					fmt.Sprintf("%s at %s inside the text %q (YAML style %s): expected %q, reported %q; with a simple text around the placeholder the reports are as expected", e.Txt, m.Pos, ctx.Template, ctx.Style, want, o.reports[m.Pos]), d)
				continue
			}
		}
		if vA != nil && vB != nil && vAB != nil {
			_, stillAB := vAB[m.Pos]
			explained := !stillAB
			if len(m.Missing) > 0 && (!e.UpperIndex || len(vA[m.Pos].Missing) > 0) {
				explained = false
			}
			if len(m.Spurious) > 0 && (!e.StarLiteral || len(vB[m.Pos].Spurious) > 0) {
				explained = false
			}
			if explained {
				d := detail(o, mm)
				d["same_expression_with_lower_case_string_indices"] = txtA
				d["same_expression_with_another_string_than_star"] = txtB
				if len(m.Missing) > 0 {
					c.Violation("C11:missed:upper-case-letter-in-string-index",
						fmt.Sprintf("%s reads %q but it is not reported at %s; the same expression with the ['…'] index strings in lower case is reported", e.Txt, m.Missing, m.Pos), d)
				}
				if len(m.Spurious) > 0 {
					c.Violation("C11:spurious:star-string-literal-taken-as-array-element",
						fmt.Sprintf("%s: ['*'] is a property named \"*\", not an element or a filter, but the chain through it is reported at %s: %q", e.Txt, m.Pos, m.Spurious), d)
				}
				continue
			}
		}
		if !m.Script {
			c.Violation("C11:reported-outside-script-position:"+m.Pos, fmt.Sprintf("%s reported as untrusted at non-script position %s: %q", e.Txt, m.Pos, m.Spurious), detail(o, mm))
			continue
		}
		if len(m.Spurious) > 0 {
			cls := "no-chain-reads-this"
			for _, ch := range e.Chains {
				if len(ch.Paths) > 0 && ch.Safe && strings.Join(ch.Paths, " + ") == m.Spurious[0] {
					cls = "inside-sanitising-call"
				}
			}
			if len(m.Missing) > 0 {
				cls = "wrong-paths"
			}
			c.Violation("C11:spurious:"+m.Pos+":"+cls, fmt.Sprintf("%s at %s: reported %q, expected %q", e.Txt, m.Pos, o.reports[m.Pos], want), detail(o, mm))
			continue
		}
		cls := "single-chain"
		switch {
		case len(e.Chains) > 1 && e.HasNested:
			cls = "chain-in-index-position"
		case len(e.Chains) > 1:
			cls = "several-chains"
		case e.HasObjFilter:
			cls = "object-filter"
		}
		c.Violation("C11:missed:"+m.Pos+":"+cls, fmt.Sprintf("%s at %s: expected %q, reported %q", e.Txt, m.Pos, want, o.reports[m.Pos]), detail(o, mm))
	}
}

// ---------------------------------------------------------------------------

func runC11(r *Run) {
	t := c11BuildTree()
	r.Rule = "expressions built from a model: 1-4 access chains over the exported BuiltinUntrustedInputs tree (untrusted leaf, trusted sibling, strict prefix, extension, extra/missing index, object filter .* in place of names, foreign root), every name segment as .name or ['name'] in lower/UPPER/mixed case, array segments as [0] / [<number expr>] / .*, prefixes in parentheses, embedded in ! && || == != < <= > >=, parentheses, index positions of other chains, arguments of format/join/toJSON/fromJSON and of contains/startsWith/endsWith (function names in any letter case); each expression is linted once in a workflow holding it at 2 script positions (run:, script: of actions/github-script) and 9 non-script positions (other input of github-script, with: of another action, script: input of another action, step env: twice, if: as placeholder and bare, step name:, working-directory:). The text around the (single) placeholder is, for half of the lints, a simple one-line text, otherwise every position draws a realistic shell / JavaScript / Python fragment (with }} , {{ , ${VAR}, ${A:-${B}}, $(…), backticks, heredocs, $ right before the placeholder, closing braces after it, placeholder on the 2nd..nth line) written as plain / single- / double-quoted (also with \\r\\n escapes) / literal | |- |+ / folded > scalar, a quarter of those files with CRLF line breaks; family script-context sweeps every template x style at both script positions; the expected reports never depend on the context. Family several-placeholders puts 2-4 placeholders (each trusted / untrusted / sanitised independently, rarely an erroneous first one) into one scalar, separated by nothing, one character, text or a line break, at 2 script and 5 non-script positions, and expects the union of the reports. Family spelling-x-embedding enumerates every leaf x every spelling of every segment (6 per name, 3 per array segment) with depth-1 embeddings (quick: one embedding per spelling, rotating; thorough: all). Non-trivial = distinct evaluated expression for which the reference model expects at least one report."
	r.Assume("`.name` and `['name']` with a string literal are the name accesses of the statement; an index that is any other expression is an array index. Dynamic string indices (github.event[env.K]), numeric strings (pages['0']) and values that reach a property through an operator or a call result ((a && github.event.issue).title, fromJSON(toJSON(github.event)).issue.title) are outside the statement and are not generated")
	r.Assume("object filter semantics as documented/pinned by the project: `.*` on an object yields the union over its members, on an array its elements; an index directly applied to a filtered array picks one of the filtered values")
	r.Assume("an expression for which the linter emits any other diagnostic than untrusted-input reports and the template-type note (which is produced after the check) is counted as not evaluated")
	r.Assume("a foreign diagnostic at a non-script position only (an if: whose text is no expression as a whole) takes that position alone out of the comparison; the if-cond rule's remark about text around the placeholder of an if: is ignored")
	r.Assume("scalars with several placeholders (family several-placeholders): the reports of the placeholders are independent in the reference model. The expression rule stops at the first placeholder of a scalar that got any diagnostic (pinned by testdata/err/context_availability); a missing report of a later placeholder is attributed to that behaviour - signature " + c11LaterAfterReportedSig + " - only when an earlier placeholder of the same scalar demonstrably got a diagnostic at that position; all other families keep one placeholder per scalar")
	r.Assume("a read that occurs twice may be reported once or twice: sets of reported paths are compared, multiplicity is recorded only")

	if len(t.leaves) < 2 {
		r.Inconclusive("BuiltinUntrustedInputs has fewer than two leaves")
		return
	}
	r.Extra("untrusted_leaves", func() []string {
		var l []string
		for _, n := range t.leaves {
			l = append(l, n.path())
		}
		return l
	}())

	// ---- the documented list (docs/checks.md) must be part of the table the checker walks
	if b, err := os.ReadFile(filepath.Join(repoDir(), "docs", "checks.md")); err != nil {
		r.Extra("documented_list_cross_check", "skipped: "+err.Error())
	} else {
		isLeaf := map[string]bool{}
		for _, n := range t.leaves {
			isLeaf[n.path()] = true
		}
		sec := string(b)
		if i := strings.Index(sec, `<a id="untrusted-inputs"></a>`); i >= 0 {
			sec = sec[i+10:]
			if j := strings.Index(sec, "<a id="); j >= 0 {
				sec = sec[:j]
			}
		}
		var documented []string
		for _, m := range regexp.MustCompile("(?m)^- `(github\\.[a-z_.*]+)`$").FindAllStringSubmatch(sec, -1) {
			documented = append(documented, m[1])
		}
		r.Extra("documented_list_cross_check", fmt.Sprintf("%d documented paths, %d leaves in the table", len(documented), len(t.leaves)))
		if len(documented) < 2 {
			r.Inconclusive("could not find the documented list of untrusted inputs in docs/checks.md")
		}
		c0 := &Case{Run: r, Fam: "documented-list", Idx: 0, R: NewRand(r.Seed, "C11", "documented-list")}
		for _, d := range documented {
			c0.Eval(1)
			if !isLeaf[d] {
				c0.Violation("C11:documented-input-missing-from-table", "docs/checks.md lists "+d+" as untrusted but BuiltinUntrustedInputs has no such leaf, so no expression reading it is reported", map[string]interface{}{"documented": documented, "table": r.extra["untrusted_leaves"]})
			}
		}
	}

	var fams []*Family

	// ---- family 1: every leaf x every spelling, depth-1 embeddings
	type spellCase struct {
		leaf int
		idx  int // mixed-radix spelling index
		n    int // number of spellings of this leaf
	}
	var all []spellCase
	for li, leaf := range t.leaves {
		n := 1
		for _, s := range leaf.segNames() {
			if s == "*" {
				n *= c11StarSpellings
			} else {
				n *= c11NameSpellings
			}
		}
		for i := 0; i < n; i++ {
			if c11SpellingTypeCorrect(leaf, i) {
				all = append(all, spellCase{li, i, n})
			}
		}
	}
	const blk = 64
	nEmb := c11NumEmbeddings
	fams = append(fams, &Family{Name: "spelling-x-embedding", N: (len(all) + blk - 1) / blk, Do: func(c *Case) {
		lo, hi := c.Idx*blk, c.Idx*blk+blk
		if hi > len(all) {
			hi = len(all)
		}
		for k := lo; k < hi; k++ {
			sc := all[k]
			// quick: one embedding per spelling, rotating so that every leaf meets every embedding
			embs := []int{(sc.idx + sc.idx/nEmb + int(c.Seed%1000)) % nEmb}
			if c.Thorough() || sc.n < 2*nEmb {
				embs = embs[:0]
				for e := 0; e < nEmb; e++ {
					embs = append(embs, e)
				}
			}
			for _, emb := range embs {
				g := c11NewGen(c.R, t)
				ch := g.leafChainSpelled(t.leaves[sc.leaf], sc.idx, (k+emb)%2 == 1)
				e := g.embed1(emb, ch)
				c11Eval(c, e, "exhaustive", c.Idx == 0 && k-lo < 3, -1)
				c.SetAdd("leaf_x_embedding", fmt.Sprintf("%d/%d", sc.leaf, emb))
			}
		}
	}})

	// ---- family 2: trusted neighbours of every leaf (sibling at every position, every strict
	// prefix, extensions, missing/extra index) at depth-1 embeddings
	fams = append(fams, &Family{Name: "neighbours-x-embedding", N: len(t.leaves) * r.Q(2, 16), Do: func(c *Case) {
		leaf := t.leaves[c.Idx%len(t.leaves)]
		g := c11NewGen(c.R, t)
		for si, spec := range g.neighbourSpecs(leaf) {
			for rep := 0; rep < 3; rep++ {
				g := c11NewGen(c.R, t)
				ch := g.chainFromSpec(spec.kind, "github", spec.segs, 0, 0)
				e := g.embed1(c.R.Intn(nEmb), ch)
				c11Eval(c, e, "neighbours", c.Idx == 0 && rep == 0 && si < 3, -1)
			}
		}
	}})

	// ---- family 3: random deep embeddings, 1-4 chains per expression
	const per = 50
	fams = append(fams, &Family{Name: "random-deep", N: r.Q(20000, 1000000) / per, Do: func(c *Case) {
		for k := 0; k < per; k++ {
			g := c11NewGen(c.R, t)
			nch := 1 + c.R.Intn(4)
			if c.R.Intn(3) == 0 {
				nch = 1 + c.R.Intn(2)
			}
			depth := c.R.Range(1, 5)
			e := g.expr(depth, nch)
			c.Count(fmt.Sprintf("random_chains_per_expression:%d", len(e.Chains)), 1)
			c11Eval(c, e, "random", c.Idx == 0 && k < 3, -1)
		}
	}})

	// ---- family 4: sweep of the script contexts: every template x every YAML style at both script
	// positions, with expressions that read something untrusted (leaf chains in depth-1 embeddings
	// and random deep expressions)
	nCombos := len(c11ShellTemplates) * 6
	if n := len(c11JSTemplates) * 6; n > nCombos {
		nCombos = n
	}
	fams = append(fams, &Family{Name: "script-context", N: r.Q(2, 40) * nCombos / 8, Do: func(c *Case) {
		for k := 0; k < 8; k++ {
			sys := c.Idx*8 + k
			g := c11NewGen(c.R, t)
			var e *c11E
			if c.R.Bool() {
				leaf := t.leaves[c.R.Intn(len(t.leaves))]
				ch := g.chainFromSpec("leaf", "github", c11LeafSegs(leaf, c.R, 1), 0, 0)
				e = g.embed1(c.R.Intn(nEmb), ch)
			} else {
				e = g.expr(c.R.Range(1, 4), 1+c.R.Intn(3))
			}
			c11Eval(c, e, "context", c.Idx == 0 && k < 1, sys)
		}
	}})

	// ---- family 5: scalars with 2-4 placeholders (c11_multi.go)
	fams = append(fams, &Family{Name: "several-placeholders", N: r.Q(80, 2400), Do: func(c *Case) {
		for k := 0; k < 50; k++ {
			c11EvalMulti(c, t, c.Idx*50+k, c.Idx == 0 && k < 6)
		}
	}})

	r.RunFamilies(fams)
	if r.ReplayOf != nil {
		return
	}

	// ---- coverage floors
	for _, tag := range []string{"exhaustive", "neighbours", "random", "context"} {
		ev, ne := r.Counter("evaluated:"+tag), r.Counter("not_evaluated:"+tag)
		floor := int64(80)
		if tag == "exhaustive" {
			// before the fix of the type checker (index literals were not case-folded, C08) a third of
			// all spellings - first segment as ['Event'] / ['EVENT'] - drew a foreign diagnostic
			floor = 60
		}
		if ev+ne == 0 || ev*100 < floor*(ev+ne) {
			r.Inconclusive(fmt.Sprintf("family %s: only %d of %d expressions could be evaluated (others had foreign diagnostics); floor %d%%", tag, ev, ev+ne, floor))
		}
	}
	for _, p := range c11PositionNames {
		if !r.SetHas("positions_evaluated", p) {
			r.Inconclusive("position class never evaluated: " + p)
		}
	}
	for _, pos := range []string{"run", "github-script.script"} {
		for _, l := range t.leaves {
			if !r.SetHas("paths_reported:"+pos, l.path()) {
				r.Inconclusive(fmt.Sprintf("leaf %s never seen correctly reported at %s", l.path(), pos))
			}
		}
	}
	for _, pos := range []string{"run", "github-script.script"} {
		for _, f := range c11RequiredContextFeatures {
			if !r.SetHas("script_contexts:"+pos, f) {
				r.Inconclusive(fmt.Sprintf("script context class %s never seen with a due and correct report at %s", f, pos))
			}
		}
	}
	if n := r.SetLen("script_templates:run"); n < len(c11ShellTemplates) {
		r.Inconclusive(fmt.Sprintf("only %d of %d shell templates seen with a due and correct report at run", n, len(c11ShellTemplates)))
	}
	if n := r.SetLen("script_templates:github-script.script"); n < len(c11JSTemplates) {
		r.Inconclusive(fmt.Sprintf("only %d of %d JavaScript templates seen with a due and correct report at github-script.script", n, len(c11JSTemplates)))
	}
	for _, f := range []string{"close2-before", "placeholder-after-first-line", "style-literal", "style-folded", "crlf-file"} {
		if !r.SetHas("non_script_contexts", f) {
			r.Inconclusive("context class never evaluated at a non-script position: " + f)
		}
	}
	c11MultiFloors(r)
	for _, f := range []string{"single", "multi"} {
		if !r.SetHas("diagnostic_forms_seen", f) {
			r.Inconclusive("diagnostic form never observed: " + f)
		}
	}
	for _, f := range c11RequiredFeatures {
		if !r.SetHas("embedding_features", f) {
			r.Inconclusive("embedding never generated in an evaluated expression: " + f)
		}
	}
	for _, k := range c11RequiredChainClasses {
		if !r.SetHas("chain_classes", k) {
			r.Inconclusive("chain class never generated in an evaluated expression: " + k)
		}
	}
	for _, s := range c11RequiredSpellings {
		if !r.SetHas("segment_spellings", s) {
			r.Inconclusive("segment spelling never generated in an evaluated expression: " + s)
		}
	}
	if want := len(t.leaves) * nEmb; r.SetLen("leaf_x_embedding") < want {
		r.Inconclusive(fmt.Sprintf("only %d of %d leaf x depth-1-embedding pairs generated", r.SetLen("leaf_x_embedding"), want))
	}
	if r.Counter("expressions_with_several_expected_reports") == 0 || r.Counter("expressions_without_expected_report") == 0 {
		r.Inconclusive("no expression with several expected reports, or none without any")
	}
	r.SetExhaustive(true)
	if r.Thorough() {
		r.Extra("exhaustive_bound", fmt.Sprintf("all %d leaves x all %d segment spellings x all %d depth-1 embeddings", len(t.leaves), len(all), nEmb))
	} else {
		r.Extra("exhaustive_bound", fmt.Sprintf("all %d leaves x all %d segment spellings, one depth-1 embedding each (every leaf x embedding pair covered)", len(t.leaves), len(all)))
	}
}
