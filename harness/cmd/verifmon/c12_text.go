package main

// C12, part 4: the literal text around the probed placeholder and the YAML style of the scalar.
// The availability verdict must not depend on them: text containing `}}`, `{{`, `}`, `${`, `$`,
// JSON-like `{"a": {"b": 1}}`, go-template `{{.ID}}` before / after the placeholder, on earlier
// lines of a block scalar, inside a string literal of the expression; plain, single-quoted,
// double-quoted, literal (`|`, `|-`) and folded (`>`, `>-`) scalars - at every position class.
//
// Positions: actionlint computes columns from the decoded value, so the exact line:col is only
// compared when the source text of the scalar equals its value (plain scalars, double-quoted
// scalars without escapes); for every other rendering the set of reported names is compared.

import (
	"fmt"
	"sort"
	"strings"
)

type c12Text struct {
	Name      string
	Pre, Post string
	Lines     []string // lines before the probe line (block styles only)
	Inner     string   // "" or a string literal the probe is compared with inside the expression
	Hostile   bool     // a literal `}}` occurs before the first `${{` of the value
}

// signature part shared by every witness whose only peculiarity is a `}}` in front of the first `${{`
const c12HostileSig = "literal-}}-before-first-placeholder"

// c12HostileValue: a literal `}}` occurs before the first `${{`.
func c12HostileValue(v string) bool {
	i, j := strings.Index(v, "}}"), strings.Index(v, "${{")
	return i >= 0 && j >= 0 && i < j
}

const c12JSONText = `{"a": {"b": 1}}`

var c12Texts = []c12Text{
	{Name: "control"},
	{Name: "pre x}}", Pre: "x}} ", Hostile: true},
	{Name: "pre }} {{", Pre: "a }} b {{ c ", Hostile: true},
	{Name: "pre go-template", Pre: "{{.ID}} ", Hostile: true},
	{Name: "pre json", Pre: c12JSONText + " ", Hostile: true},
	{Name: "pre dollars and braces", Pre: "$ ${ } { $", Hostile: false},
	{Name: "pre }}{{ post }}{{", Pre: "}}{{ ", Post: " }}{{", Hostile: true},
	{Name: "pre }} then harmless placeholder", Pre: "}} ${{ 'k' }} ", Hostile: true},
	{Name: "pre harmless placeholder then }}", Pre: "${{ 'k' }} }} "},
	{Name: "post }} tail", Post: " }} tail"},
	{Name: "post go-template json", Post: " {{.ID}} " + c12JSONText},
	{Name: "post dollars", Post: " ${ $ } ${"},
	{Name: "earlier line json", Lines: []string{"echo '" + c12JSONText + "'"}, Hostile: true},
	{Name: "earlier lines }} {{", Lines: []string{"x }} y", "", "{{.ID}} $ ${"}, Post: " }}", Hostile: true},
	{Name: "inner literal }}", Inner: "'}} {{.ID}} $ ${ }'"},
	{Name: "inner literal json", Inner: "'" + c12JSONText + " }}'"},
}

const (
	c12StPlain     = "plain"
	c12StSingle    = "single-quoted"
	c12StDouble    = "double-quoted"
	c12StLiteral   = "literal"
	c12StLitStrip  = "literal-strip"
	c12StFolded    = "folded"
	c12StFoldStrip = "folded-strip"
)

var c12Styles = []string{c12StPlain, c12StSingle, c12StDouble, c12StLiteral, c12StLitStrip, c12StFolded, c12StFoldStrip}

func c12IsBlock(style string) bool {
	return style != c12StPlain && style != c12StSingle && style != c12StDouble
}

// c12PlainSafe: the value can be written as a one-line plain scalar in block context.
func c12PlainSafe(v string) bool {
	if v == "" || c12NeedsQuote(v) || strings.HasSuffix(v, " ") || strings.HasSuffix(v, ":") {
		return false
	}
	return !strings.Contains(v, ": ") && !strings.Contains(v, " #") && !strings.Contains(v, "\n")
}

// c12SilentText: classes at which the unchanged tree decides with ContainsExpression() (index of
// `${{` before index of the FIRST `}}`) whether the value is looked at as a template at all. With a
// literal `}}` in front of the first placeholder the value is parsed differently there (a bare
// `if:` is then an expression as a whole; a step id is then taken as a literal id), so the statement
// gives no verdict: these (class, hostile text) combinations are not compared.
func c12SilentText(cl *c12Class, hostile bool) bool {
	if !hostile {
		return false
	}
	return cl.Name == "steps[*].id"
}

// c12IsKeyClass: the probed scalar is a mapping key (no block scalars there).
func c12IsKeyClass(cl *c12Class) bool { return strings.HasSuffix(cl.Name, "(key)") }

// c12Render writes value (first the earlier lines, for block styles) in the given style at the
// marker. exact reports whether source columns equal value columns; line, col locate value[0].
func c12Render(cl *c12Class, value string, lines []string, style string) (src string, line, col int, exact, ok bool) {
	i := strings.Index(cl.Src, c12Marker)
	mline := 1 + strings.Count(cl.Src[:i], "\n")
	mcol := i - strings.LastIndex(cl.Src[:i], "\n")
	var text string
	switch style {
	case c12StPlain:
		if len(lines) > 0 || !c12PlainSafe(value) {
			return "", 0, 0, false, false
		}
		text, line, col, exact = value, mline, mcol, true
	case c12StDouble:
		if len(lines) > 0 {
			return "", 0, 0, false, false
		}
		esc := strings.ReplaceAll(strings.ReplaceAll(value, `\`, `\\`), `"`, `\"`)
		text, line, col, exact = `"`+esc+`"`, mline, mcol+1, esc == value
	case c12StSingle:
		if len(lines) > 0 {
			return "", 0, 0, false, false
		}
		esc := strings.ReplaceAll(value, `'`, `''`)
		text, line, col, exact = `'`+esc+`'`, mline, mcol+1, esc == value
	default:
		if c12IsKeyClass(cl) {
			return "", 0, 0, false, false
		}
		ind := map[string]string{c12StLiteral: "|", c12StLitStrip: "|-", c12StFolded: ">", c12StFoldStrip: ">-"}[style]
		pad := strings.Repeat(" ", mcol+1)
		var b strings.Builder
		b.WriteString(ind)
		for _, l := range append(append([]string{}, lines...), value) {
			b.WriteString("\n")
			if l != "" {
				b.WriteString(pad + l)
			}
		}
		text, line, col, exact = b.String(), mline+1+len(lines), mcol+2, false
		if strings.HasPrefix(value, " ") || (len(lines) > 0 && strings.HasPrefix(lines[0], " ")) {
			return "", 0, 0, false, false
		}
	}
	return cl.Src[:i] + text + cl.Src[i+len(c12Marker):], line, col, exact, true
}

// c12NameSet projects observations to (name, kind).
func c12NameSet(m map[c12Obs]bool) map[c12Obs]bool {
	out := map[c12Obs]bool{}
	for o := range m {
		out[c12Obs{0, 0, o.Name, o.Fn}] = true
	}
	return out
}

// c12RunText lints one (class, probe, text, style) combination. ok=false: the combination cannot be
// rendered (style not applicable to this text / class).
func c12RunText(c *Case, g map[string]*c12Avail, cl *c12Class, p c12Probe, t c12Text, style string) (res *c12Result, exp map[c12Obs]bool, exact, ok bool) {
	if t.Inner != "" {
		p = p.wrap("(", ") == "+t.Inner, true)
	}
	pre, post := t.Pre, t.Post
	if cl.Kind != c12Str {
		pre, post = "", ""
	}
	value, off := c12Value(cl, p, pre, post, false)
	src, line, col, exact, ok := c12Render(cl, value, t.Lines, style)
	if !ok {
		return nil, nil, false, false
	}
	if style != c12StPlain && strings.Contains(cl.Name, ".strategy.matrix.") {
		exact = false // raw matrix values: actionlint locates them as if the scalar were plain (column precision is C07's)
	}
	exp, _ = c12Expect(g, cl, p, line, col+off)
	ds, err := lintSrc(src)
	c.Eval(1)
	res = &c12Result{Src: src, Diags: ds, Err: err, ExprCol: col + off}
	if err != nil {
		return res, exp, exact, true
	}
	obs := c12Observed(ds)
	e, o := exp, obs
	if !exact {
		e, o = c12NameSet(exp), c12NameSet(obs)
	}
	for x := range e {
		if !o[x] {
			res.Missing = append(res.Missing, x)
		}
	}
	for x := range o {
		if !e[x] {
			res.Spurious = append(res.Spurious, x)
		}
	}
	sort.Slice(res.Missing, func(i, j int) bool { return res.Missing[i].String() < res.Missing[j].String() })
	sort.Slice(res.Spurious, func(i, j int) bool { return res.Spurious[i].String() < res.Spurious[j].String() })
	c.Logf("---- %s (key %q) text=%q style=%s exact-positions=%v\n%s\nexpected %v\nobserved %v", cl.Name, cl.Key, t.Name, style, exact, src, c12ObsList(e), c12ObsList(o))
	return res, exp, exact, true
}

// c12TextApplies: which texts make sense for a class.
func c12TextApplies(cl *c12Class, t c12Text) bool {
	if cl.Kind != c12Str && (t.Pre != "" || t.Post != "" || len(t.Lines) > 0) {
		return false // the scalar must be exactly one expression
	}
	return true
}

func c12AllNames() (names []string, fn []bool) {
	for _, n := range c12Contexts {
		names, fn = append(names, n), append(fn, false)
	}
	for _, n := range c12Funcs {
		names, fn = append(names, n), append(fn, true)
	}
	return
}

func c12TextCase(c *Case, g map[string]*c12Avail, cl *c12Class, ci int) {
	av := g[cl.Key]
	if av == nil {
		return
	}
	names, isFn := c12AllNames()
	k := ci * 5
	for ti, t := range c12Texts {
		if !c12TextApplies(cl, t) {
			continue
		}
		if c12SilentText(cl, t.Hostile) {
			c.SetAdd("silent_text_classes", cl.Name+" with `}}` before the first placeholder")
			continue
		}
		for _, style := range c12Styles {
			if len(t.Lines) > 0 && !c12IsBlock(style) {
				continue
			}
			// two names per lint, rotating through all 17
			k++
			a, b := k%len(names), (k*7+3)%len(names)
			p := c12Join2(c12Leaf(names[a], isFn[a]), c12Leaf(names[b], isFn[b]), k)
			res, exp, exact, ok := c12RunText(c, g, cl, p, t, style)
			if !ok {
				continue
			}
			c.Count("surrounding_text_lints", 1)
			if exact {
				c.Count("surrounding_text_lints_exact_position", 1)
			}
			c.Nontrivial(fmt.Sprintf("text|%s|%d|%s|%s|%s", cl.Name, ti, style, names[a], names[b]))
			c.SetAdd("text_styles", style)
			c.SetAdd("text_variants", t.Name)
			if res.ok() {
				for e := range exp {
					c.SetAdd("text_due_ok|"+e.Name, c12KeyLabel(cl.Key))
					c.SetAdd("text_due_ok_style|"+style, cl.Name)
					c.SetAdd("text_due_ok_variant|"+t.Name, cl.Name)
					if t.Hostile {
						c.SetAdd("text_due_ok_hostile", cl.Name)
					}
				}
				if ci%31 == 7 && t.Name == "earlier line json" && style == c12StLiteral {
					c.Sample(map[string]interface{}{"class": cl.Name, "table_key": c12KeyLabel(cl.Key), "text": t.Name, "style": style, "src": res.Src, "expected": c12ObsList(exp), "diags": c12ShortDiags(res.Diags)})
				}
				continue
			}
			d := c12Detail(cl, res, exp)
			d["text_variant"], d["style"], d["exact_positions"] = t.Name, style, exact
			if res.Err != nil {
				c.Violation("C12:fatal-error", "linting a probe returned a fatal error: "+res.Err.Error(), d)
				continue
			}
			// is it the text or the style? re-run the same probe as the plain control
			ctrl, _, _, cok := c12RunText(c, g, cl, p, c12Texts[0], c12StDouble)
			if cok && ctrl.ok() {
				what := "style:" + style
				if t.Hostile {
					what = "text:" + c12HostileSig
				} else if t.Name != "control" {
					what = "text:" + t.Name
				}
				pol := "not-reported"
				if len(res.Missing) == 0 {
					pol = "wrongly-reported"
				}
				c.Violation("C12:verdict-depends-on-surrounding-"+what+":"+pol,
					fmt.Sprintf("position class %q (key %s): the same expression gets the predicted verdicts as a double-quoted scalar without surrounding text, but with text variant %q in style %s: missing=%v spurious=%v", cl.Name, c12KeyLabel(cl.Key), t.Name, style, res.Missing, res.Spurious), d)
				continue
			}
			c.Violation("C12:surrounding-text:"+cl.Name, fmt.Sprintf("position class %q (key %s), text variant %q, style %s: missing=%v spurious=%v", cl.Name, c12KeyLabel(cl.Key), t.Name, style, res.Missing, res.Spurious), d)
		}
	}
}

// c12TextFloors: coverage floors of the surrounding-text family.
func c12TextFloors(r *Run, g map[string]*c12Avail) {
	const minKeys = 5
	names, isFn := c12AllNames()
	for i, n := range names {
		due := 0
		for _, av := range g {
			ok := av.Ctx[strings.ToLower(n)]
			if isFn[i] {
				ok = av.Func[strings.ToLower(n)]
			}
			if !ok {
				due++
			}
		}
		want := minKeys
		if due < want {
			want = due
		}
		if got := r.SetLen("text_due_ok|" + strings.ToLower(n)); got < want {
			r.Inconclusive(fmt.Sprintf("surrounding-text family: %q was seen with a due and correct report at only %d keys (floor %d)", n, got, want))
		}
	}
	for _, s := range c12Styles {
		if got := r.SetLen("text_due_ok_style|" + s); got < 30 {
			r.Inconclusive(fmt.Sprintf("surrounding-text family: style %s had a due and correct report at only %d position classes (floor 30)", s, got))
		}
	}
	for _, t := range c12Texts {
		if got := r.SetLen("text_due_ok_variant|" + t.Name); got < 30 {
			r.Inconclusive(fmt.Sprintf("surrounding-text family: text variant %q had a due and correct report at only %d position classes (floor 30)", t.Name, got))
		}
	}
	if got := r.SetLen("text_due_ok_hostile"); got < 60 {
		r.Inconclusive(fmt.Sprintf("surrounding-text family: a literal `}}` before the first placeholder had a due and correct report at only %d position classes (floor 60)", got))
	}
}
