package main

// C14, local callees: reference interface model, generators for action.yml / workflow_call
// interfaces and their call sites, and the families that run them through the real Linter in a
// scratch repository on disk.

import (
	"fmt"
	"io"
	"os"
	"path/filepath"
	"sort"
	"strings"

	"github.com/rhysd/actionlint"
)

// ---------------------------------------------------------------------------
// reference model of a declared interface (what the generator wrote, nothing derived by actionlint)

type c14In struct {
	Name    string `json:"name"`
	Req     int    `json:"required"` // 0 key absent, 1 `required: true`, 2 `required: false`
	HasDef  bool   `json:"has_default"`
	DefText string `json:"default,omitempty"`
	Type    string `json:"type,omitempty"` // reusable workflows: string | number | boolean
	Bare    bool   `json:"bare,omitempty"` // `name:` without any attribute
	Desc    bool   `json:"-"`
	Depr    bool   `json:"-"`
}

// mustSupply is the statement's "declared required input without default".
func (in *c14In) mustSupply() bool { return in.Req == 1 && !in.HasDef }

type c14Sec struct {
	Name string `json:"name"`
	Req  int    `json:"required"`
	Bare bool   `json:"bare,omitempty"`
	Desc bool   `json:"-"`
}

type c14Iface struct {
	Kind    string   `json:"kind"` // action | workflow
	Inputs  []c14In  `json:"inputs"`
	Secrets []c14Sec `json:"secrets,omitempty"`
	Outputs []string `json:"outputs"`
}

func (f *c14Iface) input(name string) *c14In {
	for i := range f.Inputs {
		if strings.EqualFold(f.Inputs[i].Name, name) {
			return &f.Inputs[i]
		}
	}
	return nil
}

func (f *c14Iface) secret(name string) *c14Sec {
	for i := range f.Secrets {
		if strings.EqualFold(f.Secrets[i].Name, name) {
			return &f.Secrets[i]
		}
	}
	return nil
}

func (f *c14Iface) output(name string) (string, bool) {
	for _, o := range f.Outputs {
		if strings.EqualFold(o, name) {
			return o, true
		}
	}
	return "", false
}

// c14Assignable is the reference assignability of a value type to a declared reusable-workflow
// input type. decided=false where the statement gives no unambiguous verdict.
func c14Assignable(declared, value string) (assignable, decided bool) {
	switch declared {
	case "number":
		return value == "number" || value == "any", true
	case "string":
		return value == "string" || value == "number" || value == "any", true
	case "boolean":
		if value == "bool" || value == "any" {
			return true, true
		}
		return false, false // GitHub rejects, actionlint's type system converts everything to bool
	}
	return true, false
}

// ---------------------------------------------------------------------------
// names

var c14Words = []string{
	"name", "token", "path", "node-version", "api_key", "api-key", "ref", "x", "id", "with", "config-file",
	"a", "key1", "key2", "value", "env", "type", "required", "default", "description", "inputs", "outputs",
	"secrets", "uses", "fetch-depth", "script", "result", "version", "dry_run", "dryrun", "tag", "sha", "url",
	"b", "out", "flag", "count", "level", "_private", "long-name-with-many-parts", "n1", "working_directory",
}

func c14Style(r *Rand, w string) string {
	switch r.Intn(5) {
	case 0:
		return strings.ToUpper(w)
	case 1:
		return strings.ToUpper(w[:1]) + w[1:]
	case 2:
		return c14RandCase(r, w)
	}
	return w
}

// c14Names picks n names that are pairwise different ignoring case.
func c14Names(r *Rand, n int, special []string) []string {
	taken := map[string]bool{}
	var out []string
	for len(out) < n {
		w := c14Words[r.Intn(len(c14Words))]
		if len(special) > 0 && r.Intn(10) == 0 {
			w = special[r.Intn(len(special))]
		}
		if taken[strings.ToLower(w)] {
			continue
		}
		taken[strings.ToLower(w)] = true
		out = append(out, c14Style(r, w))
	}
	return out
}

// c14Undeclared invents a name for which declared() is false: an unrelated word or a near miss of a
// declared name. used holds lower-cased names already written at the same call site.
func c14Undeclared(r *Rand, declaredNames []string, declared func(string) bool, used map[string]bool, forbidden map[string]bool) string {
	for try := 0; try < 40; try++ {
		var n string
		if len(declaredNames) > 0 && r.Intn(2) == 0 {
			d := declaredNames[r.Intn(len(declaredNames))]
			switch r.Intn(6) {
			case 0:
				n = d + "x"
			case 1:
				n = d + "_"
			case 2:
				if len(d) > 1 {
					n = d[:len(d)-1]
				}
			case 3:
				if strings.ContainsAny(d, "-_") {
					n = strings.Map(func(c rune) rune {
						switch c {
						case '-':
							return '_'
						case '_':
							return '-'
						}
						return c
					}, d)
				}
			case 4:
				n = "x" + d
			case 5:
				n = d + d
			}
		} else {
			n = c14Style(r, c14Words[r.Intn(len(c14Words))])
		}
		if n == "" || !c14IsIdent(n) || declared(n) || used[strings.ToLower(n)] || forbidden[strings.ToLower(n)] {
			continue
		}
		return n
	}
	for i := 0; ; i++ {
		n := fmt.Sprintf("zz-undeclared-%d", i)
		if !declared(n) && !used[n] {
			return n
		}
	}
}

// ---------------------------------------------------------------------------
// YAML emission helpers

type c14Block []string // lines of one mapping entry, relative indentation included

// c14EmitEntries writes blocks in a seeded order at the given indentation; returns line of the
// first line of each block (indexed like blocks).
func c14EmitEntries(b *YB, r *Rand, indent int, blocks []c14Block, shuffle bool) []int {
	order := make([]int, len(blocks))
	for i := range order {
		order[i] = i
	}
	if shuffle {
		order = r.Perm(len(blocks))
	}
	lines := make([]int, len(blocks))
	for _, i := range order {
		for k, l := range blocks[i] {
			p := b.L(indent, l)
			if k == 0 {
				lines[i] = p.Line
			}
		}
	}
	return lines
}

func c14ReqText(req int) string {
	if req == 1 {
		return "required: true"
	}
	return "required: false"
}

// ---------------------------------------------------------------------------
// local actions

var c14ActionDefaults = []string{"''", `""`, "x", "some default", "3", "true", "${{ github.token }}", "'0'"}

func c14GenActionIface(r *Rand) *c14Iface {
	f := &c14Iface{Kind: "action"}
	nIn := r.Intn(6)
	if r.Intn(8) == 0 {
		nIn = 6 + r.Intn(6)
	}
	for _, n := range c14Names(r, nIn, []string{"args", "entrypoint"}) {
		in := c14In{Name: n}
		switch r.Intn(5) {
		case 0:
			in.Req = 0
		case 1, 2:
			in.Req = 1
		default:
			in.Req = 2
		}
		if r.Bool() {
			in.HasDef = true
			in.DefText = c14ActionDefaults[r.Intn(len(c14ActionDefaults))]
		}
		in.Desc = r.Intn(4) != 0
		in.Depr = r.Intn(8) == 0
		if r.Intn(15) == 0 {
			in = c14In{Name: n, Bare: true}
		}
		if in.Req == 0 && !in.HasDef && !in.Desc && !in.Depr {
			in.Bare = true
		}
		f.Inputs = append(f.Inputs, in)
	}
	f.Outputs = c14Names(r, r.Intn(4), nil)
	return f
}

// c14RenderAction returns the files of the action directory (relative to it).
func c14RenderAction(r *Rand, f *c14Iface, title string) map[string]string {
	files := map[string]string{}
	kind := r.Intn(3) // 0 composite, 1 node20, 2 docker
	var secs []c14Block
	secs = append(secs, c14Block{"name: " + title})
	secs = append(secs, c14Block{"description: generated by the C14 monitor"})
	if r.Intn(4) == 0 {
		secs = append(secs, c14Block{"author: verif"})
	}
	if len(f.Inputs) > 0 {
		blk := c14Block{"inputs:"}
		for _, in := range f.Inputs {
			blk = append(blk, "  "+c14Key(in.Name)+":")
			if in.Bare {
				continue
			}
			var attrs []string
			if in.Desc {
				attrs = append(attrs, "description: input "+in.Name)
			}
			if in.Req != 0 {
				attrs = append(attrs, c14ReqText(in.Req))
			}
			if in.HasDef {
				attrs = append(attrs, "default: "+in.DefText)
			}
			if in.Depr {
				attrs = append(attrs, "deprecationMessage: do not use")
			}
			for _, i := range r.Perm(len(attrs)) {
				blk = append(blk, "    "+attrs[i])
			}
		}
		secs = append(secs, blk)
	} else if r.Intn(6) == 0 {
		secs = append(secs, c14Block{"inputs: {}"})
	}
	if len(f.Outputs) > 0 {
		blk := c14Block{"outputs:"}
		for _, o := range f.Outputs {
			blk = append(blk, "  "+c14Key(o)+":", "    description: output "+o)
			if kind == 0 {
				blk = append(blk, "    value: ${{ steps.s.outputs.v }}")
			}
		}
		secs = append(secs, blk)
	}
	switch kind {
	case 0:
		secs = append(secs, c14Block{"runs:", "  using: composite", "  steps:", "    - id: s", `      run: echo "v=1" >> "$GITHUB_OUTPUT"`, "      shell: bash"})
	case 1:
		secs = append(secs, c14Block{"runs:", "  using: node20", "  main: index.js"})
		files["index.js"] = "console.log('hi')\n"
	default:
		if r.Bool() {
			secs = append(secs, c14Block{"runs:", "  using: docker", "  image: docker://alpine:3.19"})
		} else {
			secs = append(secs, c14Block{"runs:", "  using: docker", "  image: Dockerfile"})
			files["Dockerfile"] = "FROM alpine:3.19\n"
		}
	}
	if r.Intn(5) == 0 {
		secs = append(secs, c14Block{"branding:", "  icon: box", "  color: blue"})
	}
	b := NewYB()
	c14EmitEntries(b, r, 0, secs, true)
	meta := "action.yml"
	if r.Intn(3) == 0 {
		meta = "action.yaml"
	}
	files[meta] = b.String()
	return files
}

var c14ActionValues = []string{"x", "some value", "1", "true", "${{ github.sha }}", "''", "3.5", "${{ github.event_name == 'push' }}"}

type c14ActCall struct {
	Act   int
	ID    string // "" = no id
	Args  [][2]string
	UsesL int
	KeyL  []int
}

func c14ActionCase(c *Case) {
	r := c.R
	root := mkScratch("c14a")
	defer os.RemoveAll(root)
	files := map[string]string{".git/HEAD": "ref: refs/heads/main\n"}

	nAct := 1 + r.Intn(2)
	var ifaces []*c14Iface
	var specs []string
	for a := 0; a < nAct; a++ {
		f := c14GenActionIface(r)
		dir := fmt.Sprintf("act-%d", a)
		switch r.Intn(10) {
		case 0:
			dir = fmt.Sprintf("actions/Sub_%d", a)
		case 1:
			if a == 0 {
				dir = "" // action.yml at the repository root, `uses: ./`
			}
		}
		for rel, content := range c14RenderAction(r, f, fmt.Sprintf("Generated action %d", a)) {
			files[filepath.Join(dir, rel)] = content
		}
		spec := "./" + dir
		if dir != "" && r.Intn(6) == 0 {
			spec += "/"
		}
		ifaces = append(ifaces, f)
		specs = append(specs, spec)
		c.Count("local_interfaces", 1)
	}

	// caller
	b := NewYB()
	b.L(0, "on: push")
	b.L(0, "jobs:")
	var want []c14Finding
	siteIface := map[int]*c14Iface{} // line of a call site / with key -> interface of the callee
	lineShape := map[int]string{}    // line of an output reference -> shape of its expression
	nJobs := 1 + r.Intn(2)
	stepNo := 0
	for j := 0; j < nJobs; j++ {
		b.Lf(2, "job%d:", j)
		b.L(4, "runs-on: ubuntu-latest")
		b.L(4, "steps:")
		var calls []*c14ActCall
		nCalls := 1 + r.Intn(4)
		for k := 0; k < nCalls; k++ {
			call := &c14ActCall{Act: r.Intn(nAct)}
			f := ifaces[call.Act]
			if r.Intn(5) != 0 {
				call.ID = c14Style(r, fmt.Sprintf("%s%d", r.Pick([]string{"s", "step_", "call-", "a"}), stepNo))
			}
			stepNo++
			used := map[string]bool{}
			// declared inputs: a subset, in any letter case
			pNum := []int{0, 5, 9, 10}[r.Intn(4)]
			for _, in := range f.Inputs {
				if r.Intn(10) < pNum {
					n := c14CaseVariant(r, in.Name)
					v := c14ActionValues[r.Intn(len(c14ActionValues))]
					if ln := strings.ToLower(n); (ln == "args" || ln == "entrypoint") && v == "''" {
						v = "x" // value checks of the Docker keys are outside the statement
					}
					call.Args = append(call.Args, [2]string{n, v})
					used[strings.ToLower(n)] = true
				}
			}
			// undeclared extras
			for r.Intn(3) == 0 && len(call.Args) < 14 {
				var dn []string
				for _, in := range f.Inputs {
					dn = append(dn, in.Name)
				}
				n := c14Undeclared(r, dn, func(s string) bool { return f.input(s) != nil }, used, map[string]bool{"args": true, "entrypoint": true})
				call.Args = append(call.Args, [2]string{n, c14ActionValues[r.Intn(len(c14ActionValues))]})
				used[strings.ToLower(n)] = true
			}
			// seeded order of the with: entries
			p := r.Perm(len(call.Args))
			sh := make([][2]string, len(p))
			for i, q := range p {
				sh[i] = call.Args[q]
			}
			call.Args = sh

			// emit the step: blocks uses / id / with / name in seeded order
			var blocks []c14Block
			blocks = append(blocks, c14Block{"uses: " + specs[call.Act]})
			if call.ID != "" {
				blocks = append(blocks, c14Block{"id: " + call.ID})
			}
			withIdx := -1
			if len(call.Args) > 0 {
				blk := c14Block{"with:"}
				for _, a := range call.Args {
					blk = append(blk, "  "+c14Key(a[0])+": "+a[1])
				}
				withIdx = len(blocks)
				blocks = append(blocks, blk)
			}
			if r.Intn(4) == 0 {
				blocks = append(blocks, c14Block{fmt.Sprintf("name: call %d", stepNo)})
			}
			order := r.Perm(len(blocks))
			first := true
			for _, bi := range order {
				for li, l := range blocks[bi] {
					var p Pos
					if first {
						b.W("      - ")
						p = b.W(l)
						b.W("\n")
						first = false
					} else {
						p = b.L(8, l)
					}
					if bi == 0 {
						call.UsesL = p.Line
					}
					if bi == withIdx && li > 0 {
						call.KeyL = append(call.KeyL, p.Line)
					}
				}
			}

			// reference verdicts for this call site
			siteIface[call.UsesL] = f
			for _, l := range call.KeyL {
				siteIface[l] = f
			}
			for i, a := range call.Args {
				if f.input(a[0]) == nil {
					want = append(want, c14Finding{c14UndefInput, strings.ToLower(a[0]), call.KeyL[i]})
				}
			}
			for i := range f.Inputs {
				in := &f.Inputs[i]
				supplied := ""
				for _, a := range call.Args {
					if strings.EqualFold(a[0], in.Name) {
						supplied = a[0]
					}
				}
				if in.mustSupply() && supplied == "" {
					want = append(want, c14Finding{c14MissingInput, strings.ToLower(in.Name), call.UsesL})
				}
				if in.Req == 1 && in.HasDef && supplied == "" {
					c.Count("action_required_with_default_not_supplied", 1)
				}
				if in.mustSupply() && supplied != "" && supplied != in.Name {
					c.Count("action_required_supplied_in_other_case", 1)
				}
			}
			calls = append(calls, call)
		}
		// output references after all calls of the job
		for _, call := range calls {
			if call.ID == "" {
				continue
			}
			f := ifaces[call.Act]
			for k := r.Intn(4); k > 0; k-- {
				var name string
				declared := len(f.Outputs) > 0 && r.Intn(5) < 3
				if declared {
					name = f.Outputs[r.Intn(len(f.Outputs))]
				} else {
					name = c14Undeclared(r, f.Outputs, func(s string) bool { _, ok := f.output(s); return ok }, map[string]bool{}, nil)
				}
				expr, written := c14OutputRef(r, "steps", call.ID, name)
				sr := c14RandRef(r, expr)
				line := c14EmitRef(b, sr)
				lineShape[line] = sr.Shape
				c14CoverRef(c, "action", sr, declared)
				if !declared {
					want = append(want, c14Finding{c14UndefOutput, strings.ToLower(name), line})
				} else if written != name {
					c.Count("action_output_declared_ref_other_case", 1)
				}
			}
		}
	}
	caller := b.String()
	files[".github/workflows/caller.yml"] = caller
	writeFiles(root, files)

	errs, err := lintFileFresh(filepath.Join(root, ".github/workflows/caller.yml"), root, actionlint.LinterOptions{})
	c.Eval(1)
	detail := func() map[string]interface{} {
		return map[string]interface{}{"files": c14PublicFiles(files), "interfaces": ifaces, "specs": specs}
	}
	if err != nil {
		c.Violation("C14:action:fatal-error", "linting the caller of a well-formed local action returned a fatal error: "+err.Error(), detail())
		return
	}
	if c.Verbose {
		c14LogFiles(c, files)
	}
	classify := func(f c14Finding, missed bool) string {
		cls := c14ClassifyAction(f, missed, siteIface[f.Line], caller)
		if sh, ok := lineShape[f.Line]; ok && f.What == c14UndefOutput {
			cls += ":shape-" + sh
		}
		return cls
	}
	c14Compare(c, "action", toDiags(errs), want, nil, nil, classify, detail)
	for _, f := range want {
		c.SetAdd("expected_kinds", "action:"+f.What)
	}
	if len(want) > 0 {
		c.Nontrivial("action|" + c14FilesKey(files))
	}
	if c.Idx == 0 {
		c.Sample(map[string]interface{}{"family": "local-action", "files": c14PublicFiles(files), "expected": c14FindingStrings(want), "diags": sortedDiagStrings(toDiags(errs))})
	}
}

// c14OutputRef builds `<ctx>.<id>.outputs.<name>` with the id and the name in a seeded letter case;
// index syntax is used with lower-case names only (folding of index literals belongs to C08).
func c14OutputRef(r *Rand, ctx, id, name string) (expr, written string) {
	idw := c14CaseVariant(r, id)
	if r.Intn(4) == 0 {
		written = strings.ToLower(name)
		return fmt.Sprintf("%s.%s.outputs['%s']", ctx, idw, written), written
	}
	written = c14CaseVariant(r, name)
	return fmt.Sprintf("%s.%s.outputs.%s", ctx, idw, written), written
}

func c14PublicFiles(files map[string]string) map[string]string {
	out := map[string]string{}
	for k, v := range files {
		if !strings.HasPrefix(k, ".git/") {
			out[k] = v
		}
	}
	return out
}

func c14LogFiles(c *Case, files map[string]string) {
	var names []string
	for k := range files {
		names = append(names, k)
	}
	sort.Strings(names)
	for _, n := range names {
		if strings.HasPrefix(n, ".git/") {
			continue
		}
		c.Logf("=== %s\n%s", n, c14Numbered(files[n]))
	}
}

// c14FilesKey is a deterministic digest input of a file set.
func c14FilesKey(files map[string]string) string {
	var names []string
	for k := range files {
		names = append(names, k)
	}
	sort.Strings(names)
	var sb strings.Builder
	for _, n := range names {
		sb.WriteString(n + "\x00" + files[n] + "\x00")
	}
	return sb.String()
}

func c14Numbered(src string) string {
	var sb strings.Builder
	for i, l := range strings.Split(strings.TrimSuffix(src, "\n"), "\n") {
		fmt.Fprintf(&sb, "%3d| %s\n", i+1, l)
	}
	return sb.String()
}

// c14ClassifyAction names the narrow class of a disagreement from the reference interface(s).
func c14ClassifyAction(f c14Finding, missed bool, fc *c14Iface, caller string) string {
	if missed {
		switch f.What {
		case c14MissingInput:
			return "required-without-default-not-supplied"
		default:
			return "undeclared"
		}
	}
	switch f.What {
	case c14MissingInput:
		if fc == nil {
			return "not-at-a-call-site"
		}
		in := fc.input(f.Name)
		if in == nil {
			return "not-declared-at-all"
		}
		switch {
		case in.Req == 1 && in.HasDef:
			return "required-but-has-default"
		case in.Req != 1:
			return "not-required"
		case f.Name == "args" || f.Name == "entrypoint":
			return "supplied-input-named-args-or-entrypoint"
		}
		return "supplied"
	case c14UndefInput, c14UndefOutput:
		return "declared"
	}
	return "other"
}

// ---------------------------------------------------------------------------
// local reusable workflows

type c14Val struct {
	Text string
	Ty   string // string | number | bool | null | any | object | array
	Expr bool
}

var c14Values = []c14Val{
	{"hello", "string", false}, {"v1.2.3", "string", false}, {"some text", "string", false}, {"a-b_c", "string", false}, {"ubuntu-latest", "string", false},
	{"42", "number", false}, {"-3", "number", false}, {"3.14", "number", false}, {"0", "number", false}, {"1e3", "number", false},
	{"true", "bool", false}, {"false", "bool", false},
	{"null", "null", false},
	{"${{ 'lit' }}", "string", true}, {"${{ github.sha }}", "string", true}, {"${{ format('{0}-{1}', 'a', 1) }}", "string", true}, {"${{ toJSON(github) }}", "string", true}, {"${{ github.ref_name }}", "string", true},
	{"${{ 12 }}", "number", true}, {"${{ github.retention_days }}", "number", true}, {"${{ -1.5 }}", "number", true}, {"${{ 0x1F }}", "number", true},
	{"${{ true }}", "bool", true}, {"${{ 1 == 1 }}", "bool", true}, {"${{ !false }}", "bool", true}, {"${{ contains('ab', 'a') }}", "bool", true}, {"${{ github.ref_protected }}", "bool", true}, {"${{ startsWith(github.ref, 'refs/tags/') }}", "bool", true},
	{"${{ null }}", "null", true},
	{"${{ github.event.foo }}", "any", true}, {"${{ fromJSON(github.sha) }}", "any", true}, {"${{ github.event.inputs.which }}", "any", true},
	{"${{ github }}", "object", true}, {"${{ github.event }}", "object", true}, {"${{ needs }}", "object", true}, {"${{ strategy }}", "object", true},
	{"${{ fromJSON('[1, 2]') }}", "array", true},
	{"pre ${{ 1 }}", "string", true}, {"${{ 1 }}${{ 2 }}", "string", true}, {"${{ true }} post", "string", true}, {"${{ 1 }}-${{ github.sha }}", "string", true},
	// templates with two or three expressions: a string whatever the parts are
	{"v${{ 'a' }}-${{ 'b' }}", "string", true}, {"${{ true }}${{ false }}", "string", true}, {"${{ 1 }}.${{ 2 }}.${{ 3 }}", "string", true},
	{"${{ github.sha }}${{ 1 }}x", "string", true}, {"${{ 1 }} ${{ 2 }}", "string", true}, {"${{ 1 }}${{ true }}${{ 'x' }}", "string", true},
	{"x${{ 12 }}y${{ 3.5 }}z", "string", true}, {"${{ github.ref_protected }}${{ github.retention_days }}", "string", true},
}

// multi: a template with two or more ${{ }} expressions.
func (v c14Val) multi() bool { return strings.Count(v.Text, "${{") >= 2 }

// c14Reps is the number of fresh Linters a call containing such a template is linted with.
const c14Reps = 8

func c14MultiValue(r *Rand) c14Val {
	for {
		if v := c14Values[r.Intn(len(c14Values))]; v.multi() {
			return v
		}
	}
}

func c14ValueOfType(r *Rand, ty string) c14Val {
	for {
		v := c14Values[r.Intn(len(c14Values))]
		if v.Ty == ty {
			return v
		}
	}
}

var c14WfDefaults = map[string][]string{
	"string":  {"abc", "''", "${{ github.sha }}", "some default"},
	"number":  {"3", "1.5", "${{ 1 }}", "0"},
	"boolean": {"true", "false", "${{ true }}"},
}

func c14GenWorkflowIface(r *Rand) *c14Iface {
	f := &c14Iface{Kind: "workflow"}
	if r.Intn(12) == 0 {
		return f // `on: workflow_call` without any interface
	}
	nIn := r.Intn(6)
	if r.Intn(10) == 0 {
		nIn = 6 + r.Intn(5)
	}
	for _, n := range c14Names(r, nIn, []string{"args", "entrypoint"}) {
		in := c14In{Name: n, Type: []string{"string", "number", "boolean"}[r.Intn(3)]}
		switch r.Intn(5) {
		case 0:
			in.Req = 0
		case 1, 2:
			in.Req = 1
		default:
			in.Req = 2
		}
		if in.Req != 1 && r.Bool() { // required + default is diagnosed in the callee itself: not well-formed
			in.HasDef = true
			d := c14WfDefaults[in.Type]
			in.DefText = d[r.Intn(len(d))]
		}
		in.Desc = r.Intn(3) != 0
		f.Inputs = append(f.Inputs, in)
	}
	for _, n := range c14Names(r, r.Intn(4), nil) {
		s := c14Sec{Name: n, Req: r.Intn(3), Desc: r.Intn(3) == 0}
		if r.Intn(8) == 0 {
			s = c14Sec{Name: n, Bare: true}
		}
		if s.Req == 0 && !s.Desc {
			s.Bare = true
		}
		f.Secrets = append(f.Secrets, s)
	}
	f.Outputs = c14Names(r, r.Intn(4), nil)
	return f
}

func c14RenderCallee(r *Rand, f *c14Iface, title string) string {
	b := NewYB()
	if r.Bool() {
		b.L(0, "name: "+title)
	}
	empty := len(f.Inputs) == 0 && len(f.Secrets) == 0 && len(f.Outputs) == 0
	form := 3
	if empty {
		form = r.Intn(5)
	}
	switch form {
	case 0:
		b.L(0, "on: workflow_call")
	case 1:
		b.L(0, "on: [workflow_call]")
	case 2:
		b.L(0, "on: [push, workflow_call]")
	default:
		b.L(0, "on:")
		extra := r.Intn(4) // 0: push before, 1: workflow_dispatch after
		if extra == 0 {
			b.L(2, "push:")
		}
		b.L(2, "workflow_call:")
		var secs []c14Block
		if len(f.Inputs) > 0 {
			blk := c14Block{"inputs:"}
			for _, in := range f.Inputs {
				blk = append(blk, "  "+c14Key(in.Name)+":")
				attrs := []string{"type: " + in.Type}
				if in.Desc {
					attrs = append(attrs, "description: input "+in.Name)
				}
				if in.Req != 0 {
					attrs = append(attrs, c14ReqText(in.Req))
				}
				if in.HasDef {
					attrs = append(attrs, "default: "+in.DefText)
				}
				for _, i := range r.Perm(len(attrs)) {
					blk = append(blk, "    "+attrs[i])
				}
			}
			secs = append(secs, blk)
		} else if r.Intn(8) == 0 {
			secs = append(secs, c14Block{"inputs:"})
		}
		if len(f.Secrets) > 0 {
			blk := c14Block{"secrets:"}
			for _, s := range f.Secrets {
				blk = append(blk, "  "+c14Key(s.Name)+":")
				if s.Bare {
					continue
				}
				var attrs []string
				if s.Desc {
					attrs = append(attrs, "description: secret "+s.Name)
				}
				if s.Req != 0 {
					attrs = append(attrs, c14ReqText(s.Req))
				}
				for _, i := range r.Perm(len(attrs)) {
					blk = append(blk, "    "+attrs[i])
				}
			}
			secs = append(secs, blk)
		}
		if len(f.Outputs) > 0 {
			blk := c14Block{"outputs:"}
			for _, o := range f.Outputs {
				blk = append(blk, "  "+c14Key(o)+":")
				if r.Bool() {
					blk = append(blk, "    description: output "+o)
				}
				blk = append(blk, "    value: ${{ jobs.build.outputs.o }}")
			}
			secs = append(secs, blk)
		}
		c14EmitEntries(b, r, 4, secs, true)
		if extra == 1 {
			b.L(2, "workflow_dispatch:")
		}
	}
	b.L(0, "jobs:")
	b.L(2, "build:")
	b.L(4, "runs-on: ubuntu-latest")
	if len(f.Outputs) > 0 {
		b.L(4, "outputs:")
		b.L(6, "o: ${{ steps.s.outputs.v }}")
	}
	b.L(4, "steps:")
	b.L(6, "- id: s")
	b.L(8, `run: echo "v=1" >> "$GITHUB_OUTPUT"`)
	return b.String()
}

type c14WfCall struct {
	Callee  int
	JobID   string
	Inherit bool
	Block   int // index of the job's block
}

// c14JobBase separates the virtual line numbers of job blocks before the file is assembled.
const c14JobBase = 100000

func c14RemapBool(m map[int]bool, f func(int) int) map[int]bool {
	out := map[int]bool{}
	for k, v := range m {
		out[f(k)] = v
	}
	return out
}

type c14TypedSite struct {
	Line     int
	Declared string
	Val      c14Val
}

// c14ParseCallees parses the callees and returns their workflow_call events; the callee files are
// removed afterwards, so that in "ast" mode a fall-back to reading them cannot go unnoticed.
func c14ParseCallees(root string, calleeRels []string) ([]*actionlint.WorkflowCallEvent, error) {
	var evs []*actionlint.WorkflowCallEvent
	for _, rel := range calleeRels {
		src, err := os.ReadFile(filepath.Join(root, rel))
		if err != nil {
			return nil, err
		}
		w, _ := actionlint.Parse(src)
		if w == nil {
			return nil, fmt.Errorf("callee %s does not parse", rel)
		}
		var ev *actionlint.WorkflowCallEvent
		for _, e := range w.On {
			if we, ok := e.(*actionlint.WorkflowCallEvent); ok {
				ev = we
				break
			}
		}
		if ev == nil {
			return nil, fmt.Errorf("callee %s has no workflow_call event", rel)
		}
		evs = append(evs, ev)
	}
	for _, rel := range calleeRels {
		os.Remove(filepath.Join(root, rel))
	}
	return evs, nil
}

// c14LintCallerAST lints the caller with a fresh Linter whose reusable-workflow cache was filled from
// the callees' parsed ASTs (what happens in a multi-file run when the callee is visited first).
func c14LintCallerAST(root string, calleeRels []string, evs []*actionlint.WorkflowCallEvent, callerRel string) ([]*actionlint.Error, error) {
	proj, err := actionlint.NewProject(root)
	if err != nil {
		return nil, err
	}
	cache := actionlint.NewLocalReusableWorkflowCache(proj, root, nil)
	for i, rel := range calleeRels {
		cache.WriteWorkflowCallEvent(rel, evs[i])
	}
	lac := actionlint.NewLocalActionsCache(proj, nil)
	opts := actionlint.LinterOptions{
		WorkingDir: root,
		OnRulesCreated: func(rules []actionlint.Rule) []actionlint.Rule {
			for i, rl := range rules {
				switch rl.Name() {
				case "workflow-call":
					rules[i] = actionlint.NewRuleWorkflowCall(callerRel, cache)
				case "expression":
					rules[i] = actionlint.NewRuleExpression(lac, cache)
				}
			}
			return rules
		},
	}
	l, err := actionlint.NewLinter(io.Discard, &opts)
	if err != nil {
		return nil, err
	}
	return l.LintFile(filepath.Join(root, callerRel), proj)
}

// c14RunModes lints the caller reps times per derivation mode, each time with a fresh Linter,
// compares every result with the reference and additionally requires all repetitions of a mode to
// give the same diagnostics (the verdict must not depend on map iteration order).
func c14RunModes(c *Case, root string, p *c14WfProject, callerRel string, want []c14Finding, ignoreType, tolTemplate map[int]bool,
	classify c14Classifier, detail func() map[string]interface{}, reps int, sampleFamily string) {
	var evs []*actionlint.WorkflowCallEvent
	for _, mode := range []string{"file", "ast"} {
		if mode == "ast" {
			var err error
			if evs, err = c14ParseCallees(root, p.Callees); err != nil {
				c.Violation("C14:workflow-ast:fatal-error", "a callee that lints clean could not be parsed for the AST derivation: "+err.Error(), detail())
				return
			}
		}
		var first []string
		for rep := 0; rep < reps; rep++ {
			var errs []*actionlint.Error
			var err error
			if mode == "file" {
				errs, err = lintFileFresh(filepath.Join(root, callerRel), root, actionlint.LinterOptions{})
			} else {
				errs, err = c14LintCallerAST(root, p.Callees, evs, callerRel)
			}
			c.Eval(1)
			c.Count("workflow_mode_"+mode, 1)
			if err != nil {
				c.Violation("C14:workflow-"+mode+":fatal-error", "linting the caller of a well-formed reusable workflow returned a fatal error: "+err.Error(), detail())
				return
			}
			ds := toDiags(errs)
			if rep > 0 {
				c.Logf("  repetition %d", rep)
			}
			w := append([]c14Finding(nil), want...)
			c14Compare(c, "workflow-"+mode, ds, w, ignoreType, tolTemplate, classify, detail)
			cur := sortedDiagStrings(ds)
			if rep == 0 {
				first = cur
				if c.Idx == 0 && mode == "file" {
					c.Sample(map[string]interface{}{"family": sampleFamily, "files": c14PublicFiles(p.Files), "expected": c14FindingStrings(want), "diags": cur})
				}
			} else {
				c.Count("workflow_repeated_lints", 1)
				if strings.Join(cur, "\n") != strings.Join(first, "\n") {
					m := detail()
					m["first_run"] = first
					m["repetition"] = rep
					m["this_run"] = cur
					c.Violation("C14:workflow-"+mode+":verdict-differs-between-repetitions",
						fmt.Sprintf("the same call linted again with a fresh Linter gives different diagnostics (repetition %d): the verdict depends on map iteration order", rep), m)
				}
			}
		}
	}
}

type c14WfProject struct {
	Files   map[string]string
	Ifaces  []*c14Iface
	Callees []string // relative paths
}

func c14GenWfProject(c *Case, nWf int) *c14WfProject {
	r := c.R
	p := &c14WfProject{Files: map[string]string{".git/HEAD": "ref: refs/heads/main\n"}}
	for w := 0; w < nWf; w++ {
		f := c14GenWorkflowIface(r)
		rel := fmt.Sprintf(".github/workflows/callee-%d.yml", w)
		if r.Intn(4) == 0 {
			rel = fmt.Sprintf(".github/workflows/Callee_%d.yaml", w)
		}
		p.Files[rel] = c14RenderCallee(r, f, fmt.Sprintf("Callee %d", w))
		p.Ifaces = append(p.Ifaces, f)
		p.Callees = append(p.Callees, rel)
	}
	return p
}

// c14CalleesClean asserts well-formedness operationally: every callee lints clean on its own.
func c14CalleesClean(c *Case, root string, p *c14WfProject) bool {
	for _, rel := range p.Callees {
		c.Count("workflow_callees_generated", 1)
		errs, err := lintFileFresh(filepath.Join(root, rel), root, actionlint.LinterOptions{})
		if err != nil || len(errs) > 0 {
			c.Count("workflow_callees_not_clean", 1)
			if len(errs) > 0 {
				c.SetAdd("workflow_callee_not_clean_reasons", c14MsgClass(errs[0].Message))
			}
			c.Logf("callee %s is not clean: %v %v", rel, err, diagStrings(toDiags(errs)))
			return false
		}
	}
	return true
}

func c14WorkflowCase(c *Case) {
	r := c.R
	root := mkScratch("c14w")
	defer os.RemoveAll(root)
	p := c14GenWfProject(c, 1+r.Intn(2))
	writeFiles(root, p.Files)
	if !c14CalleesClean(c, root, p) {
		return
	}
	c.Count("local_interfaces", len(p.Ifaces))

	// Every job is rendered into its own block whose line numbers start at a block-specific virtual
	// base; the blocks are written in a seeded order afterwards and all recorded lines are mapped to
	// the lines of the assembled file (job order is a dimension: a dependant job may be written
	// before, between or after the jobs that call the reusable workflows it refers to).
	var blocks []*YB
	newBlock := func() *YB {
		jb := &YB{line: (len(blocks)+1)*c14JobBase + 1, col: 1}
		blocks = append(blocks, jb)
		return jb
	}
	var b *YB
	var want []c14Finding
	ignoreType := map[int]bool{}
	tolTemplate := map[int]bool{}
	siteIface := map[int]*c14Iface{}
	lineShape := map[int]string{}
	var typed []c14TypedSite
	var calls []*c14WfCall
	hasMulti := false
	nCalls := 1 + r.Intn(4)
	for k := 0; k < nCalls; k++ {
		call := &c14WfCall{Callee: r.Intn(len(p.Ifaces))}
		f := p.Ifaces[call.Callee]
		call.JobID = c14Style(r, fmt.Sprintf("%s%d", r.Pick([]string{"call", "job_", "c-"}), k))
		calls = append(calls, call)
		b = newBlock()
		call.Block = len(blocks) - 1
		b.L(2, call.JobID+":")

		// with:
		var args [][2]string
		var vals []c14Val
		used := map[string]bool{}
		pNum := []int{0, 5, 9, 10}[r.Intn(4)]
		for _, in := range f.Inputs {
			if r.Intn(10) < pNum {
				n := c14CaseVariant(r, in.Name)
				var v c14Val
				if r.Intn(5) < 3 { // a value of the declared type
					v = c14ValueOfType(r, map[string]string{"string": "string", "number": "number", "boolean": "bool"}[in.Type])
				} else {
					v = c14Values[r.Intn(len(c14Values))]
				}
				args = append(args, [2]string{n, v.Text})
				vals = append(vals, v)
				used[strings.ToLower(n)] = true
			}
		}
		for r.Intn(3) == 0 && len(args) < 14 {
			var dn []string
			for _, in := range f.Inputs {
				dn = append(dn, in.Name)
			}
			n := c14Undeclared(r, dn, func(s string) bool { return f.input(s) != nil }, used, nil)
			v := c14Values[r.Intn(len(c14Values))]
			args = append(args, [2]string{n, v.Text})
			vals = append(vals, v)
			used[strings.ToLower(n)] = true
		}
		perm := r.Perm(len(args))
		// secrets:
		secMode := r.Intn(3) // 0 none, 1 mapping, 2 inherit
		var secs []string
		usedS := map[string]bool{}
		if secMode == 1 {
			ps := []int{0, 5, 10}[r.Intn(3)]
			for _, s := range f.Secrets {
				if r.Intn(10) < ps {
					n := c14CaseVariant(r, s.Name)
					secs = append(secs, n)
					usedS[strings.ToLower(n)] = true
				}
			}
			for r.Intn(3) == 0 && len(secs) < 8 {
				var dn []string
				for _, s := range f.Secrets {
					dn = append(dn, s.Name)
				}
				n := c14Undeclared(r, dn, func(s string) bool { return f.secret(s) != nil }, usedS, nil)
				secs = append(secs, n)
				usedS[strings.ToLower(n)] = true
			}
			if len(secs) == 0 {
				secMode = 0
			}
		}
		call.Inherit = secMode == 2

		// emit job keys in seeded order
		usesFirst := r.Intn(3) != 0
		var usesL int
		emitUses := func() { usesL = b.L(4, "uses: ./"+p.Callees[call.Callee]).Line }
		if usesFirst {
			emitUses()
		}
		keyL := make([]int, len(args))
		if len(args) > 0 {
			b.L(4, "with:")
			for _, i := range perm {
				keyL[i] = b.L(6, c14Key(args[i][0])+": "+args[i][1]).Line
			}
		}
		secL := make([]int, len(secs))
		switch secMode {
		case 1:
			b.L(4, "secrets:")
			for i, s := range secs {
				secL[i] = b.L(6, c14Key(s)+": ${{ secrets."+r.Pick([]string{"TOKEN", "deploy_key", "X"})+" }}").Line
			}
		case 2:
			b.L(4, "secrets: inherit")
		}
		if !usesFirst {
			emitUses()
		}

		// reference verdicts
		siteIface[usesL] = f
		for i, a := range args {
			in := f.input(a[0])
			if in == nil {
				want = append(want, c14Finding{c14UndefInput, strings.ToLower(a[0]), keyL[i]})
				if vals[i].Ty == "object" || vals[i].Ty == "array" || vals[i].Ty == "null" {
					tolTemplate[keyL[i]] = true
				}
				continue
			}
			v := vals[i]
			if v.multi() {
				hasMulti = true
			}
			if v.Expr && (v.Ty == "object" || v.Ty == "array" || v.Ty == "null") {
				tolTemplate[keyL[i]] = true
			}
			ok, decided := c14Assignable(in.Type, v.Ty)
			typed = append(typed, c14TypedSite{keyL[i], in.Type, v})
			switch {
			case !decided:
				ignoreType[keyL[i]] = true
				c.Count("workflow_typed_value_not_compared", 1)
			case ok:
				c.Count("workflow_typed_value_assignable", 1)
				c.SetAdd("typed_pairs", in.Type+"<-"+v.Ty+":clean")
			default:
				c.Count("workflow_typed_value_unassignable", 1)
				c.SetAdd("typed_pairs", in.Type+"<-"+v.Ty+":reported")
				want = append(want, c14Finding{c14Type, strings.ToLower(in.Name), keyL[i]})
			}
		}
		for i := range f.Inputs {
			in := &f.Inputs[i]
			supplied := ""
			for _, a := range args {
				if strings.EqualFold(a[0], in.Name) {
					supplied = a[0]
				}
			}
			if in.mustSupply() && supplied == "" {
				want = append(want, c14Finding{c14MissingInput, strings.ToLower(in.Name), usesL})
			}
			if in.mustSupply() && supplied != "" && supplied != in.Name {
				c.Count("workflow_required_supplied_in_other_case", 1)
			}
			if in.Req != 1 && in.HasDef && supplied == "" {
				c.Count("workflow_optional_with_default_not_supplied", 1)
			}
		}
		if !call.Inherit {
			for i, s := range secs {
				if f.secret(s) == nil {
					want = append(want, c14Finding{c14UndefSecret, strings.ToLower(s), secL[i]})
				}
			}
			for i := range f.Secrets {
				s := &f.Secrets[i]
				if s.Req == 1 && !usedS[strings.ToLower(s.Name)] {
					want = append(want, c14Finding{c14MissingSecret, strings.ToLower(s.Name), usesL})
				}
			}
		} else {
			for i := range f.Secrets {
				if f.Secrets[i].Req == 1 {
					c.Count("workflow_secrets_inherit_with_required_secret", 1)
					c.Nontrivial("inherit|" + fmt.Sprint(*f) + call.JobID)
				}
			}
		}
	}
	// dependant jobs with needs.<job>.outputs.* references
	type depRef struct {
		line     int
		depBlock int
		call     *c14WfCall
		declared bool
	}
	var depRefs []depRef
	nDep := 1 + r.Intn(3)
	for d := 0; d < nDep; d++ {
		b = newBlock()
		blk := len(blocks) - 1
		var needed []*c14WfCall
		for _, call := range calls {
			if r.Intn(3) != 0 {
				needed = append(needed, call)
			}
		}
		if len(needed) == 0 {
			needed = append(needed, calls[r.Intn(len(calls))])
		}
		b.Lf(2, "down%d:", d)
		var ids []string
		for _, call := range needed {
			ids = append(ids, call.JobID)
		}
		b.L(4, "needs: ["+strings.Join(ids, ", ")+"]")
		b.L(4, "runs-on: ubuntu-latest")
		b.L(4, "steps:")
		b.L(6, "- run: echo start")
		for _, call := range needed {
			f := p.Ifaces[call.Callee]
			for k := r.Intn(4); k > 0; k-- {
				var name string
				declared := len(f.Outputs) > 0 && r.Intn(5) < 3
				if declared {
					name = f.Outputs[r.Intn(len(f.Outputs))]
				} else {
					name = c14Undeclared(r, f.Outputs, func(s string) bool { _, ok := f.output(s); return ok }, map[string]bool{}, nil)
				}
				expr, written := c14OutputRef(r, "needs", call.JobID, name)
				sr := c14RandRef(r, expr)
				line := c14EmitRef(b, sr)
				lineShape[line] = sr.Shape
				c14CoverRef(c, "workflow", sr, declared)
				depRefs = append(depRefs, depRef{line, blk, call, declared})
				if !declared {
					want = append(want, c14Finding{c14UndefOutput, strings.ToLower(name), line})
				} else if written != name {
					c.Count("workflow_output_declared_ref_other_case", 1)
				}
			}
		}
	}

	// assemble the file: calling jobs first / dependants first / any interleaving
	nb := len(blocks)
	order := make([]int, nb)
	for i := range order {
		order[i] = i
	}
	layout := []string{"callers-first", "dependants-first", "interleaved", "interleaved"}[r.Intn(4)]
	switch layout {
	case "dependants-first":
		order = order[:0]
		for i := len(calls); i < nb; i++ {
			order = append(order, i)
		}
		for i := 0; i < len(calls); i++ {
			order = append(order, i)
		}
	case "interleaved":
		order = r.Perm(nb)
	}
	c.SetAdd("job_layouts", layout)
	g := NewYB()
	g.L(0, "on: push")
	g.L(0, "jobs:")
	off := make([]int, nb) // line offset of a block in the assembled file
	pos := make([]int, nb) // position of a block in the file
	for q, bi := range order {
		off[bi] = g.Lines()
		pos[bi] = q
		g.W(blocks[bi].String())
	}
	actual := func(v int) int { return off[v/c14JobBase-1] + v%c14JobBase }
	for i := range want {
		want[i].Line = actual(want[i].Line)
	}
	for i := range typed {
		typed[i].Line = actual(typed[i].Line)
	}
	ignoreType = c14RemapBool(ignoreType, actual)
	tolTemplate = c14RemapBool(tolTemplate, actual)
	{
		m := map[int]*c14Iface{}
		for k, v := range siteIface {
			m[actual(k)] = v
		}
		siteIface = m
		ms := map[int]string{}
		for k, v := range lineShape {
			ms[actual(k)] = v
		}
		lineShape = ms
	}
	// order class of every needs reference
	lineOrder := map[int]string{}
	for _, dr := range depRefs {
		pd, pc := pos[dr.depBlock], pos[dr.call.Block]
		cls := "after-caller"
		if pc > pd {
			cls = "before-caller-callee-not-yet-cached"
			for _, other := range calls {
				if other.Callee == dr.call.Callee && pos[other.Block] < pd {
					cls = "before-caller-callee-cached-by-earlier-caller"
				}
			}
		}
		lineOrder[actual(dr.line)] = cls
		c.Count("needs_refs_"+cls, 1)
		d := "undeclared"
		if dr.declared {
			d = "declared"
		}
		for _, mode := range []string{"file", "ast"} {
			c.SetAdd("order_cells", cls+"|"+mode+"|"+d)
		}
	}
	b = g
	caller := b.String()
	callerRel := ".github/workflows/caller.yml"
	p.Files[callerRel] = caller
	writeFiles(root, map[string]string{callerRel: caller})
	if c.Verbose {
		c14LogFiles(c, p.Files)
	}
	detail := func() map[string]interface{} {
		return map[string]interface{}{"files": c14PublicFiles(p.Files), "interfaces": p.Ifaces}
	}
	classify := func(f c14Finding, missed bool) string {
		cls := c14ClassifyWorkflow(f, missed, siteIface[f.Line], typed)
		if f.What == c14UndefOutput {
			if oc, ok := lineOrder[f.Line]; ok && oc != "after-caller" {
				cls += ":dependant-" + oc
			} else if sh, ok := lineShape[f.Line]; ok {
				cls += ":shape-" + sh
			}
		}
		return cls
	}

	reps := 1
	if hasMulti {
		reps = c14Reps
		c.Count("workflow_calls_with_multi_expression_template", 1)
	}
	c14RunModes(c, root, p, callerRel, want, ignoreType, tolTemplate, classify, detail, reps, "local-workflow")
	for _, f := range want {
		c.SetAdd("expected_kinds", "workflow:"+f.What)
	}
	if len(want) > 0 {
		c.Nontrivial("workflow|" + c14FilesKey(p.Files))
	}
}

func c14ClassifyWorkflow(f c14Finding, missed bool, fc *c14Iface, typed []c14TypedSite) string {
	if f.What == c14Type {
		for _, t := range typed {
			if t.Line == f.Line {
				k := "literal"
				if t.Val.Expr {
					k = "expression"
				}
				if t.Val.multi() {
					k = "multi-expression-template"
				}
				return t.Declared + "-from-" + t.Val.Ty + "-" + k
			}
		}
		return "untyped-site"
	}
	if missed {
		switch f.What {
		case c14MissingInput:
			return "required-without-default-not-supplied"
		case c14MissingSecret:
			return "required-secret-not-supplied-without-inherit"
		}
		return "undeclared"
	}
	switch f.What {
	case c14MissingInput:
		if fc == nil {
			return "not-at-a-call-site"
		}
		in := fc.input(f.Name)
		switch {
		case in == nil:
			return "not-declared-at-all"
		case in.HasDef:
			return "has-default"
		case in.Req != 1:
			return "not-required"
		}
		return "supplied"
	case c14MissingSecret:
		if fc == nil {
			return "not-at-a-call-site"
		}
		s := fc.secret(f.Name)
		switch {
		case s == nil:
			return "not-declared-at-all"
		case s.Req != 1:
			return "not-required"
		}
		return "supplied-or-inherited"
	}
	return "declared-or-inherited"
}

// ---------------------------------------------------------------------------
// literal forms: plain scalars whose YAML type differs from what strconv.ParseFloat / an exact
// comparison with "true" and "false" suggest. Only the must-report direction is compared.

type c14LitForm struct {
	Text  string
	Ty    string // YAML core schema / yaml.v3 type of the plain scalar
	Class string
}

var c14LitForms = []c14LitForm{
	{"NaN", "string", "non-yaml-number-accepted-by-parsefloat"}, {"nan", "string", "non-yaml-number-accepted-by-parsefloat"}, {"Inf", "string", "non-yaml-number-accepted-by-parsefloat"}, {"inf", "string", "non-yaml-number-accepted-by-parsefloat"},
	{"+Inf", "string", "non-yaml-number-accepted-by-parsefloat"}, {"-inf", "string", "non-yaml-number-accepted-by-parsefloat"}, {"Infinity", "string", "non-yaml-number-accepted-by-parsefloat"}, {"-Infinity", "string", "non-yaml-number-accepted-by-parsefloat"}, {"infinity", "string", "non-yaml-number-accepted-by-parsefloat"},
	{"0x1p4", "string", "non-yaml-number-accepted-by-parsefloat"}, {"0X1P-2", "string", "non-yaml-number-accepted-by-parsefloat"}, {"0x1.8p1", "string", "non-yaml-number-accepted-by-parsefloat"},
	{"True", "bool", "capitalised-bool"}, {"TRUE", "bool", "capitalised-bool"}, {"False", "bool", "capitalised-bool"}, {"FALSE", "bool", "capitalised-bool"},
	// controls: canonical forms
	{"abc", "string", "control"}, {"true", "bool", "control"}, {"false", "bool", "control"}, {"12", "number", "control"},
}

func c14LiteralFormsCase(c *Case) {
	lf := c14LitForms[c.Idx]
	root := mkScratch("c14l")
	defer os.RemoveAll(root)
	files := map[string]string{
		".git/HEAD": "ref: refs/heads/main\n",
		".github/workflows/callee.yml": `on:
  workflow_call:
    inputs:
      str:
        type: string
      num:
        type: number
jobs:
  build:
    runs-on: ubuntu-latest
    steps:
      - run: echo
`,
	}
	b := NewYB()
	b.L(0, "on: push")
	b.L(0, "jobs:")
	b.L(2, "call:")
	b.L(4, "uses: ./.github/workflows/callee.yml")
	b.L(4, "with:")
	strL := b.L(6, "str: "+lf.Text).Line
	numL := b.L(6, "num: "+lf.Text).Line
	files[".github/workflows/caller.yml"] = b.String()
	writeFiles(root, files)
	errs, err := lintFileFresh(filepath.Join(root, ".github/workflows/caller.yml"), root, actionlint.LinterOptions{})
	c.Eval(1)
	if err != nil {
		c.Violation("C14:literal-forms:fatal-error", err.Error(), map[string]interface{}{"files": c14PublicFiles(files)})
		return
	}
	if c.Verbose {
		c14LogFiles(c, files)
	}
	got, _, rest := c14Parse(toDiags(errs), nil)
	for _, d := range rest {
		c.Violation("C14:literal-forms:unexpected-diagnostic:"+c14MsgClass(d.Msg), "unexpected diagnostic: "+d.String(), map[string]interface{}{"files": c14PublicFiles(files), "diags": sortedDiagStrings(toDiags(errs))})
	}
	has := func(line int) bool {
		for _, f := range got {
			if f.What == c14Type && f.Line == line {
				return true
			}
		}
		return false
	}
	for _, site := range []struct {
		decl string
		line int
	}{{"string", strL}, {"number", numL}} {
		ok, _ := c14Assignable(site.decl, lf.Ty)
		if ok {
			if lf.Class == "control" && has(site.line) {
				c.Violation("C14:literal-forms:type:reported-wrongly:"+site.decl+"-from-"+lf.Ty, fmt.Sprintf("plain scalar %q (%s) given to a %s input is reported", lf.Text, lf.Ty, site.decl), map[string]interface{}{"files": c14PublicFiles(files), "diags": sortedDiagStrings(toDiags(errs))})
			}
			continue // for the unusual forms only the must-report direction is compared
		}
		c.Nontrivial("lit|" + lf.Text + "|" + site.decl)
		c.SetAdd("literal_forms_must_report", lf.Text+"->"+site.decl)
		if !has(site.line) {
			c.Violation("C14:literal-forms:type:not-reported:"+lf.Class+"-to-"+site.decl,
				fmt.Sprintf("the plain YAML scalar %q is a %s (YAML core schema, yaml.v3, GitHub), which cannot be assigned to an input declared `type: %s`, but nothing is reported", lf.Text, lf.Ty, site.decl),
				map[string]interface{}{"files": c14PublicFiles(files), "diags": diagStrings(toDiags(errs)), "literal": lf.Text, "yaml_type": lf.Ty, "declared": site.decl})
		}
	}
}

// c14TemplateCase: one callee with several inputs of every type; one call that supplies all of
// them, templates with two or three expressions sitting next to literal and single-expression
// siblings of every type. Linted c14Reps times per derivation mode.
func c14TemplateCase(c *Case) {
	r := c.R
	root := mkScratch("c14t")
	defer os.RemoveAll(root)
	f := &c14Iface{Kind: "workflow"}
	nPer := 1 + r.Intn(3)
	names := c14Names(r, 3*nPer+r.Intn(3), nil)
	for i, n := range names {
		f.Inputs = append(f.Inputs, c14In{Name: n, Type: []string{"string", "number", "boolean"}[i%3], Req: []int{0, 2}[r.Intn(2)], Desc: r.Bool()})
	}
	p := &c14WfProject{Files: map[string]string{".git/HEAD": "ref: refs/heads/main\n"}, Ifaces: []*c14Iface{f}, Callees: []string{".github/workflows/callee.yml"}}
	p.Files[p.Callees[0]] = c14RenderCallee(r, f, "Callee")
	writeFiles(root, p.Files)
	if !c14CalleesClean(c, root, p) {
		return
	}
	c.Count("local_interfaces", 1)

	b := NewYB()
	b.L(0, "on: push")
	b.L(0, "jobs:")
	b.L(2, "call:")
	usesL := b.L(4, "uses: ./"+p.Callees[0]).Line
	b.L(4, "with:")
	var want []c14Finding
	ignoreType := map[int]bool{}
	var typed []c14TypedSite
	siteIface := map[int]*c14Iface{usesL: f}
	nMulti := 0
	order := r.Perm(len(f.Inputs))
	for k, i := range order {
		in := &f.Inputs[i]
		var v c14Val
		switch {
		case k == 0 || r.Intn(3) == 0:
			v = c14MultiValue(r)
			nMulti++
		case r.Bool(): // a sibling whose value has exactly the declared type
			v = c14ValueOfType(r, map[string]string{"string": "string", "number": "number", "boolean": "bool"}[in.Type])
		default: // a sibling of any scalar type, literal or single expression
			v = c14ValueOfType(r, []string{"string", "number", "bool"}[r.Intn(3)])
		}
		line := b.L(6, c14Key(c14CaseVariant(r, in.Name))+": "+v.Text).Line
		typed = append(typed, c14TypedSite{line, in.Type, v})
		ok, decided := c14Assignable(in.Type, v.Ty)
		switch {
		case !decided:
			ignoreType[line] = true
			c.Count("workflow_typed_value_not_compared", 1)
		case ok:
			c.Count("workflow_typed_value_assignable", 1)
		default:
			c.Count("workflow_typed_value_unassignable", 1)
			want = append(want, c14Finding{c14Type, strings.ToLower(in.Name), line})
		}
		if v.multi() {
			c.SetAdd("multi_template_pairs", in.Type+"<-template")
		}
	}
	callerRel := ".github/workflows/caller.yml"
	p.Files[callerRel] = b.String()
	writeFiles(root, map[string]string{callerRel: p.Files[callerRel]})
	if c.Verbose {
		c14LogFiles(c, p.Files)
	}
	detail := func() map[string]interface{} {
		return map[string]interface{}{"files": c14PublicFiles(p.Files), "interfaces": p.Ifaces}
	}
	classify := func(fd c14Finding, missed bool) string {
		return c14ClassifyWorkflow(fd, missed, siteIface[fd.Line], typed)
	}
	c.Count("workflow_calls_with_multi_expression_template", 1)
	c.Count("multi_expression_templates", nMulti)
	c14RunModes(c, root, p, callerRel, want, ignoreType, nil, classify, detail, c14Reps, "workflow-templates")
	for _, fd := range want {
		c.SetAdd("expected_kinds", "workflow:"+fd.What)
	}
	c.Nontrivial("templates|" + c14FilesKey(p.Files))
}

func c14LocalFamilies(r *Run) []*Family {
	return []*Family{
		{Name: "local-action", N: r.Q(4000, 200000), Do: c14ActionCase},
		{Name: "local-workflow", N: r.Q(4000, 200000), Do: c14WorkflowCase},
		{Name: "workflow-templates", N: r.Q(600, 30000), Do: c14TemplateCase},
		{Name: "workflow-literal-forms", N: len(c14LitForms), Do: c14LiteralFormsCase},
	}
}
