package main

// C11 script contexts: the text around the single ${{ }} placeholder of a scalar, drawn from
// realistic shell / JavaScript / Python fragments, and the YAML style the scalar is written in.
// The reports expected for an expression do not depend on any of this.

import (
	"strings"
)

// The marker @@ stands for the placeholder. No template contains "${{".
var c11ShellTemplates = []string{
	"echo @@",
	"echo '@@'",
	"if [ \"@@\" = \"true\" ]; then echo skip; fi",
	"echo \"${A:-${B}}\" @@",
	"V=\"${FOO}\"; echo \"$V @@\"",
	"docker ps --format '{{.ID}}' | head -1; echo @@",
	"curl -s -d '{\"a\": {\"b\": 1}}' https://example.com/; echo @@",
	"curl -s -d '{\"title\": \"@@\"}' https://example.com/",
	"x=$(date +%s); echo \"$x\" $(echo @@)",
	"echo `uname -s` `echo @@`",
	"awk '{ if ($1) { print $2 }}' f.txt\necho @@",
	"set -eu\nfor i in 1 2; do\n  echo \"$i\"\ndone\necho @@\necho done",
	"cat <<EOF\n{\"k\": {\"v\": \"${HOME}\"}}\ntitle=@@\nEOF",
	"cat <<'EOF' > out.json\n{\"a\": {\"b\": \"@@\"}}\nEOF\ncat out.json",
	"python3 - <<'PY'\nd = {\"a\": {\"b\": 1}}\nprint(f\"{d['a']}\")\nprint(\"@@\")\nPY",
	"echo $@@",
	"jq -n '{a: {b: 1}}' && echo \"{@@}\"",
	"echo \"}} @@ {{\"",
	"echo \"$HOME $1 $? $$ @@\"",
	"f() {\n  if true; then\n    { echo a; }\n  fi; }\nf \"${1:-${2:-x}}\"\n\necho @@ | sed -e 's/{{/[/g' -e 's/}}/]/g'",
}

var c11JSTemplates = []string{
	"console.log(@@)",
	"console.log('@@')",
	"core.info(`title: @@`)",
	"const o = {headers: {accept: 'x'}};\nconsole.log(o, '@@')",
	"core.info(`v=${process.env.V}`);\nreturn '@@'",
	"const f = (a) => { if (a) { return 1 }}\nconsole.log(f('@@'))",
	"await github.rest.issues.createComment({...context.repo, issue_number: 1, body: '@@'})",
	"const j = JSON.parse('{\"a\": {\"b\": 1}}');\ncore.setOutput('x', `${j.a.b} @@`)",
	"const t = {a: {b: '@@'}}",
	"// {{ mustache }}\nconst s = \"@@\"",
	"if (x) {\n  if (y) {\n    core.info('a')\n  }}\ncore.info('@@')",
}

// context classes that must be seen at both script positions with a due and correct report
var c11RequiredContextFeatures = []string{"close2-before", "open2-before", "dollar-brace-before", "backtick-before", "placeholder-after-first-line", "multi-line", "close2-after", "plain-context", "style-dq", "style-dq-crlf", "style-literal", "style-literal-strip", "style-literal-keep", "style-folded", "style-sq", "style-plain", "crlf-file"}

type c11Ctx struct {
	Template string   `json:"template"`
	Style    string   `json:"yaml_style"`
	Feats    []string `json:"features"`
}

// c11CtxFeatures classifies a template by what surrounds the placeholder.
func c11CtxFeatures(tpl string) []string {
	i := strings.Index(tpl, "@@")
	pre, post := tpl[:i], tpl[i+2:]
	var f []string
	add := func(ok bool, name string) {
		if ok {
			f = append(f, name)
		}
	}
	add(strings.Contains(pre, "}}"), "close2-before")
	add(strings.Contains(pre, "{{"), "open2-before")
	add(strings.Contains(pre, "${"), "dollar-brace-before")
	add(strings.Contains(pre, "$("), "dollar-paren-before")
	add(strings.Contains(pre, "`"), "backtick-before")
	add(strings.Contains(pre, "<<"), "heredoc")
	add(strings.HasSuffix(pre, "$"), "dollar-adjacent")
	add(strings.Contains(pre, "\n"), "placeholder-after-first-line")
	add(strings.Contains(tpl, "\n"), "multi-line")
	add(strings.Contains(post, "}}"), "close2-after")
	add(strings.Contains(post, "{{"), "open2-after")
	if len(f) == 0 {
		f = append(f, "plain-context")
	}
	return f
}

func c11PlainSafe(s string) bool {
	if s == "" || strings.ContainsAny(s, "\n\r") || strings.Contains(s, ": ") || strings.Contains(s, " #") {
		return false
	}
	c := s[0]
	if !(c >= 'a' && c <= 'z' || c >= 'A' && c <= 'Z') {
		return false
	}
	last := s[len(s)-1]
	return last != ' ' && last != ':'
}

var c11Styles = []string{"dq", "literal", "folded", "literal-strip", "dq-crlf", "literal-keep", "sq", "plain"}

// c11StyleFor returns the wanted style if the text can be written in it, else a fallback.
func c11StyleFor(text, want string) string {
	multi := strings.Contains(text, "\n")
	switch want {
	case "plain":
		if c11PlainSafe(text) {
			return want
		}
		return "dq"
	case "sq":
		if multi {
			return "literal"
		}
	case "dq-crlf":
		if !multi {
			return "dq"
		}
	}
	return want
}

// c11WriteScalar writes `key: value` with the value in the given style and returns first and last
// line of the entry.
func c11WriteScalar(b *YB, indent int, key, text, style string) (int, int) {
	first := b.Pos().Line
	switch style {
	case "plain":
		b.L(indent, key+": "+text)
	case "sq":
		b.L(indent, key+": '"+strings.ReplaceAll(text, "'", "''")+"'")
	case "dq", "dq-crlf":
		nl := `\n`
		if style == "dq-crlf" {
			nl = `\r\n`
		}
		var sb strings.Builder
		for _, c := range text {
			switch c {
			case '\\':
				sb.WriteString(`\\`)
			case '"':
				sb.WriteString(`\"`)
			case '\n':
				sb.WriteString(nl)
			case '\t':
				sb.WriteString(`\t`)
			default:
				sb.WriteRune(c)
			}
		}
		b.L(indent, key+`: "`+sb.String()+`"`)
	default: // block scalars
		ind := "|"
		if style == "folded" {
			ind = ">"
		}
		switch style {
		case "literal-strip":
			ind += "-"
		case "literal-keep":
			ind += "+"
		}
		b.L(indent, key+": "+ind)
		for _, l := range strings.Split(text, "\n") {
			if l == "" {
				b.W("\n")
			} else {
				b.L(indent+4, l)
			}
		}
	}
	return first, b.Pos().Line - 1
}

// c11PickCtx draws a context. lang: 0 shell, 1 JavaScript, 2 either. sys >= 0 selects template and
// style systematically (used by the family that sweeps all contexts).
func c11PickCtx(r *Rand, lang, sys int) (tpl, style string) {
	pool := c11ShellTemplates
	switch lang {
	case 1:
		pool = c11JSTemplates
	case 2:
		if r.Bool() {
			pool = c11JSTemplates
		}
	}
	if sys >= 0 {
		return pool[sys%len(pool)], c11Styles[(sys/len(pool))%6] // the six styles that fit every text
	}
	return pool[r.Intn(len(pool))], c11Styles[r.Intn(len(c11Styles))]
}
