package main

// C15: `paths` globs over the whole doublestar syntax. The generator builds, for a target file of
// the project, a glob that uses ONE construct (or a combination) and is meant either to match the
// file or to miss it narrowly; the scanner classifies any glob by the constructs it really contains
// (that classification, not the generator's intent, feeds the coverage floors). The verdict always
// comes from doublestar.Match on the root-relative slash path.

import (
	"sort"
	"strings"
	"unicode/utf8"

	"github.com/bmatcuk/doublestar/v4"
)

// syntax constructs (a glob "uses a construct alone" when exactly one of these is found in it)
var c15GlobSyntax = []string{"literal", "star", "doublestar", "question", "class-list", "class-range", "class-negated", "alternation", "alternation-nested", "alternation-empty", "escape"}

// traits that are no syntax by themselves
var c15GlobTraits = []string{"leading-dot-slash", "trailing-slash", "space", "non-ascii"}

// c15GlobConstructs returns the syntax constructs (sorted, "literal" when there is none) and the
// traits of a glob.
func c15GlobConstructs(g string) (syntax []string, traits []string) {
	set := map[string]bool{}
	rs := []rune(g)
	depth := 0
	altOpen := []int{} // index into altKinds per open brace
	type alt struct{ nested, empty bool }
	var alts []*alt
	for i := 0; i < len(rs); i++ {
		switch rs[i] {
		case '\\':
			set["escape"] = true
			i++
		case '*':
			if i+1 < len(rs) && rs[i+1] == '*' {
				set["doublestar"] = true
				for i+1 < len(rs) && rs[i+1] == '*' {
					i++
				}
			} else {
				set["star"] = true
			}
		case '?':
			set["question"] = true
		case '[':
			j := i + 1
			neg := false
			if j < len(rs) && (rs[j] == '^' || rs[j] == '!') {
				neg = true
				j++
			}
			start := j
			rng := false
			for j < len(rs) && (rs[j] != ']' || j == start) {
				if rs[j] == '\\' {
					j++
				} else if rs[j] == '-' && j > start && j+1 < len(rs) && rs[j+1] != ']' {
					rng = true
				}
				j++
			}
			switch {
			case neg:
				set["class-negated"] = true
			case rng:
				set["class-range"] = true
			default:
				set["class-list"] = true
			}
			i = j
		case '{':
			a := &alt{}
			if depth > 0 {
				a.nested = true
				for _, k := range altOpen {
					alts[k].nested = true
				}
			}
			alts = append(alts, a)
			altOpen = append(altOpen, len(alts)-1)
			depth++
			if i+1 < len(rs) && (rs[i+1] == ',' || rs[i+1] == '}') {
				a.empty = true
			}
		case ',':
			if depth > 0 && i+1 < len(rs) && (rs[i+1] == ',' || rs[i+1] == '}') {
				alts[altOpen[len(altOpen)-1]].empty = true
			}
		case '}':
			if depth > 0 {
				depth--
				altOpen = altOpen[:len(altOpen)-1]
			}
		}
	}
	for _, a := range alts {
		switch {
		case a.nested:
			set["alternation-nested"] = true
		case a.empty:
			set["alternation-empty"] = true
		default:
			set["alternation"] = true
		}
	}
	if len(set) == 0 {
		set["literal"] = true
	}
	for k := range set {
		syntax = append(syntax, k)
	}
	sort.Strings(syntax)
	if strings.HasPrefix(g, "./") {
		traits = append(traits, "leading-dot-slash")
	}
	if strings.HasSuffix(g, "/") {
		traits = append(traits, "trailing-slash")
	}
	if strings.Contains(g, " ") {
		traits = append(traits, "space")
	}
	for _, r := range g {
		if r >= utf8.RuneSelf {
			traits = append(traits, "non-ascii")
			break
		}
	}
	return
}

// c15GlobTag names the construct set of a glob for counters and signatures.
func c15GlobTag(g string) string {
	s, _ := c15GlobConstructs(g)
	return strings.Join(s, "+")
}

func c15IsGlobMeta(r rune) bool { return strings.ContainsRune(`*?[]{}\,!^-`, r) }

func c15IsAlnum(r rune) bool {
	return r >= 'a' && r <= 'z' || r >= 'A' && r <= 'Z' || r >= '0' && r <= '9'
}

// c15EscapeGlob makes every character of s literal.
func c15EscapeGlob(s string) string {
	var b strings.Builder
	for _, r := range s {
		if strings.ContainsRune(`*?[]{}\`, r) {
			b.WriteByte('\\')
		}
		b.WriteRune(r)
	}
	return b.String()
}

// c15GenGlobConstruct derives a glob from a file of the project. which<0 picks the construct.
func c15GenGlobConstruct(r *Rand, p *c15Project, which int) string {
	f := p.Files[r.Intn(len(p.Files))].Rel
	if r.Bool() {
		// prefer a file whose name has a space or a non-ASCII character, if there is one
		var odd []string
		for _, fl := range p.Files {
			if _, tr := c15GlobConstructs(fl.Rel); len(tr) > 0 {
				odd = append(odd, fl.Rel)
			}
		}
		if len(odd) > 0 {
			f = r.Pick(odd)
		}
	}
	cut := strings.LastIndex(f, "/")
	dir, base := f[:cut], f[cut+1:]
	dot := strings.LastIndex(base, ".")
	stem, ext := base[:dot], base[dot:] // ext = ".yml" / ".yaml"
	hit := r.Bool()                     // intent: match the file / miss it narrowly
	// a position in the base name holding an ASCII letter or digit
	brs := []rune(base)
	var cand []int
	for i, c := range brs {
		if c15IsAlnum(c) {
			cand = append(cand, i)
		}
	}
	pos := cand[r.Intn(len(cand))] // every base name ends with yml / yaml
	pre, ch, post := string(brs[:pos]), brs[pos], string(brs[pos+1:])
	plain := true // the file path has no character that is special in a glob
	for _, c := range f {
		if strings.ContainsRune(`*?[]{}\`, c) {
			plain = false
		}
	}
	if !plain && which != 10 && r.Chance(2, 3) {
		which = 10 // such names are mostly there for the escape construct
	}
	if which < 0 {
		which = r.Intn(16)
	}
	switch which {
	case 0: // literal
		if hit {
			return f
		}
		return r.Pick([]string{dir + "/no-" + base, f + "x", dir, strings.ToUpper(f), ".github/workflows"})
	case 1: // *
		if hit {
			return r.Pick([]string{dir + "/*", dir + "/" + pre + "*", dir + "/*" + ext, dir + "/" + pre + "*" + post, strings.Replace(f, "workflows", "*", 1), "*/workflows/" + strings.TrimPrefix(f, ".github/workflows/")})
		}
		return r.Pick([]string{dir + "/zz*" + ext, ".github/*" + ext, dir + "/*/" + base, "*", "*/" + base, dir + "/*" + ext + "x"})
	case 2: // **
		if hit {
			return r.Pick([]string{"**/" + base, ".github/**/" + base, dir + "/**", "**", ".github/**", "**/" + f})
		}
		return r.Pick([]string{"**/no-" + base, "src/**", dir + "/**/" + base + "x", "**/" + base + "/**"})
	case 3: // ?
		if hit {
			return dir + "/" + pre + "?" + post
		}
		return r.Pick([]string{dir + "/" + pre + "??" + post, dir + "?" + base, dir + "/" + pre + string(ch) + "?" + post})
	case 4: // [abc]
		if hit {
			return dir + "/" + pre + "[" + r.Pick([]string{"#", "", "_"}) + string(ch) + r.Pick([]string{"@", "", "%"}) + "]" + post
		}
		return dir + "/" + pre + "[#@%]" + post
	case 5: // [a-c]
		in, out := "0-9", "a-z"
		switch {
		case ch >= 'a' && ch <= 'z':
			in, out = r.Pick([]string{"a-z", string(ch) + "-" + string(ch), "a-" + string(ch), string(ch) + "-z"}), r.Pick([]string{"0-9", "A-Z"})
		case ch >= 'A' && ch <= 'Z':
			in, out = "A-Z", r.Pick([]string{"a-z", "0-9"})
		}
		if hit {
			return dir + "/" + pre + "[" + in + "]" + post
		}
		return dir + "/" + pre + "[" + out + "]" + post
	case 6: // [^a] [!a]
		neg := r.Pick([]string{"^", "!"})
		if hit {
			return dir + "/" + pre + "[" + neg + r.Pick([]string{"#", "#@", "/"}) + "]" + post
		}
		return dir + "/" + pre + "[" + neg + string(ch) + "]" + post
	case 7: // {a,b}: file names, directories, extensions
		if hit {
			return r.Pick([]string{
				dir + "/{" + base + ",other.yml}", dir + "/{zz.yml," + base + "}", "{.github,.gitlab}" + strings.TrimPrefix(f, ".github"),
				dir + "/" + stem + ".{yml,yaml}", "{" + f + "}", "{" + dir + ",src}/" + base, dir + "/{zz,yy," + stem + "}" + ext,
				".github/{workflows,actions}" + strings.TrimPrefix(f, ".github/workflows"),
			})
		}
		return r.Pick([]string{dir + "/{zz.yml,yy.yaml}", "{.gitlab,.gitea}" + strings.TrimPrefix(f, ".github"), dir + "/" + stem + ".{json,toml}", dir + "/{" + stem + "}", "{" + dir + "," + base + "}"})
	case 8: // nested {a,{b,c}}
		if hit {
			return r.Pick([]string{dir + "/{zz.yml,{" + base + ",yy.yml}}", dir + "/" + stem + ".{json,{yml,yaml}}", "{src,{.github,.gitlab}}" + strings.TrimPrefix(f, ".github")})
		}
		return r.Pick([]string{dir + "/{zz.yml,{xx.yml,yy.yml}}", dir + "/" + stem + ".{json,{toml,ini}}"})
	case 9: // empty alternative {,x}
		if hit {
			return r.Pick([]string{dir + "/" + stem + ".y{,a}ml", dir + "/{,no-}" + base, dir + "{,/zz}/" + base, f + "{,.bak}"})
		}
		return r.Pick([]string{dir + "/{,no-}x" + base, f + "{.bak,.orig}", dir + "/" + stem + ".y{,a}mll"})
	case 10: // \ escapes
		if hit {
			if !plain {
				return c15EscapeGlob(f)
			}
			return r.Pick([]string{dir + "/" + pre + "\\" + string(ch) + post, dir + "/" + stem + "\\" + ext, strings.Replace(f, "/", "\\/", 1), strings.Replace(f, ".", "\\.", 1)})
		}
		return r.Pick([]string{dir + "/" + pre + "\\*" + post, dir + "/\\*" + ext, dir + "/" + pre + "\\?" + post, dir + "/" + pre + "\\[" + string(ch) + "\\]" + post, dir + "/\\{" + base + ",x\\}"})
	case 11: // leading ./
		return r.Pick([]string{"./" + f, "./" + dir + "/" + base, "./.github/workflows"})
	case 12: // trailing /
		return r.Pick([]string{f + "/", dir + "/", ".github/"})
	default: // combinations
		if hit {
			return r.Pick([]string{
				"**/" + pre + "?" + post, "{.github,x}/**/*.y{,a}ml", dir + "/**/[a-zA-Z0-9]*.{yml,yaml}", "**/" + pre + "[" + string(ch) + "]*", ".github/*/**/" + stem + ".*",
				"**/{" + base + ",zz}", "*/*/**/" + pre + "\\" + string(ch) + "*", ".git[h]ub/work?lows/**", "{**/" + base + ",zz}", dir + "/" + pre + "[^#]" + "{" + post + ",zz}",
			})
		}
		return r.Pick([]string{
			"**/" + pre + "??" + post, "{.gitlab,x}/**/*.y{,a}ml", dir + "/**/[#@]*.{yml,yaml}", "**/" + pre + "[^" + string(ch) + "]*", ".github/*/" + "zz/**/" + stem + ".*",
			"**/{no-" + base + ",zz}", "*/\\*/**", ".git[l]ab/work?lows/**", "{**/zz" + base + ",zz}", "./**/*.{yml,yaml}", "**/*.{yml,yaml}/",
		})
	}
}

// c15OddNames are workflow file names with characters that are special somewhere: in a glob, in
// YAML, on a command line. (No leading '-', which would be taken for a flag, and no ':' or line
// break, which the -oneline parser of this monitor could not tell from the separators.)
var c15OddNames = []string{
	"my flow.yml", "ワーク.yml", "é.yml", "odd/s*r.yml", "odd/q?.yml", "odd/b[1].yml", "odd/c{x,y}.yml", "odd/back\\slash.yml", "my dir/x y.yaml", "odd/a,b.yml", "odd/^not!.yml", "ünï/cödé.yaml",
}

// c15BadGlobsMore: unbalanced brackets / braces and dangling escapes. Whether each is invalid is
// decided by doublestar.ValidatePattern at run time; invalid ones are expected to make the
// configuration unloadable (exit 3), valid ones are not used for that scenario.
var c15BadGlobsMore = []string{`{a,b`, `{`, `a{b,{c,d}`, `[abc`, `[a-`, `[^`, `[]`, `x[]y`, `.github/workflows/{ci,release.yml`, `.github/workflows/[a-z.yml`, `**/[`, `**/{`, `a\`, `[a-\`, `{a,b}{`, `[\`}

func c15ValidGlob(g string) bool { return doublestar.ValidatePattern(g) }
