package main

// C13, families "forms-*": rarely written but valid ways of writing a mapping key.
//
// Foreign and repeated keys are inserted into every covered section as
//   &c13n key: v        (anchor)            !!str key: v     (explicit tag)      &c13n !!str key: v
//   !!str &c13n key: v  !c13t &c13n key: v  (tag first)      !<tag:yaml.org,2002:str> key: v   ! key: v
//   'key': v  "key": v  (quoted)            ? key NEWLINE : v (explicit key)
//   *c13a : v           (alias of a scalar that carries the anchor elsewhere, or of the anchored original key)
//   <<: *c13a           (merge key; a key outside every fixed key set)
//   key: *c13a          (plain key, value written as an alias)
// and, in template K, into one-line flow mappings `{a: 1, b: 2}`. Mappings that end at the end of the
// file additionally get every form as their last key with the file rewritten without a final line break
// (LF and CRLF), so that the mutated key is on the very last line.
// Oracle: the property's — a report located on the offending key (inside the key token, behind its
// properties), for a repetition worded as one, and all diagnostics of the siblings survive. For a key
// written as an alias only "some diagnostic located at that key" is demanded.

import (
	"fmt"
	"strings"

	"gopkg.in/yaml.v3"
)

// c13Group: section groups for the coverage floors.
func c13Group(sec string) string {
	switch {
	case sec == "workflow" || sec == "env" || sec == "permissions" || sec == "concurrency" || strings.HasPrefix(sec, "defaults"):
		return "workflow"
	case sec == "on" || sec == "schedule-item" || sec == "webhook-event" || sec == "repository_dispatch" || strings.HasPrefix(sec, "workflow_dispatch") || strings.HasPrefix(sec, "workflow_call"):
		return "events"
	case strings.HasPrefix(sec, "step"):
		return "step"
	}
	return "job"
}

var c13Groups = []string{"workflow", "events", "job", "step"}

// Template K: flow mappings in every section group, keys that already carry an anchor / a tag / quotes,
// and (dirty alternatives) siblings whose value is written as an alias of the scalar "Template K", at
// positions where that text is not a valid value either (shell, runner label, number, boolean).
const c13TemplateK = `name: &c13s Template K
on:
  push: {branches: [@{main@|'ma^in'@}], tags: [@{v1@|'v^'@}]}
  workflow_dispatch:
    inputs:
      who: {type: @{string@|c13bogus@}, required: @{true@|maybe@}}
  schedule:
    - {cron: @{'0 4 * * *'@|'bad cron'@}}
env: {TOP: "@{one@|${{ foo }}@}", OTHER: "@{two@|${{ foo }}@}"}
defaults: {run: {shell: @{bash@|c13sh@}, working-directory: @{src@|''@}}}
concurrency: {group: @{grp@|''@}, cancel-in-progress: @{true@|maybe@}}
jobs:
  flow:
    runs-on: {group: @{g@|''@}, labels: @{ubuntu-latest@|''@}}
    environment: {name: @{prod@|''@}, url: @{https://example.com@|''@}}
    strategy: {fail-fast: @{true@|maybe@}, max-parallel: @{2@|0@}}
    timeout-minutes: @{5@|*c13s@}
    continue-on-error: @{false@|*c13s@}
    container:
      image: @{alpine:3@|${{ foo }}@}
      credentials: {username: @{u@|''@}, password: "@{${{ secrets.P }}@|${{ foo }}@}"}
    steps:
      - {run: @{echo hi@|''@}, shell: @{bash@|c13sh@}}
      - {uses: @{actions/checkout@v4@|actions/checkout@}, with: {ref: "@{main@|${{ foo }}@}", path: "@{p@|${{ foo }}@}"}}
      - name: @{Block step@|${{ foo }}@}
        run: @{echo two@|echo ${{ foo }}@}
        shell: @{bash@|*c13s@}
        timeout-minutes: @{5@|*c13s@}
        continue-on-error: @{true@|*c13s@}
  anchored:
    &c13j runs-on: @{ubuntu-latest@|*c13s@}
    !!str steps:
      - 'run': @{echo@|echo ${{ foo }}@}
        "shell": @{sh@|*c13s@}
        !!str timeout-minutes: @{3@|*c13s@}
        &c13e !!str env:
          &c13v A_VAR: @{x@|${{ foo }}@}
          !!str B_VAR: @{y@|${{ foo }}@}
`

// c13AnchorSite finds the first scalar of the document that is not a mapping key and can carry an
// anchor at text level; it returns the base with `&c13a ` put in front of it and the line of the anchor.
func (b *c13Base) c13WithValueAnchor() (*c13Base, int) {
	var site *yaml.Node
	var walk func(n *yaml.Node, isKey, inFlow bool)
	walk = func(n *yaml.Node, isKey, inFlow bool) {
		if site != nil {
			return
		}
		switch n.Kind {
		case yaml.ScalarNode:
			if isKey || inFlow || n.Anchor != "" || n.Style&(yaml.TaggedStyle|yaml.LiteralStyle|yaml.FoldedStyle) != 0 || n.Tag == "!!null" && n.Value == "" {
				return
			}
			if n.Line < 1 || n.Line > len(b.Lines) || n.Column-1 >= len(b.Lines[n.Line-1]) {
				return
			}
			for _, ch := range []byte(b.Lines[n.Line-1][:n.Column-1]) {
				if ch >= 0x80 {
					return
				}
			}
			site = n
		case yaml.MappingNode:
			fl := inFlow || n.Style&yaml.FlowStyle != 0
			for i, ch := range n.Content {
				walk(ch, i%2 == 0, fl)
			}
		case yaml.SequenceNode, yaml.DocumentNode:
			fl := inFlow || n.Style&yaml.FlowStyle != 0
			for _, ch := range n.Content {
				walk(ch, false, fl)
			}
		}
	}
	walk(b.Doc, false, false)
	if site == nil {
		return nil, 0
	}
	return b.c13AnchorAt(site.Line, site.Column, "+value-anchor"), site.Line
}

// c13AnchorAt puts `&c13a ` at line:col and returns the resulting base (nil if the document changed
// in any other way or if the anchor did not arrive).
func (b *c13Base) c13AnchorAt(line, col int, tag string) *c13Base {
	lines := append([]string{}, b.Lines...)
	l := lines[line-1]
	if col-1 > len(l) {
		return nil
	}
	lines[line-1] = l[:col-1] + "&" + c13AnchorName + " " + l[col-1:]
	nb, err := c13NewBase(b.ID+tag, strings.Join(lines, "\n"))
	if err != nil || c13CanonString(nb.Doc) != c13CanonString(b.Doc) || len(nb.Nodes) != len(b.Nodes) {
		return nil
	}
	found := false
	var walk func(n *yaml.Node)
	walk = func(n *yaml.Node) {
		if n.Anchor == c13AnchorName && n.Kind == yaml.ScalarNode {
			found = true
		}
		for _, ch := range n.Content {
			walk(ch)
		}
	}
	walk(nb.Doc)
	if !found {
		return nil
	}
	return nb
}

var c13KeyForms = []string{c13FormAnchor, c13FormTag, c13FormAnchorTag, c13FormTagAnchor, c13FormLocalTagAnchor, c13FormVerbatimTag, c13FormNonSpecificTag,
	c13FormSingle, c13FormDouble, c13FormExplicit}

// c13FormsNode applies the key-form mutations to mapping node ni of base b.
// level 0: one position / one key per form, level 1: every position / every key.
func c13FormsNode(c *Case, b *c13Base, ni int, level int, pool []string) {
	mn := &b.Nodes[ni]
	m := c13At(b.Doc, mn.Idx)
	n := len(m.Content) / 2
	sec := mn.Sec
	flow := m.Style&yaml.FlowStyle != 0
	keys := make([]string, n)
	for i := range keys {
		keys[i] = m.Content[2*i].Value
	}
	positions := func(from int) []int {
		if level == 0 {
			return []int{from + c.R.Intn(n-from+1)}
		}
		var ps []int
		for p := from; p <= n; p++ {
			ps = append(ps, p)
		}
		return ps
	}
	origs := func() []int {
		var os []int
		for i, k := range keys {
			first := true
			for j := 0; j < i; j++ {
				if strings.EqualFold(keys[j], k) {
					first = false
				}
			}
			if first && k != "" {
				os = append(os, i)
			}
		}
		if level == 0 && len(os) > 1 {
			return []int{os[c.R.Intn(len(os))]}
		}
		return os
	}
	foreignName := func() string {
		if !sec.SynthOnly && c.R.Bool() {
			var cand []string
			for _, k := range pool {
				if !c13Has(sec.Keys, k) && !c13Has(keys, k) {
					cand = append(cand, k)
				}
			}
			if len(cand) > 0 {
				return c.R.Pick(cand)
			}
		}
		return c13Synthetic
	}
	valKind := func() int { return c.R.Intn(c13ValKinds) }

	// --- keys that carry properties, quotes or the explicit key indicator
	for _, form := range c13KeyForms {
		if flow && form == c13FormExplicit {
			continue
		}
		if !sec.Free {
			for _, p := range positions(0) {
				c13Apply(c, b, mn, c13Op{Kind: "foreign", Pos: p, Key: foreignName(), ValKind: valKind(), Form: form}, true, nil)
			}
		}
		for _, i := range origs() {
			for _, p := range positions(i + 1) {
				c13Apply(c, b, mn, c13Op{Kind: "dup", Pos: p, Key: keys[i], ValKind: valKind(), Orig: i, Form: form}, true, nil)
			}
			if sec.Free {
				if v := strings.ToUpper(keys[i]); v != keys[i] && !c13Has(keys, v) {
					c13Apply(c, b, mn, c13Op{Kind: "dup-case", Pos: i + 1 + c.R.Intn(n-i), Key: v, ValKind: valKind(), Orig: i, Form: form}, true, nil)
				}
			}
		}
	}

	// --- forms that need the anchor c13a on a scalar elsewhere in the document
	b2, anchorLine := b.c13WithValueAnchor()
	if b2 != nil {
		c.Eval(1)
		mn2 := &b2.Nodes[ni]
		m2 := c13At(b2.Doc, mn2.Idx)
		after := func(p int) bool { // does insertion index p lie behind the anchor?
			switch {
			case flow:
				return anchorLine < m2.Line
			case p < n:
				return anchorLine < m2.Content[2*p].Line
			}
			return anchorLine <= b2.c13EndLine(m2.Content[0].Column, m2.Content[2*(n-1)].Line)
		}
		try := func(op c13Op) {
			if after(op.Pos) {
				c13Apply(c, b2, mn2, op, true, nil)
			} else {
				c.Count("alias_before_anchor_not_applicable", 1)
			}
		}
		for _, p := range positions(0) {
			// a key written as an alias of a scalar anchored elsewhere
			try(c13Op{Kind: "foreign", Pos: p, Key: "*" + c13AnchorName, ValKind: c.R.Intn(2), Form: c13FormAlias})
		}
		if !sec.Free {
			for _, p := range positions(0) {
				try(c13Op{Kind: "foreign", Pos: p, Key: "<<", ValKind: c13ValAlias, Form: c13FormMerge})
			}
			for _, p := range positions(0) {
				try(c13Op{Kind: "foreign", Pos: p, Key: foreignName(), ValKind: c13ValAlias})
			}
		}
		for _, i := range origs() {
			for _, p := range positions(i + 1) {
				try(c13Op{Kind: "dup", Pos: p, Key: keys[i], ValKind: c13ValAlias, Orig: i})
			}
		}
	} else {
		c.Count("no_anchor_site_in_base", 1)
	}

	// --- the original key carries the anchor, the repetition is written as its alias
	if !flow {
		for _, i := range origs() {
			k := m.Content[2*i]
			if k.Anchor != "" || k.Style&yaml.TaggedStyle != 0 || k.Line > len(b.Lines) {
				continue
			}
			b3 := b.c13AnchorAt(k.Line, k.Column, "+key-anchor")
			if b3 == nil {
				c.Count("key_anchor_not_expressible", 1)
				continue
			}
			c.Eval(1)
			for _, p := range positions(i + 1) {
				c13Apply(c, b3, &b3.Nodes[ni], c13Op{Kind: "dup", Pos: p, Key: "*" + c13AnchorName, ValKind: c.R.Intn(2), Orig: i, Form: c13FormAlias}, true, nil)
			}
		}
	}

	// --- near misses of the accepted keys
	if !sec.Free {
		nm := c13NearMisses(sec)
		for _, class := range c13NearClasses {
			cands := nm[class]
			var use []string
			for _, k := range cands {
				if !c13Has(keys, k) {
					use = append(use, k)
				}
			}
			if len(use) == 0 {
				continue
			}
			// the clean base takes every candidate (at most 12, drawn without repetition), the others one
			pick := 1
			if strings.HasSuffix(b.ID, "/forms-0") || level > 0 {
				pick = len(use)
				if pick > 12 {
					pick = 12
				}
			}
			perm := c.R.Perm(len(use))
			for _, xi := range perm[:pick] {
				c13Apply(c, b, mn, c13Op{Kind: "foreign", Pos: c.R.Intn(n + 1), Key: use[xi], ValKind: valKind(), Near: class}, true, nil)
			}
		}
	}

	// --- file layout: the mutated key on the very last line of a file without final line break (LF / CRLF)
	if !flow && b.c13EndsAtEOF(m) {
		lays := func() []string {
			if level == 0 {
				return []string{c13Layouts[c.R.Intn(len(c13Layouts))]}
			}
			return c13Layouts
		}
		os := origs()
		oi := os[c.R.Intn(len(os))]
		for _, form := range append([]string{c13FormPlain}, c13KeyForms...) {
			vk := c13ValScalar
			if form == c13FormExplicit {
				vk = c13ValNull // `? key` alone, so that the key is on the last line
			}
			if !sec.Free {
				for _, lay := range lays() {
					c13Apply(c, b, mn, c13Op{Kind: "foreign", Pos: n, Key: foreignName(), ValKind: vk, Form: form, Layout: lay}, true, nil)
				}
			}
			for _, lay := range lays() {
				c13Apply(c, b, mn, c13Op{Kind: "dup", Pos: n, Key: keys[oi], ValKind: vk, Orig: oi, Form: form, Layout: lay}, true, nil)
			}
		}
		if b2 != nil && anchorLine <= b2.c13EndLine(m.Content[0].Column, m.Content[2*(n-1)].Line) {
			mn2 := &b2.Nodes[ni]
			for _, lay := range lays() {
				c13Apply(c, b2, mn2, c13Op{Kind: "foreign", Pos: n, Key: "*" + c13AnchorName, ValKind: c13ValScalar, Form: c13FormAlias, Layout: lay}, true, nil)
			}
			if !sec.Free {
				for _, lay := range lays() {
					c13Apply(c, b2, mn2, c13Op{Kind: "foreign", Pos: n, Key: "<<", ValKind: c13ValAlias, Form: c13FormMerge, Layout: lay}, true, nil)
				}
				for _, lay := range lays() {
					c13Apply(c, b2, mn2, c13Op{Kind: "foreign", Pos: n, Key: foreignName(), ValKind: c13ValAlias, Layout: lay}, true, nil)
				}
			}
			for _, lay := range lays() {
				c13Apply(c, b2, mn2, c13Op{Kind: "dup", Pos: n, Key: keys[oi], ValKind: c13ValAlias, Orig: oi, Layout: lay}, true, nil)
			}
		}
		if k := m.Content[2*oi]; k.Anchor == "" && k.Style&yaml.TaggedStyle == 0 && k.Line <= len(b.Lines) {
			if b3 := b.c13AnchorAt(k.Line, k.Column, "+key-anchor"); b3 != nil {
				c.Eval(1)
				for _, lay := range lays() {
					c13Apply(c, b3, &b3.Nodes[ni], c13Op{Kind: "dup", Pos: n, Key: "*" + c13AnchorName, ValKind: c13ValScalar, Orig: oi, Form: c13FormAlias, Layout: lay}, true, nil)
				}
			}
		}
	}
}

// c13FormsFloors: every key form was judged in every section group, as a foreign key and as a repetition.
func c13FormsFloors(r *Run) {
	lforms := append(append([]string{"plain"}, c13KeyForms...), c13FormAlias, c13FormMerge, "alias-value")
	for _, f := range lforms {
		for _, l := range c13Layouts {
			for _, k := range []string{"unknown-key", "duplicate-key"} {
				if f == c13FormMerge && k == "duplicate-key" {
					continue
				}
				if !r.SetHas("layouts_covered", f+":"+l+":"+k) {
					r.Inconclusive(fmt.Sprintf("file layouts: no %s written as %q was judged on the last line of a file with layout %s", k, f, l))
				}
			}
		}
	}
	forms := append(append([]string{}, c13KeyForms...), c13FormAlias, c13FormMerge, "alias-value", "flow")
	for _, f := range forms {
		for _, g := range c13Groups {
			for _, k := range []string{"unknown-key", "duplicate-key"} {
				if f == c13FormMerge && k == "duplicate-key" {
					continue
				}
				if !r.SetHas("forms_covered", f+":"+g+":"+k) {
					r.Inconclusive(fmt.Sprintf("key forms: no %s written as %q was judged in a section of group %s", k, f, g))
				}
			}
		}
	}
}

// near-miss classes of foreign keys
var c13NearClasses = []string{"suffix-ignore", "suffix-ignore-ignore", "suffix_ignore", "plural-singular", "upper-case", "same-group-section"}

// c13NearMisses derives foreign keys from the accepted keys of a fixed section. A candidate that the table
// lists as a legal key of the section (e.g. branches-ignore from branches) is dropped.
func c13NearMisses(sec *c13Section) map[string][]string {
	out := map[string][]string{}
	seen := map[string]bool{}
	add := func(class, k string) {
		if k == "" || c13Has(sec.Keys, k) || seen[class+"\x00"+k] {
			return
		}
		seen[class+"\x00"+k] = true
		out[class] = append(out[class], k)
	}
	for _, k := range sec.Keys {
		add("suffix-ignore", k+"-ignore")
		add("suffix-ignore-ignore", k+"-ignore-ignore")
		add("suffix_ignore", k+"_ignore")
		if strings.HasSuffix(k, "s") {
			add("plural-singular", strings.TrimSuffix(k, "s"))
		} else {
			add("plural-singular", k+"s")
		}
		if sec.Name != "on" {
			add("upper-case", strings.ToUpper(k))
		}
	}
	if !sec.SynthOnly {
		g := c13Group(sec.Name)
		for i := range c13Sections {
			o := &c13Sections[i]
			if o.Free || o.Skip || o.Name == sec.Name || o.Name == "on" || c13Group(o.Name) != g {
				continue
			}
			for _, k := range o.Keys {
				add("same-group-section", k)
			}
		}
	}
	return out
}

// c13NearMissFloors: every fixed section has met every near-miss class that yields a candidate for it.
func c13NearMissFloors(r *Run) {
	dropped := 0
	for i := range c13Sections {
		sec := &c13Sections[i]
		if sec.Free || sec.Skip {
			continue
		}
		nm := c13NearMisses(sec)
		for _, class := range c13NearClasses {
			if len(nm[class]) == 0 {
				continue
			}
			if !r.SetHas("nearmiss_covered", sec.Name+":"+class) {
				r.Inconclusive(fmt.Sprintf("near misses: no %s near miss was judged in section %s", class, sec.Name))
			}
		}
		for _, k := range sec.Keys {
			for _, cand := range []string{k + "-ignore", k + "_ignore", strings.TrimSuffix(k, "s"), k + "s"} {
				if cand != k && c13Has(sec.Keys, cand) {
					dropped++
					r.SetAdd("nearmiss_dropped_because_legal", sec.Name+":"+cand)
				}
			}
		}
	}
	r.Extra("nearmiss_candidates_dropped_because_legal", dropped)
}
