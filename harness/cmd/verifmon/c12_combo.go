package main

// C12, part 3: several names in ONE expression. The verdict about a name must not depend on where
// inside the expression it occurs - in particular not on whether it sits inside the arguments of a
// special function that is itself unavailable at the position, nor on whether another name earlier
// in the same expression was already reported.
//
//   hashfiles-arguments: position class x 12 contexts x shapes of `hashFiles(<string built from ctx>)`
//                        (hashFiles is the only special function that takes arguments); BOTH verdicts
//                        are predicted independently from the golden table.
//   name-pairs:          position class x 17 x 17 ordered pairs of names as two arguments of one
//                        ordinary call / two operands of one operator.

import (
	"fmt"
	"strings"
)

// c12HashCall wraps a string-typed probe into hashFiles(lead + probe) and adds hashFiles itself as
// a probed name (at the start of the resulting expression).
func c12HashCall(p c12Probe, spell, lead string) c12Probe {
	q := p.wrap(spell+"("+lead, ")", false)
	for i := range q.Names {
		q.Names[i].InHash = true
	}
	q.Names = append([]c12Name{{Off: 0, Lower: "hashfiles", Fn: true}}, q.Names...)
	return q
}

// string-typed (or any-typed) properties, so that hashFiles(ctx.prop) is a well-typed call
var c12StringProp = map[string]string{
	"env": "env.HOME_DIR", "github": "github.sha", "job": "job.status", "runner": "runner.temp",
	"secrets": "secrets.FOO", "vars": "vars.FOO",
}

type c12Shape struct {
	Name  string
	Build func(ctx string) (c12Probe, bool)
	Pre   string // harmless placeholder before the probing one (c12Str only)
}

var c12HashShapes = []c12Shape{
	{Name: "hashFiles(toJSON(ctx))", Build: func(ctx string) (c12Probe, bool) {
		return c12HashCall(c12Leaf(ctx, false), "hashFiles", ""), true
	}},
	{Name: "hashFiles('a', toJSON(ctx))", Build: func(ctx string) (c12Probe, bool) {
		return c12HashCall(c12Leaf(ctx, false), "hashFiles", "'a', "), true
	}},
	{Name: "hashFiles(format('{0}', toJSON(ctx)))", Build: func(ctx string) (c12Probe, bool) {
		return c12HashCall(c12Leaf(ctx, false).wrap("format('{0}', ", ")", false), "hashFiles", ""), true
	}},
	{Name: "format(.., !(hashFiles(toJSON(ctx)) == 'x') && 'y')", Build: func(ctx string) (c12Probe, bool) {
		return c12HashCall(c12Leaf(ctx, false), "hashFiles", "").wrap("format('{0}{1}', 'a', !(", " == 'x') && 'y')", false), true
	}},
	{Name: "HASHFILES(toJSON(CTX))", Build: func(ctx string) (c12Probe, bool) {
		return c12HashCall(c12Leaf(strings.ToUpper(ctx), false), "HASHFILES", ""), true
	}},
	{Name: "hashFiles(ctx.prop)", Build: func(ctx string) (c12Probe, bool) {
		acc, ok := c12StringProp[ctx]
		if !ok {
			return c12Probe{}, false
		}
		return c12HashCall(c12Probe{Expr: acc, Names: []c12Name{{Off: 0, Lower: ctx}}}, "hashFiles", ""), true
	}},
	{Name: "second placeholder: hashFiles(toJSON(ctx))", Pre: "${{ 'a' }}-", Build: func(ctx string) (c12Probe, bool) {
		return c12HashCall(c12Leaf(ctx, false), "hashFiles", ""), true
	}},
}

func c12HasName(os []c12Obs, fn bool) bool {
	for _, o := range os {
		if o.Fn == fn {
			return true
		}
	}
	return false
}

func c12HashArgsCase(c *Case, g map[string]*c12Avail, cl *c12Class) {
	av := g[cl.Key]
	if av == nil {
		return // reported by the cross-product family
	}
	for _, ctx := range c12Contexts {
		for _, sh := range c12HashShapes {
			if sh.Pre != "" && cl.Kind != c12Str {
				continue
			}
			p, ok := sh.Build(ctx)
			if !ok {
				continue
			}
			res, exp := c12Run(c, g, cl, p, sh.Pre, "", false, false)
			c.Count("hashfiles_argument_lints", 1)
			c.Nontrivial("hf|" + cl.Name + "|" + ctx + "|" + sh.Name)
			fnOK, ctxOK := av.Func["hashfiles"], av.Ctx[ctx]
			c.SetAdd("hashfiles_argument_verdict_combinations", fmt.Sprintf("hashFiles allowed=%v, context in its arguments allowed=%v", fnOK, ctxOK))
			if !fnOK && !ctxOK {
				c.SetAdd("classes_with_unavailable_context_inside_unavailable_hashfiles", cl.Name)
			}
			if c.Idx%29 == 5 && ctx == "runner" && sh.Name == "hashFiles(ctx.prop)" {
				c.Sample(map[string]interface{}{"class": cl.Name, "table_key": c12KeyLabel(cl.Key), "src": res.Src, "expected": c12ObsList(exp), "diags": c12ShortDiags(res.Diags)})
			}
			if res.ok() {
				continue
			}
			if res.Err != nil {
				c.Violation("C12:fatal-error", "linting a probe returned a fatal error: "+res.Err.Error(), c12Detail(cl, res, exp))
				continue
			}
			switch {
			case !fnOK && c12HasName(res.Missing, false) && !c12HasName(res.Missing, true) && len(res.Spurious) == 0:
				c.Violation("C12:context-in-arguments-of-unavailable-function-not-reported",
					fmt.Sprintf("context %q is not available at position class %q (key %s) but is not reported when it occurs inside the arguments of hashFiles(), which is itself unavailable (and reported) there: the verdict depends on where in the expression the name occurs; shape %s; missing=%v", ctx, cl.Name, c12KeyLabel(cl.Key), sh.Name, res.Missing),
					c12Detail(cl, res, exp))
			case c12HasName(res.Missing, true) && !c12HasName(res.Missing, false) && len(res.Spurious) == 0:
				c.Violation("C12:function-with-context-arguments-not-reported:"+cl.Name,
					fmt.Sprintf("hashFiles() is not available at position class %q (key %s) but is not reported when its arguments mention context %q; shape %s; missing=%v", cl.Name, c12KeyLabel(cl.Key), ctx, sh.Name, res.Missing),
					c12Detail(cl, res, exp))
			default:
				pol := "not-reported"
				if len(res.Missing) == 0 {
					pol = "wrongly-reported"
				}
				c.Violation("C12:hashfiles-arguments:"+pol+":"+cl.Name,
					fmt.Sprintf("hashFiles with context %q in its arguments at position class %q (key %s), shape %s: missing=%v spurious=%v", ctx, cl.Name, c12KeyLabel(cl.Key), sh.Name, res.Missing, res.Spurious),
					c12Detail(cl, res, exp))
			}
		}
	}
}

// c12Join2 places two probes into one expression: as two arguments of an ordinary call or as two
// operands of an operator (all accept operands of any type).
func c12Join2(a, b c12Probe, shape int) c12Probe {
	var pre, mid, post string
	switch shape % 3 {
	case 0:
		pre, mid, post = "format('{0}{1}', ", ", ", ")"
	case 1:
		pre, mid, post = "", " == ", ""
	default:
		pre, mid, post = "(", " && ", ")"
	}
	q := a.wrap(pre, mid, false)
	off := len(q.Expr)
	q.Expr += b.Expr + post
	for _, n := range b.Names {
		n.Off += off
		q.Names = append(q.Names, n)
	}
	return q
}

func c12PairsCase(c *Case, g map[string]*c12Avail, cl *c12Class) {
	if g[cl.Key] == nil {
		return
	}
	type nm struct {
		name string
		fn   bool
	}
	var names []nm
	for _, n := range c12Contexts {
		names = append(names, nm{n, false})
	}
	for _, n := range c12Funcs {
		names = append(names, nm{n, true})
	}
	for i, a := range names {
		for j, b := range names {
			p := c12Join2(c12Leaf(a.name, a.fn), c12Leaf(b.name, b.fn), i+j)
			res, exp := c12Run(c, g, cl, p, "", "", false, false)
			c.Count("name_pair_lints", 1)
			c.Nontrivial("pair|" + cl.Name + "|" + a.name + "|" + b.name)
			if len(exp) == 2 {
				c.Count("name_pairs_both_reported", 1)
			}
			if res.ok() {
				continue
			}
			if res.Err != nil {
				c.Violation("C12:fatal-error", "linting a probe returned a fatal error: "+res.Err.Error(), c12Detail(cl, res, exp))
				continue
			}
			if len(exp) == 2 && len(res.Missing) == 1 && len(res.Spurious) == 0 {
				c.Violation("C12:one-of-two-unavailable-names-in-one-expression-not-reported",
					fmt.Sprintf("both %q and %q are unavailable at position class %q (key %s) and occur in one expression, but only one is reported; missing=%v", a.name, b.name, cl.Name, c12KeyLabel(cl.Key), res.Missing),
					c12Detail(cl, res, exp))
				continue
			}
			pol := "not-reported"
			if len(res.Missing) == 0 {
				pol = "wrongly-reported"
			}
			c.Violation("C12:name-pair:"+pol+":"+cl.Name,
				fmt.Sprintf("names %q and %q in one expression at position class %q (key %s): missing=%v spurious=%v", a.name, b.name, cl.Name, c12KeyLabel(cl.Key), res.Missing, res.Spurious),
				c12Detail(cl, res, exp))
		}
	}
}
